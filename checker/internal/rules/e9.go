package rules

import (
	"fmt"
	"go/ast"
	"go/constant"
	"go/parser"
	"go/token"
	"go/types"
	"sort"
	"strings"

	"canvascheck/internal/core"

	"golang.org/x/tools/go/packages"
)

// E9 — finite tables by abstract evaluation (DESIGN.md §2 E9).

var opNames = []string{"opSettle", "opAND", "opOR", "opNOT", "opXOR", "opDIV"}

// opTruth is the membership table the property states: f(op)(own, other).
var opTruth = map[string]func(a, b bool) bool{
	"opSettle": func(a, b bool) bool { return a },
	"opAND":    func(a, b bool) bool { return a && b },
	"opOR":     func(a, b bool) bool { return a || b },
	"opNOT":    func(a, b bool) bool { return a && !b },
	"opXOR":    func(a, b bool) bool { return a != b },
	"opDIV":    func(a, b bool) bool { return a },
}

var wrapperOps = map[string]string{"Settle": "opSettle", "And": "opAND", "Or": "opOR", "Not": "opNOT", "Xor": "opXOR", "DivideBy": "opDIV"}

type tri int

const (
	tFalse tri = iota
	tTrue
	tUnknown
)

func triOf(b bool) tri {
	if b {
		return tTrue
	}
	return tFalse
}

// evalBool evaluates a boolean expression over &&, ||, !, ==, != with atoms decided by env.
func evalBool(info *types.Info, e ast.Expr, env func(ast.Expr) tri) tri {
	e = core.Unparen(e)
	if v := env(e); v != tUnknown {
		return v
	}
	switch x := e.(type) {
	case *ast.UnaryExpr:
		if x.Op == token.NOT {
			switch evalBool(info, x.X, env) {
			case tTrue:
				return tFalse
			case tFalse:
				return tTrue
			}
		}
	case *ast.BinaryExpr:
		switch x.Op {
		case token.LAND:
			a, b := evalBool(info, x.X, env), evalBool(info, x.Y, env)
			if a == tFalse || b == tFalse {
				return tFalse
			}
			if a == tTrue && b == tTrue {
				return tTrue
			}
		case token.LOR:
			a, b := evalBool(info, x.X, env), evalBool(info, x.Y, env)
			if a == tTrue || b == tTrue {
				return tTrue
			}
			if a == tFalse && b == tFalse {
				return tFalse
			}
		case token.EQL, token.NEQ:
			if bt, ok := info.TypeOf(x.X).Underlying().(*types.Basic); ok && bt.Info()&types.IsBoolean != 0 {
				a, b := evalBool(info, x.X, env), evalBool(info, x.Y, env)
				if a != tUnknown && b != tUnknown {
					return triOf((a == b) == (x.Op == token.EQL))
				}
			}
		}
	case *ast.Ident:
		if x.Name == "true" {
			return tTrue
		}
		if x.Name == "false" {
			return tFalse
		}
	}
	return tUnknown
}

// opEnv decides `X == opK` / `X != opK` atoms for a fixed op value; other atoms via extra.
func opEnv(info *types.Info, opObj types.Object, val string, extra func(ast.Expr) tri) func(ast.Expr) tri {
	return func(e ast.Expr) tri {
		if be, ok := e.(*ast.BinaryExpr); ok && (be.Op == token.EQL || be.Op == token.NEQ) {
			var id *ast.Ident
			var k string
			if i, ok := core.Unparen(be.X).(*ast.Ident); ok && core.ObjOf(info, i) == opObj {
				id, k = i, core.ConstName(info, be.Y)
			} else if i, ok := core.Unparen(be.Y).(*ast.Ident); ok && core.ObjOf(info, i) == opObj {
				id, k = i, core.ConstName(info, be.X)
			}
			if id != nil && k != "" {
				return triOf((k == val) == (be.Op == token.EQL))
			}
		}
		if extra != nil {
			return extra(e)
		}
		return tUnknown
	}
}

func paramObj(info *types.Info, fd *ast.FuncDecl, idx int) types.Object {
	n := 0
	for _, f := range fd.Type.Params.List {
		for _, name := range f.Names {
			if n == idx {
				return info.Defs[name]
			}
			n++
		}
	}
	return nil
}

func recvObj(info *types.Info, fd *ast.FuncDecl) types.Object {
	if fd.Recv == nil || len(fd.Recv.List) == 0 || len(fd.Recv.List[0].Names) == 0 {
		return nil
	}
	return info.Defs[fd.Recv.List[0].Names[0]]
}

// E9Wrappers: the public boolean operations pass the constant of their name.
func E9Wrappers(c *core.Ctx, r *core.Report, only map[string]bool) {
	r.Rule("E9.wrapper", "each public boolean operation returns bentleyOttmann(receiver paths, argument paths, the op constant of its name, NonZero); Settle passes nil, opSettle and its own fill rule")
	p := c.MustPkg("")
	info := p.TypesInfo
	for _, recv := range []string{"Path", "Paths"} {
		for _, m := range []string{"Settle", "And", "Or", "Xor", "Not", "DivideBy"} {
			if only != nil && !only[m] {
				continue
			}
			fd := core.MustFuncDecl(p, recv+"."+m)
			key := "canvas." + recv + "." + m
			r.Func(key)
			r.Count("E9.wrappers", 1)
			var call *ast.CallExpr
			if len(fd.Body.List) == 1 {
				if ret, ok := fd.Body.List[0].(*ast.ReturnStmt); ok && len(ret.Results) == 1 {
					call, _ = core.Unparen(ret.Results[0]).(*ast.CallExpr)
				}
			}
			if call == nil || core.CalleeOf(info, call) == nil || core.CalleeOf(info, call).Name() != "bentleyOttmann" || len(call.Args) != 4 {
				r.Fail("E9.wrapper", key, c.Pos(fd.Pos()), "body is not a single `return bentleyOttmann(ps, qs, op, rule)`; the wrapper table cannot be read")
				continue
			}
			ro := recvObj(info, fd)
			argRoot := func(e ast.Expr) types.Object {
				e = core.Unparen(e)
				if ce, ok := e.(*ast.CallExpr); ok {
					if se, ok := ce.Fun.(*ast.SelectorExpr); ok && se.Sel.Name == "Split" && len(ce.Args) == 0 {
						e = se.X
					}
				}
				if id, ok := core.Unparen(e).(*ast.Ident); ok {
					return core.ObjOf(info, id)
				}
				return nil
			}
			var bad []string
			if argRoot(call.Args[0]) != ro || ro == nil {
				bad = append(bad, "subject operand is not the receiver")
			}
			if got := core.ConstName(info, call.Args[2]); got != wrapperOps[m] {
				bad = append(bad, fmt.Sprintf("passes %s, want %s", types.ExprString(call.Args[2]), wrapperOps[m]))
			}
			if m == "Settle" {
				if id, ok := core.Unparen(call.Args[1]).(*ast.Ident); !ok || id.Name != "nil" {
					bad = append(bad, "Settle must pass nil as clipping operand")
				}
				if argRoot(call.Args[3]) != paramObj(info, fd, 0) {
					bad = append(bad, "Settle must pass its own fill rule")
				}
			} else {
				if argRoot(call.Args[1]) != paramObj(info, fd, 0) || paramObj(info, fd, 0) == nil {
					bad = append(bad, "clipping operand is not the argument")
				}
				if core.ConstName(info, call.Args[3]) != "NonZero" {
					bad = append(bad, fmt.Sprintf("fill rule %s, want NonZero", types.ExprString(call.Args[3])))
				}
			}
			if len(bad) > 0 {
				r.Fail("E9.wrapper", key, c.Pos(call.Pos()), strings.Join(bad, "; "))
			} else {
				r.OK("E9.wrapper", key, c.Pos(call.Pos()), types.ExprString(call))
			}
		}
	}
	r.Floor("E9.wrappers", 2)
}

// E9InResult: closed-path membership truth table per op.
func E9InResult(c *core.Ctx, r *core.Report, ops []string) {
	r.Rule("E9.membership", "SweepPoint.InResult: for each op the expression assigned to the below/above fill flags, evaluated over the four valuations of (Fills(subject windings), Fills(clipping windings)) on that side, equals the property's truth table (And ∧, Or ∨, Xor ⊕, Not ∧¬, Settle/Div = subject)")
	r.Rule("E9.edge", "InResult keeps a closed edge exactly when the filling differs between its two sides (final `below != above`)")
	r.Rule("E9.exhaustive", "switches over pathOp in InResult cover all six operations")
	p := c.MustPkg("")
	info := p.TypesInfo
	fd := core.MustFuncDecl(p, "SweepPoint.InResult")
	r.Func("canvas.SweepPoint.InResult")
	opObj := paramObj(info, fd, 0)
	ruleObj := paramObj(info, fd, 1)
	if opObj == nil || ruleObj == nil {
		panic(core.Infra("InResult parameters not found"))
	}
	// classify the windings locals: (who: own|other, side: lower|upper)
	type cls struct{ who, side string }
	class := map[types.Object]cls{}
	fieldOf := func(e ast.Expr) (who string, upper bool, ok bool) {
		names := map[string]bool{}
		ast.Inspect(e, func(n ast.Node) bool {
			if se, ok := n.(*ast.SelectorExpr); ok {
				names[se.Sel.Name] = true
			}
			return true
		})
		switch {
		case names["windings"] && !names["otherWindings"]:
			who = "own"
			upper = names["selfWindings"]
			ok = !names["otherSelfWindings"] && (len(names) == 1 || upper)
		case names["otherWindings"] && !names["windings"]:
			who = "other"
			upper = names["otherSelfWindings"]
			ok = !names["selfWindings"] && (len(names) == 1 || upper)
		}
		return
	}
	var swaps [][2]types.Object
	for _, s := range fd.Body.List {
		switch x := s.(type) {
		case *ast.AssignStmt:
			if x.Tok == token.DEFINE && len(x.Lhs) == len(x.Rhs) {
				for i, l := range x.Lhs {
					id, _ := l.(*ast.Ident)
					if id == nil {
						continue
					}
					if who, up, ok := fieldOf(x.Rhs[i]); ok {
						side := "lower"
						if up {
							side = "upper"
						}
						class[info.Defs[id]] = cls{who, side}
					}
				}
			}
		case *ast.IfStmt:
			// the clipping swap: `a, b = b, a`
			for _, bs := range x.Body.List {
				if as, ok := bs.(*ast.AssignStmt); ok && as.Tok == token.ASSIGN && len(as.Lhs) == 2 && len(as.Rhs) == 2 {
					l0, _ := as.Lhs[0].(*ast.Ident)
					l1, _ := as.Lhs[1].(*ast.Ident)
					r0, _ := as.Rhs[0].(*ast.Ident)
					r1, _ := as.Rhs[1].(*ast.Ident)
					if l0 != nil && l1 != nil && r0 != nil && r1 != nil {
						a, b := core.ObjOf(info, l0), core.ObjOf(info, l1)
						if core.ObjOf(info, r0) == b && core.ObjOf(info, r1) == a {
							swaps = append(swaps, [2]types.Object{a, b})
						} else if _, ok := class[a]; ok {
							r.Fail("E9.membership", "canvas.SweepPoint.InResult|clipping-swap", c.Pos(as.Pos()), "assignment to the windings locals under `if s.clipping` is not a symmetric swap")
						}
					}
				}
			}
		}
	}
	if len(class) != 4 {
		panic(core.Infra(fmt.Sprintf("InResult: expected 4 windings locals classified from s.windings/s.otherWindings(+self), got %d", len(class))))
	}
	for _, sw := range swaps {
		a, b := class[sw[0]], class[sw[1]]
		if a.side != b.side || a.who == b.who {
			r.Fail("E9.membership", "canvas.SweepPoint.InResult|clipping-swap", c.Pos(fd.Pos()), "the clipping swap exchanges locals of different sides or of the same polygon")
		}
	}
	r.Count("E9.swap-pairs", len(swaps))
	r.Floor("E9.swap-pairs", 2)

	// find the membership switch: the switch on op whose cases assign two bool locals
	var sw *ast.SwitchStmt
	for _, s := range fd.Body.List {
		if x, ok := s.(*ast.SwitchStmt); ok {
			if id, ok := core.Unparen(x.Tag).(*ast.Ident); ok && core.ObjOf(info, id) == opObj {
				sw = x
			}
		}
	}
	if sw == nil {
		panic(core.Infra("InResult: top-level `switch op` not found"))
	}
	// the two flags are compared after the switch
	var below, above types.Object
	var edgeOK bool
	for i, s := range fd.Body.List {
		if s != ast.Stmt(sw) {
			continue
		}
		rest := fd.Body.List[i+1:]
		if len(rest) == 2 {
			if is, ok := rest[0].(*ast.IfStmt); ok && is.Else == nil && len(is.Body.List) == 1 {
				if be, ok := core.Unparen(is.Cond).(*ast.BinaryExpr); ok && be.Op == token.NEQ {
					x, _ := core.Unparen(be.X).(*ast.Ident)
					y, _ := core.Unparen(be.Y).(*ast.Ident)
					ret1, _ := is.Body.List[0].(*ast.ReturnStmt)
					ret0, _ := rest[1].(*ast.ReturnStmt)
					if x != nil && y != nil && ret1 != nil && ret0 != nil && len(ret1.Results) == 1 && len(ret0.Results) == 1 {
						v1, ok1 := core.ConstInt(info, ret1.Results[0])
						v0, ok0 := core.ConstInt(info, ret0.Results[0])
						if ok1 && ok0 && v1 != 0 && v0 == 0 {
							below, above = core.ObjOf(info, x), core.ObjOf(info, y)
							edgeOK = true
						}
					}
				}
			}
		}
	}
	if !edgeOK {
		r.Fail("E9.edge", "canvas.SweepPoint.InResult|tail", c.Pos(sw.End()), "the statements after the op switch are not `if below != above { return nonzero }; return 0`")
		return
	}
	r.OK("E9.edge", "canvas.SweepPoint.InResult|tail", c.Pos(sw.End()), "")
	// the final comparison is symmetric: which of the two flags is the below-side one is decided
	// by what it reads (a majority of lower-side windings over all cases), not by operand order
	{
		lowReads := map[types.Object]int{}
		ast.Inspect(sw, func(m ast.Node) bool {
			as, ok := m.(*ast.AssignStmt)
			if !ok || len(as.Lhs) != 1 || len(as.Rhs) != 1 {
				return true
			}
			id, ok := as.Lhs[0].(*ast.Ident)
			if !ok {
				return true
			}
			o := core.ObjOf(info, id)
			if o != below && o != above {
				return true
			}
			ast.Inspect(as.Rhs[0], func(k ast.Node) bool {
				if rid, ok := k.(*ast.Ident); ok {
					if cl, ok := class[core.ObjOf(info, rid)]; ok {
						if cl.side == "lower" {
							lowReads[o]++
						} else {
							lowReads[o]--
						}
					}
				}
				return true
			})
			return true
		})
		if lowReads[below] < lowReads[above] {
			below, above = above, below
		}
	}
	seen := map[string]bool{}
	for _, s := range sw.Body.List {
		cc := s.(*ast.CaseClause)
		for _, k := range core.CaseConsts(info, cc) {
			seen[k] = true
			want, known := opTruth[k]
			if !known {
				r.Fail("E9.exhaustive", "canvas.SweepPoint.InResult|"+k, c.Pos(cc.Pos()), "case is not one of the six pathOp constants")
				continue
			}
			inScope := false
			for _, o := range ops {
				if o == k {
					inScope = true
				}
			}
			if !inScope {
				continue
			}
			// assignments to below/above directly in the case body
			for _, flag := range []struct {
				obj  types.Object
				side string
				name string
			}{{below, "lower", "below"}, {above, "upper", "above"}} {
				key := fmt.Sprintf("canvas.SweepPoint.InResult|case %s|%s", k, flag.name)
				var rhs ast.Expr
				n := 0
				for _, bs := range cc.Body {
					if as, ok := bs.(*ast.AssignStmt); ok && len(as.Lhs) == 1 && len(as.Rhs) == 1 {
						if id, ok := as.Lhs[0].(*ast.Ident); ok && core.ObjOf(info, id) == flag.obj {
							rhs = as.Rhs[0]
							n++
						}
					}
				}
				r.Count("E9.membership-exprs", 1)
				if n != 1 {
					r.Fail("E9.membership", key, c.Pos(cc.Pos()), fmt.Sprintf("expected exactly one unconditional assignment to the %s-fills flag in this case, found %d", flag.name, n))
					continue
				}
				var table []string
				okAll := true
				var why string
				for _, own := range []bool{false, true} {
					for _, other := range []bool{false, true} {
						env := func(e ast.Expr) tri {
							call, ok := e.(*ast.CallExpr)
							if !ok || len(call.Args) != 1 {
								return tUnknown
							}
							se, ok := call.Fun.(*ast.SelectorExpr)
							if !ok || se.Sel.Name != "Fills" {
								return tUnknown
							}
							if id, ok := core.Unparen(se.X).(*ast.Ident); !ok || core.ObjOf(info, id) != ruleObj {
								why = "Fills is called on something other than the fillRule parameter"
								return tUnknown
							}
							aid, ok := core.Unparen(call.Args[0]).(*ast.Ident)
							if !ok {
								return tUnknown
							}
							cl, ok := class[core.ObjOf(info, aid)]
							if !ok {
								return tUnknown
							}
							if cl.side != flag.side {
								why = fmt.Sprintf("%s-side flag reads %s (%s side)", flag.name, aid.Name, cl.side)
								return tUnknown
							}
							if cl.who == "own" {
								return triOf(own)
							}
							return triOf(other)
						}
						got := evalBool(info, rhs, env)
						if got == tUnknown {
							okAll = false
							if why == "" {
								why = "expression is not a Boolean combination of fillRule.Fills(<subject|clipping windings of this side>)"
							}
							continue
						}
						table = append(table, fmt.Sprintf("(%v,%v)->%v", own, other, got == tTrue))
						if (got == tTrue) != want(own, other) {
							okAll = false
							why = fmt.Sprintf("for subject-filled=%v, clipping-filled=%v the expression `%s` gives %v but %s requires %v", own, other, types.ExprString(rhs), got == tTrue, k, want(own, other))
						}
					}
				}
				if okAll {
					r.OK("E9.membership", key, c.Pos(rhs.Pos()), strings.Join(table, " "))
				} else {
					r.Fail("E9.membership", key, c.Pos(rhs.Pos()), why)
				}
			}
		}
	}
	for _, k := range opNames {
		if !seen[k] {
			r.Fail("E9.exhaustive", "canvas.SweepPoint.InResult|"+k, c.Pos(sw.Pos()), "no case for "+k+" in the membership switch")
		} else {
			r.OK("E9.exhaustive", "canvas.SweepPoint.InResult|"+k, c.Pos(sw.Pos()), "")
		}
	}
	r.Floor("E9.membership-exprs", 2*len(ops))
}

// E9Shortcuts: the early-outs of bentleyOttmann agree with the truth table.
func E9Shortcuts(c *core.Ctx, r *core.Report) {
	r.Rule("E9.shortcut-group", "the disjoint-sub-path shortcut settles the sub-paths it takes out of the sweep together with the sub-paths of the same operand that enclose them, never one element at a time (a contour's fill depends on its enclosing contours)")
	r.Rule("E9.shortcut", "bentleyOttmann early-outs: when Q is empty / P is empty / a sub-path of P (Q) touches nothing of the other operand, the operand is kept exactly for the ops with f_op(1,0) (resp. f_op(0,1)) true, and dropped otherwise")
	p := c.MustPkg("")
	info := p.TypesInfo
	fd := core.MustFuncDecl(p, "bentleyOttmann")
	r.Func("canvas.bentleyOttmann")
	psObj, qsObj, opObj := paramObj(info, fd, 0), paramObj(info, fd, 1), paramObj(info, fd, 2)
	if psObj == nil || qsObj == nil || opObj == nil {
		panic(core.Infra("bentleyOttmann parameters not found"))
	}
	rootIs := func(e ast.Expr, o types.Object) bool {
		id := core.RootIdent(e)
		return id != nil && core.ObjOf(info, id) == o
	}
	isEmptyCall := func(e ast.Expr, o types.Object) bool {
		call, ok := core.Unparen(e).(*ast.CallExpr)
		if !ok {
			return false
		}
		se, ok := call.Fun.(*ast.SelectorExpr)
		return ok && se.Sel.Name == "Empty" && rootIs(se.X, o)
	}
	// classify what a return expression yields
	classify := func(e ast.Expr) string {
		e = core.Unparen(e)
		if u, ok := e.(*ast.UnaryExpr); ok && u.Op == token.AND {
			if cl, ok := u.X.(*ast.CompositeLit); ok && len(cl.Elts) == 0 {
				return "empty"
			}
		}
		if call, ok := e.(*ast.CallExpr); ok {
			if se, ok := call.Fun.(*ast.SelectorExpr); ok && se.Sel.Name == "Settle" {
				if rootIs(se.X, psObj) {
					return "P"
				}
				if rootIs(se.X, qsObj) {
					return "Q"
				}
			}
		}
		return "?"
	}
	// outcome of a statement list for a fixed op: first return reached
	var outcome func(stmts []ast.Stmt, env func(ast.Expr) tri) string
	outcome = func(stmts []ast.Stmt, env func(ast.Expr) tri) string {
		for _, s := range stmts {
			switch x := s.(type) {
			case *ast.ReturnStmt:
				if len(x.Results) == 1 {
					return classify(x.Results[0])
				}
				return "?"
			case *ast.IfStmt:
				switch evalBool(info, x.Cond, env) {
				case tTrue:
					if o := outcome(x.Body.List, env); o != "" {
						return o
					}
				case tFalse:
					if x.Else != nil {
						var o string
						if b, ok := x.Else.(*ast.BlockStmt); ok {
							o = outcome(b.List, env)
						} else {
							o = outcome([]ast.Stmt{x.Else}, env)
						}
						if o != "" {
							return o
						}
					}
				default:
					return "undecided:" + types.ExprString(x.Cond)
				}
			}
		}
		return ""
	}
	var qEmptyIf, pEmptyIf *ast.IfStmt
	settleGuard := false
	for _, s := range fd.Body.List {
		is, ok := s.(*ast.IfStmt)
		if !ok {
			continue
		}
		// `if op == opSettle { qs = nil } else if qs.Empty() { ... }`
		if be, ok := core.Unparen(is.Cond).(*ast.BinaryExpr); ok && be.Op == token.EQL && core.ConstName(info, be.Y) == "opSettle" && rootIs(be.X, opObj) {
			if len(is.Body.List) == 1 {
				if as, ok := is.Body.List[0].(*ast.AssignStmt); ok && len(as.Lhs) == 1 && rootIs(as.Lhs[0], qsObj) {
					if id, ok := as.Rhs[0].(*ast.Ident); ok && id.Name == "nil" {
						settleGuard = true
					}
				}
			}
			if e, ok := is.Else.(*ast.IfStmt); ok && isEmptyCall(e.Cond, qsObj) {
				qEmptyIf = e
			}
		}
		if isEmptyCall(is.Cond, psObj) && pEmptyIf == nil {
			pEmptyIf = is
		}
	}
	if qEmptyIf == nil || pEmptyIf == nil || !settleGuard {
		r.Fail("E9.shortcut", "canvas.bentleyOttmann|empty-operand-guards", c.Pos(fd.Pos()), "the `if op == opSettle { qs = nil } else if qs.Empty() {…}` / `if ps.Empty() {…}` early-outs were not found in the recognised shape")
		return
	}
	keep := func(k string, own, other bool) string {
		if opTruth[k](own, other) {
			if own {
				return "P"
			}
			return "Q"
		}
		return "empty"
	}
	for _, k := range opNames[1:] {
		// Q empty (op != Settle): result must be P iff f(1,0)
		got := outcome(qEmptyIf.Body.List, opEnv(info, opObj, k, nil))
		key := "canvas.bentleyOttmann|Q-empty|" + k
		r.Count("E9.shortcut-evals", 1)
		if want := keep(k, true, false); got == want {
			r.OK("E9.shortcut", key, c.Pos(qEmptyIf.Pos()), got)
		} else {
			r.Fail("E9.shortcut", key, c.Pos(qEmptyIf.Pos()), fmt.Sprintf("with an empty clipping path %s returns %q, the truth table requires %q", k, got, want))
		}
		// P empty: qs != nil holds here for op != Settle (qs.Empty() returned above)
		extra := func(e ast.Expr) tri {
			if be, ok := e.(*ast.BinaryExpr); ok && (be.Op == token.NEQ || be.Op == token.EQL) && rootIs(be.X, qsObj) {
				if id, ok := core.Unparen(be.Y).(*ast.Ident); ok && id.Name == "nil" {
					return triOf(be.Op == token.NEQ)
				}
			}
			return tUnknown
		}
		got = outcome(pEmptyIf.Body.List, opEnv(info, opObj, k, extra))
		key = "canvas.bentleyOttmann|P-empty|" + k
		r.Count("E9.shortcut-evals", 1)
		if want := keep(k, false, true); got == want {
			r.OK("E9.shortcut", key, c.Pos(pEmptyIf.Pos()), got)
		} else {
			r.Fail("E9.shortcut", key, c.Pos(pEmptyIf.Pos()), fmt.Sprintf("with an empty subject path %s returns %q, the truth table requires %q", k, got, want))
		}
	}
	// Settle: P empty -> empty
	{
		extra := func(e ast.Expr) tri {
			if be, ok := e.(*ast.BinaryExpr); ok && (be.Op == token.NEQ || be.Op == token.EQL) && rootIs(be.X, qsObj) {
				if id, ok := core.Unparen(be.Y).(*ast.Ident); ok && id.Name == "nil" {
					return triOf(be.Op == token.EQL)
				}
			}
			return tUnknown
		}
		got := outcome(pEmptyIf.Body.List, opEnv(info, opObj, "opSettle", extra))
		key := "canvas.bentleyOttmann|P-empty|opSettle"
		if got == "empty" {
			r.OK("E9.shortcut", key, c.Pos(pEmptyIf.Pos()), got)
		} else {
			r.Fail("E9.shortcut", key, c.Pos(pEmptyIf.Pos()), fmt.Sprintf("settling an empty path returns %q", got))
		}
	}
	// disjoint sub-path shortcuts: `if !XOverlaps[i] && (<op cond>) { R = R.Append(X[i].Settle(fillRule)) }`
	found := map[string]bool{}
	ast.Inspect(fd.Body, func(n ast.Node) bool {
		is, ok := n.(*ast.IfStmt)
		if !ok || len(is.Body.List) != 1 {
			return true
		}
		as, ok := is.Body.List[0].(*ast.AssignStmt)
		if !ok || len(as.Rhs) != 1 {
			return true
		}
		call, ok := core.Unparen(as.Rhs[0]).(*ast.CallExpr)
		if !ok || len(call.Args) != 1 {
			return true
		}
		se, ok := call.Fun.(*ast.SelectorExpr)
		if !ok || se.Sel.Name != "Append" {
			return true
		}
		which := classify(call.Args[0])
		if which != "P" && which != "Q" {
			return true
		}
		// flatten the conjunction: one conjunct is the negated overlap flag, the rest decide on op
		var conj []ast.Expr
		var flat func(e ast.Expr)
		flat = func(e ast.Expr) {
			if b, ok := core.Unparen(e).(*ast.BinaryExpr); ok && b.Op == token.LAND {
				flat(b.X)
				flat(b.Y)
				return
			}
			conj = append(conj, core.Unparen(e))
		}
		flat(is.Cond)
		var opConds []ast.Expr
		negs := 0
		for _, e := range conj {
			if neg, ok := e.(*ast.UnaryExpr); ok && neg.Op == token.NOT {
				if _, isIdx := core.Unparen(neg.X).(*ast.IndexExpr); isIdx {
					negs++
					continue
				}
			}
			opConds = append(opConds, e)
		}
		if negs != 1 || len(opConds) == 0 {
			return true
		}
		found[which] = true
		// grouping: the fill of a sub-path depends on the sub-paths that enclose it, so the
		// shortcut may not settle the elements one at a time
		if sc, ok := core.Unparen(call.Args[0]).(*ast.CallExpr); ok {
			if sse, ok := sc.Fun.(*ast.SelectorExpr); ok {
				gkey := "canvas.bentleyOttmann|disjoint-" + which + "|settled as a group"
				if _, single := core.Unparen(sse.X).(*ast.IndexExpr); single {
					r.Fail("E9.shortcut-group", gkey, c.Pos(sc.Pos()), fmt.Sprintf("each sub-path of %s that touches nothing of the other operand is settled on its own (`%s`): a hole contour settled alone becomes a filling contour, so an operand with a hole that is disjoint from the other operand comes back with the hole filled", which, types.ExprString(sc)))
				} else {
					r.OK("E9.shortcut-group", gkey, c.Pos(sc.Pos()), types.ExprString(sc))
				}
			}
		}
		var kept []string
		for _, k := range opNames[1:] {
			v := tTrue
			for _, oc := range opConds {
				switch evalBool(info, oc, opEnv(info, opObj, k, nil)) {
				case tFalse:
					v = tFalse
				case tUnknown:
					if v != tFalse {
						v = tUnknown
					}
				}
			}
			switch v {
			case tTrue:
				kept = append(kept, k)
			case tUnknown:
				kept = append(kept, k+"?")
			}
		}
		var want []string
		for _, k := range opNames[1:] {
			if (which == "P" && opTruth[k](true, false)) || (which == "Q" && opTruth[k](false, true)) {
				want = append(want, k)
			}
		}
		sort.Strings(kept)
		sort.Strings(want)
		key := "canvas.bentleyOttmann|disjoint-" + which
		r.Count("E9.shortcut-evals", 1)
		if strings.Join(kept, ",") == strings.Join(want, ",") {
			r.OK("E9.shortcut", key, c.Pos(is.Pos()), strings.Join(kept, ","))
		} else {
			r.Fail("E9.shortcut", key, c.Pos(is.Pos()), fmt.Sprintf("a sub-path of %s whose box touches nothing of the other operand is kept for {%s}; the truth table requires {%s} (it is not put on the sweep queue either, so for the missing ops it is lost)", which, strings.Join(kept, ","), strings.Join(want, ",")))
		}
		return true
	})
	for _, w := range []string{"P", "Q"} {
		if !found[w] {
			r.Fail("E9.shortcut", "canvas.bentleyOttmann|disjoint-"+w, c.Pos(fd.Pos()), "disjoint sub-path shortcut not found in the recognised shape")
		}
	}
	r.Floor("E9.shortcut-evals", 12)
}

// E9Fills: FillRule.Fills agrees with the rule definitions on the sign×parity domain.
func E9Fills(c *core.Ctx, r *core.Report) {
	r.Rule("E9.fills", "FillRule.Fills: each case expression is definite on the classes {neg-even, neg-odd, zero, pos-odd, pos-even} of the winding number and equals the rule's definition (NonZero: w≠0, EvenOdd: w odd, Positive: w>0, Negative: w<0); all four rules have a case")
	p := c.MustPkg("")
	info := p.TypesInfo
	fd := core.MustFuncDecl(p, "FillRule.Fills")
	r.Func("canvas.FillRule.Fills")
	wObj := paramObj(info, fd, 0)
	var sw *ast.SwitchStmt
	for _, s := range fd.Body.List {
		if x, ok := s.(*ast.SwitchStmt); ok {
			sw = x
		}
	}
	if sw == nil || wObj == nil {
		panic(core.Infra("Fills: switch not found"))
	}
	if id, ok := core.Unparen(sw.Tag).(*ast.Ident); !ok || core.ObjOf(info, id) != recvObj(info, fd) {
		r.Fail("E9.fills", "canvas.FillRule.Fills|tag", c.Pos(sw.Pos()), "switch is not on the receiver")
		return
	}
	classes := []struct {
		name string
		reps []int64
	}{
		{"neg-even", []int64{-2, -4, -6, -8}}, {"neg-odd", []int64{-1, -3, -5, -7}}, {"zero", []int64{0}},
		{"pos-odd", []int64{1, 3, 5, 7}}, {"pos-even", []int64{2, 4, 6, 8}},
	}
	want := map[string]map[string]bool{
		"NonZero":  {"neg-even": true, "neg-odd": true, "zero": false, "pos-odd": true, "pos-even": true},
		"EvenOdd":  {"neg-even": false, "neg-odd": true, "zero": false, "pos-odd": true, "pos-even": false},
		"Positive": {"neg-even": false, "neg-odd": false, "zero": false, "pos-odd": true, "pos-even": true},
		"Negative": {"neg-even": true, "neg-odd": true, "zero": false, "pos-odd": false, "pos-even": false},
	}
	seen := map[string]bool{}
	for _, s := range sw.Body.List {
		cc := s.(*ast.CaseClause)
		for _, k := range core.CaseConsts(info, cc) {
			seen[k] = true
			w, ok := want[k]
			if !ok {
				continue
			}
			var ret *ast.ReturnStmt
			if len(cc.Body) == 1 {
				ret, _ = cc.Body[0].(*ast.ReturnStmt)
			}
			if ret == nil || len(ret.Results) != 1 {
				r.Fail("E9.fills", "canvas.FillRule.Fills|case "+k, c.Pos(cc.Pos()), "case body is not a single return of a Boolean expression")
				continue
			}
			for _, cl := range classes {
				key := fmt.Sprintf("canvas.FillRule.Fills|case %s|%s", k, cl.name)
				r.Count("E9.fills-evals", 1)
				var vals []bool
				undec := false
				for _, rep := range cl.reps {
					v, ok := evalIntBool(info, ret.Results[0], wObj, rep)
					if !ok {
						undec = true
						break
					}
					vals = append(vals, v)
				}
				if undec {
					r.Fail("E9.fills", key, c.Pos(ret.Pos()), "expression `"+types.ExprString(ret.Results[0])+"` is outside the grammar the evaluator decides (comparisons, %, &, +, -, &&, ||, ! over the winding number and small constants)")
					continue
				}
				definite := true
				for _, v := range vals {
					if v != vals[0] {
						definite = false
					}
				}
				if !definite {
					r.Fail("E9.fills", key, c.Pos(ret.Pos()), fmt.Sprintf("`%s` is not constant on the class %s of winding numbers", types.ExprString(ret.Results[0]), cl.name))
				} else if vals[0] != w[cl.name] {
					r.Fail("E9.fills", key, c.Pos(ret.Pos()), fmt.Sprintf("`%s` gives %v for %s windings; rule %s requires %v", types.ExprString(ret.Results[0]), vals[0], cl.name, k, w[cl.name]))
				} else {
					r.OK("E9.fills", key, c.Pos(ret.Pos()), fmt.Sprintf("%v", vals[0]))
				}
			}
		}
	}
	for k := range want {
		if !seen[k] {
			r.Fail("E9.fills", "canvas.FillRule.Fills|case "+k, c.Pos(sw.Pos()), "fill rule "+k+" has no case and falls through to `false`")
		}
	}
	// anything after the switch must return false
	for _, s := range fd.Body.List {
		if ret, ok := s.(*ast.ReturnStmt); ok {
			if id, ok := core.Unparen(ret.Results[0]).(*ast.Ident); !ok || id.Name != "false" {
				r.Fail("E9.fills", "canvas.FillRule.Fills|default", c.Pos(ret.Pos()), "fall-through result for an unknown rule is not false")
			}
		}
	}
	r.Floor("E9.fills-evals", 20)
}

// evalIntBool evaluates a Boolean expression over one integer variable for a representative value
// with Go's integer semantics. Only a small closed grammar is accepted.
func evalIntBool(info *types.Info, e ast.Expr, v types.Object, val int64) (bool, bool) {
	var evalInt func(e ast.Expr) (int64, bool)
	evalInt = func(e ast.Expr) (int64, bool) {
		e = core.Unparen(e)
		if cv := core.ConstVal(info, e); cv != nil {
			if i, ok := constant.Int64Val(constant.ToInt(cv)); ok && i >= -4 && i <= 4 {
				return i, true
			}
			return 0, false
		}
		switch x := e.(type) {
		case *ast.Ident:
			if core.ObjOf(info, x) == v {
				return val, true
			}
		case *ast.UnaryExpr:
			if x.Op == token.SUB {
				a, ok := evalInt(x.X)
				return -a, ok
			}
		case *ast.BinaryExpr:
			a, ok1 := evalInt(x.X)
			b, ok2 := evalInt(x.Y)
			if !ok1 || !ok2 {
				return 0, false
			}
			switch x.Op {
			case token.REM:
				if b == 0 {
					return 0, false
				}
				return a % b, true
			case token.AND:
				return a & b, true
			case token.ADD:
				return a + b, true
			case token.SUB:
				return a - b, true
			}
		}
		return 0, false
	}
	var evalB func(e ast.Expr) (bool, bool)
	evalB = func(e ast.Expr) (bool, bool) {
		e = core.Unparen(e)
		switch x := e.(type) {
		case *ast.Ident:
			if x.Name == "true" {
				return true, true
			}
			if x.Name == "false" {
				return false, true
			}
		case *ast.UnaryExpr:
			if x.Op == token.NOT {
				a, ok := evalB(x.X)
				return !a, ok
			}
		case *ast.BinaryExpr:
			switch x.Op {
			case token.LAND, token.LOR:
				a, ok1 := evalB(x.X)
				b, ok2 := evalB(x.Y)
				if !ok1 || !ok2 {
					return false, false
				}
				if x.Op == token.LAND {
					return a && b, true
				}
				return a || b, true
			case token.EQL, token.NEQ, token.LSS, token.LEQ, token.GTR, token.GEQ:
				a, ok1 := evalInt(x.X)
				b, ok2 := evalInt(x.Y)
				if !ok1 || !ok2 {
					return false, false
				}
				switch x.Op {
				case token.EQL:
					return a == b, true
				case token.NEQ:
					return a != b, true
				case token.LSS:
					return a < b, true
				case token.LEQ:
					return a <= b, true
				case token.GTR:
					return a > b, true
				case token.GEQ:
					return a >= b, true
				}
			}
		}
		return false, false
	}
	return evalB(e)
}

// E9ContainsFlow: Contains returns fillRule.Fills(n) for n = Windings(x, y); Windings/Crossings visit every sub-path.
func E9ContainsFlow(c *core.Ctx, r *core.Report) {
	r.Rule("E9.contains", "Path.Contains returns fillRule.Fills(n) with n the winding number returned by p.Windings(x, y) for its own x, y")
	r.Rule("E9.subpaths", "Path.Windings and Path.Crossings range over p.Split() and call RayIntersections(x, y) on every element with their own x, y")
	p := c.MustPkg("")
	info := p.TypesInfo
	fd := core.MustFuncDecl(p, "Path.Contains")
	r.Func("canvas.Path.Contains")
	x, y, rule := paramObj(info, fd, 0), paramObj(info, fd, 1), paramObj(info, fd, 2)
	var nObj types.Object
	ast.Inspect(fd.Body, func(n ast.Node) bool {
		as, ok := n.(*ast.AssignStmt)
		if !ok || len(as.Rhs) != 1 || len(as.Lhs) != 2 {
			return true
		}
		call, ok := as.Rhs[0].(*ast.CallExpr)
		if !ok || len(call.Args) != 2 {
			return true
		}
		f := core.CalleeOf(info, call)
		if f == nil || core.QualifiedCallee(f) != core.Module+".Path.Windings" {
			return true
		}
		se := call.Fun.(*ast.SelectorExpr)
		a0, _ := core.Unparen(call.Args[0]).(*ast.Ident)
		a1, _ := core.Unparen(call.Args[1]).(*ast.Ident)
		rid, _ := core.Unparen(se.X).(*ast.Ident)
		if a0 != nil && a1 != nil && rid != nil && core.ObjOf(info, a0) == x && core.ObjOf(info, a1) == y && core.ObjOf(info, rid) == recvObj(info, fd) {
			if id, ok := as.Lhs[0].(*ast.Ident); ok {
				nObj = core.ObjOf(info, id)
			}
		}
		return true
	})
	okRet := false
	if last, ok := fd.Body.List[len(fd.Body.List)-1].(*ast.ReturnStmt); ok && len(last.Results) == 1 && nObj != nil {
		if call, ok := core.Unparen(last.Results[0]).(*ast.CallExpr); ok && len(call.Args) == 1 {
			f := core.CalleeOf(info, call)
			if f != nil && core.QualifiedCallee(f) == core.Module+".FillRule.Fills" {
				se := call.Fun.(*ast.SelectorExpr)
				rid, _ := core.Unparen(se.X).(*ast.Ident)
				aid, _ := core.Unparen(call.Args[0]).(*ast.Ident)
				if rid != nil && aid != nil && core.ObjOf(info, rid) == rule && core.ObjOf(info, aid) == nObj {
					okRet = true
				}
			}
		}
	}
	if okRet {
		r.OK("E9.contains", "canvas.Path.Contains", c.Pos(fd.Pos()), "return fillRule.Fills(n), n from p.Windings(x, y)")
	} else {
		r.Fail("E9.contains", "canvas.Path.Contains", c.Pos(fd.Pos()), "final result is not fillRule.Fills(n) with n, _ := p.Windings(x, y) on the method's own receiver and coordinates")
	}
	for _, m := range []string{"Path.Windings", "Path.Crossings"} {
		fd := core.MustFuncDecl(p, m)
		r.Func("canvas." + m)
		x, y := paramObj(info, fd, 0), paramObj(info, fd, 1)
		ok := false
		for _, s := range fd.Body.List {
			rs, isRange := s.(*ast.RangeStmt)
			if !isRange {
				continue
			}
			call, isCall := core.Unparen(rs.X).(*ast.CallExpr)
			if !isCall {
				continue
			}
			f := core.CalleeOf(info, call)
			se, _ := call.Fun.(*ast.SelectorExpr)
			if f == nil || se == nil || core.QualifiedCallee(f) != core.Module+".Path.Split" {
				continue
			}
			if rid, _ := core.Unparen(se.X).(*ast.Ident); rid == nil || core.ObjOf(info, rid) != recvObj(info, fd) {
				continue
			}
			vid, _ := rs.Value.(*ast.Ident)
			if vid == nil {
				continue
			}
			vObj := core.ObjOf(info, vid)
			// a RayIntersections(x, y) call on the range variable directly in the loop body (not under a condition)
			for _, bs := range rs.Body.List {
				var cands []ast.Expr
				switch st := bs.(type) {
				case *ast.AssignStmt:
					cands = st.Rhs
				case *ast.RangeStmt:
					cands = []ast.Expr{st.X}
				case *ast.ExprStmt:
					cands = []ast.Expr{st.X}
				}
				for _, ce := range cands {
					rc, isCall := core.Unparen(ce).(*ast.CallExpr)
					if !isCall || len(rc.Args) != 2 {
						continue
					}
					rf := core.CalleeOf(info, rc)
					rse, _ := rc.Fun.(*ast.SelectorExpr)
					if rf == nil || rse == nil || core.QualifiedCallee(rf) != core.Module+".Path.RayIntersections" {
						continue
					}
					rid, _ := core.Unparen(rse.X).(*ast.Ident)
					a0, _ := core.Unparen(rc.Args[0]).(*ast.Ident)
					a1, _ := core.Unparen(rc.Args[1]).(*ast.Ident)
					if rid != nil && a0 != nil && a1 != nil && core.ObjOf(info, rid) == vObj && core.ObjOf(info, a0) == x && core.ObjOf(info, a1) == y {
						ok = true
					}
				}
			}
		}
		if ok {
			r.OK("E9.subpaths", "canvas."+m, c.Pos(fd.Pos()), "for _, pi := range p.Split() { pi.RayIntersections(x, y) }")
		} else {
			r.Fail("E9.subpaths", "canvas."+m, c.Pos(fd.Pos()), "does not unconditionally intersect the ray (x, y) with every element of p.Split()")
		}
	}
}

var _ = packages.NeedName

// E9AbsorbedLink: a segment that absorbs the segments below it is re-linked to the first segment it did not absorb.
func E9AbsorbedLink(c *core.Ctx, r *core.Report) {
	r.Rule("E9.absorbed-link", "in the sweep, segments merged into an overlapping segment are marked `overlapped` and their windings are zeroed; they take no part in the result. A function that walks down from R.prev marking segments overlapped therefore ends, on every path on which it absorbed at least one segment, by assigning R.prev the first segment it did not absorb (the walk variable): the contour builder reads cur.prev.resultWindings to decide whether a contour is a hole, and a link to an absorbed segment always says \"outermost\"")
	p := c.MustPkg("")
	info := p.TypesInfo
	n := 0
	for _, fd := range core.AllFuncDecls(p) {
		if fd.Body == nil || !strings.HasSuffix(c.Fset.Position(fd.Pos()).Filename, "path_intersection.go") {
			continue
		}
		// walker := R.prev … for ; walker != nil; walker = walker.prev { … walker.overlapped = true … }
		for i, st := range fd.Body.List {
			loop, ok := st.(*ast.ForStmt)
			if !ok || loop.Post == nil {
				continue
			}
			post, ok := loop.Post.(*ast.AssignStmt)
			if !ok || len(post.Lhs) != 1 || len(post.Rhs) != 1 {
				continue
			}
			wid, ok := post.Lhs[0].(*ast.Ident)
			if !ok {
				continue
			}
			w := core.ObjOf(info, wid)
			sel, ok := core.Unparen(post.Rhs[0]).(*ast.SelectorExpr)
			if !ok || sel.Sel.Name != "prev" {
				continue
			}
			if id, ok := core.Unparen(sel.X).(*ast.Ident); !ok || core.ObjOf(info, id) != w {
				continue
			}
			marks := false
			ast.Inspect(loop.Body, func(m ast.Node) bool {
				if as, ok := m.(*ast.AssignStmt); ok && len(as.Lhs) == 1 {
					if ls, ok := as.Lhs[0].(*ast.SelectorExpr); ok && ls.Sel.Name == "overlapped" {
						if id, ok := core.Unparen(ls.X).(*ast.Ident); ok && core.ObjOf(info, id) == w {
							if rid, ok := as.Rhs[0].(*ast.Ident); ok && rid.Name == "true" {
								marks = true
							}
						}
					}
				}
				return true
			})
			if !marks {
				continue
			}
			// the root R: walker initialised from R.prev before the loop
			var root types.Object
			for _, before := range fd.Body.List[:i] {
				if as, ok := before.(*ast.AssignStmt); ok && len(as.Lhs) == 1 && len(as.Rhs) == 1 {
					if id, ok := as.Lhs[0].(*ast.Ident); ok && core.ObjOf(info, id) == w {
						if rs, ok := core.Unparen(as.Rhs[0]).(*ast.SelectorExpr); ok && rs.Sel.Name == "prev" {
							if rid, ok := core.Unparen(rs.X).(*ast.Ident); ok {
								root = core.ObjOf(info, rid)
							}
						}
					}
				}
			}
			if root == nil {
				continue
			}
			n++
			key := "canvas." + core.FuncName(fd) + "|re-linked past the absorbed segments"
			// after the loop: top-level statements; early returns allowed only under `walker == R.prev`
			relinked := false
			bad := ""
			for _, after := range fd.Body.List[i+1:] {
				switch x := after.(type) {
				case *ast.AssignStmt:
					if len(x.Lhs) == 1 && len(x.Rhs) == 1 {
						if ls, ok := x.Lhs[0].(*ast.SelectorExpr); ok && ls.Sel.Name == "prev" {
							if id, ok := core.Unparen(ls.X).(*ast.Ident); ok && core.ObjOf(info, id) == root {
								if rid, ok := core.Unparen(x.Rhs[0]).(*ast.Ident); ok && core.ObjOf(info, rid) == w {
									relinked = true
								}
							}
						}
					}
				case *ast.IfStmt:
					if allPathsReturn(x.Body) && x.Else == nil {
						// must be the "nothing absorbed" test: walker == R.prev
						okCond := false
						if be, ok := core.Unparen(x.Cond).(*ast.BinaryExpr); ok && be.Op == token.EQL {
							l, r2 := types.ExprString(be.X), types.ExprString(be.Y)
							want1, want2 := w.Name(), root.Name()+".prev"
							if l == want1 && r2 == want2 || l == want2 && r2 == want1 {
								okCond = true
							}
						}
						if !okCond && !relinked {
							bad = "the function can return before the re-link under `" + types.ExprString(x.Cond) + "`, which is not the nothing-absorbed test"
						}
					}
				case *ast.ReturnStmt:
					if !relinked {
						bad = "the function returns before the re-link"
					}
				}
			}
			switch {
			case bad != "":
				r.Fail("E9.absorbed-link", key, c.Pos(loop.Pos()), bad)
			case !relinked:
				r.Fail("E9.absorbed-link", key, c.Pos(loop.Pos()), fmt.Sprintf("after absorbing the segments below it, `%s.prev` is not set to the first segment that was not absorbed (`%s`): it keeps pointing at an absorbed segment, whose result windings are 0, so a hole that starts on a merged edge is built as an outer contour (counter-clockwise, filled under NonZero)", root.Name(), w.Name()))
			default:
				r.OK("E9.absorbed-link", key, c.Pos(loop.Pos()), "")
			}
		}
	}
	r.Count("E9.absorbing-walks", n)
	r.Floor("E9.absorbing-walks", 1)
}

// E9HoleParity: the contour builder reverses a finished contour exactly at odd nesting depth.
func E9HoleParity(c *core.Ctx, r *core.Report) {
	r.Rule("E9.hole-parity", "the contour builder of bentleyOttmann walks every result contour counter-clockwise and reverses it when it is a hole. With d the result nesting depth of the contour (0 outermost, 1 a hole, 2 an island in a hole, …) the condition that guards the reversal is evaluated with Go's integer semantics for d = 0…5 and must be true exactly for odd d: an island at depth 2 is a filling contour and stays counter-clockwise, otherwise its winding number is −1 and it is not filled under the Positive rule")
	p := c.MustPkg("")
	info := p.TypesInfo
	fd := core.MustFuncDecl(p, "bentleyOttmann")
	r.Func("canvas.bentleyOttmann")
	n := 0
	ast.Inspect(fd.Body, func(m ast.Node) bool {
		is, ok := m.(*ast.IfStmt)
		if !ok {
			return true
		}
		// body reverses a path built from R.d[index:]
		reverses := false
		ast.Inspect(is.Body, func(k ast.Node) bool {
			if call, ok := k.(*ast.CallExpr); ok {
				if se, ok := call.Fun.(*ast.SelectorExpr); ok && se.Sel.Name == "Reverse" {
					reverses = true
				}
			}
			return true
		})
		if !reverses {
			return true
		}
		// the integer variable of the condition
		var v types.Object
		ast.Inspect(is.Cond, func(k ast.Node) bool {
			if id, ok := k.(*ast.Ident); ok {
				if o := core.ObjOf(info, id); o != nil {
					if b, ok := o.Type().Underlying().(*types.Basic); ok && b.Kind() == types.Int {
						v = o
					}
				}
			}
			return true
		})
		if v == nil {
			return true
		}
		n++
		key := fmt.Sprintf("canvas.bentleyOttmann|hole reversal #%d|odd depth only", n)
		bad := ""
		for d := int64(0); d <= 5; d++ {
			got, ok := evalIntBool(info, is.Cond, v, d)
			if !ok {
				bad = "the condition `" + types.ExprString(is.Cond) + "` cannot be evaluated"
				break
			}
			if got != (d%2 == 1) {
				bad = fmt.Sprintf("at nesting depth %d the condition `%s` is %v: %s", d, types.ExprString(is.Cond), got, map[bool]string{true: "a filling contour is reversed to clockwise", false: "a hole stays counter-clockwise and is filled"}[got])
				break
			}
		}
		if bad == "" {
			r.OK("E9.hole-parity", key, c.Pos(is.Pos()), types.ExprString(is.Cond))
		} else {
			r.Fail("E9.hole-parity", key, c.Pos(is.Pos()), bad)
		}
		return true
	})
	r.Count("E9.hole-reversals", n)
	r.Floor("E9.hole-reversals", 1)
}

// E9WindingsSync: both end points of a result edge carry the same result winding number.
func E9WindingsSync(c *core.Ctx, r *core.Report) {
	r.Rule("E9.windings-sync", "in bentleyOttmann's contour builder the result winding number of an edge is kept on both of its end points: whenever X.resultWindings is assigned, a later statement of the same statement list, or of a statement list that encloses it within the same loop body, copies it to X.other.resultWindings — unconditionally with respect to the assignment (a copy inside another branch does not count). The depth of a new contour is read from the left end point of the edge below it, which for edges walked right-to-left is the *other* end point; a conditional copy leaves those at 0 and the contour above is built as an outer contour")
	p := c.MustPkg("")
	fd := core.MustFuncDecl(p, "bentleyOttmann")
	r.Func("canvas.bentleyOttmann")
	n := 0
	var stack []ast.Node
	ast.Inspect(fd.Body, func(m ast.Node) bool {
		if m == nil {
			stack = stack[:len(stack)-1]
			return true
		}
		stack = append(stack, m)
		as, ok := m.(*ast.AssignStmt)
		if !ok || len(as.Lhs) != 1 || as.Tok != token.ASSIGN {
			return true
		}
		sel, ok := as.Lhs[0].(*ast.SelectorExpr)
		if !ok || sel.Sel.Name != "resultWindings" {
			return true
		}
		base := types.ExprString(sel.X)
		if strings.HasSuffix(base, ".other") {
			return true
		}
		n++
		key := fmt.Sprintf("canvas.bentleyOttmann|result windings assignment #%d|copied to the other end point", n)
		synced := false
		// walk outwards through the enclosing statement lists up to the loop body
		inner := ast.Node(as)
		for i := len(stack) - 2; i >= 0 && !synced; i-- {
			var list []ast.Stmt
			switch b := stack[i].(type) {
			case *ast.BlockStmt:
				list = b.List
			case *ast.CaseClause:
				list = b.Body
			case *ast.FuncLit:
				i = -1
				continue
			}
			for _, later := range list {
				if later.Pos() <= inner.Pos() {
					continue
				}
				a2, ok := later.(*ast.AssignStmt)
				if !ok || len(a2.Lhs) != 1 || len(a2.Rhs) != 1 {
					continue
				}
				if types.ExprString(a2.Lhs[0]) == base+".other.resultWindings" && types.ExprString(a2.Rhs[0]) == base+".resultWindings" {
					synced = true
				}
			}
			if list != nil {
				inner = stack[i]
			}
			if i > 0 {
				switch stack[i-1].(type) {
				case *ast.ForStmt, *ast.RangeStmt:
					i = -1 // the body of the enclosing loop is the outermost list considered
				}
			}
		}
		if synced {
			r.OK("E9.windings-sync", key, c.Pos(as.Pos()), "")
		} else {
			r.Fail("E9.windings-sync", key, c.Pos(as.Pos()), fmt.Sprintf("`%s` is not followed, in its statement list or an enclosing one of the same loop body, by `%s.other.resultWindings = %s.resultWindings`: the other end point keeps a stale winding number", c.Src(as), base, base))
		}
		return true
	})
	r.Count("E9.result-windings-assignments", n)
	r.Floor("E9.result-windings-assignments", 2)
}

// ---- hit counting in windings / Crossings --------------------------------------------------

type hitPath struct {
	conds   []ast.Expr
	taken   []bool
	count   bool // the count is updated
	carried bool // a variable that outlives the iteration is assigned
	into    bool // two Into() results were compared
	where   token.Pos
}

// E9HitCounting: which ray hits are counted by windings and Crossings.
func E9HitCounting(c *core.Ctx, r *core.Report) {
	r.Rule("E9.tangent-not-counted", "windings and Path.Crossings: on every path through the loop over the ray's hits that updates the count, the hit was tested not to be Tangent (the ray only touches the segment: the apex of a curve level with the point), or the update is decided by comparing the Into() of the two hits that meet at a vertex")
	r.Rule("E9.endpoint-hit-consumed", "windings and Path.Crossings: a hit at the end of a segment (T[1] is 0 or 1) that is neither the ray's start nor overlapping the ray is never dropped without effect: every path through the loop body that such a hit can take either remembers it for the hit on the adjoining segment (assigns a variable that outlives the iteration) or compares its Into() with that partner's. Dropping it because its list neighbour overlaps the ray loses the crossing of a path that runs along the ray and continues in the same vertical direction (a step)")
	r.Rule("E9.overlap-skipped", "windings and Path.Crossings: a hit that overlaps the ray (Same) and is not the ray's start has no effect on the count and is not remembered as a partner: the segments before and after the overlap are paired with each other")
	p := c.MustPkg("")
	info := p.TypesInfo
	n := 0
	for _, fname := range []string{"windings", "Path.Crossings"} {
		fd := core.MustFuncDecl(p, fname)
		r.Func("canvas." + fname)
		// the loop over []Intersection
		var loop ast.Stmt
		var body *ast.BlockStmt
		var hit types.Object
		ast.Inspect(fd.Body, func(m ast.Node) bool {
			if loop != nil {
				return false
			}
			isHits := func(e ast.Expr) bool {
				t := info.TypeOf(e)
				if t == nil {
					return false
				}
				s, ok := t.Underlying().(*types.Slice)
				if !ok {
					return false
				}
				nt, ok := s.Elem().(*types.Named)
				return ok && nt.Obj().Name() == "Intersection"
			}
			switch x := m.(type) {
			case *ast.RangeStmt:
				if isHits(x.X) {
					if id, ok := x.Value.(*ast.Ident); ok {
						loop, body, hit = x, x.Body, core.ObjOf(info, id)
					}
				}
			case *ast.ForStmt:
				// for i := …; i < len(zs); … { z := zs[i] …
				if len(x.Body.List) > 0 {
					if as, ok := x.Body.List[0].(*ast.AssignStmt); ok && as.Tok == token.DEFINE && len(as.Lhs) == 1 && len(as.Rhs) == 1 {
						if ie, ok := as.Rhs[0].(*ast.IndexExpr); ok && isHits(ie.X) {
							loop, body, hit = x, x.Body, core.ObjOf(info, as.Lhs[0].(*ast.Ident))
						}
					}
				}
			}
			return true
		})
		if loop == nil || hit == nil {
			r.Fail("E9.endpoint-hit-consumed", "canvas."+fname+"|loop over the ray's hits", c.Pos(fd.Pos()), "no loop over a []Intersection with a hit variable was found")
			continue
		}
		outside := func(o types.Object) bool {
			return o != nil && (o.Pos() < loop.Pos() || o.Pos() > loop.End())
		}
		isIntoCmp := func(e ast.Expr) bool {
			found := false
			ast.Inspect(e, func(k ast.Node) bool {
				be, ok := k.(*ast.BinaryExpr)
				if !ok || (be.Op != token.EQL && be.Op != token.NEQ) {
					return true
				}
				isInto := func(e ast.Expr) bool {
					call, ok := core.Unparen(e).(*ast.CallExpr)
					if !ok {
						return false
					}
					se, ok := call.Fun.(*ast.SelectorExpr)
					return ok && se.Sel.Name == "Into"
				}
				if isInto(be.X) && isInto(be.Y) {
					found = true
				}
				return true
			})
			return found
		}
		// enumerate paths
		var paths []hitPath
		var walk func(stmts []ast.Stmt, cur hitPath, k func(hitPath))
		walk = func(stmts []ast.Stmt, cur hitPath, k func(hitPath)) {
			if len(stmts) == 0 {
				k(cur)
				return
			}
			st, rest := stmts[0], stmts[1:]
			switch x := st.(type) {
			case *ast.BranchStmt:
				paths = append(paths, cur) // continue / break end the iteration
				return
			case *ast.ReturnStmt:
				paths = append(paths, cur)
				return
			case *ast.BlockStmt:
				walk(x.List, cur, func(h hitPath) { walk(rest, h, k) })
				return
			case *ast.IfStmt:
				t, f := cur, cur
				t.conds = append(append([]ast.Expr{}, cur.conds...), x.Cond)
				t.taken = append(append([]bool{}, cur.taken...), true)
				f.conds = append(append([]ast.Expr{}, cur.conds...), x.Cond)
				f.taken = append(append([]bool{}, cur.taken...), false)
				if isIntoCmp(x.Cond) {
					t.into, f.into = true, true
				}
				walk(x.Body.List, t, func(h hitPath) { walk(rest, h, k) })
				switch e := x.Else.(type) {
				case nil:
					walk(rest, f, k)
				case *ast.BlockStmt:
					walk(e.List, f, func(h hitPath) { walk(rest, h, k) })
				case *ast.IfStmt:
					walk([]ast.Stmt{e}, f, func(h hitPath) { walk(rest, h, k) })
				}
				return
			case *ast.AssignStmt:
				for _, l := range x.Lhs {
					if id, ok := core.Unparen(l).(*ast.Ident); ok {
						o := core.ObjOf(info, id)
						if !outside(o) {
							continue
						}
						if b, ok := o.Type().Underlying().(*types.Basic); ok && b.Info()&types.IsNumeric != 0 {
							cur.count = true
							cur.where = x.Pos()
						} else {
							cur.carried = true
						}
					}
				}
			case *ast.IncDecStmt:
				if id, ok := core.Unparen(x.X).(*ast.Ident); ok && outside(core.ObjOf(info, id)) {
					cur.count = true
					cur.where = x.Pos()
				}
			}
			walk(rest, cur, k)
		}
		walk(body.List, hitPath{}, func(h hitPath) { paths = append(paths, h) })
		// assumption environments
		isHitSel := func(e ast.Expr, field string) bool {
			se, ok := core.Unparen(e).(*ast.SelectorExpr)
			if !ok || se.Sel.Name != field {
				return false
			}
			id, ok := core.Unparen(se.X).(*ast.Ident)
			return ok && core.ObjOf(info, id) == hit
		}
		isHitT := func(e ast.Expr, idx int64) bool {
			ie, ok := core.Unparen(e).(*ast.IndexExpr)
			if !ok || !isHitSel(ie.X, "T") {
				return false
			}
			v, ok := core.ConstInt(info, ie.Index)
			return ok && v == idx
		}
		// boolean locals defined once in the loop body are evaluated through their definition
		localDef := map[types.Object]ast.Expr{}
		localCnt := map[types.Object]int{}
		ast.Inspect(body, func(k ast.Node) bool {
			if as, ok := k.(*ast.AssignStmt); ok && len(as.Lhs) == len(as.Rhs) {
				for i, l := range as.Lhs {
					if id, ok := l.(*ast.Ident); ok {
						if o := core.ObjOf(info, id); o != nil && !outside(o) {
							localCnt[o]++
							localDef[o] = as.Rhs[i]
						}
					}
				}
			}
			return true
		})
		var env func(same bool, t1 float64) func(ast.Expr) tri
		env = func(same bool, t1 float64) func(ast.Expr) tri {
			return func(e ast.Expr) tri {
				if id, ok := e.(*ast.Ident); ok {
					if o := core.ObjOf(info, id); o != nil && localCnt[o] == 1 {
						if b, ok := o.Type().Underlying().(*types.Basic); ok && b.Info()&types.IsBoolean != 0 {
							return evalBool(info, localDef[o], env(same, t1))
						}
					}
				}
				if isHitSel(e, "Same") {
					return triOf(same)
				}
				if same && isHitSel(e, "Tangent") {
					return tTrue // Same implies Tangent
				}
				if be, ok := e.(*ast.BinaryExpr); ok && (be.Op == token.EQL || be.Op == token.NEQ) {
					for i, s := range []ast.Expr{be.X, be.Y} {
						o := []ast.Expr{be.Y, be.X}[i]
						f, isConst := constantFloat(core.ConstVal(info, o))
						if !isConst {
							continue
						}
						if isHitT(s, 0) && f == 0 {
							return triOf(be.Op == token.NEQ) // not the ray's start
						}
						if isHitT(s, 1) && t1 >= 0 {
							return triOf((f == t1) == (be.Op == token.EQL))
						}
					}
				}
				return tUnknown
			}
		}
		feasible := func(h hitPath, ev func(ast.Expr) tri) bool {
			for i, cnd := range h.conds {
				v := evalBool(info, cnd, ev)
				if v != tUnknown && (v == tTrue) != h.taken[i] {
					return false
				}
			}
			return true
		}
		condStr := func(h hitPath) string {
			var parts []string
			for i, cnd := range h.conds {
				s := c.Src(cnd)
				if !h.taken[i] {
					s = "!(" + s + ")"
				}
				parts = append(parts, s)
			}
			return strings.Join(parts, " && ")
		}
		// (a) tangent-not-counted
		n++
		keyA := "canvas." + fname + "|a counted hit is not tangent or is a vertex whose sides agree"
		badA := ""
		posA := fd.Pos()
		ncount := 0
		for _, h := range paths {
			if !h.count {
				continue
			}
			ncount++
			ok := false
			for i, cnd := range h.conds {
				// !X.Tangent taken, or X.Tangent not taken
				neg := false
				e := core.Unparen(cnd)
				if u, isNot := e.(*ast.UnaryExpr); isNot && u.Op == token.NOT {
					neg, e = true, core.Unparen(u.X)
				}
				if se, isSel := e.(*ast.SelectorExpr); isSel && se.Sel.Name == "Tangent" && neg == h.taken[i] {
					ok = true
				}
				if isIntoCmp(cnd) && h.taken[i] {
					ok = true
				}
			}
			if !ok && badA == "" {
				badA = condStr(h)
				posA = h.where
			}
		}
		if ncount == 0 {
			r.Fail("E9.tangent-not-counted", keyA, c.Pos(fd.Pos()), "no path through the loop updates a count")
		} else if badA != "" {
			r.Fail("E9.tangent-not-counted", keyA, c.Pos(posA), "the count is updated on the path `"+badA+"` without a test that the hit is not Tangent: a ray that only touches the apex of a curve is counted as a crossing")
		} else {
			r.OK("E9.tangent-not-counted", keyA, c.Pos(fd.Pos()), "")
		}
		// (b) endpoint-hit-consumed
		n++
		keyB := "canvas." + fname + "|an end-point hit off the ray's start and not overlapping is remembered or compared"
		badB := ""
		for _, t1 := range []float64{0, 1} {
			for _, h := range paths {
				if feasible(h, env(false, t1)) && !h.count && !h.carried && !h.into && badB == "" {
					badB = condStr(h)
				}
			}
		}
		if badB != "" {
			r.Fail("E9.endpoint-hit-consumed", keyB, c.Pos(body.Pos()), "an end-point hit can take the path `"+badB+"` on which it is neither remembered for its partner nor compared with it: the crossing of a path that continues in the same vertical direction after running along the ray is lost")
		} else {
			r.OK("E9.endpoint-hit-consumed", keyB, c.Pos(body.Pos()), "")
		}
		// (c) overlap-skipped
		n++
		keyC := "canvas." + fname + "|an overlapping hit has no effect"
		badC := ""
		for _, t1 := range []float64{0, 1, 0.5} {
			for _, h := range paths {
				if feasible(h, env(true, t1)) && (h.count || h.carried) && badC == "" {
					badC = condStr(h)
				}
			}
		}
		if badC != "" {
			r.Fail("E9.overlap-skipped", keyC, c.Pos(body.Pos()), "a hit that overlaps the ray can take the path `"+badC+"` on which it changes the count or is remembered as a partner")
		} else {
			r.OK("E9.overlap-skipped", keyC, c.Pos(body.Pos()), "")
		}
	}
	r.Count("E9.hit-counting-obligations", n)
	r.Floor("E9.hit-counting-obligations", 6)
}

// E9CubicDirection: the direction of a cubic is not taken from a derivative that can vanish.
func E9CubicDirection(c *core.Ctx, r *core.Report) {
	r.Rule("E9.cubic-direction", "The derivative of a cubic Bézier vanishes at an end point that coincides with its control point (CubeTo keeps such curves). Every use of cubicBezierDeriv's result as a direction — Angle(), Norm(), Rot90CW/CCW(), Slope() — is therefore in a function that tests that result for being zero (Equals/IsZero/comparison of its components) and substitutes the chord to the next distinct control point, as cubicBezierNormal does; uses as a speed (Length()) and inside curvature formulas are not directions. RayIntersections otherwise flags the hit at such a vertex as tangent and Windings drops it; CCW gets a zero direction")
	p := c.MustPkg("")
	info := p.TypesInfo
	n := 0
	dirMethods := map[string]bool{"Angle": true, "Norm": true, "Rot90CW": true, "Rot90CCW": true, "Slope": true, "AngleBetween": true}
	for _, fd := range core.AllFuncDecls(p) {
		if fd.Body == nil || strings.HasSuffix(c.Fset.Position(fd.Pos()).Filename, "_test.go") {
			continue
		}
		fname := "canvas." + core.FuncName(fd)
		ord := 0
		var stack []ast.Node
		ast.Inspect(fd.Body, func(m ast.Node) bool {
			if m == nil {
				stack = stack[:len(stack)-1]
				return true
			}
			stack = append(stack, m)
			call, ok := m.(*ast.CallExpr)
			if !ok {
				return true
			}
			f := core.CalleeOf(info, call)
			if f == nil || f.Pkg() != p.Types || f.Name() != "cubicBezierDeriv" {
				return true
			}
			n++
			ord++
			key := fmt.Sprintf("%s|cubicBezierDeriv use #%d is not a direction that can be zero", fname, ord)
			// immediate method call on the result?
			asDir := ""
			var v types.Object
			if len(stack) >= 3 {
				if se, ok := stack[len(stack)-2].(*ast.SelectorExpr); ok && se.X == ast.Expr(call) {
					if dirMethods[se.Sel.Name] {
						asDir = "." + se.Sel.Name + "() is applied to the derivative directly"
					}
				}
			}
			if len(stack) >= 2 {
				if as, ok := stack[len(stack)-2].(*ast.AssignStmt); ok && len(as.Lhs) == 1 && len(as.Rhs) == 1 && as.Rhs[0] == ast.Expr(call) {
					if id, ok := as.Lhs[0].(*ast.Ident); ok {
						v = core.ObjOf(info, id)
					}
				}
			}
			if v != nil {
				usedAsDir, zeroTested := "", false
				ast.Inspect(fd.Body, func(k ast.Node) bool {
					se, ok := k.(*ast.SelectorExpr)
					if !ok {
						return true
					}
					id, ok := core.Unparen(se.X).(*ast.Ident)
					if !ok || core.ObjOf(info, id) != v {
						return true
					}
					if dirMethods[se.Sel.Name] {
						usedAsDir = se.Sel.Name
					}
					if se.Sel.Name == "Equals" || se.Sel.Name == "IsZero" {
						zeroTested = true
					}
					return true
				})
				if usedAsDir != "" && !zeroTested {
					asDir = "." + usedAsDir + "() is applied to `" + v.Name() + "`, which is never tested for being zero"
				}
			}
			if asDir != "" {
				r.Fail("E9.cubic-direction", key, c.Pos(call.Pos()), asDir+": at an end point that coincides with its control point the derivative is the zero vector and the direction is lost")
			} else {
				r.OK("E9.cubic-direction", key, c.Pos(call.Pos()), "")
			}
			return true
		})
	}
	r.Count("E9.cubic-deriv-uses", n)
	r.Floor("E9.cubic-deriv-uses", 4)
}

// E9AbsorbConserves: a segment absorbed by mergeOverlapping hands over all of its own winding contributions.
func E9AbsorbConserves(c *core.Ctx, r *core.Report) {
	r.Rule("E9.absorb-conserves", "SweepPoint.mergeOverlapping folds the identical segments below s into s and zeroes them. The fields of s it accumulates into with `+=` (the contributions of the segments themselves: selfWindings for s's own path, otherSelfWindings for the other path) are exactly the fields an absorbed segment may already carry from segments it absorbed earlier. On every path through the absorbing loop each of these fields of prev is therefore added to exactly one of these fields of s, one-to-one — straight when `s.clipping == prev.clipping`, crosswise otherwise — before prev is zeroed. Dropping one transfer loses the windings of a segment that was absorbed in two steps (three segments that become identical through snapping, stacked P/Q/P): the merged edge gets a wrong inResult and the result contour cannot be closed")
	p := c.MustPkg("")
	info := p.TypesInfo
	fd := core.MustFuncDecl(p, "SweepPoint.mergeOverlapping")
	r.Func("canvas.SweepPoint.mergeOverlapping")
	recv := recvObj(info, fd)
	// the absorbing loop: a for statement whose post/init walks `X = X.prev`
	var loop *ast.ForStmt
	var prevObj types.Object
	ast.Inspect(fd.Body, func(m ast.Node) bool {
		f, ok := m.(*ast.ForStmt)
		if !ok || loop != nil {
			return true
		}
		if as, ok := f.Post.(*ast.AssignStmt); ok && len(as.Lhs) == 1 && len(as.Rhs) == 1 {
			if id, ok := as.Lhs[0].(*ast.Ident); ok {
				if se, ok := as.Rhs[0].(*ast.SelectorExpr); ok && se.Sel.Name == "prev" {
					if xid, ok := se.X.(*ast.Ident); ok && core.ObjOf(info, xid) == core.ObjOf(info, id) {
						loop, prevObj = f, core.ObjOf(info, id)
					}
				}
			}
		}
		return true
	})
	key := "canvas.SweepPoint.mergeOverlapping|every own-contribution field of the absorbed segment is handed over one-to-one"
	if loop == nil || recv == nil {
		r.Fail("E9.absorb-conserves", key, c.Pos(fd.Pos()), "the loop that walks the segments below (X = X.prev) was not found")
		return
	}
	fieldOf := func(e ast.Expr, base types.Object) string {
		se, ok := core.Unparen(e).(*ast.SelectorExpr)
		if !ok {
			return ""
		}
		id, ok := core.Unparen(se.X).(*ast.Ident)
		if !ok || core.ObjOf(info, id) != base {
			return ""
		}
		return se.Sel.Name
	}
	// accumulated fields of s
	F := map[string]bool{}
	ast.Inspect(loop.Body, func(m ast.Node) bool {
		if as, ok := m.(*ast.AssignStmt); ok && as.Tok == token.ADD_ASSIGN && len(as.Lhs) == 1 {
			if f := fieldOf(as.Lhs[0], recv); f != "" {
				F[f] = true
			}
		}
		return true
	})
	if len(F) == 0 {
		r.Fail("E9.absorb-conserves", key, c.Pos(loop.Pos()), "the absorbing loop accumulates nothing into the receiver")
		return
	}
	// enumerate paths
	type path struct {
		transfers map[string][]string // prev field -> s fields
		conds     []string
		sameClip  int // 1 true-branch of clipping equality, -1 else, 0 none
	}
	var paths []path
	var walk func(stmts []ast.Stmt, cur path, k func(path))
	clone := func(pp path) path {
		q := path{transfers: map[string][]string{}, conds: append([]string{}, pp.conds...), sameClip: pp.sameClip}
		for k, v := range pp.transfers {
			q.transfers[k] = append([]string{}, v...)
		}
		return q
	}
	isClipEq := func(e ast.Expr) int {
		be, ok := core.Unparen(e).(*ast.BinaryExpr)
		if !ok || (be.Op != token.EQL && be.Op != token.NEQ) {
			return 0
		}
		a, b := fieldOf(be.X, recv), fieldOf(be.Y, prevObj)
		if a == "" {
			a, b = fieldOf(be.Y, recv), fieldOf(be.X, prevObj)
		}
		if a == "" || a != b {
			return 0
		}
		if be.Op == token.EQL {
			return 1
		}
		return -1
	}
	walk = func(stmts []ast.Stmt, cur path, k func(path)) {
		if len(stmts) == 0 {
			k(cur)
			return
		}
		st, rest := stmts[0], stmts[1:]
		next := func(pp path) { walk(rest, pp, k) }
		switch x := st.(type) {
		case *ast.BranchStmt:
			return // break/continue: the segment is not absorbed on this path
		case *ast.BlockStmt:
			walk(x.List, cur, next)
			return
		case *ast.IfStmt:
			t, f := clone(cur), clone(cur)
			t.conds = append(t.conds, c.Src(x.Cond))
			f.conds = append(f.conds, "!("+c.Src(x.Cond)+")")
			if ce := isClipEq(x.Cond); ce != 0 {
				t.sameClip, f.sameClip = ce, -ce
			}
			walk(x.Body.List, t, next)
			switch e := x.Else.(type) {
			case nil:
				next(f)
			case *ast.BlockStmt:
				walk(e.List, f, next)
			case *ast.IfStmt:
				walk([]ast.Stmt{e}, f, next)
			}
			return
		case *ast.AssignStmt:
			if x.Tok == token.ADD_ASSIGN && len(x.Lhs) == 1 && len(x.Rhs) == 1 {
				if tf := fieldOf(x.Lhs[0], recv); tf != "" {
					if sf := fieldOf(x.Rhs[0], prevObj); sf != "" {
						cur = clone(cur)
						cur.transfers[sf] = append(cur.transfers[sf], tf)
					}
				}
			}
		}
		walk(rest, cur, k)
	}
	walk(loop.Body.List, path{transfers: map[string][]string{}}, func(pp path) { paths = append(paths, pp) })
	var fields []string
	for f := range F {
		fields = append(fields, f)
	}
	sort.Strings(fields)
	bad := ""
	for _, pp := range paths {
		used := map[string]bool{}
		identity := true
		for _, f := range fields {
			ts := pp.transfers[f]
			if len(ts) != 1 {
				bad = fmt.Sprintf("on the path `%s` the absorbed segment's %s is added to the receiver %d times", strings.Join(pp.conds, " && "), f, len(ts))
				break
			}
			if !F[ts[0]] || used[ts[0]] {
				bad = fmt.Sprintf("on the path `%s` two contributions go to the same field %s", strings.Join(pp.conds, " && "), ts[0])
				break
			}
			used[ts[0]] = true
			if ts[0] != f {
				identity = false
			}
		}
		if bad != "" {
			break
		}
		if pp.sameClip == 1 && !identity {
			bad = fmt.Sprintf("on the path `%s` (same path) the contributions are handed over crosswise", strings.Join(pp.conds, " && "))
		} else if pp.sameClip == -1 && identity && len(fields) > 1 {
			bad = fmt.Sprintf("on the path `%s` (different paths) the contributions are handed over straight", strings.Join(pp.conds, " && "))
		}
		if bad != "" {
			break
		}
	}
	if len(paths) == 0 {
		bad = "no path through the absorbing loop reaches its end"
	}
	if bad != "" {
		r.Fail("E9.absorb-conserves", key, c.Pos(loop.Pos()), bad+": the windings of a segment that had itself absorbed a segment are lost or counted for the wrong path when it is zeroed")
	} else {
		r.OK("E9.absorb-conserves", key, c.Pos(loop.Pos()), fmt.Sprintf("%d paths, fields %v", len(paths), fields))
	}
	r.Count("E9.absorb-paths", len(paths))
	r.Floor("E9.absorb-paths", 2)
}

// E9DepthFromResultEdge: the nesting depth of a new contour is read from a segment of the result.
func E9DepthFromResultEdge(c *core.Ctx, r *core.Report) {
	r.Rule("E9.depth-from-result-edge", "bentleyOttmann's contour builder takes the nesting depth of a new contour from the resultWindings of a segment below its first edge. Only segments of the result carry that number (it is assigned while their contour is built), so the segment it is read from must be established to be one: the variable is first moved down the `prev` chain past segments that are not (a loop `for X != nil && !X.F { X = X.prev }` over a boolean field F), and F is assigned from a test of `inResult` for every event before the builder starts consuming inResult (`inResult--`). Reading it from the segment directly below makes a hole whose bottom edge lies above a non-result segment an outer contour")
	p := c.MustPkg("")
	info := p.TypesInfo
	fd := core.MustFuncDecl(p, "bentleyOttmann")
	r.Func("canvas.bentleyOttmann")
	// first consumption of inResult
	firstDec := token.Pos(1 << 60)
	ast.Inspect(fd.Body, func(m ast.Node) bool {
		if ids, ok := m.(*ast.IncDecStmt); ok && ids.Tok == token.DEC {
			if se, ok := ids.X.(*ast.SelectorExpr); ok && se.Sel.Name == "inResult" && ids.Pos() < firstDec {
				firstDec = ids.Pos()
			}
		}
		return true
	})
	n := 0
	ast.Inspect(fd.Body, func(m ast.Node) bool {
		as, ok := m.(*ast.AssignStmt)
		if !ok || len(as.Rhs) != 1 {
			return true
		}
		se, ok := core.Unparen(as.Rhs[0]).(*ast.SelectorExpr)
		if !ok || se.Sel.Name != "resultWindings" {
			return true
		}
		xid, ok := core.Unparen(se.X).(*ast.Ident)
		if !ok {
			return true // copies between the two end points of one edge
		}
		// skip `X.other.resultWindings = X.resultWindings`
		if l, ok := as.Lhs[0].(*ast.SelectorExpr); ok && l.Sel.Name == "resultWindings" {
			return true
		}
		X := core.ObjOf(info, xid)
		n++
		key := fmt.Sprintf("canvas.bentleyOttmann|depth read #%d comes from a segment established to be in the result", n)
		// the skipping loop before the read
		var flag string
		ast.Inspect(fd.Body, func(k ast.Node) bool {
			f, ok := k.(*ast.ForStmt)
			if !ok || f.Cond == nil || f.Pos() > as.Pos() {
				return true
			}
			// X = X.prev in post or body
			moves := false
			ast.Inspect(f, func(q ast.Node) bool {
				if a2, ok := q.(*ast.AssignStmt); ok && len(a2.Lhs) == 1 && len(a2.Rhs) == 1 {
					if lid, ok := a2.Lhs[0].(*ast.Ident); ok && core.ObjOf(info, lid) == X {
						if s2, ok := a2.Rhs[0].(*ast.SelectorExpr); ok && s2.Sel.Name == "prev" {
							if rid, ok := s2.X.(*ast.Ident); ok && core.ObjOf(info, rid) == X {
								moves = true
							}
						}
					}
				}
				return true
			})
			if !moves {
				return true
			}
			ast.Inspect(f.Cond, func(q ast.Node) bool {
				if u, ok := q.(*ast.UnaryExpr); ok && u.Op == token.NOT {
					if s2, ok := core.Unparen(u.X).(*ast.SelectorExpr); ok {
						if rid, ok := s2.X.(*ast.Ident); ok && core.ObjOf(info, rid) == X {
							if b, ok := info.TypeOf(s2).Underlying().(*types.Basic); ok && b.Kind() == types.Bool {
								flag = s2.Sel.Name
							}
						}
					}
				}
				return true
			})
			return true
		})
		if flag == "" {
			r.Fail("E9.depth-from-result-edge", key, c.Pos(as.Pos()), fmt.Sprintf("`%s` is read without first moving `%s` down the prev chain past the segments that are not part of the result: a segment that is not in the result has resultWindings 0, so the contour above it is taken for an outer contour", c.Src(as.Rhs[0]), xid.Name))
			return true
		}
		// the flag is assigned from inResult before the first inResult--
		flagOK := false
		ast.Inspect(fd.Body, func(k ast.Node) bool {
			a2, ok := k.(*ast.AssignStmt)
			if !ok || len(a2.Lhs) != 1 || len(a2.Rhs) != 1 || a2.Pos() > firstDec {
				return true
			}
			if l, ok := a2.Lhs[0].(*ast.SelectorExpr); ok && l.Sel.Name == flag {
				mentions := false
				ast.Inspect(a2.Rhs[0], func(q ast.Node) bool {
					if s2, ok := q.(*ast.SelectorExpr); ok && s2.Sel.Name == "inResult" {
						mentions = true
					}
					return true
				})
				if mentions {
					flagOK = true
				}
			}
			return true
		})
		if !flagOK {
			r.Fail("E9.depth-from-result-edge", key, c.Pos(as.Pos()), fmt.Sprintf("the flag `%s` that the skipping loop tests is not assigned from inResult before the builder starts to consume inResult", flag))
		} else {
			r.OK("E9.depth-from-result-edge", key, c.Pos(as.Pos()), "flag "+flag)
		}
		// segments of open sub-paths are passed over as well: either the loop condition skips X.open, or the flag
		// itself excludes them where it is assigned
		key2 := fmt.Sprintf("canvas.bentleyOttmann|depth read #%d is not taken from a segment of an open sub-path", n)
		openName := sweepOpenField(p)
		boolField := func(e ast.Expr, recvObj types.Object, name string) bool {
			s2, ok := core.Unparen(e).(*ast.SelectorExpr)
			if !ok || s2.Sel.Name != name {
				return false
			}
			if recvObj == nil {
				return true
			}
			rid, ok := core.Unparen(s2.X).(*ast.Ident)
			return ok && core.ObjOf(info, rid) == recvObj
		}
		skipsOpen := false
		ast.Inspect(fd.Body, func(k ast.Node) bool {
			f, ok := k.(*ast.ForStmt)
			if !ok || f.Cond == nil || f.Pos() > as.Pos() {
				return true
			}
			ast.Inspect(f.Cond, func(q ast.Node) bool {
				b, ok := q.(*ast.BinaryExpr)
				if !ok || b.Op != token.LOR {
					return true
				}
				var atoms []ast.Expr
				var flat func(e ast.Expr)
				flat = func(e ast.Expr) {
					e = core.Unparen(e)
					if bb, ok := e.(*ast.BinaryExpr); ok && bb.Op == token.LOR {
						flat(bb.X)
						flat(bb.Y)
						return
					}
					atoms = append(atoms, e)
				}
				flat(b)
				hasFlag, hasOpen := false, false
				for _, a := range atoms {
					if u, ok := a.(*ast.UnaryExpr); ok && u.Op == token.NOT && boolField(u.X, X, flag) {
						hasFlag = true
					}
					if boolField(a, X, openName) {
						hasOpen = true
					}
				}
				if hasFlag && hasOpen {
					skipsOpen = true
				}
				return true
			})
			return true
		})
		if !skipsOpen {
			ast.Inspect(fd.Body, func(k ast.Node) bool {
				a2, ok := k.(*ast.AssignStmt)
				if !ok || len(a2.Lhs) != 1 || len(a2.Rhs) != 1 || a2.Pos() > firstDec {
					return true
				}
				if l, ok := a2.Lhs[0].(*ast.SelectorExpr); ok && l.Sel.Name == flag {
					ast.Inspect(a2.Rhs[0], func(q ast.Node) bool {
						if u, ok := q.(*ast.UnaryExpr); ok && u.Op == token.NOT && boolField(u.X, nil, openName) {
							skipsOpen = true
						}
						return true
					})
				}
				return true
			})
		}
		if skipsOpen {
			r.OK("E9.depth-from-result-edge", key2, c.Pos(as.Pos()), "")
		} else {
			r.Fail("E9.depth-from-result-edge", key2, c.Pos(as.Pos()), fmt.Sprintf("the walk down the prev chain stops at any segment with `%s`, also at one of an open sub-path: the segments of an open contour all carry the depth found where that contour started, which may be another face (an open line that enters a filled square from outside carries depth 0 inside it), so a hole directly above it is built as a filling contour. An open segment has the same face on both sides and must be passed over", flag))
		}
		return true
	})
	r.Count("E9.depth-reads", n)
	r.Floor("E9.depth-reads", 1)
}

// E9SquareRange: only segments that were tested to cross a tolerance square bound its break-up range.
func E9SquareRange(c *core.Ctx, r *core.Report) {
	r.Rule("E9.square-range", "toleranceSquares.breakupCrossingSegments: the range Lower…Upper of a tolerance square is the set of status segments that are broken up and snapped to the square's centre. Every assignment to square.Lower or square.Upper therefore stores a node that was tested to cross the square: the variable of the scan loop it sits in, after the two tests of that variable's ToleranceEdgeY against the square's top and bottom both sent the non-crossing cases away (break/continue), or the reference node square.Node under the condition that it is neither below nor above. Storing the reference node where it is known to lie below the square pulls an unrelated edge into the range: it gets a vertex at the square's centre and Settle returns a different region without any error")
	p := c.MustPkg("")
	info := p.TypesInfo
	fd := core.MustFuncDecl(p, "toleranceSquares.breakupCrossingSegments")
	r.Func("canvas.toleranceSquares.breakupCrossingSegments")
	n := 0
	var stack []ast.Node
	ast.Inspect(fd.Body, func(m ast.Node) bool {
		if m == nil {
			stack = stack[:len(stack)-1]
			return true
		}
		stack = append(stack, m)
		as, ok := m.(*ast.AssignStmt)
		if !ok || as.Tok != token.ASSIGN || len(as.Lhs) != len(as.Rhs) {
			return true
		}
		for i, l := range as.Lhs {
			se, ok := core.Unparen(l).(*ast.SelectorExpr)
			if !ok || (se.Sel.Name != "Lower" && se.Sel.Name != "Upper") {
				continue
			}
			if t := info.TypeOf(se.X); t == nil || !strings.Contains(t.String(), "toleranceSquare") {
				continue
			}
			n++
			key := fmt.Sprintf("canvas.toleranceSquares.breakupCrossingSegments|%s assignment #%d stores a node tested to cross the square", se.Sel.Name, n)
			rhs := core.Unparen(as.Rhs[i])
			okSite, why := false, ""
			switch x := rhs.(type) {
			case *ast.Ident:
				// loop variable of an enclosing scan loop, tested in the statements before
				o := core.ObjOf(info, x)
				var loop *ast.ForStmt
				var block *ast.BlockStmt
				for k := len(stack) - 2; k >= 0; k-- {
					if b, ok := stack[k].(*ast.BlockStmt); ok && block == nil {
						block = b
					}
					if f, ok := stack[k].(*ast.ForStmt); ok {
						loop = f
						break
					}
				}
				isLoopVar := false
				if loop != nil {
					defines := func(st ast.Stmt) bool {
						d, ok := st.(*ast.AssignStmt)
						if !ok {
							return false
						}
						for _, dl := range d.Lhs {
							if id, ok := dl.(*ast.Ident); ok && core.ObjOf(info, id) == o {
								return true
							}
						}
						return false
					}
					if loop.Init != nil && defines(loop.Init) {
						isLoopVar = true
					}
					if loop.Post != nil && defines(loop.Post) {
						isLoopVar = true
					}
				}
				if !isLoopVar {
					why = "`" + x.Name + "` is not the variable of the scan loop around the assignment"
					break
				}
				// in the loop body, before the assignment: `y0, y1 := V.ToleranceEdgeY(…)` and an if/else-if
				// whose two branches both end in break/continue
				edge := false
				filtered := 0
				for _, st := range loop.Body.List {
					if st.Pos() >= as.Pos() {
						break
					}
					if d, ok := st.(*ast.AssignStmt); ok && len(d.Rhs) == 1 {
						if call, ok := d.Rhs[0].(*ast.CallExpr); ok {
							if s2, ok := call.Fun.(*ast.SelectorExpr); ok && s2.Sel.Name == "ToleranceEdgeY" {
								if id, ok := core.Unparen(s2.X).(*ast.Ident); ok && core.ObjOf(info, id) == o {
									edge = true
								}
							}
						}
					}
					if is, ok := st.(*ast.IfStmt); ok && edge {
						for cur := is; cur != nil; {
							if len(cur.Body.List) > 0 {
								if b, ok := cur.Body.List[len(cur.Body.List)-1].(*ast.BranchStmt); ok && (b.Tok == token.BREAK || b.Tok == token.CONTINUE) {
									filtered++
								}
							}
							next, _ := cur.Else.(*ast.IfStmt)
							cur = next
						}
					}
				}
				// the assignment itself must be at the top level of the loop body or under an `== nil` guard of the field
				if edge && filtered >= 2 {
					okSite = true
				} else {
					why = fmt.Sprintf("the scan variable `%s` is stored without both of its non-crossing cases (above, below) having been sent away first (%d of 2 found)", x.Name, filtered)
				}
			case *ast.SelectorExpr:
				// square.Node under `!below && !above`
				if x.Sel.Name != "Node" {
					why = "`" + c.Src(x) + "` is not the reference node"
					break
				}
				guarded := false
				for k := len(stack) - 2; k >= 0; k-- {
					is, ok := stack[k].(*ast.IfStmt)
					if !ok || !(is.Body.Pos() <= as.Pos() && as.End() <= is.Body.End()) {
						continue
					}
					// condition: conjunction of two negated bool locals, each defined from square.Node.ToleranceEdgeY results
					var negs []types.Object
					var split func(e ast.Expr) bool
					split = func(e ast.Expr) bool {
						e = core.Unparen(e)
						if be, ok := e.(*ast.BinaryExpr); ok && be.Op == token.LAND {
							return split(be.X) && split(be.Y)
						}
						if u, ok := e.(*ast.UnaryExpr); ok && u.Op == token.NOT {
							if id, ok := core.Unparen(u.X).(*ast.Ident); ok {
								negs = append(negs, core.ObjOf(info, id))
								return true
							}
						}
						return false
					}
					if split(is.Cond) && len(negs) == 2 && negs[0] != negs[1] {
						guarded = true
					}
				}
				if guarded {
					okSite = true
				} else {
					why = "the reference node is stored without the guard that it is neither below nor above the square"
				}
			default:
				why = "`" + c.Src(rhs) + "` is neither the scan variable nor the reference node"
			}
			if okSite {
				r.OK("E9.square-range", key, c.Pos(as.Pos()), "")
			} else {
				r.Fail("E9.square-range", key, c.Pos(as.Pos()), why+": a segment that does not cross the tolerance square can end up in its break-up range and is snapped to a far-away point")
			}
		}
		return true
	})
	r.Count("E9.square-range-assignments", n)
	r.Floor("E9.square-range-assignments", 5)
}

// E9TangentFromRoots: whether a line touches a conic is decided from the multiplicity of the root.
func E9TangentFromRoots(c *core.Ctx, r *core.Report) {
	r.Rule("E9.tangent-from-roots", "intersectionLineCircle and intersectionLineEllipse solve a quadratic for the hits of a line with the conic and pass a `tangent` flag to addLineArcIntersection; since tangent hits are not counted by Windings, the flag must mean exactly 'the line touches': it is computed from the number of distinct roots (an expression over len(roots)), not from the value of a root. `Equal(root, 0.0)` is 'touches' only for a horizontal line and an unrotated ellipse; for a rotated ellipse it flags an ordinary crossing on the minor axis and the winding number of points on that ray is off by one (sibling agreement: the circle helper uses len(roots) == 1)")
	p := c.MustPkg("")
	info := p.TypesInfo
	n := 0
	for _, fname := range []string{"intersectionLineCircle", "intersectionLineEllipse"} {
		fd := core.MustFuncDecl(p, fname)
		r.Func("canvas." + fname)
		ast.Inspect(fd.Body, func(m ast.Node) bool {
			call, ok := m.(*ast.CallExpr)
			if !ok {
				return true
			}
			f := core.CalleeOf(info, call)
			if f == nil || f.Name() != "addLineArcIntersection" || len(call.Args) == 0 {
				return true
			}
			n++
			key := fmt.Sprintf("canvas.%s|tangent flag is the multiplicity of the root", fname)
			last := core.Unparen(call.Args[len(call.Args)-1])
			// resolve a local
			def := last
			if id, ok := last.(*ast.Ident); ok {
				o := core.ObjOf(info, id)
				ast.Inspect(fd.Body, func(k ast.Node) bool {
					if as, ok := k.(*ast.AssignStmt); ok && len(as.Lhs) == len(as.Rhs) {
						for i, l := range as.Lhs {
							if lid, ok := l.(*ast.Ident); ok && core.ObjOf(info, lid) == o {
								def = as.Rhs[i]
							}
						}
					}
					return true
				})
			}
			usesLen := false
			ast.Inspect(def, func(k ast.Node) bool {
				if lc, ok := k.(*ast.CallExpr); ok {
					if fid, ok := lc.Fun.(*ast.Ident); ok && fid.Name == "len" {
						usesLen = true
					}
				}
				return true
			})
			if usesLen {
				r.OK("E9.tangent-from-roots", key, c.Pos(call.Pos()), c.Src(def))
			} else {
				r.Fail("E9.tangent-from-roots", key, c.Pos(call.Pos()), fmt.Sprintf("the tangent flag is `%s`, which does not depend on the number of roots: a crossing can be flagged as touching and is then not counted", c.Src(def)))
			}
			return true
		})
	}
	r.Count("E9.line-conic-helpers", n)
	r.Floor("E9.line-conic-helpers", 2)
}

// E9EndpointSnap: a parameter within Epsilon of a segment end is stored as that end.
func E9EndpointSnap(c *core.Ctx, r *core.Report) {
	r.Rule("E9.endpoint-snap", "The line/curve intersection helpers flag a hit as an end point hit when its parameter is within Epsilon of 0 or 1 (Equal(root, 0.0) …), and windings/Crossings recognise end point hits by T being exactly 0 or 1. Intersections.add, through which every hit is stored, therefore snaps with the same tolerance: each of its four assignments `t = 0.0` / `t = 1.0` (both parameters) is guarded by a condition that includes Equal(t, that constant). With exact comparisons only, a root such as 0.9999999999999997 is flagged as an end point hit but classified as interior, dropped as tangent, and its partner on the adjoining segment stays unpaired")
	p := c.MustPkg("")
	info := p.TypesInfo
	fd := core.MustFuncDecl(p, "Intersections.add")
	r.Func("canvas.Intersections.add")
	n := 0
	var stack []ast.Node
	ast.Inspect(fd.Body, func(m ast.Node) bool {
		if m == nil {
			stack = stack[:len(stack)-1]
			return true
		}
		stack = append(stack, m)
		as, ok := m.(*ast.AssignStmt)
		if !ok || as.Tok != token.ASSIGN || len(as.Lhs) != 1 || len(as.Rhs) != 1 {
			return true
		}
		id, ok := as.Lhs[0].(*ast.Ident)
		if !ok {
			return true
		}
		o := core.ObjOf(info, id)
		if o == nil || paramIndex2(info, fd, o) < 0 {
			return true
		}
		k, isConst := constantFloat(core.ConstVal(info, as.Rhs[0]))
		if !isConst || (k != 0 && k != 1) {
			return true
		}
		n++
		key := fmt.Sprintf("canvas.Intersections.add|%s = %v is taken within Epsilon", id.Name, k)
		// the guarding condition: the if (or else-if) whose body holds the assignment
		var cond ast.Expr
		for i := len(stack) - 2; i >= 0; i-- {
			if is, ok := stack[i].(*ast.IfStmt); ok && is.Body.Pos() <= as.Pos() && as.End() <= is.Body.End() {
				cond = is.Cond
				break
			}
		}
		okSnap := false
		if cond != nil {
			ast.Inspect(cond, func(q ast.Node) bool {
				call, ok := q.(*ast.CallExpr)
				if !ok || len(call.Args) != 2 {
					return true
				}
				if f := core.CalleeOf(info, call); f == nil || f.Name() != "Equal" {
					return true
				}
				if aid, ok := core.Unparen(call.Args[0]).(*ast.Ident); ok && core.ObjOf(info, aid) == o {
					if v, ok := constantFloat(core.ConstVal(info, call.Args[1])); ok && v == k {
						okSnap = true
					}
				}
				return true
			})
		}
		if okSnap {
			r.OK("E9.endpoint-snap", key, c.Pos(as.Pos()), "")
		} else {
			r.Fail("E9.endpoint-snap", key, c.Pos(as.Pos()), fmt.Sprintf("the parameter `%s` is set to %v only by an exact comparison: a value within Epsilon of the end, which the helpers flag as an end point hit, keeps an interior parameter", id.Name, k))
		}
		return true
	})
	r.Count("E9.parameter-snaps", n)
	r.Floor("E9.parameter-snaps", 4)
}

func paramIndex2(info *types.Info, fd *ast.FuncDecl, o types.Object) int {
	k := 0
	for _, f := range fd.Type.Params.List {
		for _, nm := range f.Names {
			if info.Defs[nm] == o {
				return k
			}
			k++
		}
	}
	return -1
}

// E9ClipClosed: a clipping contour is closed when it is registered with the sweep.
func E9ClipClosed(c *core.Ctx, r *core.Report) {
	r.Rule("E9.clip-closed", "bentleyOttmann registers each contour with SweepEvents.AddPathEndpoints, which marks the segments of a contour that is not closed as `open`; open segments get no windings of their own and are treated as polylines to be clipped. That is meant for the subject only: the clipping operand always stands for its filled region. Every AddPathEndpoints call whose `clipping` argument is true therefore passes a variable that the same block has established to be closed: a preceding `if !X.Closed() { …; X.Close() }` (or an unconditional X.Close()) on that very variable. Passing the original element instead of the closed copy makes an unclosed clip path an empty region: And returns nothing, Not keeps everything")
	p := c.MustPkg("")
	info := p.TypesInfo
	fd := core.MustFuncDecl(p, "bentleyOttmann")
	r.Func("canvas.bentleyOttmann")
	n := 0
	var stack []ast.Node
	ast.Inspect(fd.Body, func(m ast.Node) bool {
		if m == nil {
			stack = stack[:len(stack)-1]
			return true
		}
		stack = append(stack, m)
		call, ok := m.(*ast.CallExpr)
		if !ok || len(call.Args) != 3 {
			return true
		}
		f := core.CalleeOf(info, call)
		if f == nil || f.Name() != "AddPathEndpoints" {
			return true
		}
		if id, ok := core.Unparen(call.Args[2]).(*ast.Ident); !ok || id.Name != "true" {
			return true
		}
		n++
		key := fmt.Sprintf("canvas.bentleyOttmann|clipping contour #%d is established closed before it is registered", n)
		xid, isId := core.Unparen(call.Args[0]).(*ast.Ident)
		if !isId {
			r.Fail("E9.clip-closed", key, c.Pos(call.Pos()), fmt.Sprintf("the clipping contour `%s` is not a variable that was closed in this block: an unclosed clip path is registered as open polylines", c.Src(call.Args[0])))
			return true
		}
		x := core.ObjOf(info, xid)
		// enclosing block and preceding statements
		closed := false
		for i := len(stack) - 2; i >= 0 && !closed; i-- {
			bl, ok := stack[i].(*ast.BlockStmt)
			if !ok {
				continue
			}
			for _, st := range bl.List {
				if st.Pos() >= call.Pos() {
					break
				}
				ast.Inspect(st, func(k ast.Node) bool {
					cc, ok := k.(*ast.CallExpr)
					if !ok {
						return true
					}
					if se, ok := cc.Fun.(*ast.SelectorExpr); ok && se.Sel.Name == "Close" && len(cc.Args) == 0 {
						if rid, ok := core.Unparen(se.X).(*ast.Ident); ok && core.ObjOf(info, rid) == x {
							// inside `if !X.Closed()` or unconditional
							closed = true
						}
					}
					return true
				})
			}
		}
		if closed {
			r.OK("E9.clip-closed", key, c.Pos(call.Pos()), xid.Name)
		} else {
			r.Fail("E9.clip-closed", key, c.Pos(call.Pos()), fmt.Sprintf("`%s` is registered as clipping contour but nothing in the block closes it: an unclosed clip path is then treated as open polylines and its region as empty", xid.Name))
		}
		return true
	})
	r.Count("E9.clipping-registrations", n)
	r.Floor("E9.clipping-registrations", 1)
}

// chordShortcuts examines, in a function whose parameters are the control points of a Bézier
// (first and last: the end points), every return of the chord's length under a condition: the
// curve is its chord only if each inner control point lies between the end points, which needs a
// test that is signed along the chord; PerpDot(…) == 0 alone establishes collinearity only.
func chordShortcuts(info *types.Info, fd *ast.FuncDecl, visit func(pos token.Pos, cp string, ok bool)) {
	var pts []types.Object
	for _, f := range fd.Type.Params.List {
		if t := info.TypeOf(f.Type); t == nil || !strings.HasSuffix(t.String(), "Point") {
			continue
		}
		for _, nm := range f.Names {
			pts = append(pts, info.Defs[nm])
		}
	}
	if len(pts) < 3 {
		return
	}
	first, last := pts[0], pts[len(pts)-1]
	defs := singleDefs(info, fd.Body)
	mentions := func(e ast.Node, o types.Object) bool {
		f := false
		ast.Inspect(e, func(k ast.Node) bool {
			if id, ok := k.(*ast.Ident); ok && core.ObjOf(info, id) == o {
				f = true
			}
			return true
		})
		return f
	}
	isChordLen := func(e ast.Expr) bool {
		call, ok := core.Unparen(e).(*ast.CallExpr)
		if !ok {
			return false
		}
		se, ok := call.Fun.(*ast.SelectorExpr)
		if !ok || se.Sel.Name != "Length" {
			return false
		}
		x := core.Unparen(se.X)
		if id, ok := x.(*ast.Ident); ok {
			if d, ok := defs[core.ObjOf(info, id)]; ok {
				x = core.Unparen(d)
			}
		}
		sub, ok := x.(*ast.CallExpr)
		if !ok {
			return false
		}
		ss, ok := sub.Fun.(*ast.SelectorExpr)
		if !ok || ss.Sel.Name != "Sub" || len(sub.Args) != 1 {
			return false
		}
		return mentions(ss.X, last) && mentions(sub.Args[0], first) || mentions(ss.X, first) && mentions(sub.Args[0], last)
	}
	var atoms func(e ast.Expr, out *[]ast.Expr)
	atoms = func(e ast.Expr, out *[]ast.Expr) {
		switch x := core.Unparen(e).(type) {
		case *ast.BinaryExpr:
			if x.Op == token.LAND || x.Op == token.LOR {
				atoms(x.X, out)
				atoms(x.Y, out)
				return
			}
		case *ast.UnaryExpr:
			if x.Op == token.NOT {
				atoms(x.X, out)
				return
			}
		}
		*out = append(*out, core.Unparen(e))
	}
	// does the atom use cp outside PerpDot calls?
	signedUse := func(atom ast.Expr, cp types.Object) bool {
		found := false
		var walk func(n ast.Node, inPerp bool)
		walk = func(n ast.Node, inPerp bool) {
			ast.Inspect(n, func(k ast.Node) bool {
				if k == nil || k == n {
					return true
				}
				if call, ok := k.(*ast.CallExpr); ok {
					if se, ok := call.Fun.(*ast.SelectorExpr); ok && se.Sel.Name == "PerpDot" {
						walk(se.X, true)
						for _, a := range call.Args {
							walk(a, true)
						}
						return false
					}
				}
				if id, ok := k.(*ast.Ident); ok && core.ObjOf(info, id) == cp && !inPerp {
					found = true
				}
				return true
			})
			if id, ok := n.(*ast.Ident); ok && core.ObjOf(info, id) == cp && !inPerp {
				found = true
			}
		}
		// locals: a single-definition local stands for its definition (transitively); a definition
		// that is itself a PerpDot call stays collinearity-only
		walk(atom, false)
		seen := map[types.Object]bool{}
		var expand func(n ast.Node)
		expand = func(n ast.Node) {
			ast.Inspect(n, func(k ast.Node) bool {
				id, ok := k.(*ast.Ident)
				if !ok {
					return true
				}
				o := core.ObjOf(info, id)
				d, ok := defs[o]
				if !ok || seen[o] {
					return true
				}
				seen[o] = true
				if call, ok := core.Unparen(d).(*ast.CallExpr); ok {
					if se, ok := call.Fun.(*ast.SelectorExpr); ok && se.Sel.Name == "PerpDot" {
						return true
					}
				}
				walk(d, false)
				expand(d)
				return true
			})
		}
		if !found {
			expand(atom)
		}
		return found
	}
	ast.Inspect(fd.Body, func(m ast.Node) bool {
		is, ok := m.(*ast.IfStmt)
		if !ok || len(is.Body.List) == 0 {
			return true
		}
		ret, ok := is.Body.List[len(is.Body.List)-1].(*ast.ReturnStmt)
		if !ok || len(ret.Results) != 1 || !isChordLen(ret.Results[0]) {
			return true
		}
		var as []ast.Expr
		atoms(is.Cond, &as)
		if init, ok := is.Init.(*ast.AssignStmt); ok {
			_ = init
		}
		for _, cp := range pts[1 : len(pts)-1] {
			okCP := false
			for _, a := range as {
				if signedUse(a, cp) {
					okCP = true
				}
			}
			visit(is.Pos(), cp.Name(), okCP)
		}
		return true
	})
}

// E9ChordShortcut: a Bézier is measured as its chord only when its control points lie between the end points.
func E9ChordShortcut(c *core.Ctx, r *core.Report) {
	r.Rule("E9.chord-shortcut", "the Bézier length helpers of path_util.go may return the length of the chord only where the curve is its chord: every inner control point lies on the segment between the end points. Collinearity (`chord.PerpDot(cp−p0) == 0`) is symmetric along the line and does not say on which side of an end point the control point lies; a cubic whose control points overshoot runs out and comes back, and its length exceeds the chord (`M0 0C50 0 250 0 100 0`: 209.6, not 100) — Path.CubeTo demotes only the in-between case to a line, so such cubics reach the helper. For every return of the chord length under a condition, each inner control point appears in an atom of the condition outside PerpDot (a signed test: Dot, AngleBetween, Equals, an ordering of projections). Built-in example on every run; the expected count on the tree is zero")
	// self-test
	{
		src := `package x
type Point struct{ X, Y float64 }
func (p Point) Sub(q Point) Point { return p }
func (p Point) PerpDot(q Point) float64 { return 0 }
func (p Point) Dot(q Point) float64 { return 0 }
func (p Point) Length() float64 { return 0 }
func collinearOnly(p0, p1, p2, p3 Point) float64 {
	if chord := p3.Sub(p0); chord.PerpDot(p1.Sub(p0)) == 0 && chord.PerpDot(p2.Sub(p0)) == 0 {
		return chord.Length()
	}
	return 1
}
func between(p0, p1, p2, p3 Point) float64 {
	chord := p3.Sub(p0)
	if chord.PerpDot(p1.Sub(p0)) == 0 && chord.PerpDot(p2.Sub(p0)) == 0 && 0 <= chord.Dot(p1.Sub(p0)) && 0 <= chord.Dot(p3.Sub(p1)) && 0 <= chord.Dot(p2.Sub(p0)) && 0 <= chord.Dot(p3.Sub(p2)) {
		return p3.Sub(p0).Length()
	}
	return 1
}
`
		fset := token.NewFileSet()
		f, err := parser.ParseFile(fset, "selftest.go", src, 0)
		if err != nil {
			panic(core.Infra("chord-shortcut self-test does not parse: " + err.Error()))
		}
		info := &types.Info{Types: map[ast.Expr]types.TypeAndValue{}, Uses: map[*ast.Ident]types.Object{}, Defs: map[*ast.Ident]types.Object{}, Selections: map[*ast.SelectorExpr]*types.Selection{}}
		if _, err := (&types.Config{}).Check("x", fset, []*ast.File{f}, info); err != nil {
			panic(core.Infra("chord-shortcut self-test does not type-check: " + err.Error()))
		}
		got := ""
		for _, d := range f.Decls {
			fd, ok := d.(*ast.FuncDecl)
			if !ok || fd.Recv != nil {
				continue
			}
			chordShortcuts(info, fd, func(_ token.Pos, cp string, ok bool) {
				got += fd.Name.Name + ":" + cp + map[bool]string{true: "+", false: "-"}[ok] + " "
			})
		}
		if got != "collinearOnly:p1- collinearOnly:p2- between:p1+ between:p2+ " {
			panic(core.Infra("chord-shortcut self-test: recogniser answers `" + got + "`"))
		}
		r.Count("E9.chord-shortcut-selftest", 4)
	}
	p := c.MustPkg("")
	n := 0
	for _, fd := range core.AllFuncDecls(p) {
		if !strings.HasSuffix(c.Fset.Position(fd.Pos()).Filename, "path_util.go") || !strings.HasSuffix(fd.Name.Name, "Length") {
			continue
		}
		n++
		bad := ""
		var badPos token.Pos
		sites := 0
		chordShortcuts(p.TypesInfo, fd, func(pos token.Pos, cp string, ok bool) {
			sites++
			if !ok && bad == "" {
				bad, badPos = cp, pos
			}
		})
		key := "canvas." + fd.Name.Name + "|chord length only between the end points"
		if bad == "" {
			r.OK("E9.chord-shortcut", key, c.Pos(fd.Pos()), fmt.Sprintf("%d control-point obligation(s)", sites))
		} else {
			r.Fail("E9.chord-shortcut", key, c.Pos(badPos), "the chord's length is returned under a condition that tests control point `"+bad+"` for collinearity only (PerpDot): a control point beyond an end point makes the curve run out and back, longer than the chord")
		}
	}
	r.Count("E9.length-helpers", n)
	r.Floor("E9.length-helpers", 2)
	r.Floor("E9.chord-shortcut-selftest", 4)
}

// E9EndpointPair: the two end points of a sweep segment agree on the segment's attributes.
func E9EndpointPair(c *core.Ctx, r *core.Report) {
	r.Rule("E9.endpoint-pair", "a segment of the sweep is a pair of SweepPoints linked through `other`. Attributes of the segment (clipping, open, segment, increasing, vertical) are equal on both, `left` is complementary. (1) Where a pair is created (two composite literals whose variables are made each other's `other`) the attribute fields are given the same expressions and `left` an expression and its negation. (2) SweepPoint.Reverse keeps the invariant: its assignments to s.F and s.other.F are evaluated with the invariant assumed before (s.other.increasing ≡ s.increasing, s.other.left ≡ !s.left, double negations removed) and must give equal values for increasing and complementary ones for left. computeSweepFields reads `increasing` from whichever end is the left one; if Reverse flips only the receiver, a segment reversed through its other end gets self windings of the wrong sign")
	p := c.MustPkg("")
	info := p.TypesInfo
	n := 0
	// (1) creation sites
	for _, fd := range core.AllFuncDecls(p) {
		if strings.HasSuffix(c.Fset.Position(fd.Pos()).Filename, "_test.go") {
			continue
		}
		lits := map[types.Object]*ast.CompositeLit{}
		other := map[types.Object]types.Object{}
		ast.Inspect(fd.Body, func(m ast.Node) bool {
			as, ok := m.(*ast.AssignStmt)
			if !ok || len(as.Lhs) != 1 || len(as.Rhs) != 1 {
				return true
			}
			// *a = SweepPoint{…}
			if st, ok := as.Lhs[0].(*ast.StarExpr); ok {
				if id, ok := core.Unparen(st.X).(*ast.Ident); ok {
					if cl, ok := core.Unparen(as.Rhs[0]).(*ast.CompositeLit); ok {
						if t := info.TypeOf(cl); t != nil && strings.HasSuffix(t.String(), "SweepPoint") {
							lits[core.ObjOf(info, id)] = cl
						}
					}
				}
			}
			// a.other = b
			if se, ok := as.Lhs[0].(*ast.SelectorExpr); ok && se.Sel.Name == "other" {
				a, ok1 := core.Unparen(se.X).(*ast.Ident)
				b, ok2 := core.Unparen(as.Rhs[0]).(*ast.Ident)
				if ok1 && ok2 {
					other[core.ObjOf(info, a)] = core.ObjOf(info, b)
				}
			}
			return true
		})
		done := map[types.Object]bool{}
		for a, b := range other {
			if other[b] != a || done[a] || done[b] || lits[a] == nil || lits[b] == nil {
				continue
			}
			done[a], done[b] = true, true
			n++
			key := "canvas." + core.FuncName(fd) + "|the two end points of a new segment agree"
			field := func(cl *ast.CompositeLit, name string) string {
				for _, el := range cl.Elts {
					if kv, ok := el.(*ast.KeyValueExpr); ok {
						if k, ok := kv.Key.(*ast.Ident); ok && k.Name == name {
							return squash(types.ExprString(kv.Value))
						}
					}
				}
				return ""
			}
			bad := ""
			for _, f := range []string{"clipping", "open", "segment", "increasing", "vertical"} {
				if field(lits[a], f) != field(lits[b], f) {
					bad = fmt.Sprintf("field %s is `%s` on one end and `%s` on the other", f, field(lits[a], f), field(lits[b], f))
				}
			}
			la, lb := field(lits[a], "left"), field(lits[b], "left")
			if !(la == "!"+lb || lb == "!"+la) {
				bad = fmt.Sprintf("field left is `%s` on one end and `%s` on the other, not complementary", la, lb)
			}
			if bad == "" {
				r.OK("E9.endpoint-pair", key, c.Pos(lits[a].Pos()), "")
			} else {
				r.Fail("E9.endpoint-pair", key, c.Pos(lits[a].Pos()), bad)
			}
		}
	}
	// (2) Reverse
	fd := core.MustFuncDecl(p, "SweepPoint.Reverse")
	r.Func("canvas.SweepPoint.Reverse")
	recv := recvObj(info, fd)
	// normal form of a boolean expression over the receiver's fields under the invariant: (field, negated)
	var norm func(e ast.Expr) (string, bool, bool)
	norm = func(e ast.Expr) (string, bool, bool) {
		switch x := core.Unparen(e).(type) {
		case *ast.UnaryExpr:
			if x.Op == token.NOT {
				f, neg, ok := norm(x.X)
				return f, !neg, ok
			}
		case *ast.SelectorExpr:
			names, rooted := ctxFieldPath(info, x, recv)
			if !rooted {
				return "", false, false
			}
			switch {
			case len(names) == 1:
				return names[0], false, true
			case len(names) == 2 && names[0] == "other":
				return names[1], names[1] == "left", true // other.left ≡ !left; other.F ≡ F
			}
		}
		return "", false, false
	}
	seen := map[string]bool{}
	ast.Inspect(fd.Body, func(m ast.Node) bool {
		as, ok := m.(*ast.AssignStmt)
		if !ok || len(as.Lhs) != len(as.Rhs) {
			return true
		}
		type tgt struct {
			onOther bool
			rhs     ast.Expr
		}
		byField := map[string][]tgt{}
		for i, l := range as.Lhs {
			names, rooted := ctxFieldPath(info, l, recv)
			if !rooted {
				continue
			}
			switch {
			case len(names) == 1:
				byField[names[0]] = append(byField[names[0]], tgt{false, as.Rhs[i]})
			case len(names) == 2 && names[0] == "other":
				byField[names[1]] = append(byField[names[1]], tgt{true, as.Rhs[i]})
			}
		}
		for f, ts := range byField {
			if f != "left" && f != "increasing" && f != "clipping" && f != "open" && f != "vertical" {
				continue
			}
			n++
			seen[f] = true
			key := "canvas.SweepPoint.Reverse|field " + f + " stays consistent between the two end points"
			if len(ts) != 2 || ts[0].onOther == ts[1].onOther {
				r.Fail("E9.endpoint-pair", key, c.Pos(as.Pos()), "the field is assigned on one end point only (in this statement): the other end keeps the stale value")
				continue
			}
			f0, n0, ok0 := norm(ts[0].rhs)
			f1, n1, ok1 := norm(ts[1].rhs)
			if !ok0 || !ok1 || f0 != f || f1 != f {
				r.Fail("E9.endpoint-pair", key, c.Pos(as.Pos()), "the assigned values are not expressions of the segment's own `"+f+"`")
				continue
			}
			wantEqual := f != "left"
			if (n0 == n1) == wantEqual {
				r.OK("E9.endpoint-pair", key, c.Pos(as.Pos()), "")
			} else if wantEqual {
				r.Fail("E9.endpoint-pair", key, c.Pos(as.Pos()), "after Reverse the two end points of the segment disagree on `"+f+"` (`"+types.ExprString(ts[0].rhs)+"` vs `"+types.ExprString(ts[1].rhs)+"` with both equal before): whoever reads it from the other end point sees the stale direction")
			} else {
				r.Fail("E9.endpoint-pair", key, c.Pos(as.Pos()), "after Reverse both end points have the same `left`")
			}
		}
		return true
	})
	for _, f := range []string{"left", "increasing"} {
		if !seen[f] {
			n++
			r.Fail("E9.endpoint-pair", "canvas.SweepPoint.Reverse|field "+f+" stays consistent between the two end points", c.Pos(fd.Pos()), "Reverse does not update `"+f+"` on the pair")
		}
	}
	r.Count("E9.endpoint-pair-sites", n)
	r.Floor("E9.endpoint-pair-sites", 3)
}

// E9TangentBothWays: a tangency test by angle covers the antiparallel direction as well.
func E9TangentBothWays(c *core.Ctx, r *core.Report) {
	r.Rule("E9.tangent-both-ways", "intersectionLineQuad and intersectionLineCube flag a hit as tangent when the curve's direction at the hit is parallel to the line, whichever way the curve is traversed: windings()/Crossings() skip an interior tangent hit, and a contour and its reverse touch a ray at the same point. The tangent operand handed to Intersections.add (locals resolved through all their assignments) is built from direction-symmetric tests — a vanishing Dot/PerpDot, equality of points, a root count — or, where it compares angles with angleEqual(a, b), it also contains angleEqual(a, b ± π). With the parallel half alone, a ray touching the top of a counter-clockwise Bézier contour is counted as a crossing: Windings and Crossings are off by one there and Contains reports an outside point as inside")
	p := c.MustPkg("")
	info := p.TypesInfo
	n := 0
	for _, fname := range []string{"intersectionLineQuad", "intersectionLineCube"} {
		fd := core.MustFuncDecl(p, fname)
		r.Func("canvas." + fname)
		// all assignments of bool locals
		defs := map[types.Object][]ast.Expr{}
		ast.Inspect(fd.Body, func(m ast.Node) bool {
			as, ok := m.(*ast.AssignStmt)
			if !ok || len(as.Lhs) != len(as.Rhs) {
				return true
			}
			for i, l := range as.Lhs {
				if id, ok := l.(*ast.Ident); ok {
					o := core.ObjOf(info, id)
					if b, ok := o.Type().Underlying().(*types.Basic); ok && b.Kind() == types.Bool {
						defs[o] = append(defs[o], as.Rhs[i])
					}
				}
			}
			return true
		})
		ord := 0
		ast.Inspect(fd.Body, func(m ast.Node) bool {
			call, ok := m.(*ast.CallExpr)
			if !ok || len(call.Args) != 7 {
				return true
			}
			se, ok := call.Fun.(*ast.SelectorExpr)
			if !ok || se.Sel.Name != "add" {
				return true
			}
			ord++
			n++
			key := fmt.Sprintf("canvas.%s|tangent operand of add #%d", fname, ord)
			// angleEqual atoms reachable from the operand
			var atoms []*ast.CallExpr
			seen := map[types.Object]bool{}
			var collect func(e ast.Expr)
			collect = func(e ast.Expr) {
				ast.Inspect(e, func(k ast.Node) bool {
					switch x := k.(type) {
					case *ast.CallExpr:
						if f := core.CalleeOf(info, x); f != nil && f.Name() == "angleEqual" && len(x.Args) == 2 {
							atoms = append(atoms, x)
						}
					case *ast.Ident:
						o := core.ObjOf(info, x)
						if ds, ok := defs[o]; ok && !seen[o] {
							seen[o] = true
							for _, d := range ds {
								collect(d)
							}
						}
					}
					return true
				})
			}
			collect(call.Args[5])
			// strip a ± math.Pi term
			base := func(e ast.Expr) (string, bool) {
				e = core.Unparen(e)
				if be, ok := e.(*ast.BinaryExpr); ok && (be.Op == token.ADD || be.Op == token.SUB) {
					isPi := func(x ast.Expr) bool {
						s, ok := core.Unparen(x).(*ast.SelectorExpr)
						if !ok {
							return false
						}
						pk, ok := s.X.(*ast.Ident)
						return ok && pk.Name == "math" && s.Sel.Name == "Pi"
					}
					if isPi(be.Y) {
						return squash(types.ExprString(be.X)), true
					}
					if be.Op == token.ADD && isPi(be.X) {
						return squash(types.ExprString(be.Y)), true
					}
				}
				return squash(types.ExprString(e)), false
			}
			type form struct{ plain, turned bool }
			forms := map[string]*form{}
			for _, a := range atoms {
				// unordered pair of the two arguments' bases
				b0, t0 := base(a.Args[0])
				b1, t1 := base(a.Args[1])
				k := b0 + "~" + b1
				if b1 < b0 {
					k = b1 + "~" + b0
				}
				if forms[k] == nil {
					forms[k] = &form{}
				}
				if t0 != t1 {
					forms[k].turned = true
				} else {
					forms[k].plain = true
				}
			}
			bad := ""
			for k, f := range forms {
				if f.plain != f.turned {
					bad = k
				}
			}
			if bad == "" {
				r.OK("E9.tangent-both-ways", key, c.Pos(call.Pos()), fmt.Sprintf("%d angle test(s), each with its half turn", len(atoms)))
			} else {
				r.Fail("E9.tangent-both-ways", key, c.Pos(call.Pos()), "the tangent flag compares the directions "+strings.ReplaceAll(bad, "~", " and ")+" with angleEqual in one orientation only: a curve that runs the other way through the touching point is not recognised as tangent and the touch is counted as a crossing")
			}
			return true
		})
	}
	r.Count("E9.tangent-operands", n)
	r.Floor("E9.tangent-operands", 2)
}

// E9CopyDropsStatusNode: a struct copy of a sweep point does not keep the original's place in the status.
func E9CopyDropsStatusNode(c *core.Ctx, r *core.Report) {
	r.Rule("E9.copy-drops-status-node", "a SweepPoint's `node` field is its place in the sweep status (a tree node that points back at that one point), and `node != nil` is how the sweep asks whether a left end point is in the status. SweepPoint.SplitAt creates the end points of the second half by struct copy; the copy of the receiver — the left end point that is in the status — becomes the left end point of a segment that is only queued, so its `node` is cleared (assigned) in the same function. Otherwise two points claim one status node, and the guard of splitAtIntersections for a segment that `was already in the sweep status` fires on legal input: three edges through one non-vertex point make all five operations panic")
	p := c.MustPkg("")
	info := p.TypesInfo
	n := 0
	for _, fd := range core.AllFuncDecls(p) {
		if !strings.HasSuffix(c.Fset.Position(fd.Pos()).Filename, "path_intersection.go") || fd.Recv == nil || core.RecvName(fd) != "SweepPoint" {
			continue
		}
		recv := recvObj(info, fd)
		// copies `*A = *recv` (also inside a tuple assignment)
		var copies []types.Object
		ast.Inspect(fd.Body, func(m ast.Node) bool {
			as, ok := m.(*ast.AssignStmt)
			if !ok || len(as.Lhs) != len(as.Rhs) {
				return true
			}
			for i, l := range as.Lhs {
				ls, ok1 := l.(*ast.StarExpr)
				rs, ok2 := core.Unparen(as.Rhs[i]).(*ast.StarExpr)
				if !ok1 || !ok2 {
					continue
				}
				lid, ok1 := core.Unparen(ls.X).(*ast.Ident)
				rid, ok2 := core.Unparen(rs.X).(*ast.Ident)
				if ok1 && ok2 && core.ObjOf(info, rid) == recv {
					copies = append(copies, core.ObjOf(info, lid))
				}
			}
			return true
		})
		for _, cp := range copies {
			n++
			key := fmt.Sprintf("canvas.SweepPoint.%s|copy `%s` of the receiver gives up the status node", fd.Name.Name, cp.Name())
			cleared := false
			ast.Inspect(fd.Body, func(m ast.Node) bool {
				as, ok := m.(*ast.AssignStmt)
				if !ok {
					return true
				}
				for _, l := range as.Lhs {
					if se, ok := l.(*ast.SelectorExpr); ok && se.Sel.Name == "node" {
						if id, ok := core.Unparen(se.X).(*ast.Ident); ok && core.ObjOf(info, id) == cp {
							cleared = true
						}
					}
				}
				return true
			})
			if cleared {
				r.OK("E9.copy-drops-status-node", key, c.Pos(fd.Pos()), "")
			} else {
				r.Fail("E9.copy-drops-status-node", key, c.Pos(fd.Pos()), "the copy keeps the receiver's `node`: the new point is only queued, but `node != nil` reports it as being in the sweep status")
			}
		}
	}
	r.Count("E9.status-node-copies", n)
	r.Floor("E9.status-node-copies", 1)
}

// E9WindingInherited: the winding numbers below a segment come from the segment below it whenever there is one.
func E9WindingInherited(c *core.Ctx, r *core.Report) {
	r.Rule("E9.winding-inherited", "SweepPoint.computeSweepFields derives the winding numbers below the current segment from the nearest non-vertical segment below it: that segment's own winding numbers plus its contribution. A segment of an open sub-path contributes nothing but still lies in a face and carries that face's numbers, so the inheritance may depend on nothing but the existence of such a segment (and on whether both belong to the same operand, which swaps the two counters). Every assignment of the receiver's windings/otherWindings from the fields of the segment below is reached under conditions that are only nil tests of that segment and comparisons of the `clipping` flags; the walk that skips segments skips vertical ones only. Any further condition (`!prev.open`) restarts the count at zero above some segments, and contours inside a filled face are kept or dropped wrongly")
	p := c.MustPkg("")
	info := p.TypesInfo
	fd := core.MustFuncDecl(p, "SweepPoint.computeSweepFields")
	r.Func("canvas.SweepPoint.computeSweepFields")
	recv := info.Defs[fd.Recv.List[0].Names[0]]
	var below types.Object
	if fd.Type.Params.NumFields() > 0 && len(fd.Type.Params.List[0].Names) > 0 {
		below = info.Defs[fd.Type.Params.List[0].Names[0]]
	}
	if recv == nil || below == nil {
		panic(core.Infra("computeSweepFields: receiver / first parameter not found"))
	}
	mentions := func(e ast.Node, o types.Object) bool {
		hit := false
		ast.Inspect(e, func(m ast.Node) bool {
			if id, ok := m.(*ast.Ident); ok && core.ObjOf(info, id) == o {
				hit = true
			}
			return !hit
		})
		return hit
	}
	// atoms of a path condition: (expr, polarity) with && split under positive and || under negative polarity
	type atom struct {
		e   ast.Expr
		pos bool
	}
	var split func(e ast.Expr, pos bool, out *[]atom)
	split = func(e ast.Expr, pos bool, out *[]atom) {
		e = core.Unparen(e)
		if u, ok := e.(*ast.UnaryExpr); ok && u.Op == token.NOT {
			split(u.X, !pos, out)
			return
		}
		if b, ok := e.(*ast.BinaryExpr); ok && ((b.Op == token.LAND && pos) || (b.Op == token.LOR && !pos)) {
			split(b.X, pos, out)
			split(b.Y, pos, out)
			return
		}
		*out = append(*out, atom{e, pos})
	}
	allowed := func(a atom) bool {
		b, ok := a.e.(*ast.BinaryExpr)
		if !ok || (b.Op != token.EQL && b.Op != token.NEQ) {
			return false
		}
		isNil := func(e ast.Expr) bool {
			id, ok := core.Unparen(e).(*ast.Ident)
			return ok && id.Name == "nil"
		}
		isBelow := func(e ast.Expr) bool {
			id, ok := core.Unparen(e).(*ast.Ident)
			return ok && core.ObjOf(info, id) == below
		}
		if (isNil(b.X) && isBelow(b.Y)) || (isNil(b.Y) && isBelow(b.X)) {
			return true
		}
		isClip := func(e ast.Expr) bool {
			se, ok := core.Unparen(e).(*ast.SelectorExpr)
			return ok && se.Sel.Name == "clipping"
		}
		return isClip(b.X) && isClip(b.Y)
	}
	n := 0
	var walk func(list []ast.Stmt, conds []atom)
	var stmt func(s ast.Stmt, conds []atom)
	stmt = func(s ast.Stmt, conds []atom) {
		switch x := s.(type) {
		case *ast.BlockStmt:
			walk(x.List, conds)
		case *ast.IfStmt:
			var t, f []atom
			t = append(t, conds...)
			f = append(f, conds...)
			split(x.Cond, true, &t)
			split(x.Cond, false, &f)
			walk(x.Body.List, t)
			if x.Else != nil {
				stmt(x.Else, f)
			}
		case *ast.ForStmt:
			// the walk down: `for below != nil && below.F { below = below.prev }` may skip vertical segments only
			if x.Cond != nil && mentions(x.Cond, below) {
				var as []atom
				split(x.Cond, true, &as)
				for _, a := range as {
					if allowed(a) {
						continue
					}
					n++
					key := "canvas.SweepPoint.computeSweepFields|segments skipped below|" + types.ExprString(a.e)
					se, ok := a.e.(*ast.SelectorExpr)
					if ok && a.pos && se.Sel.Name == "vertical" {
						r.OK("E9.winding-inherited", key, c.Pos(x.Pos()), "")
					} else {
						r.Fail("E9.winding-inherited", key, c.Pos(x.Pos()), fmt.Sprintf("the walk to the segment below also skips segments with `%s`: only vertical segments have no face above them; skipping others takes the winding numbers from the wrong face", types.ExprString(a.e)))
					}
				}
			}
			walk(x.Body.List, conds)
		case *ast.AssignStmt:
			for i, l := range x.Lhs {
				se, ok := core.Unparen(l).(*ast.SelectorExpr)
				if !ok || !mentions(se.X, recv) || (se.Sel.Name != "windings" && se.Sel.Name != "otherWindings") {
					continue
				}
				if len(x.Lhs) != len(x.Rhs) || !mentions(x.Rhs[i], below) {
					continue
				}
				n++
				key := fmt.Sprintf("canvas.SweepPoint.computeSweepFields|%s inherited #%d", se.Sel.Name, n)
				bad := ""
				for _, a := range conds {
					if !allowed(a) {
						neg := ""
						if !a.pos {
							neg = "not "
						}
						bad = neg + "`" + types.ExprString(a.e) + "`"
					}
				}
				if bad == "" {
					r.OK("E9.winding-inherited", key, c.Pos(x.Pos()), fmt.Sprintf("%d conditions, all nil tests of the segment below or comparisons of clipping", len(conds)))
				} else {
					r.Fail("E9.winding-inherited", key, c.Pos(x.Pos()), fmt.Sprintf("`%s` takes the winding numbers from the segment below only when %s holds: a segment that contributes no winding of its own (an open sub-path) still lies in a face whose winding numbers it carries, so when the condition fails the count restarts at zero and the contour above is judged as if nothing enclosed it", types.ExprString(l)+" = "+types.ExprString(x.Rhs[i]), bad))
				}
			}
		}
	}
	walk = func(list []ast.Stmt, conds []atom) {
		for _, s := range list {
			stmt(s, conds)
		}
	}
	walk(fd.Body.List, nil)
	r.Count("E9.winding-inherited", n)
	r.Floor("E9.winding-inherited", 3)
}

// sweepOpenField names the boolean field of SweepPoint that marks a segment of an open sub-path: the one whose
// negation guards the assignment of the receiver's own winding contribution in computeSweepFields.
func sweepOpenField(p *packages.Package) string {
	info := p.TypesInfo
	fd := core.MustFuncDecl(p, "SweepPoint.computeSweepFields")
	recv := info.Defs[fd.Recv.List[0].Names[0]]
	name := ""
	ast.Inspect(fd.Body, func(m ast.Node) bool {
		is, ok := m.(*ast.IfStmt)
		if !ok {
			return true
		}
		u, ok := core.Unparen(is.Cond).(*ast.UnaryExpr)
		if !ok || u.Op != token.NOT {
			return true
		}
		se, ok := core.Unparen(u.X).(*ast.SelectorExpr)
		if !ok {
			return true
		}
		if id, ok := core.Unparen(se.X).(*ast.Ident); !ok || core.ObjOf(info, id) != recv {
			return true
		}
		assignsSelf := false
		ast.Inspect(is.Body, func(k ast.Node) bool {
			if as, ok := k.(*ast.AssignStmt); ok {
				for _, l := range as.Lhs {
					if ls, ok := l.(*ast.SelectorExpr); ok && ls.Sel.Name == "selfWindings" {
						assignsSelf = true
					}
				}
			}
			return true
		})
		if assignsSelf && name == "" {
			name = se.Sel.Name
		}
		return true
	})
	if name == "" {
		panic(core.Infra("computeSweepFields: the guard `!recv.F` of the self-winding assignment was not found"))
	}
	return name
}

// E9PendingPerSubpath: the pending end-point hit does not outlive the sub-path it belongs to.
func E9PendingPerSubpath(c *core.Ctx, r *core.Report) {
	r.Rule("E9.pending-per-subpath", "the ray-casting counters (windings, Path.Crossings, Path.Windings) pair a hit at the end of one segment with the hit on the adjoining segment of the same sub-path through a pointer variable that takes the address of an element of the hit list (`&zs[i]`). The hit list is computed per sub-path. The variable therefore starts each sub-path empty: it is declared inside the body of the innermost loop (or function) in which the hit list is computed, or assigned nil in that body before the loop over the hits. Hoisted out of the loop over sub-paths, an unpaired hit left by one sub-path (an open one that ends level with the point) is paired with a vertex of the next, and a crossing is lost")
	p := c.MustPkg("")
	info := p.TypesInfo
	n := 0
	for _, fd := range core.AllFuncDecls(p) {
		if fd.Body == nil || strings.HasSuffix(c.Fset.Position(fd.Pos()).Filename, "_test.go") {
			continue
		}
		// pointer variables assigned &S[i] where S is a slice of Intersection
		type pend struct {
			v     types.Object
			slice types.Object
			pos   token.Pos
		}
		var ps []pend
		ast.Inspect(fd.Body, func(m ast.Node) bool {
			as, ok := m.(*ast.AssignStmt)
			if !ok || len(as.Lhs) != 1 || len(as.Rhs) != 1 {
				return true
			}
			u, ok := core.Unparen(as.Rhs[0]).(*ast.UnaryExpr)
			if !ok || u.Op != token.AND {
				return true
			}
			ie, ok := core.Unparen(u.X).(*ast.IndexExpr)
			if !ok {
				return true
			}
			sid, ok := core.Unparen(ie.X).(*ast.Ident)
			lid, ok2 := as.Lhs[0].(*ast.Ident)
			if !ok || !ok2 {
				return true
			}
			t := info.TypeOf(sid)
			sl, isSl := t.Underlying().(*types.Slice)
			if !isSl {
				return true
			}
			if nt, ok := sl.Elem().(*types.Named); !ok || nt.Obj().Name() != "Intersection" {
				return true
			}
			for _, q := range ps {
				if q.v == core.ObjOf(info, lid) {
					return true
				}
			}
			ps = append(ps, pend{core.ObjOf(info, lid), core.ObjOf(info, sid), as.Pos()})
			return true
		})
		for _, q := range ps {
			if q.v == nil || q.slice == nil {
				continue
			}
			n++
			key := fmt.Sprintf("canvas.%s|pending hit `%s` starts empty for every hit list", core.FuncName(fd), q.v.Name())
			// the block in which the slice is defined (its innermost enclosing loop body or the function body)
			var home *ast.BlockStmt = fd.Body
			var stack []ast.Node
			ast.Inspect(fd.Body, func(m ast.Node) bool {
				if m == nil {
					stack = stack[:len(stack)-1]
					return true
				}
				stack = append(stack, m)
				if id, ok := m.(*ast.Ident); ok && info.Defs[id] == q.slice {
					for i := len(stack) - 1; i >= 0; i-- {
						switch l := stack[i].(type) {
						case *ast.ForStmt:
							home = l.Body
							i = -1
						case *ast.RangeStmt:
							home = l.Body
							i = -1
						}
					}
				}
				return true
			})
			inHome := home.Pos() <= q.v.Pos() && q.v.Pos() < home.End()
			resetFirst := false
			if !inHome {
				// `v = nil` as a statement of the home block before the loop over the hits
				for _, s := range home.List {
					if as, ok := s.(*ast.AssignStmt); ok && len(as.Lhs) == 1 && len(as.Rhs) == 1 {
						if lid, ok := as.Lhs[0].(*ast.Ident); ok && core.ObjOf(info, lid) == q.v {
							if rid, ok := core.Unparen(as.Rhs[0]).(*ast.Ident); ok && rid.Name == "nil" {
								resetFirst = true
							}
						}
					}
					if s.Pos() <= q.pos && q.pos < s.End() {
						break
					}
				}
			}
			if inHome || resetFirst {
				r.OK("E9.pending-per-subpath", key, c.Pos(q.pos), "")
			} else {
				r.Fail("E9.pending-per-subpath", key, c.Pos(q.pos), fmt.Sprintf("`%s` holds the address of an element of `%s`, which is computed anew in every iteration of the enclosing loop, but is declared outside that loop and not reset at its top: a hit left unpaired by one sub-path is paired with a hit of the next sub-path, which belongs to another contour, and that crossing is not counted", q.v.Name(), q.slice.Name()))
			}
		}
	}
	r.Count("E9.pending-per-subpath", n)
	r.Floor("E9.pending-per-subpath", 2)
}

// E9InflectionAcrossLine: the crossing test at a parallel tangent applies the tangency functional to the next derivative.
func E9InflectionAcrossLine(c *core.Ctx, r *core.Report) {
	r.Rule("E9.inflection-across-line", "intersectionLineCube marks a hit as a touch when the curve's derivative has no component across the line: `tangent := Equal(F(deriv), 0)` with F the product with the line's normal. Where the tangent is parallel, the curve still crosses when the distance to the line has a triple root, i.e. when the second derivative has no component across the line either. The condition under which `tangent` is set back to false is therefore the same functional applied to the second derivative — `Equal(F(deriv2), 0)`, F textually the one of the tangency test with the derivative variable replaced — and not a test that the second derivative vanishes in both coordinates, which holds only for curves that are locally straight")
	p := c.MustPkg("")
	info := p.TypesInfo
	fd := core.MustFuncDecl(p, "intersectionLineCube")
	r.Func("canvas.intersectionLineCube")
	key := "canvas.intersectionLineCube|crossing at a parallel tangent decided by the second derivative across the line"
	r.Count("E9.inflection-across-line", 1)
	// tangent := Equal(F(deriv), 0.0)
	var tangent types.Object
	var functional ast.Expr
	var d1 types.Object
	callee := func(e ast.Expr) string {
		if call, ok := core.Unparen(e).(*ast.CallExpr); ok {
			if f := core.CalleeOf(info, call); f != nil {
				return f.Name()
			}
		}
		return ""
	}
	derivOf := map[types.Object]string{}
	ast.Inspect(fd.Body, func(m ast.Node) bool {
		as, ok := m.(*ast.AssignStmt)
		if !ok || len(as.Lhs) != 1 || len(as.Rhs) != 1 {
			return true
		}
		lid, ok := as.Lhs[0].(*ast.Ident)
		if !ok {
			return true
		}
		switch name := callee(as.Rhs[0]); name {
		case "cubicBezierDirection", "cubicBezierDeriv", "cubicBezierDeriv2", "cubicBezierDeriv3":
			derivOf[core.ObjOf(info, lid)] = name
		case "Equal":
			call := core.Unparen(as.Rhs[0]).(*ast.CallExpr)
			if len(call.Args) == 2 && tangent == nil {
				for o, which := range derivOf {
					if which == "cubicBezierDirection" || which == "cubicBezierDeriv" {
						found := false
						ast.Inspect(call.Args[0], func(k ast.Node) bool {
							if id, ok := k.(*ast.Ident); ok && core.ObjOf(info, id) == o {
								found = true
							}
							return true
						})
						if found {
							tangent, functional, d1 = core.ObjOf(info, lid), call.Args[0], o
						}
					}
				}
			}
		}
		return true
	})
	if tangent == nil {
		r.Fail("E9.inflection-across-line", key, c.Pos(fd.Pos()), "the tangency test `t := Equal(F(derivative), 0)` was not found in intersectionLineCube")
		return
	}
	// the if statement whose body sets tangent = false
	var guard *ast.IfStmt
	ast.Inspect(fd.Body, func(m ast.Node) bool {
		is, ok := m.(*ast.IfStmt)
		if !ok {
			return true
		}
		for _, s := range is.Body.List {
			if as, ok := s.(*ast.AssignStmt); ok && len(as.Lhs) == 1 && len(as.Rhs) == 1 {
				if lid, ok := as.Lhs[0].(*ast.Ident); ok && core.ObjOf(info, lid) == tangent {
					if rid, ok := core.Unparen(as.Rhs[0]).(*ast.Ident); ok && rid.Name == "false" {
						guard = is
					}
				}
			}
		}
		return true
	})
	if guard == nil {
		r.Fail("E9.inflection-across-line", key, c.Pos(fd.Pos()), "no branch sets the touch flag back to false: a cubic that crosses the line at an inflection with parallel tangent is never counted")
		return
	}
	// expected: Equal(F[deriv := d2], 0)
	var d2 types.Object
	for o, which := range derivOf {
		if which == "cubicBezierDeriv2" {
			ast.Inspect(guard.Cond, func(k ast.Node) bool {
				if id, ok := k.(*ast.Ident); ok && core.ObjOf(info, id) == o {
					d2 = o
				}
				return true
			})
		}
	}
	if d2 == nil {
		r.Fail("E9.inflection-across-line", key, c.Pos(guard.Pos()), fmt.Sprintf("the condition `%s` does not look at the second derivative", types.ExprString(guard.Cond)))
		return
	}
	want := strings.ReplaceAll(" "+types.ExprString(functional)+" ", d1.Name(), d2.Name())
	want = strings.TrimSpace(want)
	good := false
	if call, ok := core.Unparen(guard.Cond).(*ast.CallExpr); ok && callee(call) == "Equal" && len(call.Args) == 2 {
		got := types.ExprString(call.Args[0])
		// the scalar product is symmetric
		if dc, ok := core.Unparen(call.Args[0]).(*ast.CallExpr); ok && len(dc.Args) == 1 {
			if se, ok := dc.Fun.(*ast.SelectorExpr); ok && se.Sel.Name == "Dot" && got != want {
				got = types.ExprString(dc.Args[0]) + ".Dot(" + types.ExprString(se.X) + ")"
			}
		}
		if got == want {
			if v := core.ConstVal(info, call.Args[1]); v != nil && numSign(v) == 0 {
				good = true
			}
		}
	}
	if good {
		r.OK("E9.inflection-across-line", key, c.Pos(guard.Pos()), types.ExprString(guard.Cond))
	} else {
		r.Fail("E9.inflection-across-line", key, c.Pos(guard.Pos()), fmt.Sprintf("the touch flag is cleared under `%s`; the distance to the line has a triple root — the curve crosses — when `Equal(%s, 0.0)`: the second derivative need only have no component across the line, it does not vanish at the inflection of an ordinary cubic. With the stronger test a cubic crossing the ray at its inflection is a touch, and a point inside gets winding number 0", types.ExprString(guard.Cond), want))
	}
}

// E9DepthDerivedAfterRead: what is recorded on a result edge is derived from the depth after it was read.
func E9DepthDerivedAfterRead(c *core.Ctx, r *core.Report) {
	r.Rule("E9.depth-derived-after-read", "the contour builder of bentleyOttmann starts a contour with a depth variable at 0, reads it from the nearest result edge below (`w = X.resultWindings`) and records on every edge of the new contour the depth below it, or that plus one on the edges that have the contour's interior above them. Every local that a right-hand side of a `.resultWindings` assignment mentions and that is itself computed from the depth variable gets that value after the statement that reads the depth. A helper computed before the read (`above := w; above++` hoisted to the top) is always 1: right at depth 0, of the right parity at depth 2, but a hole's bottom edge records 1 instead of 2 and an island inside the hole is taken for a hole and reversed")
	p := c.MustPkg("")
	info := p.TypesInfo
	fd := core.MustFuncDecl(p, "bentleyOttmann")
	r.Func("canvas.bentleyOttmann")
	// the depth read
	var depth types.Object
	var readPos token.Pos
	ast.Inspect(fd.Body, func(m ast.Node) bool {
		as, ok := m.(*ast.AssignStmt)
		if !ok || len(as.Lhs) != 1 || len(as.Rhs) != 1 {
			return true
		}
		lid, ok := as.Lhs[0].(*ast.Ident)
		if !ok {
			return true
		}
		if se, ok := core.Unparen(as.Rhs[0]).(*ast.SelectorExpr); ok && se.Sel.Name == "resultWindings" && depth == nil {
			depth, readPos = core.ObjOf(info, lid), as.Pos()
		}
		return true
	})
	if depth == nil {
		r.Fail("E9.depth-derived-after-read", "canvas.bentleyOttmann|depth read", c.Pos(fd.Pos()), "the statement that reads the depth of a new contour from a result edge (`w = X.resultWindings`) was not found")
		return
	}
	mentions := func(e ast.Node, o types.Object) bool {
		hit := false
		ast.Inspect(e, func(m ast.Node) bool {
			if id, ok := m.(*ast.Ident); ok && core.ObjOf(info, id) == o {
				hit = true
			}
			return !hit
		})
		return hit
	}
	// definitions of locals in terms of the depth
	type def struct {
		pos token.Pos
		src string
	}
	derived := map[types.Object][]def{}
	ast.Inspect(fd.Body, func(m ast.Node) bool {
		as, ok := m.(*ast.AssignStmt)
		if !ok || len(as.Lhs) != len(as.Rhs) {
			return true
		}
		for i, l := range as.Lhs {
			lid, ok := l.(*ast.Ident)
			if !ok {
				continue
			}
			o := core.ObjOf(info, lid)
			if o != nil && o != depth && mentions(as.Rhs[i], depth) {
				derived[o] = append(derived[o], def{as.Pos(), c.Src(as)})
			}
		}
		return true
	})
	n := 0
	ast.Inspect(fd.Body, func(m ast.Node) bool {
		as, ok := m.(*ast.AssignStmt)
		if !ok || len(as.Lhs) != 1 || len(as.Rhs) != 1 {
			return true
		}
		sel, ok := as.Lhs[0].(*ast.SelectorExpr)
		if !ok || sel.Sel.Name != "resultWindings" {
			return true
		}
		if rs, ok := core.Unparen(as.Rhs[0]).(*ast.SelectorExpr); ok && rs.Sel.Name == "resultWindings" {
			return true // the copy to the other end point
		}
		n++
		key := fmt.Sprintf("canvas.bentleyOttmann|recorded depth #%d is derived from the depth as read", n)
		bad := ""
		ast.Inspect(as.Rhs[0], func(k ast.Node) bool {
			id, ok := k.(*ast.Ident)
			if !ok {
				return true
			}
			for _, d := range derived[core.ObjOf(info, id)] {
				if d.pos < readPos && as.Pos() > readPos {
					bad = fmt.Sprintf("`%s` (computed by `%s`, before the depth is read)", id.Name, d.src)
				}
			}
			return true
		})
		if bad == "" {
			r.OK("E9.depth-derived-after-read", key, c.Pos(as.Pos()), c.Src(as))
		} else {
			r.Fail("E9.depth-derived-after-read", key, c.Pos(as.Pos()), fmt.Sprintf("`%s` records %s: it was derived from the depth variable while that still held its initial 0, so every edge with the interior above it records 1 whatever the nesting depth. A hole's bottom edge then carries 1 instead of 2, and a contour that reads its depth from it (an island in the hole) is built as a hole: reversed, winding −1", c.Src(as), bad))
		}
		return true
	})
	r.Count("E9.recorded-depths", n)
	r.Floor("E9.recorded-depths", 2)
}

// E9AdjacentAlwaysTested: segments that become neighbours in the sweep status are tested against each other whatever they belong to.
func E9AdjacentAlwaysTested(c *core.Ctx, r *core.Report) {
	r.Rule("E9.adjacent-always-tested", "Bentley–Ottmann finds every crossing because two segments are tested against each other at the moment they become neighbours in the status: when a segment enters (against the one below and the one above) and when a segment leaves (its two neighbours against each other). In the main sweep of bentleyOttmann — the branches on the current event being a left or a right end point — every call of addIntersections is reached under nothing but that branch and nil tests of the neighbours: no condition on the operation, on the operand a segment belongs to, or on anything else. Two segments of one operand that were separated by a segment of the other operand when the later one entered meet only when the separator leaves; skipping the test there loses their crossing and the operand's contours come out unresolved")
	p := c.MustPkg("")
	info := p.TypesInfo
	fd := core.MustFuncDecl(p, "bentleyOttmann")
	r.Func("canvas.bentleyOttmann")
	type atom struct {
		e   ast.Expr
		pos bool
	}
	var split func(e ast.Expr, pos bool, out *[]atom)
	split = func(e ast.Expr, pos bool, out *[]atom) {
		e = core.Unparen(e)
		if u, ok := e.(*ast.UnaryExpr); ok && u.Op == token.NOT {
			split(u.X, !pos, out)
			return
		}
		if b, ok := e.(*ast.BinaryExpr); ok && ((b.Op == token.LAND && pos) || (b.Op == token.LOR && !pos)) {
			split(b.X, pos, out)
			split(b.Y, pos, out)
			return
		}
		*out = append(*out, atom{e, pos})
	}
	isNilTest := func(a atom) bool {
		b, ok := a.e.(*ast.BinaryExpr)
		if !ok || (b.Op != token.EQL && b.Op != token.NEQ) {
			return false
		}
		for _, side := range []ast.Expr{b.X, b.Y} {
			if id, ok := core.Unparen(side).(*ast.Ident); ok && id.Name == "nil" {
				return true
			}
		}
		return false
	}
	isLeftTest := func(a atom) bool {
		se, ok := a.e.(*ast.SelectorExpr)
		return ok && se.Sel.Name == "left"
	}
	n := 0
	var walk func(n ast.Node, conds []atom)
	visitCalls := func(st ast.Node, conds []atom) {
		ast.Inspect(st, func(m ast.Node) bool {
			switch x := m.(type) {
			case *ast.IfStmt, *ast.BlockStmt, *ast.ForStmt, *ast.RangeStmt, *ast.SwitchStmt, *ast.FuncLit:
				if m != st {
					return false
				}
			case *ast.CallExpr:
				if f := core.CalleeOf(info, x); f != nil && f.Name() == "addIntersections" {
					main := false
					for _, a := range conds {
						if isLeftTest(a) {
							main = true
						}
					}
					if !main {
						return true
					}
					n++
					key := fmt.Sprintf("canvas.bentleyOttmann|neighbour test #%d of the main sweep is unconditional", n)
					bad := ""
					for _, a := range conds {
						if !isLeftTest(a) && !isNilTest(a) {
							neg := ""
							if !a.pos {
								neg = "not "
							}
							bad = neg + "`" + types.ExprString(a.e) + "`"
						}
					}
					if bad == "" {
						r.OK("E9.adjacent-always-tested", key, c.Pos(x.Pos()), "")
					} else {
						r.Fail("E9.adjacent-always-tested", key, c.Pos(x.Pos()), fmt.Sprintf("`%s` runs only when %s holds: segments that become neighbours here are otherwise never tested against each other (they were not neighbours when they entered the status if a third segment lay between them), their crossing is lost, and the contours of the result cross each other or the operation panics", types.ExprString(x), bad))
					}
				}
			}
			return true
		})
	}
	walk = func(nd ast.Node, conds []atom) {
		switch x := nd.(type) {
		case *ast.BlockStmt:
			for _, s := range x.List {
				walk(s, conds)
			}
		case *ast.IfStmt:
			var t, f []atom
			t = append(t, conds...)
			f = append(f, conds...)
			split(x.Cond, true, &t)
			split(x.Cond, false, &f)
			visitCalls(x.Cond, conds)
			walk(x.Body, t)
			if x.Else != nil {
				walk(x.Else, f)
			}
		case *ast.ForStmt:
			walk(x.Body, conds)
		case *ast.RangeStmt:
			walk(x.Body, conds)
		case *ast.SwitchStmt:
			for _, cs := range x.Body.List {
				for _, s := range cs.(*ast.CaseClause).Body {
					walk(s, conds)
				}
			}
		case *ast.LabeledStmt:
			walk(x.Stmt, conds)
		case ast.Stmt:
			visitCalls(x, conds)
		}
	}
	walk(fd.Body, nil)
	r.Count("E9.adjacent-always-tested", n)
	r.Floor("E9.adjacent-always-tested", 3)
}

// E9OperandListsSeparate: the contours split off an element of one operand stay in that operand's list.
func E9OperandListsSeparate(c *core.Ctx, r *core.Report) {
	r.Rule("E9.operand-lists-separate", "bentleyOttmann takes its two operands as lists of paths and first splits every multi-contour element into its contours, replacing the element by the first contour and appending the others. Which list a contour is in decides whether its segments count as subject or clipping. In every loop of the function that assigns to an element of a list parameter (`X[i] = …`), each append inside that loop whose result is assigned to a list parameter extends X itself. Appending the extra contours of a clipping element to the subject list computes (P ∪ Q₂) op Q₁: And loses P∩Q₂, Not adds Q₂, and the operation is no longer commutative")
	p := c.MustPkg("")
	info := p.TypesInfo
	fd := core.MustFuncDecl(p, "bentleyOttmann")
	r.Func("canvas.bentleyOttmann")
	lists := map[types.Object]bool{}
	for _, f := range fd.Type.Params.List {
		for _, nm := range f.Names {
			if _, ok := info.TypeOf(f.Type).Underlying().(*types.Slice); ok {
				lists[info.Defs[nm]] = true
			}
		}
	}
	n := 0
	ast.Inspect(fd.Body, func(m ast.Node) bool {
		var body *ast.BlockStmt
		switch l := m.(type) {
		case *ast.ForStmt:
			body = l.Body
		case *ast.RangeStmt:
			body = l.Body
		default:
			return true
		}
		// the list whose elements the loop rewrites
		var target types.Object
		ast.Inspect(body, func(k ast.Node) bool {
			if as, ok := k.(*ast.AssignStmt); ok {
				for _, l := range as.Lhs {
					if ie, ok := core.Unparen(l).(*ast.IndexExpr); ok {
						if id, ok := core.Unparen(ie.X).(*ast.Ident); ok && lists[core.ObjOf(info, id)] {
							target = core.ObjOf(info, id)
						}
					}
				}
			}
			return true
		})
		if target == nil {
			return true
		}
		ast.Inspect(body, func(k ast.Node) bool {
			as, ok := k.(*ast.AssignStmt)
			if !ok || len(as.Lhs) != 1 || len(as.Rhs) != 1 {
				return true
			}
			lid, ok := as.Lhs[0].(*ast.Ident)
			if !ok || !lists[core.ObjOf(info, lid)] {
				return true
			}
			call, ok := core.Unparen(as.Rhs[0]).(*ast.CallExpr)
			if !ok || len(call.Args) < 1 {
				return true
			}
			if fn, ok := core.Unparen(call.Fun).(*ast.Ident); !ok || fn.Name != "append" {
				return true
			}
			n++
			key := fmt.Sprintf("canvas.bentleyOttmann|append #%d in a loop over `%s`", n, target.Name())
			a0, isId := core.Unparen(call.Args[0]).(*ast.Ident)
			if core.ObjOf(info, lid) == target && isId && core.ObjOf(info, a0) == target {
				r.OK("E9.operand-lists-separate", key, c.Pos(as.Pos()), c.Src(as))
			} else {
				r.Fail("E9.operand-lists-separate", key, c.Pos(as.Pos()), fmt.Sprintf("the loop replaces elements of `%s` by their first contour, but `%s` puts the remaining contours into another operand's list: they are then swept as part of the wrong operand, so for a compound element the operation computes a different set expression (And loses the part covered by the moved contours, Not adds them) and is not commutative", target.Name(), c.Src(as)))
			}
			return true
		})
		return true
	})
	r.Count("E9.operand-lists-separate", n)
	r.Floor("E9.operand-lists-separate", 2)
}

// E9CurveParameterDomain: the curve is evaluated at the curve's own parameter.
func E9CurveParameterDomain(c *core.Ctx, r *core.Report) {
	r.Rule("E9.curve-parameter-domain", "the line–quadratic and line–cubic helpers loop over the roots of the curve's polynomial; an intersection has two parameters, the root t on the curve and the position s along the line, both in [0,1]. Every evaluation of the curve inside that loop (position, derivatives, direction: the package functions whose name begins with quadraticBezier or cubicBezier) is made at the loop's root variable — never at the line parameter or anything else. The second derivative taken at s decides the up/down nudge of an end-point hit by the sign the curve has at an unrelated parameter: for an S-shaped cubic the direction of the hit then depends on how far the query point lies from the vertex")
	p := c.MustPkg("")
	info := p.TypesInfo
	n := 0
	for _, name := range []string{"intersectionLineQuad", "intersectionLineCube"} {
		fd := core.MustFuncDecl(p, name)
		r.Func("canvas." + name)
		ast.Inspect(fd.Body, func(m ast.Node) bool {
			rs, ok := m.(*ast.RangeStmt)
			if !ok {
				return true
			}
			vid, ok := rs.Value.(*ast.Ident)
			if !ok {
				return true
			}
			root := info.Defs[vid]
			if root == nil {
				return true
			}
			if b, ok := root.Type().Underlying().(*types.Basic); !ok || b.Kind() != types.Float64 {
				return true
			}
			k := 0
			ast.Inspect(rs.Body, func(q ast.Node) bool {
				call, ok := q.(*ast.CallExpr)
				if !ok || len(call.Args) < 2 {
					return true
				}
				f := core.CalleeOf(info, call)
				if f == nil || f.Pkg() != p.Types || !(strings.HasPrefix(f.Name(), "cubicBezier") || strings.HasPrefix(f.Name(), "quadraticBezier")) {
					return true
				}
				sig := f.Type().(*types.Signature)
				last := sig.Params().At(sig.Params().Len() - 1)
				if b, ok := last.Type().Underlying().(*types.Basic); !ok || b.Kind() != types.Float64 {
					return true
				}
				k++
				n++
				key := fmt.Sprintf("canvas.%s|%s #%d evaluated at the root", name, f.Name(), k)
				arg := core.Unparen(call.Args[len(call.Args)-1])
				if id, ok := arg.(*ast.Ident); ok && core.ObjOf(info, id) == root {
					r.OK("E9.curve-parameter-domain", key, c.Pos(call.Pos()), "")
				} else if _, isConst := core.ConstInt(info, arg); isConst || core.ConstVal(info, arg) != nil {
					r.OK("E9.curve-parameter-domain", key, c.Pos(call.Pos()), "constant parameter")
				} else {
					r.Fail("E9.curve-parameter-domain", key, c.Pos(call.Pos()), fmt.Sprintf("`%s` evaluates the curve at `%s`, not at the root `%s` the loop is looking at: that value is a parameter of something else (the position along the line), so the derivative belongs to a different point of the curve and the direction given to this hit is arbitrary", types.ExprString(call), types.ExprString(arg), vid.Name))
				}
				return true
			})
			return true
		})
	}
	r.Count("E9.curve-parameter-domain", n)
	r.Floor("E9.curve-parameter-domain", 4)
}

// E9PendingNotOverwritten: a remembered end-point hit is paired before it is replaced.
func E9PendingNotOverwritten(c *core.Ctx, r *core.Report) {
	r.Rule("E9.pending-not-overwritten", "windings and Path.Crossings remember a hit at the end of a segment in a pointer declared outside the loop over the hits, until the hit on the adjoining segment arrives. Every assignment to that pointer inside the loop is made either where the pointer is known to be nil (directly under a condition `prev == nil`, alone or as a conjunct) or after the pending hit has been paired (a comparison of its Into() precedes the assignment in the same block). Replacing a pending hit on any other condition — e.g. because the new hit lies at another position, which is the case after an edge that runs along the ray — drops a crossing")
	p := c.MustPkg("")
	info := p.TypesInfo
	n := 0
	for _, fname := range []string{"windings", "Path.Crossings"} {
		fd := core.MustFuncDecl(p, fname)
		// pointers to Intersection declared by `var x *Intersection`
		pend := map[types.Object]bool{}
		ast.Inspect(fd.Body, func(m ast.Node) bool {
			if ds, ok := m.(*ast.DeclStmt); ok {
				if gd, ok := ds.Decl.(*ast.GenDecl); ok && gd.Tok == token.VAR {
					for _, sp := range gd.Specs {
						for _, nm := range sp.(*ast.ValueSpec).Names {
							if o := info.Defs[nm]; o != nil {
								if pt, ok := o.Type().(*types.Pointer); ok {
									if nt, ok := pt.Elem().(*types.Named); ok && nt.Obj().Name() == "Intersection" {
										pend[o] = true
									}
								}
							}
						}
					}
				}
			}
			return true
		})
		isPend := func(e ast.Expr) types.Object {
			if id, ok := core.Unparen(e).(*ast.Ident); ok && pend[core.ObjOf(info, id)] {
				return core.ObjOf(info, id)
			}
			return nil
		}
		// knownNil: cond is `x == nil` or a conjunction containing it
		var knownNil func(e ast.Expr, o types.Object) bool
		knownNil = func(e ast.Expr, o types.Object) bool {
			be, ok := core.Unparen(e).(*ast.BinaryExpr)
			if !ok {
				return false
			}
			switch be.Op {
			case token.LAND:
				return knownNil(be.X, o) || knownNil(be.Y, o)
			case token.EQL:
				isNil := func(x ast.Expr) bool {
					id, ok := core.Unparen(x).(*ast.Ident)
					return ok && id.Name == "nil"
				}
				return (isPend(be.X) == o && isNil(be.Y)) || (isPend(be.Y) == o && isNil(be.X))
			}
			return false
		}
		usesInto := func(nd ast.Node, o types.Object) bool {
			found := false
			ast.Inspect(nd, func(k ast.Node) bool {
				if call, ok := k.(*ast.CallExpr); ok {
					if se, ok := call.Fun.(*ast.SelectorExpr); ok && se.Sel.Name == "Into" && isPend(se.X) == o {
						found = true
					}
				}
				return true
			})
			return found
		}
		var visit func(list []ast.Stmt, nilKnown map[types.Object]bool, inLoop bool)
		visit = func(list []ast.Stmt, nilKnown map[types.Object]bool, inLoop bool) {
			paired := map[types.Object]bool{}
			for _, st := range list {
				switch x := st.(type) {
				case *ast.AssignStmt:
					for _, l := range x.Lhs {
						o := isPend(l)
						if o == nil || !inLoop {
							continue
						}
						n++
						key := fmt.Sprintf("canvas.%s|assignment #%d to the pending hit", fname, n)
						if nilKnown[o] || paired[o] {
							r.OK("E9.pending-not-overwritten", key, c.Pos(x.Pos()), "")
						} else {
							r.Fail("E9.pending-not-overwritten", key, c.Pos(x.Pos()), fmt.Sprintf("`%s` replaces the pending end-point hit where it is not known to be nil and has not been paired: the crossing it stood for is never counted (a contour with a horizontal edge on the ray whose neighbours go the same way: `M0 0L10 0L10 5L15 5L15 10L0 10z` at (5,5))", c.Src(x)))
						}
					}
				case *ast.IfStmt:
					for o := range pend {
						if usesInto(x.Cond, o) {
							paired[o] = true
						}
					}
					nk := map[types.Object]bool{}
					for o := range nilKnown {
						nk[o] = true
					}
					for o := range pend {
						if knownNil(x.Cond, o) {
							nk[o] = true
						}
					}
					visit(x.Body.List, nk, inLoop)
					switch e := x.Else.(type) {
					case *ast.BlockStmt:
						visit(e.List, nilKnown, inLoop)
					case *ast.IfStmt:
						visit([]ast.Stmt{e}, nilKnown, inLoop)
					}
				case *ast.RangeStmt:
					visit(x.Body.List, nilKnown, true)
				case *ast.ForStmt:
					visit(x.Body.List, nilKnown, true)
				case *ast.BlockStmt:
					visit(x.List, nilKnown, inLoop)
				}
			}
		}
		// the loop that matters is the innermost one over the hits: assignments in an outer loop (the
		// declaration's own block) reset the pointer per sub-path and are not inside the hit loop
		ast.Inspect(fd.Body, func(m ast.Node) bool {
			rs, ok := m.(*ast.RangeStmt)
			if !ok {
				return true
			}
			if s, ok := info.TypeOf(rs.X).Underlying().(*types.Slice); ok {
				if nt, ok := s.Elem().(*types.Named); ok && nt.Obj().Name() == "Intersection" {
					visit(rs.Body.List, map[types.Object]bool{}, true)
					return false
				}
			}
			return true
		})
	}
	r.Count("E9.pending-assignments", n)
	r.Floor("E9.pending-assignments", 4)
}

// E9MovedNodeHeight: the node that takes a removed node's place in the sweep status gets its height recomputed.
func E9MovedNodeHeight(c *core.Ctx, r *core.Report) {
	r.Rule("E9.moved-node-height", "the sweep status is an AVL tree. SweepStatus.Remove, for a node with two children, moves the in-order successor into the removed node's place (it receives the removed node's parent, left and right links) — but not its height. rebalance() climbs only while heights change, so the moved node's stale height is repaired only because Remove itself walks from the successor's old parent up to the root, calling rebalance on every ancestor (`for ; a != nil; a = a.parent`), or by an explicit update of the moved node's height. Replacing the walk by a single rebalance leaves a wrong height behind, and a later insertion or removal panics with \"Tree too far out of shape!\" — for every boolean operation, once about five segments cross the sweep line")
	p := c.MustPkg("")
	info := p.TypesInfo
	fd := core.MustFuncDecl(p, "SweepStatus.Remove")
	n := paramObj(info, fd, 0)
	var moved types.Object
	var movedAt token.Pos
	ast.Inspect(fd.Body, func(m ast.Node) bool {
		as, ok := m.(*ast.AssignStmt)
		if !ok || len(as.Lhs) < 3 || len(as.Lhs) != len(as.Rhs) {
			return true
		}
		var lroot types.Object
		okAll := true
		for i := range as.Lhs {
			ls, ok1 := core.Unparen(as.Lhs[i]).(*ast.SelectorExpr)
			rs, ok2 := core.Unparen(as.Rhs[i]).(*ast.SelectorExpr)
			if !ok1 || !ok2 || ls.Sel.Name != rs.Sel.Name {
				okAll = false
				break
			}
			lid, ok1 := core.Unparen(ls.X).(*ast.Ident)
			rid, ok2 := core.Unparen(rs.X).(*ast.Ident)
			if !ok1 || !ok2 || core.ObjOf(info, rid) != n {
				okAll = false
				break
			}
			if lroot == nil {
				lroot = core.ObjOf(info, lid)
			} else if lroot != core.ObjOf(info, lid) {
				okAll = false
			}
		}
		if okAll && lroot != nil {
			moved, movedAt = lroot, as.Pos()
		}
		return true
	})
	key := "canvas.SweepStatus.Remove|height of the node moved into the removed node's place"
	r.Count("E9.moved-node-height", 1)
	if moved == nil {
		r.Fail("E9.moved-node-height", key, c.Pos(fd.Pos()), "the statement that gives the successor the removed node's links was not found")
		return
	}
	explicit, climb := false, false
	ast.Inspect(fd.Body, func(m ast.Node) bool {
		if m == nil || m.Pos() < movedAt {
			return true
		}
		switch x := m.(type) {
		case *ast.CallExpr:
			if se, ok := x.Fun.(*ast.SelectorExpr); ok && strings.Contains(strings.ToLower(se.Sel.Name), "height") {
				if id, ok := core.Unparen(se.X).(*ast.Ident); ok && core.ObjOf(info, id) == moved {
					explicit = true
				}
			}
		case *ast.AssignStmt:
			for _, l := range x.Lhs {
				if se, ok := core.Unparen(l).(*ast.SelectorExpr); ok && strings.Contains(strings.ToLower(se.Sel.Name), "height") {
					if id, ok := core.Unparen(se.X).(*ast.Ident); ok && core.ObjOf(info, id) == moved {
						explicit = true
					}
				}
			}
		case *ast.ForStmt:
			// for ; a != nil; a = a.parent { …rebalance(a)… }
			be, ok := core.Unparen(x.Cond).(*ast.BinaryExpr)
			if !ok || be.Op != token.NEQ {
				return true
			}
			var a types.Object
			for _, side := range [][2]ast.Expr{{be.X, be.Y}, {be.Y, be.X}} {
				if id, ok := core.Unparen(side[0]).(*ast.Ident); ok {
					if nl, ok := core.Unparen(side[1]).(*ast.Ident); ok && nl.Name == "nil" {
						a = core.ObjOf(info, id)
					}
				}
			}
			post, ok := x.Post.(*ast.AssignStmt)
			if a == nil || !ok || len(post.Lhs) != 1 || len(post.Rhs) != 1 {
				return true
			}
			lid, ok1 := post.Lhs[0].(*ast.Ident)
			rs, ok2 := core.Unparen(post.Rhs[0]).(*ast.SelectorExpr)
			if !ok1 || !ok2 || core.ObjOf(info, lid) != a {
				return true
			}
			if rid, ok := core.Unparen(rs.X).(*ast.Ident); !ok || core.ObjOf(info, rid) != a {
				return true
			}
			// the body calls rebalance(a) as a direct statement
			for _, st := range x.Body.List {
				if es, ok := st.(*ast.ExprStmt); ok {
					if call, ok := es.X.(*ast.CallExpr); ok && len(call.Args) == 1 {
						if f := core.CalleeOf(info, call); f != nil && f.Name() == "rebalance" {
							if id, ok := core.Unparen(call.Args[0]).(*ast.Ident); ok && core.ObjOf(info, id) == a {
								climb = true
							}
						}
					}
				}
			}
		}
		return true
	})
	switch {
	case explicit:
		r.OK("E9.moved-node-height", key, c.Pos(movedAt), "the moved node's height is updated explicitly")
	case climb:
		r.OK("E9.moved-node-height", key, c.Pos(movedAt), "every ancestor up to the root is rebalanced")
	default:
		r.Fail("E9.moved-node-height", key, c.Pos(movedAt), fmt.Sprintf("`%s` takes the removed node's place but keeps its old height: neither is its height updated, nor does Remove walk every ancestor up to the root (rebalance stops climbing where a height is unchanged, below the moved node); a later insertion or removal panics with \"Tree too far out of shape!\"", moved.Name()))
	}
}

// E9DirectionFallbackSymmetric: the end-point fallbacks of cubicBezierDirection mirror each other.
func E9DirectionFallbackSymmetric(c *core.Ctx, r *core.Report) {
	r.Rule("E9.direction-fallback-symmetric", "cubicBezierDirection replaces a vanishing derivative at an end point by the chord to the next distinct control point. Reversing a curve (p0↔p3, p1↔p2, t ↦ 1−t) reverses its direction, so the chords tried at t = 1 are the mirror images of those tried at t = 0, in the same order: p2−p0 then p3−p0 at the start, p3−p1 then p3−p0 at the end. The chords assigned on the paths open for t = 0 and for t = 1 (tests of t against 0 and 1 decided, other tests taken both ways) are collected and compared under that mirror. With the start's chords used at the end as well, a cubic whose last control point coincides with its end point and that overshoots the level of that point leaves the vertex with the wrong vertical sense, and Windings drops the crossing there")
	p := c.MustPkg("")
	info := p.TypesInfo
	fd := core.MustFuncDecl(p, "cubicBezierDirection")
	var pts []types.Object
	var tObj types.Object
	for _, f := range fd.Type.Params.List {
		for _, nm := range f.Names {
			o := info.Defs[nm]
			if isNamed(o.Type(), "tdewolff/canvas", "Point") {
				pts = append(pts, o)
			} else {
				tObj = o
			}
		}
	}
	if len(pts) != 4 || tObj == nil {
		panic(core.Infra("cubicBezierDirection: expected four points and a parameter"))
	}
	idx := func(e ast.Expr) int {
		if id, ok := core.Unparen(e).(*ast.Ident); ok {
			for i, o := range pts {
				if core.ObjOf(info, id) == o {
					return i
				}
			}
		}
		return -1
	}
	collect := func(tval int64) [][2]int {
		var out [][2]int
		env := func(e ast.Expr) tri {
			var a, b ast.Expr
			neg := false
			switch x := e.(type) {
			case *ast.CallExpr:
				if f := core.CalleeOf(info, x); f != nil && f.Name() == "Equal" && len(x.Args) == 2 {
					a, b = x.Args[0], x.Args[1]
				}
			case *ast.BinaryExpr:
				if x.Op == token.EQL || x.Op == token.NEQ {
					a, b, neg = x.X, x.Y, x.Op == token.NEQ
				}
			}
			if a == nil {
				return tUnknown
			}
			for _, pr := range [][2]ast.Expr{{a, b}, {b, a}} {
				if id, ok := core.Unparen(pr[0]).(*ast.Ident); ok && core.ObjOf(info, id) == tObj {
					if v := core.ConstVal(info, pr[1]); v != nil {
						f, _ := constant.Float64Val(constant.ToFloat(v))
						return triOf((f == float64(tval)) != neg)
					}
				}
			}
			return tUnknown
		}
		var walk func(list []ast.Stmt)
		visitAssign := func(as *ast.AssignStmt) {
			for _, rhs := range as.Rhs {
				if call, ok := core.Unparen(rhs).(*ast.CallExpr); ok && len(call.Args) == 1 {
					if se, ok := call.Fun.(*ast.SelectorExpr); ok && se.Sel.Name == "Sub" {
						if a, b := idx(se.X), idx(call.Args[0]); a >= 0 && b >= 0 {
							out = append(out, [2]int{a, b})
						}
					}
				}
			}
		}
		walk = func(list []ast.Stmt) {
			for _, st := range list {
				switch x := st.(type) {
				case *ast.AssignStmt:
					visitAssign(x)
				case *ast.IfStmt:
					if as, ok := x.Init.(*ast.AssignStmt); ok {
						visitAssign(as)
					}
					switch evalBool(info, x.Cond, env) {
					case tTrue:
						walk(x.Body.List)
					case tFalse:
						switch e := x.Else.(type) {
						case *ast.BlockStmt:
							walk(e.List)
						case *ast.IfStmt:
							walk([]ast.Stmt{e})
						}
					default:
						walk(x.Body.List)
						switch e := x.Else.(type) {
						case *ast.BlockStmt:
							walk(e.List)
						case *ast.IfStmt:
							walk([]ast.Stmt{e})
						}
					}
				case *ast.BlockStmt:
					walk(x.List)
				}
			}
		}
		walk(fd.Body.List)
		return out
	}
	s0, s1 := collect(0), collect(1)
	mirror := func(s [][2]int) [][2]int {
		var out [][2]int
		for _, ch := range s {
			out = append(out, [2]int{3 - ch[1], 3 - ch[0]})
		}
		return out
	}
	show := func(s [][2]int) string {
		var parts []string
		for _, ch := range s {
			parts = append(parts, fmt.Sprintf("p%d−p%d", ch[0], ch[1]))
		}
		return strings.Join(parts, ", ")
	}
	key := "canvas.cubicBezierDirection|chords at t = 1 mirror those at t = 0"
	r.Count("E9.direction-fallback-symmetric", 1)
	switch {
	case len(s0) == 0 || len(s1) == 0:
		r.Fail("E9.direction-fallback-symmetric", key, c.Pos(fd.Pos()), fmt.Sprintf("no fallback chord found for t = 0 (%s) or t = 1 (%s)", show(s0), show(s1)))
	case show(mirror(s0)) != show(s1):
		r.Fail("E9.direction-fallback-symmetric", key, c.Pos(fd.Pos()), fmt.Sprintf("at t = 0 the chords tried are %s, whose mirror images are %s; at t = 1 the function tries %s: a cubic that arrives at its end point with p2 = p3 is given the direction of another chord, with the opposite vertical sense when it overshoots the level of that point (`M0 0C0 15 10 10 10 10L10 0z`, Windings(5,10) is 0 instead of −1)", show(s0), show(mirror(s0)), show(s1)))
	default:
		r.OK("E9.direction-fallback-symmetric", key, c.Pos(fd.Pos()), show(s0)+" | "+show(s1))
	}
}

// E9SquareRangeBothEnds: Lower and Upper of a tolerance square are set together.
func E9SquareRangeBothEnds(c *core.Ctx, r *core.Report) {
	r.Rule("E9.square-range-both-ends", "the segments that cross a tolerance square are the status nodes from square.Lower to square.Upper, and both users of that range (the break-up loop of breakupCrossingSegments and the re-sort in bentleyOttmann) test only `Lower != nil`. So the two ends are set together: every block of breakupCrossingSegments that assigns one of them from a node also assigns the other from the same node — in the same statement, or under a test that the other end is still nil. The upward scan that stores Upper alone leaves Lower nil when the reference node lies below the square; the segments through the square are then neither split nor snapped, and the contour walk panics")
	p := c.MustPkg("")
	info := p.TypesInfo
	fd := core.MustFuncDecl(p, "toleranceSquares.breakupCrossingSegments")
	isEnd := func(e ast.Expr) string {
		se, ok := core.Unparen(e).(*ast.SelectorExpr)
		if !ok || (se.Sel.Name != "Lower" && se.Sel.Name != "Upper") {
			return ""
		}
		if t := info.TypeOf(se.X); t == nil || !strings.Contains(t.String(), "toleranceSquare") {
			return ""
		}
		return se.Sel.Name
	}
	other := map[string]string{"Lower": "Upper", "Upper": "Lower"}
	n := 0
	var visit func(list []ast.Stmt)
	visit = func(list []ast.Stmt) {
		// assignments of the block itself, and those under an `if <other> == nil` of the block
		direct := map[string]string{}  // end -> rhs source
		guarded := map[string]string{} // end -> rhs source, assigned under a nil test of that end
		var pos = map[string]token.Pos{}
		for _, st := range list {
			switch x := st.(type) {
			case *ast.AssignStmt:
				if x.Tok != token.ASSIGN || len(x.Lhs) != len(x.Rhs) {
					continue
				}
				for i, l := range x.Lhs {
					if e := isEnd(l); e != "" {
						direct[e] = c.Src(x.Rhs[i])
						pos[e] = x.Pos()
					}
				}
			case *ast.IfStmt:
				// if square.E == nil { square.E = v }
				if be, ok := core.Unparen(x.Cond).(*ast.BinaryExpr); ok && be.Op == token.EQL {
					e := isEnd(be.X)
					if e == "" {
						e = isEnd(be.Y)
					}
					if e != "" {
						for _, bs := range x.Body.List {
							if as, ok := bs.(*ast.AssignStmt); ok && len(as.Lhs) == len(as.Rhs) {
								for i, l := range as.Lhs {
									if isEnd(l) == e {
										guarded[e] = c.Src(as.Rhs[i])
									}
								}
							}
						}
					}
				}
			}
		}
		for e, rhs := range direct {
			n++
			key := fmt.Sprintf("canvas.toleranceSquares.breakupCrossingSegments|%s assigned #%d with its other end", e, n)
			o := other[e]
			if direct[o] == rhs || guarded[o] == rhs {
				r.OK("E9.square-range-both-ends", key, c.Pos(pos[e]), "")
			} else {
				r.Fail("E9.square-range-both-ends", key, c.Pos(pos[e]), fmt.Sprintf("this block stores `%s` in square.%s and leaves square.%s as it is: when it is still nil (the reference node lies on the other side of the square) the range is half open, both users skip the square, its segments are not snapped and the contour walk panics (`M4 3L2 7L1 2z` Or `M6 9L2 1L3 6L3 5z`)", rhs, e, o))
			}
		}
		for _, st := range list {
			ast.Inspect(st, func(k ast.Node) bool {
				// the body of `if square.E == nil { square.E = v }` was accounted for as the guarded half
				if is, ok := k.(*ast.IfStmt); ok {
					if be, ok := core.Unparen(is.Cond).(*ast.BinaryExpr); ok && be.Op == token.EQL && (isEnd(be.X) != "" || isEnd(be.Y) != "") {
						return false
					}
				}
				if b, ok := k.(*ast.BlockStmt); ok {
					visit(b.List)
					return false
				}
				return true
			})
		}
	}
	visit(fd.Body.List)
	r.Count("E9.square-range-ends", n)
	r.Floor("E9.square-range-ends", 3)
}

// E9EllipseQuadraticMirror: the two eliminations of the line × ellipse system are mirror images.
func E9EllipseQuadraticMirror(c *core.Ctx, r *core.Report) {
	r.Rule("E9.ellipse-quadratic-mirror", "intersectionLineEllipse substitutes the line cx + dy + e = 0 into x²/a + y²/b = 1 and solves A t² + B t + C = 0 for x when the line is mostly horizontal, for y otherwise. Exchanging the roles of x and y exchanges a with b and c with d: the coefficients used on one branch are, as polynomials in a, b, c, d, e, the images of those used on the other under that exchange (A is its own image). Each of A, B, C is expanded on both paths through the `horizontal` test — assignments before the test included — and compared. A coefficient hoisted out of the branch with the horizontal branch's form puts the hits of every ray that meets a rotated ellipse 'vertically' in the wrong place")
	p := c.MustPkg("")
	info := p.TypesInfo
	fd := core.MustFuncDecl(p, "intersectionLineEllipse")
	// the names of the five quantities: locals assigned as in the comments; taken by name, as the rule speaks of them
	sym := func(e ast.Expr) string {
		if id, ok := core.Unparen(e).(*ast.Ident); ok {
			switch id.Name {
			case "a", "b", "c", "d", "e":
				if _, isVar := core.ObjOf(info, id).(*types.Var); isVar {
					return id.Name
				}
			}
		}
		return ""
	}
	// the branch on the horizontal flag that assigns the coefficients
	var branch *ast.IfStmt
	var before []ast.Stmt
	for i, st := range fd.Body.List {
		is, ok := st.(*ast.IfStmt)
		if !ok {
			continue
		}
		assigns := 0
		ast.Inspect(is, func(k ast.Node) bool {
			if as, ok := k.(*ast.AssignStmt); ok {
				for _, l := range as.Lhs {
					if id, ok := l.(*ast.Ident); ok && (id.Name == "A" || id.Name == "B" || id.Name == "C") {
						assigns++
					}
				}
			}
			return true
		})
		if assigns > 0 && branch == nil {
			branch, before = is, fd.Body.List[:i]
		}
	}
	key := "canvas.intersectionLineEllipse|coefficients of the two eliminations mirror each other"
	r.Count("E9.ellipse-quadratic-mirror", 1)
	if branch == nil {
		r.Fail("E9.ellipse-quadratic-mirror", key, c.Pos(fd.Pos()), "the branch that assigns the coefficients A, B, C was not found")
		return
	}
	collect := func(lists ...[]ast.Stmt) map[string]poly {
		out := map[string]poly{}
		for _, list := range lists {
			for _, st := range list {
				ast.Inspect(st, func(k ast.Node) bool {
					if _, isIf := k.(*ast.IfStmt); isIf && k != ast.Node(st) {
						return false
					}
					as, ok := k.(*ast.AssignStmt)
					if !ok || len(as.Lhs) != len(as.Rhs) {
						return true
					}
					for i, l := range as.Lhs {
						if id, ok := l.(*ast.Ident); ok && (id.Name == "A" || id.Name == "B" || id.Name == "C") {
							if pl, ok := polyOf(info, as.Rhs[i], sym, nil); ok {
								out[id.Name] = pl
							} else {
								out[id.Name] = poly{"?" + c.Src(as.Rhs[i]): 1}
							}
						}
					}
					return true
				})
			}
		}
		return out
	}
	var elseList []ast.Stmt
	if eb, ok := branch.Else.(*ast.BlockStmt); ok {
		elseList = eb.List
	}
	// assignments in front of the branch hold on both paths
	var pre []ast.Stmt
	for _, st := range before {
		if _, isIf := st.(*ast.IfStmt); !isIf {
			pre = append(pre, st)
		}
	}
	h := collect(pre, branch.Body.List)
	v := collect(pre, elseList)
	mirror := func(pl poly) poly {
		out := poly{}
		for k, coef := range pl {
			fs := strings.Split(k, "*")
			for i, f := range fs {
				switch f {
				case "a":
					fs[i] = "b"
				case "b":
					fs[i] = "a"
				case "c":
					fs[i] = "d"
				case "d":
					fs[i] = "c"
				}
			}
			sort.Strings(fs)
			out[strings.Join(fs, "*")] += coef
		}
		return polyTrim(out)
	}
	bad := ""
	for _, name := range []string{"A", "B", "C"} {
		ph, ok1 := h[name]
		pv, ok2 := v[name]
		if !ok1 || !ok2 {
			bad = "coefficient " + name + " is not assigned on both paths"
			break
		}
		if !polyEqual(mirror(ph), pv) {
			bad = fmt.Sprintf("%s is %s when x is kept and %s when y is kept; exchanging a↔b and c↔d in the first gives %s", name, ph, pv, mirror(ph))
			break
		}
	}
	if bad == "" {
		r.OK("E9.ellipse-quadratic-mirror", key, c.Pos(branch.Pos()), fmt.Sprintf("A = %s", h["A"]))
	} else {
		r.Fail("E9.ellipse-quadratic-mirror", key, c.Pos(branch.Pos()), bad+": the roots on one of the two paths are not the intersections of the line with the ellipse")
	}
}

// walkStack visits every node under root with the chain of its ancestors (root first, the node itself excluded).
func walkStack(root ast.Node, f func(n ast.Node, stack []ast.Node)) {
	var stack []ast.Node
	ast.Inspect(root, func(n ast.Node) bool {
		if n == nil {
			stack = stack[:len(stack)-1]
			return true
		}
		f(n, stack)
		stack = append(stack, n)
		return true
	})
}

// andTerms flattens a conjunction.
func andTerms(e ast.Expr) []ast.Expr {
	e = core.Unparen(e)
	if b, ok := e.(*ast.BinaryExpr); ok && b.Op == token.LAND {
		return append(andTerms(b.X), andTerms(b.Y)...)
	}
	return []ast.Expr{e}
}

// positiveFieldTest: e establishes that <x>.<field> is positive (0 < x.f, x.f > 0, x.f != 0, 1 <= x.f, x.f >= 1).
func positiveFieldTest(c *core.Ctx, info *types.Info, e ast.Expr, x, field string) bool {
	b, ok := core.Unparen(e).(*ast.BinaryExpr)
	if !ok {
		return false
	}
	isF := func(e ast.Expr) bool {
		se, ok := core.Unparen(e).(*ast.SelectorExpr)
		return ok && se.Sel.Name == field && c.Src(se.X) == x
	}
	cst := func(e ast.Expr) (int64, bool) { return core.ConstInt(info, e) }
	if isF(b.Y) {
		if v, ok := cst(b.X); ok {
			return (v == 0 && (b.Op == token.LSS || b.Op == token.NEQ)) || (v == 1 && b.Op == token.LEQ)
		}
	}
	if isF(b.X) {
		if v, ok := cst(b.Y); ok {
			return (v == 0 && (b.Op == token.GTR || b.Op == token.NEQ)) || (v == 1 && b.Op == token.GEQ)
		}
	}
	return false
}

// E9StitchSelectsUnconsumed: the contour builder only continues along an edge whose inResult count is still positive.
func E9StitchSelectsUnconsumed(c *core.Ctx, r *core.Report) {
	r.Rule("E9.stitch-selects-unconsumed", "bentleyOttmann's contour builder uses every edge of the result as often as its inResult count says: stepping onto an edge decrements the count (`cur.inResult--`). The edge it steps onto is therefore chosen among edges whose count is still positive: in the loop that holds the decrement, every assignment of a candidate to the variable that becomes `cur` lies under a condition with a conjunct `0 < <candidate>.inResult` on the live counter. A flag that was true before stitching began (resultEdge) is not such a test: at a vertex where a zero-area spike ends the builder walks an edge a second time and the output has contours with winding 3 or overlapping each other")
	p := c.MustPkg("")
	info := p.TypesInfo
	fd := core.MustFuncDecl(p, "bentleyOttmann")
	r.Func("canvas.bentleyOttmann")
	// loops holding a decrement of inResult, with the decremented variable
	type site struct {
		loop *ast.ForStmt
		v    types.Object
	}
	var sites []site
	walkStack(fd.Body, func(n ast.Node, stack []ast.Node) {
		ids, ok := n.(*ast.IncDecStmt)
		if !ok || ids.Tok != token.DEC {
			return
		}
		se, ok := ids.X.(*ast.SelectorExpr)
		if !ok || se.Sel.Name != "inResult" {
			return
		}
		id, ok := core.Unparen(se.X).(*ast.Ident)
		if !ok {
			return
		}
		for i := len(stack) - 1; i >= 0; i-- {
			if fs, ok := stack[i].(*ast.ForStmt); ok {
				o := core.ObjOf(info, id)
				for _, s := range sites {
					if s.loop == fs && s.v == o {
						return
					}
				}
				sites = append(sites, site{fs, o})
				return
			}
			if _, ok := stack[i].(*ast.RangeStmt); ok {
				return
			}
		}
	})
	n := 0
	for _, s := range sites {
		// variables assigned to the stepped variable inside the loop
		var cands []types.Object
		ast.Inspect(s.loop.Body, func(m ast.Node) bool {
			as, ok := m.(*ast.AssignStmt)
			if !ok || len(as.Lhs) != len(as.Rhs) {
				return true
			}
			for i, l := range as.Lhs {
				if lid, ok := l.(*ast.Ident); ok && core.ObjOf(info, lid) == s.v {
					if rid, ok := core.Unparen(as.Rhs[i]).(*ast.Ident); ok {
						cands = append(cands, core.ObjOf(info, rid))
					}
				}
			}
			return true
		})
		for _, cand := range cands {
			walkStack(s.loop.Body, func(m ast.Node, stack []ast.Node) {
				as, ok := m.(*ast.AssignStmt)
				if !ok || len(as.Lhs) != len(as.Rhs) {
					return
				}
				for i, l := range as.Lhs {
					lid, ok := l.(*ast.Ident)
					if !ok || core.ObjOf(info, lid) != cand {
						continue
					}
					if tv, ok := info.Types[as.Rhs[i]]; ok && tv.IsNil() {
						continue
					}
					n++
					src := c.Src(as.Rhs[i])
					key := fmt.Sprintf("canvas.bentleyOttmann|candidate #%d for the next edge has a positive inResult", n)
					good := false
					var child ast.Node = as
					for k := len(stack) - 1; k >= 0 && !good; k-- {
						if is, ok := stack[k].(*ast.IfStmt); ok && child == ast.Node(is.Body) {
							for _, t := range andTerms(is.Cond) {
								if positiveFieldTest(c, info, t, src, "inResult") {
									good = true
								}
							}
						}
						child = stack[k]
					}
					if good {
						r.OK("E9.stitch-selects-unconsumed", key, c.Pos(as.Pos()), src)
					} else {
						r.Fail("E9.stitch-selects-unconsumed", key, c.Pos(as.Pos()), fmt.Sprintf("`%s` becomes the next edge of the contour without a test that its inResult count is still positive: an edge that was already used up is walked again", src))
					}
				}
			})
		}
	}
	r.Count("E9.stitch-candidates", n)
	r.Floor("E9.stitch-candidates", 1)
}

// E9NudgeSideFromTangent: the side to which a hit's direction is nudged is decided against the curve's own tangent.
func E9NudgeSideFromTangent(c *core.Ctx, r *core.Report) {
	r.Rule("E9.nudge-side-from-tangent", "where a curve meets the ray at an end point or is parallel to it at an inflection point, the line–curve helpers move the curve's direction `dirb` (the Angle() of its tangent T) by ±2·Epsilon to the side the curve turns to, so that the hit is counted as entering or leaving. Which side that is depends on the direction of travel: it is the sign of the turn of a higher derivative against T (T.PerpDot(T'') and the like). Every `if C { dirb += k } else { dirb -= k }` in a function that defines `dirb := T.Angle()` therefore has a condition C that reads T. A condition that measures the higher derivative against the ray instead (A.Dot(T''')) agrees with it for a curve running in the ray's direction and is the exact opposite for one running against it: Windings is off by two and a hole is reported as filled")
	p := c.MustPkg("")
	info := p.TypesInfo
	n := 0
	for _, fd := range core.AllFuncDecls(p) {
		if fd.Body == nil {
			continue
		}
		tangent := map[types.Object]types.Object{}
		ast.Inspect(fd.Body, func(m ast.Node) bool {
			as, ok := m.(*ast.AssignStmt)
			if !ok || len(as.Lhs) != 1 || len(as.Rhs) != 1 {
				return true
			}
			ce, ok := core.Unparen(as.Rhs[0]).(*ast.CallExpr)
			if !ok || len(ce.Args) != 0 {
				return true
			}
			se, ok := ce.Fun.(*ast.SelectorExpr)
			if !ok || se.Sel.Name != "Angle" {
				return true
			}
			tid, ok := core.Unparen(se.X).(*ast.Ident)
			lid, ok2 := as.Lhs[0].(*ast.Ident)
			if ok && ok2 {
				tangent[core.ObjOf(info, lid)] = core.ObjOf(info, tid)
			}
			return true
		})
		if len(tangent) == 0 {
			continue
		}
		step := func(b *ast.BlockStmt, tok token.Token) types.Object {
			if b == nil || len(b.List) != 1 {
				return nil
			}
			as, ok := b.List[0].(*ast.AssignStmt)
			if !ok || as.Tok != tok || len(as.Lhs) != 1 {
				return nil
			}
			if id, ok := as.Lhs[0].(*ast.Ident); ok {
				return core.ObjOf(info, id)
			}
			return nil
		}
		ast.Inspect(fd.Body, func(m ast.Node) bool {
			is, ok := m.(*ast.IfStmt)
			if !ok {
				return true
			}
			els, _ := is.Else.(*ast.BlockStmt)
			v := step(is.Body, token.ADD_ASSIGN)
			if v == nil || v != step(els, token.SUB_ASSIGN) {
				v = step(is.Body, token.SUB_ASSIGN)
				if v == nil || v != step(els, token.ADD_ASSIGN) {
					return true
				}
			}
			t := tangent[v]
			if t == nil {
				return true
			}
			n++
			r.Func("canvas." + core.FuncName(fd))
			key := fmt.Sprintf("canvas.%s|nudge #%d of `%s` is decided against the tangent `%s`", core.FuncName(fd), n, v.Name(), t.Name())
			reads := false
			ast.Inspect(is.Cond, func(q ast.Node) bool {
				if id, ok := q.(*ast.Ident); ok && core.ObjOf(info, id) == t {
					reads = true
				}
				return true
			})
			if reads {
				r.OK("E9.nudge-side-from-tangent", key, c.Pos(is.Pos()), c.Src(is.Cond))
			} else {
				r.Fail("E9.nudge-side-from-tangent", key, c.Pos(is.Pos()), fmt.Sprintf("the condition `%s` does not read the tangent `%s`: the side the curve turns to depends on its direction of travel, so a curve traversed the other way is nudged to the wrong side and its crossing is counted with the opposite sign", c.Src(is.Cond), t.Name()))
			}
			return true
		})
	}
	r.Count("E9.nudge-sites", n)
	r.Floor("E9.nudge-sites", 3)
}
