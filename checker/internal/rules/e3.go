package rules

import (
	"fmt"
	"go/ast"
	"go/token"
	"go/types"
	"sort"
	"strings"

	"canvascheck/internal/core"

	"golang.org/x/tools/go/packages"
)

// E3 — min/max fold rules (AST + types). See DESIGN.md §2 E3.

type mmTree struct {
	op     string     // Min | Max
	leaves []ast.Expr // non-Min/Max leaves in order
	mixed  []string   // nested calls whose op differs from the root
}

// minmaxTree flattens nested math.Min/math.Max calls.
func minmaxTree(info *types.Info, e ast.Expr) *mmTree {
	name, call := core.MathFunc(info, e)
	if call == nil || (name != "Min" && name != "Max") {
		return nil
	}
	t := &mmTree{op: name}
	var walk func(c *ast.CallExpr)
	walk = func(c *ast.CallExpr) {
		for _, a := range c.Args {
			n, cc := core.MathFunc(info, a)
			if cc != nil && (n == "Min" || n == "Max") {
				if n != t.op {
					t.mixed = append(t.mixed, types.ExprString(cc))
				}
				walk(cc)
				continue
			}
			t.leaves = append(t.leaves, core.Unparen(a))
		}
	}
	walk(call)
	return t
}

// rectAccs finds `return Rect{a, b, c, d}` (positional or keyed) with identifier elements and
// returns the objects in X0,Y0,X1,Y1 order.
func rectAccs(p *packages.Package, fd *ast.FuncDecl) ([4]types.Object, bool) {
	var out [4]types.Object
	found := 0
	ast.Inspect(fd.Body, func(n ast.Node) bool {
		ret, ok := n.(*ast.ReturnStmt)
		if !ok || len(ret.Results) != 1 {
			return true
		}
		cl, ok := core.Unparen(ret.Results[0]).(*ast.CompositeLit)
		if !ok || len(cl.Elts) != 4 {
			return true
		}
		tv := p.TypesInfo.Types[cl]
		nt, ok := tv.Type.(*types.Named)
		if !ok || nt.Obj().Name() != "Rect" {
			return true
		}
		var objs [4]types.Object
		for i, el := range cl.Elts {
			idx := i
			if kv, ok := el.(*ast.KeyValueExpr); ok {
				k, _ := kv.Key.(*ast.Ident)
				if k == nil {
					return true
				}
				switch k.Name {
				case "X0":
					idx = 0
				case "Y0":
					idx = 1
				case "X1":
					idx = 2
				case "Y1":
					idx = 3
				default:
					return true
				}
				el = kv.Value
			}
			id, ok := core.Unparen(el).(*ast.Ident)
			if !ok {
				return true
			}
			objs[idx] = p.TypesInfo.Uses[id]
		}
		for _, o := range objs {
			if o == nil {
				return true
			}
		}
		out = objs
		found++
		return true
	})
	return out, found == 1
}

var accNames = [4]string{"X0(min)", "Y0(min)", "X1(max)", "Y1(max)"}
var accOp = [4]string{"Min", "Min", "Max", "Max"}

type foldStmt struct {
	acc    int // 0..3
	tree   *mmTree
	self   bool // accumulator occurs among the leaves
	pos    token.Pos
	clause *ast.CaseClause
	uncond bool // statement is directly in the case body
	define bool
}

// leafKey renders a leaf; selectors on a root identifier become "root.Field".
func leafKey(e ast.Expr) string { return types.ExprString(e) }

// collectFolds gathers assignments to the four accumulators in a function.
func collectFolds(p *packages.Package, fd *ast.FuncDecl, accs [4]types.Object, r *core.Report, c *core.Ctx, rule, fn string) []foldStmt {
	info := p.TypesInfo
	var folds []foldStmt
	accIndex := func(id *ast.Ident) int {
		o := core.ObjOf(info, id)
		for i, a := range accs {
			if a == o && o != nil {
				return i
			}
		}
		return -1
	}
	// map statements to their enclosing case clause of the command switch and whether unconditional
	var visit func(n ast.Node, cc *ast.CaseClause, depth int)
	handleAssign := func(as *ast.AssignStmt, cc *ast.CaseClause, uncond bool) {
		if len(as.Lhs) != len(as.Rhs) {
			for _, l := range as.Lhs {
				if id, ok := l.(*ast.Ident); ok && accIndex(id) >= 0 {
					r.Fail(rule+".fold-form", fn+"|"+accNames[accIndex(id)]+"|tuple-assign", c.Pos(as.Pos()), "bounding-box accumulator assigned from a multi-value expression; cannot be a min/max fold")
				}
			}
			return
		}
		for i, l := range as.Lhs {
			id, ok := l.(*ast.Ident)
			if !ok {
				continue
			}
			ai := accIndex(id)
			if ai < 0 {
				continue
			}
			tree := minmaxTree(info, as.Rhs[i])
			if tree == nil {
				if as.Tok == token.DEFINE && cc == nil {
					continue // initialisation before the loop
				}
				r.Fail(rule+".fold-form", fn+"|"+accNames[ai]+"|"+clauseLabel(info, cc), c.Pos(as.Pos()), "accumulator "+id.Name+" is assigned `"+types.ExprString(as.Rhs[i])+"`, which is not a math.Min/math.Max fold")
				continue
			}
			f := foldStmt{acc: ai, tree: tree, pos: as.Pos(), clause: cc, uncond: uncond, define: as.Tok == token.DEFINE}
			for _, lf := range tree.leaves {
				if lid, ok := lf.(*ast.Ident); ok && accIndex(lid) == ai {
					f.self = true
				}
			}
			folds = append(folds, f)
		}
	}
	visit = func(n ast.Node, cc *ast.CaseClause, depth int) {
		switch x := n.(type) {
		case nil:
			return
		case *ast.CaseClause:
			for _, s := range x.Body {
				visit(s, x, 0)
			}
			return
		case *ast.AssignStmt:
			handleAssign(x, cc, depth == 0)
			return
		case *ast.BlockStmt:
			for _, s := range x.List {
				visit(s, cc, depth)
			}
			return
		case *ast.IfStmt:
			visit(x.Init, cc, depth+1)
			visit(x.Body, cc, depth+1)
			visit(x.Else, cc, depth+1)
			return
		case *ast.ForStmt:
			visit(x.Init, cc, depth)
			visit(x.Body, cc, depth)
			return
		case *ast.RangeStmt:
			visit(x.Body, cc, depth)
			return
		case *ast.SwitchStmt:
			visit(x.Init, cc, depth)
			for _, s := range x.Body.List {
				if cl, ok := s.(*ast.CaseClause); ok {
					if cc == nil {
						visit(cl, nil, 0)
					} else {
						for _, s2 := range cl.Body {
							visit(s2, cc, depth+1)
						}
					}
				}
			}
			return
		case *ast.LabeledStmt:
			visit(x.Stmt, cc, depth)
		}
	}
	visit(fd.Body, nil, 0)
	return folds
}

func clauseLabel(info *types.Info, cc *ast.CaseClause) string {
	if cc == nil {
		return "top"
	}
	return core.CaseLabel(info, cc)
}

// selRoot returns (root identifier name, field) for `root.Field`.
func selRoot(e ast.Expr) (string, string, bool) {
	s, ok := core.Unparen(e).(*ast.SelectorExpr)
	if !ok {
		return "", "", false
	}
	id, ok := core.Unparen(s.X).(*ast.Ident)
	if !ok {
		return "", "", false
	}
	return id.Name, s.Sel.Name, true
}

// decodedPoints lists variables assigned in a case clause from a Point literal whose elements
// index a path's data.
func decodedPoints(info *types.Info, cc *ast.CaseClause) []string {
	var out []string
	seen := map[string]bool{}
	for _, s := range cc.Body {
		as, ok := s.(*ast.AssignStmt)
		if !ok || len(as.Lhs) != len(as.Rhs) {
			continue
		}
		for i, l := range as.Lhs {
			id, ok := l.(*ast.Ident)
			if !ok {
				continue
			}
			cl, ok := core.Unparen(as.Rhs[i]).(*ast.CompositeLit)
			if !ok || len(cl.Elts) != 2 {
				continue
			}
			nt, ok := info.Types[cl].Type.(*types.Named)
			if !ok || nt.Obj().Name() != "Point" {
				continue
			}
			isData := true
			for _, el := range cl.Elts {
				ix, ok := core.Unparen(el).(*ast.IndexExpr)
				if !ok || !core.IsPathDataSel(info, ix.X) {
					isData = false
				}
			}
			if isData && !seen[id.Name] {
				seen[id.Name] = true
				out = append(out, id.Name)
			}
		}
	}
	return out
}

func hasCallTo(info *types.Info, n ast.Node, name string) bool {
	found := false
	ast.Inspect(n, func(m ast.Node) bool {
		if call, ok := m.(*ast.CallExpr); ok {
			if f := core.CalleeOf(info, call); f != nil && f.Name() == name {
				found = true
			}
		}
		return !found
	})
	return found
}

// cmdSwitchClauses returns the case clauses of the switch over a command read from path data.
func cmdSwitchClauses(p *packages.Package, fd *ast.FuncDecl) []*ast.CaseClause {
	info := p.TypesInfo
	var out []*ast.CaseClause
	ast.Inspect(fd.Body, func(n ast.Node) bool {
		sw, ok := n.(*ast.SwitchStmt)
		if !ok || sw.Tag == nil || out != nil {
			return true
		}
		isCmd := false
		for _, s := range sw.Body.List {
			if cc, ok := s.(*ast.CaseClause); ok {
				for _, e := range cc.List {
					if strings.HasSuffix(core.ConstName(info, e), "ToCmd") {
						isCmd = true
					}
				}
			}
		}
		if !isCmd {
			return true
		}
		for _, s := range sw.Body.List {
			if cc, ok := s.(*ast.CaseClause); ok {
				out = append(out, cc)
			}
		}
		return false
	})
	return out
}

// E3BoundingBoxes decides the fold rules for Path.Bounds, Path.FastBounds and the Rect hull methods.
func E3BoundingBoxes(c *core.Ctx, r *core.Report) {
	r.Rule("E3.hull-every-return", "Rect.Transform, Rect.Add and Rect.AddPoint return on every path either an operand unchanged or a Rect whose four elements are the min/max accumulators of the function: a shortcut that returns the images of two opposite corners is unordered under a mirroring matrix")
	r.Rule("E3.polarity", "in a bounding-box function the variables returned as Rect.X0/Y0 are only updated by math.Min folds and X1/Y1 only by math.Max folds")
	r.Rule("E3.homogeneity", "every math.Min/math.Max nested inside a fold of a bounding-box function has the same operator as the fold")
	r.Rule("E3.fold-form", "an accumulator is only ever assigned `acc = math.F(acc, …)` inside the command loop")
	r.Rule("E3.endpoint", "Bounds: every command case folds the end point's X into both X accumulators and its Y into both Y accumulators unconditionally")
	r.Rule("E3.mirror", "FastBounds/Rect: the candidates folded into the min and max accumulator of one axis are the same expressions, and X candidates correspond to Y candidates under .X<->.Y")
	r.Rule("E3.hull", "FastBounds: every point decoded from the command payload in a case is folded into all four accumulators (arc case: c-r/c+r with r = max(rx, ry))")
	p := c.MustPkg("")
	info := p.TypesInfo
	for _, fname := range []string{"Path.Bounds", "Path.FastBounds"} {
		fd := core.MustFuncDecl(p, fname)
		r.Func("canvas." + fname)
		accs, ok := rectAccs(p, fd)
		if !ok {
			panic(core.Infra(fname + ": cannot identify the four accumulators from a unique `return Rect{a,b,c,d}`"))
		}
		folds := collectFolds(p, fd, accs, r, c, "E3", "canvas."+fname)
		clauses := cmdSwitchClauses(p, fd)
		if len(clauses) == 0 {
			panic(core.Infra(fname + ": command switch not found"))
		}
		r.Count("E3.folds:"+fname, len(folds))
		r.Count("E3.cases:"+fname, len(clauses))
		for _, f := range folds {
			key := fmt.Sprintf("canvas.%s|%s|%s|%s", fname, clauseLabel(info, f.clause), accNames[f.acc], leavesKey(f.tree, accs, info))
			if f.tree.op != accOp[f.acc] {
				r.Fail("E3.polarity", key, c.Pos(f.pos), fmt.Sprintf("accumulator returned as Rect.%s is updated with math.%s", accNames[f.acc], f.tree.op))
			} else {
				r.OK("E3.polarity", key, c.Pos(f.pos), "")
			}
			if len(f.tree.mixed) > 0 {
				r.Fail("E3.homogeneity", key, c.Pos(f.pos), fmt.Sprintf("math.%s fold for Rect.%s contains %s: the candidate set is not bounded on that side", f.tree.op, accNames[f.acc], strings.Join(f.tree.mixed, ", ")))
			} else {
				r.OK("E3.homogeneity", key, c.Pos(f.pos), "")
			}
			if f.clause != nil && !f.self {
				r.Fail("E3.fold-form", key, c.Pos(f.pos), "fold does not include the accumulator itself, so earlier extremes are forgotten")
			}
		}
		endName := carriedEnd(p, fd)
		if endName == "" {
			panic(core.Infra(fname + ": cannot identify the end-point variable (`start = end` after the switch)"))
		}
		for _, cc := range clauses {
			label := core.CaseLabel(info, cc)
			// per accumulator: leaves folded unconditionally / anywhere
			var uncond, any [4]map[string]bool
			for i := range uncond {
				uncond[i], any[i] = map[string]bool{}, map[string]bool{}
			}
			for _, f := range folds {
				if f.clause != cc {
					continue
				}
				for _, lf := range f.tree.leaves {
					if id, ok := lf.(*ast.Ident); ok && core.ObjOf(info, id) == accs[f.acc] {
						continue
					}
					any[f.acc][leafKey(lf)] = true
					if f.uncond {
						uncond[f.acc][leafKey(lf)] = true
					}
				}
			}
			if fname == "Path.Bounds" {
				for ai := 0; ai < 4; ai++ {
					want := endName + "." + []string{"X", "Y", "X", "Y"}[ai]
					key := fmt.Sprintf("canvas.%s|%s|%s", fname, label, accNames[ai])
					if uncond[ai][want] {
						r.OK("E3.endpoint", key, c.Pos(cc.Pos()), want)
					} else {
						r.Fail("E3.endpoint", key, c.Pos(cc.Pos()), fmt.Sprintf("%s is not folded unconditionally into the accumulator for Rect.%s in this case, so the box can miss the segment's end point", want, accNames[ai]))
					}
				}
				continue
			}
			// FastBounds
			if hasCallTo(info, cc, "ellipseToCenter") {
				e3ArcHull(c, r, p, cc, fname, label, any)
				continue
			}
			pts := decodedPoints(info, cc)
			r.Count("E3.decoded-points:"+fname, len(pts))
			for ai := 0; ai < 4; ai++ {
				field := []string{"X", "Y", "X", "Y"}[ai]
				for _, pt := range pts {
					key := fmt.Sprintf("canvas.%s|%s|%s|%s", fname, label, accNames[ai], pt)
					if any[ai][pt+"."+field] {
						r.OK("E3.hull", key, c.Pos(cc.Pos()), "")
					} else {
						r.Fail("E3.hull", key, c.Pos(cc.Pos()), fmt.Sprintf("decoded point %s is not a candidate of the fold for Rect.%s: FastBounds can exclude a control point and then fail to contain Bounds", pt, accNames[ai]))
					}
				}
			}
			e3Mirror(c, r, "canvas."+fname+"|"+label, c.Pos(cc.Pos()), any)
		}
	}
	r.Floor("E3.folds:Path.Bounds", 30)
	r.Floor("E3.folds:Path.FastBounds", 16)
	r.Floor("E3.cases:Path.Bounds", 4)
	r.Floor("E3.cases:Path.FastBounds", 4)
	r.Floor("E3.decoded-points:Path.FastBounds", 6)

	// Rect hull methods: definitions instead of self-folds.
	for _, fname := range []string{"Rect.Transform", "Rect.Add", "Rect.AddPoint"} {
		fd := core.MustFuncDecl(p, fname)
		r.Func("canvas." + fname)
		accs, ok := rectAccs(p, fd)
		if !ok {
			panic(core.Infra(fname + ": cannot identify returned Rect elements"))
		}
		folds := collectFolds(p, fd, accs, r, c, "E3", "canvas."+fname)
		r.Count("E3.folds:"+fname, len(folds))
		r.Floor("E3.folds:"+fname, 4)
		// every return of a hull method hands out an ordered rectangle: the receiver or argument as it is,
		// or a Rect whose four elements are the min/max accumulators
		{
			nret := 0
			ast.Inspect(fd.Body, func(n ast.Node) bool {
				if _, ok := n.(*ast.FuncLit); ok {
					return false
				}
				rs, ok := n.(*ast.ReturnStmt)
				if !ok || len(rs.Results) != 1 {
					return true
				}
				nret++
				key := fmt.Sprintf("canvas.%s|return #%d is an ordered rectangle", fname, nret)
				res := core.Unparen(rs.Results[0])
				if _, ok := res.(*ast.Ident); ok {
					r.OK("E3.hull-every-return", key, c.Pos(rs.Pos()), "an operand as it is")
					return true
				}
				cl, ok := res.(*ast.CompositeLit)
				good := ok && len(cl.Elts) == 4
				if good {
					for i, el := range cl.Elts {
						v := el
						if kv, ok := el.(*ast.KeyValueExpr); ok {
							v = kv.Value
						}
						id, ok := core.Unparen(v).(*ast.Ident)
						if !ok {
							good = false
							break
						}
						isAcc := false
						for _, a := range accs {
							if core.ObjOf(info, id) == a {
								isAcc = true
							}
						}
						_ = i
						if !isAcc {
							good = false
						}
					}
				}
				if good {
					r.OK("E3.hull-every-return", key, c.Pos(rs.Pos()), "")
				} else {
					r.Fail("E3.hull-every-return", key, c.Pos(rs.Pos()), fmt.Sprintf("`%s` returns a rectangle that is not built from the min/max accumulators: for a matrix that mirrors an axis the image of (X0,Y0) is not the lower-left corner, the result has X0 > X1 or Y0 > Y1 and is not the bounds of the transformed corners", c.Src(rs)))
				}
				return true
			})
			r.Count("E3.hull-returns", nret)
		}
		var any [4]map[string]bool
		for i := range any {
			any[i] = map[string]bool{}
		}
		for _, f := range folds {
			key := fmt.Sprintf("canvas.%s|%s", fname, accNames[f.acc])
			if f.tree.op != accOp[f.acc] {
				r.Fail("E3.polarity", key, c.Pos(f.pos), fmt.Sprintf("value returned as Rect.%s is computed with math.%s", accNames[f.acc], f.tree.op))
			} else {
				r.OK("E3.polarity", key, c.Pos(f.pos), "")
			}
			if len(f.tree.mixed) > 0 {
				r.Fail("E3.homogeneity", key, c.Pos(f.pos), fmt.Sprintf("math.%s tree contains %s", f.tree.op, strings.Join(f.tree.mixed, ", ")))
			} else {
				r.OK("E3.homogeneity", key, c.Pos(f.pos), "")
			}
			for _, lf := range f.tree.leaves {
				any[f.acc][leafKey(lf)] = true
			}
		}
		switch fname {
		case "Rect.Transform":
			e3Mirror(c, r, "canvas."+fname, c.Pos(fd.Pos()), any)
			// completeness: every Point produced by m.Dot in the function is a candidate
			var pts []string
			ast.Inspect(fd.Body, func(n ast.Node) bool {
				as, ok := n.(*ast.AssignStmt)
				if !ok || len(as.Lhs) != 1 || len(as.Rhs) != 1 {
					return true
				}
				call, ok := as.Rhs[0].(*ast.CallExpr)
				if !ok {
					return true
				}
				if f := core.CalleeOf(info, call); f != nil && f.Name() == "Dot" {
					if id, ok := as.Lhs[0].(*ast.Ident); ok {
						pts = append(pts, id.Name)
					}
				}
				return true
			})
			r.Count("E3.corners:Rect.Transform", len(pts))
			r.Floor("E3.corners:Rect.Transform", 4)
			for ai := 0; ai < 4; ai++ {
				field := []string{"X", "Y", "X", "Y"}[ai]
				for _, pt := range pts {
					key := fmt.Sprintf("canvas.%s|%s|%s", fname, accNames[ai], pt)
					if any[ai][pt+"."+field] {
						r.OK("E3.hull", key, c.Pos(fd.Pos()), "")
					} else {
						r.Fail("E3.hull", key, c.Pos(fd.Pos()), fmt.Sprintf("transformed corner %s is not a candidate for Rect.%s", pt, accNames[ai]))
					}
				}
			}
		default:
			// Add / AddPoint: min side reads the low fields, max side the high fields of a Rect operand
			for ai := 0; ai < 4; ai++ {
				wantRect := []string{"X0", "Y0", "X1", "Y1"}[ai]
				wantPt := []string{"X", "Y", "X", "Y"}[ai]
				for lf := range any[ai] {
					_, field, ok := selRootStr(lf)
					key := fmt.Sprintf("canvas.%s|%s|%s", fname, accNames[ai], lf)
					if ok && (field == wantRect || field == wantPt) {
						r.OK("E3.mirror", key, c.Pos(fd.Pos()), "")
					} else {
						r.Fail("E3.mirror", key, c.Pos(fd.Pos()), fmt.Sprintf("candidate %s for Rect.%s reads the wrong field (want .%s of a Rect or .%s of a Point)", lf, accNames[ai], wantRect, wantPt))
					}
				}
				if len(any[ai]) < 2 {
					r.Fail("E3.hull", fmt.Sprintf("canvas.%s|%s", fname, accNames[ai]), c.Pos(fd.Pos()), "fewer than two candidates: one operand is ignored")
				}
			}
		}
	}
}

func selRootStr(s string) (string, string, bool) {
	i := strings.LastIndex(s, ".")
	if i <= 0 || strings.ContainsAny(s, "()+-*/ ") {
		return "", "", false
	}
	return s[:i], s[i+1:], true
}

func leavesKey(t *mmTree, accs [4]types.Object, info *types.Info) string {
	var ks []string
	for _, lf := range t.leaves {
		if id, ok := lf.(*ast.Ident); ok {
			isAcc := false
			for _, a := range accs {
				if core.ObjOf(info, id) == a {
					isAcc = true
				}
			}
			if isAcc {
				continue
			}
		}
		ks = append(ks, leafKey(lf))
	}
	sort.Strings(ks)
	return strings.Join(ks, ",")
}

// carriedEnd identifies the point variable carried to the next iteration (`start = end` in the loop body).
func carriedEnd(p *packages.Package, fd *ast.FuncDecl) string {
	name := ""
	ast.Inspect(fd.Body, func(n ast.Node) bool {
		fs, ok := n.(*ast.ForStmt)
		if !ok {
			return true
		}
		for _, s := range fs.Body.List {
			as, ok := s.(*ast.AssignStmt)
			if !ok || as.Tok != token.ASSIGN || len(as.Lhs) != 1 || len(as.Rhs) != 1 {
				continue
			}
			l, lok := as.Lhs[0].(*ast.Ident)
			rr, rok := as.Rhs[0].(*ast.Ident)
			if !lok || !rok {
				continue
			}
			if nt, ok := p.TypesInfo.TypeOf(rr).(*types.Named); ok && nt.Obj().Name() == "Point" {
				_ = l
				name = rr.Name
			}
		}
		return true
	})
	return name
}

// e3Mirror: same candidate roots on min and max of one axis; X roots == Y roots.
func e3Mirror(c *core.Ctx, r *core.Report, construct, pos string, any [4]map[string]bool) {
	roots := func(m map[string]bool, field string) (map[string]bool, []string) {
		out := map[string]bool{}
		var bad []string
		for k := range m {
			root, f, ok := selRootStr(k)
			if !ok || f != field {
				bad = append(bad, k)
				continue
			}
			out[root] = true
		}
		return out, bad
	}
	var rs [4]map[string]bool
	for ai := 0; ai < 4; ai++ {
		field := []string{"X", "Y", "X", "Y"}[ai]
		var bad []string
		rs[ai], bad = roots(any[ai], field)
		sort.Strings(bad)
		for _, b := range bad {
			r.Fail("E3.mirror", construct+"|"+accNames[ai]+"|"+b, pos, fmt.Sprintf("candidate %s folded into Rect.%s is not the .%s coordinate of a point", b, accNames[ai], field))
		}
	}
	cmp := func(a, b int, what string) {
		key := construct + "|" + what
		if setEq(rs[a], rs[b]) {
			r.OK("E3.mirror", key, pos, setStr(rs[a]))
		} else {
			r.Fail("E3.mirror", key, pos, fmt.Sprintf("candidate points differ: Rect.%s uses {%s}, Rect.%s uses {%s}", accNames[a], setStr(rs[a]), accNames[b], setStr(rs[b])))
		}
	}
	cmp(0, 2, "xmin~xmax")
	cmp(1, 3, "ymin~ymax")
	cmp(0, 1, "x~y")
}

func setEq(a, b map[string]bool) bool {
	if len(a) != len(b) {
		return false
	}
	for k := range a {
		if !b[k] {
			return false
		}
	}
	return true
}

func setStr(a map[string]bool) string {
	var ks []string
	for k := range a {
		ks = append(ks, k)
	}
	sort.Strings(ks)
	return strings.Join(ks, ",")
}

// e3ArcHull checks the arc case of FastBounds: min folds use c-r, max folds c+r, r = math.Max(rx, ry).
func e3ArcHull(c *core.Ctx, r *core.Report, p *packages.Package, cc *ast.CaseClause, fname, label string, any [4]map[string]bool) {
	info := p.TypesInfo
	// resolve local definitions `name := expr` in the clause
	defs := map[string]ast.Expr{}
	for _, s := range cc.Body {
		if as, ok := s.(*ast.AssignStmt); ok && len(as.Lhs) == len(as.Rhs) {
			for i, l := range as.Lhs {
				if id, ok := l.(*ast.Ident); ok {
					defs[id.Name] = as.Rhs[i]
				}
			}
		}
	}
	var radius [4]string
	var centre [4]string
	for ai := 0; ai < 4; ai++ {
		key := fmt.Sprintf("canvas.%s|%s|%s", fname, label, accNames[ai])
		wantOp := token.SUB
		if ai >= 2 {
			wantOp = token.ADD
		}
		if len(any[ai]) != 1 {
			r.Fail("E3.hull", key, c.Pos(cc.Pos()), fmt.Sprintf("arc case must fold exactly one centre±radius candidate into Rect.%s, found {%s}", accNames[ai], setStr(any[ai])))
			continue
		}
		ok := false
		for _, f := range foldsLeaves(info, cc) {
			be, isBin := f.(*ast.BinaryExpr)
			if !isBin || !any[ai][leafKey(f)] {
				continue
			}
			if be.Op == wantOp {
				ok = true
				centre[ai] = types.ExprString(be.X)
				radius[ai] = types.ExprString(be.Y)
			}
		}
		if ok {
			r.OK("E3.hull", key, c.Pos(cc.Pos()), setStr(any[ai]))
		} else {
			r.Fail("E3.hull", key, c.Pos(cc.Pos()), fmt.Sprintf("arc candidate {%s} for Rect.%s must be centre %s radius", setStr(any[ai]), accNames[ai], wantOp))
		}
	}
	key := fmt.Sprintf("canvas.%s|%s|arc-mirror", fname, label)
	if !(centre[0] != "" && centre[0] == centre[2] && centre[1] == centre[3] && centre[0] != centre[1] && radius[0] == radius[2] && radius[1] == radius[3] && radius[0] != "") {
		r.Fail("E3.mirror", key, c.Pos(cc.Pos()), fmt.Sprintf("arc hull is not symmetric: centres %v radii %v", centre, radius))
		return
	}
	// each axis' half extent covers the ellipse: max(rx, ry) of the two radii (the circumscribed circle), or the
	// Euclidean length of the axis' coefficient pair (the exact extent of the full ellipse)
	var rxO, ryO, phiO types.Object
	for _, st := range cc.Body {
		as, ok := st.(*ast.AssignStmt)
		if !ok || len(as.Rhs) != 1 {
			continue
		}
		if call, ok := core.Unparen(as.Rhs[0]).(*ast.CallExpr); ok {
			if f := core.CalleeOf(info, call); f != nil && f.Name() == "ellipseToCenter" && len(call.Args) >= 5 {
				obj := func(e ast.Expr) types.Object {
					if id, ok := core.Unparen(e).(*ast.Ident); ok {
						return core.ObjOf(info, id)
					}
					return nil
				}
				rxO, ryO, phiO = obj(call.Args[2]), obj(call.Args[3]), obj(call.Args[4])
			}
		}
	}
	var sinO, cosO types.Object
	for _, st := range cc.Body {
		if as, ok := st.(*ast.AssignStmt); ok && len(as.Lhs) == 2 && len(as.Rhs) == 1 {
			if name, call := core.MathFunc(info, as.Rhs[0]); name == "Sincos" && len(call.Args) == 1 {
				if a, ok := core.Unparen(call.Args[0]).(*ast.Ident); ok && phiO != nil && core.ObjOf(info, a) == phiO {
					if a, ok := as.Lhs[0].(*ast.Ident); ok {
						sinO = core.ObjOf(info, a)
					}
					if b, ok := as.Lhs[1].(*ast.Ident); ok {
						cosO = core.ObjOf(info, b)
					}
				}
			}
		}
	}
	sym := func(e ast.Expr) string {
		switch x := e.(type) {
		case *ast.Ident:
			o := core.ObjOf(info, x)
			switch {
			case o == nil:
			case o == rxO:
				return "rx"
			case o == ryO:
				return "ry"
			case o == sinO:
				return "s"
			case o == cosO:
				return "c"
			}
		case *ast.CallExpr:
			if name, call := core.MathFunc(info, x); (name == "Sin" || name == "Cos") && len(call.Args) == 1 {
				if a, ok := core.Unparen(call.Args[0]).(*ast.Ident); ok && phiO != nil && core.ObjOf(info, a) == phiO {
					if name == "Sin" {
						return "s"
					}
					return "c"
				}
			}
		}
		return ""
	}
	want := [2]poly{{"c*c*rx*rx": 1, "ry*ry*s*s": 1}, {"rx*rx*s*s": 1, "c*c*ry*ry": 1}}
	odefs := singleDefs(info, cc)
	delete(odefs, rxO)
	delete(odefs, ryO)
	for axis, name := range []string{radius[0], radius[1]} {
		rad := defs[name]
		how := ""
		if rad != nil {
			if t := minmaxTree(info, rad); t != nil && t.op == "Max" && len(t.mixed) == 0 && len(t.leaves) == 2 && leafKey(t.leaves[0]) != leafKey(t.leaves[1]) {
				ok := true
				for _, l := range t.leaves {
					id, isID := core.Unparen(l).(*ast.Ident)
					if !isID || rxO == nil || (core.ObjOf(info, id) != rxO && core.ObjOf(info, id) != ryO) {
						// leaves that are not the plain radii: only accepted when the radii could not be resolved (old form)
						ok = rxO == nil
					}
				}
				if ok {
					how = "max(rx,ry)"
				}
			}
			if how == "" {
				if fn, call := core.MathFunc(info, rad); fn == "Sqrt" && len(call.Args) == 1 {
					if pl, ok := polyOf(info, call.Args[0], sym, odefs); ok && polyEqual(pl, want[axis]) {
						how = "Euclidean extent"
					}
				} else if fn == "Hypot" && len(call.Args) == 2 {
					a, ok1 := polyOf(info, call.Args[0], sym, odefs)
					b, ok2 := polyOf(info, call.Args[1], sym, odefs)
					if ok1 && ok2 && polyEqual(polyAdd(polyMul(a, a), polyMul(b, b), 1), want[axis]) {
						how = "Euclidean extent"
					}
				}
			}
		}
		k2 := key
		if radius[0] != radius[1] {
			k2 = fmt.Sprintf("%s|%s", key, []string{"x", "y"}[axis])
		} else if axis == 1 {
			break
		}
		if how != "" {
			r.OK("E3.mirror", k2, c.Pos(cc.Pos()), "centre∓"+how)
		} else {
			r.Fail("E3.mirror", k2, c.Pos(cc.Pos()), fmt.Sprintf("the half extent `%s` of the arc's box is neither math.Max of the two radii (the circumscribed circle) nor the Euclidean length √(%s) of the axis' coefficient pair: the box does not contain every rotated ellipse", name, want[axis]))
		}
	}
}

// foldsLeaves lists every leaf expression of every min/max tree assigned in a clause.
func foldsLeaves(info *types.Info, cc *ast.CaseClause) []ast.Expr {
	var out []ast.Expr
	ast.Inspect(cc, func(n ast.Node) bool {
		as, ok := n.(*ast.AssignStmt)
		if !ok {
			return true
		}
		for _, rhs := range as.Rhs {
			if t := minmaxTree(info, rhs); t != nil {
				out = append(out, t.leaves...)
			}
		}
		return true
	})
	return out
}

// E3RayHull decides the pre-filter hull rules of Path.RayIntersections (C06).
func E3RayHull(c *core.Ctx, r *core.Report) {
	r.Rule("E3.ray-hull", "RayIntersections: in each curve case the pre-filter `Interval(y, lo, hi) && x <= xhi+Epsilon` uses lo = Min-tree, hi = Max-tree over the Y of start, end and every decoded control point, and xhi = Max-tree over the same points' X (arc: centre∓B with B = math.Max over the two decoded radii, or the exact rotated half-extents math.Hypot(rx·cos φ, ry·sin φ) on x / math.Hypot(rx·sin φ, ry·cos φ) on y; a maximum of the two products instead of their root-sum-square is too small at oblique rotations)")
	p := c.MustPkg("")
	info := p.TypesInfo
	fd := core.MustFuncDecl(p, "Path.RayIntersections")
	r.Func("canvas.Path.RayIntersections")
	clauses := cmdSwitchClauses(p, fd)
	endName := carriedEnd(p, fd)
	startName := ""
	ast.Inspect(fd.Body, func(n ast.Node) bool {
		if as, ok := n.(*ast.AssignStmt); ok && as.Tok == token.ASSIGN && len(as.Lhs) == 1 && len(as.Rhs) == 1 {
			if rr, ok := as.Rhs[0].(*ast.Ident); ok && rr.Name == endName {
				if l, ok := as.Lhs[0].(*ast.Ident); ok {
					startName = l.Name
				}
			}
		}
		return true
	})
	if endName == "" || startName == "" {
		panic(core.Infra("RayIntersections: start/end variables not identified"))
	}
	for _, cc := range clauses {
		label := core.CaseLabel(info, cc)
		// find the guarding if
		var guard *ast.IfStmt
		for _, s := range cc.Body {
			if is, ok := s.(*ast.IfStmt); ok {
				guard = is
			}
		}
		if guard == nil {
			if len(core.CaseConsts(info, cc)) == 1 && core.CaseConsts(info, cc)[0] == "MoveToCmd" {
				continue
			}
			r.Fail("E3.ray-hull", "canvas.Path.RayIntersections|"+label+"|guard", c.Pos(cc.Pos()), "case has no pre-filter guard of the recognised shape")
			continue
		}
		r.Count("E3.ray-cases", 1)
		defs := map[string]ast.Expr{}
		for _, s := range cc.Body {
			if as, ok := s.(*ast.AssignStmt); ok && len(as.Lhs) == len(as.Rhs) {
				for i, l := range as.Lhs {
					if id, ok := l.(*ast.Ident); ok {
						defs[id.Name] = as.Rhs[i]
					}
				}
			}
		}
		resolve := func(e ast.Expr) ast.Expr {
			if id, ok := core.Unparen(e).(*ast.Ident); ok {
				if d, ok := defs[id.Name]; ok {
					return d
				}
			}
			return core.Unparen(e)
		}
		// guard: Interval(y, lo, hi) && x <= xhi + Epsilon
		be, ok := core.Unparen(guard.Cond).(*ast.BinaryExpr)
		var lo, hi, xhi ast.Expr
		if ok && be.Op == token.LAND {
			if call, ok := core.Unparen(be.X).(*ast.CallExpr); ok && len(call.Args) == 3 {
				if f := core.CalleeOf(info, call); f != nil && f.Name() == "Interval" {
					lo, hi = call.Args[1], call.Args[2]
				}
			}
			if cmp, ok := core.Unparen(be.Y).(*ast.BinaryExpr); ok && cmp.Op == token.LEQ {
				rhs := core.Unparen(cmp.Y)
				if add, ok := rhs.(*ast.BinaryExpr); ok && add.Op == token.ADD {
					// xhi + Epsilon, in either operand order
					if id, ok := core.Unparen(add.Y).(*ast.Ident); ok && id.Name == "Epsilon" {
						xhi = add.X
					} else if id, ok := core.Unparen(add.X).(*ast.Ident); ok && id.Name == "Epsilon" {
						xhi = add.Y
					}
				}
			}
		}
		base := "canvas.Path.RayIntersections|" + label
		if lo == nil || hi == nil || xhi == nil {
			r.Fail("E3.ray-hull", base+"|guard", c.Pos(guard.Pos()), "pre-filter is not of the form Interval(y, lo, hi) && x <= xhi+Epsilon")
			continue
		}
		if hasCallTo(info, cc, "ellipseToCenter") {
			// arc: lo = cy - B, hi = cy + B, xhi = cx + B' with B, B' sound bounds of the rotated ellipse's
			// half-extents: math.Max(rx, ry) over the two decoded radii (record offsets 1 and 2), or the exact
			// extents math.Hypot(rx*cos, ry*sin) on x and math.Hypot(rx*sin, ry*cos) on y.
			radius := func(e ast.Expr) int { // 1 = rx, 2 = ry, 0 = neither
				id, ok := core.Unparen(e).(*ast.Ident)
				if !ok {
					return 0
				}
				d, ok := defs[id.Name]
				if !ok {
					return 0
				}
				ie, _, ok := dataIndex(info, core.Unparen(d))
				if !ok {
					return 0
				}
				if _, k, ok := linForm(info, ie.Index); ok && (k == 1 || k == 2) {
					return k
				}
				return 0
			}
			trig := func(e ast.Expr) string { // "sin" | "cos" | ""
				if name, call := core.MathFunc(info, e); call != nil && (name == "Sin" || name == "Cos") {
					return strings.ToLower(name)
				}
				id, ok := core.Unparen(e).(*ast.Ident)
				if !ok {
					return ""
				}
				// sinphi, cosphi := math.Sincos(phi)
				for _, st := range cc.Body {
					as, ok := st.(*ast.AssignStmt)
					if !ok || len(as.Lhs) != 2 || len(as.Rhs) != 1 {
						continue
					}
					if name, call := core.MathFunc(info, as.Rhs[0]); call != nil && name == "Sincos" {
						for i, l := range as.Lhs {
							if lid, ok := l.(*ast.Ident); ok && core.ObjOf(info, lid) == core.ObjOf(info, id) {
								return []string{"sin", "cos"}[i]
							}
						}
					}
				}
				if d, ok := defs[id.Name]; ok {
					if name, call := core.MathFunc(info, d); call != nil && (name == "Sin" || name == "Cos") {
						return strings.ToLower(name)
					}
				}
				return ""
			}
			// bound classifies B: "max" (Max(rx,ry)), "hypot-x", "hypot-y" or ""
			bound := func(e ast.Expr) string {
				e = resolve(e)
				if t := minmaxTree(info, e); t != nil {
					if t.op == "Max" && len(t.mixed) == 0 && len(t.leaves) == 2 && radius(t.leaves[0])*radius(t.leaves[1]) == 2 {
						return "max"
					}
					return ""
				}
				if name, call := core.MathFunc(info, e); call != nil && name == "Hypot" && len(call.Args) == 2 {
					pair := func(a ast.Expr) (int, string) {
						m, ok := core.Unparen(a).(*ast.BinaryExpr)
						if !ok || m.Op != token.MUL {
							return 0, ""
						}
						if r := radius(m.X); r != 0 {
							return r, trig(m.Y)
						}
						return radius(m.Y), trig(m.X)
					}
					r1, t1 := pair(call.Args[0])
					r2, t2 := pair(call.Args[1])
					if r1*r2 == 2 && t1 != "" && t2 != "" && t1 != t2 {
						rxTrig := t1
						if r1 == 2 {
							rxTrig = t2
						}
						if rxTrig == "cos" {
							return "hypot-x"
						}
						return "hypot-y"
					}
				}
				return ""
			}
			isCM := func(e ast.Expr, op token.Token) (string, string) {
				b, ok := resolve(e).(*ast.BinaryExpr)
				if !ok || b.Op != op {
					return "", ""
				}
				return types.ExprString(b.X), bound(b.Y)
			}
			cl, b1 := isCM(lo, token.SUB)
			ch, b2 := isCM(hi, token.ADD)
			cx, b3 := isCM(xhi, token.ADD)
			yOK := b1 != "" && b1 == b2 && (b1 == "max" || b1 == "hypot-y")
			xOK := b3 == "max" || b3 == "hypot-x"
			if yOK && xOK && cl != "" && cl == ch && cx != "" && cx != cl {
				r.OK("E3.ray-hull", base+"|arc", c.Pos(guard.Pos()), "centre ∓ "+b1+" on y, centre + "+b3+" on x")
			} else {
				r.Fail("E3.ray-hull", base+"|arc", c.Pos(guard.Pos()), "arc pre-filter is not centre∓B on y and centre+B' on x with B, B' a recognised sound bound of the rotated ellipse's half-extents: math.Max(rx, ry) over the two decoded radii, or math.Hypot(rx*cos φ, ry*sin φ) on x and math.Hypot(rx*sin φ, ry*cos φ) on y (any smaller bound skips arcs the ray crosses)")
			}
			continue
		}
		pts := append([]string{startName, endName}, decodedPoints(info, cc)...)
		uniq := map[string]bool{}
		for _, pt := range pts {
			uniq[pt] = true
		}
		check := func(e ast.Expr, op, field, what string) {
			key := base + "|" + what
			t := minmaxTree(info, resolve(e))
			if t == nil {
				r.Fail("E3.ray-hull", key, c.Pos(guard.Pos()), what+" bound is not a math.Min/Max tree")
				return
			}
			if t.op != op || len(t.mixed) > 0 {
				r.Fail("E3.ray-hull", key, c.Pos(guard.Pos()), fmt.Sprintf("%s bound must be a pure math.%s tree (found math.%s, mixed %v)", what, op, t.op, t.mixed))
				return
			}
			got := map[string]bool{}
			for _, lf := range t.leaves {
				root, f, ok := selRoot(lf)
				if !ok || f != field {
					r.Fail("E3.ray-hull", key, c.Pos(guard.Pos()), fmt.Sprintf("candidate %s of the %s bound is not a .%s coordinate", leafKey(lf), what, field))
					return
				}
				got[root] = true
			}
			if !setEq(got, uniq) {
				r.Fail("E3.ray-hull", key, c.Pos(guard.Pos()), fmt.Sprintf("%s bound covers points {%s} but the segment's hull is {%s}: a segment the ray crosses can be skipped", what, setStr(got), setStr(uniq)))
				return
			}
			r.OK("E3.ray-hull", key, c.Pos(guard.Pos()), setStr(got))
		}
		check(lo, "Min", "Y", "ymin")
		check(hi, "Max", "Y", "ymax")
		check(xhi, "Max", "X", "xmax")
	}
	r.Floor("E3.ray-cases", 4)
}

// E3BoundsExtrema: the interior extrema of curves are each examined independently, and the arc
// extreme angles pair the radii with the right trigonometric factor.
func E3BoundsExtrema(c *core.Ctx, r *core.Report) {
	r.Rule("E3.derivative-solved", "Path.Bounds: every call of the derivative's root solver sits directly in the body of its command case, under no if, inner switch or loop: a guard leaves the interior extremes unexamined on the other path")
	r.Rule("E3.extrema-independent", "Path.Bounds: every root returned by the derivative's root solver (and the single root of the quadratic case) guards, in an if statement placed directly in the case body (not in the else-branch of another root's test), folds into both the min and the max accumulator of its axis; a curve can have two interior extrema on one axis")
	r.Rule("E3.arc-extrema", "Path.Bounds, arc case: with x(θ)=cx+rx·cosθ·cosφ−ry·sinθ·sinφ and y(θ)=cy+rx·cosθ·sinφ+ry·sinθ·cosφ the extreme angles are atan2(∓ry·sinφ, rx·cosφ) and atan2(ry·cosφ, rx·sinφ): in both Atan2 calls the first argument carries ry and the second rx, and the two calls use sinφ/cosφ crosswise")
	p := c.MustPkg("")
	info := p.TypesInfo
	fd := core.MustFuncDecl(p, "Path.Bounds")
	accs, ok := rectAccs(p, fd)
	if !ok {
		panic(core.Infra("Bounds accumulators not found"))
	}
	accIdx := func(id *ast.Ident) int {
		o := core.ObjOf(info, id)
		for i, a := range accs {
			if a == o {
				return i
			}
		}
		return -1
	}
	foldsIn := func(n ast.Node) map[int]bool {
		out := map[int]bool{}
		ast.Inspect(n, func(m ast.Node) bool {
			if as, ok := m.(*ast.AssignStmt); ok {
				for i, l := range as.Lhs {
					if id, ok := l.(*ast.Ident); ok && accIdx(id) >= 0 && i < len(as.Rhs) {
						if minmaxTree(info, as.Rhs[i]) != nil {
							out[accIdx(id)] = true
						}
					}
				}
			}
			return true
		})
		return out
	}
	mentionsIdent := func(e ast.Node, name string) bool {
		found := false
		ast.Inspect(e, func(m ast.Node) bool {
			if id, ok := m.(*ast.Ident); ok && id.Name == name {
				found = true
			}
			return !found
		})
		return found
	}
	// the two axes are independent: no if/else chain folds only x accumulators in one branch and only y
	// accumulators in another
	chains := 0
	ast.Inspect(fd.Body, func(n ast.Node) bool {
		is, ok := n.(*ast.IfStmt)
		if !ok || is.Else == nil {
			return true
		}
		chains++
		var xOnly, yOnly ast.Node
		classify := func(b ast.Node) {
			fs := foldsIn(b)
			x, y := fs[0] || fs[2], fs[1] || fs[3]
			if x && !y && xOnly == nil {
				xOnly = b
			}
			if y && !x && yOnly == nil {
				yOnly = b
			}
		}
		classify(is.Body)
		switch e := is.Else.(type) {
		case *ast.BlockStmt:
			classify(e)
		case *ast.IfStmt:
			classify(e.Body) // deeper links of the chain are visited as their own chain with their predecessor
			if e.Else != nil {
				classify(e.Else)
			}
		}
		if xOnly != nil && yOnly != nil {
			r.Fail("E3.axes-exclusive", fmt.Sprintf("canvas.Path.Bounds|if/else chain `%s`", c.Src(is.Cond)), c.Pos(is.Pos()), "one branch of this if/else chain folds an extreme into the x bounds and another into the y bounds: the two are mutually exclusive, but a curve can turn around in x and in y inside one segment (`M10 10Q70 90 30 20`), and the skipped extreme is left outside the box")
		}
		return true
	})
	r.Rule("E3.axes-exclusive", "Path.Bounds: the interior extremes of the two coordinates are independent, so no if/else chain folds into the x accumulators in one branch and into the y accumulators in another (expected count zero; the mutant of the thorough tier is the positive example)")
	r.Count("E3.axes-exclusive-chains", chains)
	if chains > 0 {
		r.OK("E3.axes-exclusive", "canvas.Path.Bounds|if/else chains", c.Pos(fd.Pos()), fmt.Sprintf("%d chains, none separates the axes", chains))
	}
	roots := 0
	solverCalls := 0
	for _, cc := range cmdSwitchClauses(p, fd) {
		label := core.CaseLabel(info, cc)
		// segments of the case body delimited by root-solver assignments
		type rootSet struct {
			names []string
			from  int
		}
		var sets []rootSet
		for i, s := range cc.Body {
			// the assignment may sit inside a guard (reported by E3.derivative-solved); the root tests follow the
			// top-level statement that holds it
			ast.Inspect(s, func(n ast.Node) bool {
				as, ok := n.(*ast.AssignStmt)
				if !ok || len(as.Rhs) != 1 {
					return true
				}
				call, ok := core.Unparen(as.Rhs[0]).(*ast.CallExpr)
				if !ok {
					return true
				}
				if f := core.CalleeOf(info, call); f == nil || f.Name() != "solveQuadraticFormula" {
					return true
				}
				var names []string
				for _, l := range as.Lhs {
					if id, ok := l.(*ast.Ident); ok {
						names = append(names, id.Name)
					}
				}
				sets = append(sets, rootSet{names, i})
				return true
			})
		}
		// every call of the solver in the case body is unconditional: one that runs only under a guard leaves
		// the roots unknown on the other path, and a cubic's derivative can vanish twice inside the segment
		// whatever its signs at the two ends
		top := map[ast.Stmt]bool{}
		for _, s := range cc.Body {
			top[s] = true
		}
		var stack []ast.Node
		ast.Inspect(cc, func(n ast.Node) bool {
			if n == nil {
				stack = stack[:len(stack)-1]
				return true
			}
			stack = append(stack, n)
			call, ok := n.(*ast.CallExpr)
			if !ok {
				return true
			}
			if f := core.CalleeOf(info, call); f == nil || f.Name() != "solveQuadraticFormula" {
				return true
			}
			solverCalls++
			key := fmt.Sprintf("canvas.Path.Bounds|%s|solver call %d", label, solverCalls)
			guard := ""
			for i := len(stack) - 2; i >= 0; i-- {
				switch g := stack[i].(type) {
				case *ast.IfStmt:
					guard = "if " + types.ExprString(g.Cond)
				case *ast.CaseClause:
					if stack[i] != ast.Node(cc) {
						guard = "a case of an inner switch"
					}
				case *ast.ForStmt, *ast.RangeStmt:
					guard = "a loop"
				}
				if guard != "" {
					break
				}
				if st, ok := stack[i].(ast.Stmt); ok && top[st] {
					break
				}
			}
			if guard == "" {
				r.OK("E3.derivative-solved", key, c.Pos(call.Pos()), "")
			} else {
				r.Fail("E3.derivative-solved", key, c.Pos(call.Pos()), fmt.Sprintf("the roots of the derivative are only computed under `%s`: on the other path the interior extremes are never examined, and the derivative of a cubic (a parabola) can vanish twice inside the segment whatever the tangents at its two ends, so the box can cut through the curve", guard))
			}
			return true
		})
		for si, rs := range sets {
			end := len(cc.Body)
			if si+1 < len(sets) {
				end = sets[si+1].from
			}
			for _, name := range rs.names {
				roots++
				key := fmt.Sprintf("canvas.Path.Bounds|%s|root set %d|%s", label, si+1, name)
				found := false
				for _, s := range cc.Body[rs.from+1 : end] {
					is, ok := s.(*ast.IfStmt)
					if !ok || !mentionsIdent(is.Cond, name) {
						continue
					}
					fs := foldsIn(is.Body)
					if (fs[0] && fs[2]) || (fs[1] && fs[3]) {
						found = true
					}
				}
				if found {
					r.OK("E3.extrema-independent", key, c.Pos(cc.Body[rs.from].Pos()), "")
				} else {
					r.Fail("E3.extrema-independent", key, c.Pos(cc.Body[rs.from].Pos()), fmt.Sprintf("root `%s` of the derivative is not tested by its own if statement in the case body (e.g. it is only examined in the else-branch of the other root): when both roots are interior the extreme at `%s` is not folded and the box cuts through the curve", name, name))
				}
			}
		}
		// arc extremes
		if hasCallTo(info, cc, "ellipseToCenter") {
			var rx, ry string
			for _, s := range cc.Body {
				as, ok := s.(*ast.AssignStmt)
				if !ok || len(as.Lhs) != len(as.Rhs) {
					continue
				}
				for i, rhs := range as.Rhs {
					ie, ok := core.Unparen(rhs).(*ast.IndexExpr)
					if !ok || !core.IsPathDataSel(info, ie.X) {
						continue
					}
					_, k, ok := linForm(info, ie.Index)
					id, isId := as.Lhs[i].(*ast.Ident)
					if !ok || !isId {
						continue
					}
					if k == 1 {
						rx = id.Name
					}
					if k == 2 {
						ry = id.Name
					}
				}
			}
			if rx == "" || ry == "" {
				r.Fail("E3.arc-extrema", "canvas.Path.Bounds|"+label+"|radii", c.Pos(cc.Pos()), "the radii decoded at offsets +1/+2 were not found")
				continue
			}
			type at struct {
				name       string
				a0, a1     ast.Expr
				pos        token.Pos
				sin0, cos0 bool
			}
			// the locals holding sin(phi) and cos(phi): results of math.Sincos
			sinName, cosName := "", ""
			for _, s := range cc.Body {
				if as, ok := s.(*ast.AssignStmt); ok && len(as.Lhs) == 2 && len(as.Rhs) == 1 {
					if name, _ := core.MathFunc(info, as.Rhs[0]); name == "Sincos" {
						if a, ok := as.Lhs[0].(*ast.Ident); ok {
							sinName = a.Name
						}
						if b, ok := as.Lhs[1].(*ast.Ident); ok {
							cosName = b.Name
						}
					}
				}
			}
			if sinName == "" || cosName == "" {
				r.Fail("E3.arc-extrema", "canvas.Path.Bounds|"+label+"|sincos", c.Pos(cc.Pos()), "the sin/cos of the rotation (math.Sincos) were not found")
				continue
			}
			var calls []at
			for _, s := range cc.Body {
				as, ok := s.(*ast.AssignStmt)
				if !ok || len(as.Lhs) != 1 || len(as.Rhs) != 1 {
					continue
				}
				if name, call := core.MathFunc(info, as.Rhs[0]); name == "Atan2" && len(call.Args) == 2 {
					calls = append(calls, at{name: types.ExprString(as.Lhs[0]), a0: call.Args[0], a1: call.Args[1], pos: call.Pos(),
						sin0: mentionsIdent(call.Args[0], sinName), cos0: mentionsIdent(call.Args[0], cosName)})
				}
			}
			r.Count("E3.arc-atan2", len(calls))
			have := map[string]bool{}
			for _, a := range calls {
				// role, not the local's name: the angle whose first argument carries sinφ is the X extreme
				role := "angle of the X extreme"
				if a.cos0 && !a.sin0 {
					role = "angle of the Y extreme"
				}
				have[role] = true
				key := "canvas.Path.Bounds|" + label + "|" + role
				okRadii := mentionsIdent(a.a0, ry) && !mentionsIdent(a.a0, rx) && mentionsIdent(a.a1, rx) && !mentionsIdent(a.a1, ry)
				okTrig := a.sin0 != a.cos0 && mentionsIdent(a.a1, sinName) != mentionsIdent(a.a1, cosName) && a.sin0 != mentionsIdent(a.a1, sinName)
				if okRadii && okTrig {
					r.OK("E3.arc-extrema", key, c.Pos(a.pos), types.ExprString(a.a0)+" , "+types.ExprString(a.a1))
				} else {
					r.Fail("E3.arc-extrema", key, c.Pos(a.pos), fmt.Sprintf("math.Atan2(%s, %s): the first argument must carry %s (coefficient of sinθ) and the second %s (coefficient of cosθ), with sinφ and cosφ crosswise; otherwise the extreme angle is wrong for rotated ellipses with rx≠ry and the box misses the arc's extreme", types.ExprString(a.a0), types.ExprString(a.a1), ry, rx))
				}
			}
			for _, role := range []string{"angle of the X extreme", "angle of the Y extreme"} {
				key := "canvas.Path.Bounds|" + label + "|" + role + "|own Atan2"
				if have[role] {
					r.OK("E3.arc-extrema", key, c.Pos(cc.Pos()), "")
				} else {
					r.Fail("E3.arc-extrema", key, c.Pos(cc.Pos()), "the "+role+" is not computed by its own math.Atan2: the X and Y extremes of a rotated ellipse with rx≠ry are not a quarter turn apart in the parameter θ (tanθx = −(ry/rx)·tanφ, tanθy = (ry/rx)·cotφ), so deriving one from the other decides for the wrong angle whether the arc passes through the extreme")
				}
			}
			if len(calls) == 2 && calls[0].sin0 == calls[1].sin0 {
				r.Fail("E3.arc-extrema", "canvas.Path.Bounds|"+label+"|crosswise", c.Pos(cc.Pos()), "both extreme angles use the same trigonometric factor in their first argument; the X and Y extremes differ by swapping sinφ and cosφ")
			}
		}
	}
	r.Count("E3.derivative-roots", roots)
	r.Floor("E3.derivative-roots", 4)
	r.Count("E3.derivative-solver-calls", solverCalls)
	r.Floor("E3.derivative-solver-calls", 2)
	r.Floor("E3.arc-atan2", 1)
}

// E3LineHeights: the line metrics are component-wise maxima over the spans (C16, one clause).
func E3LineHeights(c *core.Ctx, r *core.Report) {
	r.Rule("E3.line-heights", "line.Heights returns four accumulators that start at 0 and are only ever updated by acc = math.Max(acc, E); when E comes from the 4-tuple FontFace.heights() the tuple position equals the accumulator's position (top, ascent, descent, bottom), and from the 2-tuple TextSpanObject.Heights() ascent feeds top/ascent and descent feeds descent/bottom; Text.Heights takes the ascent (position 1) of the first line and the descent (position 2) of the last")
	p := c.MustPkg("")
	info := p.TypesInfo
	fd := core.MustFuncDecl(p, "line.Heights")
	r.Func("canvas.line.Heights")
	var accs []types.Object
	if ret, ok := fd.Body.List[len(fd.Body.List)-1].(*ast.ReturnStmt); ok && len(ret.Results) == 4 {
		for _, e := range ret.Results {
			if id, ok := e.(*ast.Ident); ok {
				accs = append(accs, core.ObjOf(info, id))
			}
		}
	}
	if len(accs) != 4 {
		panic(core.Infra("line.Heights: final `return top, ascent, descent, bottom` not found"))
	}
	accIdx := func(o types.Object) int {
		for i, a := range accs {
			if a == o {
				return i
			}
		}
		return -1
	}
	names := []string{"top", "ascent", "descent", "bottom"}
	// tuple definitions: ident -> (arity, position, callee name)
	type tup struct {
		arity, pos int
		callee     string
	}
	tuples := map[types.Object]tup{}
	ast.Inspect(fd.Body, func(n ast.Node) bool {
		as, ok := n.(*ast.AssignStmt)
		if !ok || len(as.Rhs) != 1 || len(as.Lhs) < 2 {
			return true
		}
		call, ok := core.Unparen(as.Rhs[0]).(*ast.CallExpr)
		if !ok {
			return true
		}
		f := core.CalleeOf(info, call)
		if f == nil {
			return true
		}
		for i, l := range as.Lhs {
			if id, ok := l.(*ast.Ident); ok && id.Name != "_" {
				tuples[core.ObjOf(info, id)] = tup{len(as.Lhs), i, f.Name()}
			}
		}
		return true
	})
	n := 0
	ast.Inspect(fd.Body, func(nd ast.Node) bool {
		as, ok := nd.(*ast.AssignStmt)
		if !ok || as.Tok == token.DEFINE {
			return true
		}
		for i, l := range as.Lhs {
			id, ok := l.(*ast.Ident)
			if !ok {
				continue
			}
			ai := accIdx(core.ObjOf(info, id))
			if ai < 0 || i >= len(as.Rhs) {
				continue
			}
			n++
			key := fmt.Sprintf("canvas.line.Heights|%s fold #%d", names[ai], n)
			t := minmaxTree(info, as.Rhs[i])
			if t == nil || t.op != "Max" || len(t.mixed) > 0 {
				r.Fail("E3.line-heights", key, c.Pos(as.Pos()), fmt.Sprintf("the %s of the line is not updated by a pure math.Max fold: a span taller than the line would overlap its neighbours", names[ai]))
				continue
			}
			self := false
			bad := ""
			for _, lf := range t.leaves {
				if lid, ok := lf.(*ast.Ident); ok && accIdx(core.ObjOf(info, lid)) == ai {
					self = true
					continue
				}
				// which tuple value does the candidate use?
				ast.Inspect(lf, func(m ast.Node) bool {
					mid, ok := m.(*ast.Ident)
					if !ok {
						return true
					}
					tp, ok := tuples[core.ObjOf(info, mid)]
					if !ok {
						return true
					}
					switch {
					case tp.arity == 4 && tp.callee == "heights" && tp.pos != ai:
						bad = fmt.Sprintf("%s is folded with component %d (%s) of FontFace.heights()", names[ai], tp.pos, names[tp.pos])
					case tp.arity == 2 && tp.callee == "Heights" && tp.pos != ai/2:
						bad = fmt.Sprintf("%s is folded with the %s of the inline object", names[ai], []string{"ascent", "descent"}[tp.pos])
					}
					return true
				})
			}
			if !self {
				bad = "the fold forgets the accumulated value"
			}
			if bad != "" {
				r.Fail("E3.line-heights", key, c.Pos(as.Pos()), bad+": the line's metrics no longer enclose all its spans")
			} else {
				r.OK("E3.line-heights", key, c.Pos(as.Pos()), "")
			}
		}
		return true
	})
	r.Count("E3.line-height-folds", n)
	r.Floor("E3.line-height-folds", 16)
	// Text.Heights: structural — the first result is −F.y + a and the second L.y + d, where a is the
	// ascent (result 1) of F.Heights(…), d the descent (result 2) of L.Heights(…), F the first and L
	// the last line; compared as polynomials, so operand order and extra locals do not matter
	th := core.MustFuncDecl(p, "Text.Heights")
	{
		recv := recvObj(info, th)
		defs := singleDefs(info, th.Body)
		type tup struct {
			line types.Object
			pos  int
		}
		tupOf := map[types.Object]tup{}
		ast.Inspect(th.Body, func(m ast.Node) bool {
			as, ok := m.(*ast.AssignStmt)
			if !ok || len(as.Rhs) != 1 || len(as.Lhs) != 4 {
				return true
			}
			call, ok := core.Unparen(as.Rhs[0]).(*ast.CallExpr)
			if !ok {
				return true
			}
			se, ok := call.Fun.(*ast.SelectorExpr)
			if !ok || se.Sel.Name != "Heights" {
				return true
			}
			lid, ok := core.Unparen(se.X).(*ast.Ident)
			if !ok {
				return true
			}
			for k, l := range as.Lhs {
				if id, ok := l.(*ast.Ident); ok && id.Name != "_" {
					tupOf[core.ObjOf(info, id)] = tup{core.ObjOf(info, lid), k}
					delete(defs, core.ObjOf(info, id))
				}
			}
			return true
		})
		// which line a variable holds: lines[0] or lines[len-1]
		lineKind := func(o types.Object) string {
			d, ok := defs[o]
			if !ok {
				return ""
			}
			ie, ok := core.Unparen(d).(*ast.IndexExpr)
			if !ok {
				return ""
			}
			names, rooted := ctxFieldPath(info, ie.X, recv)
			if !rooted || len(names) != 1 || names[0] != "lines" {
				return ""
			}
			lenSym := func(e ast.Expr) string {
				if call, ok := e.(*ast.CallExpr); ok && len(call.Args) == 1 {
					if fn, ok := core.Unparen(call.Fun).(*ast.Ident); ok && fn.Name == "len" {
						if ns, rooted := ctxFieldPath(info, call.Args[0], recv); rooted && len(ns) == 1 && ns[0] == "lines" {
							return "n"
						}
					}
				}
				return ""
			}
			pe, ok := polyOf(info, ie.Index, lenSym, nil)
			switch {
			case ok && len(pe) == 0:
				return "first"
			case ok && polyEqual(pe, poly{"n": 1, "": -1}):
				return "last"
			}
			return ""
		}
		lineDefs := map[types.Object]ast.Expr{}
		for o, d := range defs {
			if lineKind(o) == "" {
				lineDefs[o] = d
			}
		}
		sym := func(e ast.Expr) string {
			switch x := e.(type) {
			case *ast.Ident:
				o := core.ObjOf(info, x)
				if t, ok := tupOf[o]; ok {
					return fmt.Sprintf("h%d(%s)", t.pos, lineKind(t.line))
				}
			case *ast.SelectorExpr:
				if id, ok := core.Unparen(x.X).(*ast.Ident); ok && x.Sel.Name == "y" {
					if k := lineKind(core.ObjOf(info, id)); k != "" {
						return "y(" + k + ")"
					}
				}
			}
			return ""
		}
		okHeights := false
		ast.Inspect(th.Body, func(m ast.Node) bool {
			ret, ok := m.(*ast.ReturnStmt)
			if !ok || len(ret.Results) != 2 {
				return true
			}
			if tv, ok := info.Types[ret.Results[0]]; ok && tv.Value != nil {
				return true // the early return for an empty text
			}
			a, ok1 := polyOf(info, ret.Results[0], sym, lineDefs)
			b, ok2 := polyOf(info, ret.Results[1], sym, lineDefs)
			if ok1 && ok2 && polyEqual(a, poly{"y(first)": -1, "h1(first)": 1}) && polyEqual(b, poly{"y(last)": 1, "h2(last)": 1}) {
				okHeights = true
			}
			return true
		})
		if okHeights {
			r.OK("E3.line-heights", "canvas.Text.Heights", c.Pos(th.Pos()), "ascent of the first line, descent of the last")
		} else {
			r.Fail("E3.line-heights", "canvas.Text.Heights", c.Pos(th.Pos()), "Text.Heights does not combine the ascent (2nd result) of the first line with the descent (3rd result) of the last line")
		}
	}
}

// E3ArcShortcut: the half-turn shortcut of ellipseToCenter is taken only for a chord equal to the diameter.
func E3ArcShortcut(c *core.Ctx, r *core.Report) {
	r.Rule("E3.arc-shortcut", "ellipseToCenter's shortcut that returns the chord's midpoint as centre and a sweep of exactly π is sound only when the end points are the two ends of the (unrotated) horizontal axis, i.e. the chord |x2−x1| equals the diameter 2·rx with y1 = y2 and φ = 0. The branch whose body returns the midpoint ((x2−x1)/2 added to x1) must be guarded by Equal(|x2−x1|, 2·rx): with any other length (for example the radius) an ordinary arc gets the wrong centre, and Length, Bounds, SplitAt and flattening of that arc are wrong")
	p := c.MustPkg("")
	info := p.TypesInfo
	fd := core.MustFuncDecl(p, "ellipseToCenter")
	r.Func("canvas.ellipseToCenter")
	rx := paramObj(info, fd, 2)
	var found *ast.IfStmt
	ast.Inspect(fd.Body, func(n ast.Node) bool {
		is, ok := n.(*ast.IfStmt)
		if !ok {
			return true
		}
		// the branch that computes a midpoint: an expression (a-b)/2 in its body and a return
		mid := false
		for _, s := range is.Body.List {
			ast.Inspect(s, func(m ast.Node) bool {
				if be, ok := m.(*ast.BinaryExpr); ok && be.Op == token.QUO {
					if v, ok := core.ConstInt(info, be.Y); ok && v == 2 {
						if sub, ok := core.Unparen(be.X).(*ast.BinaryExpr); ok && sub.Op == token.SUB {
							mid = true
						}
					}
				}
				return true
			})
		}
		if mid && allPathsReturn(is.Body) && found == nil {
			// must also test an Abs of a coordinate difference
			hasAbs := false
			ast.Inspect(is.Cond, func(m ast.Node) bool {
				if name, _ := core.MathFunc(info, exprOf(m)); name == "Abs" {
					hasAbs = true
				}
				return true
			})
			if hasAbs {
				found = is
			}
		}
		return true
	})
	key := "canvas.ellipseToCenter|half-turn shortcut|chord equals the diameter"
	if found == nil {
		r.OK("E3.arc-shortcut", key, c.Pos(fd.Pos()), "no midpoint shortcut: every arc goes through the general conversion")
		r.Count("E3.arc-shortcuts", 1)
		return
	}
	r.Count("E3.arc-shortcuts", 1)
	ok := false
	var conj func(e ast.Expr)
	conj = func(e ast.Expr) {
		e = core.Unparen(e)
		if be, isB := e.(*ast.BinaryExpr); isB && be.Op == token.LAND {
			conj(be.X)
			conj(be.Y)
			return
		}
		call, isC := e.(*ast.CallExpr)
		if !isC || len(call.Args) != 2 {
			return
		}
		if f := core.CalleeOf(info, call); f == nil || f.Name() != "Equal" {
			return
		}
		for i := 0; i < 2; i++ {
			if name, _ := core.MathFunc(info, call.Args[i]); name != "Abs" {
				continue
			}
			other := core.Unparen(call.Args[1-i])
			// 2*rx, rx*2 or rx+rx
			if be, isB := other.(*ast.BinaryExpr); isB {
				isRx := func(x ast.Expr) bool {
					id, ok := core.Unparen(x).(*ast.Ident)
					return ok && core.ObjOf(info, id) == rx
				}
				isTwo := func(x ast.Expr) bool {
					if tv, ok := info.Types[x]; ok && tv.Value != nil {
						return tv.Value.ExactString() == "2"
					}
					return false
				}
				if be.Op == token.MUL && (isRx(be.X) && isTwo(be.Y) || isTwo(be.X) && isRx(be.Y)) || be.Op == token.ADD && isRx(be.X) && isRx(be.Y) {
					ok = true
				}
			}
		}
	}
	conj(found.Cond)
	if ok {
		r.OK("E3.arc-shortcut", key, c.Pos(found.Pos()), "guarded by Equal(|x2-x1|, 2*rx)")
	} else {
		r.Fail("E3.arc-shortcut", key, c.Pos(found.Pos()), fmt.Sprintf("the shortcut is guarded by `%s`, which does not compare the chord with the diameter 2·rx: arcs that are not half ellipses get the chord's midpoint as centre", types.ExprString(found.Cond)))
	}
}

func exprOf(n ast.Node) ast.Expr {
	if e, ok := n.(ast.Expr); ok {
		return e
	}
	return nil
}

// E3RayImplicitClose: a necessary condition for counting the implicit closing segment of open sub-paths.
func E3RayImplicitClose(c *core.Ctx, r *core.Report) {
	r.Rule("E3.ray-implicit-close", "C06 defines Windings/Crossings/Contains on the implicitly closed sub-paths. RayIntersections can only intersect the closing segment of an open sub-path if it remembers the sub-path's first point: some Point variable is assigned in the MoveTo case (from the record's coordinates) and in no other case of the command switch, and is read outside that case. (Necessary, not sufficient: the rule does not check that the segment is intersected at the right moments.)")
	p := c.MustPkg("")
	info := p.TypesInfo
	fd := core.MustFuncDecl(p, "Path.RayIntersections")
	r.Func("canvas.Path.RayIntersections")
	clauses := cmdSwitchClauses(p, fd)
	assignedIn := map[types.Object]map[string]bool{}
	for _, cc := range clauses {
		label := strings.Join(core.CaseConsts(info, cc), ",")
		for _, s := range cc.Body {
			ast.Inspect(s, func(n ast.Node) bool {
				if as, ok := n.(*ast.AssignStmt); ok {
					for _, l := range as.Lhs {
						if id, ok := l.(*ast.Ident); ok {
							o := core.ObjOf(info, id)
							if o != nil && isNamed(o.Type(), "tdewolff/canvas", "Point") {
								if assignedIn[o] == nil {
									assignedIn[o] = map[string]bool{}
								}
								assignedIn[o][label] = true
							}
						}
					}
				}
				return true
			})
		}
	}
	found := false
	for o, cases := range assignedIn {
		if len(cases) != 1 || !cases["MoveToCmd"] {
			continue
		}
		// read outside the MoveTo case
		read := false
		ast.Inspect(fd.Body, func(n ast.Node) bool {
			id, ok := n.(*ast.Ident)
			if !ok || core.ObjOf(info, id) != o || info.Defs[id] != nil {
				return true
			}
			if inCaseOf(info, fd, id, "MoveToCmd") {
				return true
			}
			read = true
			return true
		})
		if read {
			found = true
		}
	}
	key := "canvas.Path.RayIntersections|first point of the sub-path remembered for the implicit closing segment"
	if found {
		r.OK("E3.ray-implicit-close", key, c.Pos(fd.Pos()), "")
	} else {
		r.Fail("E3.ray-implicit-close", key, c.Pos(fd.Pos()), "no variable keeps the first point of the current sub-path (every Point assigned in the MoveTo case is also advanced by the other cases): the segment that implicitly closes an open sub-path is never intersected, so Windings, Crossings and Contains ignore it")
	}
}

// E3DominantAxis: choosing the dominant axis of a vector compares magnitudes.
func E3DominantAxis(c *core.Ctx, r *core.Report) {
	r.Rule("E3.dominant-axis", "a comparison between the X and the Y component of one vector (v.X < v.Y and the like) that selects which component is examined afterwards compares absolute values: both operands are math.Abs(…) of the components. On signed components a vector pointing in a negative direction takes the wrong axis (whose component may be zero, so every sign test on it succeeds); in LineTo a line that turns back on itself is then merged into its predecessor and the requested geometry is lost")
	p := c.MustPkg("")
	info := p.TypesInfo
	n := 0
	comp := func(e ast.Expr) (types.Object, string, bool) {
		// v.X / v.Y, optionally inside math.Abs
		abs := false
		if name, call := core.MathFunc(info, e); call != nil && name == "Abs" && len(call.Args) == 1 {
			abs = true
			e = call.Args[0]
		}
		sel, ok := core.Unparen(e).(*ast.SelectorExpr)
		if !ok || (sel.Sel.Name != "X" && sel.Sel.Name != "Y") {
			return nil, "", false
		}
		id, ok := core.Unparen(sel.X).(*ast.Ident)
		if !ok {
			return nil, "", false
		}
		if t := info.TypeOf(id); t == nil || !isNamed(t, "tdewolff/canvas", "Point") {
			return nil, "", false
		}
		return core.ObjOf(info, id), sel.Sel.Name, abs
	}
	for _, fd := range core.AllFuncDecls(p) {
		if fd.Body == nil || strings.HasSuffix(c.Fset.Position(fd.Pos()).Filename, "_test.go") {
			continue
		}
		fname := "canvas." + core.FuncName(fd)
		ord := 0
		ast.Inspect(fd.Body, func(m ast.Node) bool {
			is, ok := m.(*ast.IfStmt)
			if !ok {
				return true
			}
			be, ok := core.Unparen(is.Cond).(*ast.BinaryExpr)
			if !ok {
				return true
			}
			switch be.Op {
			case token.LSS, token.GTR, token.LEQ, token.GEQ:
			default:
				return true
			}
			o1, c1, a1 := comp(be.X)
			o2, c2, a2 := comp(be.Y)
			if o1 == nil || o1 != o2 || c1 == c2 {
				return true
			}
			n++
			ord++
			key := fmt.Sprintf("%s|axis choice #%d", fname, ord)
			if a1 && a2 {
				r.OK("E3.dominant-axis", key, c.Pos(is.Pos()), types.ExprString(is.Cond))
			} else {
				r.Fail("E3.dominant-axis", key, c.Pos(is.Pos()), fmt.Sprintf("`%s` compares the signed components of one vector to choose an axis: for a vector pointing left or down the smaller (possibly zero) component wins", types.ExprString(is.Cond)))
			}
			return true
		})
	}
	r.Count("E3.axis-choices", n)
	r.Floor("E3.axis-choices", 1)
}

// ellipseRadiusArgs: reviewed table of the package's ellipse helpers — positions of the x- and y-radius arguments.
var ellipseRadiusArgs = map[string][2]int{
	"ellipseDeriv":              {0, 1},
	"ellipseDeriv2":             {0, 1},
	"EllipsePos":                {0, 1},
	"ellipseNormal":             {0, 1},
	"ellipseLength":             {0, 1},
	"ellipseToCenter":           {2, 3},
	"ellipseCurvatureRadius":    {0, 1},
	"ellipseToQuadraticBeziers": {1, 2},
	"ellipseToCubicBeziers":     {1, 2},
	"ellipseRadiiCorrection":    {1, 2},
	"ellipseSplit":              {0, 1},
}

// E3EllipseParamAngle: the parametric angle of a point on an ellipse divides each coordinate by its own radius.
func E3EllipseParamAngle(c *core.Ctx, r *core.Report) {
	r.Rule("E3.ellipse-param-angle", "A point (x, y) in the frame of an ellipse x = rx·cos t, y = ry·sin t has parameter t = atan2(y/ry, x/rx) = atan2(y·rx, x·ry). Wherever math.Atan2 is applied to two products each made of one coordinate and one radius (the radii being the expressions the function hands to the package's ellipse helpers at their rx/ry positions; a coordinate being a variable the function also uses as the X or Y of a Point), the first argument holds the Y coordinate and the second the X coordinate, a radius that multiplies is the other axis's and a radius that divides is the coordinate's own. The 'tidy' form atan2(y·ry, x·rx) is the polar angle of a squashed point: intersections are then tested against the arc's angular range with the wrong angle and hits are dropped or invented")
	p := c.MustPkg("")
	info := p.TypesInfo
	n := 0
	for _, fd := range core.AllFuncDecls(p) {
		if fd.Body == nil || strings.HasSuffix(c.Fset.Position(fd.Pos()).Filename, "_test.go") {
			continue
		}
		// radius roles from helper calls
		role := map[string]int{} // expr string -> 0 (rx) / 1 (ry)
		conflict := false
		ast.Inspect(fd.Body, func(m ast.Node) bool {
			call, ok := m.(*ast.CallExpr)
			if !ok {
				return true
			}
			f := core.CalleeOf(info, call)
			if f == nil || f.Pkg() != p.Types {
				return true
			}
			pos, ok := ellipseRadiusArgs[f.Name()]
			if !ok || len(call.Args) <= pos[1] {
				return true
			}
			a, b := types.ExprString(core.Unparen(call.Args[pos[0]])), types.ExprString(core.Unparen(call.Args[pos[1]]))
			if a == b {
				return true // a circle
			}
			for i, s := range []string{a, b} {
				if old, seen := role[s]; seen && old != i {
					conflict = true
				}
				role[s] = i
			}
			return true
		})
		if len(role) == 0 || conflict {
			continue
		}
		// coordinate axes from Point literals
		axis := map[types.Object]int{}
		ast.Inspect(fd.Body, func(m ast.Node) bool {
			cl, ok := m.(*ast.CompositeLit)
			if !ok || len(cl.Elts) != 2 {
				return true
			}
			if tv := info.Types[cl]; tv.Type == nil || !strings.HasSuffix(tv.Type.String(), "canvas.Point") {
				return true
			}
			for i, el := range cl.Elts {
				if kv, ok := el.(*ast.KeyValueExpr); ok {
					el = kv.Value
				}
				if id, ok := core.Unparen(el).(*ast.Ident); ok {
					if o := core.ObjOf(info, id); o != nil {
						axis[o] = i
					}
				}
			}
			return true
		})
		// factorise: numerator/denominator leaves of a product
		var factors func(e ast.Expr, inv bool, num, den *[]ast.Expr)
		factors = func(e ast.Expr, inv bool, num, den *[]ast.Expr) {
			e = core.Unparen(e)
			if u, ok := e.(*ast.UnaryExpr); ok && (u.Op == token.SUB || u.Op == token.ADD) {
				factors(u.X, inv, num, den)
				return
			}
			if be, ok := e.(*ast.BinaryExpr); ok && (be.Op == token.MUL || be.Op == token.QUO) {
				factors(be.X, inv, num, den)
				factors(be.Y, inv != (be.Op == token.QUO), num, den)
				return
			}
			if inv {
				*den = append(*den, e)
			} else {
				*num = append(*num, e)
			}
		}
		coordAxis := func(e ast.Expr) int {
			switch x := core.Unparen(e).(type) {
			case *ast.Ident:
				if a, ok := axis[core.ObjOf(info, x)]; ok {
					return a
				}
			case *ast.SelectorExpr:
				if tv := info.Types[x.X]; tv.Type != nil && strings.HasSuffix(strings.TrimPrefix(tv.Type.String(), "*"), "canvas.Point") {
					if _, isRadius := role[types.ExprString(x)]; !isRadius {
						if x.Sel.Name == "X" {
							return 0
						} else if x.Sel.Name == "Y" {
							return 1
						}
					}
				}
			}
			return -1
		}
		fname := "canvas." + core.FuncName(fd)
		ord := 0
		ast.Inspect(fd.Body, func(m ast.Node) bool {
			call, ok := m.(*ast.CallExpr)
			if !ok || !core.IsPkgFunc(info, call, "math", "Atan2") || len(call.Args) != 2 {
				return true
			}
			type part struct {
				coord, radius, radiusInDen int
				ok                         bool
			}
			var parts [2]part
			for i, a := range call.Args {
				var num, den []ast.Expr
				factors(a, false, &num, &den)
				pt := part{coord: -1, radius: -1}
				nr, nc := 0, 0
				for _, f := range num {
					if ro, ok := role[types.ExprString(f)]; ok {
						pt.radius, pt.radiusInDen = ro, 0
						nr++
					} else if ax := coordAxis(f); ax >= 0 {
						pt.coord = ax
						nc++
					}
				}
				for _, f := range den {
					if ro, ok := role[types.ExprString(f)]; ok {
						pt.radius, pt.radiusInDen = ro, 1
						nr++
					}
				}
				pt.ok = nr == 1 && nc == 1
				parts[i] = pt
			}
			if !parts[0].ok || !parts[1].ok {
				return true
			}
			n++
			ord++
			key := fmt.Sprintf("%s|parametric angle #%d pairs each coordinate with the right radius", fname, ord)
			bad := ""
			for i, pt := range parts {
				wantCoord := 1 - i // first argument: Y
				if pt.coord != wantCoord {
					bad = fmt.Sprintf("argument %d of Atan2 holds the %s coordinate", i+1, []string{"X", "Y"}[pt.coord])
					break
				}
				wantRadius := 1 - pt.coord // multiplying: the other axis's radius
				if pt.radiusInDen == 1 {
					wantRadius = pt.coord
				}
				if pt.radius != wantRadius {
					bad = fmt.Sprintf("in `%s` the %s coordinate is %s the %s radius", c.Src(call.Args[i]), []string{"X", "Y"}[pt.coord], []string{"multiplied by", "divided by"}[pt.radiusInDen], []string{"x", "y"}[pt.radius])
					break
				}
			}
			if bad != "" {
				r.Fail("E3.ellipse-param-angle", key, c.Pos(call.Pos()), bad+": this is not the ellipse parameter atan2(y/ry, x/rx) of the point, so the angular-range test and the tangent direction of the intersection use a wrong angle")
			} else {
				r.OK("E3.ellipse-param-angle", key, c.Pos(call.Pos()), "")
			}
			return true
		})
	}
	r.Count("E3.ellipse-param-angles", n)
	r.Floor("E3.ellipse-param-angles", 1)
}

// E3ContainmentFilter: a containment pre-filter does not use an over-approximated box for the contained object.
func E3ContainmentFilter(c *core.Ctx, r *core.Report) {
	r.Rule("E3.containment-filter", "package canvas: FastBounds is an over-approximation (control points, the full circle of an arc). It may stand for the *container* in a test that prunes work — a box that is too large only prunes less — but not for the *contained* object: `!A.Contains(B)` with B derived from FastBounds() rejects pairs in which the object itself lies inside A although its control hull sticks out. Filling with such a filter no longer adds the winding of an enclosing contour to a nested curved contour. Every negated Rect.Contains(Rect) in the package is examined; the argument must not be (an element of) something assigned from FastBounds()")
	p := c.MustPkg("")
	info := p.TypesInfo
	n := 0
	for _, fd := range core.AllFuncDecls(p) {
		if fd.Body == nil || strings.HasSuffix(c.Fset.Position(fd.Pos()).Filename, "_test.go") {
			continue
		}
		fname := "canvas." + core.FuncName(fd)
		fast := map[types.Object]bool{}
		ast.Inspect(fd.Body, func(m ast.Node) bool {
			as, ok := m.(*ast.AssignStmt)
			if !ok || len(as.Lhs) != len(as.Rhs) {
				return true
			}
			for i, l := range as.Lhs {
				id := core.RootIdent(l)
				if id == nil {
					continue
				}
				if hasCallTo(info, as.Rhs[i], "FastBounds") {
					fast[core.ObjOf(info, id)] = true
				}
			}
			return true
		})
		ord := 0
		ast.Inspect(fd.Body, func(m ast.Node) bool {
			u, ok := m.(*ast.UnaryExpr)
			if !ok || u.Op != token.NOT {
				return true
			}
			call, ok := core.Unparen(u.X).(*ast.CallExpr)
			if !ok || len(call.Args) != 1 {
				return true
			}
			se, ok := call.Fun.(*ast.SelectorExpr)
			if !ok || se.Sel.Name != "Contains" {
				return true
			}
			if t := info.TypeOf(se.X); t == nil || !strings.HasSuffix(t.String(), "canvas.Rect") {
				return true
			}
			if t := info.TypeOf(call.Args[0]); t == nil || !strings.HasSuffix(t.String(), "canvas.Rect") {
				return true
			}
			n++
			ord++
			key := fmt.Sprintf("%s|negated containment test #%d: the contained box is exact", fname, ord)
			arg := call.Args[0]
			bad := hasCallTo(info, arg, "FastBounds")
			if id := core.RootIdent(arg); id != nil && fast[core.ObjOf(info, id)] {
				bad = true
			}
			if bad {
				r.Fail("E3.containment-filter", key, c.Pos(u.Pos()), fmt.Sprintf("`%s` prunes on the FastBounds of the object that should be contained: a curved sub-path whose control points or full arc circle reach outside the other box is rejected although the curve itself lies inside", c.Src(u)))
			} else {
				r.OK("E3.containment-filter", key, c.Pos(u.Pos()), "")
			}
			return true
		})
	}
	r.OK("E3.containment-filter", "canvas|no pruning on an over-approximated inner box", "", fmt.Sprintf("%d negated containment tests", n))
	r.Count("E3.functions-scanned-for-containment-filters", len(core.AllFuncDecls(p)))
	r.Floor("E3.functions-scanned-for-containment-filters", 500)
}

// E3EllipseFrameRotation: the chord is taken into the ellipse's own frame by rotating with −φ.
func E3EllipseFrameRotation(c *core.Ctx, r *core.Report) {
	r.Rule("E3.ellipse-frame", "ellipseToCenter and ellipseRadiiCorrection (which ArcTo uses to decide whether the radii reach the end point, and by how much to enlarge them) evaluate λ = x′²/rx² + y′²/ry² for the half chord (x′, y′) expressed in the ellipse's own axes, i.e. rotated by −φ (SVG implementation notes F.6.5.1: x′ = cosφ·Δx + sinφ·Δy, y′ = −sinφ·Δx + cosφ·Δy). The two quantities that are squared and divided by rx² and ry² are therefore defined with a +sinφ term in the first and a −sinφ term in the second, or by a Point.Rot whose angle is the negated rotation. Rotating by +φ tests the chord against the mirror image of the ellipse: rotated non-circular arcs are stored with radii that cannot reach their end point, or are enlarged although they fit")
	p := c.MustPkg("")
	info := p.TypesInfo
	n := 0
	for _, fname := range []string{"ellipseToCenter", "ellipseRadiiCorrection"} {
		fd := core.MustFuncDecl(p, fname)
		r.Func("canvas." + fname)
		// the rotation parameter: the float parameter right after the two radii (by the reviewed table)
		pos, ok := ellipseRadiusArgs[fname]
		if !ok {
			continue
		}
		phiObj := paramObj(info, fd, pos[1]+1)
		rxObj, ryObj := paramObj(info, fd, pos[0]), paramObj(info, fd, pos[1])
		// λ: sum of two quotients
		var num [2]ast.Expr
		ast.Inspect(fd.Body, func(m ast.Node) bool {
			be, ok := m.(*ast.BinaryExpr)
			if !ok || be.Op != token.ADD || num[0] != nil {
				return true
			}
			get := func(e ast.Expr, rad types.Object) ast.Expr {
				// ((a*a)/r)/r
				q1, ok := core.Unparen(e).(*ast.BinaryExpr)
				if !ok || q1.Op != token.QUO {
					return nil
				}
				if id, ok := core.Unparen(q1.Y).(*ast.Ident); !ok || core.ObjOf(info, id) != rad {
					return nil
				}
				q2, ok := core.Unparen(q1.X).(*ast.BinaryExpr)
				if !ok || q2.Op != token.QUO {
					return nil
				}
				if id, ok := core.Unparen(q2.Y).(*ast.Ident); !ok || core.ObjOf(info, id) != rad {
					return nil
				}
				sq, ok := core.Unparen(q2.X).(*ast.BinaryExpr)
				if !ok || sq.Op != token.MUL || types.ExprString(sq.X) != types.ExprString(sq.Y) {
					return nil
				}
				return core.Unparen(sq.X)
			}
			a, b := get(be.X, rxObj), get(be.Y, ryObj)
			if a != nil && b != nil {
				num[0], num[1] = a, b
			}
			return true
		})
		n++
		key := "canvas." + fname + "|half chord rotated by −φ into the ellipse frame"
		if num[0] == nil {
			r.Fail("E3.ellipse-frame", key, c.Pos(fd.Pos()), "the radii check x′²/rx² + y′²/ry² was not found")
			continue
		}
		defOf := func(o types.Object) ast.Expr {
			var def ast.Expr
			ast.Inspect(fd.Body, func(m ast.Node) bool {
				if as, ok := m.(*ast.AssignStmt); ok && len(as.Lhs) == len(as.Rhs) {
					for i, l := range as.Lhs {
						if id, ok := l.(*ast.Ident); ok && core.ObjOf(info, id) == o {
							def = as.Rhs[i]
						}
					}
				}
				return true
			})
			return def
		}
		// sign of the additive term that mentions the sine of the rotation
		var sinObj types.Object
		ast.Inspect(fd.Body, func(m ast.Node) bool {
			if as, ok := m.(*ast.AssignStmt); ok && len(as.Lhs) == 2 && len(as.Rhs) == 1 {
				if call, ok := as.Rhs[0].(*ast.CallExpr); ok && core.IsPkgFunc(info, call, "math", "Sincos") {
					if id, ok := as.Lhs[0].(*ast.Ident); ok {
						sinObj = core.ObjOf(info, id)
					}
				}
			}
			return true
		})
		sinSign := func(e ast.Expr) int {
			sign := 0
			var walk func(e ast.Expr, s int)
			walk = func(e ast.Expr, s int) {
				e = core.Unparen(e)
				switch x := e.(type) {
				case *ast.BinaryExpr:
					switch x.Op {
					case token.ADD:
						walk(x.X, s)
						walk(x.Y, s)
						return
					case token.SUB:
						walk(x.X, s)
						walk(x.Y, -s)
						return
					case token.QUO:
						walk(x.X, s)
						return
					case token.MUL:
						// a constant factor scales the whole sum: (a + b) * 0.5
						for _, pair := range [][2]ast.Expr{{x.X, x.Y}, {x.Y, x.X}} {
							if tv, ok := info.Types[pair[0]]; ok && tv.Value != nil {
								if numSign(tv.Value) < 0 {
									walk(pair[1], -s)
								} else {
									walk(pair[1], s)
								}
								return
							}
						}
					}
				case *ast.UnaryExpr:
					if x.Op == token.SUB {
						walk(x.X, -s)
						return
					}
				}
				// a product term: does it mention the sine? with a leading minus inside?
				mentions := false
				neg := 1
				ast.Inspect(e, func(k ast.Node) bool {
					if id, ok := k.(*ast.Ident); ok && sinObj != nil && core.ObjOf(info, id) == sinObj {
						mentions = true
					}
					return true
				})
				// the sign of a product: one factor −1 per negated factor, whatever their order
				var factors func(e ast.Expr)
				factors = func(e ast.Expr) {
					e = core.Unparen(e)
					if be, ok := e.(*ast.BinaryExpr); ok && be.Op == token.MUL {
						factors(be.X)
						factors(be.Y)
						return
					}
					if u, ok := e.(*ast.UnaryExpr); ok && u.Op == token.SUB {
						neg = -neg
						factors(u.X)
						return
					}
					if tv, ok := info.Types[e]; ok && tv.Value != nil && numSign(tv.Value) < 0 {
						neg = -neg
					}
				}
				factors(e)
				if mentions {
					sign = s * neg
				}
			}
			walk(e, 1)
			return sign
		}
		verdict := ""
		var viaRot *ast.CallExpr
		var signs [2]int
		for i := 0; i < 2; i++ {
			switch x := num[i].(type) {
			case *ast.Ident:
				if d := defOf(core.ObjOf(info, x)); d != nil {
					signs[i] = sinSign(d)
				}
			case *ast.SelectorExpr:
				if id, ok := core.Unparen(x.X).(*ast.Ident); ok {
					if d := defOf(core.ObjOf(info, id)); d != nil {
						ast.Inspect(d, func(k ast.Node) bool {
							if call, ok := k.(*ast.CallExpr); ok {
								if se, ok := call.Fun.(*ast.SelectorExpr); ok && se.Sel.Name == "Rot" && len(call.Args) == 2 {
									viaRot = call
								}
							}
							return true
						})
					}
				}
			}
		}
		if viaRot != nil {
			neg := false
			if u, ok := core.Unparen(viaRot.Args[0]).(*ast.UnaryExpr); ok && u.Op == token.SUB {
				if id, ok := core.Unparen(u.X).(*ast.Ident); ok && core.ObjOf(info, id) == phiObj {
					neg = true
				}
			}
			if !neg {
				verdict = fmt.Sprintf("the half chord is rotated with `%s`, by +φ: Point.Rot turns counter clockwise, the ellipse frame is reached by turning back (Rot(-phi, …))", c.Src(viaRot))
			}
		} else if signs[0] == 1 && signs[1] == -1 {
			// x′ has +sinφ, y′ has −sinφ
		} else {
			verdict = fmt.Sprintf("the sine terms of the two rotated coordinates have signs (%+d, %+d); rotating by −φ gives (+1, −1)", signs[0], signs[1])
		}
		if verdict == "" {
			r.OK("E3.ellipse-frame", key, c.Pos(fd.Pos()), "")
		} else {
			r.Fail("E3.ellipse-frame", key, c.Pos(fd.Pos()), verdict+": the radii are checked against the mirror image of the ellipse, so a rotated non-circular arc keeps radii that cannot reach its end point or is enlarged needlessly")
		}
	}
	r.Count("E3.ellipse-frame-checks", n)
	r.Floor("E3.ellipse-frame-checks", 2)
}

// E3ArcAngleFrame: angles from ellipseToCenter are relative to the ellipse's rotation.
func E3ArcAngleFrame(c *core.Ctx, r *core.Report) {
	r.Rule("E3.arc-angle-frame", "ellipseToCenter returns the start and end angle of an arc in the ellipse's own frame, i.e. relative to its rotation φ. Where such an angle is turned into a point directly with PolarPoint (absolute polar coordinates about the centre) the rotation handed to ellipseToCenter is added first (`θ += φ` for each of the two angles), unless that rotation is the constant 0. ArcTo zeroes the rotation of circles, but Path.Transform can leave a circle with a rotation of 90°; without the addition the circular flattener then places its vertices a quarter turn away from the arc")
	p := c.MustPkg("")
	info := p.TypesInfo
	n := 0
	for _, fd := range core.AllFuncDecls(p) {
		if fd.Body == nil || strings.HasSuffix(c.Fset.Position(fd.Pos()).Filename, "_test.go") {
			continue
		}
		fname := "canvas." + core.FuncName(fd)
		// angles from ellipseToCenter with a non-constant rotation
		type src struct {
			phi  string
			call token.Pos
		}
		angles := map[types.Object]src{}
		ast.Inspect(fd.Body, func(m ast.Node) bool {
			as, ok := m.(*ast.AssignStmt)
			if !ok || len(as.Lhs) != 4 || len(as.Rhs) != 1 {
				return true
			}
			call, ok := as.Rhs[0].(*ast.CallExpr)
			if !ok {
				return true
			}
			if f := core.CalleeOf(info, call); f == nil || f.Name() != "ellipseToCenter" || len(call.Args) < 5 {
				return true
			}
			if v, isConst := constantFloat(core.ConstVal(info, call.Args[4])); isConst && v == 0 {
				return true
			}
			for _, l := range as.Lhs[2:] {
				if id, ok := l.(*ast.Ident); ok && id.Name != "_" {
					angles[core.ObjOf(info, id)] = src{squash(types.ExprString(call.Args[4])), call.Pos()}
				}
			}
			return true
		})
		if len(angles) == 0 {
			continue
		}
		// locals derived from the angles
		derived := map[types.Object][]types.Object{}
		for o := range angles {
			derived[o] = []types.Object{o}
		}
		ast.Inspect(fd.Body, func(m ast.Node) bool {
			as, ok := m.(*ast.AssignStmt)
			if !ok || as.Tok != token.DEFINE || len(as.Lhs) != len(as.Rhs) {
				return true
			}
			for i, l := range as.Lhs {
				id, ok := l.(*ast.Ident)
				if !ok {
					continue
				}
				var from []types.Object
				ast.Inspect(as.Rhs[i], func(k ast.Node) bool {
					if rid, ok := k.(*ast.Ident); ok {
						if fr, ok := derived[core.ObjOf(info, rid)]; ok {
							from = append(from, fr...)
						}
					}
					return true
				})
				if len(from) > 0 {
					derived[info.Defs[id]] = from
				}
			}
			return true
		})
		ord := 0
		ast.Inspect(fd.Body, func(m ast.Node) bool {
			call, ok := m.(*ast.CallExpr)
			if !ok || len(call.Args) != 2 {
				return true
			}
			if f := core.CalleeOf(info, call); f == nil || f.Name() != "PolarPoint" {
				return true
			}
			var roots []types.Object
			ast.Inspect(call.Args[0], func(k ast.Node) bool {
				if id, ok := k.(*ast.Ident); ok {
					if fr, ok := derived[core.ObjOf(info, id)]; ok {
						roots = append(roots, fr...)
					}
				}
				return true
			})
			if len(roots) == 0 {
				return true
			}
			n++
			ord++
			key := fmt.Sprintf("%s|PolarPoint #%d of an arc angle: the rotation is added to the angle first", fname, ord)
			missing := ""
			for _, ro := range roots {
				sr := angles[ro]
				added := false
				ast.Inspect(fd.Body, func(k ast.Node) bool {
					as, ok := k.(*ast.AssignStmt)
					if !ok || as.Tok != token.ADD_ASSIGN || len(as.Lhs) != 1 || as.Pos() < sr.call || as.Pos() > call.Pos() {
						return true
					}
					if id, ok := as.Lhs[0].(*ast.Ident); ok && core.ObjOf(info, id) == ro && squash(types.ExprString(as.Rhs[0])) == sr.phi {
						added = true
					}
					return true
				})
				if !added {
					missing = ro.Name()
				}
			}
			if missing == "" {
				r.OK("E3.arc-angle-frame", key, c.Pos(call.Pos()), "")
			} else {
				r.Fail("E3.arc-angle-frame", key, c.Pos(call.Pos()), fmt.Sprintf("the angle passed to PolarPoint derives from `%s`, which ellipseToCenter returned relative to the rotation `%s`, and that rotation is not added before the point is placed: for a circle that kept a rotation the vertices are turned away from the arc", missing, angles[roots[0]].phi))
			}
			return true
		})
	}
	r.Count("E3.polar-placements-of-arc-angles", n)
	r.Floor("E3.polar-placements-of-arc-angles", 1)
}

// E3ArcExtent: the half extents of a rotated ellipse used by Path.Bounds.
func E3ArcExtent(c *core.Ctx, r *core.Report) {
	r.Rule("E3.arc-extent", "Path.Bounds, arc case: x(θ) = cx + (rx·cosφ)·cosθ − (ry·sinφ)·sinθ and y(θ) = cy + (rx·sinφ)·cosθ + (ry·cosφ)·sinθ, so the extreme points lie at cx ± √(rx²cos²φ + ry²sin²φ) and cy ± √(rx²sin²φ + ry²cos²φ): the Euclidean length of each axis' coefficient pair. Every quantity folded into a side of the box under an angleBetween test is the centre coordinate of that axis plus or minus a local whose definition is math.Sqrt of exactly that polynomial (or math.Hypot of the two coefficients) — decided by expanding the argument to polynomial normal form over rx, ry, sinφ, cosφ. The 1-norm (rx·|cosφ| + ry·|sinφ|) bounds the rotated rectangle instead and is too wide for every oblique rotation with rx≠ry; an extent taken from the ellipse's own position function at the extreme angle is accepted as the other idiom")
	p := c.MustPkg("")
	info := p.TypesInfo
	fd := core.MustFuncDecl(p, "Path.Bounds")
	r.Func("canvas.Path.Bounds")
	accs, ok := rectAccs(p, fd)
	if !ok {
		panic(core.Infra("Bounds accumulators not found"))
	}
	n := 0
	for _, cc := range cmdSwitchClauses(p, fd) {
		if !hasCallTo(info, cc, "ellipseToCenter") {
			continue
		}
		label := core.CaseLabel(info, cc)
		// the symbols: rx, ry, phi are arguments 2..4 of ellipseToCenter, cx, cy its results 0 and 1
		var rx, ry, phi, cx, cy types.Object
		for _, s := range cc.Body {
			as, ok := s.(*ast.AssignStmt)
			if !ok || len(as.Rhs) != 1 {
				continue
			}
			call, ok := core.Unparen(as.Rhs[0]).(*ast.CallExpr)
			if !ok {
				continue
			}
			if f := core.CalleeOf(info, call); f == nil || f.Name() != "ellipseToCenter" || len(call.Args) < 5 || len(as.Lhs) < 2 {
				continue
			}
			obj := func(e ast.Expr) types.Object {
				if id, ok := core.Unparen(e).(*ast.Ident); ok {
					return core.ObjOf(info, id)
				}
				return nil
			}
			rx, ry, phi = obj(call.Args[2]), obj(call.Args[3]), obj(call.Args[4])
			cx, cy = obj(as.Lhs[0]), obj(as.Lhs[1])
		}
		if rx == nil || ry == nil || phi == nil || cx == nil || cy == nil {
			r.Fail("E3.arc-extent", "canvas.Path.Bounds|"+label+"|symbols", c.Pos(cc.Pos()), "radii, rotation and centre of the ellipseToCenter call are not plain locals")
			continue
		}
		var sinO, cosO types.Object
		for _, s := range cc.Body {
			if as, ok := s.(*ast.AssignStmt); ok && len(as.Lhs) == 2 && len(as.Rhs) == 1 {
				if name, call := core.MathFunc(info, as.Rhs[0]); name == "Sincos" && len(call.Args) == 1 {
					if a, ok := core.Unparen(call.Args[0]).(*ast.Ident); ok && core.ObjOf(info, a) == phi {
						if a, ok := as.Lhs[0].(*ast.Ident); ok {
							sinO = core.ObjOf(info, a)
						}
						if b, ok := as.Lhs[1].(*ast.Ident); ok {
							cosO = core.ObjOf(info, b)
						}
					}
				}
			}
		}
		sym := func(e ast.Expr) string {
			switch x := e.(type) {
			case *ast.Ident:
				switch core.ObjOf(info, x) {
				case rx:
					return "rx"
				case ry:
					return "ry"
				case sinO:
					if sinO != nil {
						return "s"
					}
				case cosO:
					if cosO != nil {
						return "c"
					}
				}
			case *ast.CallExpr:
				if name, call := core.MathFunc(info, x); (name == "Sin" || name == "Cos") && len(call.Args) == 1 {
					if a, ok := core.Unparen(call.Args[0]).(*ast.Ident); ok && core.ObjOf(info, a) == phi {
						if name == "Sin" {
							return "s"
						}
						return "c"
					}
				}
			}
			return ""
		}
		want := [2]poly{{"c*c*rx*rx": 1, "ry*ry*s*s": 1}, {"rx*rx*s*s": 1, "c*c*ry*ry": 1}}
		defs := singleDefs(info, cc)
		delete(defs, rx)
		delete(defs, ry)
		ordinal := map[int]int{}
		// the guarded folds, wherever they sit in the case (also inside a loop over a table of extremes); a tuple
		// assignment is looked at pair by pair
		var guarded []*ast.IfStmt
		ast.Inspect(cc, func(m ast.Node) bool {
			is, ok := m.(*ast.IfStmt)
			if !ok {
				return true
			}
			guard := false
			ast.Inspect(is.Cond, func(k ast.Node) bool {
				if call, ok := k.(*ast.CallExpr); ok {
					if f := core.CalleeOf(info, call); f != nil && f.Name() == "angleBetween" {
						guard = true
					}
				}
				return true
			})
			if guard {
				guarded = append(guarded, is)
			}
			return true
		})
		for _, is := range guarded {
			var pairs []*ast.AssignStmt
			ast.Inspect(is.Body, func(m ast.Node) bool {
				as, ok := m.(*ast.AssignStmt)
				if !ok || len(as.Lhs) != len(as.Rhs) {
					return true
				}
				for i := range as.Lhs {
					pairs = append(pairs, &ast.AssignStmt{Lhs: []ast.Expr{as.Lhs[i]}, TokPos: as.Rhs[i].Pos(), Tok: as.Tok, Rhs: []ast.Expr{as.Rhs[i]}})
				}
				return true
			})
			for _, as := range pairs {
				visitFold := func(m ast.Node) bool {
					as, ok := m.(*ast.AssignStmt)
					if !ok || len(as.Lhs) != 1 || len(as.Rhs) != 1 {
						return true
					}
					id, ok := as.Lhs[0].(*ast.Ident)
					if !ok {
						return true
					}
					side := -1
					for i, a := range accs {
						if a == core.ObjOf(info, id) {
							side = i
						}
					}
					name, call := core.MathFunc(info, as.Rhs[0])
					if side < 0 || (name != "Min" && name != "Max") || len(call.Args) != 2 {
						return true
					}
					axis := side % 2
					sides := [4]string{"low X", "low Y", "high X", "high Y"}
					ordinal[side]++
					key := fmt.Sprintf("canvas.Path.Bounds|%s|extent folded into the %s side", label, sides[side])
					if ordinal[side] > 1 {
						key += fmt.Sprintf(" #%d", ordinal[side])
					}
					n++
					// the operand that is not the accumulator
					var operand ast.Expr
					for _, a := range call.Args {
						if aid, ok := core.Unparen(a).(*ast.Ident); ok && core.ObjOf(info, aid) == accs[side] {
							continue
						}
						operand = core.Unparen(a)
					}
					if operand == nil {
						r.Fail("E3.arc-extent", key, c.Pos(as.Pos()), "the fold has no operand besides the accumulator")
						return true
					}
					// idiom 2: a coordinate of the ellipse's position function
					viaPos := false
					ast.Inspect(operand, func(k ast.Node) bool {
						if id, ok := k.(*ast.Ident); ok {
							if d, ok := defs[core.ObjOf(info, id)]; ok {
								if call, ok := core.Unparen(d).(*ast.CallExpr); ok {
									if f := core.CalleeOf(info, call); f != nil && f.Name() == "EllipsePos" {
										viaPos = true
									}
								}
							}
						}
						if call, ok := k.(*ast.CallExpr); ok {
							if f := core.CalleeOf(info, call); f != nil && f.Name() == "EllipsePos" {
								viaPos = true
							}
						}
						return true
					})
					if viaPos {
						r.OK("E3.arc-extent", key, c.Pos(as.Pos()), "taken from EllipsePos at the extreme angle")
						return true
					}
					be, ok := operand.(*ast.BinaryExpr)
					centre := [2]types.Object{cx, cy}[axis]
					var ext ast.Expr
					if ok && (be.Op == token.ADD || be.Op == token.SUB) {
						if cid, ok := core.Unparen(be.X).(*ast.Ident); ok && core.ObjOf(info, cid) == centre {
							ext = core.Unparen(be.Y)
						} else if cid, ok := core.Unparen(be.Y).(*ast.Ident); ok && core.ObjOf(info, cid) == centre && be.Op == token.ADD {
							ext = core.Unparen(be.X)
						}
					}
					if ext == nil {
						r.Fail("E3.arc-extent", key, c.Pos(as.Pos()), fmt.Sprintf("the folded quantity %s is not the centre coordinate of the %s axis plus or minus a half extent", types.ExprString(operand), []string{"X", "Y"}[axis]))
						return true
					}
					if id, ok := ext.(*ast.Ident); ok {
						if d, ok := defs[core.ObjOf(info, id)]; ok {
							ext = core.Unparen(d)
						}
					}
					var got poly
					decided := false
					switch name, call := core.MathFunc(info, ext); {
					case name == "Sqrt" && len(call.Args) == 1:
						got, decided = polyOf(info, call.Args[0], sym, defs)
					case name == "Hypot" && len(call.Args) == 2:
						a, ok1 := polyOf(info, call.Args[0], sym, defs)
						b, ok2 := polyOf(info, call.Args[1], sym, defs)
						if ok1 && ok2 {
							got, decided = polyAdd(polyMul(a, a), polyMul(b, b), 1), true
						}
					}
					switch {
					case !decided:
						r.Fail("E3.arc-extent", key, c.Pos(ext.Pos()), fmt.Sprintf("the half extent %s is not the Euclidean length (math.Sqrt of a sum of squares, or math.Hypot) of the axis' two coefficients: want √(%s)", types.ExprString(ext), want[axis]))
					case !polyEqual(got, want[axis]):
						r.Fail("E3.arc-extent", key, c.Pos(ext.Pos()), fmt.Sprintf("the half extent is √(%s), want √(%s) for the %s axis", got, want[axis], []string{"X", "Y"}[axis]))
					default:
						r.OK("E3.arc-extent", key, c.Pos(as.Pos()), "√("+got.String()+")")
					}
					return true
				}
				visitFold(as)
			}
		}
	}
	r.Count("E3.arc-extent-folds", n)
	r.Floor("E3.arc-extent-folds", 4)
}

// E3TextBoundsFold: the bounds of a text fold over every span, never read an extreme off a fixed index.
func E3TextBoundsFold(c *core.Ctx, r *core.Report) {
	r.Rule("E3.text-bounds-fold", "reorderSpans moves right-to-left runs to their visual place by rewriting the spans' X only (premise, read off its body: it stores into the X field of elements and neither swaps nor sorts the slice), so the spans of a line are in logical, not in visual order: the leftmost and the rightmost span can be anywhere in the slice. The methods of Text that return a Rect (Bounds, OutlineBounds) therefore take span positions only from the variable of a range over the line's spans, folded into the result inside that loop; a span selected by a fixed index (`spans[0]`, `spans[len-1]`) whose X or Width reaches the rectangle leaves out whole spans on a bidirectional line")
	p := c.MustPkg("")
	info := p.TypesInfo
	// premise
	ro := core.MustFuncDecl(p, "reorderSpans")
	storesX, moves := false, false
	ast.Inspect(ro.Body, func(m ast.Node) bool {
		switch x := m.(type) {
		case *ast.AssignStmt:
			for _, l := range x.Lhs {
				if se, ok := l.(*ast.SelectorExpr); ok && se.Sel.Name == "X" {
					if _, ok := core.Unparen(se.X).(*ast.IndexExpr); ok {
						storesX = true
					}
				}
				if _, ok := core.Unparen(l).(*ast.IndexExpr); ok {
					moves = true // an element is overwritten as a whole
				}
			}
		case *ast.CallExpr:
			if f := core.CalleeOf(info, x); f != nil && f.Pkg() != nil && (f.Pkg().Path() == "sort" || f.Pkg().Path() == "slices") {
				moves = true
			}
		}
		return true
	})
	if storesX && !moves {
		r.OK("E3.text-bounds-fold", "canvas.reorderSpans|rewrites positions, keeps the slice order", c.Pos(ro.Pos()), "")
	} else {
		r.Fail("E3.text-bounds-fold", "canvas.reorderSpans|rewrites positions, keeps the slice order", c.Pos(ro.Pos()), "reorderSpans no longer only rewrites X: the premise of this rule has to be reviewed")
		return
	}
	n := 0
	for _, fd := range core.AllFuncDecls(p) {
		if core.RecvName(fd) != "Text" || fd.Type.Results == nil || len(fd.Type.Results.List) != 1 {
			continue
		}
		if t := info.TypeOf(fd.Type.Results.List[0].Type); t == nil || !strings.HasSuffix(t.String(), "canvas.Rect") {
			continue
		}
		n++
		key := "canvas.Text." + fd.Name.Name + "|span positions come from the range variable"
		isSpans := func(e ast.Expr) bool {
			t := info.TypeOf(e)
			if t == nil {
				return false
			}
			sl, ok := t.Underlying().(*types.Slice)
			return ok && strings.HasSuffix(sl.Elem().String(), "TextSpan")
		}
		// locals holding an indexed span
		indexed := map[types.Object]token.Pos{}
		bad := ""
		var badPos token.Pos
		ast.Inspect(fd.Body, func(m ast.Node) bool {
			switch x := m.(type) {
			case *ast.AssignStmt:
				if len(x.Lhs) == len(x.Rhs) {
					for i, rhs := range x.Rhs {
						if ie, ok := core.Unparen(rhs).(*ast.IndexExpr); ok && isSpans(ie.X) {
							if id, ok := x.Lhs[i].(*ast.Ident); ok {
								indexed[core.ObjOf(info, id)] = x.Pos()
							}
						}
					}
				}
			case *ast.SelectorExpr:
				if x.Sel.Name != "X" && x.Sel.Name != "Width" {
					return true
				}
				switch b := core.Unparen(x.X).(type) {
				case *ast.IndexExpr:
					if isSpans(b.X) && bad == "" {
						bad, badPos = "`"+types.ExprString(x)+"` reads the position of a span selected by index", x.Pos()
					}
				case *ast.Ident:
					if _, ok := indexed[core.ObjOf(info, b)]; ok && bad == "" {
						bad, badPos = "`"+types.ExprString(x)+"` reads the position of a span that was selected by index (`"+b.Name+"`)", x.Pos()
					}
				}
			}
			return true
		})
		// and there is a range over spans at all
		ranges := false
		ast.Inspect(fd.Body, func(m ast.Node) bool {
			if rs, ok := m.(*ast.RangeStmt); ok && isSpans(rs.X) {
				ranges = true
			}
			return true
		})
		switch {
		case bad != "":
			r.Fail("E3.text-bounds-fold", key, c.Pos(badPos), bad+": the slice is in logical order, after reorderSpans the outermost spans of a bidirectional line are not its first and last elements, and the rectangle leaves spans out")
		case !ranges:
			r.Fail("E3.text-bounds-fold", key, c.Pos(fd.Pos()), "no loop over the spans of a line")
		default:
			r.OK("E3.text-bounds-fold", key, c.Pos(fd.Pos()), "")
		}
	}
	r.Count("E3.text-rect-methods", n)
	r.Floor("E3.text-rect-methods", 2)
}

// E3LineHeightsEverySpan: every span of a line takes part in the line's metrics.
func E3LineHeightsEverySpan(c *core.Ctx, r *core.Report) {
	r.Rule("E3.line-heights-every-span", "line.Heights is a maximum over all spans of the line, and which span decides it cannot be told from the spans' sizes (two fonts of one size differ in ascent and descent, an object is as tall as it is). Over every path through one iteration of each loop over the line's spans, a fold `v = math.Max(v, …)` into an accumulator is executed (directly, or inside a nested loop over the span's glyphs or objects); an iteration that leaves through `continue` before any fold skips a span. Skipping spans whose face is not larger than the largest seen stacks the lines of a paragraph that mixes DejaVu Serif and EB Garamond at one size 7% too close")
	p := c.MustPkg("")
	info := p.TypesInfo
	fd := core.MustFuncDecl(p, "line.Heights")
	r.Func("canvas.line.Heights")
	isFold := func(n ast.Node) bool {
		found := false
		ast.Inspect(n, func(m ast.Node) bool {
			as, ok := m.(*ast.AssignStmt)
			if !ok || len(as.Lhs) != 1 || len(as.Rhs) != 1 {
				return true
			}
			id, ok := as.Lhs[0].(*ast.Ident)
			if !ok {
				return true
			}
			if name, call := core.MathFunc(info, as.Rhs[0]); name == "Max" && len(call.Args) == 2 {
				for _, a := range call.Args {
					if aid, ok := core.Unparen(a).(*ast.Ident); ok && core.ObjOf(info, aid) == core.ObjOf(info, id) {
						found = true
					}
				}
			}
			return true
		})
		return found
	}
	n := 0
	ast.Inspect(fd.Body, func(m ast.Node) bool {
		rs, ok := m.(*ast.RangeStmt)
		if !ok {
			return true
		}
		t := info.TypeOf(rs.X)
		if t == nil {
			return true
		}
		sl, ok := t.Underlying().(*types.Slice)
		if !ok || !strings.HasSuffix(sl.Elem().String(), "TextSpan") {
			return true
		}
		n++
		key := fmt.Sprintf("canvas.line.Heights|span loop #%d folds every span", n)
		ok2, bad := cpsMustHit(rs.Body.List, func(st ast.Stmt) bool { return isFold(st) })
		if ok2 {
			r.OK("E3.line-heights-every-span", key, c.Pos(rs.Pos()), "")
		} else {
			pos := rs.Pos()
			if bad != nil {
				pos = bad.Pos()
			}
			r.Fail("E3.line-heights-every-span", key, c.Pos(pos), "an iteration of the span loop can end without folding anything into the line's metrics: the span is left out of the maximum, so a span with a larger ascent or descent than the ones counted sticks out of its line")
		}
		return false
	})
	r.Count("E3.line-height-span-loops", n)
	r.Floor("E3.line-height-span-loops", 2)
}

// emptyGuardSet evaluates the leading `if <cond> { return Rect{} }` of a Path method for paths of 0, 1, 2 and 3 four-value
// records (len(p.d) = 0, 4, 8, 12; non-nil receiver) and returns the lengths for which the method returns the zero Rect.
func emptyGuardSet(c *core.Ctx, p *packages.Package, fd *ast.FuncDecl) (set []int, cond ast.Expr, why string) {
	info := p.TypesInfo
	for _, st := range fd.Body.List {
		is, ok := st.(*ast.IfStmt)
		if !ok || is.Init != nil || len(is.Body.List) != 1 {
			continue
		}
		rs, ok := is.Body.List[0].(*ast.ReturnStmt)
		if !ok || len(rs.Results) != 1 {
			continue
		}
		if cl, ok := core.Unparen(rs.Results[0]).(*ast.CompositeLit); !ok || len(cl.Elts) != 0 {
			continue
		}
		cond = is.Cond
		break
	}
	if cond == nil {
		return nil, nil, "no leading `if … { return Rect{} }`"
	}
	var eval func(e ast.Expr, n int, depth int) tri
	intVal := func(e ast.Expr, n int) (int, bool) {
		e = core.Unparen(e)
		if v, ok := core.ConstInt(info, e); ok {
			return int(v), true
		}
		if arg, ok := cmdLenArg(info, e); ok {
			if L, ok := recordLen[core.ConstName(info, arg)]; ok {
				return L, true
			}
			return 0, false
		}
		if ce, ok := e.(*ast.CallExpr); ok && len(ce.Args) == 1 {
			if id, ok := ce.Fun.(*ast.Ident); ok && id.Name == "len" && core.IsPathDataSel(info, ce.Args[0]) {
				return n, true
			}
		}
		return 0, false
	}
	eval = func(e ast.Expr, n int, depth int) tri {
		return evalBool(info, e, func(a ast.Expr) tri {
			switch x := a.(type) {
			case *ast.BinaryExpr:
				isNil := func(e ast.Expr) bool { tv, ok := info.Types[e]; return ok && tv.IsNil() }
				if (x.Op == token.EQL || x.Op == token.NEQ) && (isNil(x.X) || isNil(x.Y)) {
					return triOf(x.Op == token.NEQ)
				}
				l, ok1 := intVal(x.X, n)
				rr, ok2 := intVal(x.Y, n)
				if ok1 && ok2 {
					switch x.Op {
					case token.LSS:
						return triOf(l < rr)
					case token.LEQ:
						return triOf(l <= rr)
					case token.GTR:
						return triOf(l > rr)
					case token.GEQ:
						return triOf(l >= rr)
					case token.EQL:
						return triOf(l == rr)
					case token.NEQ:
						return triOf(l != rr)
					}
				}
			case *ast.CallExpr:
				// a predicate of the path itself: a method without arguments whose body is one return
				if len(x.Args) != 0 || depth > 2 {
					return tUnknown
				}
				f := core.CalleeOf(info, x)
				if f == nil || f.Pkg() != p.Types {
					return tUnknown
				}
				for _, d := range core.AllFuncDecls(p) {
					if info.Defs[d.Name] == f && d.Body != nil && len(d.Body.List) == 1 {
						if rs, ok := d.Body.List[0].(*ast.ReturnStmt); ok && len(rs.Results) == 1 {
							return eval(rs.Results[0], n, depth+1)
						}
					}
				}
			}
			return tUnknown
		})
	}
	for _, n := range []int{0, 4, 8, 12} {
		switch eval(cond, n, 0) {
		case tTrue:
			set = append(set, n)
		case tUnknown:
			return nil, cond, fmt.Sprintf("`%s` cannot be evaluated for a path of %d values", c.Src(cond), n)
		}
	}
	return set, cond, ""
}

// E3BoundsGuardAgreement: Bounds and FastBounds call the same paths empty.
func E3BoundsGuardAgreement(c *core.Ctx, r *core.Report) {
	r.Rule("E3.bounds-guard-agreement", "FastBounds contains Bounds for every path, the degenerate ones included. Both methods start with a guard that returns the zero Rect for a path without coordinates; evaluated for paths of 0, 1, 2 and 3 records (cmdLen taken from the table E2.cmdlen verifies, one-line predicates such as Empty inlined), the two guards return early for exactly the same lengths, and both do for the length 0 (the code below the guard reads p.d[1]). A guard that also fires for a single MoveTo in one of the two makes `M5 7` have the bounds (0,0)-(0,0) in one and (5,7)-(5,7) in the other: neither contains the other, and the bounds no longer move with the path under a translation")
	p := c.MustPkg("")
	sets := map[string][]int{}
	names := []string{"Path.Bounds", "Path.FastBounds"}
	for _, name := range names {
		fd := core.MustFuncDecl(p, name)
		r.Func("canvas." + name)
		key := fmt.Sprintf("canvas.%s|guard for the path without coordinates is decidable and covers the empty path", name)
		set, cond, why := emptyGuardSet(c, p, fd)
		switch {
		case why != "":
			r.Fail("E3.bounds-guard-agreement", key, c.Pos(fd.Pos()), why)
		case len(set) == 0 || set[0] != 0:
			r.Fail("E3.bounds-guard-agreement", key, c.Pos(cond.Pos()), fmt.Sprintf("`%s` does not return early for the path without values, and the code below reads p.d[1]", c.Src(cond)))
		default:
			r.OK("E3.bounds-guard-agreement", key, c.Pos(cond.Pos()), fmt.Sprintf("%s: zero Rect for lengths %v", c.Src(cond), set))
			sets[name] = set
		}
	}
	if a, ok := sets[names[0]]; ok {
		if b, ok := sets[names[1]]; ok {
			key := "canvas.Path.Bounds|same guard as FastBounds"
			if fmt.Sprint(a) == fmt.Sprint(b) {
				r.OK("E3.bounds-guard-agreement", key, "", fmt.Sprint(a))
			} else {
				r.Fail("E3.bounds-guard-agreement", key, c.Pos(core.MustFuncDecl(p, names[0]).Pos()), fmt.Sprintf("Bounds returns the zero Rect for paths of %v values, FastBounds for %v: for the lengths in one list only the two boxes are unrelated", a, b))
			}
		}
	}
}
