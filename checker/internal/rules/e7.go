package rules

import (
	"fmt"
	"go/ast"
	"go/parser"
	"go/printer"
	"go/token"
	"go/types"
	"sort"
	"strings"

	"canvascheck/internal/core"

	"golang.org/x/tools/go/packages"
	"golang.org/x/tools/go/ssa"
	"golang.org/x/tools/go/ssa/ssautil"
)

// E7 — shared state and determinism (DESIGN.md §2 E7).

var modulePkgRels = []string{"", "text", "renderers/pdf", "renderers/ps", "renderers/svg", "renderers/rasterizer"}

func moduleFunctions(c *core.Ctx) []*ssa.Function {
	prog := c.SSA()
	var out []*ssa.Function
	seen := map[*ssa.Function]bool{}
	var add func(f *ssa.Function)
	add = func(f *ssa.Function) {
		if f == nil || seen[f] {
			return
		}
		seen[f] = true
		out = append(out, f)
		for _, a := range f.AnonFuncs {
			add(a)
		}
	}
	for _, rel := range modulePkgRels {
		p := c.SSAPkg(rel)
		for _, m := range p.Members {
			switch x := m.(type) {
			case *ssa.Function:
				add(x)
			case *ssa.Type:
				for _, t := range []types.Type{x.Type(), types.NewPointer(x.Type())} {
					ms := prog.MethodSets.MethodSet(t)
					for i := 0; i < ms.Len(); i++ {
						if f := prog.MethodValue(ms.At(i)); f != nil && f.Synthetic == "" && core.InModule(f) {
							add(f)
						}
					}
				}
			}
		}
	}
	sort.Slice(out, func(i, j int) bool { return out[i].String() < out[j].String() })
	return out
}

func globalRoot(v ssa.Value) *ssa.Global {
	for {
		switch x := v.(type) {
		case *ssa.Global:
			return x
		case *ssa.FieldAddr:
			v = x.X
		case *ssa.IndexAddr:
			v = x.X
		default:
			return nil
		}
	}
}

// sliceGlobalRoot: the slice value v is, on some path, the value of a package-level slice variable (loaded
// directly, resliced, or merged at a φ): it shares the variable's backing array. Results of append are not
// followed (they may or may not share it).
func sliceGlobalRoot(v ssa.Value, seen map[ssa.Value]bool) *ssa.Global {
	if seen[v] {
		return nil
	}
	seen[v] = true
	switch x := v.(type) {
	case *ssa.UnOp:
		if x.Op == token.MUL {
			if g, ok := x.X.(*ssa.Global); ok {
				if _, isSlice := x.Type().Underlying().(*types.Slice); isSlice {
					return g
				}
			}
		}
	case *ssa.Slice:
		if g := globalRoot(x.X); g != nil {
			return g
		}
		return sliceGlobalRoot(x.X, seen)
	case *ssa.Phi:
		for _, e := range x.Edges {
			if g := sliceGlobalRoot(e, seen); g != nil {
				return g
			}
		}
	}
	return nil
}

// instrDominates: a dominates b (same function).
func instrDominates(a, b ssa.Instruction) bool {
	ba, bb := a.Block(), b.Block()
	if ba == bb {
		for _, ins := range ba.Instrs {
			if ins == a {
				return true
			}
			if ins == b {
				return false
			}
		}
		return false
	}
	return ba.Dominates(bb)
}

// mutexCalls lists Lock/Unlock calls whose receiver is rooted at a global.
func mutexCalls(fn *ssa.Function) (locks, unlocks map[*ssa.Global][]ssa.Instruction) {
	locks, unlocks = map[*ssa.Global][]ssa.Instruction{}, map[*ssa.Global][]ssa.Instruction{}
	for _, b := range fn.Blocks {
		for _, ins := range b.Instrs {
			call, ok := ins.(ssa.CallInstruction)
			if !ok {
				continue
			}
			cc := call.Common()
			callee := cc.StaticCallee()
			if callee == nil || len(cc.Args) == 0 {
				continue
			}
			name := callee.String()
			g := globalRoot(cc.Args[0])
			if g == nil {
				continue
			}
			switch name {
			case "(*sync.Mutex).Lock", "(*sync.RWMutex).Lock":
				if _, isDefer := ins.(*ssa.Defer); !isDefer {
					locks[g] = append(locks[g], ins)
				}
			case "(*sync.Mutex).Unlock", "(*sync.RWMutex).Unlock":
				if _, isDefer := ins.(*ssa.Defer); !isDefer {
					unlocks[g] = append(unlocks[g], ins)
				}
			}
		}
	}
	return
}

// lockHeld: some Lock on g dominates ins, and no Unlock on g lies between that Lock and ins.
func lockHeld(ins ssa.Instruction, g *ssa.Global, locks, unlocks map[*ssa.Global][]ssa.Instruction) bool {
	for _, l := range locks[g] {
		if !instrDominates(l, ins) {
			continue
		}
		released := false
		for _, u := range unlocks[g] {
			if instrDominates(l, u) && instrDominates(u, ins) {
				released = true
			}
		}
		if !released {
			return true
		}
	}
	return false
}

// onceBodies finds functions passed to sync.OnceFunc / (*sync.Once).Do anywhere in the module.
func onceBodies(fns []*ssa.Function) map[*ssa.Function]bool {
	out := map[*ssa.Function]bool{}
	for _, fn := range fns {
		for _, b := range fn.Blocks {
			for _, ins := range b.Instrs {
				call, ok := ins.(ssa.CallInstruction)
				if !ok {
					continue
				}
				callee := call.Common().StaticCallee()
				if callee == nil {
					continue
				}
				n := callee.String()
				if !strings.HasPrefix(n, "sync.OnceFunc") && n != "(*sync.Once).Do" && !strings.HasPrefix(n, "sync.OnceValue") {
					continue
				}
				for _, a := range call.Common().Args {
					switch x := a.(type) {
					case *ssa.MakeClosure:
						if f, ok := x.Fn.(*ssa.Function); ok {
							out[f] = true
						}
					case *ssa.Function:
						out[x] = true
					}
				}
			}
		}
	}
	return out
}

// E7Globals: package-level state of the module is never written without synchronisation.
func E7Globals(c *core.Ctx, r *core.Report) map[*ssa.Global]string {
	r.Rule("E7.global", "every store to a package-level variable of the module — also an element store through a local slice that is, on some path, the package-level slice itself (loaded, resliced or merged at a φ; results of append are not followed) — outside package initialisation happens inside a sync.Once/OnceFunc body, while a mutex stored in the same variable is held, or through sync/atomic; every load of a variable that is written under its mutex also happens with the mutex held")
	fns := moduleFunctions(c)
	once := onceBodies(fns)
	class := map[*ssa.Global]string{}
	type acc struct {
		fn  *ssa.Function
		ins ssa.Instruction
		g   *ssa.Global
	}
	var stores, loads []acc
	for _, fn := range fns {
		r.CallSites++
		for _, b := range fn.Blocks {
			for _, ins := range b.Instrs {
				switch x := ins.(type) {
				case *ssa.Store:
					if g := globalRoot(x.Addr); g != nil && g.Pkg != nil && strings.HasPrefix(g.Pkg.Pkg.Path(), core.Module) {
						stores = append(stores, acc{fn, ins, g})
					} else if ia, ok := x.Addr.(*ssa.IndexAddr); ok {
						// an element store through a slice value that is (on some path) the package-level slice itself
						if g := sliceGlobalRoot(ia.X, map[ssa.Value]bool{}); g != nil && g.Pkg != nil && strings.HasPrefix(g.Pkg.Pkg.Path(), core.Module) {
							stores = append(stores, acc{fn, ins, g})
						}
					}
				case *ssa.MapUpdate:
					if u, ok := x.Map.(*ssa.UnOp); ok {
						if g := globalRoot(u.X); g != nil && g.Pkg != nil && strings.HasPrefix(g.Pkg.Pkg.Path(), core.Module) {
							stores = append(stores, acc{fn, ins, g})
						}
					}
				case *ssa.UnOp:
					if x.Op == token.MUL {
						if g := globalRoot(x.X); g != nil && g.Pkg != nil && strings.HasPrefix(g.Pkg.Pkg.Path(), core.Module) {
							loads = append(loads, acc{fn, ins, g})
						}
					}
				}
			}
		}
	}
	lockedGlobals := map[*ssa.Global]bool{}
	for _, s := range stores {
		if s.fn.Name() == "init" && s.fn.Parent() == nil {
			continue // package initialisation
		}
		r.Count("E7.global-stores", 1)
		key := fmt.Sprintf("%s|store %s", core.ShortFunc(s.fn), s.g.Name())
		pos := c.Pos(s.ins.Pos())
		locks, unlocks := mutexCalls(s.fn)
		switch {
		case once[s.fn]:
			class[s.g] = "once"
			r.OK("E7.global", key, pos, "inside a sync.OnceFunc/Once.Do body")
		case lockHeld(s.ins, s.g, locks, unlocks):
			class[s.g] = "mutex"
			lockedGlobals[s.g] = true
			r.OK("E7.global", key, pos, "mutex of the same variable is held")
		default:
			class[s.g] = "unsynchronised"
			r.Fail("E7.global", key, pos, fmt.Sprintf("package-level variable %s is written without synchronisation; concurrent calls of %s race on it and their results depend on the interleaving", s.g.Name(), core.ShortFunc(s.fn)))
		}
	}
	for _, l := range loads {
		if !lockedGlobals[l.g] {
			continue
		}
		// loads of the mutex-protected part (not the mutex itself being locked)
		if l.fn.Name() == "init" && l.fn.Parent() == nil {
			continue
		}
		locks, unlocks := mutexCalls(l.fn)
		key := fmt.Sprintf("%s|load %s", core.ShortFunc(l.fn), l.g.Name())
		r.Count("E7.global-locked-loads", 1)
		if lockHeld(l.ins, l.g, locks, unlocks) {
			r.OK("E7.global", key, c.Pos(l.ins.Pos()), "mutex held")
		} else {
			r.Fail("E7.global", key, c.Pos(l.ins.Pos()), fmt.Sprintf("%s is written under its mutex elsewhere but read here without holding it", l.g.Name()))
		}
	}
	r.Floor("E7.global-stores", 5)
	return class
}

// E7OnceBeforeUse: pool variables initialised in a OnceFunc body are only used after the once call.
func E7OnceBeforeUse(c *core.Ctx, r *core.Report, apiRoots []*ssa.Function) {
	r.Rule("E7.once-before-use", "every function that loads a variable initialised inside a sync.OnceFunc body is reachable from the concurrent API set only through a function in which the call of that OnceFunc value dominates every other call")
	fns := moduleFunctions(c)
	once := onceBodies(fns)
	onceVars := map[*ssa.Global]bool{}
	for f := range once {
		for _, b := range f.Blocks {
			for _, ins := range b.Instrs {
				if st, ok := ins.(*ssa.Store); ok {
					if g := globalRoot(st.Addr); g != nil {
						onceVars[g] = true
					}
				}
			}
		}
	}
	if len(onceVars) == 0 {
		r.Fail("E7.once-before-use", "canvas|once-initialised variables", "", "no variable initialised in a OnceFunc body found (recogniser no longer matches)")
		return
	}
	// the once function values: globals holding the result of sync.OnceFunc
	onceFuncGlobals := map[*ssa.Global]bool{}
	for _, fn := range fns {
		if fn.Name() != "init" {
			continue
		}
		for _, b := range fn.Blocks {
			for _, ins := range b.Instrs {
				if st, ok := ins.(*ssa.Store); ok {
					if call, ok := st.Val.(*ssa.Call); ok {
						if cal := call.Common().StaticCallee(); cal != nil && strings.HasPrefix(cal.String(), "sync.OnceFunc") {
							if g, ok := st.Addr.(*ssa.Global); ok {
								onceFuncGlobals[g] = true
							}
						}
					}
				}
			}
		}
	}
	users := map[*ssa.Function]bool{}
	for _, fn := range fns {
		if once[fn] {
			continue
		}
		for _, b := range fn.Blocks {
			for _, ins := range b.Instrs {
				if u, ok := ins.(*ssa.UnOp); ok && u.Op == token.MUL {
					if g, ok := u.X.(*ssa.Global); ok && onceVars[g] {
						users[fn] = true
					}
				}
			}
		}
	}
	r.Count("E7.pool-users", len(users))
	// gate functions: call of a once value dominates all other calls
	gates := map[*ssa.Function]bool{}
	for _, fn := range fns {
		var onceCall ssa.Instruction
		var others []ssa.Instruction
		for _, b := range fn.Blocks {
			for _, ins := range b.Instrs {
				call, ok := ins.(ssa.CallInstruction)
				if !ok {
					continue
				}
				if u, ok := call.Common().Value.(*ssa.UnOp); ok && u.Op == token.MUL {
					if g, ok := u.X.(*ssa.Global); ok && onceFuncGlobals[g] {
						if onceCall == nil {
							onceCall = ins
						}
						continue
					}
				}
				if _, isBuiltin := call.Common().Value.(*ssa.Builtin); isBuiltin {
					continue
				}
				others = append(others, ins)
			}
		}
		if onceCall == nil {
			continue
		}
		ok := true
		for _, o := range others {
			if !instrDominates(onceCall, o) {
				ok = false
			}
		}
		key := core.ShortFunc(fn) + "|once call dominates"
		if ok {
			gates[fn] = true
			r.OK("E7.once-before-use", key, c.Pos(onceCall.Pos()), fmt.Sprintf("dominates %d other calls", len(others)))
		} else {
			r.Fail("E7.once-before-use", key, c.Pos(onceCall.Pos()), "a call in this function can execute before the pools are initialised")
		}
	}
	r.Count("E7.once-gates", len(gates))
	// reachability from the API roots without passing through a gate
	cg := c.CallGraph()
	parent := reachableFrom(cg, apiRoots, func(f *ssa.Function) bool { return gates[f] || !core.InModule(f) })
	var us []*ssa.Function
	for f := range users {
		us = append(us, f)
	}
	sort.Slice(us, func(i, j int) bool { return us[i].String() < us[j].String() })
	for _, f := range us {
		key := core.ShortFunc(f) + "|uses pools only behind the once gate"
		if _, reach := parent[f]; reach && !gates[f] {
			r.Fail("E7.once-before-use", key, c.Pos(f.Pos()), "this function reads a pool variable and is reachable from the API without passing the function that initialises the pools", "call chain: "+strings.Join(chainTo(parent, f), " -> "))
		} else {
			r.OK("E7.once-before-use", key, c.Pos(f.Pos()), "")
		}
	}
	r.Floor("E7.pool-users", 4)
	r.Floor("E7.once-gates", 1)
}

// E7PoolReinit: objects taken from a sync.Pool are completely re-initialised before use.
func E7PoolReinit(c *core.Ctx, r *core.Report) {
	r.Rule("E7.pool-reinit", "after every X.Get().(*T) the object is completely overwritten (*v = T{…} / *v = *w) or every field of T is stored before the first other use, so no state of an earlier call is observable")
	for _, fn := range moduleFunctions(c) {
		ord := 0
		for _, b := range fn.Blocks {
			for i, ins := range b.Instrs {
				ta, ok := ins.(*ssa.TypeAssert)
				if !ok {
					continue
				}
				call, ok := ta.X.(*ssa.Call)
				if !ok {
					continue
				}
				cal := call.Common().StaticCallee()
				if cal == nil || cal.String() != "(*sync.Pool).Get" {
					continue
				}
				ord++
				r.Count("E7.pool-gets", 1)
				key := fmt.Sprintf("%s|pool object #%d", core.ShortFunc(fn), ord)
				pt, ok := ta.AssertedType.(*types.Pointer)
				if !ok {
					r.Fail("E7.pool-reinit", key, c.Pos(ta.Pos()), "pooled value is not asserted to a pointer type")
					continue
				}
				if _, isSlice := pt.Elem().Underlying().(*types.Slice); isSlice {
					// a recycled buffer: every slice cut from it is cleared (builtin clear) in this function
					if bad := poolSliceUncleared(fn, ta); bad != nil {
						r.Fail("E7.pool-reinit", key, c.Pos(bad.Pos()), fmt.Sprintf("recycled %s is handed out with the contents of its previous use: the slice cut from it is not passed to clear() in this function, so bytes written by an earlier call are observable wherever the new user relies on zeroed memory", pt.Elem()))
					} else {
						r.OK("E7.pool-reinit", key, c.Pos(ta.Pos()), "")
					}
					continue
				}
				st, ok := pt.Elem().Underlying().(*types.Struct)
				if !ok {
					r.Fail("E7.pool-reinit", key, c.Pos(ta.Pos()), "pooled value is neither a struct pointer nor a slice pointer")
					continue
				}
				var v ssa.Value = ta
				if ta.CommaOk {
					r.Fail("E7.pool-reinit", key, c.Pos(ta.Pos()), "comma-ok assertion form is not recognised")
					continue
				}
				inited := map[int]bool{}
				full := false
				verdictPos := ta.Pos()
			scan:
				for _, nx := range b.Instrs[i+1:] {
					refs := false
					for _, op := range nx.Operands(nil) {
						if op != nil && *op == v {
							refs = true
						}
					}
					if !refs {
						// a store through a FieldAddr of v defined earlier
						if s, ok := nx.(*ssa.Store); ok {
							if fa, ok := s.Addr.(*ssa.FieldAddr); ok && fa.X == v {
								inited[fa.Field] = true
							}
						}
						continue
					}
					switch x := nx.(type) {
					case *ssa.Store:
						if x.Addr == v {
							full = true
							break scan
						}
						// v stored as a value somewhere: first other use
						verdictPos = x.Pos()
						break scan
					case *ssa.FieldAddr:
						// used as address: fine if only stored through
						onlyStores := true
						for _, ref := range *x.Referrers() {
							if s, ok := ref.(*ssa.Store); !ok || s.Addr != x {
								onlyStores = false
							}
						}
						if !onlyStores {
							verdictPos = x.Pos()
							break scan
						}
					default:
						verdictPos = nx.Pos()
						break scan
					}
				}
				missing := []string{}
				for fi := 0; fi < st.NumFields(); fi++ {
					if !inited[fi] {
						missing = append(missing, st.Field(fi).Name())
					}
				}
				if full || len(missing) == 0 {
					r.OK("E7.pool-reinit", key, c.Pos(ta.Pos()), "")
				} else {
					r.Fail("E7.pool-reinit", key, c.Pos(verdictPos), fmt.Sprintf("recycled %s is used before fields %s are re-initialised: state of a previous operation leaks into this one", pt.Elem(), strings.Join(missing, ", ")))
				}
			}
		}
	}
	r.Floor("E7.pool-gets", 6)
}

// poolSliceUncleared follows the pooled *[]T (through the comma-ok extract, loads and phis) to the
// slices cut from it and returns the first one that is not an argument of the builtin clear in fn;
// a load that is used other than by len/cap/slicing counts as a slice itself.
func poolSliceUncleared(fn *ssa.Function, ta *ssa.TypeAssert) ssa.Instruction {
	ptrs := map[ssa.Value]bool{ta: true}
	loads := map[ssa.Value]bool{}
	slices := []ssa.Value{}
	cleared := map[ssa.Value]bool{}
	for changed := true; changed; {
		changed = false
		for _, b := range fn.Blocks {
			for _, ins := range b.Instrs {
				switch x := ins.(type) {
				case *ssa.Extract:
					if ptrs[x.Tuple] && x.Index == 0 && !ptrs[x] {
						ptrs[x], changed = true, true
					}
				case *ssa.UnOp:
					if x.Op == token.MUL && ptrs[x.X] && !loads[x] {
						loads[x], changed = true, true
					}
				}
			}
		}
	}
	for _, b := range fn.Blocks {
		for _, ins := range b.Instrs {
			switch x := ins.(type) {
			case *ssa.Slice:
				if loads[x.X] {
					slices = append(slices, x)
				}
			case *ssa.Call:
				if bi, ok := x.Call.Value.(*ssa.Builtin); ok && bi.Name() == "clear" && len(x.Call.Args) == 1 {
					cleared[x.Call.Args[0]] = true
				}
			}
		}
	}
	for l := range loads {
		for _, ref := range *l.(*ssa.UnOp).Referrers() {
			switch x := ref.(type) {
			case *ssa.Slice:
				continue
			case *ssa.Call:
				if bi, ok := x.Call.Value.(*ssa.Builtin); ok && (bi.Name() == "len" || bi.Name() == "cap" || bi.Name() == "clear") {
					continue
				}
			case *ssa.DebugRef:
				continue
			}
			if !cleared[l] {
				return l.(*ssa.UnOp)
			}
		}
	}
	for _, sl := range slices {
		if !cleared[sl] {
			return sl.(*ssa.Slice)
		}
	}
	if len(slices) == 0 && len(loads) == 0 {
		return ta
	}
	return nil
}

// mapRangeReviewed: order-dependent looking bodies that are in fact order-independent, with the reason.
var mapRangeReviewed = map[string]string{
	"canvas.Canvas.Fit|range over map[int][]canvas.layer":                       "the body only accumulates rect = rect.Add(bounds) / first assignment; Rect.Add is a commutative, associative hull",
	"renderers/pdf.pdfPageWriter.SetFont|range over pdf.pdfDict":                "search for the unique name bound to ref: SetFont adds a ref to resources[Font] only when this search fails, so at most one key matches",
	"renderers/pdf.pdfPageWriter.getPattern|range over pdf.pdfDict":             "search for a pattern DeepEqual to the new one: a pattern is only added when this search fails, so at most one key matches",
	"renderers/pdf.pdfWriter.writeFonts|range over map[*canvas.Font]pdf.pdfRef": "refMap[ref] = font inverts the map; the values are distinct because getFont reserves a fresh object number for every entry, and refs is sorted before use",
}

// mapRangeOutOfScope: functions outside the deterministic API set of C20.
var mapRangeOutOfScope = map[string]string{
	"canvas.ParseSVG|range over map[string]canvas.svgDef":                          "SVG import is not in C20's API set (marker application order)",
	"canvas.dviFonts.Get|range over map[float64][]byte":                            "LaTeX/DVI font lookup is not in C20's API set",
	"canvas.FontFamily.Destroy|range over map[canvas.FontStyle]*canvas.Font":       "per-entry call on each value (independent objects)",
	"canvas.FontFamily.SetVariations|range over map[canvas.FontStyle]*canvas.Font": "per-entry call on each value (independent objects)",
	"canvas.FontFamily.SetFeatures|range over map[canvas.FontStyle]*canvas.Font":   "per-entry call on each value (independent objects)",
}

// E7MapOrder: results never depend on Go's randomised map iteration order.
func E7MapOrder(c *core.Ctx, r *core.Report) {
	r.Rule("E7.map-order", "a range over a map may only (a) collect keys/values into a slice that is sorted before any other use, (b) perform commutative reductions, (c) update the visited entry; anything else (output, argmin/argmax with a strict comparison, append without sort) depends on the iteration order")
	rangeOrd := map[string]int{}
	for _, rel := range modulePkgRels {
		p := c.MustPkg(rel)
		info := p.TypesInfo
		for _, fd := range core.AllFuncDecls(p) {
			ast.Inspect(fd.Body, func(n ast.Node) bool {
				rs, ok := n.(*ast.RangeStmt)
				if !ok {
					return true
				}
				if _, isMap := info.TypeOf(rs.X).Underlying().(*types.Map); !isMap {
					return true
				}
				pk := "canvas"
				if rel != "" {
					pk = rel
				}
				// keyed by the map's type (and an ordinal for repeats), not by variable names
				mt := types.TypeString(info.TypeOf(rs.X), func(p *types.Package) string { return p.Name() })
				ordKey := core.FuncName(fd) + "|" + mt
				rangeOrd[ordKey]++
				key := fmt.Sprintf("%s.%s|range over %s", pk, core.FuncName(fd), mt)
				if rangeOrd[ordKey] > 1 {
					key += fmt.Sprintf(" #%d", rangeOrd[ordKey])
				}
				r.Count("E7.map-ranges", 1)
				pos := c.Pos(rs.Pos())
				if why, ok := mapRangeOutOfScope[key]; ok {
					r.OK("E7.map-order", key, pos, "not held to the rule: "+why)
					return true
				}
				verdict, why := classifyMapRange(p, fd, rs)
				if verdict {
					r.OK("E7.map-order", key, pos, why)
					return true
				}
				if rev, ok := mapRangeReviewed[key]; ok {
					r.OK("E7.map-order", key, pos, "reviewed: "+rev)
					return true
				}
				r.Fail("E7.map-order", key, pos, "the loop body depends on Go's randomised map iteration order: "+why)
				return true
			})
		}
	}
	r.Floor("E7.map-ranges", 10)
}

// classifyMapRange decides the syntactic classes (a)–(c).
func classifyMapRange(p *packages.Package, fd *ast.FuncDecl, rs *ast.RangeStmt) (bool, string) {
	info := p.TypesInfo
	keyObj, valObj := types.Object(nil), types.Object(nil)
	if id, ok := rs.Key.(*ast.Ident); ok {
		keyObj = core.ObjOf(info, id)
	}
	if rs.Value != nil {
		if id, ok := rs.Value.(*ast.Ident); ok {
			valObj = core.ObjOf(info, id)
		}
	}
	var appended []types.Object
	loopLocal := map[types.Object]bool{}
	for _, s := range rs.Body.List {
		if as, ok := s.(*ast.AssignStmt); ok && as.Tok == token.DEFINE {
			for _, l := range as.Lhs {
				if id, ok := l.(*ast.Ident); ok {
					loopLocal[info.Defs[id]] = true
				}
			}
		}
	}
	stmts := append([]ast.Stmt{}, rs.Body.List...)
	for si := 0; si < len(stmts); si++ {
		s := stmts[si]
		// `if <pure condition on key/value> { … }` without else: classify its body in place
		if is, ok := s.(*ast.IfStmt); ok && is.Else == nil && is.Init == nil {
			if totalOrderArgBest(info, is, keyObj) {
				continue
			}
			// a conditional that only adjusts variables local to this iteration
			onlyLocal := len(is.Body.List) > 0
			for _, bs := range is.Body.List {
				as, ok := bs.(*ast.AssignStmt)
				if !ok {
					onlyLocal = false
					break
				}
				for _, l := range as.Lhs {
					id, ok := l.(*ast.Ident)
					if !ok || !loopLocal[core.ObjOf(info, id)] {
						onlyLocal = false
					}
				}
			}
			if onlyLocal {
				continue
			}
			if pureCond(is.Cond) {
				onlyAppends := len(is.Body.List) > 0
				for _, bs := range is.Body.List {
					as, ok := bs.(*ast.AssignStmt)
					if !ok || len(as.Rhs) != 1 {
						onlyAppends = false
						break
					}
					call, ok := core.Unparen(as.Rhs[0]).(*ast.CallExpr)
					if !ok {
						onlyAppends = false
						break
					}
					if id, ok := call.Fun.(*ast.Ident); !ok || id.Name != "append" {
						onlyAppends = false
					}
				}
				if onlyAppends {
					stmts = append(stmts, is.Body.List...)
					continue
				}
			}
		}
		switch x := s.(type) {
		case *ast.AssignStmt:
			if len(x.Lhs) == 1 && len(x.Rhs) == 1 {
				// (a) slice = append(slice, key|value|f(key))
				if call, ok := core.Unparen(x.Rhs[0]).(*ast.CallExpr); ok {
					if id, ok := call.Fun.(*ast.Ident); ok && id.Name == "append" && len(call.Args) >= 2 {
						if lid, ok := x.Lhs[0].(*ast.Ident); ok {
							if aid, ok := core.Unparen(call.Args[0]).(*ast.Ident); ok && core.ObjOf(info, aid) == core.ObjOf(info, lid) {
								appended = append(appended, core.ObjOf(info, lid))
								continue
							}
						}
					}
				}
				// (c) update of an entry keyed by the range key (any map / the ranged value's element)
				if ie, ok := core.Unparen(x.Lhs[0]).(*ast.IndexExpr); ok {
					if kid, ok := core.Unparen(ie.Index).(*ast.Ident); ok && keyObj != nil && core.ObjOf(info, kid) == keyObj {
						continue
					}
				}
				// (b) commutative compound assignment
				switch x.Tok {
				case token.ADD_ASSIGN, token.MUL_ASSIGN, token.OR_ASSIGN, token.AND_ASSIGN, token.XOR_ASSIGN:
					if b, ok := info.TypeOf(x.Lhs[0]).Underlying().(*types.Basic); ok && b.Info()&types.IsString == 0 {
						continue
					}
				}
				// local definitions derived from key/value are fine
				if x.Tok == token.DEFINE {
					continue
				}
			}
			return false, "statement `" + types.ExprString(x.Lhs[0]) + " " + x.Tok.String() + " …` is not a recognised order-independent form"
		case *ast.IncDecStmt:
			continue
		case *ast.RangeStmt:
			// nested loop over the visited value updating its own elements (layers[i].m = …)
			okInner := true
			for _, is := range x.Body.List {
				as, ok := is.(*ast.AssignStmt)
				if !ok || len(as.Lhs) != 1 {
					okInner = false
					break
				}
				root := core.RootIdent(as.Lhs[0])
				if root == nil || valObj == nil || core.ObjOf(info, root) != valObj {
					okInner = false
				}
			}
			if okInner {
				continue
			}
			return false, "nested loop with effects other than updating the visited entry"
		case *ast.ExprStmt:
			// delete(m, k)
			if call, ok := x.X.(*ast.CallExpr); ok {
				if id, ok := call.Fun.(*ast.Ident); ok && id.Name == "delete" {
					continue
				}
			}
			return false, "call `" + types.ExprString(x.X) + "` inside the loop (its effects happen in iteration order)"
		default:
			return false, fmt.Sprintf("%T inside the loop (e.g. a strict argmin/argmax or early exit)", s)
		}
	}
	if len(appended) > 0 {
		// every appended slice must be sorted after the loop, before the function ends
		for _, o := range appended {
			sorted := false
			lossy := ""
			ast.Inspect(fd.Body, func(n ast.Node) bool {
				call, ok := n.(*ast.CallExpr)
				if !ok || call.Pos() < rs.End() || len(call.Args) == 0 {
					return true
				}
				f := core.CalleeOf(info, call)
				if f == nil || f.Pkg() == nil || (f.Pkg().Path() != "sort" && f.Pkg().Path() != "slices") {
					return true
				}
				if id, ok := core.Unparen(call.Args[0]).(*ast.Ident); ok && core.ObjOf(info, id) == o {
					sorted = true
					// a custom comparator must compare the elements themselves, their fields or the result of
					// one getter called on them: a further projection of such a key (f.Style().CSS()) can map
					// distinct elements to equal keys, and sort.Slice keeps ties in (map) insertion order
					if len(call.Args) == 2 {
						if fl, ok := core.Unparen(call.Args[1]).(*ast.FuncLit); ok {
							if why := lossyComparator(info, fl, o); why != "" {
								lossy = why
							}
						}
					}
				}
				return true
			})
			if lossy != "" {
				return false, "values are collected and sorted, but " + lossy
			}
			if !sorted {
				return false, "values are appended to `" + o.Name() + "` in iteration order and the slice is not sorted afterwards"
			}
		}
		return true, "collect, then sort"
	}
	return true, "commutative reductions / per-entry updates only"
}

// totalOrderArgBest recognises a deterministic arg-min/arg-max over a map:
//
//	if d < best || d == best && key < bestKey { bestKey = key; best = d }
//
// (or with > for arg-max). Ties are broken by the total order on the keys, so the result does
// not depend on the iteration order.
func totalOrderArgBest(info *types.Info, is *ast.IfStmt, keyObj types.Object) bool {
	or, ok := core.Unparen(is.Cond).(*ast.BinaryExpr)
	if !ok || or.Op != token.LOR || keyObj == nil {
		return false
	}
	strict, ok := core.Unparen(or.X).(*ast.BinaryExpr)
	if !ok || (strict.Op != token.LSS && strict.Op != token.GTR) {
		return false
	}
	and, ok := core.Unparen(or.Y).(*ast.BinaryExpr)
	if !ok || and.Op != token.LAND {
		return false
	}
	eq, ok := core.Unparen(and.X).(*ast.BinaryExpr)
	if !ok || eq.Op != token.EQL {
		return false
	}
	tie, ok := core.Unparen(and.Y).(*ast.BinaryExpr)
	if !ok || (tie.Op != token.LSS && tie.Op != token.GTR) {
		return false
	}
	// same operands in the strict comparison and the equality
	a, b := types.ExprString(strict.X), types.ExprString(strict.Y)
	if !((types.ExprString(eq.X) == a && types.ExprString(eq.Y) == b) || (types.ExprString(eq.X) == b && types.ExprString(eq.Y) == a)) {
		return false
	}
	// the tie-break compares the range key with the best key
	kid, ok := core.Unparen(tie.X).(*ast.Ident)
	if !ok || core.ObjOf(info, kid) != keyObj {
		return false
	}
	bestKey, ok := core.Unparen(tie.Y).(*ast.Ident)
	if !ok {
		return false
	}
	// body: bestKey = key; best = d (in any order), nothing else
	gotKey, gotVal := false, false
	for _, bs := range is.Body.List {
		as, ok := bs.(*ast.AssignStmt)
		if !ok || as.Tok != token.ASSIGN || len(as.Lhs) != 1 || len(as.Rhs) != 1 {
			return false
		}
		l := types.ExprString(as.Lhs[0])
		switch {
		case l == bestKey.Name && types.ExprString(as.Rhs[0]) == kid.Name:
			gotKey = true
		case (l == a || l == b) && (types.ExprString(as.Rhs[0]) == a || types.ExprString(as.Rhs[0]) == b):
			gotVal = true
		default:
			return false
		}
	}
	return gotKey && gotVal
}

// lossyComparator inspects `func(i, j int) bool` passed to sort.Slice for slice variable o: every
// comparison operand that mentions o[i] / o[j] must be the element, a field of it, or one
// zero-argument method call on it. It returns a description of the first deeper projection.
func lossyComparator(info *types.Info, fl *ast.FuncLit, o types.Object) string {
	bad := ""
	var depth func(e ast.Expr) (int, bool) // projection depth above o[k], and whether o[k] is mentioned
	depth = func(e ast.Expr) (int, bool) {
		e = core.Unparen(e)
		switch x := e.(type) {
		case *ast.IndexExpr:
			if id, ok := core.Unparen(x.X).(*ast.Ident); ok && core.ObjOf(info, id) == o {
				return 0, true
			}
		case *ast.SelectorExpr:
			if d, ok := depth(x.X); ok {
				if sel := info.Selections[x]; sel != nil && sel.Kind() == types.FieldVal {
					return d, true // fields do not lose information about identity by themselves
				}
				return d, true // method value: counted at the call
			}
		case *ast.CallExpr:
			if se, ok := x.Fun.(*ast.SelectorExpr); ok {
				if d, ok := depth(se.X); ok {
					return d + 1, true
				}
			}
			if tv, ok := info.Types[x.Fun]; ok && tv.IsType() && len(x.Args) == 1 {
				return depth(x.Args[0])
			}
		case *ast.StarExpr:
			return depth(x.X)
		}
		return 0, false
	}
	ast.Inspect(fl.Body, func(n ast.Node) bool {
		be, ok := n.(*ast.BinaryExpr)
		if !ok {
			return true
		}
		switch be.Op {
		case token.LSS, token.GTR, token.LEQ, token.GEQ, token.EQL, token.NEQ:
			for _, side := range []ast.Expr{be.X, be.Y} {
				if d, ok := depth(side); ok && d > 1 && bad == "" {
					bad = "the comparator orders the elements by `" + types.ExprString(side) + "`, a projection of a projection: distinct elements can compare equal, and ties keep the map's iteration order"
				}
			}
		}
		return true
	})
	return bad
}

// e7ClockReviewed: the places where output deliberately carries a timestamp.
var e7ClockReviewed = map[string]string{
	"(*canvas/renderers/pdf.pdfWriter).Close|time.Now": "CreationDate of the PDF document information: a timestamp by design",
	"canvas/renderers/ps.New|time.Now":                 "%%CreationDate header of the PostScript file: a timestamp by design",
	"(*github.com/tdewolff/font.SFNT).Write|time.Now":  "head.modified of a font program written by the dependency (embedded fonts differ in these 8 bytes between seconds); not changeable from canvas",
}

// E7Clock: results do not depend on the wall clock or on random numbers, except at the reviewed timestamp sites.
func E7Clock(c *core.Ctx, r *core.Report) {
	r.Rule("E7.clock", "\"repeated calls with the same inputs give the same outputs\": no function of the module's packages or of the font dependency calls time.Now/Since/Until, math/rand, crypto/rand or os.Getpid, except at the reviewed sites that write a creation/modification timestamp into the output (one line of reason each, listed in the evidence)")
	prog := c.SSA()
	var fns []*ssa.Function
	fns = append(fns, moduleFunctions(c)...)
	for fn := range ssautil.AllFunctions(prog) {
		if fn.Pkg != nil && fn.Pkg.Pkg.Path() == "github.com/tdewolff/font" {
			fns = append(fns, fn)
		}
	}
	seen := map[*ssa.Function]bool{}
	used := map[string]bool{}
	n := 0
	for _, fn := range fns {
		if fn == nil || seen[fn] || fn.Blocks == nil {
			continue
		}
		seen[fn] = true
		if strings.HasSuffix(prog.Fset.Position(fn.Pos()).Filename, "_test.go") {
			continue
		}
		for _, b := range fn.Blocks {
			for _, ins := range b.Instrs {
				ci, ok := ins.(ssa.CallInstruction)
				if !ok {
					continue
				}
				cal := ci.Common().StaticCallee()
				if cal == nil || cal.Pkg == nil {
					continue
				}
				pk, name := cal.Pkg.Pkg.Path(), cal.Name()
				src := ""
				switch {
				case pk == "time" && (name == "Now" || name == "Since" || name == "Until"):
					src = "time." + name
				case pk == "math/rand" || pk == "math/rand/v2" || pk == "crypto/rand":
					src = pk + "." + name
				case pk == "os" && (name == "Getpid" || name == "Hostname"):
					src = "os." + name
				}
				if src == "" {
					continue
				}
				n++
				owner := fn
				for owner.Parent() != nil {
					owner = owner.Parent()
				}
				key := core.ShortFunc(owner) + "|" + src
				if why, ok := e7ClockReviewed[key]; ok {
					used[key] = true
					r.OK("E7.clock", key, c.Pos(ins.Pos()), "reviewed: "+why)
					r.Assumed["reviewed timestamp site "+key+": "+why] = true
				} else {
					r.Fail("E7.clock", key, c.Pos(ins.Pos()), fmt.Sprintf("%s calls %s: its result depends on when (or in which process) it runs, not only on its inputs", core.ShortFunc(owner), src))
				}
			}
		}
	}
	for k := range e7ClockReviewed {
		if !used[k] {
			r.Fail("E7.clock", "table|"+k, "", "stale table entry: the reviewed timestamp site no longer exists")
		}
	}
	r.Count("E7.clock-sites", n)
	r.Floor("E7.clock-sites", 3)
}

// E7PointRelease: a sweep point goes back to the pool only when its segment is finished.
func E7PointRelease(c *core.Ctx, r *core.Report) {
	r.Rule("E7.point-release", "the two end points of a sweep segment refer to each other (`other`) and are read until the segment's right end point has been handled, in the same call and — through prev links and the squares' event lists — while later squares are built. Every boPointPool.Put is therefore the release of a finished segment: it sits under `if !E.left` and releases E and E.other as a pair. Releasing a left end point on its own hands memory that is still in use to the pool, and a concurrent boolean operation on unrelated paths overwrites it")
	p := c.MustPkg("")
	info := p.TypesInfo
	n := 0
	for _, fd := range core.AllFuncDecls(p) {
		if fd.Body == nil || !strings.HasSuffix(c.Fset.Position(fd.Pos()).Filename, "path_intersection.go") {
			continue
		}
		fname := "canvas." + core.FuncName(fd)
		ord := 0
		var walk func(n ast.Node, guards []*ast.IfStmt)
		walk = func(node ast.Node, guards []*ast.IfStmt) {
			ast.Inspect(node, func(m ast.Node) bool {
				switch x := m.(type) {
				case *ast.IfStmt:
					if x.Init != nil {
						walk(x.Init, guards)
					}
					walk(x.Body, append(append([]*ast.IfStmt{}, guards...), x))
					if x.Else != nil {
						walk(x.Else, guards)
					}
					return false
				case *ast.CallExpr:
					se, ok := x.Fun.(*ast.SelectorExpr)
					if !ok || se.Sel.Name != "Put" || len(x.Args) != 1 {
						return true
					}
					if id, ok := core.Unparen(se.X).(*ast.Ident); !ok || id.Name != "boPointPool" || core.ObjOf(info, id) == nil || core.ObjOf(info, id).Parent() != p.Types.Scope() {
						return true
					}
					n++
					ord++
					key := fmt.Sprintf("%s|point release #%d is the release of a finished segment", fname, ord)
					arg := types.ExprString(x.Args[0])
					base := strings.TrimSuffix(arg, ".other")
					guarded := false
					for _, g := range guards {
						if ue, ok := core.Unparen(g.Cond).(*ast.UnaryExpr); ok && ue.Op == token.NOT && types.ExprString(ue.X) == base+".left" {
							// the pair: the guard's body releases both base and base.other
							both := map[string]bool{}
							ast.Inspect(g.Body, func(k ast.Node) bool {
								if c2, ok := k.(*ast.CallExpr); ok && len(c2.Args) == 1 {
									if s2, ok := c2.Fun.(*ast.SelectorExpr); ok && s2.Sel.Name == "Put" {
										both[types.ExprString(c2.Args[0])] = true
									}
								}
								return true
							})
							if both[base] && both[base+".other"] {
								guarded = true
							}
						}
					}
					if guarded {
						r.OK("E7.point-release", key, c.Pos(x.Pos()), "")
					} else {
						r.Fail("E7.point-release", key, c.Pos(x.Pos()), fmt.Sprintf("`%s` is not the paired release under `if !%s.left`: a sweep point may be returned to the pool while its segment is still in use by this call", c.Src(x), base))
					}
				}
				return true
			})
		}
		walk(fd.Body, nil)
	}
	r.Count("E7.point-releases", n)
	r.Floor("E7.point-releases", 4)
}

// E7GlobalEscape: the address of a package-level variable is not stored where later writes can reach it.
func E7GlobalEscape(c *core.Ctx, r *core.Report) {
	r.Rule("E7.global-escape", "module-wide: the address of a package-level variable of the module (or of a part of it) is not stored into an object, a slice or a map, nor returned, outside package initialisation: whoever holds that pointer writes the shared default for every other user (a renderer created with nil options that keeps `&DefaultOptions` lets SetImageEncoding on one document change the encoding of all later and concurrent ones). Copy the value instead. Followed through φ-nodes and conversions; pointers to sync primitives and values that are themselves pointers read from the variable are not addresses of it")
	fns := moduleFunctions(c)
	var isAddr func(v ssa.Value, depth int) *ssa.Global
	isAddr = func(v ssa.Value, depth int) *ssa.Global {
		if depth > 6 {
			return nil
		}
		switch x := v.(type) {
		case *ssa.Global:
			if x.Pkg != nil && strings.HasPrefix(x.Pkg.Pkg.Path(), core.Module) {
				return x
			}
		case *ssa.FieldAddr:
			return isAddr(x.X, depth+1)
		case *ssa.IndexAddr:
			return isAddr(x.X, depth+1)
		case *ssa.Phi:
			for _, e := range x.Edges {
				if g := isAddr(e, depth+1); g != nil {
					return g
				}
			}
		case *ssa.ChangeType:
			return isAddr(x.X, depth+1)
		case *ssa.Convert:
			return isAddr(x.X, depth+1)
		case *ssa.MakeInterface:
			return isAddr(x.X, depth+1)
		}
		return nil
	}
	syncType := func(g *ssa.Global) bool {
		t := g.Type().String()
		return strings.Contains(t, "sync.") || strings.Contains(t, "atomic.")
	}
	n := 0
	for _, fn := range fns {
		if fn.Name() == "init" && fn.Parent() == nil {
			continue
		}
		ord := map[string]int{}
		for _, b := range fn.Blocks {
			for _, ins := range b.Instrs {
				var g *ssa.Global
				how := ""
				switch x := ins.(type) {
				case *ssa.Store:
					// storing the address as a value; the destination must not be a plain local slot only read back
					if gg := isAddr(x.Val, 0); gg != nil {
						if _, isAlloc := x.Addr.(*ssa.Alloc); isAlloc && !x.Addr.(*ssa.Alloc).Heap {
							continue
						}
						g, how = gg, "stored"
					}
				case *ssa.Return:
					for _, res := range x.Results {
						if gg := isAddr(res, 0); gg != nil {
							g, how = gg, "returned"
						}
					}
				case *ssa.MapUpdate:
					if gg := isAddr(x.Value, 0); gg != nil {
						g, how = gg, "stored in a map"
					}
				}
				if g == nil || syncType(g) {
					continue
				}
				n++
				ord[g.Name()]++
				key := fmt.Sprintf("%s|address of %s %s", core.ShortFunc(fn), g.Name(), how)
				if ord[g.Name()] > 1 {
					key += fmt.Sprintf(" #%d", ord[g.Name()])
				}
				r.Fail("E7.global-escape", key, c.Pos(ins.Pos()), fmt.Sprintf("the address of the package-level variable %s is %s here: every later write through that pointer changes the shared value for all other objects and goroutines", g.Name(), how))
			}
		}
	}
	r.OK("E7.global-escape", "module|no address of a package-level variable escapes into objects or results", "", fmt.Sprintf("%d functions examined", len(fns)))
	r.Count("E7.functions-examined-for-global-escape", len(fns))
	r.Floor("E7.functions-examined-for-global-escape", 500)
}

// memoStores examines the stores into package-level keyed caches made by fd — `G.Store(k, v)` /
// `G.LoadOrStore(k, v)` on a package-level sync.Map, `G[k] = v` on a package-level map — and reports,
// for each, the inputs the stored value depends on (field paths rooted at parameters, range
// variables and receivers, followed through the assignments and the conditions they sit under)
// that the key does not determine. A key component K determines K and everything reached through
// K (an object is taken to be immutable while it is used as a key).
func memoStores(info *types.Info, pkg *types.Package, fd *ast.FuncDecl, visit func(pos token.Pos, global string, missing []string)) {
	isGlobal := func(e ast.Expr) (string, bool) {
		id, ok := core.Unparen(e).(*ast.Ident)
		if !ok {
			return "", false
		}
		v, ok := info.Uses[id].(*types.Var)
		if !ok || v.Parent() != pkg.Scope() {
			return "", false
		}
		return v.Name(), true
	}
	// assignments per local, with the conditions they are nested under
	type def struct {
		rhs   ast.Expr
		conds []ast.Expr
	}
	defs := map[types.Object][]def{}
	var conds []ast.Expr
	var collect func(n ast.Node)
	collect = func(n ast.Node) {
		switch x := n.(type) {
		case *ast.IfStmt:
			if x.Init != nil {
				collect(x.Init)
			}
			conds = append(conds, x.Cond)
			collect(x.Body)
			if x.Else != nil {
				collect(x.Else)
			}
			conds = conds[:len(conds)-1]
			return
		case *ast.AssignStmt:
			for i, l := range x.Lhs {
				id, ok := l.(*ast.Ident)
				if !ok {
					continue
				}
				o := info.Defs[id]
				if o == nil {
					o = info.Uses[id]
				}
				if o == nil {
					continue
				}
				var rhs ast.Expr
				if len(x.Lhs) == len(x.Rhs) {
					rhs = x.Rhs[i]
				} else if len(x.Rhs) == 1 {
					rhs = x.Rhs[0]
				}
				if x.Tok != token.ASSIGN && x.Tok != token.DEFINE && len(x.Rhs) == 1 {
					rhs = x.Rhs[0] // v *= e: depends on e (and on itself)
				}
				defs[o] = append(defs[o], def{rhs, append([]ast.Expr{}, conds...)})
			}
			return
		case *ast.BlockStmt:
			for _, s := range x.List {
				collect(s)
			}
			return
		case *ast.ForStmt:
			collect(x.Body)
			return
		case *ast.RangeStmt:
			collect(x.Body)
			return
		case *ast.SwitchStmt:
			collect(x.Body)
			return
		case *ast.CaseClause:
			for _, s := range x.Body {
				collect(s)
			}
			return
		}
	}
	collect(fd.Body)
	var leaves func(e ast.Expr, out map[string]bool, seen map[types.Object]bool)
	leaves = func(e ast.Expr, out map[string]bool, seen map[types.Object]bool) {
		if e == nil {
			return
		}
		ast.Inspect(e, func(m ast.Node) bool {
			switch x := m.(type) {
			case *ast.SelectorExpr:
				// a field path rooted at an identifier that is not computed locally
				root := x
				var base ast.Expr = x
				for {
					se, ok := core.Unparen(base).(*ast.SelectorExpr)
					if !ok {
						break
					}
					root = se
					base = se.X
				}
				_ = root
				if id, ok := core.Unparen(base).(*ast.Ident); ok {
					if v, ok := info.Uses[id].(*types.Var); ok && v.Parent() != pkg.Scope() {
						if sel, isSel := info.Selections[x]; isSel && sel.Kind() == types.FieldVal {
							// a field path of an object (a parameter, a range variable, or a local that holds
							// one, e.g. `glyph := glyphs[i]`): the path names the input
							out[types.ExprString(x)] = true
							return false
						}
					}
				}
			case *ast.Ident:
				o := info.Uses[x]
				v, ok := o.(*types.Var)
				if !ok || v.Parent() == pkg.Scope() || v.IsField() {
					return true
				}
				if ds := defs[o]; len(ds) > 0 {
					if !seen[o] {
						seen[o] = true
						for _, d := range ds {
							leaves(d.rhs, out, seen)
							for _, cnd := range d.conds {
								leaves(cnd, out, seen)
							}
						}
					}
				} else {
					out[x.Name] = true // parameter, receiver, range variable used as a whole
				}
			}
			return true
		})
	}
	check := func(pos token.Pos, g string, key, val ast.Expr, encl []ast.Expr) {
		kl, vl := map[string]bool{}, map[string]bool{}
		leaves(key, kl, map[types.Object]bool{})
		leaves(val, vl, map[types.Object]bool{})
		var missing []string
		for l := range vl {
			covered := false
			for k := range kl {
				if l == k || strings.HasPrefix(l, k+".") {
					covered = true
				}
			}
			if !covered {
				missing = append(missing, l)
			}
		}
		sort.Strings(missing)
		visit(pos, g, missing)
	}
	ast.Inspect(fd.Body, func(m ast.Node) bool {
		switch x := m.(type) {
		case *ast.CallExpr:
			se, ok := x.Fun.(*ast.SelectorExpr)
			if !ok || len(x.Args) != 2 {
				return true
			}
			if se.Sel.Name != "Store" && se.Sel.Name != "LoadOrStore" && se.Sel.Name != "Swap" {
				return true
			}
			g, ok := isGlobal(se.X)
			if !ok {
				return true
			}
			if t := info.TypeOf(se.X); t == nil || !strings.HasSuffix(t.String(), "sync.Map") {
				return true
			}
			check(x.Pos(), g, x.Args[0], x.Args[1], nil)
		case *ast.AssignStmt:
			for i, l := range x.Lhs {
				ie, ok := core.Unparen(l).(*ast.IndexExpr)
				if !ok || i >= len(x.Rhs) {
					continue
				}
				g, ok := isGlobal(ie.X)
				if !ok {
					continue
				}
				if _, isMap := info.TypeOf(ie.X).Underlying().(*types.Map); !isMap {
					continue
				}
				check(x.Pos(), g, ie.Index, x.Rhs[i], nil)
			}
		}
		return true
	})
}

// E7MemoKey: a package-level cache may only remember values that its key determines.
func E7MemoKey(c *core.Ctx, r *core.Report) {
	r.Rule("E7.memo-key", "\"every call returns exactly the result it returns when run alone\": a package-level keyed cache (sync.Map, or a map written at run time) survives the call that fills it and is shared by every goroutine, so a value stored in it may depend only on inputs the key determines. For every store, the inputs of the value — field paths rooted at parameters, receivers and range variables, followed backwards through the function's assignments and the conditions they sit under — are each a key component or reached through one. A hyphen width cached per font but computed from the font *and the size* makes a layout depend on which size was laid out first with that font. Module-wide; built-in example on every run (no such cache exists today)")
	// self-test
	{
		src := `package sync
type Map struct{}
func (m *Map) Load(k any) (any, bool) { return nil, false }
func (m *Map) Store(k, v any) {}
type F struct{ units int }
type G struct { f *F; size float64; vertical bool }
var cache Map
var table = map[*F]float64{}
type key struct { f *F; v bool }
func coarse(gs []G, i int) float64 {
	g := gs[i]
	k := key{g.f, g.vertical}
	if w, ok := cache.Load(k); ok { return w.(float64) }
	w := float64(g.f.units)
	if g.vertical { w = 2 }
	w *= g.size
	cache.Store(k, w)
	return w
}
func exact(g G) float64 {
	k := key{g.f, g.vertical}
	w := float64(g.f.units)
	if g.vertical { w = 2 }
	cache.Store(k, w)
	return w * g.size
}
func plainMap(g G) { table[g.f] = g.size }
`
		fset := token.NewFileSet()
		f, err := parser.ParseFile(fset, "selftest.go", src, 0)
		if err != nil {
			panic(core.Infra("memo-key self-test does not parse: " + err.Error()))
		}
		info := &types.Info{Types: map[ast.Expr]types.TypeAndValue{}, Uses: map[*ast.Ident]types.Object{}, Defs: map[*ast.Ident]types.Object{}, Selections: map[*ast.SelectorExpr]*types.Selection{}}
		pkg, err := (&types.Config{}).Check("sync", fset, []*ast.File{f}, info)
		if err != nil {
			panic(core.Infra("memo-key self-test does not type-check: " + err.Error()))
		}
		got := ""
		for _, d := range f.Decls {
			fd, ok := d.(*ast.FuncDecl)
			if !ok {
				continue
			}
			memoStores(info, pkg, fd, func(_ token.Pos, g string, missing []string) {
				got += fd.Name.Name + ":" + g + "[" + strings.Join(missing, ",") + "] "
			})
		}
		if got != "coarse:cache[g.size] exact:cache[] plainMap:table[g.size] " {
			panic(core.Infra("memo-key self-test: recogniser answers `" + got + "`"))
		}
		r.Count("E7.memo-key-selftest", 3)
	}
	n, funcs := 0, 0
	for _, rel := range modulePkgRels {
		p := c.MustPkg(rel)
		pk := "canvas"
		if rel != "" {
			pk = rel
		}
		for _, fd := range core.AllFuncDecls(p) {
			if strings.HasSuffix(c.Fset.Position(fd.Pos()).Filename, "_test.go") || (fd.Name.Name == "init" && fd.Recv == nil) {
				continue
			}
			funcs++
			ord := 0
			memoStores(p.TypesInfo, p.Types, fd, func(pos token.Pos, g string, missing []string) {
				ord++
				n++
				key := fmt.Sprintf("%s.%s|store #%d into package-level cache %s", pk, core.FuncName(fd), ord, g)
				if len(missing) == 0 {
					r.OK("E7.memo-key", key, c.Pos(pos), "")
				} else {
					r.Fail("E7.memo-key", key, c.Pos(pos), fmt.Sprintf("the value stored in %s also depends on %s, which the key does not determine: whoever fills the entry first decides what every later caller with the same key gets, in this goroutine or another", g, strings.Join(missing, ", ")))
				}
			})
		}
	}
	r.Count("E7.memo-key-functions", funcs)
	r.Floor("E7.memo-key-functions", 500)
	r.Floor("E7.memo-key-selftest", 3)
}

// E7FaceWithoutCache: the shaping face every goroutine shares is built without go-text's unsynchronised cache.
func E7FaceWithoutCache(c *core.Ctx, r *core.Report) {
	r.Rule("E7.face-without-cache", "each loaded font owns one go-text `font.Face`, and every layout on every goroutine shapes through it. go-text documents a Face as not safe for concurrent use because `GlyphExtents` writes its per-face extents cache without synchronisation; with a nil cache `set` returns before writing (len 0). Every construction of a go-text Face in the module is therefore a composite literal that sets only the embedded Font — never `font.NewFace`, which allocates the cache — and nothing in the module calls `SetPpem`/`SetCoords` on it. The premise is read from the dependency's source: `NewFace` is the function whose returned literal gives the cache field a value")
	n := 0
	facePkg := "github.com/go-text/typesetting/font"
	for _, rel := range modulePkgRels {
		p := c.Pkg(rel)
		if p == nil {
			continue
		}
		info := p.TypesInfo
		for _, fd := range core.AllFuncDecls(p) {
			if fd.Body == nil || strings.HasSuffix(c.Fset.Position(fd.Pos()).Filename, "_test.go") {
				continue
			}
			k := 0
			fname := p.Types.Name() + "." + core.FuncName(fd)
			ast.Inspect(fd.Body, func(m ast.Node) bool {
				switch x := m.(type) {
				case *ast.CompositeLit:
					t := info.TypeOf(x)
					nt, ok := t.(*types.Named)
					if !ok || nt.Obj().Name() != "Face" || nt.Obj().Pkg() == nil || nt.Obj().Pkg().Path() != facePkg {
						return true
					}
					k++
					n++
					key := fmt.Sprintf("%s|go-text face #%d", fname, k)
					var extra []string
					for _, el := range x.Elts {
						kv, ok := el.(*ast.KeyValueExpr)
						if !ok {
							extra = append(extra, "positional element")
							continue
						}
						if id, ok := kv.Key.(*ast.Ident); !ok || id.Name != "Font" {
							extra = append(extra, types.ExprString(kv.Key))
						}
					}
					if len(extra) == 0 {
						r.OK("E7.face-without-cache", key, c.Pos(x.Pos()), "literal with the Font only")
					} else {
						r.Fail("E7.face-without-cache", key, c.Pos(x.Pos()), fmt.Sprintf("the shared face is built with %s set: any per-face state of go-text is written during shaping without synchronisation", strings.Join(extra, ", ")))
					}
				case *ast.CallExpr:
					f := core.CalleeOf(info, x)
					if f == nil || f.Pkg() == nil || f.Pkg().Path() != facePkg {
						return true
					}
					switch f.Name() {
					case "NewFace", "SetPpem", "SetCoords":
						k++
						n++
						r.Fail("E7.face-without-cache", fmt.Sprintf("%s|go-text face #%d", fname, k), c.Pos(x.Pos()), fmt.Sprintf("`%s`: %s gives the face per-face mutable state (the glyph extents cache that GlyphExtents fills on first use of a glyph, without synchronisation; go-text documents faces as not safe for concurrent use). The face belongs to a loaded font that any number of goroutines lay out text with: two first uses of a glyph race, and a reader can see the valid flag before the extents", types.ExprString(x), f.Name()))
					}
				}
				return true
			})
		}
	}
	// premise: NewFace is what fills the cache field
	if dep := c.All[facePkg]; dep != nil && len(dep.Syntax) > 0 {
		ok := false
		for _, fd := range core.AllFuncDecls(dep) {
			if fd.Name.Name == "NewFace" && fd.Body != nil {
				ast.Inspect(fd.Body, func(m ast.Node) bool {
					if kv, ok2 := m.(*ast.KeyValueExpr); ok2 {
						if id, ok3 := kv.Key.(*ast.Ident); ok3 && strings.Contains(strings.ToLower(id.Name), "cache") {
							ok = true
						}
					}
					return true
				})
			}
		}
		if ok {
			r.OK("E7.face-without-cache", "premise|font.NewFace allocates the per-face cache", "", "")
		} else {
			r.Fail("E7.face-without-cache", "premise|font.NewFace allocates the per-face cache", "", "go-text's NewFace no longer gives a cache field a value in its literal; the premise of the rule has to be re-read against the dependency")
		}
	} else {
		r.Fail("E7.face-without-cache", "premise|font.NewFace allocates the per-face cache", "", "the dependency github.com/go-text/typesetting/font was not loaded with syntax")
	}
	r.Count("E7.face-without-cache", n)
	r.Floor("E7.face-without-cache", 1)
}

// poolPutEscapes reports, for one function, every object taken from a sync.Pool and put back in the same function:
// ok tells whether nothing derived from it is still referred to by a returned value.
func poolPutEscapes(info *types.Info, fd *ast.FuncDecl, src func(ast.Node) string, report func(obj types.Object, pos token.Pos, ok bool, what string)) {
	isPool := func(e ast.Expr) bool {
		t := info.TypeOf(e)
		if t == nil {
			return false
		}
		if pt, ok := t.(*types.Pointer); ok {
			t = pt.Elem()
		}
		nt, ok := t.(*types.Named)
		return ok && nt.Obj().Name() == "Pool" && nt.Obj().Pkg() != nil && (nt.Obj().Pkg().Path() == "sync" || nt.Obj().Pkg().Name() == "sync")
	}
	got := map[types.Object]token.Pos{}
	var order []types.Object
	ast.Inspect(fd.Body, func(m ast.Node) bool {
		as, ok := m.(*ast.AssignStmt)
		if !ok || len(as.Lhs) != len(as.Rhs) {
			return true
		}
		for i, rhs := range as.Rhs {
			hit := false
			ast.Inspect(rhs, func(k ast.Node) bool {
				if call, ok := k.(*ast.CallExpr); ok {
					if se, ok := call.Fun.(*ast.SelectorExpr); ok && se.Sel.Name == "Get" && isPool(se.X) {
						hit = true
					}
				}
				return true
			})
			if hit {
				if id, ok := as.Lhs[i].(*ast.Ident); ok {
					if o := core.ObjOf(info, id); o != nil {
						if _, dup := got[o]; !dup {
							order = append(order, o)
						}
						got[o] = as.Pos()
					}
				}
			}
		}
		return true
	})
	if len(got) == 0 {
		return
	}
	put := map[types.Object]bool{}
	ast.Inspect(fd.Body, func(m ast.Node) bool {
		call, ok := m.(*ast.CallExpr)
		if !ok || len(call.Args) != 1 {
			return true
		}
		if se, ok := call.Fun.(*ast.SelectorExpr); ok && se.Sel.Name == "Put" && isPool(se.X) {
			ast.Inspect(call.Args[0], func(k ast.Node) bool {
				if id, ok := k.(*ast.Ident); ok {
					if _, isGot := got[core.ObjOf(info, id)]; isGot {
						put[core.ObjOf(info, id)] = true
					}
				}
				return true
			})
		}
		return true
	})
	for _, o := range order {
		if !put[o] {
			continue
		}
		derived := map[types.Object]bool{o: true}
		mentions := func(e ast.Node) bool {
			hit := false
			ast.Inspect(e, func(k ast.Node) bool {
				if id, ok := k.(*ast.Ident); ok && derived[core.ObjOf(info, id)] {
					hit = true
				}
				return !hit
			})
			return hit
		}
		for changed := true; changed; {
			changed = false
			ast.Inspect(fd.Body, func(m ast.Node) bool {
				as, ok := m.(*ast.AssignStmt)
				if !ok || len(as.Lhs) != len(as.Rhs) {
					return true
				}
				for i, l := range as.Lhs {
					lid, ok := l.(*ast.Ident)
					if !ok {
						continue
					}
					lo := core.ObjOf(info, lid)
					if lo == nil || derived[lo] || !mentions(as.Rhs[i]) {
						continue
					}
					switch lo.Type().Underlying().(type) {
					case *types.Slice, *types.Pointer, *types.Map, *types.Signature, *types.Interface:
						derived[lo] = true
						changed = true
					}
				}
				return true
			})
		}
		bad, found := "", false
		var badPos token.Pos
		ast.Inspect(fd.Body, func(m ast.Node) bool {
			rs, ok := m.(*ast.ReturnStmt)
			if !ok || found {
				return true
			}
			for _, res := range rs.Results {
				if _, isBasic := info.TypeOf(res).Underlying().(*types.Basic); isBasic {
					continue // a number or string computed from the buffer is a copy
				}
				if mentions(res) {
					found = true
					bad, badPos = src(res), res.Pos()
					if len(bad) > 80 {
						bad = bad[:80] + "…"
					}
				}
			}
			return true
		})
		if !found {
			report(o, got[o], true, "")
		} else {
			report(o, badPos, false, bad)
		}
	}
}

// E7PoolPutEscapes: memory given back to a pool is not still reachable from what the function hands out.
func E7PoolPutEscapes(c *core.Ctx, r *core.Report) {
	r.Rule("E7.pool-put-escapes", "a sync.Pool hands an object to whoever asks next, on any goroutine. In every function of the module that takes an object from a pool and puts it back (also by defer), nothing derived from that object — the object, slices cut from it, locals of reference type assigned from those — is mentioned in a returned value of reference type (a slice, pointer, map, interface or function literal): otherwise the memory is in the pool while the caller still reads it, and the next Get — from an unrelated call — overwrites it. A Chebyshev approximation returned as a closure over pooled coefficient storage is silently replaced by the next approximation built anywhere. Module-wide; no function of the tree takes and returns a pooled object in one body today, so a built-in example is evaluated on every run")
	{
		srcText := `package sync
type Pool struct{ New func() any }
func (p *Pool) Get() any { return nil }
func (p *Pool) Put(x any) {}
var pool Pool
func leaks(n int) func(int) float64 {
	buf := pool.Get().([]float64)
	defer pool.Put(buf)
	c := buf[:n]
	return func(i int) float64 { return c[i] }
}
func copies(n int) float64 {
	buf := pool.Get().([]float64)
	defer pool.Put(buf)
	s := 0.0
	for _, v := range buf[:n] { s += v }
	return s
}
func keeps(n int) []float64 {
	buf := pool.Get().([]float64)
	return buf[:n]
}
`
		fset := token.NewFileSet()
		f, err := parser.ParseFile(fset, "selftest.go", srcText, 0)
		if err != nil {
			panic(core.Infra("pool-put-escapes self-test does not parse: " + err.Error()))
		}
		info := &types.Info{Types: map[ast.Expr]types.TypeAndValue{}, Uses: map[*ast.Ident]types.Object{}, Defs: map[*ast.Ident]types.Object{}, Selections: map[*ast.SelectorExpr]*types.Selection{}}
		if _, err := (&types.Config{}).Check("sync", fset, []*ast.File{f}, info); err != nil {
			panic(core.Infra("pool-put-escapes self-test does not type-check: " + err.Error()))
		}
		got := ""
		for _, d := range f.Decls {
			if fd, ok := d.(*ast.FuncDecl); ok && fd.Body != nil {
				poolPutEscapes(info, fd, func(ast.Node) string { return "" }, func(o types.Object, _ token.Pos, ok bool, _ string) {
					got += fmt.Sprintf("%s:%s:%v ", fd.Name.Name, o.Name(), ok)
				})
			}
		}
		if got != "leaks:buf:false copies:buf:true " {
			panic(core.Infra("pool-put-escapes self-test: recogniser answers `" + got + "`"))
		}
		r.Count("E7.pool-put-escapes-selftest", 2)
	}
	n := 0
	for _, rel := range modulePkgRels {
		p := c.Pkg(rel)
		if p == nil {
			continue
		}
		for _, fd := range core.AllFuncDecls(p) {
			if fd.Body == nil || strings.HasSuffix(c.Fset.Position(fd.Pos()).Filename, "_test.go") {
				continue
			}
			fd := fd
			poolPutEscapes(p.TypesInfo, fd, c.Src, func(o types.Object, pos token.Pos, ok bool, what string) {
				n++
				key := fmt.Sprintf("%s.%s|pooled `%s` does not outlive its Put", p.Types.Name(), core.FuncName(fd), o.Name())
				if ok {
					r.OK("E7.pool-put-escapes", key, c.Pos(pos), "")
				} else {
					r.Fail("E7.pool-put-escapes", key, c.Pos(pos), fmt.Sprintf("`%s` is put back into the pool in this function, yet the value returned (`%s`) still refers to it or to memory cut from it: the next Get from any call on any goroutine hands the same memory out again and overwrites what the caller of this function is still using", o.Name(), what))
				}
			})
		}
	}
	r.Count("E7.pool-put-escapes", n)
}

// cachedObjectWrites finds, in a set of type-checked files, writes through a pointer that a function handed out
// from a package-level cache. fds: all function declarations with their info.
type cowFunc struct {
	fd   *ast.FuncDecl
	info *types.Info
	pkg  *types.Package
	name string
}

func cachedObjectWrites(fns []cowFunc, src func(ast.Node) string, report func(pos token.Pos, fn, loader, lhs string)) {
	isPkgCache := func(info *types.Info, pkg *types.Package, e ast.Expr) bool {
		id, ok := core.Unparen(e).(*ast.Ident)
		if !ok {
			return false
		}
		v, ok := info.Uses[id].(*types.Var)
		if !ok || v.Pkg() == nil || v.Parent() != v.Pkg().Scope() {
			return false
		}
		if _, isMap := v.Type().Underlying().(*types.Map); isMap {
			return true
		}
		if nt, ok := v.Type().(*types.Named); ok && nt.Obj().Name() == "Map" && nt.Obj().Pkg() != nil && nt.Obj().Pkg().Name() == "sync" {
			return true
		}
		return false
	}
	strip := func(e ast.Expr) ast.Expr {
		for {
			e = core.Unparen(e)
			if ta, ok := e.(*ast.TypeAssertExpr); ok {
				e = ta.X
				continue
			}
			return e
		}
	}
	returners := map[*types.Func]string{}
	// direct: returns something read from, or stored into, a package-level cache
	for _, f := range fns {
		fobj, _ := f.info.Defs[f.fd.Name].(*types.Func)
		if fobj == nil || f.fd.Body == nil {
			continue
		}
		fromCache := map[types.Object]string{}
		ast.Inspect(f.fd.Body, func(n ast.Node) bool {
			switch x := n.(type) {
			case *ast.AssignStmt:
				if len(x.Rhs) == 1 && len(x.Lhs) >= 1 {
					if id, ok := x.Lhs[0].(*ast.Ident); ok {
						rhs := strip(x.Rhs[0])
						switch y := rhs.(type) {
						case *ast.CallExpr:
							if se, ok := y.Fun.(*ast.SelectorExpr); ok && se.Sel.Name == "Load" && isPkgCache(f.info, f.pkg, se.X) {
								fromCache[core.ObjOf(f.info, id)] = src(se.X)
							}
						case *ast.IndexExpr:
							if isPkgCache(f.info, f.pkg, y.X) {
								fromCache[core.ObjOf(f.info, id)] = src(y.X)
							}
						}
					}
				}
				// G[k] = v
				for i, l := range x.Lhs {
					if ie, ok := core.Unparen(l).(*ast.IndexExpr); ok && isPkgCache(f.info, f.pkg, ie.X) && i < len(x.Rhs) {
						if id, ok := core.Unparen(x.Rhs[i]).(*ast.Ident); ok {
							fromCache[core.ObjOf(f.info, id)] = src(ie.X)
						}
					}
				}
			case *ast.CallExpr:
				// G.Store(k, v)
				if se, ok := x.Fun.(*ast.SelectorExpr); ok && se.Sel.Name == "Store" && len(x.Args) == 2 && isPkgCache(f.info, f.pkg, se.X) {
					if id, ok := core.Unparen(x.Args[1]).(*ast.Ident); ok {
						fromCache[core.ObjOf(f.info, id)] = src(se.X)
					}
				}
			}
			return true
		})
		ast.Inspect(f.fd.Body, func(n ast.Node) bool {
			if _, ok := n.(*ast.FuncLit); ok {
				return false
			}
			rs, ok := n.(*ast.ReturnStmt)
			if !ok {
				return true
			}
			for _, res := range rs.Results {
				if id, ok := strip(res).(*ast.Ident); ok {
					if g, ok := fromCache[core.ObjOf(f.info, id)]; ok {
						if _, isPtr := f.info.TypeOf(res).Underlying().(*types.Pointer); isPtr {
							returners[fobj] = g
						}
					}
				}
			}
			return true
		})
	}
	// transitive: returns the result of a returner
	for changed := true; changed; {
		changed = false
		for _, f := range fns {
			fobj, _ := f.info.Defs[f.fd.Name].(*types.Func)
			if fobj == nil || f.fd.Body == nil || returners[fobj] != "" {
				continue
			}
			holds := map[types.Object]string{}
			ast.Inspect(f.fd.Body, func(n ast.Node) bool {
				if as, ok := n.(*ast.AssignStmt); ok && len(as.Rhs) == 1 {
					if call, ok := core.Unparen(as.Rhs[0]).(*ast.CallExpr); ok {
						if g := returners[core.CalleeOf(f.info, call)]; g != "" {
							if id, ok := as.Lhs[0].(*ast.Ident); ok {
								holds[core.ObjOf(f.info, id)] = g
							}
						}
					}
				}
				return true
			})
			ast.Inspect(f.fd.Body, func(n ast.Node) bool {
				rs, ok := n.(*ast.ReturnStmt)
				if !ok {
					return true
				}
				for _, res := range rs.Results {
					g := ""
					switch y := core.Unparen(res).(type) {
					case *ast.CallExpr:
						g = returners[core.CalleeOf(f.info, y)]
					case *ast.Ident:
						g = holds[core.ObjOf(f.info, y)]
					}
					if g != "" && returners[fobj] == "" {
						returners[fobj] = g
						changed = true
					}
				}
				return true
			})
		}
	}
	// writes through a handed-out pointer
	for _, f := range fns {
		if f.fd.Body == nil {
			continue
		}
		holds := map[types.Object]*types.Func{}
		ast.Inspect(f.fd.Body, func(n ast.Node) bool {
			if as, ok := n.(*ast.AssignStmt); ok && len(as.Rhs) == 1 {
				if call, ok := core.Unparen(as.Rhs[0]).(*ast.CallExpr); ok {
					if callee := core.CalleeOf(f.info, call); callee != nil && returners[callee] != "" {
						if id, ok := as.Lhs[0].(*ast.Ident); ok {
							holds[core.ObjOf(f.info, id)] = callee
						}
					}
				}
			}
			return true
		})
		if len(holds) == 0 {
			continue
		}
		chk := func(l ast.Expr) {
			se, ok := core.Unparen(l).(*ast.SelectorExpr)
			if !ok {
				return
			}
			if id, ok := core.Unparen(se.X).(*ast.Ident); ok {
				if callee := holds[core.ObjOf(f.info, id)]; callee != nil {
					report(l.Pos(), f.name, callee.Name()+" ("+returners[callee]+")", src(l))
				}
			}
		}
		ast.Inspect(f.fd.Body, func(n ast.Node) bool {
			switch x := n.(type) {
			case *ast.AssignStmt:
				for _, l := range x.Lhs {
					chk(l)
				}
			case *ast.IncDecStmt:
				chk(x.X)
			}
			return true
		})
	}
}

// E7CachedObjectWritten: an object handed out from a package-level cache is shared by all callers and is not written.
func E7CachedObjectWritten(c *core.Ctx, r *core.Report) {
	r.Rule("E7.cached-object-written", "a function that returns a pointer it read from, or stored into, a package-level cache (sync.Map, or a package-level map) hands the same object to every caller, in every goroutine; so does a function that returns such a function's result. No caller assigns to a field of the object it received: `font, _ := LoadFontFile(name, style); font.name = family.name` renames the font of every family that loaded the same file, and two goroutines doing so race. Module-wide; built-in example on every run (no loader returns cached objects today)")
	{
		src := `package sync
type Map struct{}
func (m *Map) Load(k any) (any, bool) { return nil, false }
func (m *Map) Store(k, v any) {}
type Font struct{ name string; size int }
var files Map
var byName = map[string]*Font{}
func load(file string) (*Font, error) {
	if f, ok := files.Load(file); ok { return f.(*Font), nil }
	font := &Font{}
	files.Store(file, font)
	return font, nil
}
func loadSystem(name string) (*Font, error) { return load("/fonts/" + name) }
func fresh(file string) *Font { return &Font{} }
func lookup(n string) *Font { f := byName[n]; return f }
type Family struct{ name string }
func (fam *Family) Load(file string) { font, _ := loadSystem(file); font.name = fam.name }
func (fam *Family) LoadFresh(file string) { font := fresh(file); font.name = fam.name }
func (fam *Family) Bump(n string) { f := lookup(n); f.size++ }
`
		fset := token.NewFileSet()
		f, err := parser.ParseFile(fset, "selftest.go", src, 0)
		if err != nil {
			panic(core.Infra("cached-object self-test does not parse: " + err.Error()))
		}
		info := &types.Info{Types: map[ast.Expr]types.TypeAndValue{}, Uses: map[*ast.Ident]types.Object{}, Defs: map[*ast.Ident]types.Object{}, Selections: map[*ast.SelectorExpr]*types.Selection{}}
		pkg, err := (&types.Config{}).Check("sync", fset, []*ast.File{f}, info)
		if err != nil {
			panic(core.Infra("cached-object self-test does not type-check: " + err.Error()))
		}
		var fns []cowFunc
		for _, d := range f.Decls {
			if fd, ok := d.(*ast.FuncDecl); ok {
				fns = append(fns, cowFunc{fd, info, pkg, fd.Name.Name})
			}
		}
		got := ""
		cachedObjectWrites(fns, func(n ast.Node) string {
			var b strings.Builder
			printer.Fprint(&b, fset, n)
			return b.String()
		}, func(_ token.Pos, fn, loader, lhs string) {
			got += fn + ":" + lhs + "<-" + loader + " "
		})
		if got != "Load:font.name<-loadSystem (files) Bump:f.size<-lookup (byName) " {
			panic(core.Infra("cached-object self-test: recogniser answers `" + got + "`"))
		}
		r.Count("E7.cached-object-selftest", 2)
	}
	var fns []cowFunc
	for _, rel := range modulePkgRels {
		p := c.MustPkg(rel)
		pk := "canvas"
		if rel != "" {
			pk = rel
		}
		for _, fd := range core.AllFuncDecls(p) {
			if strings.HasSuffix(c.Fset.Position(fd.Pos()).Filename, "_test.go") {
				continue
			}
			fns = append(fns, cowFunc{fd, p.TypesInfo, p.Types, pk + "." + core.FuncName(fd)})
		}
	}
	n := 0
	cachedObjectWrites(fns, func(nd ast.Node) string { return c.Src(nd) }, func(pos token.Pos, fn, loader, lhs string) {
		n++
		r.Fail("E7.cached-object-written", fmt.Sprintf("%s|%s written, object from %s", fn, lhs, loader), c.Pos(pos), fmt.Sprintf("`%s` is assigned, but the object came from %s, which returns entries of a package-level cache: every other holder of that entry — another font family, another goroutine — sees the change, and concurrent callers race", lhs, loader))
	})
	r.Count("E7.cached-object-functions", len(fns))
	r.Floor("E7.cached-object-functions", 500)
	r.Floor("E7.cached-object-selftest", 2)
	r.OK("E7.cached-object-written", "module|objects handed out from package-level caches", c.Pos(c.MustPkg("").Syntax[0].Pos()), fmt.Sprintf("%d functions, %d writes through a cached object", len(fns), n))
}

// E7GlobalMapEscapes: a package-level map is read in place, never handed on.
func E7GlobalMapEscapes(c *core.Ctx, r *core.Report) {
	r.Rule("E7.global-map-escapes", "a map is a reference: whoever receives the value of a package-level map can write the one map every goroutine shares. Outside package initialisation, every load of a package-level map of the module is used only to look an entry up, to range over it or to take its length; it is not passed to a call, stored into a struct, slice, map or interface, returned or merged at a φ. (A constant stream dictionary hoisted to package level is handed to the PDF value writer, which stores the stream's /Length into the dictionary it is given: concurrent documents overwrite each other's length.) On the SSA form of the whole module; the stores themselves are the subject of E7.global")
	fns := moduleFunctions(c)
	loads, bad := 0, 0
	// reviewed: functions outside C20's API set, one reason each
	outOfScope := map[string]string{
		"(*canvas.dviFonts).Get": "LaTeX/DVI font lookup is not in C20's API set (the same exclusion as in E7.map-order); the selected character table is kept in the dviFont and only ever indexed",
	}
	for _, fn := range fns {
		if fn.Name() == "init" && fn.Parent() == nil {
			continue
		}
		if why, ok := outOfScope[core.ShortFunc(fn)]; ok {
			r.OK("E7.global-map-escapes", core.ShortFunc(fn)+"|not held to the rule", c.Pos(fn.Pos()), why)
			continue
		}
		for _, b := range fn.Blocks {
			for _, ins := range b.Instrs {
				u, ok := ins.(*ssa.UnOp)
				if !ok || u.Op != token.MUL {
					continue
				}
				g, ok := u.X.(*ssa.Global)
				if !ok || g.Pkg == nil || !strings.HasPrefix(g.Pkg.Pkg.Path(), core.Module) {
					continue
				}
				if _, isMap := u.Type().Underlying().(*types.Map); !isMap {
					continue
				}
				loads++
				for _, ref := range *u.Referrers() {
					okUse := false
					switch x := ref.(type) {
					case *ssa.Lookup:
						okUse = x.X == ssa.Value(u)
					case *ssa.Range:
						okUse = true
					case *ssa.MapUpdate:
						okUse = true // a store: E7.global decides it
					case *ssa.Call:
						if bi, ok := x.Call.Value.(*ssa.Builtin); ok && (bi.Name() == "len" || bi.Name() == "delete") {
							okUse = true
						}
					case *ssa.DebugRef:
						okUse = true
					case *ssa.BinOp:
						okUse = true // comparison with nil
					}
					if !okUse {
						bad++
						r.Fail("E7.global-map-escapes", fmt.Sprintf("%s|%s handed on", core.ShortFunc(fn), g.Name()), c.Pos(ref.Pos()), fmt.Sprintf("the package-level map %s is handed on (%T) instead of being read in place: whoever receives it writes the map that all goroutines share", g.Name(), ref))
					}
				}
			}
		}
	}
	r.Count("E7.global-map-loads", loads)
	r.Floor("E7.global-map-loads", 3)
	if bad == 0 {
		r.OK("E7.global-map-escapes", "module|loads of package-level maps", c.Pos(c.MustPkg("").Syntax[0].Pos()), fmt.Sprintf("%d loads, all looked up, ranged over or measured in place", loads))
	}
}

// E7OptionsCopied: a renderer that changes its options works on its own copy of them.
func E7OptionsCopied(c *core.Ctx, r *core.Report) {
	r.Rule("E7.options-copied", "the renderers take a `*Options` from their caller, who may well build one value and create many renderers from it, on several goroutines. A renderer package in which anything is stored through that pointer after construction (`r.opts.F = v` in a method, `opts.F = v` in New) must therefore not keep the caller's pointer: in New, on every path, the parameter is re-pointed at a local (`opts = &local`, the local being the defaults or `*opts` copied) before it is stored in the renderer or written through; only `opts == nil` tests and the copy `*opts` may read it before that. With the caller's pointer kept, SetImageEncoding on one renderer changes every renderer made from the same Options, and doing so from two goroutines is a data race")
	n := 0
	for _, rel := range []string{"renderers/pdf", "renderers/svg", "renderers/ps", "renderers/rasterizer"} {
		p := c.MustPkg(rel)
		info := p.TypesInfo
		var newFd *ast.FuncDecl
		for _, fd := range core.AllFuncDecls(p) {
			if fd.Recv == nil && fd.Name.Name == "New" && fd.Body != nil {
				newFd = fd
			}
		}
		if newFd == nil {
			continue
		}
		// the *Options parameter
		var po types.Object
		for _, f := range newFd.Type.Params.List {
			if isNamedDeref(info.TypeOf(f.Type), "Options") {
				if _, isPtr := info.TypeOf(f.Type).(*types.Pointer); isPtr && len(f.Names) == 1 {
					po = info.Defs[f.Names[0]]
				}
			}
		}
		if po == nil {
			continue
		}
		// does the package store through an Options pointer?
		var write ast.Node
		var writeFn string
		for _, fd := range core.AllFuncDecls(p) {
			if fd.Body == nil {
				continue
			}
			ast.Inspect(fd.Body, func(m ast.Node) bool {
				as, ok := m.(*ast.AssignStmt)
				if !ok {
					return true
				}
				for _, l := range as.Lhs {
					if se, ok := l.(*ast.SelectorExpr); ok {
						if _, isPtr := info.TypeOf(se.X).(*types.Pointer); isPtr && isNamedDeref(info.TypeOf(se.X), "Options") && write == nil {
							write, writeFn = as, core.FuncName(fd)
						}
					}
				}
				return true
			})
		}
		key := fmt.Sprintf("%s.New|options written through after construction are the renderer's own copy", strings.TrimPrefix(rel, "renderers/"))
		if write == nil {
			r.OK("E7.options-copied", key, c.Pos(newFd.Pos()), "nothing in the package stores through an *Options")
			continue
		}
		n++
		r.Func(rel + ".New")
		isP := func(e ast.Expr) bool {
			id, ok := core.Unparen(e).(*ast.Ident)
			return ok && core.ObjOf(info, id) == po
		}
		// reads of the parameter other than nil tests and `*opts`
		usesP := func(nd ast.Node) token.Pos {
			var at token.Pos
			var visit func(nd ast.Node)
			visit = func(nd ast.Node) {
				ast.Inspect(nd, func(q ast.Node) bool {
					if at != token.NoPos {
						return false
					}
					switch x := q.(type) {
					case *ast.BinaryExpr:
						if (x.Op == token.EQL || x.Op == token.NEQ) && (isP(x.X) || isP(x.Y)) {
							return false
						}
					case *ast.StarExpr:
						if isP(x.X) {
							return false
						}
					case *ast.Ident:
						if core.ObjOf(info, x) == po {
							at = x.Pos()
						}
					}
					return true
				})
			}
			visit(nd)
			return at
		}
		var bad token.Pos
		var walk func(list []ast.Stmt, fresh bool) bool
		walk = func(list []ast.Stmt, fresh bool) bool {
			for _, st := range list {
				if fresh || bad != token.NoPos {
					return fresh
				}
				switch x := st.(type) {
				case *ast.AssignStmt:
					if len(x.Lhs) == 1 && len(x.Rhs) == 1 && isP(x.Lhs[0]) && x.Tok == token.ASSIGN {
						if u, ok := core.Unparen(x.Rhs[0]).(*ast.UnaryExpr); ok && u.Op == token.AND {
							if id, ok := core.Unparen(u.X).(*ast.Ident); ok {
								if v, ok := core.ObjOf(info, id).(*types.Var); ok && v.Parent() != p.Types.Scope() && v != po {
									fresh = true
									continue
								}
							}
						}
					}
					if at := usesP(x); at != token.NoPos {
						bad = at
					}
				case *ast.IfStmt:
					if at := usesP(x.Cond); at != token.NoPos {
						bad = at
						return false
					}
					a := walk(x.Body.List, fresh)
					b := fresh
					switch e := x.Else.(type) {
					case *ast.BlockStmt:
						b = walk(e.List, fresh)
					case *ast.IfStmt:
						b = walk([]ast.Stmt{e}, fresh)
					}
					fresh = a && b
				default:
					if at := usesP(st); at != token.NoPos {
						bad = at
					}
				}
			}
			return fresh
		}
		fresh := walk(newFd.Body.List, false)
		switch {
		case bad != token.NoPos:
			r.Fail("E7.options-copied", key, c.Pos(bad), fmt.Sprintf("New uses the caller's *Options here before pointing the parameter at a local copy, and %s stores through the renderer's options (%s): renderers made from one Options value change each other, and doing so concurrently is a data race", writeFn, c.Src(write)))
		case !fresh:
			r.Fail("E7.options-copied", key, c.Pos(newFd.Pos()), fmt.Sprintf("New never points the parameter at a local copy, and %s stores through the renderer's options (%s)", writeFn, c.Src(write)))
		default:
			r.OK("E7.options-copied", key, c.Pos(newFd.Pos()), "copied on every path; written by "+writeFn)
		}
	}
	r.Count("E7.renderers-writing-options", n)
	r.Floor("E7.renderers-writing-options", 2)
}
