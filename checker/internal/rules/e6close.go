package rules

// E6.implicit-close — typestate of the scanx scanner in Path.ToScanxScanner.
//
// scanx.Scanner does not close contours: Start only moves the pen. A filled open sub-path therefore
// needs an explicit line back to its first point before the next Start and at the end (PDF, SVG and
// PostScript fill open sub-paths as if closed, and so do Path.Contains/Filling). The rule partially
// evaluates the loop body once per command kind over the finite state (values of the boolean
// locals × "the scanner holds an open contour") to a fixpoint and checks the two obligations.

import (
	"fmt"
	"go/ast"
	"go/token"
	"go/types"
	"sort"
	"strings"

	"canvascheck/internal/core"
)

type icState struct {
	flags string // sorted "name=T;name=F" over bool locals (by declaration order index)
	open  bool   // the scanner holds a contour with segments that is not closed back to its first point
	stale bool   // the remembered first point was overwritten while the scanner still held the open contour it belonged to
}

type icInterp struct {
	c       *core.Ctx
	info    *types.Info
	cmdObj  types.Object
	cmd     string // command constant the body is evaluated for
	bools   []types.Object
	first   map[types.Object]bool // Point locals assigned from the MoveTo record: the sub-path's first point
	rasObj  types.Object
	inClose bool // evaluating the CloseCmd case
	viol    map[string]token.Pos
}

func (it *icInterp) get(s icState, o types.Object) (bool, bool) {
	for i, b := range it.bools {
		if b == o {
			v := strings.Split(s.flags, ";")[i]
			return v == "T", v != "?"
		}
	}
	return false, false
}

func (it *icInterp) set(s icState, o types.Object, v string) icState {
	parts := strings.Split(s.flags, ";")
	for i, b := range it.bools {
		if b == o {
			parts[i] = v
		}
	}
	s.flags = strings.Join(parts, ";")
	return s
}

// cond evaluates a condition: 1 true, 0 false, -1 unknown
func (it *icInterp) cond(e ast.Expr, s icState) int {
	e = core.Unparen(e)
	switch x := e.(type) {
	case *ast.Ident:
		if x.Name == "true" {
			return 1
		}
		if x.Name == "false" {
			return 0
		}
		if v, known := it.get(s, core.ObjOf(it.info, x)); known {
			if v {
				return 1
			}
			return 0
		}
	case *ast.UnaryExpr:
		if x.Op == token.NOT {
			if v := it.cond(x.X, s); v >= 0 {
				return 1 - v
			}
		}
	case *ast.BinaryExpr:
		switch x.Op {
		case token.LAND:
			a, b := it.cond(x.X, s), it.cond(x.Y, s)
			if a == 0 || b == 0 {
				return 0
			}
			if a == 1 && b == 1 {
				return 1
			}
		case token.LOR:
			a, b := it.cond(x.X, s), it.cond(x.Y, s)
			if a == 1 || b == 1 {
				return 1
			}
			if a == 0 && b == 0 {
				return 0
			}
		case token.EQL, token.NEQ:
			id, _ := core.Unparen(x.X).(*ast.Ident)
			cn := core.ConstName(it.info, x.Y)
			if id == nil {
				id, _ = core.Unparen(x.Y).(*ast.Ident)
				cn = core.ConstName(it.info, x.X)
			}
			if id != nil && core.ObjOf(it.info, id) == it.cmdObj && cn != "" {
				eq := cn == it.cmd
				if (x.Op == token.EQL) == eq {
					return 1
				}
				return 0
			}
		}
	}
	return -1
}

func (it *icInterp) mentionsFirst(e ast.Expr) bool {
	found := false
	ast.Inspect(e, func(n ast.Node) bool {
		if id, ok := n.(*ast.Ident); ok && it.first[core.ObjOf(it.info, id)] {
			found = true
		}
		return true
	})
	return found
}

func (it *icInterp) call(call *ast.CallExpr, s icState) icState {
	sel, ok := call.Fun.(*ast.SelectorExpr)
	if !ok {
		return s
	}
	id, ok := core.Unparen(sel.X).(*ast.Ident)
	if !ok || core.ObjOf(it.info, id) != it.rasObj {
		return s
	}
	switch sel.Sel.Name {
	case "Start":
		if s.open {
			it.viol["a new contour is started (Start) while the previous sub-path is open: scanx does not close contours, the open sub-path is filled wrongly or not at all"] = call.Pos()
		}
		s.open = false
		s.stale = false
	case "Line":
		if len(call.Args) == 1 && it.mentionsFirst(call.Args[0]) && s.stale && s.open && !it.inClose {
			it.viol["the line that should close the open sub-path goes to a remembered first point that was already overwritten with the start of the next sub-path: the contour stays open and leaks paint outside the filled region"] = call.Pos()
			s.open = true
		} else if len(call.Args) == 1 && (it.mentionsFirst(call.Args[0]) || it.inClose) {
			s.open = false // a line back to the sub-path's first point (the close record carries it)
		} else {
			s.open = true
		}
	}
	return s
}

func (it *icInterp) stmts(list []ast.Stmt, in map[icState]bool) map[icState]bool {
	cur := in
	for _, st := range list {
		cur = it.stmt(st, cur)
	}
	return cur
}

func (it *icInterp) stmt(st ast.Stmt, in map[icState]bool) map[icState]bool {
	out := map[icState]bool{}
	switch x := st.(type) {
	case *ast.BlockStmt:
		return it.stmts(x.List, in)
	case *ast.ExprStmt:
		for s := range in {
			if call, ok := x.X.(*ast.CallExpr); ok {
				s = it.call(call, s)
			}
			out[s] = true
		}
		return out
	case *ast.AssignStmt:
		for s := range in {
			if len(x.Lhs) == len(x.Rhs) {
				for i, l := range x.Lhs {
					if id, ok := l.(*ast.Ident); ok {
						o := core.ObjOf(it.info, id)
						if it.first[o] {
							s.stale = s.open // overwritten while the contour it belongs to is still open
						}
						if _, isBool := it.get(it.set(s, o, "T"), o); isBool {
							switch it.cond(x.Rhs[i], s) {
							case 1:
								s = it.set(s, o, "T")
							case 0:
								s = it.set(s, o, "F")
							default:
								s = it.set(s, o, "?")
							}
						}
					}
				}
			}
			out[s] = true
		}
		return out
	case *ast.IfStmt:
		if x.Init != nil {
			in = it.stmt(x.Init, in)
		}
		for s := range in {
			one := map[icState]bool{s: true}
			v := it.cond(x.Cond, s)
			if v != 0 {
				for t := range it.stmt(x.Body, one) {
					out[t] = true
				}
			}
			if v != 1 {
				if x.Else != nil {
					for t := range it.stmt(x.Else, one) {
						out[t] = true
					}
				} else {
					out[s] = true
				}
			}
		}
		return out
	case *ast.SwitchStmt:
		if id, ok := core.Unparen(x.Tag).(*ast.Ident); ok && x.Tag != nil && core.ObjOf(it.info, id) == it.cmdObj {
			var def *ast.CaseClause
			for _, cs := range x.Body.List {
				cc := cs.(*ast.CaseClause)
				if cc.List == nil {
					def = cc
				}
				for _, k := range core.CaseConsts(it.info, cc) {
					if k == it.cmd {
						saved := it.inClose
						it.inClose = it.cmd == "CloseCmd"
						res := it.stmts(cc.Body, in)
						it.inClose = saved
						return res
					}
				}
			}
			if def != nil {
				return it.stmts(def.Body, in)
			}
			return in
		}
		// other switches: every case may run
		for s := range in {
			out[s] = true
		}
		for _, cs := range x.Body.List {
			for t := range it.stmts(cs.(*ast.CaseClause).Body, in) {
				out[t] = true
			}
		}
		return out
	case *ast.ForStmt:
		// inner loops (flattened segments): zero or more iterations
		cur := in
		for k := 0; k < 4; k++ {
			next := map[icState]bool{}
			for s := range cur {
				next[s] = true
			}
			for s := range it.stmt(x.Body, cur) {
				next[s] = true
			}
			if len(next) == len(cur) {
				break
			}
			cur = next
		}
		return cur
	case *ast.DeclStmt, *ast.IncDecStmt:
		return in
	}
	return in
}

// E6ImplicitClose decides the scanner typestate of Path.ToScanxScanner.
func E6ImplicitClose(c *core.Ctx, r *core.Report) {
	r.Rule("E6.implicit-close", "Path.ToScanxScanner (the converter the rasterizer fills with): scanx.Scanner never closes a contour itself, so on every sequence of path commands a sub-path that has segments and was not closed is closed by an explicit Line to its first point before the next Start and before the function returns. Decided by partial evaluation of the command loop per command kind over the finite state (boolean locals × scanner holds an open contour) to a fixpoint. Open sub-paths are filled as if closed by the PDF, SVG and PostScript output and by Path.Contains/Filling; without the closing line the rasterizer paints nothing for them")
	p := c.MustPkg("")
	info := p.TypesInfo
	fd := core.MustFuncDecl(p, "Path.ToScanxScanner")
	r.Func("canvas.Path.ToScanxScanner")
	it := &icInterp{c: c, info: info, first: map[types.Object]bool{}, viol: map[string]token.Pos{}}
	it.rasObj = paramObj(info, fd, 0)
	// the command loop and the cmd variable
	var loop *ast.ForStmt
	var post []ast.Stmt
	for i, st := range fd.Body.List {
		if fs, ok := st.(*ast.ForStmt); ok && loop == nil {
			ast.Inspect(fs.Body, func(n ast.Node) bool {
				if as, ok := n.(*ast.AssignStmt); ok && as.Tok == token.DEFINE && len(as.Lhs) == 1 && len(as.Rhs) == 1 {
					if ie, _, ok := dataIndex(info, core.Unparen(as.Rhs[0])); ok && it.cmdObj == nil {
						if _, isId := core.Unparen(ie.Index).(*ast.Ident); isId {
							it.cmdObj = core.ObjOf(info, as.Lhs[0].(*ast.Ident))
						}
					}
				}
				return true
			})
			if it.cmdObj != nil {
				loop = fs
				post = fd.Body.List[i+1:]
			}
		}
	}
	if loop == nil {
		panic(core.Infra("E6.implicit-close: command loop of ToScanxScanner not found"))
	}
	// bool locals and first-point locals
	ast.Inspect(fd.Body, func(n ast.Node) bool {
		switch x := n.(type) {
		case *ast.AssignStmt:
			for i, l := range x.Lhs {
				id, ok := l.(*ast.Ident)
				if !ok {
					continue
				}
				o := core.ObjOf(info, id)
				if o == nil {
					continue
				}
				if b, ok := o.Type().Underlying().(*types.Basic); ok && b.Kind() == types.Bool && x.Tok == token.DEFINE {
					it.bools = append(it.bools, o)
				}
				if len(x.Lhs) == len(x.Rhs) && (inCaseOf(info, fd, x, "MoveToCmd") || underCmdEq(info, fd, x, it.cmdObj, "MoveToCmd")) {
					// a local assigned, for a MoveTo, from both coordinates of its record (A.d[i+1], A.d[i+2]) —
					// as a Point or already converted to the scanner's fixed-point pixels
					seen := map[int]bool{}
					ast.Inspect(x.Rhs[i], func(k ast.Node) bool {
						if e, ok := k.(ast.Expr); ok {
							if ie, _, ok1 := dataIndex(info, core.Unparen(e)); ok1 {
								if _, kk, ok := linForm(info, ie.Index); ok {
									seen[kk] = true
								}
							}
						}
						return true
					})
					if seen[1] && seen[2] {
						if _, isBasic := o.Type().Underlying().(*types.Basic); !isBasic {
							it.first[o] = true
						}
					}
				}
			}
		case *ast.ValueSpec:
			for _, nm := range x.Names {
				if o := info.Defs[nm]; o != nil {
					if b, ok := o.Type().Underlying().(*types.Basic); ok && b.Kind() == types.Bool {
						it.bools = append(it.bools, o)
					}
				}
			}
		}
		return true
	})
	// initial state: statements before the loop
	flags := make([]string, len(it.bools))
	for i := range flags {
		flags[i] = "F"
	}
	init := map[icState]bool{{flags: strings.Join(flags, ";")}: true}
	for _, st := range fd.Body.List {
		if st == ast.Stmt(loop) {
			break
		}
		init = it.stmt(st, init)
	}
	// fixpoint over the command loop
	cmds := []string{"MoveToCmd", "LineToCmd", "QuadToCmd", "CubeToCmd", "ArcToCmd", "CloseCmd"}
	all := map[icState]bool{}
	for s := range init {
		all[s] = true
	}
	for round := 0; round < 20; round++ {
		n := len(all)
		cur := map[icState]bool{}
		for s := range all {
			cur[s] = true
		}
		for _, k := range cmds {
			it.cmd = k
			for s := range it.stmt(loop.Body, cur) {
				all[s] = true
			}
		}
		if len(all) == n {
			break
		}
	}
	it.cmd = ""
	exit := it.stmts(post, all)
	openAtExit := false
	for s := range exit {
		if s.open {
			openAtExit = true
		}
	}
	r.Count("E6.implicit-close-states", len(all))
	r.Floor("E6.implicit-close-states", 2)
	var vs []string
	for v := range it.viol {
		vs = append(vs, v)
	}
	sort.Strings(vs)
	if len(vs) == 0 {
		r.OK("E6.implicit-close", "canvas.Path.ToScanxScanner|open sub-path closed before the next Start", c.Pos(loop.Pos()), fmt.Sprintf("%d reachable states", len(all)))
	} else {
		r.Fail("E6.implicit-close", "canvas.Path.ToScanxScanner|open sub-path closed before the next Start", c.Pos(it.viol[vs[len(vs)-1]]), strings.Join(vs, " | "))
	}
	if !openAtExit {
		r.OK("E6.implicit-close", "canvas.Path.ToScanxScanner|open sub-path closed at the end", c.Pos(fd.End()), "")
	} else {
		r.Fail("E6.implicit-close", "canvas.Path.ToScanxScanner|open sub-path closed at the end", c.Pos(fd.End()), "the function can return while the scanner holds an open contour: the last sub-path, if not closed by the path itself, is not closed back to its first point and the rasterizer fills nothing for it")
	}
}

// underCmdEq reports whether node n lies in the body of an `if` whose condition is exactly `cmd == K`.
func underCmdEq(info *types.Info, fd *ast.FuncDecl, n ast.Node, cmdObj types.Object, k string) bool {
	found := false
	ast.Inspect(fd.Body, func(m ast.Node) bool {
		is, ok := m.(*ast.IfStmt)
		if !ok || !(is.Body.Pos() <= n.Pos() && n.End() <= is.Body.End()) {
			return true
		}
		if be, ok := core.Unparen(is.Cond).(*ast.BinaryExpr); ok && be.Op == token.EQL {
			if id, ok := core.Unparen(be.X).(*ast.Ident); ok && core.ObjOf(info, id) == cmdObj && core.ConstName(info, be.Y) == k {
				found = true
			}
		}
		return true
	})
	return found
}

// inCaseOf reports whether node n lies inside a `case K` clause (of any switch) in fd.
func inCaseOf(info *types.Info, fd *ast.FuncDecl, n ast.Node, k string) bool {
	found := false
	ast.Inspect(fd.Body, func(m ast.Node) bool {
		cc, ok := m.(*ast.CaseClause)
		if !ok {
			return true
		}
		is := false
		for _, name := range core.CaseConsts(info, cc) {
			if name == k {
				is = true
			}
		}
		if is && cc.Pos() <= n.Pos() && n.End() <= cc.End() {
			found = true
		}
		return true
	})
	return found
}

// E11SubpathFlag: a flag raised by a Close command is lowered again when the next sub-path begins.
func E11SubpathFlag(c *core.Ctx, r *core.Report) {
	r.Rule("E11.subpath-flag", "in a loop over the commands of a path, a boolean local that the CloseCmd case sets to true describes the sub-path being processed; on every path through the MoveToCmd case (the boundary to the next sub-path, in either scan direction) it is false afterwards. Decided by evaluating the MoveToCmd case from both values of the flag. A flag that stays raised makes the next sub-path be treated as closed: Reverse then replaces a line of an open sub-path by a Close")
	p := c.MustPkg("")
	info := p.TypesInfo
	n := 0
	for _, fd := range core.AllFuncDecls(p) {
		if fd.Body == nil || strings.HasSuffix(c.Fset.Position(fd.Pos()).Filename, "_test.go") {
			continue
		}
		fname := "canvas." + core.FuncName(fd)
		ast.Inspect(fd.Body, func(m ast.Node) bool {
			loop, ok := m.(*ast.ForStmt)
			if !ok {
				return true
			}
			var sw *ast.SwitchStmt
			for _, st := range loop.Body.List {
				if s, ok := st.(*ast.SwitchStmt); ok && s.Tag != nil {
					sw = s
				}
			}
			if sw == nil {
				return true
			}
			tag, ok := core.Unparen(sw.Tag).(*ast.Ident)
			if !ok {
				return true
			}
			var closeCase, moveCase *ast.CaseClause
			for _, cs := range sw.Body.List {
				cc := cs.(*ast.CaseClause)
				ks := core.CaseConsts(info, cc)
				if len(ks) == 1 && ks[0] == "CloseCmd" {
					closeCase = cc
				}
				if len(ks) == 1 && ks[0] == "MoveToCmd" {
					moveCase = cc
				}
			}
			if closeCase == nil {
				return true
			}
			// flags: bool locals assigned the constant true at the top level of the Close case
			var flags []types.Object
			for _, st := range closeCase.Body {
				if as, ok := st.(*ast.AssignStmt); ok && as.Tok == token.ASSIGN && len(as.Lhs) == 1 && len(as.Rhs) == 1 {
					if rid, ok := as.Rhs[0].(*ast.Ident); ok && rid.Name == "true" {
						if id, ok := as.Lhs[0].(*ast.Ident); ok {
							if o := core.ObjOf(info, id); o != nil && o.Pos() < loop.Pos() {
								flags = append(flags, o)
							}
						}
					}
				}
			}
			for _, fl := range flags {
				// only flags the loop itself consults: a flag read only after the loop describes the last
				// sub-path (Path.offset works on one sub-path at a time)
				readInLoop := false
				ast.Inspect(loop.Body, func(k ast.Node) bool {
					switch x := k.(type) {
					case *ast.IfStmt:
						ast.Inspect(x.Cond, func(q ast.Node) bool {
							if id, ok := q.(*ast.Ident); ok && core.ObjOf(info, id) == fl {
								readInLoop = true
							}
							return true
						})
					}
					return true
				})
				if !readInLoop {
					continue
				}
				n++
				key := fmt.Sprintf("%s|flag raised by Close is lowered at MoveTo", fname)
				if moveCase == nil {
					r.Fail("E11.subpath-flag", key, c.Pos(sw.Pos()), fmt.Sprintf("`%s` is set by the Close case but the command switch has no MoveTo case that could lower it", fl.Name()))
					continue
				}
				it := &icInterp{c: c, info: info, first: map[types.Object]bool{}, viol: map[string]token.Pos{}, bools: []types.Object{fl}, cmdObj: core.ObjOf(info, tag), cmd: "MoveToCmd"}
				out := it.stmts(moveCase.Body, map[icState]bool{{flags: "T"}: true, {flags: "F"}: true})
				stays := false
				for s := range out {
					if s.flags != "F" {
						stays = true
					}
				}
				if stays {
					r.Fail("E11.subpath-flag", key, c.Pos(moveCase.Pos()), fmt.Sprintf("`%s` can still be true (or unknown) after the MoveTo case: the sub-path that follows in scan order is handled as if it had been closed", fl.Name()))
				} else {
					r.OK("E11.subpath-flag", key, c.Pos(moveCase.Pos()), "")
				}
			}
			return true
		})
	}
	r.Count("E11.subpath-flags", n)
	r.Floor("E11.subpath-flags", 1)
}
