package rules

func runMutant(args []string) int { return 2 }
