package rules

import (
	"encoding/json"
	"fmt"
	"os"
	"os/exec"
	"path/filepath"
	"regexp"
	"sort"
	"strings"
	"sync"

	"canvascheck/internal/core"
)

// Checker self-validation (thorough tier): every mutant below is derived from the CURRENT source
// by a pattern (never by position), supplied to the loader through an Overlay (nothing is
// written to /repo), and must make the named rule fire. A mutant whose pattern no longer
// matches exactly once, or that no longer type-checks, is reported as stale, not as killed.

type Mutant struct {
	Name   string
	File   string // relative to the repository
	From   string // regular expression, must match exactly once
	To     string
	Expect string // substring of the rule id that must report
}

var Mutants = map[string][]Mutant{
	"C01": {
		{"upward scan of a tolerance square leaves Lower unset", "path_intersection.go", `(\t\t\t\t\tsquare\.Upper = next\n)\t\t\t\t\tif square\.Lower == nil \{\n(?:\t\t\t\t\t\t[^\n]*\n)+?\t\t\t\t\t\}\n`, "${1}", "E9.square-range-both-ends"},
		{"status Remove rebalances once instead of every ancestor", "path_intersection.go", `for ; ancestor != nil; ancestor = ancestor\.parent \{`, "if ancestor != nil {", "E9.moved-node-height"},
		{"Reverse flips the direction flag of the receiver only", "path_intersection.go", `s\.increasing, s\.other\.increasing = !s\.increasing, !s\.other\.increasing`, "s.increasing, s.other.increasing = !s.increasing, s.increasing", "E9.endpoint-pair"},
		{"extra contours of a clipping element appended to the subject list", "path_intersection.go", `(\t\t\t\tqs\[i\] = split\[0\]\n\t\t\t\t)qs = append\(qs, split\[1:\]\.\.\.\)`, "${1}ps = append(ps, split[1:]...)", "E9.operand-lists-separate"},
		{"depth plus one computed before the depth is read", "path_intersection.go", `(?s)(\t\t\twindings := 0\n)(\t\t\tprev := cur\.prev\n.*?)\t\t\tcur\.resultWindings = windings\n\t\t\tif !first\.open \{\n\t\t\t\t// we go to the right/top\n\t\t\t\tcur\.resultWindings\+\+\n\t\t\t\}\n`, "${1}\t\t\tabove := windings\n\t\t\tif !cur.open {\n\t\t\t\tabove++\n\t\t\t}\n${2}\t\t\tcur.resultWindings = above\n", "E9.depth-derived-after-read"},
		{"neighbours of a leaving segment tested only across operands", "path_intersection.go", `(next := n\.Next\(\)\n\t\t\t\tif prev != nil && next != nil) \{`, "$1 && (op == opSettle || prev.clipping != next.clipping) {", "E9.adjacent-always-tested"},
		{"windings not inherited above an open segment", "path_intersection.go", `(// compute windings\n\tif prev != nil) \{`, "$1 && !prev.open {", "E9.winding-inherited"},
		{"second half of a split segment keeps the status node", "path_intersection.go", `\tl\.node = nil\n`, "", "E9.copy-drops-status-node"},
		{"upper-neighbour check overwrites the re-sort flag", "path_intersection.go", `has = has \|\| addIntersections\(zs, queue, centre, square\.Upper, next\)`, "has = addIntersections(zs, queue, centre, square.Upper, next)", "E11.sticky-flag"},
		{"clipping contour registered unclosed", "path_intersection.go", `qSeg = queue\.AddPathEndpoints\(q, qSeg, true\)`, "qSeg = queue.AddPathEndpoints(qs[i], qSeg, true)", "E9.clip-closed"},
		{"absorbed segment keeps the other path's windings (same path)", "path_intersection.go", `\t\t\ts\.selfWindings \+= prev\.selfWindings\n\t\t\ts\.otherSelfWindings \+= prev\.otherSelfWindings\n`, "\t\t\ts.selfWindings += prev.selfWindings\n", "E9.absorb-conserves"},
		{"absorbed segment handed over straight across paths", "path_intersection.go", `\t\t\ts\.selfWindings \+= prev\.otherSelfWindings\n\t\t\ts\.otherSelfWindings \+= prev\.selfWindings\n`, "\t\t\ts.selfWindings += prev.selfWindings\n\t\t\ts.otherSelfWindings += prev.otherSelfWindings\n", "E9.absorb-conserves"},
		{"islands reversed like holes", "path_intersection.go", `if windings%2 != 0 \{`, "if 0 < windings {", "E9.hole-parity"},
		{"result windings copied to the other end point only when incremented", "path_intersection.go", `\t\t\t\t\tcur\.resultWindings\+\+\n\t\t\t\t\}\n\t\t\t\tcur\.other\.resultWindings = cur\.resultWindings\n\t\t\t\tcur\.other\.inResult--`, "\t\t\t\t\tcur.resultWindings++\n\t\t\t\t\tcur.other.resultWindings = cur.resultWindings\n\t\t\t\t}\n\t\t\t\tcur.other.inResult--", "E9.windings-sync"},
		{"merged segment keeps its link to an absorbed segment", "path_intersection.go", `\ts\.other\.inResult = s\.inResult\n\ts\.prev = prev\n`, "\ts.other.inResult = s.inResult\n", "E9.absorbed-link"},
		{"disjoint-P shortcut forgets NOT", "path_intersection.go", `op == opOR \|\| op == opXOR \|\| op == opNOT \|\| op == opDIV`, `op == opOR || op == opXOR || op == opDIV`, "E9.shortcut"},
		{"And membership uses ||", "path_intersection.go", `belowFills = fillRule\.Fills\(lowerWindings\) && fillRule\.Fills\(lowerOtherWindings\)`, `belowFills = fillRule.Fills(lowerWindings) || fillRule.Fills(lowerOtherWindings)`, "E9.membership"},
		{"Path.Xor passes opOR", "path_intersection.go", `return bentleyOttmann\(p\.Split\(\), q\.Split\(\), opXOR, NonZero\)`, `return bentleyOttmann(p.Split(), q.Split(), opOR, NonZero)`, "E9.wrapper"},
		{"empty Q returns P for And", "path_intersection.go", `if op == opAND \{\n\t\t\treturn &Path\{\}\n\t\t\}\n\t\treturn ps\.Settle\(fillRule\)`, `return ps.Settle(fillRule)`, "E9.shortcut"},
	},
	"C02": {
		{"contour builder selects the next edge by the static result flag (seed C02l)", "path_intersection.go", `\} else if 0 < nodes\[i\]\.inResult && nodes\[i\]\.open == first\.open \{`, "} else if nodes[i].resultEdge && nodes[i].open == first.open {", "E9.stitch-selects-unconsumed"},
		{"upward scan of a tolerance square leaves Lower unset", "path_intersection.go", `(\t\t\t\t\tsquare\.Upper = next\n)\t\t\t\t\tif square\.Lower == nil \{\n(?:\t\t\t\t\t\t[^\n]*\n)+?\t\t\t\t\t\}\n`, "${1}", "E9.square-range-both-ends"},
		{"status Remove rebalances once instead of every ancestor", "path_intersection.go", `for ; ancestor != nil; ancestor = ancestor\.parent \{`, "if ancestor != nil {", "E9.moved-node-height"},
		{"result windings copied to the other end point for left-to-right edges only", "path_intersection.go", `(?s)(\t\t\t\tif cur\.left && !first\.open \{\n\t\t\t\t\t// we go to the right/top\n\t\t\t\t\tcur\.resultWindings\+\+\n)(\t\t\t\t\}\n)\t\t\t\tcur\.other\.resultWindings = cur\.resultWindings\n`, "${1}\t\t\t\t\tcur.other.resultWindings = cur.resultWindings\n${2}", "E9.windings-sync"},
		{"depth plus one computed before the depth is read", "path_intersection.go", `(?s)(\t\t\twindings := 0\n)(\t\t\tprev := cur\.prev\n.*?)\t\t\tcur\.resultWindings = windings\n\t\t\tif !first\.open \{\n\t\t\t\t// we go to the right/top\n\t\t\t\tcur\.resultWindings\+\+\n\t\t\t\}\n`, "${1}\t\t\tabove := windings\n\t\t\tif !cur.open {\n\t\t\t\tabove++\n\t\t\t}\n${2}\t\t\tcur.resultWindings = above\n", "E9.depth-derived-after-read"},
		{"neighbours of a leaving segment tested only across operands", "path_intersection.go", `(next := n\.Next\(\)\n\t\t\t\tif prev != nil && next != nil) \{`, "$1 && (op == opSettle || prev.clipping != next.clipping) {", "E9.adjacent-always-tested"},
		{"windings not inherited above an open segment", "path_intersection.go", `(// compute windings\n\tif prev != nil) \{`, "$1 && !prev.open {", "E9.winding-inherited"},
		{"depth of a contour read from an open segment below (reverts fix 8b3acb0)", "path_intersection.go", `for prev != nil && \(!prev\.resultEdge \|\| prev\.open\) \{`, "for prev != nil && !prev.resultEdge {", "E9.depth-from-result-edge"},
		{"Reverse flips the direction flag of the receiver only", "path_intersection.go", `s\.increasing, s\.other\.increasing = !s\.increasing, !s\.other\.increasing`, "s.increasing, s.other.increasing = !s.increasing, s.increasing", "E9.endpoint-pair"},
		{"new segment's end points disagree on the direction flag", "path_intersection.go", `(?s)(left:       !increasing,\n\t\t\t)increasing: increasing,`, "${1}increasing: !increasing,", "E9.endpoint-pair"},
		{"operand sub-paths expanded in place over the tail", "path_intersection.go", `(?s)for i, iMax := 0, len\(ps\); i < iMax; i\+\+ \{\n\t\tsplit := ps\[i\]\.Split\(\)\n\t\tif 1 < len\(split\) \{\n\t\t\tps\[i\] = split\[0\]\n\t\t\tps = append\(ps, split\[1:\]\.\.\.\)\n`, "for i := 0; i < len(ps); i++ {\n\t\tsplit := ps[i].Split()\n\t\tif 1 < len(split) {\n\t\t\tps = append(append(ps[:i], split...), ps[i+1:]...)\n\t\t\ti += len(split) - 1\n", "E4.insert-alias"},
		{"tolerance square range starts at the reference node below", "path_intersection.go", `// this is set if the reference node is below the square\n\t\t\t\t\t\tsquare\.Lower = next\n`, "// this is set if the reference node is below the square\n\t\t\t\t\t\tsquare.Lower = square.Node\n", "E9.square-range"},
		{"contour depth read from the segment directly below", "path_intersection.go", `(?s)\t\t\tfor prev != nil && \(!prev\.resultEdge \|\| prev\.open\) \{\n.*?\n\t\t\t\tprev = prev\.prev\n\t\t\t\}\n`, "", "E9.depth-from-result-edge"},
		{"result-edge flag taken after inResult is consumed", "path_intersection.go", `\t\t\tevent\.resultEdge = 0 < event\.inResult\n`, "\t\t\tevent.resultEdge = event.left\n", "E9.depth-from-result-edge"},
		{"islands reversed like holes", "path_intersection.go", `if windings%2 != 0 \{`, "if 0 < windings {", "E9.hole-parity"},
		{"result windings copied to the other end point only when incremented", "path_intersection.go", `\t\t\t\t\tcur\.resultWindings\+\+\n\t\t\t\t\}\n\t\t\t\tcur\.other\.resultWindings = cur\.resultWindings\n\t\t\t\tcur\.other\.inResult--`, "\t\t\t\t\tcur.resultWindings++\n\t\t\t\t\tcur.other.resultWindings = cur.resultWindings\n\t\t\t\t}\n\t\t\t\tcur.other.inResult--", "E9.windings-sync"},
		{"merged segment keeps its link to an absorbed segment", "path_intersection.go", `\ts\.other\.inResult = s\.inResult\n\ts\.prev = prev\n`, "\ts.other.inResult = s.inResult\n", "E9.absorbed-link"},
		{"Negative rule includes zero", "path.go", `return windings < 0`, `return windings <= 0`, "E9.fills"},
		{"EvenOdd tests == 1", "path.go", `return windings%2 != 0`, `return windings%2 == 1`, "E9.fills"},
		{"Paths.Settle ignores its rule", "path_intersection.go", `return bentleyOttmann\(ps, nil, opSettle, fillRule\)`, `return bentleyOttmann(ps, nil, opSettle, NonZero)`, "E9.wrapper"},
	},
	"C03": {
		{"Join takes the close point before replaying the first command", "path.go", `(\td := q\.d\[cmdLen\(MoveToCmd\):\]\n)((?:.*\n)*?)(\ti := len\(p\.d\)\n)\tend := p\.StartPos\(\)\n`, "${1}\tend := p.StartPos()\n${2}${3}", "E11.stale-after-builder"},
		{"closed-loop quadratic flattened to its start point", "path_util.go", `(?s)if chord\.Dot\(chord\) == 0\.0 \{.*?\} else if a := `, "if a := ", "E10.flat-rest-turning-point"},
		{"flat rest of a quadratic emitted as its chord alone", "path_util.go", `(?s)(\t\tif t >= 1\.0 \{\n)\t\t\t// the rest is flat, but a control point.*?(\t\t\tbreak\n\t\t\}\n\n\t\t_, _, _, p0, p1, p2 = quadraticBezierSplit)`, "${1}${2}", "E10.flat-rest-turning-point"},
		{"position of the rest not clamped after the join (reverts fix ff037ad)", "path.go", `(?s)(\t\t\tp = p\.Join\(r\) // join the rest of the base path\n)\t\t\tif len\(p\.d\) < i \{\n[^\n]*\n\t\t\t\ti = len\(p\.d\)\n\t\t\t\}\n`, "$1", "E11.cursor-revalidated-after-join"},
		{"circular arcs collapse to the chord when its sagitta is within tolerance", "path_util.go", `(?s)(func flattenEllipticArc\(.*?\t\tr := rx\n)`, "${1}\t\tif chord := end.Sub(start).Length(); r-math.Sqrt(math.Max(0.0, r*r-chord*chord/4.0)) <= tolerance {\n\t\t\tq := &Path{}\n\t\t\tq.MoveTo(start.X, start.Y)\n\t\t\tq.LineTo(end.X, end.Y)\n\t\t\treturn q\n\t\t}\n", "E11.arc-flag-consulted"},
		{"non-circular arcs flattened with the package default tolerance", "path_util.go", `arcToCube\(start, rx, ry, phi, large, sweep, end\)\.Flatten\(tolerance\)`, "arcToCube(start, rx, ry, phi, large, sweep, end).Flatten(Tolerance)", "E11.tolerance-threaded"},
		{"control-point factor of the maximal piece angle", "path_util.go", `(?s)(func ellipseToCubicBeziers\(.*?\tdtheta := math\.Pi / 2\.0 // TODO[^\n]*\n\tn := int\(math\.Ceil\(math\.Abs\(theta1-theta0\) / dtheta\)\)\n)(\tdtheta = math\.Abs\(theta1-theta0\) / float64\(n\)[^\n]*\n)(\tkappa := [^\n]*\n)`, "${1}${3}${2}", "E11.factor-from-step"},
		{"quadratic control-point factor of the maximal piece angle", "path_util.go", `(?s)(func ellipseToQuadraticBeziers\(.*?\tn := int\(math\.Ceil\(math\.Abs\(theta1-theta0\) / dtheta\)\)\n)(\tdtheta = math\.Abs\(theta1-theta0\) / float64\(n\)[^\n]*\n)(\tkappa := math\.Tan\(dtheta / 2\.0\)\n)`, "${1}${3}${2}", "E11.factor-from-step"},
		{"second root re-mapped whenever the roots are ordered", "path_util.go", `(?s)\tsplit := false\n(.*?)\t\tsplit = true\n(.*?)\t\tif split \{\n\t\t\tt2 = \(t2 - t1\)`, "${1}${2}\t\tif t1 < t2 {\n\t\t\tt2 = (t2 - t1)", "E11.remap-iff-split"},
		{"circular arc flattener drops the rotation", "path_util.go", `\t\ttheta0 \+= phi\n\t\ttheta1 \+= phi\n\n\t\t// draw line segments from arc\+tolerance`, "\n\t\t// draw line segments from arc+tolerance", "E3.arc-angle-frame"},
		{"arc flattener loses its tolerance clamp", "path_util.go", `\ttolerance = math\.Max\(tolerance, Epsilon\) // a zero tolerance gives an infinite number of segments\n`, "", "E4.step-progress"},
		{"quadratic flattener loses its tolerance clamp", "path_util.go", `(2005,  https://www\.sciencedirect\.com/science/article/pii/S0097849305001287\n)\ttolerance = math\.Max\(tolerance, Epsilon\)[^\n]*\n(\tt := 0\.0\n\tp := &Path\{\}\n\tp\.MoveTo\(p0\.X, p0\.Y\)\n\tfor t < 1\.0 \{\n\t\tD := p1\.Sub\(p0\))`, "${1}${2}", "E4.step-progress"},
		{"cubic stroker loses its tolerance clamp", "path_util.go", `\ttolerance = math\.Max\(tolerance, Epsilon\) // prevent infinite loop if user sets tolerance to zero\n\n`, "\n", "E4.step-progress"},
		{"replace keeps the pen from before the rest is joined back", "path.go", `(?s)\t\t\ti = len\(p\.d\)\n\t\t\tp = p\.Join\(r\) // join the rest of the base path\n(\t\t\tif len\(p\.d\) < i \{\n[^\n]*\n\t\t\t\ti = len\(p\.d\)\n\t\t\t\}\n)\t\t\} else \{\n\t\t\ti \+= cmdLen\(cmd\)\n\t\t\}\n\t\tstart = Point\{p\.d\[i-3\], p\.d\[i-2\]\}\n`, "\t\t\ti = len(p.d)\n\t\t\tstart = end\n\t\t\tp = p.Join(r) // join the rest of the base path\n${1}\t\t} else {\n\t\t\ti += cmdLen(cmd)\n\t\t\tstart = Point{p.d[i-3], p.d[i-2]}\n\t\t}\n", "E2.pen-reread"},
		{"quadratic flattener emits QuadTo", "path_util.go", `_, _, _, p0, p1, p2 = quadraticBezierSplit\(p0, p1, p2, t\)\n\t\tp\.LineTo\(p0\.X, p0\.Y\)`, "_, _, _, p0, p1, p2 = quadraticBezierSplit(p0, p1, p2, t)\n\t\tp.QuadTo(p1.X, p1.Y, p0.X, p0.Y)", "E10.command-set"},
		{"replace does not restart at the remainder", "path.go", `\t\t\ti = len\(p\.d\)\n(\t\t\tp = p\.Join\(r\))`, "$1", "E10.replace-shape"},
		{"sweep input qs not flattened", "path_intersection.go", `\t\tfor i := range qs \{\n\t\t\tqs\[i\] = qs\[i\]\.Flatten\(Tolerance\)\n\t\t\}\n`, ``, "E10.consumer"},
		{"ToPDF forgets ReplaceArcs", "path.go", `\tp = p\.ReplaceArcs\(\)\n\n\tsb := strings\.Builder\{\}\n\tvar x, y float64\n\tfor i := 0; i < len\(p\.d\); \{\n\t\tcmd := p\.d\[i\]\n\t\tswitch cmd \{\n\t\tcase MoveToCmd:\n\t\t\tx, y = p\.d\[i\+1\], p\.d\[i\+2\]\n\t\t\tfmt\.Fprintf\(&sb, " %v %v m"`, "\tsb := strings.Builder{}\n\tvar x, y float64\n\tfor i := 0; i < len(p.d); {\n\t\tcmd := p.d[i]\n\t\tswitch cmd {\n\t\tcase MoveToCmd:\n\t\t\tx, y = p.d[i+1], p.d[i+2]\n\t\t\tfmt.Fprintf(&sb, \" %v %v m\"", "E10.consumer"},
	},
	"C04": {
		{"clockwise miter-clip corner interpolated from the right-hand end point (seed C04m)", "path_stroke.go", `mid1 := lEnd\.Interpolate\(mid, t\)`, "mid1 := rEnd.Interpolate(mid, t)", "E11.joiner-sides-consistent"},
		{"second inflection range ends on the curve, not on the offset", "path_util.go", `(?s)(\tif t2max < 1\.0 \{.*?)addCubicBezierLine\(p, q0, q1, q2, q3, 0\.0, d\)`, "${1}p.LineTo(q0.X, q0.Y)", "E11.offset-vertices-use-offset"},
		{"inner bend steps back by the length of a line", "path_stroke.go", `ai := i - cmdLen\(p\.d\[i-1\]\)`, "ai := i - cmdLen(LineToCmd)", "E2.backward-step-known-kind"},
		{"end normals of a cubic from the raw derivative", "path_stroke.go", `n1 := cubicBezierNormal\(start, cp1, cp2, end, 1\.0, halfWidth\)`, "n1 := cubicBezierDeriv(start, cp1, cp2, end, 1.0).Rot90CW().Norm(halfWidth)", "E11.bezier-normal-helper"},
		{"arcs join passes the first circle's flag form for the second circle", "path_stroke.go", `(\t\tmid = closestArcIntersection\(c1, )0\.0 <= r1(, pivot, i0, i1\))`, "${1}r1 < 0.0${2}", "E11.arc-join-direction-flags"},
		{"last x-monotone arc piece ends at a recomputed position (reverts fix efe7f4b)", "path_util.go", `(?s)\t\tpos := end // [^\n]*\n\t\tif !angleEqual\(t, theta1\) \{\n\t\t\tpos = EllipsePos\(rx, ry, phi, cx, cy, t\)\n\t\t\}\n`, "\t\tpos := EllipsePos(rx, ry, phi, cx, cy, t)\n", "E11.split-keeps-endpoint"},
		{"radius change of an arc declared before the segment loop", "path_stroke.go", `(?s)(\tfor i, cur := range states \{\n)(.*?)\t\t\tdr := halfWidth\n`, "\tdr := halfWidth\n$1$2", "E11.sign-flip-per-iteration"},
		{"non-circular arcs flattened with the package default tolerance", "path_util.go", `arcToCube\(start, rx, ry, phi, large, sweep, end\)\.Flatten\(tolerance\)`, "arcToCube(start, rx, ry, phi, large, sweep, end).Flatten(Tolerance)", "E11.tolerance-threaded"},
		{"inner curve of a clockwise stroke settled non-zero", "path_stroke.go", `q = q\.Append\(rhs\.Settle\(Negative\)\.Reverse\(\)\)`, "q = q.Append(rhs.Settle(NonZero).Reverse())", "E11.stroke-settle-rule"},
		{"miter limit compared with the signed miter length", "path_stroke.go", `limit\*halfWidth < math\.Abs\(d\)`, "limit*halfWidth < d", "E11.signed-magnitude"},
		{"join test compares the end normals of both segments", "path_stroke.go", `if !cur\.n1\.Equals\(next\.n0\) \{`, "if !cur.n1.Equals(next.n1) {", "E11.junction-pairing"},
		{"offset radii passed untested to the radii correction", "path_stroke.go", `\t\t\tif !Equal\(cur\.rx-dr, 0\.0\) && !Equal\(cur\.ry-dr, 0\.0\) \{\n(\t\t\t\tlLambda = [^\n]*\n)\t\t\t\}\n`, "${1}", "E4.radii-nonzero"},
		{"offset keeps the arc rotation in radians", "path_stroke.go", `(?s)rot:    phi \* 180\.0 / math\.Pi,(.*?)cur\.rot\*math\.Pi/180\.0, rEnd\)(.*?)cur\.rot\*math\.Pi/180\.0, lEnd\)`, "rot:    phi,${1}cur.rot, rEnd)${2}cur.rot, lEnd)", "E8.units"},
		{"Offset uses the orientation of the first sub-path", "path_stroke.go", `\t\tif pi\.Closed\(\) && !FastStroke \{\n\t\t\tif pi\.CCW\(\) \{\n\t\t\t\tr = r\.Settle\(Positive\)`, "\t\tif pi.Closed() && !FastStroke {\n\t\t\tif p.CCW() {\n\t\t\t\tr = r.Settle(Positive)", "E11.subpath-loop"},
		{"zero-length Close leaves the sub-path open", "path_stroke.go", `(\t\tcase CloseCmd:\n\t\t\tend = Point\{p\.d\[i\+1\], p\.d\[i\+2\]\}\n)(\t\t\tif !Equal\(start\.X, end\.X\) \|\| !Equal\(start\.Y, end\.Y\) \{)`, "${1}\t\t\tif Equal(start.X, end.X) && Equal(start.Y, end.Y) {\n\t\t\t\tbreak\n\t\t\t}\n${2}", "E11.cap-join"},
		{"Offset caps open paths", "path_stroke.go", `rhs, lhs := pi\.offset\(w, ButtCap, RoundJoin, false, tolerance\)`, `rhs, lhs := pi.offset(w, ButtCap, RoundJoin, true, tolerance)`, "E11.cap-join"},
		{"no wrap-around join", "path_stroke.go", `if i\+1 < len\(states\) \|\| closed \{`, `if i+1 < len(states) {`, "E11.cap-join"},
		{"closed flag also set by MoveTo", "path_stroke.go", `\t\tcase MoveToCmd:\n\t\t\tend = Point\{p\.d\[i\+1\], p\.d\[i\+2\]\}\n\t\tcase LineToCmd:\n\t\t\tend = Point\{p\.d\[i\+1\], p\.d\[i\+2\]\}\n\t\t\tn := end`, "\t\tcase MoveToCmd:\n\t\t\tend = Point{p.d[i+1], p.d[i+2]}\n\t\t\tclosed = false\n\t\tcase LineToCmd:\n\t\t\tend = Point{p.d[i+1], p.d[i+2]}\n\t\t\tn := end", "E11.cap-join"},
	},
	"C05": {
		{"Join welds points that share one coordinate", "path.go", `p\.d\[len\(p\.d\)-1\] == CloseCmd \|\| !Equal\(p\.d\[len\(p\.d\)-3\], q\.d\[1\]\) \|\| !Equal\(p\.d\[len\(p\.d\)-2\], q\.d\[2\]\)`, "p.d[len(p.d)-1] == CloseCmd || !Equal(p.d[len(p.d)-3], q.d[1]) && !Equal(p.d[len(p.d)-2], q.d[2])", "E11.join-coincidence"},
		{"SplitAt drops a leading cut within Epsilon of zero", "path.go", `(sort\.Float64s\(ts\)\n\t)if ts\[0\] == 0\.0 \{`, "${1}if Equal(ts[0], 0.0) {", "E11.leading-cut-exact"},
		{"dash pattern reduced to a period that need not divide it", "path.go", `(?s)REPEAT:\n\tfor len\(d\)%2 == 0 \{\n\t\tmid := len\(d\) / 2\n\t\tfor i := 0; i < mid; i\+\+ \{\n\t\t\tif !Equal\(d\[i\], d\[mid\+i\]\) \{\n\t\t\t\tbreak REPEAT\n\t\t\t\}\n\t\t\}\n\t\td = d\[:mid\]\n\t\}\n`, "\tfor n := 1; n <= len(d)/2; n++ {\n\t\ti := n\n\t\tfor i < len(d) && Equal(d[i], d[i-n]) {\n\t\t\ti++\n\t\t}\n\t\tif i == len(d) {\n\t\t\td = d[:n]\n\t\t\tbreak\n\t\t}\n\t}\n", "E11.dash-reduction-divides"},
		{"short sub-paths skip the cut loop by the element length alone", "path.go", `(\t\tlength := ps\.Length\(\)\n)(\t\tfor pos\+d\[i\]\+Epsilon < length \{)`, "${1}\t\tif length < d[i0] {\n\t\t\tif i0%2 == 0 {\n\t\t\t\tq = q.Append(ps)\n\t\t\t}\n\t\t\tcontinue\n\t\t}\n${2}", "E11.dash-cover"},
		{"negative offset wrapped as Mod(offset+sum, sum)", "path.go", `offset = math\.Mod\(offset, dTotal\) \+ dTotal`, "offset = math.Mod(offset+dTotal, dTotal)", "E11.dash-offset-range"},
		{"ScaleDash multiplies the caller's pattern in place", "canvas.go", `(?s)\td2 := make\(\[\]float64, len\(d\)\)\n\tfor i := range d \{\n\t\td2\[i\] = d\[i\] \* scale\n\t\}\n\treturn offset \* scale, d2\n`, "\tfor i := range d {\n\t\td[i] *= scale\n\t}\n\treturn offset * scale, d\n", "E1.dash-input-pure"},
		{"line case claims [T, T+dT) while the curves claim (T, T+dT]", "path.go", `(?s)(dT := end\.Sub\(start\)\.Length\(\)\n\t\t\t\t\tTcurve := T\n\t\t\t\t\t)for j < len\(ts\) && T < ts\[j\] && ts\[j\] <= T\+dT \{`, "${1}for j < len(ts) && T <= ts[j] && ts[j] < T+dT {", "E11.cut-interval"},
		{"quad cut loop carries the relative parameter", "path.go", `(?s)(\t\t\t\t\tr0, r1, r2 := start, cp, end\n.*?)\t\t\t\t\t\tt := invL\(ts\[j\] - T\)\n\t\t\t\t\t\ttsub := \(t - t0\) / \(1\.0 - t0\)\n\t\t\t\t\t\tt0 = t\n`, "${1}\t\t\t\t\t\ttsub := (invL(ts[j]-T) - t0) / (1.0 - t0)\n\t\t\t\t\t\tt0 = tsub\n", "E11.cut-carried"},
		{"SplitAt's line case leaves the iteration early without advancing", "path.go", `\t\t\t\t\tif Tcurve < T\+dT \{\n\t\t\t\t\t\tq\.LineTo\(end\.X, end\.Y\)\n\t\t\t\t\t\}\n\t\t\t\t\tT \+= dT\n`, "\t\t\t\t\tif Tcurve < T+dT {\n\t\t\t\t\t\tq.LineTo(end.X, end.Y)\n\t\t\t\t\t} else {\n\t\t\t\t\t\ti += cmdLen(cmd)\n\t\t\t\t\t\tstart = end\n\t\t\t\t\t\tcontinue\n\t\t\t\t\t}\n\t\t\t\t\tT += dT\n", "E2.accumulator-advance"},
		{"SplitAt copies an uncut quad without adding its length", "path.go", `\t\t\t\tif j == len\(ts\) \{\n\t\t\t\t\tq\.QuadTo\(cp\.X, cp\.Y, end\.X, end\.Y\)`, "\t\t\t\tif j == len(ts) || T+quadraticBezierLength(start, cp, end) < ts[j] {\n\t\t\t\t\tq.QuadTo(cp.X, cp.Y, end.X, end.Y)", "E2.accumulator-advance"},
		{"SplitAt's line case advances the position only when it cut", "path.go", `\t\t\t\t\tif Tcurve < T\+dT \{\n\t\t\t\t\t\tq\.LineTo\(end\.X, end\.Y\)\n\t\t\t\t\t\}\n\t\t\t\t\tT \+= dT\n`, "\t\t\t\t\tif Tcurve < T+dT {\n\t\t\t\t\t\tq.LineTo(end.X, end.Y)\n\t\t\t\t\t} else {\n\t\t\t\t\t\tT += dT\n\t\t\t\t\t}\n", "E2.accumulator-advance"},
		{"negative offset: one period added once", "path.go", `\t\toffset = math\.Mod\(offset, dTotal\) \+ dTotal\n`, "\t\toffset += dTotal\n", "E11.dash-offset-range"},
		{"checkDash subtracts the start position", "path.go", `if length <= pos\+dd\[i\] \{`, "if length <= dd[i]-pos {", "E11.dash-cover"},
		{"dashCanonical reduces the offset by the undoubled sum", "path.go", `\t\td = d\[:mid\]\n\t\}\n\treturn offset, d\n`, "\t\td = d[:mid]\n\t}\n\tdTotal := 0.0\n\tfor _, dd := range d {\n\t\tdTotal += dd\n\t}\n\toffset = math.Mod(offset, dTotal)\n\treturn offset, d\n", "E11.dash-period"},
		{"closedness of the whole path decides every sub-path", "path.go", `(\tq := &Path\{\}\n)(\tfor _, ps := range p\.Split\(\) \{\n\t\ti := i0\n(?s:.*?))if ps\.Closed\(\) \{`, "${1}\tclosedAll := p.Closed()\n${2}if closedAll {", "E11.dash-independent"},
		{"dash phase carried across sub-paths", "path.go", `\tq := &Path\{\}\n\tfor _, ps := range p\.Split\(\) \{\n\t\ti := i0\n\t\tpos := pos0\n`, "\tq := &Path{}\n\ti := i0\n\tpos := pos0\n\tfor _, ps := range p.Split() {\n", "E11.dash-independent"},
		{"arc cut relative to the arc start", "path.go", `ellipseSplit\(rx, ry, phi, cx, cy, startTheta, theta2, theta\)`, `ellipseSplit(rx, ry, phi, cx, cy, theta1, theta2, theta)`, "E11.cut-carried"},
	},
	"C06": {
		{"inflection nudge decided against the ray's normal (seed C06o)", "path_intersection_util.go", `if 0\.0 < deriv\.PerpDot\(deriv3\) \{`, "if A.Dot(deriv3) < 0.0 {", "E9.nudge-side-from-tangent"},
		{"line-ellipse quadratic: B of the other elimination", "path_intersection_util.go", `B = 2\.0 \* b \* d \* e`, "B = 2.0 * a * c * e", "E9.ellipse-quadratic-mirror"},
		{"cubic direction uses the start chords at the end", "path_util.go", `(\} else if Equal\(t, 1\.0\) \{\n\t\t\tif deriv = )p3\.Sub\(p1\)`, "${1}p2.Sub(p0)", "E9.direction-fallback-symmetric"},
		{"pending hit replaced when the next hit lies elsewhere", "path.go", `\n\t\t\} else if prev == nil \{`, "\n\t\t} else if prev == nil || !prev.Point.Equals(z.Point) {", "E9.pending-not-overwritten"},
		{"second derivative of the cubic taken at the line parameter", "path_intersection_util.go", `(if endpoint \{\n[^\n]*\n\t\t\t\t\tderiv2 := cubicBezierDeriv2\(p0, p1, p2, p3, )root\)`, "${1}s)", "E9.curve-parameter-domain"},
		{"x-monotone arc pieces inherit the large flag", "path_util.go", `(p\.ArcTo\(rx, ry, phi\*180\.0/math\.Pi, )false(, sweep, pos\.X, pos\.Y\))`, "${1}large${2}", "E11.piece-flag-not-whole-arcs"},
		{"second root re-mapped whenever the roots are ordered", "path_util.go", `(?s)\tsplit := false\n(.*?)\t\tsplit = true\n(.*?)\t\tif split \{\n\t\t\tt2 = \(t2 - t1\)`, "${1}${2}\t\tif t1 < t2 {\n\t\t\tt2 = (t2 - t1)", "E11.remap-iff-split"},
		{"inflection crossing demands a vanishing second derivative (reverts fix 6b4ba7e)", "path_intersection_util.go", `if Equal\(A\.Dot\(deriv2\), 0\.0\) \{`, "if Equal(deriv2.X, 0.0) && Equal(deriv2.Y, 0.0) {", "E9.inflection-across-line"},
		{"pending end-point hit of Crossings declared outside the sub-path loop", "path.go", `(?s)(\tboundary := false\n)(\tfor _, pi := range p\.Split\(\) \{\n\t\t// Count intersections of ray with path, see windings\n\t\tni := 0\n)\t\tvar prev \*Intersection\n`, "$1\tvar prev *Intersection\n$2", "E9.pending-per-subpath"},
		{"quad tangency recognised for the parallel direction only", "path_intersection_util.go", `zs = zs\.add\(pos, s, root, dira, dirb, endpoint \|\| Equal\(A\.Dot\(deriv\), 0\.0\), false\)`, "zs = zs.add(pos, s, root, dira, dirb, endpoint || angleEqual(dira, deriv.Angle()), false)", "E9.tangent-both-ways"},
		{"CCW takes the arriving curvature without reversing it", "path.go", `curvPrev := -p\.curvature\(kPrev, 1\.0\)`, "curvPrev := p.curvature(kPrev, 1.0)", "E11.reversed-frame"},
		{"intersection parameters snapped by exact comparison only", "path_intersection_util.go", `\} else if 1\.0 < tb \|\| Equal\(tb, 1\.0\) \{`, "} else if 1.0 < tb {", "E9.endpoint-snap"},
		{"ellipse hit flagged tangent by the value of the root", "path_intersection_util.go", `\t\ttangent := len\(roots\) == 1 // the line touches the ellipse[^\n]*\n`, "\t\ttangent := Equal(root, 0.0)\n", "E9.tangent-from-roots"},
		{"Filling prunes enclosers by the fast bounds of the inner sub-path", "path.go", `(?s)(func \(p \*Path\) Filling\(fillRule FillRule\) \[\]bool \{.*?)\t\t\tif i == j \{`, "${1}\t\t\tif i == j || !pj.FastBounds().Contains(pi.FastBounds()) {", "E3.containment-filter"},
		{"windings counts interior tangent hits", "path.go", `\t\t\tif !z\.Tangent \{\n\t\t\t\tn \+= d`, "\t\t\tif !z.Same {\n\t\t\t\tn += d", "E9.tangent-not-counted"},
		{"Crossings counts interior tangent hits", "path.go", `\t\t\t\tif !z\.Tangent \{\n\t\t\t\t\tni\+\+`, "\t\t\t\tif !z.Same {\n\t\t\t\t\tni++", "E9.tangent-not-counted"},
		{"Crossings pairs overlapping hits", "path.go", `\t\t\t\} else if z\.Same \{\n\t\t\t\tcontinue\n\t\t\t\} else if`, "\t\t\t} else if", "E9.overlap-skipped"},
		{"windings drops an end-point hit whose list neighbour overlaps", "path.go", `\t\t\} else if prev == nil \{\n\t\t\tprev = &zs\[i\]\n\t\t\} else \{\n\t\t\t// count when`, "\t\t} else if prev == nil && i+1 < len(zs) && zs[i+1].Same {\n\t\t\t// ignore\n\t\t} else if prev == nil {\n\t\t\tprev = &zs[i]\n\t\t} else {\n\t\t\t// count when", "E9.endpoint-hit-consumed"},
		{"ray/cubic hit direction from the raw derivative", "path_intersection_util.go", `deriv := cubicBezierDirection\(p0, p1, p2, p3, root\)`, "deriv := cubicBezierDeriv(p0, p1, p2, p3, root)", "E9.cubic-direction"},
		{"Path.direction from the raw cubic derivative", "path.go", `cubicBezierDirection\(start, cp1, cp2, end, t\)\.Norm\(1\.0\)`, "cubicBezierDeriv(start, cp1, cp2, end, t).Norm(1.0)", "E9.cubic-direction"},
		{"ellipse hit angle with straight radii", "path_intersection_util.go", `angle := math\.Atan2\(y\*radius\.X, x\*radius\.Y\)`, "angle := math.Atan2(y*radius.Y, x*radius.X)", "E3.ellipse-param-angle"},
		{"ellipse hit angle with swapped coordinates", "path_intersection_util.go", `angle := math\.Atan2\(y\*radius\.X, x\*radius\.Y\)`, "angle := math.Atan2(x*radius.Y, y*radius.X)", "E3.ellipse-param-angle"},
		{"ray hull ignores the control point", "path_intersection.go", `ymax := math\.Max\(math\.Max\(start\.Y, end\.Y\), cp\.Y\)`, `ymax := math.Max(start.Y, end.Y)`, "E3.ray-hull"},
		{"Contains ignores the fill rule", "path.go", `\treturn fillRule\.Fills\(n\)\n`, "\treturn n != 0\n", "E9.contains"},
		{"Windings looks at the whole path only", "path.go", `\tfor _, pi := range p\.Split\(\) \{\n\t\tzs := pi\.RayIntersections\(x, y\)`, "\tfor _, pi := range []*Path{p} {\n\t\tzs := pi.RayIntersections(x, y)", "E9.subpaths"},
	},
	"C07": {
		{"similarity shortcut adds the matrix angle to the arc rotation, reflections included (seed C07o)", "path.go", `(?s)(func \(p \*Path\) Transform\(m Matrix\) \*Path \{.*?\t\t\tend := Point\{p\.d\[i\+5\], p\.d\[i\+6\]\}\n)(\n\t\t\t// For ellipses written as the conic)`, "${1}\t\t\tif m.IsSimilarity() && !Equal(rx, ry) {\n\t\t\t\tphi += math.Atan2(m[1][0], m[0][0])\n\t\t\t\tend = m.Dot(end)\n\t\t\t\tsc := math.Sqrt(math.Abs(m.Det()))\n\t\t\t\tp.d[i+1], p.d[i+2], p.d[i+3], p.d[i+5], p.d[i+6] = rx*sc, ry*sc, phi, end.X, end.Y\n\t\t\t\ti += cmdLen(cmd)\n\t\t\t\tcontinue\n\t\t\t}\n${2}", "E11.arc-shortcut-orientation"},
		{"ReflectX negates a row instead of a column", "util.go", `(func \(m Matrix\) ReflectX\(\) Matrix \{\n)\treturn m\.Scale\(-1\.0, 1\.0\)\n`, "${1}\tm[0][0], m[0][1] = -m[0][0], -m[0][1]\n\treturn m\n", "E11.matrix-composers"},
		{"Rect.Transform takes two corners when the matrix is diagonal", "util.go", `(func \(r Rect\) Transform\(m Matrix\) Rect \{\n)`, "${1}\tif m[0][1] == 0.0 && m[1][0] == 0.0 {\n\t\tq0 := m.Dot(Point{r.X0, r.Y0})\n\t\tq1 := m.Dot(Point{r.X1, r.Y1})\n\t\treturn Rect{q0.X, q0.Y, q1.X, q1.Y}\n\t}\n", "E3.hull-every-return"},
		{"ToSVG matrix form written row by row", "util.go", `-dec\(m\[1\]\[0\]\), -dec\(m\[0\]\[1\]\)`, "-dec(m[0][1]), -dec(m[1][0])", "E11.svg-matrix-order"},
		{"ShearAbout shears first and translates by the sheared pivot offset", "util.go", `return m\.Translate\(x, y\)\.Shear\(sx, sy\)\.Translate\(-x, -y\)`, "return m.Shear(sx, sy).Translate(-sx*y, -sy*x)", "E11.about-is-conjugation"},
		{"Shear updates the entries of the receiver one after the other", "util.go", `(?s)(func \(m Matrix\) Shear\(sx, sy float64\) Matrix \{\n)\treturn m\.Mul\(Matrix\{\n[^\n]*\n[^\n]*\n\t\}\)\n`, "${1}\tm[0][0] += sy * m[0][1]\n\tm[1][1] += sx * m[1][0]\n\tm[0][1] += sx * m[0][0]\n\tm[1][0] += sy * m[1][1]\n\treturn m\n", "E11.matrix-composers"},
		{"RotateAbout adds the pivot correction into the translation column", "util.go", `return m\.Translate\(x, y\)\.Rotate\(rot\)\.Translate\(-x, -y\)`, "sintheta, costheta := math.Sincos(rot * math.Pi / 180.0)\n\tm = m.Rotate(rot)\n\tm[0][2] += x - (costheta*x - sintheta*y)\n\tm[1][2] += y - (sintheta*x + costheta*y)\n\treturn m", "E11.matrix-composers"},
		{"translation of the inverse uses the wrong cofactor", "util.go", `-\(-m\[1\]\[0\]\*m\[0\]\[2\] \+ m\[0\]\[0\]\*m\[1\]\[2\]\) / det,`, "-(-m[0][1]*m[0][2] + m[0][0]*m[1][2]) / det,", "E11.matrix-inverse"},
		{"inverse of the arc frame composed as m⁻¹·R(−φ)", "path.go", `(?s)T := m\.Rotate\(phi \* 180\.0 / math\.Pi\)\n\t\t\tinvT := T\.Inv\(\)`, "invT := m.Inv().Rotate(-phi * 180.0 / math.Pi)", "E11.conic-frame"},
		{"inverse divided by the absolute determinant", "util.go", `\tdet := m\.Det\(\)\n\tif Equal\(det, 0\.0\) \{\n\t\tpanic\("determinant of affine`, "\tdet := math.Abs(m.Det())\n\tif det <= Epsilon {\n\t\tpanic(\"determinant of affine", "E11.matrix-inverse"},
		{"Decompose merges the rotations for every similarity", "util.go", `\tif Equal\(sx, 1\.0\) && Equal\(sy, 1\.0\) \{\n\t\ttheta \+= phi`, "\tif m.IsSimilarity() {\n\t\ttheta += phi", "E11.rotation-merge"},
		{"Decompose merges the rotations when the magnitudes agree", "util.go", `\tif Equal\(sx, 1\.0\) && Equal\(sy, 1\.0\) \{\n\t\ttheta \+= phi`, "\tif Equal(math.Abs(sx), math.Abs(sy)) {\n\t\ttheta += phi", "E11.rotation-merge"},
		{"sweep flip decided by the diagonal", "path.go", `_, _, _, xscale, yscale, _ := m\.Decompose\(\)`, `xscale, yscale := m[0][0], m[1][1]`, "E11.sweep-flip"},
		{"Transform passes radians to Rotate", "path.go", `T := m\.Rotate\(phi \* 180\.0 / math\.Pi\)`, `T := m.Rotate(phi)`, "E8.units"},
		{"Join passes radians to ArcTo", "path.go", `p\.ArcTo\(d\[1\], d\[2\], d\[3\]\*180\.0/math\.Pi, large, sweep, d\[5\], d\[6\]\)`, `p.ArcTo(d[1], d[2], d[3], large, sweep, d[5], d[6])`, "E8.units"},
	},
	"C08": {
		{"FastBounds boxes an arc by its axis end points (seed C08n)", "path.go", `(\t\t\tcx, cy, _, _ := ellipseToCenter\(start\.X, start\.Y, rx, ry, phi, large, sweep, end\.X, end\.Y\)\n\t\t\tr := )math\.Max\(rx, ry\)`, "${1}math.Max(math.Abs(rx*math.Cos(phi)), math.Abs(ry*math.Sin(phi)))", "E3.mirror"},
		{"Bounds guarded by Empty, FastBounds by the length (seed C08m)", "path.go", `(func \(p \*Path\) Bounds\(\) Rect \{\n\tif )len\(p\.d\) < 4`, "${1}p.Empty()", "E3.bounds-guard-agreement"},
		{"radii correction rotates the chord by +phi", "path_util.go", `(?s)(func ellipseRadiiCorrection\(.*?)x1p := \(cosphi\*diff\.X \+ sinphi\*diff\.Y\) / 2\.0\n\ty1p := \(-sinphi\*diff\.X \+ cosphi\*diff\.Y\) / 2\.0`, "${1}x1p := (cosphi*diff.X - sinphi*diff.Y) / 2.0\n\ty1p := (sinphi*diff.X + cosphi*diff.Y) / 2.0", "E3.ellipse-frame"},
		{"Transform keeps the arc rotation for |m00| == |m11|", "path.go", `(?s)(func \(p \*Path\) Transform\(m Matrix\) \*Path \{.*?\t\t\tend := Point\{p\.d\[i\+5\], p\.d\[i\+6\]\}\n)(\n\t\t\t// For ellipses written as the conic)`, "${1}\t\t\tif Equal(m[0][1], 0.0) && Equal(m[1][0], 0.0) && Equal(math.Abs(m[0][0]), math.Abs(m[1][1])) {\n\t\t\t\tif xscale*yscale < 0.0 {\n\t\t\t\t\tsweep = !sweep\n\t\t\t\t}\n\t\t\t\tend = m.Dot(end)\n\t\t\t\tp.d[i+1], p.d[i+2], p.d[i+4] = rx*math.Abs(m[0][0]), ry*math.Abs(m[0][0]), fromArcFlags(large, sweep)\n\t\t\t\tp.d[i+5], p.d[i+6] = end.X, end.Y\n\t\t\t\ti += cmdLen(cmd)\n\t\t\t\tcontinue\n\t\t\t}\n${2}", "E11.arc-rotation-rewritten"},
		{"quad bounds: the y extreme only when there is no x extreme", "path.go", `(?s)(\t\t\tif tdenom := \(start\.X - 2\*cp\.X \+ end\.X\); !Equal\(tdenom, 0\.0\) \{\n(?:\t\t\t\t[^\n]*\n)+?\t\t\t\})\n\n(\t\t\tymin = math\.Min\(ymin, end\.Y\)\n\t\t\tymax = math\.Max\(ymax, end\.Y\)\n)\t\t\tif (tdenom := \(start\.Y - 2\*cp\.Y \+ end\.Y\))`, "${2}${1} else if ${3}", "E3.axes-exclusive"},
		{"angleBetween wraps at most once instead of normalising", "util.go", `(?s)\ttheta = angleNorm\(theta - lower \+ Epsilon\)\n\tupper = angleNorm\(upper - lower \+ 2\.0\*Epsilon\)\n\treturn theta <= upper\n`, "\ttheta -= lower\n\tif theta < -Epsilon {\n\t\ttheta += 2.0 * math.Pi\n\t} else if 2.0*math.Pi-Epsilon <= theta {\n\t\ttheta -= 2.0 * math.Pi\n\t}\n\treturn Interval(theta, 0.0, upper-lower)\n", "E11.angle-range-normalised"},
		{"arc extremes folded from a table of points with both coordinates", "path.go", `(?s)\t\t\tif angleBetween\(thetaLeft, theta0, theta1\) \{\n\t\t\t\txmin = math\.Min\(xmin, cx-dx\)\n\t\t\t\}\n`, "\t\t\tif angleBetween(thetaLeft, theta0, theta1) {\n\t\t\t\txmin = math.Min(xmin, cx-dx)\n\t\t\t\tymin, ymax = math.Min(ymin, cy), math.Max(ymax, cy)\n\t\t\t}\n", "E3.arc-extent"},
		{"cubic bounds solve the derivative only when the end tangents disagree", "path.go", `(c := -start\.X \+ cp1\.X\n\t\t\t)t1, t2 := solveQuadraticFormula\(a, b, c\)`, "${1}t1, t2 := math.NaN(), math.NaN()\n\t\t\tif c*(end.X-cp2.X) <= 0.0 {\n\t\t\t\tt1, t2 = solveQuadraticFormula(a, b, c)\n\t\t\t}", "E3.derivative-solved"},
		{"arc half extent as the 1-norm of the coefficients", "path.go", `dx := math\.Sqrt\(rx\*rx\*cosphi\*cosphi \+ ry\*ry\*sinphi\*sinphi\)`, "dx := rx*math.Abs(cosphi) + ry*math.Abs(sinphi)", "E3.arc-extent"},
		{"arc Y extent computed with the X polynomial", "path.go", `dy := math\.Sqrt\(rx\*rx\*sinphi\*sinphi \+ ry\*ry\*cosphi\*cosphi\)`, "dy := math.Sqrt(rx*rx*cosphi*cosphi + ry*ry*sinphi*sinphi)", "E3.arc-extent"},
		{"FastBounds skips the start point of later sub-paths", "path.go", `(?s)\t\tcase MoveToCmd, LineToCmd, CloseCmd:\n(\t\t\tend = Point\{p\.d\[i\+1\], p\.d\[i\+2\]\}\n)(\t\t\txmin = math\.Min\(xmin, end\.X\)\n\t\t\txmax = math\.Max\(xmax, end\.X\)\n\t\t\tymin = math\.Min\(ymin, end\.Y\)\n\t\t\tymax = math\.Max\(ymax, end\.Y\)\n\t\tcase QuadToCmd:\n\t\t\tcp := Point\{p\.d\[i\+1\], p\.d\[i\+2\]\}\n\t\t\tend = Point\{p\.d\[i\+3\], p\.d\[i\+4\]\}\n\t\t\txmin = math\.Min\(xmin, math\.Min\(cp\.X, end\.X\)\))`, "\t\tcase MoveToCmd:\n${1}\t\tcase LineToCmd, CloseCmd:\n${1}${2}", "E3.hull"},
		{"FastBounds shadows the carried end point", "path.go", `\t\t\tcp := Point\{p\.d\[i\+1\], p\.d\[i\+2\]\}\n\t\t\tend = Point\{p\.d\[i\+3\], p\.d\[i\+4\]\}\n\t\t\txmin = math\.Min\(xmin, math\.Min\(cp\.X, end\.X\)\)`, "\t\t\tcp, end := Point{p.d[i+1], p.d[i+2]}, Point{p.d[i+3], p.d[i+4]}\n\t\t\txmin = math.Min(xmin, math.Min(cp.X, end.X))", "E2.carried-shadow"},
		{"FastBounds quad max uses Min", "path.go", `xmax = math\.Max\(xmax, math\.Max\(cp\.X, end\.X\)\)`, `xmax = math.Max(xmax, math.Min(cp.X, end.X))`, "E3.homogeneity"},
		{"FastBounds cubic ymin forgets cp2", "path.go", `ymin = math\.Min\(ymin, math\.Min\(cp1\.Y, math\.Min\(cp2\.Y, end\.Y\)\)\)`, `ymin = math.Min(ymin, math.Min(cp1.Y, end.Y))`, "E3."},
		{"Bounds derives the top angle from the right angle", "path.go", `thetaTop := math\.Atan2\(ry\*cosphi, rx\*sinphi\)`, `thetaTop := thetaRight + 0.5*math.Pi`, "E3.arc-extrema"},
		{"Bounds thetaTop radii swapped", "path.go", `thetaTop := math\.Atan2\(ry\*cosphi, rx\*sinphi\)`, `thetaTop := math.Atan2(rx*cosphi, ry*sinphi)`, "E3.arc-extrema"},
		{"Rect.Add max reads the low field", "util.go", `x1 := math\.Max\(r\.X1, q\.X1\)`, `x1 := math.Max(r.X1, q.X0)`, "E3.mirror"},
	},
	"C09": {
		{"cubic length counts the middle piece twice", "path_util.go", `(q0, q1, q2, q3, r0, r1, r2, r3 := cubicBezierSplit\(q0, q1, q2, q3, t2\)\n\t\tbeziers = append\(beziers, \[4\]Point\{p0, p1, p2, p3\}\)\n\t\tbeziers = append\(beziers, \[4\]Point\{q0, q1, q2, q3\}\)\n\t\tbeziers = append\(beziers, \[4\]Point\{)r0, r1, r2, r3(\}\))`, "${1}q0, q1, q2, q3${2}\n\t\t_, _, _, _ = r0, r1, r2, r3", "E11.split-partition"},
		{"Reverse sets the next sub-path's start before writing the pending Close", "path.go", `(?s)(\t\tcase MoveToCmd:\n)(\t\t\tif closed \{\n\t\t\t\tq\.d = append\(q\.d, CloseCmd, first\.X, first\.Y, CloseCmd\)\n\t\t\t\tclosed = false\n\t\t\t\}\n)`, "${1}\t\t\tif i != 0 {\n\t\t\t\tfirst = end\n\t\t\t}\n${2}", "E11.close-uses-own-start"},
		{"line case of SplitAt claims [T, T+dT)", "path.go", `(case LineToCmd, CloseCmd:\n(?:[^\n]*\n){0,12}?[^\n]*for j < len\(ts\) && )T < ts\[j\] && ts\[j\] <= T\+dT \{`, "${1}T <= ts[j] && ts[j] < T+dT {", "E11.cut-interval"},
		{"leading zero stripped before the cut list is sorted", "path.go", `(?s)\tts = append\(\[\]float64\{\}, ts\.\.\.\) // don't sort the caller's slice\n\tsort\.Float64s\(ts\)\n\tif ts\[0\] == 0\.0 \{\n\t\tts = ts\[1:\]\n\t\}\n`, "\tif ts[0] == 0.0 {\n\t\tts = ts[1:]\n\t}\n\tif !sort.Float64sAreSorted(ts) {\n\t\tts = append([]float64{}, ts...)\n\t\tsort.Float64s(ts)\n\t}\n", "E11.cuts-sorted-before-use"},
		{"remainder of a wide elliptical arc integrated from zero", "path_util.go", `(\treturn gaussLegendre5\(speed, theta1, theta2\)\n)`, "\tif dtheta := theta2 - theta1; math.Pi < dtheta {\n\t\treturn gaussLegendre5(speed, 0.0, math.Pi) + gaussLegendre5(speed, 0.0, dtheta-math.Pi)\n\t}\n${1}", "E11.quadrature-covers-arc"},
		{"collinear cubic measured as its chord", "path_util.go", `(func cubicBezierLength\(p0, p1, p2, p3 Point\) float64 \{\n)`, "${1}\tif chord := p3.Sub(p0); !p0.Equals(p3) && Equal(chord.PerpDot(p1.Sub(p0)), 0.0) && Equal(chord.PerpDot(p2.Sub(p0)), 0.0) {\n\t\treturn chord.Length()\n\t}\n", "E9.chord-shortcut"},
		{"circular arc length taken before the angles are ordered", "path_util.go", `func ellipseLength\(rx, ry, theta1, theta2 float64\) float64 \{\n`, "func ellipseLength(rx, ry, theta1, theta2 float64) float64 {\n\tif rx == ry {\n\t\treturn rx * (theta2 - theta1)\n\t}\n", "E11.normalise-first"},
		{"Reverse skips segments that end where they start", "path.go", `(\t\t\tend = Point\{p\.d\[i-3\], p\.d\[i-2\]\}\n\t\t\}\n)(\n\t\tswitch cmd \{\n\t\tcase MoveToCmd:\n\t\t\tif closed \{)`, "${1}\t\tif cmd != MoveToCmd && cmd != CloseCmd && start.Equals(end) {\n\t\t\tcontinue\n\t\t}\n${2}", "E2.record-preserved"},
		{"Reverse emits a cubic only when it is not degenerate", "path.go", `(\t\t\tcx2, cy2 := p\.d\[i\+3\], p\.d\[i\+4\]\n)(\t\t\tq\.d = append\(q\.d, CubeToCmd, cx2, cy2, cx1, cy1, end\.X, end\.Y, CubeToCmd\)\n)`, "${1}\t\t\tif !start.Equals(end) {\n\t${2}\t\t\t}\n", "E2.record-preserved"},
		{"quadratic length takes the logarithm unguarded", "path_util.go", `\tif num <= 0\.0 \|\| den <= 0\.0 \{`, "\tif false {", "E4.log-domain"},
		{"SplitAt does not lift the pen between sub-paths", "path.go", `\t\t\t\tend = Point\{ps\.d\[i\+1\], ps\.d\[i\+2\]\}\n\t\t\t\tq\.MoveTo\(end\.X, end\.Y\)\n`, "\t\t\t\tend = Point{ps.d[i+1], ps.d[i+2]}\n", "E2.move-replayed"},
		{"Reverse keeps the closed flag across sub-paths", "path.go", `\t\t\t\tq\.d = append\(q\.d, CloseCmd, first\.X, first\.Y, CloseCmd\)\n\t\t\t\tclosed = false\n\t\t\t\}\n\t\t\tif i != 0 \{`, "\t\t\t\tq.d = append(q.d, CloseCmd, first.X, first.Y, CloseCmd)\n\t\t\t}\n\t\t\tif i != 0 {", "E11.subpath-flag"},
		{"half-turn shortcut taken for a chord equal to the radius", "path_util.go", `Equal\(math\.Abs\(x2-x1\), 2\.0\*rx\)`, "Equal(math.Abs(x2-x1), rx)", "E3.arc-shortcut"},
		{"SplitAt reads the whole path's data", "path.go", `cp := Point\{ps\.d\[i\+1\], ps\.d\[i\+2\]\}\n\t\t\t\tend = Point\{ps\.d\[i\+3\], ps\.d\[i\+4\]\}\n\n\t\t\t\tif j == len\(ts\) \{\n\t\t\t\t\tq\.QuadTo`, "cp := Point{p.d[i+1], p.d[i+2]}\n\t\t\t\tend = Point{ps.d[i+3], ps.d[i+4]}\n\n\t\t\t\tif j == len(ts) {\n\t\t\t\t\tq.QuadTo", "E2.cursor-domain"},
		{"Reverse ends a quad record with LineToCmd", "path.go", `q\.d = append\(q\.d, QuadToCmd, cx, cy, end\.X, end\.Y, QuadToCmd\)`, `q.d = append(q.d, QuadToCmd, cx, cy, end.X, end.Y, LineToCmd)`, "E2.record"},
		{"post-advance quad case reads the cubic's control point offset", "path.go", `\t\tcp := Point\{p\.d\[i-5\], p\.d\[i-4\]\}\n\t\treturn quadraticBezierDeriv`, "\t\tcp := Point{p.d[i-7], p.d[i-6]}\n\t\treturn quadraticBezierDeriv", "E2.layout"},
		{"quad case reads offset 5", "path.go", `\t\tcase QuadToCmd:\n\t\t\tcp := Point\{p\.d\[i\+1\], p\.d\[i\+2\]\}\n\t\t\tend = Point\{p\.d\[i\+3\], p\.d\[i\+4\]\}\n\t\t\txmin = math\.Min\(xmin, math\.Min\(cp\.X, end\.X\)\)`, "\t\tcase QuadToCmd:\n\t\t\tcp := Point{p.d[i+1], p.d[i+2]}\n\t\t\tend = Point{p.d[i+5], p.d[i+6]}\n\t\t\txmin = math.Min(xmin, math.Min(cp.X, end.X))", "E2.layout"},
	},
	"C10": {
		{"Close keeps the end point of the LineTo it retags (reverts fix 28f64a0)", "path.go", `(// replace LineTo by Close if equal\n\t\tp\.d\[len\(p\.d\)-cmdLen\(LineToCmd\)\] = CloseCmd\n)\t\tp\.d\[len\(p\.d\)-3\] = end\.X\n\t\tp\.d\[len\(p\.d\)-2\] = end\.Y\n`, "${1}", "E11.close-returns-to-start"},
		{"Coords compares end points bit for bit (seed C10n)", "path.go", `!coords\[len\(coords\)-1\]\.Equals\(Point\{p\.d\[i-3\], p\.d\[i-2\]\}\)`, "coords[len(coords)-1] != (Point{p.d[i-3], p.d[i-2]})", "E11.point-compare-tolerant"},
		{"QuadTo line test from the start only", "path.go", `\(start\.Equals\(cp\) \|\| angleEqual\(end\.Sub\(start\)\.AngleBetween\(cp\.Sub\(start\)\), 0\.0\)\) && \(end\.Equals\(cp\) \|\| angleEqual\(end\.Sub\(start\)\.AngleBetween\(end\.Sub\(cp\)\), 0\.0\)\)`, "(start.Equals(cp) || end.Equals(cp) || angleEqual(end.Sub(start).AngleBetween(cp.Sub(start)), 0.0))", "E11.quad-line-test-mirror"},
		{"Arc hands the rotation in degrees to EllipsePos", "path.go", `p0 := EllipsePos\(rx, ry, phi, 0\.0, 0\.0, theta0\)`, "p0 := EllipsePos(rx, ry, rot, 0.0, 0.0, theta0)", "E8.units"},
		{"status Remove rebalances once instead of every ancestor", "path_intersection.go", `for ; ancestor != nil; ancestor = ancestor\.parent \{`, "if ancestor != nil {", "E9.moved-node-height"},
		{"smooth cubic after a relative smooth cubic is not reflected", "path.go", `prevCmd == 'C' \|\| prevCmd == 'c' \|\| prevCmd == 'S' \|\| prevCmd == 's'`, "prevCmd == 'C' || prevCmd == 'c' || prevCmd == 'S'", "E11.svg-smooth"},
		{"position of the rest not clamped after the join (reverts fix ff037ad)", "path.go", `(?s)(\t\t\tp = p\.Join\(r\) // join the rest of the base path\n)\t\t\tif len\(p\.d\) < i \{\n[^\n]*\n\t\t\t\ti = len\(p\.d\)\n\t\t\t\}\n`, "$1", "E11.cursor-revalidated-after-join"},
		{"Reverse probes the leading command of the previous record", "path.go", `if closed && \(i == 0 \|\| p\.d\[i-1\] == MoveToCmd\) \{`, "if closed && (i == 0 || p.d[i-cmdLen(MoveToCmd)] == MoveToCmd) {", "E2.layout"},
		{"CubeTo tests the first control point in the clause of the second", "path.go", `(angleEqual\(end\.Sub\(start\)\.AngleBetween\(cp2\.Sub\(start\)\), 0\.0\) && angleEqual\(end\.Sub\(start\)\.AngleBetween\(end\.Sub\()cp2(\)\), 0\.0\)\))`, "${1}cp1${2}", "E11.control-point-clauses-symmetric"},
		{"RoundedRectangle clamps the radius before taking its sign off", "shapes.go", `(?s)(\tsweep := true\n\tif r < 0\.0 \{\n\t\tsweep = false\n\t\tr = -r\n\t\}\n)(\tr = math\.Min\(r, w/2\.0\)\n\tr = math\.Min\(r, h/2\.0\)\n)(\n\tp := &Path\{\}\n\tp\.MoveTo\(0\.0, r\)\n\tp\.ArcTo)`, "$2$1$3", "E11.clamp-after-sign"},
		{"large-arc flag from the signed angle difference", "path.go", `(?s)dtheta := math\.Abs\(theta1 - theta0\)\n\n\tsweep := theta0 < theta1\n\tlarge := math\.Mod\(dtheta, 2\.0\*math\.Pi\) > math\.Pi\n`, "dtheta := theta1 - theta0\n\n\tsweep := theta0 < theta1\n\tlarge := math.Mod(dtheta, 2.0*math.Pi) > math.Pi\n\tdtheta = math.Abs(dtheta)\n", "E11.arc-span-magnitude"},
		{"radii check rotates the chord by +phi", "path_util.go", `(?s)(func ellipseRadiiCorrection\(.*?)\tx1p := \(cosphi\*diff\.X \+ sinphi\*diff\.Y\) / 2\.0\n\ty1p := \(-sinphi\*diff\.X \+ cosphi\*diff\.Y\) / 2\.0\n`, "${1}\tx1p := (cosphi*diff.X - sinphi*diff.Y) / 2.0\n\ty1p := (sinphi*diff.X + cosphi*diff.Y) / 2.0\n", "E3.ellipse-frame"},
		{"CopyTo dereferences the nil path it tests for", "path.go", `\tif q == nil \{\n\t\tq = &Path\{\}\n\t\}\n\tif len\(q\.d\) < len\(p\.d\) \{`, "\tif q == nil || len(q.d) < len(p.d) {", "E4.nil-branch-deref"},
		{"Append adopts its first non-empty argument", "path.go", `\t\tif !q\.Empty\(\) \{\n\t\t\tp\.d = append\(p\.d, q\.d\.\.\.\)\n\t\t\}\n`, "\t\tif q.Empty() {\n\t\t\tcontinue\n\t\t} else if len(p.d) == 0 {\n\t\t\tp = q\n\t\t\tcontinue\n\t\t}\n\t\tp.d = append(p.d, q.d...)\n", "E1.no-mutation"},
		{"LineTo picks the axis on signed components", "path.go", `if math\.Abs\(da\.Y\) < math\.Abs\(da\.X\) \{`, "if da.Y < da.X {", "E3.dominant-axis"},
		{"Join's close repair runs past the sub-path", "path.go", `\t\tif cmd == MoveToCmd \{\n\t\t\tbreak\n\t\t\} else if cmd == CloseCmd \{\n\t\t\tp\.d\[i\+1\] = end\.X`, "\t\tif cmd == CloseCmd {\n\t\t\tp.d[i+1] = end.X", "E2.close-rewrite"},
		{"replace loses its copy-on-write", "path.go", `\t\t\t\tp = p\.Copy\(\)\n\t\t\t\tcopied = true`, "\t\t\t\tcopied = true", "E1.no-mutation"},
		{"dashCanonical edits the caller's array", "path.go", `\td = append\(\[\]float64\{\}, d\.\.\.\) // d is modified below[^\n]*\n`, ``, "E1.no-mutation"},
		{"Split hands out growable sub-slices", "path.go", `ps = append\(ps, &Path\{p\.d\[i:j:j\]\}\)\n\t\t\ti = j`, "ps = append(ps, &Path{p.d[i:j]})\n\t\t\ti = j", "E11.split-cap"},
		{"Grid translates the shared cell", "shapes.go", `cell\.Copy\(\)\.Translate\(x, y\)`, `cell.Translate(x, y)`, "E11.accumulate"},
		{"Close retags one end only", "path.go", `(// replace LineTo by Close if equal\n)\t\tp\.d\[len\(p\.d\)-cmdLen\(LineToCmd\)\] = CloseCmd\n`, "${1}", "E2.retag"},
	},
	"C11": {
		{"rotate accepts two numbers", "svg.go", `if len\(d\) != 1 && len\(d\) != 3 \{`, "if len(d) == 0 || 3 < len(d) {", "E11.svg-transform"},
		{"a repeated close forgets the removed sub-path", "path.go", `(?s)\t\t\tif wasEmptyClosed \{.*?\} else \{\n\t\t\t\t(p1 = p\.StartPos\(\)\n)\t\t\t\t(p\.Close\(\)\n)\t\t\t\t(emptyClosed = !p\.Pos\(\)\.Equals\(p1\)\n)\t\t\t\}\n`, "\t\t\t_ = wasEmptyClosed\n\t\t\t${1}\t\t\t${2}\t\t\t${3}", "E11.empty-close-keeps-position"},
		{"smooth cubic after a relative smooth cubic is not reflected", "path.go", `prevCmd == 'C' \|\| prevCmd == 'c' \|\| prevCmd == 'S' \|\| prevCmd == 's'`, "prevCmd == 'C' || prevCmd == 'c' || prevCmd == 'S'", "E11.svg-smooth"},
		{"parser forgets the position of an empty closed sub-path (reverts fix db9f29f)", "path.go", `\t\t\temptyClosed = !p\.Pos\(\)\.Equals\(p1\)\n`, "", "E11.empty-close-keeps-position"},
		{"quoted url() reference sliced without its own length test (reverts fix 379229e)", "svg.go", `\} else if 7 < len\(val\) \{\n[^\n]*\n(\t\t\t\treturn val\[6 : len\(val\)-2\])`, "} else {\n$1", "E4.slice-length-guarded"},
		{"decimal formatter tests the signed value against 1", "util.go", `if a := math\.Abs\(float64\(f\)\); 1\.0 <= a && !math\.IsInf\(a, 0\) \{`, "if a := float64(f); 1.0 <= a && !math.IsInf(a, 1) {", "E11.magnitude-test-on-abs"},
		{"S reflects when the stored last command is a cubic", "path.go", `if prevCmd == 'C' \|\| prevCmd == 'c' \|\| prevCmd == 'S' \|\| prevCmd == 's' \{`, "if 0 < len(p.d) && p.d[len(p.d)-1] == CubeToCmd {", "E11.svg-smooth"},
		{"Join hands the stored rotation (radians) to ArcTo (degrees)", "path.go", `p\.ArcTo\(d\[1\], d\[2\], d\[3\]\*180\.0/math\.Pi, large, sweep, d\[5\], d\[6\]\)`, "p.ArcTo(d[1], d[2], d[3], large, sweep, d[5], d[6])", "E8.units"},
		{"ToSVG drops a MoveTo to the current pen position", "path.go", `(?s)(func \(p \*Path\) ToSVG\(\) string \{.*?\t\tcase MoveToCmd:\n)`, "${1}\t\t\tif 0 < i && Equal(x, p.d[i+1]) && Equal(y, p.d[i+2]) {\n\t\t\t\tbreak\n\t\t\t}\n", "E2.serialise-every-command"},
		{"implicit lineto after m read as absolute", "path.go", `(?s)(p1 = p1\.Add\(p0\)\n\t\t\t\t)cmd = 'l'`, "${1}cmd = 'L'", "E11.implicit-command"},
		{"sub-path start remembered before the relative offset", "path.go", `(?s)(\tvar p0, p1) (Point\n\tprevCmd := byte\('z'\).*?\t\t\tp1 = Point\{f\[0\], f\[1\]\}\n)(\t\t\tif cmd == 'm' \{.*?)\t\t\tp1 = p\.StartPos\(\)\n`, "${1}, start ${2}\t\t\tstart = p1\n${3}\t\t\tp1 = start\n", "E11.relative-before-use"},
		{"number table becomes a 128-entry array", "path.go", `cmdLens := map\[byte\]int\{`, "cmdLens := [128]int{", "E4.table-index"},
		{"dec prints Precision decimals again", "util.go", `\ts := fmt\.Sprintf\("%\.\*f", decimals, f\)\n`, "\ts := fmt.Sprintf(\"%.*f\", Precision, f)\n\t_ = decimals\n", "E11.precision-unit"},
		{"bad path data drawn anyway", "svg.go", `\t\t\tbreak // p is nil\n`, "", "E4.value-on-error"},
		{"smooth cubic reflects after any command", "path.go", `\t\t\tif prevCmd == 'C' \|\| prevCmd == 'c' \|\| prevCmd == 'S' \|\| prevCmd == 's' \{\n\t\t\t\tcp1 = p0\.Mul\(2\.0\)\.Sub\(c\)\n\t\t\t\}\n`, "\t\t\tcp1 = p0.Mul(2.0).Sub(c)\n", "E11.svg-smooth"},
		{"smooth quad forgets its control point", "path.go", `\t\t\tp\.QuadTo\(cp\.X, cp\.Y, p1\.X, p1\.Y\)\n\t\t\tq = cp\n\t\tcase 'A', 'a':`, "\t\t\tp.QuadTo(cp.X, cp.Y, p1.X, p1.Y)\n\t\tcase 'A', 'a':", "E11.svg-smooth"},
		{"upper-case closepath may be repeated", "path.go", `if cmd == 'z' \|\| cmd == 'Z' \|\| !\(path\[i\]`, "if cmd == 'z' || !(path[i]", "E4.parser-progress"},
		{"ToSVG forgets the pen after an arc", "path.go", `\t\t\tlarge, sweep := toArcFlags\(p\.d\[i\+4\]\)\n\t\t\tx, y = p\.d\[i\+5\], p\.d\[i\+6\]\n\t\t\tsLarge := "0"\n\t\t\tif large \{\n\t\t\t\tsLarge = "1"\n\t\t\t\}\n\t\t\tsSweep := "0"\n\t\t\tif sweep \{\n\t\t\t\tsSweep = "1"\n\t\t\t\}\n\t\t\tif 90\.0 <= rot`, "\t\t\tlarge, sweep := toArcFlags(p.d[i+4])\n\t\t\tsLarge := \"0\"\n\t\t\tif large {\n\t\t\t\tsLarge = \"1\"\n\t\t\t}\n\t\t\tsSweep := \"0\"\n\t\t\tif sweep {\n\t\t\t\tsSweep = \"1\"\n\t\t\t}\n\t\t\tif 90.0 <= rot", "E2.pen"},
		{"ParseSVGPath loses its guard", "path.go", `path\[0\] == ',' \|\| len\(path\) <= i \|\| path\[i\] < 'A'`, `path[0] == ',' || path[i] < 'A'`, "E4.index-guard"},
		{"drawShape panics on <text> without x", "svg.go", `\tcase "text":\n\t\tsvg\.state\.textX`, "\tcase \"text\":\n\t\tif attrs[\"x\"] == \"\" {\n\t\t\tpanic(\"text without x\")\n\t\t}\n\t\tsvg.state.textX", "E4.panic-reach"},
		{"number table larger than the buffer", "path.go", `\t\t'A': 7,\n`, "\t\t'A': 8,\n", "E4.table-bound"},
	},
	"C12": {
		{"two-stop gradients written as one ramp", "renderers/pdf/writer.go", `\} else if len\(stops\) == 1 \{\n\t\treturn patternStopFunction\(stops\[0\], stops\[0\]\)`, "} else if len(stops) <= 2 {\n\t\treturn patternStopFunction(stops[0], stops[len(stops)-1])", "E5.gradient-offsets-used"},
		{"SVG image moved up by the rectangle's Max.Y", "renderers/svg/svg.go", `(?s)(func \(r \*SVG\) RenderImage\(.*?)m\.Translate\(0(?:\.0)?, float64\(size\.Y\)\)`, "${1}m.Translate(0.0, float64(img.Bounds().Max.Y))", "E11.image-extent-from-size"},
		{"ToSVG forgets the pen after an arc", "path.go", `(func \(p \*Path\) ToSVG\(\) string \{(?:.*\n)*?\t\t\tlarge, sweep := toArcFlags\(p\.d\[i\+4\]\)\n\t\t\t)x, y = p\.d\[i\+5\], p\.d\[i\+6\]\n`, "${1}", "E2.pen"},
		{"opacity names remembered for the whole document", "renderers/pdf/writer.go", `(func \(w \*pdfWriter\) NewPage\((?:.*\n)*?\t\tgraphicsStates: )map\[float64\]pdfName\{\},`, "var sharedGS = map[float64]pdfName{}\n\n${1}sharedGS,", "E5.page-memo"},
		{"PostScript outline fallback painted with the path's fill operator", "renderers/ps/ps.go", `(?s)(\tif style\.HasFill\(\) \{\n\t\tr\.setPaint\(style\.Fill\)\n)(.*)(\t\t\tr\.setPaint\(style\.Stroke\)\n\t\t\tr\.w\.Write\()\[\]byte\(" fill"\)\)`, "\tfillOp := []byte(\" fill\")\n\tif style.FillRule == canvas.EvenOdd {\n\t\tfillOp = []byte(\" eofill\")\n\t}\n${1}${2}${3}fillOp)", "E6.outline-nonzero"},
		{"stroke state set before the fill operator when the alphas differ", "renderers/pdf/pdf.go", `(?s)(\t\t\t\} else \{\n\t\t\t\tr\.w\.SetFill\(style\.Fill\)\n)(\t\t\t\tr\.w\.Write\(\[\]byte\(" "\)\)\n\t\t\t\tr\.w\.Write\(\[\]byte\(data\)\)\n\t\t\t\tr\.w\.Write\(\[\]byte\(" f"\)\)\n\t\t\t\tif style\.FillRule == canvas\.EvenOdd \{\n\t\t\t\t\tr\.w\.Write\(\[\]byte\("\*"\)\)\n\t\t\t\t\}\n\n)(\t\t\t\tr\.w\.SetStroke\(style\.Stroke\)\n)`, "$1$3$2", "E5.paint-follows-its-setter"},
		{"SetFont forgets the direction", "renderers/pdf/writer.go", `\t\tw\.font = font\n\t\tw\.fontSize = size\n\t\tw\.fontDirection = direction\n`, "\t\tw.font, w.fontSize = font, size\n", "E6.memo-stores-compared"},
		{"even-odd fill+stroke operator chosen before closedness", "renderers/pdf/pdf.go", `(?s)if closed \{\n\t\t\t\t\tr\.w\.Write\(\[\]byte\(" b"\)\)\n\t\t\t\t\} else \{\n\t\t\t\t\tr\.w\.Write\(\[\]byte\(" B"\)\)\n\t\t\t\t\}\n\t\t\t\tif style\.FillRule == canvas\.EvenOdd \{\n\t\t\t\t\tr\.w\.Write\(\[\]byte\("\*"\)\)\n\t\t\t\t\}`, "op := \" B\"\n\t\t\t\tif style.FillRule == canvas.EvenOdd {\n\t\t\t\t\top = \" B*\"\n\t\t\t\t} else if closed {\n\t\t\t\t\top = \" b\"\n\t\t\t\t}\n\t\t\t\tr.w.Write([]byte(op))", "E5.closed-paint-operator"},
		{"gradient padded only up to zero", "colors.go", `\} else if t <= stops\[0\]\.Offset \|\| len\(stops\) == 1 \{`, "} else if t <= 0.0 || len(stops) == 1 {", "E11.gradient-pad"},
		{"PostScript writer transforms the caller's path in place", "renderers/ps/ps.go", `r\.w\.Write\(\[\]byte\(path\.Copy\(\)\.Transform\(m\)\.ToPS\(\)\)\)`, "r.w.Write([]byte(path.Transform(m).ToPS()))", "E1.render-path-pure"},
		{"SVG stroke outline takes the path's fill rule", "renderers/svg/svg.go", `\t\t// the outline of a stroke overlaps itself, it is always filled non-zero \(the default\)\n`, "\t\tif style.FillRule == canvas.EvenOdd {\n\t\t\tfmt.Fprintf(r.w, `\" fill-rule=\"evenodd`)\n\t\t}\n", "E6.outline-nonzero"},
		{"PDF stroke outline filled even-odd", "renderers/pdf/pdf.go", `(?s)(r\.w\.Write\(\[\]byte\(path\.Transform\(m\)\.ToPDF\(\)\)\)\n\t\t)r\.w\.Write\(\[\]byte\(" f"\)\)`, "${1}r.w.Write([]byte(\" f*\"))", "E6.outline-nonzero"},
		{"trailing constant piece of a gradient without its bound", "renderers/pdf/writer.go", `\t\tbounds = append\(bounds, stops\[len\(stops\)-1\]\.Offset\)\n`, "", "E5.stitching-arity"},
		{"every stop pair adds a bound, also the first", "renderers/pdf/writer.go", `(?s)\t\tif i != 0 \{\n\t\t\tbounds = append\(bounds, stops\[i\]\.Offset\)\n\t\t\}\n`, "\t\tbounds = append(bounds, stops[i].Offset)\n", "E5.stitching-arity"},
		{"PostScript colour cache compared across colour models", "renderers/ps/ps.go", `if prev := toNRGBA\(r\.paint\.Color\); color\.R != prev\.R \|\| color\.G != prev\.G \|\| color\.B != prev\.B \{`, "if color.R != r.paint.Color.R || color.G != r.paint.Color.G || color.B != r.paint.Color.B {", "E6.color-model-compare"},
		{"faux bold writes its stroke width directly", "renderers/pdf/pdf.go", `\t\t\t\tr\.w\.SetLineWidth\(span\.Face\.FauxBold \* 2\.0\)\n`, "\t\t\t\tr.w.Write([]byte(\" .04 w\"))\n", "E6.operator-through-setter"},
		{"IsSimilarity tests row lengths and the column dot product", "util.go", `(?s)(func \(m Matrix\) IsSimilarity\(\) bool \{.*?)\tc := m\[0\]\[0\]\*m\[1\]\[0\] \+ m\[0\]\[1\]\*m\[1\]\[1\]\n`, "${1}\tc := m[0][0]*m[0][1] + m[1][0]*m[1][1]\n", "E11.gram-consistency"},
		{"PDF SetFill restores the opacity only for a changed paint", "renderers/pdf/writer.go", `(?s)\t\tw\.fill = fill\n\t\}\n\n[^\n]*\n\tif fill\.IsGradient\(\) \{\n\t\tw\.SetAlpha\(1\.0\)\n\t\} else if fill\.IsColor\(\) \{\n\t\tw\.SetAlpha\(float64\(fill\.Color\.A\) / 255\.0\)\n\t\}\n`, "\t\tw.fill = fill\n\t\tif fill.IsColor() {\n\t\t\tw.SetAlpha(float64(fill.Color.A) / 255.0)\n\t\t}\n\t}\n", "E6.memo-shared-state"},
		{"miter limit only checked when the join is unchanged", "renderers/pdf/writer.go", `\t\tw\.lineJoin = lineJoin\n\t\}\n\tif lineJoin == 0 && miterLimit != w\.miterLimit \{`, "\t\tw.lineJoin = lineJoin\n\t} else if lineJoin == 0 && miterLimit != w.miterLimit {", "E6.memo-independent"},
		{"PS writes a miter with a round gap natively", "renderers/ps/ps.go", "\\} else if _, ok := miter\\.GapJoiner\\.\\(canvas\\.BevelJoiner\\); !ok \\{\\n\\t\\t\\tstrokeUnsupported = true", "} else if miter.GapJoiner == nil {\n\t\t\tstrokeUnsupported = true", "E6.joiner-support"},
		{"PDF writes arcs joins natively", "renderers/pdf/pdf.go", `if _, ok := style\.StrokeJoiner\.\(canvas\.ArcsJoiner\); ok \{\n\t\tstrokeUnsupported = true`, "if arcs, ok := style.StrokeJoiner.(canvas.ArcsJoiner); ok && math.IsNaN(arcs.Limit) {\n\t\tstrokeUnsupported = true", "E6.joiner-support"},
		{"PDF dash phase normalised before odd-length doubling", "renderers/pdf/writer.go", `(\tif len\(dashArray\)%2 == 1 \{\n\t\tdashArray = append\(dashArray, dashArray\.\.\.\)\n\t\}\n)\n((?:.*\n){10,16}?)\n\tdashes := append\(dashArray, dashPhase\)`, "$2\n$1\n\tdashes := append(dashArray, dashPhase)", "E6.dash-period"},
		{"gradient bounds use a fixed stop", "renderers/pdf/writer.go", `bounds = append\(bounds, stops\[i\]\.Offset\)`, "bounds = append(bounds, stops[1].Offset)", "E11.const-index-in-loop"},
		{"PS fill colour set after gsave", "renderers/ps/ps.go", `\t\tr\.setPaint\(style\.Fill\)\n\t\tif style\.HasStroke\(\) && !strokeUnsupported \{\n\t\t\tr\.w\.Write\(\[\]byte\(" gsave"\)\)\n\t\t\}\n`, "\t\tif style.HasStroke() && !strokeUnsupported {\n\t\t\tr.w.Write([]byte(\" gsave\"))\n\t\t}\n\t\tr.setPaint(style.Fill)\n", "E6.ps-grammar"},
		{"PDF image opacity set inside q/Q again", "renderers/pdf/writer.go", `\tm = m\.Scale\(float64\(size\.X\), float64\(size\.Y\)\)\n\tfmt\.Fprintf\(w, " %v %v %v %v %v %v cm /%v Do Q"`, "\tm = m.Scale(float64(size.X), float64(size.Y))\n\tw.SetAlpha(0.5)\n\tfmt.Fprintf(w, \" %v %v %v %v %v %v cm /%v Do Q\"", "E5.grammar"},
		{"SVG fall-back dashes unscaled", "renderers/svg/svg.go", `dashOffset, dashes := canvas\.ScaleDash\(style\.StrokeWidth, style\.DashOffset, style\.Dashes\)\n\t\t\tstroke = stroke\.Dash\(dashOffset, dashes\.\.\.\)`, `stroke = stroke.Dash(style.DashOffset, style.Dashes...)`, "E6.dash-scale"},
		{"PS round cap emits code 2", "renderers/ps/ps.go", `fmt\.Fprintf\(r\.w, " 1 setlinecap"\)`, `fmt.Fprintf(r.w, " 2 setlinecap")`, "E6.enum"},
		{"PS fall-back outline not transformed", "renderers/ps/ps.go", `r\.w\.Write\(\[\]byte\(path\.Transform\(m\)\.ToPS\(\)\)\)`, `r.w.Write([]byte(path.ToPS()))`, "E6.transform"},
		{"PDF fall-back width scaled twice", "renderers/pdf/pdf.go", `\tstrokeUnsupported := false\n\tif _, ok := style\.StrokeJoiner\.\(canvas\.ArcsJoiner\); ok \{`, "\tstrokeUnsupported := false\n\tif m.IsSimilarity() {\n\t\tstyle.StrokeWidth *= math.Sqrt(math.Abs(m.Det()))\n\t}\n\tif _, ok := style.StrokeJoiner.(canvas.ArcsJoiner); ok {", "E6.width-frame"},
		{"PS eofill outside its guard", "renderers/ps/ps.go", `r\.w\.Write\(\[\]byte\(" fill"\)\)\n\t\t\}\n\t\tif style\.HasStroke\(\) && !strokeUnsupported \{\n\t\t\tr\.w\.Write\(\[\]byte\(" grestore"\)\)`, "r.w.Write([]byte(\" eofill\"))\n\t\t}\n\t\tif style.HasStroke() && !strokeUnsupported {\n\t\t\tr.w.Write([]byte(\" grestore\"))", "E6.enum"},
	},
	"C13": {
		{"string value used as the format (seed C13p)", "renderers/pdf/writer.go", `w\.write\("\(%v\)", v\)`, "w.write(\"(\" + v + \")\")", "E5.format-constant"},
		{"soft mask declared with one bit per sample (seed C13o)", "renderers/pdf/writer.go", `(\t\t\t\t"ColorSpace":       pdfName\("DeviceGray"\),\n\t\t\t\t"BitsPerComponent": )8,`, "${1}1,", "E5.image-sample-depth"},
		{"catalog written before the language is added", "renderers/pdf/writer.go", `(?s)(\tif w\.lang != "" \{\n\t\tcatalog\["Lang"\] = encode\(w\.lang\)\n\t\}\n)(.*?)(\tw\.objOffsets\[0\] = w\.pos\n\tw\.write\("%v 0 obj\\n", 1\)\n\tw\.writeVal\(catalog\)\n\tw\.write\("\\nendobj\\n"\)\n)`, "${3}${1}${2}", "E5.dict-complete-before-write"},
		{"DeviceGray declared for every grey colour model", "renderers/pdf/writer.go", `if _, ok := img\.\(\*image\.Gray\); ok \{`, "if m := img.ColorModel(); m == color.GrayModel || m == color.Gray16Model {", "E5.jpeg-colorspace"},
		{"gradients with fewer than two stops get an empty function dictionary (reverts fix 1e751a6)", "renderers/pdf/writer.go", `(?s)\tif len\(stops\) == 0 \{\n[^\n]*\n\t\treturn patternStopFunction\(canvas\.Stop\{\}, canvas\.Stop\{\}\)\n\t\} else if len\(stops\) == 1 \{\n\t\treturn patternStopFunction\(stops\[0\], stops\[0\]\)\n\t\}\n`, "\tif len(stops) < 2 {\n\t\treturn pdfDict{}\n\t}\n", "E5.function-dict-never-empty"},
		{"gradient boundary appended before the function under a length guard", "renderers/pdf/writer.go", `(?s)\t\tfs = append\(fs, patternStopFunction\(stops\[i\], stops\[i\+1\]\)\)\n\t\tencode = append\(encode, 0, 1\)\n\t\tif i != 0 \{\n\t\t\tbounds = append\(bounds, stops\[i\]\.Offset\)\n\t\t\}\n`, "\t\tif 0 < len(fs) {\n\t\t\tbounds = append(bounds, stops[i].Offset)\n\t\t}\n\t\tfs = append(fs, patternStopFunction(stops[i], stops[i+1]))\n\t\tencode = append(encode, 0, 1)\n", "E5.stitching-arity"},
		{"name escaping forgets the number sign", "renderers/pdf/writer.go", ` \|\| c == '#' \|\| strings\.IndexByte`, " || strings.IndexByte", "E5.name-escape"},
		{"names written raw (reverts fix eb66fee)", "renderers/pdf/writer.go", `w\.write\("/%v", pdfEscapeName\(string\(v\)\)\)`, "w.write(\"/%v\", v)", "E5.name-escape"},
		{"short Flate streams written raw", "renderers/pdf/writer.go", `(\t\t\tcase pdfFilterFlate:\n)`, "${1}\t\t\t\tif len(b) < 16 {\n\t\t\t\t\tbreak\n\t\t\t\t}\n", "E5.filter-applied"},
		{"metadata written raw up to Latin-1", "renderers/pdf/writer.go", `if 0x80 <= r \{\n\t\t\t\tascii = false`, "if 0xFF < r {\n\t\t\t\tascii = false", "E5.text-string-encoding"},
		{"negative dash phase made positive by a possibly zero step", "renderers/pdf/writer.go", `\t\tif 0\.0 < totalLength \{\n\t\t\tfor dashPhase < 0\.0 \{\n\t\t\t\tdashPhase \+= totalLength\n\t\t\t\}\n\t\t\} else \{\n[^\n]*\n\t\t\}\n`, "\t\tfor dashPhase < 0.0 {\n\t\t\tdashPhase += totalLength\n\t\t}\n", "E4.additive-loop"},
		{"DCT images always declared DeviceRGB", "renderers/pdf/writer.go", `\t\tif _, ok := img\.\(\*image\.Gray\); ok \{\n\t\t\tcolorSpace = pdfName\("DeviceGray"\)[^\n]*\n\t\t\}\n`, "", "E5.jpeg-colorspace"},
		{"parentheses escaped only when their counts differ", "renderers/pdf/writer.go", "(\\t\\tv = strings\\.Replace\\(v, `\\(`, [^\\n]*\\n\\t\\tv = strings\\.Replace\\(v, `\\)`, [^\\n]*\\n)", "\t\tif strings.Count(v, \"(\") != strings.Count(v, \")\") {\n${1}\t\t}\n", "E5.string-escape"},
		{"PDF colour components divided by an untested alpha", "renderers/pdf/writer.go", `\tif c\.A == 0 \{\n\t\treturn 0\.0, 0\.0, 0\.0\n\t\}\n`, "", "E4.alpha-division"},
		{"opacity names remembered for the whole document", "renderers/pdf/writer.go", `(func \(w \*pdfWriter\) NewPage\((?:.*\n)*?\t\tgraphicsStates: )map\[float64\]pdfName\{\},`, "var sharedGS = map[float64]pdfName{}\n\n${1}sharedGS,", "E5.page-memo"},
		{"literal strings no longer escape CR", "renderers/pdf/writer.go", `\t\tv = strings\.Replace\(v, "\\r", .*\n`, "", "E5.string-escape"},
		{"parentheses escaped before the backslash", "renderers/pdf/writer.go", "\\t\\tv = strings\\.Replace\\(v, `\\\\`, `\\\\\\\\`, -1\\)\\n(\\t\\tv = strings\\.Replace\\(v, `\\(`, .*\\n)", "$1\t\tv = strings.Replace(v, `\\`, `\\\\`, -1)\n", "E5.string-escape"},
		{"soft mask declares the image's filter", "renderers/pdf/writer.go", `"Interpolate":      true,\n\t\t\t\t"Filter":           pdfFilterFlate,`, "\"Interpolate\":      true,\n\t\t\t\t\"Filter\":           filter,", "E5.stream-filter"},
		{"lossy image bytes not encoded", "renderers/pdf/writer.go", `\t\tstream = buf\.Bytes\(\)\n\t\tif _, ok := img`, "\t\tstream = make([]byte, buf.Len())\n\t\tif _, ok := img", "E5.stream-filter"},
		{"stitching functions collected in a []pdfDict", "renderers/pdf/writer.go", `\tfs := pdfArray\{\}\n`, "\tfs := []interface{}{}\n\tvar _ = []pdfDict{}\n", "E5.value-types"},
		{"font object slot reserved only for a new subsetter", "renderers/pdf/writer.go", `\tw\.objOffsets = append\(w\.objOffsets, 0\)\n\tref := pdfRef\(len\(w\.objOffsets\)\)\n\tfonts\[font\] = ref\n\tif _, ok := w\.fontSubset\[font\]; !ok \{\n`, "\tif _, ok := w.fontSubset[font]; !ok {\n\t\tw.objOffsets = append(w.objOffsets, 0)\n\t}\n\tref := pdfRef(len(w.objOffsets))\n\tfonts[font] = ref\n\tif _, ok := w.fontSubset[font]; !ok {\n", "E5.fresh-ref"},
		{"Subject filled from title", "renderers/pdf/writer.go", `info\["Subject"\] = encode\(w\.subject\)`, `info["Subject"] = encode(w.title)`, "E5.metadata"},
		{"Length of the unfiltered stream", "renderers/pdf/writer.go", `v\.dict\["Length"\] = len\(b\)`, `v.dict["Length"] = len(v.stream)`, "E5.length"},
		{"vertical fonts written as horizontal", "renderers/pdf/writer.go", `w\.writeFonts\(w\.fontsV, true\)`, `w.writeFonts(w.fontsV, false)`, "E5.fontmaps"},
		{"text object not closed", "renderers/pdf/pdf.go", `\t\t\tr\.w\.WriteText\(text\.WritingMode, span\.Glyphs\)\n\t\t\tr\.w\.EndTextObject\(\)\n`, "\t\t\tr.w.WriteText(text.WritingMode, span.Glyphs)\n", "E5.grammar"},
		{"graphics state name not registered", "renderers/pdf/writer.go", `gs := w\.getOpacityGS\(alpha\)`, `gs := pdfName("A0")`, "E5.resources"},
		{"font offset recorded too early", "renderers/pdf/writer.go", `\tw\.objOffsets\[ref-1\] = w\.pos\n\tw\.write\("%v 0 obj\\n", ref\)`, "\tw.write(\"%v 0 obj\\n\", ref)\n\tw.objOffsets[ref-1] = w.pos", "E5.objoffset"},
		{"trailer Root points at the info object", "renderers/pdf/writer.go", `"Root": pdfRef\(1\),`, `"Root": pdfRef(2),`, "E5.reserved"},
		{"stroke keeps even-odd star", "renderers/pdf/pdf.go", `\t\t\tif closed \{\n\t\t\t\tr\.w\.Write\(\[\]byte\(" s"\)\)\n\t\t\t\} else \{\n\t\t\t\tr\.w\.Write\(\[\]byte\(" S"\)\)\n\t\t\t\}\n\t\t\} else if style\.HasFill\(\) && style\.HasStroke\(\) \{`, "\t\t\tif closed {\n\t\t\t\tr.w.Write([]byte(\" s\"))\n\t\t\t} else {\n\t\t\t\tr.w.Write([]byte(\" S\"))\n\t\t\t}\n\t\t\tif style.FillRule == canvas.EvenOdd {\n\t\t\t\tr.w.Write([]byte(\"*\"))\n\t\t\t}\n\t\t} else if style.HasFill() && style.HasStroke() {", "E5.grammar"},
	},
	"C14": {
		{"image origin from the height of the original", "renderers/rasterizer/rasterizer.go", `float64\(img\.Bounds\(\)\.Size\(\)\.Y - margin\)`, "float64(img.Bounds().Size().Y - 3*margin)", "E11.image-replaced-extent"},
		{"y flip height taken from the rectangle's Max", "renderers/rasterizer/rasterizer.go", `(?s)(func \(r \*Rasterizer\) RenderPath\(.*?size := r\.Bounds\(\))\.Size\(\)`, "${1}.Max", "E6.scanner-site"},
		{"fill-only path transformed in place by the rasterizer", "renderers/rasterizer/rasterizer.go", `\t\tfill = path\.Copy\(\)\.Transform\(m\)\n`, "\t\tfill = path\n\t\tif style.HasStroke() {\n\t\t\tfill = fill.Copy()\n\t\t}\n\t\tfill = fill.Transform(m)\n", "E1.render-pure"},
		{"rasterizer scans the even-odd rule in non-zero mode and the others in even-odd mode", "renderers/rasterizer/rasterizer.go", `SetWinding\(style\.FillRule != canvas\.EvenOdd\)`, "SetWinding(style.FillRule == canvas.EvenOdd)", "E6.fill-rule-map"},
		{"stroke tolerance scaled by the diagonal of the view", "renderers/rasterizer/rasterizer.go", `if _, _, _, sx, sy, _ := m\.Decompose\(\); !canvas\.Equal\(sx, 0\.0\) \|\| !canvas\.Equal\(sy, 0\.0\) \{`, "if sx, sy := m[0][0], m[1][1]; !canvas.Equal(sx, 0.0) || !canvas.Equal(sy, 0.0) {", "E11.view-scale-invariant"},
		{"scanner sink skips curve segments that end where they start", "path.go", `(?s)(func \(p \*Path\) ToScanxScanner.*?\t\t\tif 0 < i \{\n\t\t\t\tstart = Point\{p\.d\[i-3\], p\.d\[i-2\]\}\n\t\t\t\}\n)`, "${1}\t\t\tif n := cmdLen(cmd); start.Equals(Point{p.d[i+n-3], p.d[i+n-2]}) {\n\t\t\t\tbreak\n\t\t\t}\n", "E11.sink-forwards-every-segment"},
		{"colour space conversion loops to the width of the image", "renderers/rasterizer/util.go", `(?s)(if dstRGBA, ok := dst\.\(\*image\.RGBA\); ok \{\n\t\tfor j := b\.Min\.Y; j < b\.Max\.Y; j\+\+ \{\n\t\t\t)for i := b\.Min\.X; i < b\.Max\.X; i\+\+ \{`, "${1}for i := 0; i < b.Dx(); i++ {", "E11.pixel-loop-bounds"},
		{"hatch tile scanned with the path's fill rule", "renderers/rasterizer/rasterizer.go", `\t\t\t\tr\.scanner\.SetWinding\(true\) // the tile is the outline[^\n]*\n`, "", "E6.winding-mode"},
		{"early-out on bounds that a dashed stroke's outline replaced", "renderers/rasterizer/rasterizer.go", `(?s)\t\tif style\.HasFill\(\) \{\n\t\t\tbounds = bounds\.Add\(stroke\.FastBounds\(\)\)\n\t\t\} else \{\n\t\t\tbounds = stroke\.FastBounds\(\)\n\t\t\}\n(.*?)(\tif style\.HasFill\(\) \{\n\t\tr\.scanner\.SetWinding)`, "\t\tbounds = stroke.FastBounds()\n${1}\tif bounds.X1*dpmm <= 0.0 || float64(size.X) <= bounds.X0*dpmm {\n\t\treturn\n\t}\n${2}", "E6.skip-bounds-cover"},
		{"rasterizer transforms the path before stroking it", "renderers/rasterizer/rasterizer.go", `\t\tstroke = path\n\t\tif 0 < len\(style\.Dashes\) \{`, "\t\tstroke = path.Copy().Transform(m)\n\t\tif 0 < len(style.Dashes) {", "E11.stroke-before-view"},
		{"scanner remembers the next sub-path's start before closing the previous one", "path.go", `(?s)\tvar first Point\n(\topen := false\n.*?)\t\t\tif cmd == MoveToCmd && open \{\n[^\n]*\n\t\t\t\tras\.Line\(fixedPoint26_6\(first\.X\*dpmm, dy-first\.Y\*dpmm\)\)\n\t\t\t\}\n(.*?)\t\t\tfirst = Point\{p\.d\[i\+1\], p\.d\[i\+2\]\}\n\t\t\tras\.Start\(fixedPoint26_6\(p\.d\[i\+1\]\*dpmm, dy-p\.d\[i\+2\]\*dpmm\)\)\n(.*?)\t\tras\.Line\(fixedPoint26_6\(first\.X\*dpmm, dy-first\.Y\*dpmm\)\)\n`, "\tvar first fixed.Point26_6\n${1}\t\t\tif cmd == MoveToCmd {\n\t\t\t\tfirst = fixedPoint26_6(p.d[i+1]*dpmm, dy-p.d[i+2]*dpmm)\n\t\t\t\tif open {\n\t\t\t\t\tras.Line(first)\n\t\t\t\t}\n\t\t\t}\n${2}\t\t\tras.Start(first)\n${3}\t\tras.Line(first)\n", "E6.implicit-close"},
		{"rasterizer strokes with a view-independent tolerance", "renderers/rasterizer/rasterizer.go", `\t\t\ttolerance /= math\.Max\(math\.Abs\(sx\), math\.Abs\(sy\)\)\n`, "\t\t\t_ = sx + sy\n", "E11.stroke-tolerance-view"},
		{"hatch colour taken from the already converted pattern", "renderers/rasterizer/rasterizer.go", `\t\t\tif hatch, ok := style\.Fill\.Pattern\.\(\*canvas\.HatchPattern\); ok \{\n\t\t\t\tstyle\.Fill = hatch\.Fill`, "\t\t\tif hatch, ok := style.Fill.Pattern.SetColorSpace(r.colorSpace).(*canvas.HatchPattern); ok {\n\t\t\t\tstyle.Fill = hatch.Fill", "E12.colorspace-once"},
		{"last open subpath not closed for the scanner", "path.go", `\tif open \{\n\t\t// implicitly close path\n\t\tras\.Line\(fixedPoint26_6\(first\.X\*dpmm, dy-first\.Y\*dpmm\)\)\n\t\}\n`, "", "E6.implicit-close"},
		{"open flag also set by MoveTo", "path.go", `\t\t\topen = false\n\t\t\} else \{\n\t\t\topen = true\n`, "\t\t\topen = cmd == CloseCmd && false\n\t\t} else {\n\t\t\topen = false\n", "E6.implicit-close"},
		{"gradient sampled at pixel coordinates", "renderers/rasterizer/rasterizer.go", `return gradient\.At\(float64\(x\)/dpmm, float64\(size\.Y-y\)/dpmm\)\n\t\t\t\}\)\)\n\t\t\tfill\.`, "return gradient.At(float64(x), float64(size.Y-y)/dpmm)\n\t\t\t}))\n\t\t\tfill.", "E12.units"},
		{"scanner fed millimetres", "path.go", `ras\.Start\(fixedPoint26_6\(p\.d\[i\+1\]\*dpmm, dy-p\.d\[i\+2\]\*dpmm\)\)`, "ras.Start(fixedPoint26_6(p.d[i+1], dy-p.d[i+2]*dpmm))", "E12.units"},
		{"image height scaled twice", "path.go", `ras\.Line\(fixedPoint26_6\(q\.d\[j\+1\]\*dpmm, dy-q\.d\[j\+2\]\*dpmm\)\)`, "ras.Line(fixedPoint26_6(q.d[j+1]*dpmm, dy*dpmm-q.d[j+2]*dpmm))", "E12.units"},
		{"stroke scanned with the fill rule", "renderers/rasterizer/rasterizer.go", `\t\tr\.scanner\.SetWinding\(true\)\n`, ``, "E6.winding-mode"},
		{"rasterizer transforms the caller's path", "renderers/rasterizer/rasterizer.go", `fill = path\.Copy\(\)\.Transform\(m\)`, `fill = path.Transform(m)`, "E1.render-pure"},
		{"gradient stops converted in place", "colors.go", `\tgradient := \*g\n\tgradient\.Stops = stops\n\treturn &gradient\n\}\n\n// At returns the color at position \(x,y\)\.\nfunc \(g \*LinearGradient\)`, "\tgradient := *g\n\tgradient.Stops = stops\n\tg.Stops[0] = stops[0]\n\treturn &gradient\n}\n\n// At returns the color at position (x,y).\nfunc (g *LinearGradient)", "E1.render-pure"},
		{"scanner line not flipped", "path.go", `\t\tcase LineToCmd:\n\t\t\tras\.Line\(fixedPoint26_6\(p\.d\[i\+1\]\*dpmm, dy-p\.d\[i\+2\]\*dpmm\)\)`, "\t\tcase LineToCmd:\n\t\t\tras.Line(fixedPoint26_6(p.d[i+1]*dpmm, p.d[i+2]*dpmm))", "E6.scanner-site"},
		{"rasterizer ignores the fill rule", "renderers/rasterizer/rasterizer.go", `\t\tr\.scanner\.SetWinding\(style\.FillRule != canvas\.EvenOdd\)\n`, ``, "E6.style-field"},
	},
	"C15": {
		{"canvas records the caller's path without a copy", "canvas.go", `(func \(c \*Canvas\) RenderPath\(path \*Path, style Style, m Matrix\) \{\n)\tpath = path\.Copy\(\)\n`, "${1}", "E11.recorded-path-copied"},
		{"checkDash gets the dashes in stroke widths", "canvas.go", `dashes, ok := path\.checkDash\(dashOffset, dashes\)`, "dashes, ok := path.checkDash(c.Style.DashOffset, style.Dashes)\n\t\t_ = dashOffset", "E11.dash-check-units"},
		{"Fit restarts the hull with every z-index", "canvas.go", `(?s)(\tfor _, layers := range c\.layers \{\n)(\t\tfor _, l := range layers \{.*?)\t\t\t\tif rect\.Empty\(\) \{\n\t\t\t\t\trect = bounds\n`, "${1}\t\tfirst := true\n${2}\t\t\t\tif first {\n\t\t\t\t\tfirst = false\n\t\t\t\t\trect = bounds\n", "E11.accumulator-restart"},
		{"Fit takes the image extent from the rectangle's corners", "canvas.go", `size := l\.img\.Bounds\(\)\.Size\(\)\n(\t+)bounds = Rect\{0\.0, 0\.0, float64\(size\.X\), float64\(size\.Y\)\}`, "b := l.img.Bounds()\n${1}bounds = Rect{float64(b.Min.X), float64(b.Min.Y), float64(b.Max.X), float64(b.Max.Y)}", "E11.image-extent-from-size"},
		{"Context.Translate adds to the translation column of the view", "canvas.go", `(func \(c \*Context\) Translate\(x, y float64\) \{\n)\tc\.view = c\.view\.Mul\(Identity\.Translate\(x, y\)\)`, "${1}\tc.view[0][2] += x\n\tc.view[1][2] += y", "E11.view-postmul"},
		{"DrawImage reflects about half the far corner of the image rectangle", "canvas.go", `(?s)(func \(c \*Context\) DrawImage\(.*?)m = m\.ReflectYAbout\(float64\(img\.Bounds\(\)\.Size\(\)\.Y\) / 2\.0\)`, "${1}m = m.ReflectYAbout(float64(img.Bounds().Max.Y) / 2.0)", "E11.image-extent-from-size"},
		{"Clip translates each layer matrix on the right", "canvas.go", `\tc\.Transform\(Identity\.Translate\(-rect\.X0, -rect\.Y0\)\)\n`, "\tfor _, layers := range c.layers {\n\t\tfor i := range layers {\n\t\t\tlayers[i].m = layers[i].m.Translate(-rect.X0, -rect.Y0)\n\t\t}\n\t}\n", "E11.layer-matrix-left"},
		{"coordinate-system matrix cached when the system is set", "canvas.go", `(?s)(\tcoordSystem CoordSystem\n\})(.*?)func \(c \*Context\) CoordSystemView\(\) Matrix \{\n\t// a function since renderer's width/height may change\n\tswitch c\.coordSystem \{(.*?\n\}\n)(.*?)(\tc\.coordSystem = coordSystem\n)`, "\tcoordSystem CoordSystem\n\tsystemView  Matrix\n}${2}func (c *Context) CoordSystemView() Matrix {\n\treturn c.systemView\n}\n\nfunc (c *Context) coordSystemMatrix(coordSystem CoordSystem) Matrix {\n\tswitch coordSystem {${3}${4}${5}\tc.systemView = c.coordSystemMatrix(coordSystem)\n", "E11.draw-matrix"},
		{"Stroke returns before resetting the path when there is no stroke", "canvas.go", `(func \(c \*Context\) Stroke\(\) \{\n)`, "${1}\tif !c.Style.HasStroke() {\n\t\treturn\n\t}\n", "E11.ctx-restore"},
		{"Pop without its empty-stack guard", "canvas.go", `(?s)(func \(c \*Context\) Pop\(\) \{\n)\tif len\(c\.stack\) == 0 \{\n\t\treturn\n\t\}\n`, "${1}", "E11.ctx-stack"},
		{"SetDashes keeps the caller's array", "canvas.go", `c\.Style\.Dashes = append\(\[\]float64\{\}, dashes\.\.\.\)[^\n]*\n`, "c.Style.Dashes = dashes\n", "E11.setter-copies-slice"},
		{"checkDash hands out the canonical dashes without their offset", "path.go", `\t\treturn d\[:0\], false // first space covers whole path, no stroke\n\t\}\n\treturn orig, true\n`, "\t\treturn d[:0], false // first space covers whole path, no stroke\n\t}\n\t_ = orig\n\treturn d, true\n", "E11.dash-pair"},
		{"DrawPath skips the coordinate view at the origin", "canvas.go", `\tcoord := c\.coordView\.Dot\(Point\{x, y\}\)\n\tm = m\.Mul\(c\.view\)\.Translate\(coord\.X, coord\.Y\)\n\n\tfor _, path := range paths`, "\tm = m.Mul(c.view)\n\tif x != 0.0 || y != 0.0 {\n\t\tcoord := c.coordView.Dot(Point{x, y})\n\t\tm = m.Translate(coord.X, coord.Y)\n\t}\n\n\tfor _, path := range paths", "E11.draw-matrix"},
		{"FitImage reflects about the size taken before the crop", "canvas.go", `m = m\.ReflectYAbout\(float64\(img\.Bounds\(\)\.Size\(\)\.Y\) / 2\.0\)\n\t\}\n\tif c\.coordSystem == CartesianII \|\| c\.coordSystem == CartesianIII \{\n\t\tm = m\.ReflectXAbout\(float64\(img\.Bounds\(\)\.Size\(\)\.X\) / 2\.0\)\n\t\}\n\tc\.RenderImage\(img, m\)\n\}\n\n// DrawPath`, "m = m.ReflectYAbout(height / 2.0)\n\t}\n\tif c.coordSystem == CartesianII || c.coordSystem == CartesianIII {\n\t\tm = m.ReflectXAbout(float64(img.Bounds().Size().X) / 2.0)\n\t}\n\tc.RenderImage(img, m)\n}\n\n// DrawPath", "E11.reflect-image"},
		{"DrawPath shares the style between its paths again", "canvas.go", `\t\tstyle := style // the stroke may be dropped for this path only\n`, "", "E11.draw-loop-state"},
		{"checkDash takes the parity on the undoubled array", "path.go", `\ti, pos := dashStart\(offset, dd\)\n\tif length <= pos\+dd\[i\] \{`, "\ti, pos := dashStart(offset, d)\n\tif length <= pos+d[i] {", "E11.dash-parity"},
		{"Fit expands only non-empty bounds", "canvas.go", `\t\t\t\tbounds = l\.path\.Bounds\(\)\n\t\t\t\tif l\.style\.HasStroke\(\) \{`, "\t\t\t\tbounds = l.path.Bounds()\n\t\t\t\tif !bounds.Empty() && l.style.HasStroke() {", "E11.fit-stroke"},
		{"Fit forgets the top side", "canvas.go", `\t\t\t\t\tbounds\.X1 \+= hw\n\t\t\t\t\tbounds\.Y1 \+= hw\n`, "\t\t\t\t\tbounds.X1 += hw\n", "E11.fit-stroke"},
		{"SetDashes re-uses the saved backing array", "canvas.go", `c\.Style\.Dashes = append\(\[\]float64\{\}, dashes\.\.\.\)`, `c.Style.Dashes = append(c.Style.Dashes[:0], dashes...)`, "E1.ctx-setter-alias"},
		{"Rotate pre-multiplies", "canvas.go", `c\.view = c\.view\.Mul\(Identity\.Rotate\(rot\)\)`, `c.view = Identity.Rotate(rot).Mul(c.view)`, "E11.view-postmul"},
		{"Pop restores the style only", "canvas.go", `c\.ContextState = c\.stack\[len\(c\.stack\)-1\]`, `c.Style = c.stack[len(c.stack)-1].Style`, "E11.ctx-stack"},
		{"DrawText compensates the wrong quadrant", "canvas.go", `(\tm := c\.CoordSystemView\(\)\.Mul\(c\.view\)\.Translate\(coord\.X, coord\.Y\)\n\n\t// keep textbox origin at the top-left\n\tif c\.coordSystem == CartesianIII \|\| c\.coordSystem == )CartesianIV`, "${1}CartesianII", "E11.draw-matrix"},
		{"Fill restores into the wrong paint", "canvas.go", `\tc\.DrawPath\(0\.0, 0\.0, c\.path\)\n\tc\.Style\.Stroke = stroke\n`, "\tc.DrawPath(0.0, 0.0, c.path)\n\tc.Style.Fill = stroke\n", "E11.ctx-restore"},
		{"setter writes the stack", "canvas.go", `func \(c \*Context\) SetStrokeWidth\(width float64\) \{\n`, "func (c *Context) SetStrokeWidth(width float64) {\n\tc.stack = nil\n", "E11.ctx-setter"},
	},
	"C16": {
		{"reversed run laid out from its first span at every level (seed C16m)", "text.go", `(?s)\t\t\t\t\t\tvar x float64\n\t\t\t\t\t\tif \(level % 2\) == 1 \{\n\t\t\t\t\t\t\tx = spans\[first\]\.X\n\t\t\t\t\t\t\} else \{\n\t\t\t\t\t\t\tx = spans\[last-1\]\.X\n\t\t\t\t\t\t\}\n`, "\t\t\t\t\t\tx := spans[first].X\n", "E11.bidi-run-origin"},
		{"computeSum stops at every legal penalty (seed C16o)", "text/linebreak.go", `item\.Penalty <= -Infinity && 0 < i`, "item.Penalty < Infinity && 0 < i", "E4.swallowed-glue-stops"},
		{"cluster offset advanced by the rune count (seed C16n)", "text.go", `clusterOffset \+= uint32\(len\(run\.Text\)\)`, "clusterOffset += uint32(len([]rune(run.Text)))", "E11.cluster-offset-bytes"},
		{"item boundary only where text and object placeholder meet", "text/text.go", `objectReplacementBoundary := r == unicode\.ReplacementChar \|\| 0 < j && runes\[j-1\] == unicode\.ReplacementChar`, "objectReplacementBoundary := 0 < j && (r == unicode.ReplacementChar) != (runes[j-1] == unicode.ReplacementChar)", "E11.object-own-item"},
		{"vertical justify step multiplied by the line index", "text.go", `(?s)\t\tdy := 0\.0\n\t\tfor j := range t\.lines \{\n\t\t\tt\.lines\[j\]\.y \+= dy\n\t\t\tdy \+= ddy\n\t\t\}`, "\t\tfor j := range t.lines {\n\t\t\tt.lines[j].y += float64(j) * ddy\n\t\t}", "E4.unbounded-quotient-not-multiplied"},
		{"unwrapped lines count the white space after a break (reverts fix 6632432)", "text.go", `if !lineStart \|\| item\.Type != text\.GlueType \{`, "if lineStart || !lineStart {", "E11.nowrap-width-skips-leading-glue"},
		{"indent dropped from the items when the text starts with white space", "text/linebreak.go", `(?s)\titems = append\(items, Box\(indent\)\)\n\tif padStart\.Size != 0 \{\n\t\titems\[0\]\.Width \+= padStart\.Width\n\t\titems\[0\]\.Size \+= padStart\.Size\n\t\titems = append\(items, Penalty\(0, 0, false\)\)\n\t\}`, "\tif padStart.Size != 0 {\n\t\titems = append(items, padStart, Penalty(0, 0, false))\n\t} else {\n\t\titems = append(items, Box(indent))\n\t}", "E11.indent-on-every-path"},
		{"lines aligned by the break width including trailing spaces", "text.go", `x \+= width - \(breaks\[j\]\.Width - eolWidth\)`, "x += width - breaks[j].Width", "E11.aligned-width-excludes-eol"},
		{"trailing white space stretched like the rest of the line", "text.go", `if 0\.0 < width && i != bi \{`, "if 0.0 < width {", "E11.aligned-width-excludes-eol"},
		{"line heights skip spans whose face is not larger", "text.go", `(?s)(\tif mode == HorizontalTB \{\n)(\t\tfor _, span := range l\.spans \{\n\t\t\tif span\.IsText\(\) \{\n)`, "${1}\t\tsize := 0.0\n${2}\t\t\t\tif span.Face.Size <= size {\n\t\t\t\t\tcontinue\n\t\t\t\t}\n\t\t\t\tsize = span.Face.Size\n", "E3.line-heights-every-span"},
		{"text bounds from the first and last span of the slice", "text.go", `(?s)(func \(t \*Text\) Bounds\(\) Rect \{.*?)\t\tfor _, span := range line\.spans \{\n(.*?)\n\t\t\}\n`, "${1}\t\tif len(line.spans) == 0 {\n\t\t\tcontinue\n\t\t}\n\t\tfirst, last := line.spans[0], line.spans[len(line.spans)-1]\n\t\trect = rect.Add(Rect{first.X, -line.y, last.X + last.Width, -line.y})\n\t\tfor _, span := range line.spans {\n${2}\n\t\t}\n", "E3.text-bounds-fold"},
		{"run index taken before the leading white space is skipped", "text.go", `(?s)(\t\teolSkip := 0 // number of glyphs after the last box\n)(.*?)\t\tk := glyphIndices\.index\(a\) // index into runs\n`, "${1}\t\tk := glyphIndices.index(ag)\n${2}", "E11.derived-before-update"},
		{"Reset keeps the embedded objects", "text.go", `\trt\.objects = map\[uint32\]TextSpanObject\{\} // are keyed by their position in the text\n`, "", "E11.reset-complete"},
		{"empty line's face looked up with the rune counter", "text.go", `runs\[glyphIndices\.index\(ag\)\]\.Face\.heights\(rt\.mode\)`, "runs[glyphIndices.index(i)].Face.heights(rt.mode)", "E11.glyph-index-domain"},
		{"last line's gap taken from loop variables that may describe a dropped line", "text.go", `(?s)(\tlineSpacing := 1\.0 \+ lineStretch\n)(.*?)\t\tvar ascent, descent, bottom float64\n(.*?)\t\t_, _, descent, bottom := t\.lines\[len\(t\.lines\)-1\]\.Heights\(rt\.mode\)\n\t\ty \+= -bottom\*lineSpacing \+ descent\n`, "${1}\tvar ascent, descent, bottom float64\n${2}${3}\t\ty += -bottom + descent\n", "E11.stale-after-break"},
		{"hyphen drawn at every flagged one-glyph penalty", "text.go", `items\[bi\]\.Size == 1 && glyphs\[bg\]\.Text == '\\u00AD' \{`, "items[bi].Flagged && items[bi].Size == 1 {", "E11.hyphen-guard"},
		{"LinebreakGlyphs draws a hyphen at every flagged penalty", "text/linebreak.go", `if item\.Type == PenaltyType && item\.Flagged && item\.Width != 0\.0 \{`, "if item.Type == PenaltyType && item.Flagged {", "E11.hyphen-guard"},
		{"newline of a CRLF pair owned by no item", "text/linebreak.go", `\t\t\tif glyph\.Text != '\\n' \|\| i == 0 \|\| glyphs\[i-1\]\.Text != '\\r' \{`, "\t\t\tif glyph.Text == '\\n' && 0 < i && glyphs[i-1].Text == '\\r' {\n\t\t\t\tcontinue\n\t\t\t}\n\t\t\t{", "E11.items-cover-glyphs"},
		{"glyph offset not advanced for penalties", "text.go", `\t\t\t\t\tshrink \+= items\[i\]\.Shrink\n\t\t\t\t\}\n\t\t\t\tbg2 \+= items\[i\]\.Size\n`, "\t\t\t\t\tshrink += items[i].Shrink\n\t\t\t\t\tbg2 += items[i].Size\n\t\t\t\t}\n", "E11.glyph-cursor"},
		{"centred spans all placed at one X", "text.go", `line\.spans\[k\]\.X -= x / 2\.0`, "line.spans[k].X = -x / 2.0", "E11.span-shift"},
		{"breakpoint width without the hyphen", "text/linebreak.go", `\t\t\twidth := lb\.W\n\t\t\tif lb\.items\[b\]\.Type == PenaltyType \{\n\t\t\t\twidth \+= lb\.items\[b\]\.Width\n\t\t\t\}\n`, "\t\t\twidth := lb.W\n", "E11.break-width"},
		{"penalty width taken from the previous item", "text/linebreak.go", `\t\t\t\twidth \+= lb\.items\[b\]\.Width\n`, "\t\t\t\twidth += lb.items[b-1].Width\n", "E11.break-width"},
		{"line ascent and descent exchanged", "text.go", `\t\t\t\tascent = math\.Max\(ascent, spanAscent\)\n\t\t\t\tdescent = math\.Max\(descent, spanDescent\)\n\t\t\t\tbottom = math\.Max\(bottom, spanBottom\)\n\t\t\t\} else \{\n\t\t\t\tfor _, obj`, "\t\t\t\tascent = math.Max(ascent, spanDescent)\n\t\t\t\tdescent = math.Max(descent, spanAscent)\n\t\t\t\tbottom = math.Max(bottom, spanBottom)\n\t\t\t} else {\n\t\t\t\tfor _, obj", "E3.line-heights"},
		{"line bottom takes the minimum", "text.go", `\t\t\t\t\tbottom = math\.Max\(bottom, spanDescent\+lineSpacing\)`, "\t\t\t\t\tbottom = math.Min(bottom, spanDescent+lineSpacing)", "E3.line-heights"},
		{"Text.Heights uses the first line's top", "text.go", `\t_, ascent, _, _ := firstLine\.Heights\(t\.WritingMode\)`, "\tascent, _, _, _ := firstLine.Heights(t.WritingMode)", "E3.line-heights"},
	},
	"C17": {
		{"feasibility decided by the deactivation flag (seed C17o)", "text/linebreak.go", `if -1\.0 <= ratio && ratio <= tolerance \{`, "if !tooLong && ratio <= tolerance {", "E4.feasible-window"},
		{"first line exempt from the fitness charge (seed C17n)", "text/linebreak.go", `if 1\.0 < math\.Abs\(float64\(c-active\.Fitness\)\) \{`, "if 0 < active.Line && 1.0 < math.Abs(float64(c-active.Fitness)) {", "E4.fitness-charge-on-classes-only"},
		{"glue after a forbidden penalty tried as a breakpoint", "text/linebreak.go", `if 0 < b && lb\.items\[b-1\]\.Type == BoxType && \(`, "if 0 < b && lb.items[b-1].Type != GlueType && (", "E4.glue-after-box"},
		{"node dropped at a penalty because of the penalty's own width", "text/linebreak.go", `tooLong = lb\.width < \(lb\.W-active\.W\)-\(lb\.Z-active\.Z\)`, "tooLong = true", "E4.deactivation-without-penalty-width"},
		{"line width computed at node creation", "text/linebreak.go", `(Fitness:  c,\n\t+)Width:    width,\n`, "${1}Width:    width - A[c].W,\n", "E11.break-width"},
		{"start node taken for a flagged break", "text/linebreak.go", `if 0 < active\.Line && lb\.items\[active\.Position\]\.Flagged && item\.Flagged \{`, "if lb.items[active.Position].Flagged && item.Flagged {", "E4.flagged-pair-real-break"},
		{"InsertBefore links the old head one way", "text/linebreak.go", `(\t\tat\.prev\.next = b\n)\t\}\n\tat\.prev = b\n`, "${1}\t\tat.prev = b\n\t}\n", "E4.list-links"},
		{"ratio of a fitness class recorded only for the overall cheapest candidate", "text/linebreak.go", `(?s)\t\t\t\t\tD\[c\] = demerits\n\t\t\t\t\tA\[c\] = active\n\t\t\t\t\tR\[c\] = ratio\n\t\t\t\t\tif demerits < Dmin \{\n\t\t\t\t\t\tDmin = demerits\n`, "\t\t\t\t\tD[c], A[c] = demerits, active\n\t\t\t\t\tif demerits < Dmin {\n\t\t\t\t\t\tDmin, R[c] = demerits, ratio\n", "E4.class-records-together"},
		{"next stretch limit recorded in the else of the deactivation test", "text/linebreak.go", `(?s)(\t\t\t\tlb\.inactiveNodes\.Push\(active\)\n\t\t\t\})(\n\t\t\tif -1\.0 <= ratio && ratio <= tolerance \{.*?\n\t\t\t)\} else if tolerance < ratio \{\n[^\n]*\n\t\t\t\tlb\.nextTolerance = math\.Min\(lb\.nextTolerance, ratio\)\n\t\t\t\}`, "$1 else if tolerance < ratio {\n\t\t\t\tlb.nextTolerance = math.Min(lb.nextTolerance, ratio)\n\t\t\t}$2}", "E4.next-tolerance-recorded"},
		{"penalty width added to the running total during mainLoop", "text/linebreak.go", `(func \(lb \*linebreaker\) mainLoop\(b int, tolerance float64\) \{\n\titem := lb\.items\[b\]\n\tactive := lb\.activeNodes\.head\n)`, "${1}\tif item.Type == PenaltyType {\n\t\tdefer func(W float64) { lb.W = W }(lb.W)\n\t\tlb.W += item.Width\n\t}\n", "E4.running-totals-fixed"},
		{"flagged-break demerit added first and overwritten by the else branch", "text/linebreak.go", `(?s)(\t\t\t\tdemerits := 0\.0\n)(.*?)(\t\t\t\tif 0 < active\.Line && lb\.items\[active\.Position\]\.Flagged && item\.Flagged \{\n\t\t\t\t\tdemerits \+= DemeritsFlagged\n\t\t\t\t\}\n)`, "${1}\t\t\t\tif 0 < active.Line && lb.items[active.Position].Flagged && item.Flagged {\n\t\t\t\t\tdemerits = DemeritsFlagged\n\t\t\t\t}\n${2}", "E11.sum-not-overwritten"},
		{"inactive nodes kept across a forced break", "text/linebreak.go", `(?s)\t\tif item\.Type == PenaltyType && item\.Penalty <= -Infinity \{\n\t\t\t// no line spans a forced break: the nodes before it cannot start a later line\n\t\t\tlb\.inactiveNodes = &Breakpoints\{\}\n\t\t\}\n`, "", "E4.forced-break-forgets"},
		{"inactive nodes dropped only at forced breaks that carry a width", "text/linebreak.go", `(?s)(\t\tif item\.Type == PenaltyType && item\.Penalty <= -Infinity) (\{\n\t\t\t// no line spans a forced break)`, "${1} && item.Width != 0.0 ${2}", "E4.forced-break-forgets"},
		{"unstretchable line tested on the running stretch sum", "text/linebreak.go", `if lb\.Y-active\.Y == 0\.0 \{`, "if lb.Y == 0.0 {", "E4.zero-guard-is-divisor"},
		{"overflow breakpoint takes the running totals", "text/linebreak.go", `(\t\t\t\t\t\t\tWidth:    width,\n)\t\t\t\t\t\t\tW:        W,\n\t\t\t\t\t\t\tY:        Y,\n\t\t\t\t\t\t\tZ:        Z,\n(\t\t\t\t\t\t\tRatio:    0\.0,)`, "${1}\t\t\t\t\t\t\tW:        lb.W,\n\t\t\t\t\t\t\tY:        lb.Y + 0*Y + 0*W,\n\t\t\t\t\t\t\tZ:        lb.Z + 0*Z,\n${2}", "E11.break-sums"},
		{"forced break deactivates feasible nodes only", "text/linebreak.go", `\t\t\tif tooLong \|\| item\.Type == PenaltyType && item\.Penalty <= -Infinity \{\n\t\t\t\tlb\.activeNodes\.Remove\(active\)\n\t\t\t\tlb\.inactiveNodes\.Push\(active\)\n\t\t\t\}\n`, "\t\t\tif tooLong || ratio <= tolerance && item.Type == PenaltyType && item.Penalty <= -Infinity {\n\t\t\t\tlb.activeNodes.Remove(active)\n\t\t\t\tlb.inactiveNodes.Push(active)\n\t\t\t}\n", "E4.forced-break-deactivates"},
		{"break list sized before looseness picks the node", "text/linebreak.go", `(?s)\tif looseness != 0 \{\n\t\ts := 0\n\t\tk := b\.Line\n(.*?)breaks := make\(\[\]\*Breakpoint, b\.Line\+1\)`, "\tk := b.Line\n\tif looseness != 0 {\n\t\ts := 0\n${1}breaks := make([]*Breakpoint, k+1)", "E4.alloc-covers-index"},
		{"break list one entry short", "text/linebreak.go", `breaks := make\(\[\]\*Breakpoint, b\.Line\+1\)`, "breaks := make([]*Breakpoint, b.Line)", "E4.alloc-covers-index"},
		{"Linebreak looks at items[b-1] unguarded", "text/linebreak.go", `if 0 < b && lb\.items\[b-1\]\.Type == BoxType`, `if lb.items[b-1].Type == BoxType`, "E4.neighbour-guard"},
		{"Linebreak looks at items[b+1] unguarded", "text/linebreak.go", `\(len\(lb\.items\) <= b\+1 \|\| lb\.items\[b\+1\]\.Type != PenaltyType\)`, `lb.items[b+1].Type != PenaltyType`, "E4.neighbour-guard"},
	},
	"C18": {
		{"high byte of the glyph code written past the escape chain (seed C18r)", "renderers/pdf/writer.go", `for _, c := range \[\]uint8\{uint8\(\(glyphID & 0xff00\) >> 8\), uint8\(glyphID & 0x00ff\)\} \{`, "w.WriteByte(uint8(glyphID >> 8))\n\t\t\t\tfor _, c := range []uint8{uint8(glyphID & 0x00ff)} {", "E5.string-bytes-escaped"},
		{"Tf skipped when the direction changes to a horizontal one (seed C18q)", "renderers/pdf/writer.go", `w\.fontSize != size \|\| w\.fontDirection != direction \{`, "w.fontSize != size || (direction == canvasText.TopToBottom || direction == canvasText.BottomToTop) && w.fontDirection != direction {", "E5.memo-test-covers-fields"},
		{"pending widths flushed only before a run that differs from /DW (seed C18p)", "renderers/pdf/writer.go", `\n\t\t\t\tif i < j \{\n`, "\n\t\t\t\tif i < j && widths[j] != DW {\n", "E5.w-array-pending-flushed"},
		{"CIDToGIDMap high byte taken from the code", "renderers/pdf/writer.go", `cidToGIDMap\[j\+0\] = byte\(\(glyphID & 0xFF00\) >> 8\)`, "cidToGIDMap[j+0] = byte((subsetGlyphID & 0xFF00) >> 8)", "E5.cid-to-gid-entries"},
		{"width table read from the embedded program by code", "renderers/pdf/writer.go", `for subsetGlyphID, glyphID := range glyphIDs \{\n\t\twidths\[subsetGlyphID\] = int\(f\*float64\(font\.SFNT\.GlyphAdvance\(glyphID\)\) \+ 0\.5\)`, "for subsetGlyphID := range glyphIDs {\n\t\twidths[subsetGlyphID] = int(f*float64(sfnt.GlyphAdvance(uint16(subsetGlyphID))) + 0.5)", "E5.width-id-space"},
		{"WalkSpans swaps the face offsets in vertical modes", "text.go", `callback\(line\.y\+xOffset, -span\.X\+yOffset, span\)`, "callback(line.y-yOffset, -span.X-xOffset, span)", "E11.span-offset-axes"},
		{"all bfchar entries in one block", "renderers/pdf/writer.go", `block := bfChar\[i:min\(i\+100, len\(bfChar\)\)\]`, "block := bfChar[i:]", "E5.cmap-block-limit"},
		{"kerning adjustment truncated toward zero", "renderers/pdf/writer.go", `int\(math\.Round\(f \* float64\(kern\)\)\)|int\(math\.Round\(f\*float64\(kern\)\)\)`, "int(f*float64(kern) + 0.5)", "E5.signed-rounding"},
		{"font names remembered per document, numbered per page", "renderers/pdf/writer.go", `(?s)(func \(w \*pdfPageWriter\) SetFont\(.*?)\t\t\} else \{\n\t\t\tfor name, fontRef := range w\.resources\["Font"\]\.\(pdfDict\) \{.*?\n\t\t\}\n\n\t\tname := (pdfName\(fmt\.Sprintf\("F%d", len\(w\.resources\["Font"\]\.\(pdfDict\)\)\)\))\n`, "var fontNames = map[pdfRef]pdfName{}\n\n${1}\t\t}\n\n\t\tname, ok := fontNames[ref]\n\t\tif !ok {\n\t\t\tname = ${2}\n\t\t\tfontNames[ref] = name\n\t\t}\n", "E5.name-memo-scope"},
		{"control bytes of glyph codes written as unpadded octal escapes", "renderers/pdf/writer.go", `(?s)(glyphID := subset\.Get\(glyph\.ID\).*?\t\t\t\t\t\tw\.WriteByte\('\\\\'\)\n\t\t\t\t\t\tw\.WriteByte\(c\)\n)(\t\t\t\t\t\} else \{)`, "${1}\t\t\t\t\t} else if 0 < c && c < ' ' {\n\t\t\t\t\t\tfmt.Fprintf(w, \"\\\\%o\", c)\n${2}", "E5.glyph-string-escapes"},
		{"glyph offsets added to the pen", "font.go", `(?s)\t\terr := face\.Font\.GlyphPath\(p, glyph\.ID, ppem, f\*float64\(x\+glyph\.XOffset\), f\*float64\(y\+glyph\.YOffset\), f, font\.NoHinting\)\n`, "\t\tx, y = x+glyph.XOffset, y+glyph.YOffset\n\t\terr := face.Font.GlyphPath(p, glyph.ID, ppem, f*float64(x), f*float64(y), f, font.NoHinting)\n", "E11.pen-advances-only"},
		{"SetFont forgets the direction", "renderers/pdf/writer.go", `\t\tw\.font = font\n\t\tw\.fontSize = size\n\t\tw\.fontDirection = direction\n`, "\t\tw.font, w.fontSize = font, size\n", "E6.memo-stores-compared"},
		{"default width taken from the most common glyph", "renderers/pdf/writer.go", `\tDW := widths\[0\]\n`, "\tDW, counts := widths[0], map[int]int{}\n\tfor _, width := range widths[1:len(glyphIDs)] {\n\t\tcounts[width]++\n\t\tif counts[DW] < counts[width] {\n\t\t\tDW = width\n\t\t}\n\t}\n", "E5.default-width"},
		{"ToUnicode run continues across skipped glyphs", "renderers/pdf/writer.go", `(?s)if 0x010000 <= unicode && unicode <= 0x10FFFF \{(.*?)if uint16\(subsetGlyphID\+1\) == startGlyphID\+length && unicode == startUnicode\+uint32\(length\) \{`, "if unicode == 0 {\n\t\t\tcontinue\n\t\t} else if 0x010000 <= unicode && unicode <= 0x10FFFF {${1}if unicode == startUnicode+uint32(length) {", "E11.run-covers-codes"},
		{"vertical TJ adjustment against the horizontal advance", "renderers/pdf/writer.go", `origYAdvance := -int32\(w\.font\.SFNT\.GlyphVerticalAdvance\(glyph\.ID\)\)`, "origYAdvance := -int32(w.font.SFNT.GlyphAdvance(glyph.ID))", "E11.advance-axis"},
		{"text matrix shear entry not compared", "renderers/pdf/writer.go", ` && canvas\.Equal\(m\[0\]\[1\], w\.textPosition\[0\]\[1\]\)`, "", "E5.text-matrix"},
		{"sub/superscript size scaled after MmPerEm", "font.go", `\t\tface\.YOffset = int32\(float64\(yOffset\) / scale\)\n\t\}\n\tface\.MmPerEm = face\.Size / float64\(face\.Font\.Head\.UnitsPerEm\)\n\treturn face\n`, "\t\tface.YOffset = int32(float64(yOffset) / scale)\n\t}\n\tface.MmPerEm = face.Size / float64(face.Font.Head.UnitsPerEm)\n\tif face.Variant == FontSubscript {\n\t\tface.Size *= 0.999\n\t}\n\treturn face\n", "E11.derived-scale"},
		{"W range entry carries the next run's width", "renderers/pdf/writer.go", `W = append\(W, j, k-1, widths\[j\]\)`, "W = append(W, j, k-1, width)", "E5.w-run"},
		{"trailing W entry stops at the sentinel", "renderers/pdf/writer.go", `for _, w := range widths\[i:\] \{`, "for _, w := range widths[i:j] {", "E5.w-run"},
		{"subsetter re-created per writing direction", "renderers/pdf/writer.go", `\tif _, ok := w\.fontSubset\[font\]; !ok \{\n(.*\n)?\t\tw\.fontSubset\[font\] = canvas\.NewFontSubsetter\(\)\n\t\}\n`, "\tw.fontSubset[font] = canvas.NewFontSubsetter()\n", "E5.subset-once"},
		{"subsetter starts empty", "font.go", `IDs:   \[\]uint16\{0\}, // \.notdef should always be at zero`, `IDs:   []uint16{},`, "E11.subsetter"},
		{"Get records the mapping before appending", "font.go", `\tsubsetGlyphID := uint16\(len\(subsetter\.IDs\)\)\n\tsubsetter\.IDs = append\(subsetter\.IDs, glyphID\)\n`, "\tsubsetter.IDs = append(subsetter.IDs, glyphID)\n\tsubsetGlyphID := uint16(len(subsetter.IDs))\n", "E11.subsetter"},
		{"vertical fonts written as horizontal", "renderers/pdf/writer.go", `w\.writeFonts\(w\.fontsV, true\)`, `w.writeFonts(w.fontsV, false)`, "E5.fontmaps"},
	},
	"C19": {
		{"stroke-miterlimit forgotten while a round join is current (seed C19q)", "svg.go", `(\t\tsvg\.state\.strokeMiterLimit = svg\.parseDimension\(val, svg\.diagonal\)\n)`, "\t\tif _, ok := svg.ctx.StrokeJoiner.(RoundJoiner); ok {\n\t\t\treturn\n\t\t}\n${1}", "E11.svg-miterlimit-carried"},
		{"pairs after a relative moveto read as absolute (seed C19p)", "path.go", `(\t\t\t\tp1 = p1\.Add\(p0\)\n\t\t\t\tcmd = )'l'`, "${1}'L'", "E11.implicit-lineto-relativity"},
		{"descendant combinator commits to the nearest matching ancestor (seed C19o)", "svg.go", `\t\t\tif sels\.appliesAt\(isel-1, elems, j\) \{\n\t\t\t\treturn true\n\t\t\t\}\n`, "\t\t\tif sels[isel-1].AppliesTo(elems[j]) {\n\t\t\t\treturn sels.appliesAt(isel-1, elems, j)\n\t\t\t}\n", "E11.selector-backtracks"},
		{"a sign does not start a new number", "svg.go", `(?s)\t\tcase \(ch == '-' \|\| ch == '\+'\) && 0 < i && \('0' <= v\[i-1\] && v\[i-1\] <= '9' \|\| v\[i-1\] == '\.'\):\n\t\t\tsb\.WriteByte\(','\)\n\t\t\tsb\.WriteByte\(ch\)\n`, "", "E11.number-list-separators"},
		{"style element read whatever closed its start tag", "svg.go", `if tt != xml\.StartTagCloseVoidToken \{ // <style/> has no content and no end tag`, "if true {", "E11.svg-style-element"},
		{"imported dashes left in user units", "svg.go", `svg\.ctx\.Style\.DashOffset, svg\.ctx\.Style\.Dashes = ScaleDash\(1\.0/w, offset, dashes\)`, "svg.ctx.Style.DashOffset, svg.ctx.Style.Dashes = ScaleDash(1.0, offset, dashes)", "E11.svg-dash-units"},
		{"dasharray through SetDashes resets the dash offset", "svg.go", `svg\.ctx\.Style\.Dashes = svg\.parsePoints\(val\)`, "svg.ctx.SetDashes(0.0, svg.parsePoints(val)...)", "E11.svg-attribute-independence"},
		{"RotateAbout corrects the translation of an identity receiver only", "util.go", `return m\.Translate\(x, y\)\.Rotate\(rot\)\.Translate\(-x, -y\)`, "m = m.Rotate(rot)\n\tp := m.Dot(Point{x, y})\n\tm[0][2] += x - p.X\n\tm[1][2] += y - p.Y\n\treturn m", "E11."},
		{"a repeated close forgets the removed sub-path", "path.go", `(?s)\t\t\tif wasEmptyClosed \{.*?\} else \{\n\t\t\t\t(p1 = p\.StartPos\(\)\n)\t\t\t\t(p\.Close\(\)\n)\t\t\t\t(emptyClosed = !p\.Pos\(\)\.Equals\(p1\)\n)\t\t\t\}\n`, "\t\t\t_ = wasEmptyClosed\n\t\t\t${1}\t\t\t${2}\t\t\t${3}", "E11.empty-close-keeps-position"},
		{"rgba premultiplied before the alpha is parsed", "svg.go", `(\t\tcol\.A = svg\.parseAlphaComponent\(comps\[3\]\)\n)(\t\tcol\.R = [^\n]*\n\t\tcol\.G = [^\n]*\n\t\tcol\.B = [^\n]*\n)`, "${2}${1}", "E11.zero-factor"},
		{"parser forgets the position of an empty closed sub-path (reverts fix db9f29f)", "path.go", `\t\t\temptyClosed = !p\.Pos\(\)\.Equals\(p1\)\n`, "", "E11.empty-close-keeps-position"},
		{"viewBox origin put into the coordinate view", "svg.go", `m := Identity\.Scale\(width/viewbox\[2\], height/viewbox\[3\]\)\.Translate\(-viewbox\[0\], -viewbox\[1\]\)\n\t\tsvg\.ctx\.SetView\(m\)`, "m := Identity.Scale(width/viewbox[2], height/viewbox[3])\n\t\tsvg.ctx.SetView(m)\n\t\tsvg.ctx.SetCoordView(Identity.Translate(-viewbox[0], -viewbox[1]))", "E11.viewbox-in-one-matrix"},
		{"viewBox split at single spaces (reverts fix 67b6a25)", "svg.go", `(?s)vals := strings\.FieldsFunc\(attrViewBox, func\(r rune\) bool \{\n[^\n]*\n\t\t\}\)`, "vals := strings.Split(attrViewBox, \" \")", "E11.viewbox-separators"},
		{"empty attribute value taken for a missing one", "svg.go", `if len\(val\) < 2 \{`, "if len(val) <= 2 {", "E11.empty-value-accepted"},
		{"alpha of #rgba mixes in the red digit (reverts fix 7fac093)", "colors.go", `a := float64\(h\[3\]\*16\+h\[3\]\) / 255\.0`, "a := float64(h[3]*16+h[0]) / 255.0", "E11.hex-digit-pairs"},
		{"stroke-linecap butt left out as the default", "svg.go", `if val == "butt" \{\n\t\t\tsvg\.ctx\.SetStrokeCapper\(ButtCap\)\n\t\t\} else if val == "round" \{`, "if val == \"round\" {", "E11.svg-keyword-initial"},
		{"percentages relative to the pixel size under a viewBox", "svg.go", `svg\.width, svg\.height = viewbox\[2\], viewbox\[3\]`, "svg.width, svg.height = width*96.0/25.4, height*96.0/25.4", "E11.percent-reference"},
		{"selector matcher starts at the root element", "svg.go", `return sels\.appliesAt\(len\(sels\)-1, elems, len\(elems\)-1\)`, "return sels.appliesAt(len(sels)-1, elems, 0)", "E11.selector-subject"},
		{"arcs join installs the predefined joiner", "svg.go", `svg\.ctx\.SetStrokeJoiner\(ArcsJoiner\{BevelJoin, svg\.state\.strokeMiterLimit\}\)`, "svg.ctx.SetStrokeJoiner(ArcsJoin)", "E11.svg-miterlimit-carried"},
		{"stroke-miterlimit patches miter joins only", "svg.go", `(?s) else if arcs, ok := svg\.ctx\.StrokeJoiner\.\(ArcsJoiner\); ok \{\n\t\t\tarcs\.Limit = svg\.state\.strokeMiterLimit\n\t\t\tsvg\.ctx\.SetStrokeJoiner\(arcs\)\n\t\t\}`, "", "E11.svg-miterlimit-carried"},
		{"explicit miter join installs the predefined joiner", "svg.go", `svg\.ctx\.SetStrokeJoiner\(MiterJoiner\{BevelJoin, svg\.state\.strokeMiterLimit\}\)`, "svg.ctx.SetStrokeJoiner(MiterJoin)", "E11.svg-miterlimit-carried"},
		{"importer without the hash-token branch", "svg.go", `(?s)\} else if t\.TokenType == css\.HashToken \{.*?\n\t\t\t\t\} else if`, "} else if", "E11.selector-hash"},
		{"id selector keeps the leading #", "svg.go", `attr: "id", val: string\(t\.Data\[1:\]\)`, `attr: "id", val: string(t.Data)`, "E11.selector-hash"},
		{"class selector looks at the first word only", "svg.go", `(?s)\t\tfor _, val := range vals \{\n\t\t\tif val != "" && val == sel\.val \{\n\t\t\t\treturn true\n\t\t\t\}\n\t\t\}\n\t\treturn false\n`, "\t\treturn len(vals) > 0 && vals[0] == sel.val\n", "E11.word-list-match"},
		{"style-sheet rules applied before the attributes", "svg.go", `(?s)(\t// apply presentation attributes in order\n\tfor _, prop := range props \{\n\t\tif prop\.key != "style" \{\n\t\t\tsvg\.setAttribute\(prop\.key, prop\.val\)\n\t\t\}\n\t\}\n\n)(\t// apply CSS from <style>\n.*?\n\t\}\n\n)(\t// apply the style attribute)`, "${2}${1}${3}", "E11.svg-cascade"},
		{"transform names trimmed of white space only", "svg.go", "fun = strings\\.ToLower\\(strings\\.Trim\\(v\\[j:i\\], \" \\\\t\\\\r\\\\n,\"\\)\\)", "fun = strings.ToLower(strings.TrimSpace(v[j:i]))", "E11.svg-transform-separator"},
		{"importer loses its fill-rule case", "svg.go", `\tcase "fill-rule":\n\t\tif val == "evenodd" \{\n\t\t\tsvg\.ctx\.SetFillRule\(EvenOdd\)\n\t\t\} else if val == "nonzero" \{\n\t\t\tsvg\.ctx\.SetFillRule\(NonZero\)\n\t\t\}\n`, "", "E11.svg-vocabulary"},
		{"rgba alpha parsed as an integer component", "svg.go", `col\.A = svg\.parseAlphaComponent\(comps\[3\]\)`, "col.A = svg.parseColorComponent(comps[3])", "E11.svg-color-grammar"},
		{"viewBox width read as max-x", "svg.go", `m := Identity\.Scale\(width/viewbox\[2\], height/viewbox\[3\]\)`, "m := Identity.Scale(width/(viewbox[2]-viewbox[0]), height/viewbox[3])", "E11.viewbox-extent"},
		{"matrix() transform read row by row", "svg.go", `m = m\.Mul\(Matrix\{\{d\[0\], d\[2\], d\[4\]\}, \{d\[1\], d\[3\], d\[5\]\}\}\)`, "m = m.Mul(Matrix{{d[0], d[1], d[4]}, {d[2], d[3], d[5]}})", "E11.svg-transform"},
		{"stroke-dasharray refills the inherited slice", "svg.go", `\t\t\tsvg\.ctx\.Style\.Dashes = svg\.parsePoints\(val\)\n`, "\t\t\tsvg.ctx.Style.Dashes = append(svg.ctx.Style.Dashes[:0], svg.parsePoints(val)...)\n", "E11.state-slice-reuse"},
		{"height decided by the width attribute", "svg.go", `if attrHeight != "" && !strings\.HasSuffix\(attrHeight, "%"\) \{`, "if attrHeight != \"\" && !strings.HasSuffix(attrWidth, \"%\") {", "E11.viewbox-mirror"},
		{"parsePoints fills a package-level scratch buffer", "svg.go", `func \(svg \*svgParser\) parsePoints\(v string\) \[\]float64 \{\n((?:.*\n)+?)\tvals := \[\]float64\{\}\n`, "var scratchNumbers []float64\n\nfunc (svg *svgParser) parsePoints(v string) []float64 {\n$1\tvals := scratchNumbers[:0]\n", "E11.returned-scratch"},
		{"miter limit written into the asserted copy only", "svg.go", `\t\t\tmiter\.Limit = svg\.state\.strokeMiterLimit\n\t\t\tsvg\.ctx\.SetStrokeJoiner\(miter\)\n`, "\t\t\tmiter.Limit = svg.state.strokeMiterLimit\n", "E11.copy-store"},
		{"translate(tx) moves along both axes", "svg.go", `m = m\.Translate\(d\[0\], 0\.0\)`, "m = m.Translate(d[0], d[0])", "E11.svg-transform"},
		{"matrix() transposed", "svg.go", `Matrix\{\{d\[0\], d\[2\], d\[4\]\}, \{d\[1\], d\[3\], d\[5\]\}\}`, "Matrix{{d[0], d[1], d[4]}, {d[2], d[3], d[5]}}", "E11.svg-transform"},
		{"rotate accepts two arguments", "svg.go", `if len\(d\) != 1 && len\(d\) != 3 \{`, "if len(d) < 1 || 3 < len(d) {", "E11.svg-transform"},
		{"CSS selector buffer re-used", "svg.go", `selectors = selectors\[:0:0\]`, `selectors = selectors[:0]`, "E11.reuse-after-escape"},
		{"pica is 1/12 inch", "svg.go", `return num \* 96\.0 / 6\.0`, `return num * 96.0 / 12.0`, "E11.svg-dimension"},
		{"importer keeps y up", "svg.go", `svg\.ctx\.SetCoordSystem\(CartesianIV\)`, `svg.ctx.SetCoordSystem(CartesianI)`, "E11.svg-size"},
		{"explicit width used as millimetres", "svg.go", `width = svg\.parseDimension\(attrWidth, 1\.0\) \* 25\.4 / 96\.0`, `width = svg.parseDimension(attrWidth, 1.0)`, "E11.svg-size"},
	},
	"C20": {
		{"PDF renderer keeps the caller's Options (reverts fix 9df3b1f)", "renderers/pdf/pdf.go", `(?s) else \{\n\t\t// the renderer changes its options.*?\n\t\topts = &o\n\t\}`, "", "E7.options-copied"},
		{"shared shaping face built with NewFace", "text/harfbuzz.go", `&typesettingFont\.Face\{Font: font\}`, "typesettingFont.NewFace(font)", "E7.face-without-cache"},
		{"faux bold toggles the package-level FastStroke", "font.go", `(\t+)p = p\.Offset\(d, Tolerance\)\n`, "${1}fastStroke := FastStroke\n${1}FastStroke = true\n${1}p = p.Offset(d, Tolerance)\n${1}FastStroke = fastStroke\n", "E7.global"},
		{"hyphen width memoised per font without the size", "text/linebreak.go", `(?s)(\t"math"\n)(.*?)(// GlyphsToItems converts a slice of glyphs.*?)(\t\t\t\thyphenWidth \*= glyph\.Size / float64\(glyph\.SFNT\.Head\.UnitsPerEm\)\n)`, "${1}\t\"sync\"\n${2}var hyphenWidths sync.Map\n\n${3}${4}\t\t\t\thyphenWidths.Store(glyph.SFNT, hyphenWidth)\n", "E7.memo-key"},
		{"image pixel buffers recycled without zeroing", "renderers/pdf/writer.go", `(?s)(\t"strings"\n)(.*?)(func \(w \*pdfPageWriter\) embedImage\(.*?)stream = make\(\[\]byte, size\.X\*size\.Y\*3\)`, "${1}\t\"sync\"\n${2}var imageBufPool sync.Pool\n\nfunc getImageBuf(n int) []byte {\n\tif buf, ok := imageBufPool.Get().(*[]byte); ok && n <= cap(*buf) {\n\t\treturn (*buf)[:n]\n\t}\n\treturn make([]byte, n)\n}\n\n${3}stream = getImageBuf(size.X * size.Y * 3)\n\t\tdefer func() { imageBufPool.Put(\u0026stream) }()", "E7.pool-reinit"},
		{"nil-options PDF renderer keeps the address of DefaultOptions", "renderers/pdf/pdf.go", `\t\tdefaultOptions := DefaultOptions\n\t\topts = &defaultOptions\n`, "\t\topts = &DefaultOptions\n", "E7.global-escape"},
		{"sweep points released with their square", "path_intersection.go", `\t\tfor _, event := range square\.Events \{\n\t\t\tif !event\.left \{\n\t\t\t\tboPointPool\.Put\(event\.other\)\n\t\t\t\tboPointPool\.Put\(event\)\n\t\t\t\}\n\t\t\}\n\t\tboSquarePool\.Put\(square\)`, "\t\tfor _, event := range square.Events {\n\t\t\tboPointPool.Put(event)\n\t\t}\n\t\tboSquarePool.Put(square)", "E7.point-release"},
		{"recycled node keeps its left child", "path_intersection.go", `\tn\.left = nil\n`, ``, "E7.pool-reinit"},
		{"Flatten writes a package variable", "path.go", `func \(p \*Path\) Flatten\(tolerance float64\) \*Path \{\n`, "func (p *Path) Flatten(tolerance float64) *Path {\n\tTolerance = tolerance\n", "E7.global"},
		{"Face tie-break removed", "font.go", `if diff < minDiff \|\| diff == minDiff && style < minStyle \{`, `if diff < minDiff {`, "E7.map-order"},
		{"PDF writer drops the glyph names of the shared font again", "renderers/pdf/writer.go", `\t\t\tcff\.SetGlyphNames\(nil\)\n`, "\t\t\tcff.SetGlyphNames(nil)\n\t\t\tfont.SFNT.CFF.SetGlyphNames(nil)\n", "E1.font-lib"},
		{"FontFace.Metrics caches into the shared font", "font.go", `func \(face \*FontFace\) Metrics\(\) FontMetrics \{\n`, "func (face *FontFace) Metrics() FontMetrics {\n\tface.Font.SFNT.Length++\n", "E1.shared-font"},
		{"system font cache read without the lock", "font.go", `\tsystemFonts\.Lock\(\)\n\tif systemFonts\.SystemFonts == nil \{`, "\tif systemFonts.SystemFonts == nil {", "E7.global"},
	},
}

type mutantResult struct {
	Name    string   `json:"name"`
	Status  string   `json:"status"` // killed | survived | stale | invalid
	Expect  string   `json:"expect"`
	FiredBy []string `json:"fired_by,omitempty"`
	Detail  string   `json:"detail,omitempty"`
}

// runMutant is the sub-process entry point: canvascheck mutant <property> <index|negctl>
func runMutant(args []string) int {
	if len(args) != 2 {
		return 2
	}
	prop, ok := Properties[args[0]]
	if !ok {
		return 2
	}
	repo := core.RepoDirFromEnv()
	res := mutantResult{}
	overlay := map[string][]byte{}
	_, isCtl := negativeControls[args[1]]
	if ctl, ok := negativeControls[args[1]]; ok {
		res.Name, res.Expect = "negative control: "+ctl.name, "(silence)"
		ov, err := rewriteOverlay(repo, ctl.rules)
		if err != nil {
			res.Status, res.Detail = "invalid", err.Error()
			return emit(res)
		}
		overlay = ov
	} else {
		var idx int
		fmt.Sscanf(args[1], "%d", &idx)
		ms := Mutants[args[0]]
		if idx < 0 || idx >= len(ms) {
			return 2
		}
		m := ms[idx]
		res.Name, res.Expect = m.Name, m.Expect
		path := filepath.Join(repo, m.File)
		b, err := os.ReadFile(path)
		if err != nil {
			res.Status, res.Detail = "stale", err.Error()
			return emit(res)
		}
		re, err := regexp.Compile(m.From)
		if err != nil {
			res.Status, res.Detail = "stale", err.Error()
			return emit(res)
		}
		if n := len(re.FindAllIndex(b, -1)); n != 1 {
			res.Status, res.Detail = "stale", fmt.Sprintf("pattern matches %d times in %s", n, m.File)
			return emit(res)
		}
		overlay[path] = re.ReplaceAll(b, []byte(m.To))
	}
	ctx, err := core.Load(repo, "quick", overlay)
	if err != nil {
		res.Status, res.Detail = "invalid", err.Error()
		return emit(res)
	}
	rep := core.NewReport(args[0])
	func() {
		defer func() {
			if e := recover(); e != nil {
				rep.Infra("panic", fmt.Sprint(e))
			}
		}()
		prop.Run(ctx, rep)
	}()
	rep.CheckFloors()
	vd := os.Getenv("VERIF_DIR")
	if vd == "" {
		vd = "/verif"
	}
	ledger, _ := core.LoadLedger(filepath.Join(vd, "known_findings.json"))
	known := map[string]bool{}
	for _, e := range ledger {
		if e.Status == "known" && e.Property == args[0] {
			known[e.Rule+"|"+e.Construct] = true
		}
	}
	fired := false
	for _, f := range rep.Findings {
		if known[f.Key()] {
			continue
		}
		res.FiredBy = append(res.FiredBy, f.Key())
		if !isCtl && strings.Contains(f.Rule, res.Expect) {
			fired = true
		}
	}
	sort.Strings(res.FiredBy)
	if len(res.FiredBy) > 6 {
		res.FiredBy = append(res.FiredBy[:6], fmt.Sprintf("… %d more", len(res.FiredBy)-6))
	}
	switch {
	case isCtl && len(res.FiredBy) == 0:
		res.Status = "silent"
	case isCtl:
		res.Status = "alarmed"
	case fired:
		res.Status = "killed"
	default:
		res.Status = "survived"
	}
	return emit(res)
}

func emit(r mutantResult) int {
	b, _ := json.Marshal(r)
	fmt.Println("MUTANT-RESULT " + string(b))
	return 0
}

// renameOverlay renames a fixed list of locals with gofmt -r in copies of the module's files.
var negctlRenames = []string{"coord -> cpt", "subsetGlyphID -> sid", "dpmm -> pxPerMm", "xmin -> lox", "ymax -> hiy", "strokeUnsupported -> noNative", "sinphi -> sphi", "cosphi -> cphi",
	"zindices -> zs", "copied -> didCopy", "startTheta -> thetaFrom", "i0 -> idx0", "pos0 -> phase0", "states -> segs", "rhsJoinIndex -> rji", "lineCap -> capCode", "lineJoin -> joinCode",
	"curSeg -> segNo", "objOffset -> off", "dashOffset -> dOff", "tsub -> trel", "pOverlaps -> pTouch", "qOverlaps -> qTouch", "belowFills -> fillsBelow", "aboveFills -> fillsAbove",
	"lowerWindings -> wLo", "upperOtherWindings -> woHi",
	// locals of the functions the later rules look at
	"thetaTop -> angY", "thetaRight -> angX", "dashArray -> dashArr", "totalLength -> period", "widths -> advs", "first -> subStart", "open -> pending",
	"fun -> fnName", "hw -> halfW", "prevCmd -> lastCmd", "repeat -> again", "keepPath -> keep", "sfntSubset -> sub", "glyphIDs -> gids"}

// negativeControls are behaviour-preserving rewrites of the whole module (gofmt -r) on which
// every check has to stay silent.
var negativeControls = map[string]struct {
	name  string
	rules []string
}{
	"negctl":         {"locals renamed", negctlRenames},
	"negctl-flip":    {"every comparison written the other way round (a < b as b > a, a == b as b == a)", []string{"a < b -> b > a", "a <= b -> b >= a", "a == b -> b == a", "a != b -> b != a"}},
	"negctl-commute": {"factors of products and arguments of math.Min/Max swapped", []string{"math.Min(a, b) -> math.Min(b, a)", "math.Max(a, b) -> math.Max(b, a)", "a * b -> b * a"}},
	"negctl-half":    {"halving written as a product (x / 2.0 as x * 0.5)", []string{"a / 2.0 -> a * 0.5"}},
}

func rewriteOverlay(repo string, rules []string) (map[string][]byte, error) {
	tmp, err := os.MkdirTemp("", "canvascheck-negctl")
	if err != nil {
		return nil, err
	}
	defer os.RemoveAll(tmp)
	overlay := map[string][]byte{}
	var files []string
	for _, rel := range modulePkgRels {
		matches, _ := filepath.Glob(filepath.Join(repo, rel, "*.go"))
		for _, f := range matches {
			if strings.HasSuffix(f, "_test.go") {
				continue
			}
			files = append(files, f)
		}
	}
	// copy, rewrite, read back
	var copies []string
	for i, f := range files {
		b, err := os.ReadFile(f)
		if err != nil {
			return nil, err
		}
		cp := filepath.Join(tmp, fmt.Sprintf("f%03d.go", i))
		if err := os.WriteFile(cp, b, 0o644); err != nil {
			return nil, err
		}
		copies = append(copies, cp)
	}
	for _, r := range rules {
		args := append([]string{"-r", r, "-w"}, copies...)
		if out, err := exec.Command("gofmt", args...).CombinedOutput(); err != nil {
			return nil, fmt.Errorf("gofmt -r %q: %v: %s", r, err, out)
		}
	}
	for i, f := range files {
		b, err := os.ReadFile(copies[i])
		if err != nil {
			return nil, err
		}
		overlay[f] = b
	}
	return overlay, nil
}

// selfValidate runs the property's mutants and the negative control in sub-processes.
func selfValidate(id string, r *core.Report, extra map[string]any) {
	exe, err := os.Executable()
	if err != nil {
		r.Infra("selfcheck", err.Error())
		return
	}
	jobs := []string{"negctl", "negctl-flip", "negctl-commute", "negctl-half"}
	for i := range Mutants[id] {
		jobs = append(jobs, fmt.Sprint(i))
	}
	results := make([]mutantResult, len(jobs))
	var wg sync.WaitGroup
	sem := make(chan struct{}, 6)
	for i, j := range jobs {
		wg.Add(1)
		go func(i int, j string) {
			defer wg.Done()
			sem <- struct{}{}
			defer func() { <-sem }()
			cmd := exec.Command(exe, "mutant", id, j)
			cmd.Env = os.Environ()
			out, err := cmd.CombinedOutput()
			res := mutantResult{Name: "job " + j, Status: "invalid", Detail: "no result line"}
			for _, line := range strings.Split(string(out), "\n") {
				if strings.HasPrefix(line, "MUTANT-RESULT ") {
					json.Unmarshal([]byte(strings.TrimPrefix(line, "MUTANT-RESULT ")), &res)
				}
			}
			if err != nil && res.Detail == "no result line" {
				res.Detail = err.Error() + ": " + lastLines(string(out), 3)
			}
			results[i] = res
		}(i, j)
	}
	wg.Wait()
	killed, total := 0, 0
	for _, res := range results {
		if res.Expect == "(silence)" {
			what := strings.TrimPrefix(res.Name, "negative control: ")
			if res.Status == "silent" {
				r.OK("selfcheck.negative-control", id+"|"+what, "", "no alarm on a behaviour-preserving rewrite of the whole module")
			} else {
				r.Fail("selfcheck.negative-control", id+"|"+what, "", fmt.Sprintf("the check alarms (%s) on a behaviour-preserving copy of the tree (%s): %v %s", res.Status, what, res.FiredBy, res.Detail))
			}
			continue
		}
		total++
		key := id + "|" + res.Name
		switch res.Status {
		case "killed":
			killed++
			r.OK("selfcheck.mutant", key, "", "killed by "+strings.Join(res.FiredBy, "; "))
		case "survived":
			r.Fail("selfcheck.mutant", key, "", fmt.Sprintf("the rule %s did not fire on a mutant that breaks the clause it decides (fired: %v)", res.Expect, res.FiredBy))
		default:
			r.Fail("selfcheck.mutant", key, "", fmt.Sprintf("mutant is %s: %s (the pattern must be refreshed against the current source)", res.Status, res.Detail))
		}
	}
	extra["mutants_total"] = total
	extra["mutants_killed"] = killed
	extra["mutants"] = results
}

func lastLines(s string, n int) string {
	ls := strings.Split(strings.TrimSpace(s), "\n")
	if len(ls) > n {
		ls = ls[len(ls)-n:]
	}
	return strings.Join(ls, " | ")
}
