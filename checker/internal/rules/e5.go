package rules

import (
	"fmt"
	"go/ast"
	"go/constant"
	"go/token"
	"go/types"
	"sort"
	"strings"

	"canvascheck/internal/core"

	"golang.org/x/tools/go/packages"
)

// E5 — PDF writer structure (DESIGN.md §2 E5). All rules are on renderers/pdf.

const pdfRel = "renderers/pdf"

// fieldSel reports whether e selects field `field` of the named struct type `typ` of package p.
func fieldSel(info *types.Info, e ast.Expr, typ, field string) bool {
	se, ok := core.Unparen(e).(*ast.SelectorExpr)
	if !ok {
		return false
	}
	s := info.Selections[se]
	if s == nil || s.Kind() != types.FieldVal || s.Obj().Name() != field {
		return false
	}
	t := s.Recv()
	if p, ok := t.(*types.Pointer); ok {
		t = p.Elem()
	}
	n, ok := t.(*types.Named)
	if !ok {
		return false
	}
	if n.Obj().Name() == typ {
		return true
	}
	// promoted through embedding: check the field's parent struct
	if st, ok := n.Underlying().(*types.Struct); ok {
		for i := 0; i < st.NumFields(); i++ {
			if st.Field(i) == s.Obj() {
				return n.Obj().Name() == typ
			}
		}
	}
	return false
}

func constString(info *types.Info, e ast.Expr) (string, bool) {
	if tv, ok := info.Types[e]; ok && tv.Value != nil && tv.Value.Kind().String() == "String" {
		s := tv.Value.ExactString()
		// ExactString is quoted
		var out string
		if _, err := fmt.Sscanf(s, "%q", &out); err == nil {
			return out, true
		}
	}
	return "", false
}

// E5Position: bytes reach the underlying writer only through write/writeBytes, which track pos.
func E5Position(c *core.Ctx, r *core.Report) {
	r.Rule("E5.sink", "the io.Writer field of pdfWriter is used only inside pdfWriter.write and pdfWriter.writeBytes (and stored by the constructor)")
	r.Rule("E5.pos", "write and writeBytes add the byte count returned by the underlying writer to pos, and pos is assigned nowhere else")
	p := c.MustPkg(pdfRel)
	info := p.TypesInfo
	for _, fd := range core.AllFuncDecls(p) {
		name := core.FuncName(fd)
		r.Func("pdf." + name)
		isSink := name == "pdfWriter.write" || name == "pdfWriter.writeBytes"
		ast.Inspect(fd.Body, func(n ast.Node) bool {
			switch x := n.(type) {
			case *ast.SelectorExpr:
				if fieldSel(info, x, "pdfWriter", "w") {
					r.Count("E5.sink-uses", 1)
					key := "pdf." + name + "|uses pdfWriter.w"
					if isSink {
						r.OK("E5.sink", key, c.Pos(x.Pos()), "")
					} else {
						r.Fail("E5.sink", key, c.Pos(x.Pos()), "writes to the underlying io.Writer outside write/writeBytes bypass the byte position that the xref offsets are taken from")
					}
				}
			case *ast.AssignStmt:
				for _, l := range x.Lhs {
					if fieldSel(info, l, "pdfWriter", "pos") {
						r.Count("E5.pos-stores", 1)
						key := "pdf." + name + "|assigns pdfWriter.pos"
						if !isSink {
							r.Fail("E5.pos", key, c.Pos(x.Pos()), "pos is assigned outside write/writeBytes")
						}
					}
				}
			case *ast.IncDecStmt:
				if fieldSel(info, x.X, "pdfWriter", "pos") && !isSink {
					r.Fail("E5.pos", "pdf."+name+"|assigns pdfWriter.pos", c.Pos(x.Pos()), "pos is modified outside write/writeBytes")
				}
			}
			return true
		})
		if isSink {
			// n, err := <call mentioning w.w>; w.pos += n
			var nObj types.Object
			okAdd := false
			for _, s := range fd.Body.List {
				if as, ok := s.(*ast.AssignStmt); ok && as.Tok == token.DEFINE && len(as.Lhs) == 2 && len(as.Rhs) == 1 {
					uses := false
					ast.Inspect(as.Rhs[0], func(n ast.Node) bool {
						if se, ok := n.(*ast.SelectorExpr); ok && fieldSel(info, se, "pdfWriter", "w") {
							uses = true
						}
						return true
					})
					if id, ok := as.Lhs[0].(*ast.Ident); ok && uses {
						nObj = info.Defs[id]
					}
				}
				if as, ok := s.(*ast.AssignStmt); ok && as.Tok == token.ADD_ASSIGN && len(as.Lhs) == 1 && fieldSel(info, as.Lhs[0], "pdfWriter", "pos") {
					if id, ok := core.Unparen(as.Rhs[0]).(*ast.Ident); ok && nObj != nil && core.ObjOf(info, id) == nObj {
						okAdd = true
					}
				}
			}
			key := "pdf." + name + "|pos += n"
			if okAdd {
				r.OK("E5.pos", key, c.Pos(fd.Pos()), "")
			} else {
				r.Fail("E5.pos", key, c.Pos(fd.Pos()), "the byte count returned by the underlying writer is not added to pos")
			}
		}
	}
	r.Floor("E5.sink-uses", 2)
	r.Floor("E5.pos-stores", 2)
}

// isWriterWrite matches w.write(format, args…) on pdfWriter and returns the constant format.
func isWriterWrite(info *types.Info, call *ast.CallExpr) (string, bool) {
	f := core.CalleeOf(info, call)
	if f == nil || f.Name() != "write" || len(call.Args) == 0 {
		return "", false
	}
	if core.QualifiedCallee(f) != core.Module+"/"+pdfRel+".pdfWriter.write" {
		return "", false
	}
	s, ok := constString(info, call.Args[0])
	return s, ok
}

// E5ObjOffsets: every "n 0 obj" emission is immediately preceded by recording pos at index n-1.
func E5ObjOffsets(c *core.Ctx, r *core.Report) {
	r.Rule("E5.objoffset", "every emission of \"%v 0 obj\" with object number N is immediately preceded, in the same block, by objOffsets[N-1] = pos (or by append(objOffsets, pos) with N = len(objOffsets))")
	p := c.MustPkg(pdfRel)
	info := p.TypesInfo
	for _, fd := range core.AllFuncDecls(p) {
		name := core.FuncName(fd)
		ord := 0
		ast.Inspect(fd.Body, func(n ast.Node) bool {
			bl, ok := n.(*ast.BlockStmt)
			if !ok {
				return true
			}
			for i, s := range bl.List {
				es, ok := s.(*ast.ExprStmt)
				if !ok {
					continue
				}
				call, ok := es.X.(*ast.CallExpr)
				if !ok {
					continue
				}
				format, ok := isWriterWrite(info, call)
				if !ok || !strings.HasPrefix(format, "%v 0 obj") || len(call.Args) != 2 {
					continue
				}
				ord++
				r.Count("E5.obj-emissions", 1)
				key := fmt.Sprintf("pdf.%s|obj emission #%d (%s)", name, ord, types.ExprString(call.Args[1]))
				numArg := call.Args[1]
				bad := "no statement precedes the emission"
				if i > 0 {
					if as, ok := bl.List[i-1].(*ast.AssignStmt); ok && len(as.Lhs) == 1 && len(as.Rhs) == 1 {
						bad = checkOffsetRecord(info, as, numArg)
					} else {
						bad = "the preceding statement does not record the offset"
					}
				}
				if bad == "" {
					r.OK("E5.objoffset", key, c.Pos(call.Pos()), "")
				} else {
					r.Fail("E5.objoffset", key, c.Pos(call.Pos()), bad+"; the xref table would not point at the start of this object")
				}
			}
			return true
		})
	}
	r.Floor("E5.obj-emissions", 5)
}

func checkOffsetRecord(info *types.Info, as *ast.AssignStmt, num ast.Expr) string {
	isPos := func(e ast.Expr) bool { return fieldSel(info, e, "pdfWriter", "pos") }
	// append form
	if fieldSel(info, as.Lhs[0], "pdfWriter", "objOffsets") {
		call, ok := core.Unparen(as.Rhs[0]).(*ast.CallExpr)
		if !ok || len(call.Args) != 2 {
			return "objOffsets is not extended by exactly the current position"
		}
		if id, ok := call.Fun.(*ast.Ident); !ok || id.Name != "append" || !fieldSel(info, call.Args[0], "pdfWriter", "objOffsets") || !isPos(call.Args[1]) {
			return "objOffsets is not extended by the current position"
		}
		// number must be len(w.objOffsets)
		lc, ok := core.Unparen(num).(*ast.CallExpr)
		if !ok || len(lc.Args) != 1 || !fieldSel(info, lc.Args[0], "pdfWriter", "objOffsets") {
			return "object number is not len(objOffsets) after the append"
		}
		if id, ok := lc.Fun.(*ast.Ident); !ok || id.Name != "len" {
			return "object number is not len(objOffsets) after the append"
		}
		return ""
	}
	ie, ok := core.Unparen(as.Lhs[0]).(*ast.IndexExpr)
	if !ok || !fieldSel(info, ie.X, "pdfWriter", "objOffsets") {
		return "the preceding statement does not store into objOffsets"
	}
	if !isPos(as.Rhs[0]) {
		return "the value recorded is not the current byte position"
	}
	// index must equal num-1
	if k, ok := core.ConstInt(info, ie.Index); ok {
		if n, ok := core.ConstInt(info, num); ok && n-1 == k {
			return ""
		}
		return fmt.Sprintf("offset stored at index %d but object number is %s", k, types.ExprString(num))
	}
	if be, ok := core.Unparen(ie.Index).(*ast.BinaryExpr); ok && be.Op == token.SUB {
		if one, ok := core.ConstInt(info, be.Y); ok && one == 1 && types.ExprString(be.X) == types.ExprString(num) {
			return ""
		}
	}
	return fmt.Sprintf("offset stored at index %s but object number is %s", types.ExprString(ie.Index), types.ExprString(num))
}

// refNum extracts N from pdfRef(N).
func refNum(info *types.Info, e ast.Expr) (int64, bool) {
	call, ok := core.Unparen(e).(*ast.CallExpr)
	if !ok || len(call.Args) != 1 {
		return 0, false
	}
	if tv, ok := info.Types[call.Fun]; !ok || !tv.IsType() {
		return 0, false
	}
	if n, ok := info.TypeOf(call).(*types.Named); !ok || n.Obj().Name() != "pdfRef" {
		return 0, false
	}
	return core.ConstInt(info, call.Args[0])
}

func dictEntry(info *types.Info, cl *ast.CompositeLit, key string) ast.Expr {
	for _, el := range cl.Elts {
		if kv, ok := el.(*ast.KeyValueExpr); ok {
			if s, ok := constString(info, kv.Key); ok && s == key {
				return kv.Value
			}
		}
	}
	return nil
}

// E5Reserved: reserved object numbers agree with the references to them.
func E5Reserved(c *core.Ctx, r *core.Report) {
	r.Rule("E5.reserved", "Close writes the catalog, info and page-tree objects under the numbers that the trailer's Root/Info, the catalog's Pages and every page's Parent refer to; the constructor reserves exactly those slots; xref count and trailer Size are the same expression")
	p := c.MustPkg(pdfRel)
	info := p.TypesInfo
	fd := core.MustFuncDecl(p, "pdfWriter.Close")
	r.Func("pdf.pdfWriter.Close")
	// local dict definitions
	defs := map[string]*ast.CompositeLit{}
	ast.Inspect(fd.Body, func(n ast.Node) bool {
		if as, ok := n.(*ast.AssignStmt); ok && as.Tok == token.DEFINE && len(as.Lhs) == 1 && len(as.Rhs) == 1 {
			if id, ok := as.Lhs[0].(*ast.Ident); ok {
				if cl, ok := as.Rhs[0].(*ast.CompositeLit); ok {
					defs[id.Name] = cl
				}
			}
		}
		return true
	})
	nums := map[string]int64{} // role -> object number
	var trailer *ast.CompositeLit
	var xrefCount, sizeExpr string
	list := fd.Body.List
	for i, s := range list {
		es, ok := s.(*ast.ExprStmt)
		if !ok {
			continue
		}
		call, ok := es.X.(*ast.CallExpr)
		if !ok {
			continue
		}
		if format, ok := isWriterWrite(info, call); ok {
			if strings.HasPrefix(format, "%v 0 obj") && len(call.Args) == 2 && i+1 < len(list) {
				n, okN := core.ConstInt(info, call.Args[1])
				if nes, ok := list[i+1].(*ast.ExprStmt); ok && okN {
					if vc, ok := nes.X.(*ast.CallExpr); ok && len(vc.Args) == 1 {
						if f := core.CalleeOf(info, vc); f != nil && f.Name() == "writeVal" {
							arg := core.Unparen(vc.Args[0])
							var cl *ast.CompositeLit
							role := ""
							if id, ok := arg.(*ast.Ident); ok {
								cl = defs[id.Name]
							} else if x, ok := arg.(*ast.CompositeLit); ok {
								cl = x
							}
							if cl != nil {
								if t := dictEntry(info, cl, "Type"); t != nil {
									if tc, ok := t.(*ast.CallExpr); ok && len(tc.Args) == 1 {
										if s, ok := constString(info, tc.Args[0]); ok {
											role = s // Catalog | Pages
										}
									}
								} else if dictEntry(info, cl, "Producer") != nil {
									role = "Info"
								}
							}
							if role != "" {
								nums[role] = n
							}
						}
					}
				}
			}
			if strings.HasPrefix(format, "xref") && len(call.Args) == 2 {
				xrefCount = types.ExprString(call.Args[1])
			}
			if strings.HasPrefix(format, "trailer") && i+1 < len(list) {
				if nes, ok := list[i+1].(*ast.ExprStmt); ok {
					if vc, ok := nes.X.(*ast.CallExpr); ok && len(vc.Args) == 1 {
						trailer, _ = core.Unparen(vc.Args[0]).(*ast.CompositeLit)
						if id, ok := core.Unparen(vc.Args[0]).(*ast.Ident); ok && trailer == nil {
							trailer = defs[id.Name] // the dictionary may be built in a local first
						}
					}
				}
			}
		}
	}
	check := func(key string, ok bool, okNote, bad string, pos token.Pos) {
		r.Count("E5.reserved-checks", 1)
		if ok {
			r.OK("E5.reserved", "pdf.pdfWriter.Close|"+key, c.Pos(pos), okNote)
		} else {
			r.Fail("E5.reserved", "pdf.pdfWriter.Close|"+key, c.Pos(pos), bad)
		}
	}
	for _, role := range []string{"Catalog", "Info", "Pages"} {
		if _, ok := nums[role]; !ok {
			check(role+" object", false, "", "object emission for the "+role+" dictionary not recognised in Close", fd.Pos())
		}
	}
	if trailer == nil {
		check("trailer", false, "", "trailer dictionary not found", fd.Pos())
		return
	}
	if v := dictEntry(info, trailer, "Root"); v != nil {
		n, ok := refNum(info, v)
		check("trailer Root", ok && n == nums["Catalog"], fmt.Sprintf("Root=%d", n), fmt.Sprintf("trailer /Root refers to object %d but the catalog is written as object %d", n, nums["Catalog"]), v.Pos())
	} else {
		check("trailer Root", false, "", "trailer has no Root", trailer.Pos())
	}
	if v := dictEntry(info, trailer, "Info"); v != nil {
		n, ok := refNum(info, v)
		check("trailer Info", ok && n == nums["Info"], fmt.Sprintf("Info=%d", n), fmt.Sprintf("trailer /Info refers to object %d but the info dictionary is written as object %d", n, nums["Info"]), v.Pos())
	} else {
		check("trailer Info", false, "", "trailer has no Info", trailer.Pos())
	}
	if v := dictEntry(info, trailer, "Size"); v != nil {
		sizeExpr = types.ExprString(v)
	}
	// the Size is evaluated where the dictionary literal stands: nothing that adds an object may follow it
	{
		adders := map[*types.Func]bool{}
		decls := map[*types.Func]*ast.FuncDecl{}
		for _, d := range core.AllFuncDecls(p) {
			if f, ok := info.Defs[d.Name].(*types.Func); ok && d.Body != nil {
				decls[f] = d
			}
		}
		for f, d := range decls {
			ast.Inspect(d.Body, func(n ast.Node) bool {
				if as, ok := n.(*ast.AssignStmt); ok && len(as.Lhs) == 1 && len(as.Rhs) == 1 {
					if fieldSel(info, as.Lhs[0], "pdfWriter", "objOffsets") {
						if call, ok := core.Unparen(as.Rhs[0]).(*ast.CallExpr); ok {
							if id, ok := call.Fun.(*ast.Ident); ok && id.Name == "append" {
								adders[f] = true
							}
						}
					}
				}
				return true
			})
		}
		for changed := true; changed; {
			changed = false
			for f, d := range decls {
				if adders[f] {
					continue
				}
				ast.Inspect(d.Body, func(n ast.Node) bool {
					if call, ok := n.(*ast.CallExpr); ok {
						if g := core.CalleeOf(info, call); g != nil && adders[g] && !adders[f] {
							adders[f] = true
							changed = true
						}
					}
					return true
				})
			}
		}
		late := ""
		ast.Inspect(fd.Body, func(n ast.Node) bool {
			if call, ok := n.(*ast.CallExpr); ok && call.Pos() > trailer.End() {
				if g := core.CalleeOf(info, call); g != nil && adders[g] && late == "" {
					late = c.Src(call)
				}
			}
			return true
		})
		check("trailer Size evaluated after the last object", late == "", "no object is added after the trailer dictionary is built", fmt.Sprintf("`%s` adds objects after the trailer dictionary — and with it `/Size` — has been evaluated: the objects it appends (font programs, ToUnicode streams) are numbered at or above /Size and a conforming reader treats them as missing", late), trailer.Pos())
	}
	check("xref count == trailer Size", xrefCount != "" && xrefCount == sizeExpr, xrefCount, fmt.Sprintf("xref section announces `%s` entries but the trailer's Size is `%s`", xrefCount, sizeExpr), trailer.Pos())
	var cat *ast.CompositeLit
	for _, cl := range defs {
		if t := dictEntry(info, cl, "Type"); t != nil {
			if tc, ok := t.(*ast.CallExpr); ok && len(tc.Args) == 1 {
				if sv, ok := constString(info, tc.Args[0]); ok && sv == "Catalog" {
					cat = cl
				}
			}
		}
	}
	if cat != nil {
		if v := dictEntry(info, cat, "Pages"); v != nil {
			n, ok := refNum(info, v)
			check("catalog Pages", ok && n == nums["Pages"], fmt.Sprintf("Pages=%d", n), fmt.Sprintf("catalog /Pages refers to object %d but the page tree is written as object %d", n, nums["Pages"]), v.Pos())
		} else {
			check("catalog Pages", false, "", "catalog has no Pages entry", cat.Pos())
		}
	} else {
		check("catalog Pages", false, "", "catalog dictionary literal not found", fd.Pos())
	}
	// every writePage(parent) call passes the page-tree number
	for _, f2 := range core.AllFuncDecls(p) {
		ord := 0
		ast.Inspect(f2.Body, func(n ast.Node) bool {
			call, ok := n.(*ast.CallExpr)
			if !ok || len(call.Args) != 1 {
				return true
			}
			if f := core.CalleeOf(info, call); f == nil || f.Name() != "writePage" {
				return true
			}
			ord++
			nn, ok := refNum(info, call.Args[0])
			r.Count("E5.reserved-checks", 1)
			key := fmt.Sprintf("pdf.%s|writePage parent #%d", core.FuncName(f2), ord)
			if ok && nn == nums["Pages"] {
				r.OK("E5.reserved", key, c.Pos(call.Pos()), "")
			} else {
				r.Fail("E5.reserved", key, c.Pos(call.Pos()), fmt.Sprintf("page /Parent is `%s` but the page tree is object %d", types.ExprString(call.Args[0]), nums["Pages"]))
			}
			return true
		})
	}
	// the page dictionary's Parent is the parameter
	wp := core.MustFuncDecl(p, "pdfPageWriter.writePage")
	parentObj := paramObj(info, wp, 0)
	okParent := false
	ast.Inspect(wp.Body, func(n ast.Node) bool {
		if cl, ok := n.(*ast.CompositeLit); ok {
			if v := dictEntry(info, cl, "Parent"); v != nil {
				if id, ok := core.Unparen(v).(*ast.Ident); ok && core.ObjOf(info, id) == parentObj {
					okParent = true
				}
			}
		}
		return true
	})
	check("page Parent", okParent, "Parent = parameter", "page dictionary's /Parent is not the parent reference passed in", wp.Pos())
	// the constructor reserves as many slots as the highest reserved number
	ctor := core.MustFuncDecl(p, "newPDFWriter")
	reserved := int64(-1)
	ast.Inspect(ctor.Body, func(n ast.Node) bool {
		if kv, ok := n.(*ast.KeyValueExpr); ok {
			if id, ok := kv.Key.(*ast.Ident); ok && id.Name == "objOffsets" {
				if cl, ok := kv.Value.(*ast.CompositeLit); ok {
					reserved = int64(len(cl.Elts))
				}
			}
		}
		return true
	})
	maxN := int64(0)
	for _, n := range nums {
		if n > maxN {
			maxN = n
		}
	}
	check("reserved slots", reserved == maxN && len(nums) == int(maxN), fmt.Sprintf("%d slots", reserved), fmt.Sprintf("constructor reserves %d object slots but Close writes reserved objects %v", reserved, nums), ctor.Pos())
	r.Floor("E5.reserved-checks", 8)
}

// E5StreamLength: Length is the byte count of exactly the bytes written between stream/endstream.
func E5StreamLength(c *core.Ctx, r *core.Report) {
	r.Rule("E5.length", "writeVal(pdfStream): dict[\"Length\"] = len(b) for the same b that is passed to writeBytes between \"stream\\n\" and \"\\nendstream\", with no assignment to b in between and nothing else written in between")
	p := c.MustPkg(pdfRel)
	info := p.TypesInfo
	fd := core.MustFuncDecl(p, "pdfWriter.writeVal")
	r.Func("pdf.pdfWriter.writeVal")
	found := false
	ast.Inspect(fd.Body, func(n ast.Node) bool {
		cc, ok := n.(*ast.CaseClause)
		if !ok {
			return true
		}
		isStream := false
		for _, e := range cc.List {
			if nt, ok := info.TypeOf(e).(*types.Named); ok && nt.Obj().Name() == "pdfStream" {
				isStream = true
			}
		}
		if !isStream {
			return true
		}
		found = true
		var lenObj types.Object
		lenIdx, streamIdx, bytesIdx, endIdx := -1, -1, -1, -1
		var bytesObj types.Object
		for i, s := range cc.Body {
			switch x := s.(type) {
			case *ast.AssignStmt:
				if len(x.Lhs) == 1 && len(x.Rhs) == 1 {
					if ie, ok := core.Unparen(x.Lhs[0]).(*ast.IndexExpr); ok {
						if k, ok := constString(info, ie.Index); ok && k == "Length" {
							if call, ok := core.Unparen(x.Rhs[0]).(*ast.CallExpr); ok && len(call.Args) == 1 {
								if id, ok := call.Fun.(*ast.Ident); ok && id.Name == "len" {
									if aid, ok := core.Unparen(call.Args[0]).(*ast.Ident); ok {
										lenObj, lenIdx = core.ObjOf(info, aid), i
									}
								}
							}
						}
					}
				}
			case *ast.ExprStmt:
				call, ok := x.X.(*ast.CallExpr)
				if !ok {
					continue
				}
				if format, ok := isWriterWrite(info, call); ok {
					if format == "stream\n" {
						streamIdx = i
					}
					if strings.HasPrefix(format, "\nendstream") {
						endIdx = i
					}
				}
				if f := core.CalleeOf(info, call); f != nil && f.Name() == "writeBytes" && len(call.Args) == 1 {
					if aid, ok := core.Unparen(call.Args[0]).(*ast.Ident); ok {
						bytesObj, bytesIdx = core.ObjOf(info, aid), i
					}
				}
			}
		}
		key := "pdf.pdfWriter.writeVal|case pdfStream"
		switch {
		case lenIdx < 0:
			r.Fail("E5.length", key, c.Pos(cc.Pos()), "no `dict[\"Length\"] = len(<ident>)` assignment")
		case streamIdx < 0 || endIdx < 0 || bytesIdx < 0:
			r.Fail("E5.length", key, c.Pos(cc.Pos()), "stream / writeBytes / endstream sequence not recognised")
		case bytesObj != lenObj:
			r.Fail("E5.length", key, c.Pos(cc.Body[bytesIdx].Pos()), "Length is computed from one slice but a different slice is written as the stream body (e.g. Length of the unfiltered data)")
		case !(lenIdx < streamIdx && streamIdx+1 == bytesIdx && bytesIdx+1 == endIdx):
			r.Fail("E5.length", key, c.Pos(cc.Body[streamIdx].Pos()), "something is written between `stream`, the body and `endstream`, or Length is set after the dictionary is written")
		default:
			// no assignment to b between lenIdx and bytesIdx
			reassigned := false
			for _, s := range cc.Body[lenIdx+1 : bytesIdx] {
				for _, v := range assignedVars(s) {
					if lenObj != nil && v == lenObj.Name() {
						reassigned = true
					}
				}
			}
			// the dictionary must be written after Length is set
			if reassigned {
				r.Fail("E5.length", key, c.Pos(cc.Body[lenIdx].Pos()), "the stream slice is reassigned after its length was recorded")
			} else {
				r.OK("E5.length", key, c.Pos(cc.Body[lenIdx].Pos()), "Length=len(b); stream; writeBytes(b); endstream")
			}
		}
		return true
	})
	if !found {
		panic(core.Infra("writeVal: case pdfStream not found"))
	}
}

// E5Metadata: document information is stored in the field of the same name.
func E5Metadata(c *core.Ctx, r *core.Report) {
	r.Rule("E5.metadata", "Close: `if w.F != \"\" { D[K] = encode(w.G) }` requires G == F and lower(K) == lower(F) for title, subject, keywords, author, creator, lang; each Set<F> setter stores its argument in field F")
	p := c.MustPkg(pdfRel)
	info := p.TypesInfo
	fd := core.MustFuncDecl(p, "pdfWriter.Close")
	want := map[string]bool{"title": true, "subject": true, "keywords": true, "author": true, "creator": true, "lang": true}
	seen := map[string]bool{}
	fieldName := func(e ast.Expr) string {
		se, ok := core.Unparen(e).(*ast.SelectorExpr)
		if !ok {
			return ""
		}
		if s := info.Selections[se]; s != nil && s.Kind() == types.FieldVal {
			if n, ok := derefNamed(s.Recv()); ok && n == "pdfWriter" {
				return se.Sel.Name
			}
		}
		return ""
	}
	for _, s := range fd.Body.List {
		is, ok := s.(*ast.IfStmt)
		if !ok || len(is.Body.List) != 1 {
			continue
		}
		be, ok := core.Unparen(is.Cond).(*ast.BinaryExpr)
		if !ok || be.Op != token.NEQ {
			continue
		}
		F := fieldName(be.X)
		if F == "" || !want[F] {
			continue
		}
		as, ok := is.Body.List[0].(*ast.AssignStmt)
		if !ok || len(as.Lhs) != 1 || len(as.Rhs) != 1 {
			continue
		}
		ie, ok := core.Unparen(as.Lhs[0]).(*ast.IndexExpr)
		if !ok {
			continue
		}
		K, _ := constString(info, ie.Index)
		G := ""
		ast.Inspect(as.Rhs[0], func(n ast.Node) bool {
			if e, ok := n.(ast.Expr); ok {
				if g := fieldName(e); g != "" {
					G = g
				}
			}
			return true
		})
		seen[F] = true
		r.Count("E5.metadata-fields", 1)
		key := "pdf.pdfWriter.Close|metadata " + F
		switch {
		case G != F:
			r.Fail("E5.metadata", key, c.Pos(as.Pos()), fmt.Sprintf("the %s entry is filled from field %q but guarded by field %q: the document's %s is not stored verbatim", K, G, F, F))
		case strings.ToLower(K) != F && !(F == "lang" && K == "Lang"):
			r.Fail("E5.metadata", key, c.Pos(as.Pos()), fmt.Sprintf("field %q is stored under key %q", F, K))
		default:
			r.OK("E5.metadata", key, c.Pos(as.Pos()), K+" <- w."+G)
		}
	}
	for f := range want {
		if !seen[f] {
			r.Fail("E5.metadata", "pdf.pdfWriter.Close|metadata "+f, c.Pos(fd.Pos()), "no `if w."+f+" != \"\" {…}` block stores this field")
		}
		// setter
		setter := "Set" + strings.ToUpper(f[:1]) + f[1:]
		sd := core.FuncDecl(p, "pdfWriter."+setter)
		key := "pdf.pdfWriter." + setter
		if sd == nil {
			r.Fail("E5.metadata", key, "", "setter not found")
			continue
		}
		ok := false
		if len(sd.Body.List) == 1 {
			if as, ok2 := sd.Body.List[0].(*ast.AssignStmt); ok2 && len(as.Lhs) == 1 && len(as.Rhs) == 1 {
				if fieldName(as.Lhs[0]) == f {
					if id, ok3 := core.Unparen(as.Rhs[0]).(*ast.Ident); ok3 && core.ObjOf(info, id) == paramObj(info, sd, 0) {
						ok = true
					}
				}
			}
		}
		if ok {
			r.OK("E5.metadata", key, c.Pos(sd.Pos()), "")
		} else {
			r.Fail("E5.metadata", key, c.Pos(sd.Pos()), "setter does not store its argument in field "+f)
		}
	}
	r.Floor("E5.metadata-fields", 6)
}

func derefNamed(t types.Type) (string, bool) {
	if p, ok := t.(*types.Pointer); ok {
		t = p.Elem()
	}
	if n, ok := t.(*types.Named); ok {
		return n.Obj().Name(), true
	}
	return "", false
}

// E5FontMaps: every map in which getFont reserves a reference is written by Close with the matching flag.
func E5FontMaps(c *core.Ctx, r *core.Report) {
	r.Rule("E5.fontmaps", "every pdfWriter map in which getFont stores a reserved (not yet written) reference is passed to writeFonts in Close, with the boolean under which getFont selects that map (vertical ⇒ fontsV, otherwise fontsH)")
	p := c.MustPkg(pdfRel)
	info := p.TypesInfo
	gf := core.MustFuncDecl(p, "pdfWriter.getFont")
	r.Func("pdf.pdfWriter.getFont")
	vert := paramObj(info, gf, 1)
	assoc := map[string]string{} // field -> "true"/"false"
	var localObj types.Object
	pdfField := func(e ast.Expr) string {
		se, ok := core.Unparen(e).(*ast.SelectorExpr)
		if !ok {
			return ""
		}
		if s := info.Selections[se]; s != nil && s.Kind() == types.FieldVal {
			if n, ok := derefNamed(s.Recv()); ok && n == "pdfWriter" {
				return se.Sel.Name
			}
		}
		return ""
	}
	for i, s := range gf.Body.List {
		as, ok := s.(*ast.AssignStmt)
		if !ok || as.Tok != token.DEFINE || len(as.Lhs) != 1 || len(as.Rhs) != 1 {
			continue
		}
		f := pdfField(as.Rhs[0])
		if f == "" {
			continue
		}
		if _, isMap := info.TypeOf(as.Rhs[0]).Underlying().(*types.Map); !isMap {
			continue
		}
		id := as.Lhs[0].(*ast.Ident)
		localObj = info.Defs[id]
		assoc[f] = "false"
		if i+1 < len(gf.Body.List) {
			if is, ok := gf.Body.List[i+1].(*ast.IfStmt); ok && len(is.Body.List) == 1 {
				if cid, ok := core.Unparen(is.Cond).(*ast.Ident); ok && core.ObjOf(info, cid) == vert {
					if as2, ok := is.Body.List[0].(*ast.AssignStmt); ok && len(as2.Lhs) == 1 {
						if lid, ok := as2.Lhs[0].(*ast.Ident); ok && core.ObjOf(info, lid) == localObj {
							if f2 := pdfField(as2.Rhs[0]); f2 != "" {
								assoc[f2] = "true"
							}
						}
					}
				}
			}
		}
	}
	// the local map must be stored with a reserved ref (objOffsets appended with 0)
	reserves := false
	ast.Inspect(gf.Body, func(n ast.Node) bool {
		if as, ok := n.(*ast.AssignStmt); ok && len(as.Lhs) == 1 {
			if ie, ok := core.Unparen(as.Lhs[0]).(*ast.IndexExpr); ok {
				if id, ok := core.Unparen(ie.X).(*ast.Ident); ok && core.ObjOf(info, id) == localObj && localObj != nil {
					reserves = true
				}
			}
		}
		return true
	})
	if len(assoc) < 2 || !reserves {
		r.Fail("E5.fontmaps", "pdf.pdfWriter.getFont|association", c.Pos(gf.Pos()), "the `fonts := w.fontsH; if vertical { fonts = w.fontsV }; fonts[font] = ref` association was not recognised")
		return
	}
	cl := core.MustFuncDecl(p, "pdfWriter.Close")
	calls := map[string][]string{}
	ast.Inspect(cl.Body, func(n ast.Node) bool {
		call, ok := n.(*ast.CallExpr)
		if !ok || len(call.Args) != 2 {
			return true
		}
		if f := core.CalleeOf(info, call); f == nil || f.Name() != "writeFonts" {
			return true
		}
		f := pdfField(call.Args[0])
		b := types.ExprString(call.Args[1])
		calls[f] = append(calls[f], b)
		return true
	})
	fields := make([]string, 0, len(assoc))
	for f := range assoc {
		fields = append(fields, f)
	}
	sort.Strings(fields)
	for _, f := range fields {
		key := "pdf.pdfWriter.Close|writeFonts(" + f + ")"
		r.Count("E5.font-maps", 1)
		bs := calls[f]
		switch {
		case len(bs) == 0:
			r.Fail("E5.fontmaps", key, c.Pos(cl.Pos()), "fonts reserved in w."+f+" are never written: their xref entries stay at offset 0 and references to them dangle")
		case len(bs) > 1:
			r.Fail("E5.fontmaps", key, c.Pos(cl.Pos()), "w."+f+" is written more than once")
		case bs[0] != assoc[f]:
			r.Fail("E5.fontmaps", key, c.Pos(cl.Pos()), fmt.Sprintf("getFont selects w.%s when vertical == %s, but Close writes it with vertical == %s (wrong writing-mode encoding for those fonts)", f, assoc[f], bs[0]))
		default:
			r.OK("E5.fontmaps", key, c.Pos(cl.Pos()), "vertical="+bs[0])
		}
	}
	// writeFont uses its vertical parameter
	wf := core.MustFuncDecl(p, "pdfWriter.writeFonts")
	passes := false
	ast.Inspect(wf.Body, func(n ast.Node) bool {
		if call, ok := n.(*ast.CallExpr); ok && len(call.Args) == 3 {
			if f := core.CalleeOf(info, call); f != nil && f.Name() == "writeFont" {
				if id, ok := core.Unparen(call.Args[2]).(*ast.Ident); ok && core.ObjOf(info, id) == paramObj(info, wf, 1) {
					passes = true
				}
			}
		}
		return true
	})
	if passes {
		r.OK("E5.fontmaps", "pdf.pdfWriter.writeFonts|forwards vertical", c.Pos(wf.Pos()), "")
	} else {
		r.Fail("E5.fontmaps", "pdf.pdfWriter.writeFonts|forwards vertical", c.Pos(wf.Pos()), "writeFonts does not forward its vertical flag to writeFont")
	}
	r.Floor("E5.font-maps", 2)
}

// E5MapKeys: no repository type that implements an interface map-key type is non-comparable.
func E5MapKeys(c *core.Ctx, r *core.Report, rel string) {
	r.Rule("E5.mapkey", "for every map in the package whose key type is an interface, every named type of the canvas module that implements the interface is comparable (otherwise inserting or looking up such a value panics with 'hash of unhashable type')")
	p := c.MustPkg(rel)
	type mapSite struct {
		key  types.Type
		desc string
		pos  token.Pos
	}
	var sites []mapSite
	seen := map[string]bool{}
	for _, f := range p.Syntax {
		ast.Inspect(f, func(n ast.Node) bool {
			mt, ok := n.(*ast.MapType)
			if !ok {
				return true
			}
			t, ok := p.TypesInfo.TypeOf(mt).(*types.Map)
			if !ok {
				return true
			}
			if _, isIface := t.Key().Underlying().(*types.Interface); !isIface {
				return true
			}
			if t.Key().String() == "interface{}" || t.Key().String() == "any" {
				return true
			}
			d := t.String()
			if !seen[d] {
				seen[d] = true
				sites = append(sites, mapSite{t.Key(), d, mt.Pos()})
			}
			return true
		})
	}
	r.Count("E5.iface-keyed-maps:"+rel, len(sites))
	// candidate types: all named types of module packages
	var cands []*types.Named
	var paths []string
	for path := range c.All {
		if path == core.Module || strings.HasPrefix(path, core.Module+"/") {
			paths = append(paths, path)
		}
	}
	sort.Strings(paths)
	for _, path := range paths {
		sc := c.All[path].Types.Scope()
		for _, name := range sc.Names() {
			if tn, ok := sc.Lookup(name).(*types.TypeName); ok && !tn.IsAlias() {
				if nt, ok := tn.Type().(*types.Named); ok && nt.TypeParams().Len() == 0 {
					cands = append(cands, nt)
				}
			}
		}
	}
	for _, s := range sites {
		iface := s.key.Underlying().(*types.Interface)
		for _, nt := range cands {
			if _, isI := nt.Underlying().(*types.Interface); isI {
				continue
			}
			for _, t := range []types.Type{nt, types.NewPointer(nt)} {
				if !types.Implements(t, iface) {
					continue
				}
				key := fmt.Sprintf("%s|%s|%s", rel, s.desc, types.TypeString(t, func(p *types.Package) string { return p.Name() }))
				if types.Comparable(t) {
					r.OK("E5.mapkey", key, c.Pos(s.pos), "comparable")
				} else if why := unwrappedBeforeUse(p, s.desc, t); why != "" {
					r.OK("E5.mapkey", key, c.Pos(s.pos), why)
				} else {
					r.Fail("E5.mapkey", key, c.Pos(s.pos), fmt.Sprintf("%s implements %s but is not comparable: using it as a key of %s panics at run time", t, s.key, s.desc))
				}
				break // value type implements: pointer also does, one report is enough
			}
		}
	}
}

// unwrappedBeforeUse accepts the idiom `if x, ok := k.(T); ok { k = … }` preceding every index
// of a map of the given type with key variable k, in the same function: values of the
// non-comparable type T are replaced before they can reach the map.
func unwrappedBeforeUse(p *packages.Package, mapDesc string, T types.Type) string {
	info := p.TypesInfo
	sites, guarded := 0, 0
	for _, fd := range core.AllFuncDecls(p) {
		var keyObjs []types.Object
		var firstSite token.Pos
		ast.Inspect(fd.Body, func(n ast.Node) bool {
			ie, ok := n.(*ast.IndexExpr)
			if !ok {
				return true
			}
			mt, ok := info.TypeOf(ie.X).(*types.Map)
			if !ok || mt.String() != mapDesc {
				return true
			}
			sites++
			if id, ok := core.Unparen(ie.Index).(*ast.Ident); ok {
				keyObjs = append(keyObjs, core.ObjOf(info, id))
				if !firstSite.IsValid() || ie.Pos() < firstSite {
					firstSite = ie.Pos()
				}
			} else {
				keyObjs = append(keyObjs, nil)
			}
			return true
		})
		if len(keyObjs) == 0 {
			continue
		}
		// an unwrap of each key object directly in the function body before the first site
		unwrapped := map[types.Object]bool{}
		for _, s := range fd.Body.List {
			is, ok := s.(*ast.IfStmt)
			if !ok || is.Init == nil || is.Pos() > firstSite {
				continue
			}
			as, ok := is.Init.(*ast.AssignStmt)
			if !ok || len(as.Rhs) != 1 {
				continue
			}
			ta, ok := core.Unparen(as.Rhs[0]).(*ast.TypeAssertExpr)
			if !ok || ta.Type == nil || !types.Identical(info.TypeOf(ta.Type), T) {
				continue
			}
			kid, ok := core.Unparen(ta.X).(*ast.Ident)
			if !ok {
				continue
			}
			ko := core.ObjOf(info, kid)
			for _, bs := range is.Body.List {
				if a2, ok := bs.(*ast.AssignStmt); ok && a2.Tok == token.ASSIGN {
					for _, l := range a2.Lhs {
						if lid, ok := l.(*ast.Ident); ok && core.ObjOf(info, lid) == ko {
							unwrapped[ko] = true
						}
					}
				}
			}
		}
		for _, ko := range keyObjs {
			if ko != nil && unwrapped[ko] {
				guarded++
			}
		}
	}
	if sites > 0 && guarded == sites {
		return fmt.Sprintf("not comparable, but every one of the %d index sites of this map is preceded by `if x, ok := key.(%s); ok { key = … }`", sites, T)
	}
	return ""
}

// E5Resources: every resource name used by an operator is registered in the page's resources under the right category.
func E5Resources(c *core.Ctx, r *core.Report) {
	r.Rule("E5.resources", "the name operand of gs / scn,SCN / Tf / Do is, on every path, a key stored in this page's resources[ExtGState / Pattern / Font / XObject] (stored in the same function, returned by a method whose every return is such a key, a range key over that category, or looked up in a cache map only filled alongside such a store)")
	p := c.MustPkg(pdfRel)
	info := p.TypesInfo
	want := map[string]string{"gs": "ExtGState", "scn": "Pattern", "SCN": "Pattern", "Tf": "Font", "Do": "XObject"}
	decls := map[*types.Func]*ast.FuncDecl{}
	for _, fd := range core.AllFuncDecls(p) {
		if f, ok := info.Defs[fd.Name].(*types.Func); ok {
			decls[f] = fd
		}
	}
	// resCat matches w.resources["CAT"].(pdfDict) and returns CAT
	resCat := func(e ast.Expr) string {
		ta, ok := core.Unparen(e).(*ast.TypeAssertExpr)
		if !ok {
			return ""
		}
		ie, ok := core.Unparen(ta.X).(*ast.IndexExpr)
		if !ok || !fieldSel(info, ie.X, "pdfPageWriter", "resources") {
			return ""
		}
		s, _ := constString(info, ie.Index)
		return s
	}
	var identCat func(fd *ast.FuncDecl, o types.Object, depth int) string
	var exprCat func(fd *ast.FuncDecl, e ast.Expr, depth int) string
	returnCat := func(fd *ast.FuncDecl, depth int) string {
		cat := ""
		ok := true
		ast.Inspect(fd.Body, func(n ast.Node) bool {
			if _, isLit := n.(*ast.FuncLit); isLit {
				return false
			}
			if ret, isRet := n.(*ast.ReturnStmt); isRet && len(ret.Results) == 1 {
				cc := exprCat(fd, ret.Results[0], depth+1)
				if cc == "" || (cat != "" && cc != cat) {
					ok = false
				}
				cat = cc
			}
			return true
		})
		if !ok {
			return ""
		}
		return cat
	}
	// storeCat: category of the values stored into cache map field F anywhere in the package
	storeCat := func(field string, depth int) string {
		cat := ""
		ok := true
		n := 0
		for _, fd := range core.AllFuncDecls(p) {
			ast.Inspect(fd.Body, func(m ast.Node) bool {
				as, isAs := m.(*ast.AssignStmt)
				if !isAs || len(as.Lhs) != 1 || len(as.Rhs) != 1 {
					return true
				}
				ie, isIdx := core.Unparen(as.Lhs[0]).(*ast.IndexExpr)
				if !isIdx || !fieldSel(info, ie.X, "pdfPageWriter", field) {
					return true
				}
				n++
				cc := exprCat(fd, as.Rhs[0], depth+1)
				if cc == "" || (cat != "" && cc != cat) {
					ok = false
				}
				cat = cc
				return true
			})
		}
		if !ok || n == 0 {
			return ""
		}
		return cat
	}
	exprCat = func(fd *ast.FuncDecl, e ast.Expr, depth int) string {
		if depth > 6 {
			return ""
		}
		switch x := core.Unparen(e).(type) {
		case *ast.Ident:
			return identCat(fd, core.ObjOf(info, x), depth)
		case *ast.CallExpr:
			if f := core.CalleeOf(info, x); f != nil {
				if fd2 := decls[f]; fd2 != nil {
					return returnCat(fd2, depth)
				}
			}
		}
		return ""
	}
	identCat = func(fd *ast.FuncDecl, o types.Object, depth int) string {
		if o == nil {
			return ""
		}
		cat := ""
		ast.Inspect(fd.Body, func(n ast.Node) bool {
			switch x := n.(type) {
			case *ast.RangeStmt:
				if k, ok := x.Key.(*ast.Ident); ok && core.ObjOf(info, k) == o {
					if cc := resCat(x.X); cc != "" {
						cat = cc
					}
				}
			case *ast.AssignStmt:
				// store into resources with this ident as key
				for _, l := range x.Lhs {
					if ie, ok := core.Unparen(l).(*ast.IndexExpr); ok {
						if k, ok := core.Unparen(ie.Index).(*ast.Ident); ok && core.ObjOf(info, k) == o {
							if cc := resCat(ie.X); cc != "" {
								cat = cc
							}
						}
					}
				}
				// defined from a call or a cache lookup
				if cat == "" && len(x.Lhs) >= 1 && len(x.Rhs) == 1 {
					if id, ok := x.Lhs[0].(*ast.Ident); ok && core.ObjOf(info, id) == o && x.Tok == token.DEFINE {
						switch rhs := core.Unparen(x.Rhs[0]).(type) {
						case *ast.CallExpr:
							if f := core.CalleeOf(info, rhs); f != nil && decls[f] != nil {
								cat = returnCat(decls[f], depth)
							}
						case *ast.IndexExpr:
							if se, ok := core.Unparen(rhs.X).(*ast.SelectorExpr); ok {
								if s := info.Selections[se]; s != nil && s.Kind() == types.FieldVal {
									if n, ok := derefNamed(s.Recv()); ok && n == "pdfPageWriter" {
										cat = storeCat(se.Sel.Name, depth)
									}
								}
							}
						}
					}
				}
			}
			return true
		})
		return cat
	}
	for _, fd := range core.AllFuncDecls(p) {
		ord := map[string]int{}
		ast.Inspect(fd.Body, func(n ast.Node) bool {
			call, ok := n.(*ast.CallExpr)
			if !ok || len(call.Args) < 3 {
				return true
			}
			f := core.CalleeOf(info, call)
			if f == nil || f.Pkg() == nil || f.Pkg().Path() != "fmt" || f.Name() != "Fprintf" || !pdfGrammar.isStream(info, call.Args[0]) {
				return true
			}
			format, ok := constString(info, call.Args[1])
			if !ok {
				return true
			}
			// tokens with their verb indices
			toks := strings.Fields(format)
			verb := 0
			lastNameVerb := -1
			for _, t := range toks {
				nv := strings.Count(t, "%") - 2*strings.Count(t, "%%")
				if strings.HasPrefix(t, "/%") {
					lastNameVerb = verb
				}
				verb += nv
				cat, isOp := want[t]
				if !isOp {
					continue
				}
				ord[t]++
				key := fmt.Sprintf("pdf.%s|%s #%d", core.FuncName(fd), t, ord[t])
				r.Count("E5.resource-uses", 1)
				if lastNameVerb < 0 || 2+lastNameVerb >= len(call.Args) {
					r.Fail("E5.resources", key, c.Pos(call.Pos()), "operator "+t+" is not preceded by a /%v name operand")
					continue
				}
				got := exprCat(fd, call.Args[2+lastNameVerb], 0)
				if got == cat {
					r.OK("E5.resources", key, c.Pos(call.Pos()), fmt.Sprintf("%s is a key of resources[%s]", types.ExprString(call.Args[2+lastNameVerb]), cat))
				} else if got == "" {
					r.Fail("E5.resources", key, c.Pos(call.Pos()), fmt.Sprintf("the name `%s` given to %s is not shown to be registered in resources[%q] on every path", types.ExprString(call.Args[2+lastNameVerb]), t, cat))
				} else {
					r.Fail("E5.resources", key, c.Pos(call.Pos()), fmt.Sprintf("the name `%s` given to %s is registered under resources[%q] but the operator looks it up in %q", types.ExprString(call.Args[2+lastNameVerb]), t, got, cat))
				}
				lastNameVerb = -1
			}
			return true
		})
	}
	r.Floor("E5.resource-uses", 4)
	// the page dictionary carries exactly this resources dict
	wp := core.MustFuncDecl(p, "pdfPageWriter.writePage")
	okRes := false
	ast.Inspect(wp.Body, func(n ast.Node) bool {
		if cl, ok := n.(*ast.CompositeLit); ok {
			if v := dictEntry(info, cl, "Resources"); v != nil && fieldSel(info, v, "pdfPageWriter", "resources") {
				okRes = true
			}
		}
		return true
	})
	if okRes {
		r.OK("E5.resources", "pdf.pdfPageWriter.writePage|Resources", c.Pos(wp.Pos()), "page /Resources = w.resources")
	} else {
		r.Fail("E5.resources", "pdf.pdfPageWriter.writePage|Resources", c.Pos(wp.Pos()), "the page dictionary's /Resources is not the resources dict the operators register their names in")
	}
}

var pdfGrammar = &gramSpec{
	name:   "PDF",
	pkgRel: pdfRel,
	isStream: func(info *types.Info, e ast.Expr) bool {
		n, ok := derefNamed(info.TypeOf(e))
		return ok && n == "pdfPageWriter"
	},
	ops:       pdfOperators,
	hasText:   true,
	saveOp:    "q",
	restoreOp: "Q",
}

// E5Grammar: the content-stream fragments form only PDF operators, balanced q/Q and BT/ET.
func E5Grammar(c *core.Ctx, r *core.Report) {
	r.Rule("E5.grammar", "abstract interpretation of every literal fragment written to a page's content stream from PDF.RenderPath/RenderText/RenderImage and NewPage (callees inlined, callbacks as loops): every completed token is a PDF operator, number, name or placeholder; text-positioning/showing operators occur only inside BT…ET and path operators only outside; q/Q and BT/ET are balanced on every path; strings are terminated; no method that memoises an emitted graphics-state parameter in a receiver field (compares the field, emits, stores it) is called while a save (q / gsave) is open, because the restore reverts the parameter in the interpreter but not the memo")
	runGrammar(c, r, pdfGrammar, "E5.grammar", []string{"PDF.RenderPath", "PDF.RenderText", "PDF.RenderImage", "pdfWriter.NewPage"})
	r.Floor("E5.grammar:writes", 60)
	r.Floor("E5.grammar:distinct-operators", 20)
}

var _ = packages.NeedName

// E5FreshRef: an object number computed as len(objOffsets) names the slot that was just appended.
func E5FreshRef(c *core.Ctx, r *core.Report) {
	r.Rule("E5.fresh-ref", "every object number taken as pdfRef(len(w.objOffsets)) names a slot of its own: in the same statement list the nearest preceding statement that touches objOffsets is the unconditional `w.objOffsets = append(w.objOffsets, v)` with exactly one appended element (a conditional or missing append hands out the number of whatever object was created last, so two objects share a number)")
	p := c.MustPkg(pdfRel)
	info := p.TypesInfo
	isOffsets := func(e ast.Expr) bool { return fieldSel(info, e, "pdfWriter", "objOffsets") }
	mentionsLenOffsets := func(n ast.Node) *ast.CallExpr {
		var found *ast.CallExpr
		ast.Inspect(n, func(m ast.Node) bool {
			call, ok := m.(*ast.CallExpr)
			if !ok || len(call.Args) != 1 {
				return true
			}
			// conversion pdfRef(len(w.objOffsets))
			if tv, ok := info.Types[call.Fun]; !ok || !tv.IsType() {
				return true
			}
			if nt, ok := info.TypeOf(call).(*types.Named); !ok || nt.Obj().Name() != "pdfRef" {
				return true
			}
			inner, ok := core.Unparen(call.Args[0]).(*ast.CallExpr)
			if !ok || len(inner.Args) != 1 {
				return true
			}
			if id, ok := inner.Fun.(*ast.Ident); ok && id.Name == "len" && isOffsets(inner.Args[0]) {
				found = call
			}
			return true
		})
		return found
	}
	touches := func(s ast.Stmt) bool {
		t := false
		ast.Inspect(s, func(m ast.Node) bool {
			if as, ok := m.(*ast.AssignStmt); ok {
				for _, l := range as.Lhs {
					if isOffsets(l) {
						t = true
					}
					if ie, ok := l.(*ast.IndexExpr); ok && isOffsets(ie.X) {
						// storing an offset into an existing slot does not change the length
						_ = ie
					}
				}
			}
			return true
		})
		return t
	}
	n := 0
	for _, fd := range core.AllFuncDecls(p) {
		name := core.FuncName(fd)
		ord := 0
		ast.Inspect(fd.Body, func(m ast.Node) bool {
			bl, ok := m.(*ast.BlockStmt)
			if !ok {
				return true
			}
			for i, s := range bl.List {
				// only statements that are not themselves blocks: nested lists are visited on their own
				switch s.(type) {
				case *ast.IfStmt, *ast.ForStmt, *ast.RangeStmt, *ast.SwitchStmt, *ast.BlockStmt, *ast.TypeSwitchStmt, *ast.SelectStmt:
					continue
				}
				conv := mentionsLenOffsets(s)
				if conv == nil {
					continue
				}
				ord++
				n++
				key := fmt.Sprintf("pdf.%s|fresh object number #%d", name, ord)
				bad := "no append to objOffsets precedes it in the same statement list"
				for j := i - 1; j >= 0; j-- {
					if !touches(bl.List[j]) {
						continue
					}
					as, ok := bl.List[j].(*ast.AssignStmt)
					if !ok || len(as.Lhs) != 1 || len(as.Rhs) != 1 || !isOffsets(as.Lhs[0]) {
						bad = "the nearest preceding statement that changes objOffsets is conditional or compound, so on some path no slot is appended for this number"
						break
					}
					call, ok := core.Unparen(as.Rhs[0]).(*ast.CallExpr)
					if id, isId := call.Fun.(*ast.Ident); !ok || !isId || id.Name != "append" || len(call.Args) != 2 || !isOffsets(call.Args[0]) || call.Ellipsis.IsValid() {
						bad = "objOffsets is not extended by exactly one slot before the number is taken"
						break
					}
					bad = ""
					break
				}
				if bad == "" {
					r.OK("E5.fresh-ref", key, c.Pos(conv.Pos()), "appended in the same list")
				} else {
					r.Fail("E5.fresh-ref", key, c.Pos(conv.Pos()), bad+"; the number handed out belongs to the object created last, and two objects are written under one number")
				}
			}
			return true
		})
	}
	r.Count("E5.fresh-refs", n)
	r.Floor("E5.fresh-refs", 2)
}

// E5SubsetOnce: the per-font glyph subsetter is created once per font, not once per (font, direction).
func E5SubsetOnce(c *core.Ctx, r *core.Report) {
	r.Rule("E5.subset-once", "pdfWriter.fontSubset maps a font to the subsetter that hands out the glyph numbers already written into content streams; an entry is only ever created under the test that the same map has no entry for the same key (`if _, ok := w.fontSubset[k]; !ok`). A guard on another map (fontsH/fontsV are per writing direction) lets the second direction replace the subsetter, and the glyph numbers written for the first direction then select other glyphs of the embedded subset")
	p := c.MustPkg(pdfRel)
	info := p.TypesInfo
	isSubsetIdx := func(e ast.Expr) (ast.Expr, bool) {
		ie, ok := core.Unparen(e).(*ast.IndexExpr)
		if !ok || !fieldSel(info, ie.X, "pdfWriter", "fontSubset") {
			return nil, false
		}
		return ie.Index, true
	}
	n := 0
	for _, fd := range core.AllFuncDecls(p) {
		name := core.FuncName(fd)
		ord := 0
		var walk func(node ast.Node, guards []*ast.IfStmt)
		walk = func(node ast.Node, guards []*ast.IfStmt) {
			ast.Inspect(node, func(m ast.Node) bool {
				switch x := m.(type) {
				case *ast.IfStmt:
					if x.Init != nil {
						walk(x.Init, guards)
					}
					walk(x.Body, append(append([]*ast.IfStmt{}, guards...), x))
					if x.Else != nil {
						walk(x.Else, guards)
					}
					return false
				case *ast.AssignStmt:
					for _, l := range x.Lhs {
						key, ok := isSubsetIdx(l)
						if !ok {
							continue
						}
						ord++
						n++
						okey := fmt.Sprintf("pdf.%s|fontSubset entry #%d", name, ord)
						guarded := false
						for _, g := range guards {
							as, ok := g.Init.(*ast.AssignStmt)
							if !ok || len(as.Lhs) != 2 || len(as.Rhs) != 1 {
								continue
							}
							gk, ok := isSubsetIdx(as.Rhs[0])
							if !ok || types.ExprString(gk) != types.ExprString(key) {
								continue
							}
							okID, ok := as.Lhs[1].(*ast.Ident)
							if !ok {
								continue
							}
							if ue, ok := core.Unparen(g.Cond).(*ast.UnaryExpr); ok && ue.Op == token.NOT {
								if id, ok := core.Unparen(ue.X).(*ast.Ident); ok && core.ObjOf(info, id) == core.ObjOf(info, okID) {
									guarded = true
								}
							}
						}
						if guarded {
							r.OK("E5.subset-once", okey, c.Pos(x.Pos()), "created only when the font has no subsetter yet")
						} else {
							r.Fail("E5.subset-once", okey, c.Pos(x.Pos()), "the subsetter of a font is (re)created without testing that fontSubset has no entry for it: a font used in both writing directions loses the glyphs already written, and their numbers select other glyphs of the embedded subset")
						}
					}
				}
				return true
			})
		}
		walk(fd.Body, nil)
	}
	r.Count("E5.subset-entries", n)
	r.Floor("E5.subset-entries", 1)
}

// E5ValueTypes: every value put into a PDF object is of a type the object writer can serialise.
func E5ValueTypes(c *core.Ctx, r *core.Report) {
	r.Rule("E5.value-types", "pdfWriter.writeVal serialises a closed set of Go types (the cases of its type switch) and panics on anything else. Every value with a static non-interface type that is stored in a pdfDict or pdfArray (composite literal element, d[k] = v, append(arr, v…)) or handed to writeVal/writeObject has one of those types; values of interface type are followed no further (counted as opaque)")
	p := c.MustPkg(pdfRel)
	info := p.TypesInfo
	// handled types from the type switch of writeVal
	wv := core.MustFuncDecl(p, "pdfWriter.writeVal")
	var handled []types.Type
	ast.Inspect(wv.Body, func(n ast.Node) bool {
		ts, ok := n.(*ast.TypeSwitchStmt)
		if !ok || len(handled) > 0 {
			return true
		}
		for _, s := range ts.Body.List {
			for _, e := range s.(*ast.CaseClause).List {
				if tv, ok := info.Types[e]; ok && tv.IsType() {
					handled = append(handled, tv.Type)
				}
			}
		}
		return false
	})
	if len(handled) < 5 {
		panic(core.Infra("E5.value-types: type switch of writeVal not found"))
	}
	isHandled := func(t types.Type) bool {
		for _, h := range handled {
			if types.Identical(t, h) {
				return true
			}
		}
		return false
	}
	var names []string
	for _, h := range handled {
		names = append(names, types.TypeString(h, func(*types.Package) string { return "" }))
	}
	isDict := func(t types.Type) bool { return t != nil && isNamed(t, "renderers/pdf", "pdfDict") }
	isArr := func(t types.Type) bool { return t != nil && isNamed(t, "renderers/pdf", "pdfArray") }
	n, opaque := 0, 0
	for _, fd := range core.AllFuncDecls(p) {
		fname := "pdf." + core.FuncName(fd)
		seen := map[string]int{}
		check := func(v ast.Expr, where string) {
			t := info.TypeOf(v)
			if t == nil {
				return
			}
			if tv, ok := info.Types[v]; ok && tv.IsNil() {
				return
			}
			if _, isIface := t.Underlying().(*types.Interface); isIface {
				opaque++
				return
			}
			// untyped constants take their default type
			t = types.Default(t)
			n++
			ts := types.TypeString(t, func(*types.Package) string { return "" })
			key := fmt.Sprintf("%s|%s|%s", fname, where, ts)
			seen[key]++
			if seen[key] > 1 {
				return // one obligation per (function, position kind, type)
			}
			if isHandled(t) {
				r.OK("E5.value-types", key, c.Pos(v.Pos()), "")
			} else {
				r.Fail("E5.value-types", key, c.Pos(v.Pos()), fmt.Sprintf("a value of type %s (`%s`) is %s, but writeVal only serialises %s and panics on any other type when the object is written", ts, types.ExprString(v), where, strings.Join(names, ", ")))
			}
		}
		ast.Inspect(fd, func(m ast.Node) bool {
			switch x := m.(type) {
			case *ast.CompositeLit:
				t := info.TypeOf(x)
				if isDict(t) || isArr(t) {
					for _, el := range x.Elts {
						if kv, ok := el.(*ast.KeyValueExpr); ok {
							check(kv.Value, "stored in a pdfDict literal")
						} else {
							check(el, "stored in a pdfArray literal")
						}
					}
				}
			case *ast.AssignStmt:
				for i, l := range x.Lhs {
					if ie, ok := l.(*ast.IndexExpr); ok && i < len(x.Rhs) && len(x.Lhs) == len(x.Rhs) {
						if t := info.TypeOf(ie.X); isDict(t) || isArr(t) {
							check(x.Rhs[i], "assigned to an element of a pdfDict/pdfArray")
						}
					}
				}
			case *ast.CallExpr:
				if id, ok := x.Fun.(*ast.Ident); ok && id.Name == "append" && len(x.Args) > 1 && !x.Ellipsis.IsValid() {
					if isArr(info.TypeOf(x.Args[0])) {
						for _, a := range x.Args[1:] {
							check(a, "appended to a pdfArray")
						}
					}
				}
				if f := core.CalleeOf(info, x); f != nil && f.Pkg() == p.Types && (f.Name() == "writeVal" || f.Name() == "writeObject") && len(x.Args) == 1 {
					check(x.Args[0], "passed to "+f.Name())
				}
			}
			return true
		})
	}
	r.Count("E5.value-sites", n)
	r.Count("E5.value-sites-opaque", opaque)
	r.Floor("E5.value-sites", 150)
}

// E5WidthRuns: a range entry of the /W array carries the width of the run it describes.
func E5WidthRuns(c *core.Ctx, r *core.Report) {
	r.Rule("E5.w-run", "pdfWriter.writeFont compacts equal glyph widths into range entries `first last width` of the /W array: in every `W = append(W, a, b, v)` the width v is the width of the run's first code, widths[a] (the same slice the runs were found in), and where the entry is guarded by a comparison with the default width it is that same value which is compared. Any other value gives every code of the run an unrelated advance, so a PDF reader spaces the text differently from TextWidth and the path rendering")
	p := c.MustPkg(pdfRel)
	info := p.TypesInfo
	fd := core.MustFuncDecl(p, "pdfWriter.writeFont")
	r.Func("pdf.pdfWriter.writeFont")
	n := 0
	var walk func(node ast.Node, guards []*ast.IfStmt)
	walk = func(node ast.Node, guards []*ast.IfStmt) {
		ast.Inspect(node, func(m ast.Node) bool {
			switch x := m.(type) {
			case *ast.IfStmt:
				walk(x.Body, append(append([]*ast.IfStmt{}, guards...), x))
				if x.Else != nil {
					walk(x.Else, guards)
				}
				return false
			case *ast.AssignStmt:
				if len(x.Lhs) != 1 || len(x.Rhs) != 1 {
					return true
				}
				call, ok := core.Unparen(x.Rhs[0]).(*ast.CallExpr)
				if !ok || len(call.Args) != 4 {
					return true
				}
				if id, ok := call.Fun.(*ast.Ident); !ok || id.Name != "append" {
					return true
				}
				if t := info.TypeOf(call.Args[0]); t == nil || !isNamed(t, "renderers/pdf", "pdfArray") {
					return true
				}
				n++
				key := fmt.Sprintf("pdf.pdfWriter.writeFont|/W range entry #%d", n)
				a, v := call.Args[1], core.Unparen(call.Args[3])
				ie, ok := v.(*ast.IndexExpr)
				if !ok || types.ExprString(ie.Index) != types.ExprString(a) {
					r.Fail("E5.w-run", key, c.Pos(x.Pos()), fmt.Sprintf("the entry `%s %s %s` carries `%s`, not the width of its first code (widths[%s]): every code of the run gets an unrelated advance", types.ExprString(a), types.ExprString(call.Args[2]), types.ExprString(v), types.ExprString(v), types.ExprString(a)))
					return true
				}
				// the guard, if it compares a width with the default, compares this width
				for _, g := range guards {
					if be, ok := core.Unparen(g.Cond).(*ast.BinaryExpr); ok && be.Op == token.NEQ {
						if gi, ok := core.Unparen(be.X).(*ast.IndexExpr); ok && types.ExprString(gi.X) == types.ExprString(ie.X) && types.ExprString(gi.Index) != types.ExprString(ie.Index) {
							r.Fail("E5.w-run", key, c.Pos(x.Pos()), fmt.Sprintf("the entry is emitted when `%s` differs from the default width but carries `%s`", types.ExprString(be.X), types.ExprString(v)))
							return true
						}
					}
				}
				r.OK("E5.w-run", key, c.Pos(x.Pos()), types.ExprString(v))
			}
			return true
		})
	}
	walk(fd.Body, nil)
	r.Count("E5.w-range-entries", n)
	r.Floor("E5.w-range-entries", 1)
	// the flush after the run loop covers the widths to the end of the slice
	flushes := 0
	for i, st := range fd.Body.List {
		rs, ok := st.(*ast.RangeStmt)
		if !ok {
			continue
		}
		wid, ok := core.Unparen(rs.X).(*ast.Ident)
		if !ok {
			continue
		}
		if sl, ok := info.TypeOf(wid).Underlying().(*types.Slice); !ok || !types.Identical(sl.Elem(), types.Typ[types.Int]) {
			continue
		}
		wobj := core.ObjOf(info, wid)
		for _, after := range fd.Body.List[i+1:] {
			ast.Inspect(after, func(m ast.Node) bool {
				se, ok := m.(*ast.SliceExpr)
				if !ok {
					return true
				}
				id, ok := core.Unparen(se.X).(*ast.Ident)
				if !ok || core.ObjOf(info, id) != wobj {
					return true
				}
				flushes++
				key := fmt.Sprintf("pdf.pdfWriter.writeFont|/W trailing entry #%d reaches the last code", flushes)
				okHigh := se.High == nil
				if call, isC := core.Unparen(se.High).(*ast.CallExpr); isC && len(call.Args) == 1 {
					if f, isI := call.Fun.(*ast.Ident); isI && f.Name == "len" && types.ExprString(call.Args[0]) == wid.Name {
						okHigh = true
					}
				}
				if okHigh {
					r.OK("E5.w-run", key, c.Pos(se.Pos()), "")
				} else {
					r.Fail("E5.w-run", key, c.Pos(se.Pos()), fmt.Sprintf("after the run loop the remaining widths are written as `%s`, which stops before the end of the slice: the last code(s) of the subset get the default width", types.ExprString(se)))
				}
				return true
			})
		}
	}
	r.Count("E5.w-trailing-flushes", flushes)
	r.Floor("E5.w-trailing-flushes", 1)
}

// E5StreamFilters: the filter a stream declares is the encoding its bytes are in when they are written.
func E5StreamFilters(c *core.Ctx, r *core.Report) {
	r.Rule("E5.stream-filter", "a pdfStream's /Filter tells the reader how to decode its bytes. writeVal applies the filters named in the cases of its `switch filter` itself (Flate, ASCII85), so for those the stream field must hold raw bytes; every other filter is written through unchanged (\"assume already in the right format\"), so the stream field must already hold bytes produced by the matching encoder (image/jpeg.Encode for DCTDecode). Decided per path through the function that builds the stream (branches enumerated, so the filter variable and the byte slice chosen in the same branch stay together)")
	p := c.MustPkg(pdfRel)
	info := p.TypesInfo
	// filters writeVal encodes itself
	self := map[string]bool{}
	wv := core.MustFuncDecl(p, "pdfWriter.writeVal")
	ast.Inspect(wv.Body, func(n ast.Node) bool {
		sw, ok := n.(*ast.SwitchStmt)
		if !ok || sw.Tag == nil {
			return true
		}
		if t := info.TypeOf(sw.Tag); t == nil || !isNamed(t, "renderers/pdf", "pdfFilter") {
			return true
		}
		for _, cs := range sw.Body.List {
			for _, e := range cs.(*ast.CaseClause).List {
				if cn := core.ConstName(info, e); cn != "" {
					self[cn] = true
				}
			}
		}
		return true
	})
	if len(self) == 0 {
		panic(core.Infra("E5.stream-filter: writeVal's switch over the filter not found"))
	}
	encoderFor := map[string]string{"pdfFilterDCT": "jpeg"} // pass-through filter -> encoder that must have produced the bytes
	type env map[types.Object]string
	clone := func(e env) env {
		o := env{}
		for k, v := range e {
			o[k] = v
		}
		return o
	}
	n := 0
	for _, fd := range core.AllFuncDecls(p) {
		if fd.Body == nil {
			continue
		}
		hasStream := false
		ast.Inspect(fd.Body, func(m ast.Node) bool {
			if cl, ok := m.(*ast.CompositeLit); ok {
				if t := info.TypeOf(cl); t != nil && isNamed(t, "renderers/pdf", "pdfStream") {
					hasStream = true
				}
			}
			return true
		})
		if !hasStream {
			continue
		}
		fname := "pdf." + core.FuncName(fd)
		ord := map[*ast.CompositeLit]int{}
		reported := map[string]bool{}
		valOf := func(e ast.Expr, en env) string {
			e = core.Unparen(e)
			if cn := core.ConstName(info, e); cn != "" {
				return cn
			}
			switch x := e.(type) {
			case *ast.Ident:
				return en[core.ObjOf(info, x)]
			case *ast.CallExpr:
				// buf.Bytes() of a buffer an encoder wrote to; make([]byte, …) is raw
				if sel, ok := x.Fun.(*ast.SelectorExpr); ok && sel.Sel.Name == "Bytes" {
					if id, ok := core.Unparen(sel.X).(*ast.Ident); ok {
						if v := en[core.ObjOf(info, id)]; v != "" {
							return v
						}
					}
					return "raw"
				}
				if id, ok := x.Fun.(*ast.Ident); ok && id.Name == "make" {
					return "raw"
				}
			case *ast.CompositeLit:
				if t := info.TypeOf(x); t != nil && isNamed(t, "renderers/pdf", "pdfDict") {
					for _, el := range x.Elts {
						if kv, ok := el.(*ast.KeyValueExpr); ok {
							if tv, ok := info.Types[kv.Key]; ok && tv.Value != nil && strings.Trim(tv.Value.ExactString(), "\"") == "Filter" {
								return "filter=" + valOfFilter(info, kv.Value, en)
							}
						}
					}
					return "filter="
				}
			}
			return ""
		}
		var checkLit func(cl *ast.CompositeLit, en env)
		checkLit = func(cl *ast.CompositeLit, en env) {
			var dictV, streamV string
			for _, el := range cl.Elts {
				kv, ok := el.(*ast.KeyValueExpr)
				if !ok {
					continue
				}
				k, _ := kv.Key.(*ast.Ident)
				if k == nil {
					continue
				}
				switch k.Name {
				case "dict":
					dictV = valOf(kv.Value, en)
				case "stream":
					streamV = valOf(kv.Value, en)
				}
			}
			if _, seen := ord[cl]; !seen {
				ord[cl] = len(ord) + 1
				n++
			}
			key := fmt.Sprintf("%s|stream #%d|declared filter matches the bytes", fname, ord[cl])
			filter := strings.TrimPrefix(dictV, "filter=")
			bad := ""
			switch {
			case !strings.HasPrefix(dictV, "filter="):
				// the dictionary is built elsewhere: not decided here
			case filter == "" || self[filter]:
				if streamV != "" && streamV != "raw" {
					bad = fmt.Sprintf("the stream declares %s, which writeVal applies itself, but its bytes are already %s-encoded: they are encoded twice", orNone(filter), streamV)
				}
			default:
				want, known := encoderFor[filter]
				if !known {
					bad = fmt.Sprintf("the stream declares %s, which writeVal writes through unchanged, and no encoder is known for it", filter)
				} else if streamV != want {
					bad = fmt.Sprintf("the stream declares %s, which writeVal writes through unchanged, but on this path its bytes are %s, not the output of the %s encoder: a reader cannot decode the object", filter, orNone(streamV), want)
				}
			}
			if bad != "" {
				if !reported[key] {
					reported[key] = true
					r.Fail("E5.stream-filter", key, c.Pos(cl.Pos()), bad)
				}
			} else if !reported[key+"ok"] {
				reported[key+"ok"] = true
			}
		}
		var run func(list []ast.Stmt, envs []env) []env
		scanLits := func(n ast.Node, en env) {
			ast.Inspect(n, func(m ast.Node) bool {
				if cl, ok := m.(*ast.CompositeLit); ok {
					if t := info.TypeOf(cl); t != nil && isNamed(t, "renderers/pdf", "pdfStream") {
						checkLit(cl, en)
					}
				}
				return true
			})
		}
		run = func(list []ast.Stmt, envs []env) []env {
			for _, st := range list {
				switch x := st.(type) {
				case *ast.IfStmt:
					var out []env
					for _, en := range envs {
						if x.Init != nil {
							run([]ast.Stmt{x.Init}, []env{en})
						}
						scanLits(x.Cond, en)
						out = append(out, run(x.Body.List, []env{clone(en)})...)
						if x.Else != nil {
							out = append(out, run([]ast.Stmt{x.Else}, []env{clone(en)})...)
						} else {
							out = append(out, en)
						}
					}
					if len(out) > 64 {
						out = out[:64]
					}
					envs = out
				case *ast.BlockStmt:
					envs = run(x.List, envs)
				case *ast.ForStmt:
					envs = run(x.Body.List, envs)
				case *ast.RangeStmt:
					envs = run(x.Body.List, envs)
				case *ast.SwitchStmt:
					var out []env
					for _, cs := range x.Body.List {
						for _, en := range envs {
							out = append(out, run(cs.(*ast.CaseClause).Body, []env{clone(en)})...)
						}
					}
					if len(out) > 0 {
						envs = out
					}
				case *ast.AssignStmt:
					for _, en := range envs {
						scanLits(x, en)
						if len(x.Lhs) == len(x.Rhs) {
							for i, l := range x.Lhs {
								if id, ok := l.(*ast.Ident); ok {
									if v := valOf(x.Rhs[i], en); v != "" {
										en[core.ObjOf(info, id)] = v
									}
								}
							}
						}
						// jpeg.Encode(&buf, …) as the right-hand side of `_ = …`
						for _, rh := range x.Rhs {
							markEncoder(info, rh, en)
						}
					}
				case *ast.ExprStmt:
					for _, en := range envs {
						scanLits(x, en)
						markEncoder(info, x.X, en)
					}
				case *ast.DeclStmt:
				default:
					for _, en := range envs {
						scanLits(st, en)
					}
				}
			}
			return envs
		}
		run(fd.Body.List, []env{{}})
		for cl, k := range ord {
			key := fmt.Sprintf("%s|stream #%d|declared filter matches the bytes", fname, k)
			if !reported[key] {
				r.OK("E5.stream-filter", key, c.Pos(cl.Pos()), "")
			}
		}
	}
	r.Count("E5.stream-literals", n)
	r.Floor("E5.stream-literals", 5)
}

func valOfFilter(info *types.Info, e ast.Expr, en map[types.Object]string) string {
	e = core.Unparen(e)
	if cn := core.ConstName(info, e); cn != "" {
		return cn
	}
	if id, ok := e.(*ast.Ident); ok {
		return en[core.ObjOf(info, id)]
	}
	return "?"
}

// markEncoder: jpeg.Encode(&buf, …) leaves jpeg bytes in buf.
func markEncoder(info *types.Info, e ast.Expr, en map[types.Object]string) {
	call, ok := core.Unparen(e).(*ast.CallExpr)
	if !ok || len(call.Args) == 0 {
		return
	}
	f := core.CalleeOf(info, call)
	if f == nil || f.Pkg() == nil || f.Pkg().Path() != "image/jpeg" || f.Name() != "Encode" {
		return
	}
	if ue, ok := core.Unparen(call.Args[0]).(*ast.UnaryExpr); ok && ue.Op == token.AND {
		if id, ok := core.Unparen(ue.X).(*ast.Ident); ok {
			en[core.ObjOf(info, id)] = "jpeg"
		}
	}
}

// E5StringEscape: the literal-string writer escapes every byte the PDF syntax would otherwise reinterpret.
func E5StringEscape(c *core.Ctx, r *core.Report) {
	r.Rule("E5.string-escape", "writeVal writes Go strings as PDF literal strings `(…)`. Inside a literal string a reader treats the backslash as an escape, unbalanced parentheses as delimiters and an unescaped carriage return (alone or before a line feed) as a single line feed (ISO 32000-1 §7.3.4.2). The string case therefore replaces each of `\\`, `(`, `)` and CR by its escape, the backslash first, and unconditionally (as top-level statements of the case). Document information is stored as UTF-16BE in such strings, where the byte 0x0D occurs inside ordinary letters (U+010D, the Malayalam block U+0D00…): without the CR escape it is not stored verbatim")
	p := c.MustPkg(pdfRel)
	info := p.TypesInfo
	wv := core.MustFuncDecl(p, "pdfWriter.writeVal")
	r.Func("pdf.pdfWriter.writeVal")
	var clause *ast.CaseClause
	ast.Inspect(wv.Body, func(n ast.Node) bool {
		ts, ok := n.(*ast.TypeSwitchStmt)
		if !ok || clause != nil {
			return true
		}
		for _, s := range ts.Body.List {
			cc := s.(*ast.CaseClause)
			for _, e := range cc.List {
				if tv, ok := info.Types[e]; ok && tv.IsType() && types.Identical(tv.Type, types.Typ[types.String]) {
					clause = cc
				}
			}
		}
		return false
	})
	if clause == nil {
		panic(core.Infra("E5.string-escape: string case of writeVal not found"))
	}
	var order []string
	conditional := map[string]token.Pos{}
	for _, s := range clause.Body {
		_, isAssign := s.(*ast.AssignStmt)
		_, isExpr := s.(*ast.ExprStmt)
		topLevel := isAssign || isExpr
		ast.Inspect(s, func(n ast.Node) bool {
			call, ok := n.(*ast.CallExpr)
			if !ok {
				return true
			}
			f := core.CalleeOf(info, call)
			if f == nil || f.Pkg() == nil || f.Pkg().Path() != "strings" || (f.Name() != "Replace" && f.Name() != "ReplaceAll") || len(call.Args) < 3 {
				return true
			}
			if tv, ok := info.Types[call.Args[1]]; ok && tv.Value != nil {
				b := constantStringVal(tv.Value)
				order = append(order, b)
				if !topLevel {
					conditional[b] = call.Pos()
				}
			}
			return true
		})
	}
	pos := c.Pos(clause.Pos())
	for _, need := range []struct{ b, name string }{{"\\", "backslash"}, {"(", "opening parenthesis"}, {")", "closing parenthesis"}, {"\r", "carriage return"}} {
		key := "pdf.pdfWriter.writeVal|literal string|" + need.name + " escaped unconditionally"
		if at, isCond := conditional[need.b]; isCond {
			r.Fail("E5.string-escape", key, c.Pos(at), "the escape of the "+need.name+" sits inside a conditional statement: for the strings the condition excludes (e.g. equally many `(` and `)` in the wrong order, or UTF-16 text whose bytes happen to be 0x28/0x29) the byte is written unescaped and a reader ends the literal early")
		} else {
			r.OK("E5.string-escape", key, pos, "")
		}
	}
	for _, need := range []struct{ b, name string }{{"\\", "backslash"}, {"(", "opening parenthesis"}, {")", "closing parenthesis"}, {"\r", "carriage return"}} {
		key := "pdf.pdfWriter.writeVal|literal string|" + need.name + " escaped"
		found := false
		for _, o := range order {
			if o == need.b {
				found = true
			}
		}
		if found {
			r.OK("E5.string-escape", key, pos, "")
		} else {
			r.Fail("E5.string-escape", key, pos, "the "+need.name+" is written unescaped into a literal string: a reader does not get back the bytes that were stored")
		}
	}
	key := "pdf.pdfWriter.writeVal|literal string|backslash escaped first"
	if len(order) > 0 && order[0] == "\\" {
		r.OK("E5.string-escape", key, pos, "")
	} else {
		r.Fail("E5.string-escape", key, pos, "the backslash is not the first byte to be escaped: the backslashes introduced by the other escapes are escaped again")
	}
}

func constantStringVal(v constant.Value) string {
	if v.Kind() == constant.String {
		return constant.StringVal(v)
	}
	return v.ExactString()
}

// E5PageMemoFresh: a memo that lets a page skip registering a resource lives exactly as long as the page's resources.
func E5PageMemoFresh(c *core.Ctx, r *core.Report) {
	r.Rule("E5.page-memo", "a method of the PDF page writer that returns a remembered resource name on a hit of a map field (`if n, ok := w.F[k]; ok { return n }`) and registers the name in w.resources only on a miss relies on F having been filled for *this* page's resources. Wherever a page writer is created (a composite literal that gives it fresh resources) every such field F is initialised with a fresh map (a literal or make), not with a map that outlives the page: on a later page a hit would emit a name the page's /Resources do not define")
	p := c.MustPkg(pdfRel)
	info := p.TypesInfo
	// memo fields per receiver type
	memos := map[*types.Var]string{}
	for _, fd := range core.AllFuncDecls(p) {
		if fd.Body == nil || fd.Recv == nil || len(fd.Recv.List) == 0 || len(fd.Recv.List[0].Names) == 0 {
			continue
		}
		recv := info.Defs[fd.Recv.List[0].Names[0]]
		if recv == nil {
			continue
		}
		registers := false
		ast.Inspect(fd.Body, func(m ast.Node) bool {
			if as, ok := m.(*ast.AssignStmt); ok {
				for _, l := range as.Lhs {
					if strings.Contains(types.ExprString(l), recv.Name()+".resources[") {
						registers = true
					}
				}
			}
			return true
		})
		if !registers {
			continue
		}
		for _, st := range fd.Body.List {
			is, ok := st.(*ast.IfStmt)
			if !ok || is.Init == nil || !allPathsReturn(is.Body) {
				continue
			}
			as, ok := is.Init.(*ast.AssignStmt)
			if !ok || len(as.Lhs) != 2 || len(as.Rhs) != 1 {
				continue
			}
			ie, ok := core.Unparen(as.Rhs[0]).(*ast.IndexExpr)
			if !ok {
				continue
			}
			sel, ok := core.Unparen(ie.X).(*ast.SelectorExpr)
			if !ok {
				continue
			}
			if id, ok := core.Unparen(sel.X).(*ast.Ident); !ok || core.ObjOf(info, id) != recv {
				continue
			}
			if s := info.Selections[sel]; s != nil && s.Kind() == types.FieldVal {
				if fv, ok := s.Obj().(*types.Var); ok {
					if _, isMap := fv.Type().Underlying().(*types.Map); isMap {
						memos[fv] = core.FuncName(fd)
					}
				}
			}
		}
	}
	n := 0
	for _, fd := range core.AllFuncDecls(p) {
		if fd.Body == nil {
			continue
		}
		ast.Inspect(fd.Body, func(m ast.Node) bool {
			cl, ok := m.(*ast.CompositeLit)
			if !ok {
				return true
			}
			st, ok := info.TypeOf(cl).Underlying().(*types.Struct)
			if !ok {
				return true
			}
			for fv, method := range memos {
				owns := false
				for i := 0; i < st.NumFields(); i++ {
					if st.Field(i) == fv {
						owns = true
					}
				}
				if !owns {
					continue
				}
				n++
				key := fmt.Sprintf("pdf.%s|new page writer|memo %s of %s is fresh", core.FuncName(fd), fv.Name(), method)
				var val ast.Expr
				for _, el := range cl.Elts {
					if kv, ok := el.(*ast.KeyValueExpr); ok {
						if k, ok := kv.Key.(*ast.Ident); ok && k.Name == fv.Name() {
							val = kv.Value
						}
					}
				}
				fresh := false
				switch v := core.Unparen(val).(type) {
				case *ast.CompositeLit:
					fresh = true
				case *ast.CallExpr:
					if id, ok := v.Fun.(*ast.Ident); ok && id.Name == "make" {
						fresh = true
					}
				}
				if fresh {
					r.OK("E5.page-memo", key, c.Pos(cl.Pos()), "")
				} else if val == nil {
					r.Fail("E5.page-memo", key, c.Pos(cl.Pos()), fmt.Sprintf("the memo map %s is not initialised for a new page (nil map: the first registration panics)", fv.Name()))
				} else {
					r.Fail("E5.page-memo", key, c.Pos(val.Pos()), fmt.Sprintf("the new page's memo %s is `%s`, a map that outlives the page: %s returns a remembered name on a later page without registering it in that page's /Resources", fv.Name(), types.ExprString(val), method))
				}
			}
			return true
		})
	}
	r.Count("E5.page-memos", n)
	r.Floor("E5.page-memos", 1)
}

// E5TextMatrixComplete: a relative text move is only used when the whole linear part of the text matrix is unchanged.
func E5TextMatrixComplete(c *core.Ctx, r *core.Report) {
	r.Rule("E5.text-matrix", "pdfPageWriter.SetTextPosition writes a relative move (Td) instead of a full text matrix (Tm) when only the translation changed. The condition for that compares all four linear entries [0][0], [0][1], [1][0], [1][1] of the requested matrix with the remembered one; leaving one out (a pure shear differs in [0][1] only) writes faux-italic text upright, so the PDF and the path rendering disagree on the outlines")
	p := c.MustPkg(pdfRel)
	info := p.TypesInfo
	fd := core.MustFuncDecl(p, "pdfPageWriter.SetTextPosition")
	r.Func("pdf.pdfPageWriter.SetTextPosition")
	mObj := paramObj(info, fd, 0)
	n := 0
	ast.Inspect(fd.Body, func(m ast.Node) bool {
		is, ok := m.(*ast.IfStmt)
		if !ok {
			return true
		}
		// the branch that writes Td
		writesTd := false
		ast.Inspect(is.Body, func(k ast.Node) bool {
			if call, ok := k.(*ast.CallExpr); ok {
				if format, ok := isWriterWrite(info, call); ok && strings.Contains(format, " Td") {
					writesTd = true
				}
				for _, a := range call.Args {
					if tv, ok := info.Types[a]; ok && tv.Value != nil && strings.Contains(tv.Value.ExactString(), " Td") {
						writesTd = true
					}
				}
			}
			return true
		})
		if !writesTd {
			return true
		}
		n++
		pairs := map[string]bool{}
		ast.Inspect(is.Cond, func(k ast.Node) bool {
			call, ok := k.(*ast.CallExpr)
			if !ok || len(call.Args) != 2 {
				return true
			}
			idx := func(e ast.Expr) (string, bool, bool) { // "ab", isParam, ok
				o, ok := core.Unparen(e).(*ast.IndexExpr)
				if !ok {
					return "", false, false
				}
				in, ok := core.Unparen(o.X).(*ast.IndexExpr)
				if !ok {
					return "", false, false
				}
				a, ok1 := core.ConstInt(info, in.Index)
				b, ok2 := core.ConstInt(info, o.Index)
				if !ok1 || !ok2 {
					return "", false, false
				}
				isParam := false
				if id, ok := core.Unparen(in.X).(*ast.Ident); ok && core.ObjOf(info, id) == mObj {
					isParam = true
				}
				return fmt.Sprintf("%d%d", a, b), isParam, true
			}
			p1, m1, ok1 := idx(call.Args[0])
			p2, m2, ok2 := idx(call.Args[1])
			if ok1 && ok2 && p1 == p2 && m1 != m2 {
				pairs[p1] = true
			}
			return true
		})
		var missing []string
		for _, want := range []string{"00", "01", "10", "11"} {
			if !pairs[want] {
				missing = append(missing, "["+want[:1]+"]["+want[1:]+"]")
			}
		}
		key := "pdf.pdfPageWriter.SetTextPosition|Td only if the linear part is unchanged"
		if len(missing) == 0 {
			r.OK("E5.text-matrix", key, c.Pos(is.Pos()), "")
		} else {
			r.Fail("E5.text-matrix", key, c.Pos(is.Pos()), fmt.Sprintf("the relative move is chosen without comparing entry %s of the text matrix: a matrix that differs from the remembered one only there is written as a translation", strings.Join(missing, ", ")))
		}
		return true
	})
	r.Count("E5.text-matrix-decisions", n)
	r.Floor("E5.text-matrix-decisions", 1)
}

// E5JPEGColorSpace: the colour space declared for a DCT image depends on what the encoder writes.
func E5JPEGColorSpace(c *core.Ctx, r *core.Report) {
	r.Rule("E5.jpeg-colorspace", "pdfPageWriter.embedImage: when the caller's image is handed to jpeg.Encode as it is, the number of components in the stream depends on the image's concrete type (one for *image.Gray, three otherwise), so the /ColorSpace entry of the image dictionary must not be a constant: it is a variable that the JPEG branch sets under a test of the image's type. A constant DeviceRGB makes a grayscale JPEG an image whose stream does not decode to its declared colour space")
	p := c.MustPkg(pdfRel)
	info := p.TypesInfo
	fd := core.MustFuncDecl(p, "pdfPageWriter.embedImage")
	r.Func("pdf.pdfPageWriter.embedImage")
	key := "pdf.pdfPageWriter.embedImage|colour space of a DCT image follows the encoded image"
	// is the parameter image passed to jpeg.Encode directly?
	var imgObj types.Object
	direct := false
	ast.Inspect(fd.Body, func(m ast.Node) bool {
		call, ok := m.(*ast.CallExpr)
		if !ok || !core.IsPkgFunc(info, call, "image/jpeg", "Encode") || len(call.Args) < 2 {
			return true
		}
		if id, ok := core.Unparen(call.Args[1]).(*ast.Ident); ok {
			o := core.ObjOf(info, id)
			for _, f := range fd.Type.Params.List {
				for _, nm := range f.Names {
					if info.Defs[nm] == o {
						imgObj, direct = o, true
					}
				}
			}
		}
		return true
	})
	if !direct {
		r.OK("E5.jpeg-colorspace", key, c.Pos(fd.Pos()), "the image is not handed to jpeg.Encode as it is (converted first, or no JPEG branch)")
		r.Count("E5.jpeg-branches", 1)
		r.Floor("E5.jpeg-branches", 1)
		return
	}
	// the dict with Subtype Image and Filter: ColorSpace value
	var csVal ast.Expr
	ast.Inspect(fd.Body, func(m ast.Node) bool {
		cl, ok := m.(*ast.CompositeLit)
		if !ok {
			return true
		}
		var cs ast.Expr
		hasFilterVar := false
		for _, el := range cl.Elts {
			kv, ok := el.(*ast.KeyValueExpr)
			if !ok {
				continue
			}
			if v := core.ConstVal(info, kv.Key); v != nil && v.Kind() == constant.String {
				switch constant.StringVal(v) {
				case "ColorSpace":
					cs = kv.Value
				case "Filter":
					if fid, isId := core.Unparen(kv.Value).(*ast.Ident); isId {
						if _, isVar := core.ObjOf(info, fid).(*types.Var); isVar {
							hasFilterVar = true
						}
					}
				}
			}
		}
		if cs != nil && hasFilterVar {
			csVal = cs
		}
		return true
	})
	if csVal == nil {
		r.Fail("E5.jpeg-colorspace", key, c.Pos(fd.Pos()), "the image dictionary (with a variable /Filter) was not found")
		return
	}
	id, isVar := core.Unparen(csVal).(*ast.Ident)
	okRule := false
	if isVar {
		o := core.ObjOf(info, id)
		// assigned under a type assertion / type switch on the image
		ast.Inspect(fd.Body, func(m ast.Node) bool {
			is, ok := m.(*ast.IfStmt)
			if !ok {
				return true
			}
			typeTest := false
			for _, n := range []ast.Node{is.Init, is.Cond} {
				if n == nil {
					continue
				}
				ast.Inspect(n, func(k ast.Node) bool {
					if ta, ok := k.(*ast.TypeAssertExpr); ok {
						if tid, ok := core.Unparen(ta.X).(*ast.Ident); ok && core.ObjOf(info, tid) == imgObj {
							typeTest = true
						}
					}
					return true
				})
			}
			if !typeTest {
				return true
			}
			ast.Inspect(is.Body, func(k ast.Node) bool {
				if as, ok := k.(*ast.AssignStmt); ok {
					for _, l := range as.Lhs {
						if lid, ok := l.(*ast.Ident); ok && core.ObjOf(info, lid) == o {
							okRule = true
						}
					}
				}
				return true
			})
			return true
		})
	}
	if okRule {
		r.OK("E5.jpeg-colorspace", key, c.Pos(csVal.Pos()), "")
	} else {
		r.Fail("E5.jpeg-colorspace", key, c.Pos(csVal.Pos()), fmt.Sprintf("/ColorSpace is `%s` whatever the image, but jpeg.Encode writes one component for *image.Gray: the stream of a grayscale image does not match the declared colour space", c.Src(csVal)))
	}
	r.Count("E5.jpeg-branches", 1)
	r.Floor("E5.jpeg-branches", 1)
}

// E5StitchingArity: a stitching function has one bound fewer than functions and two encode values per function.
func E5StitchingArity(c *core.Ctx, r *core.Report) {
	r.Rule("E5.stitching-arity", "patternStopsFunction builds a PDF stitching function (FunctionType 3) for the colour stops of a gradient: k sub-functions need k−1 Bounds and 2k Encode values (ISO 32000-1 §7.10.4). The arrays are filled by appends spread over an optional leading constant piece, a loop over the stop pairs and an optional trailing constant piece; the counts are followed over every path through the function (if/else both ways, the loop body evaluated for its first and for a later iteration with the conditions on the loop variable decided, at least one iteration): at the return that builds the dictionary #Functions − #Bounds = 1 and #Encode = 2·#Functions on all of them. A trailing piece that adds a function without its bound gives a dictionary no reader accepts, and the gradient is not painted as the rasterizer paints it")
	p := c.MustPkg("renderers/pdf")
	info := p.TypesInfo
	fd := core.MustFuncDecl(p, "patternStopsFunction")
	r.Func("renderers/pdf.patternStopsFunction")
	key := "renderers/pdf.patternStopsFunction|Functions, Bounds and Encode have matching lengths"
	// the three arrays: values of the dictionary with FunctionType 3
	var fsO, boundsO, encodeO types.Object
	var dictPos token.Pos
	ast.Inspect(fd.Body, func(m ast.Node) bool {
		cl, ok := m.(*ast.CompositeLit)
		if !ok {
			return true
		}
		vals := map[string]ast.Expr{}
		for _, el := range cl.Elts {
			if kv, ok := el.(*ast.KeyValueExpr); ok {
				if tv, ok := info.Types[kv.Key]; ok && tv.Value != nil && tv.Value.Kind() == constant.String {
					vals[constant.StringVal(tv.Value)] = kv.Value
				}
			}
		}
		ft, ok := vals["FunctionType"]
		if !ok {
			return true
		}
		if v, ok := core.ConstInt(info, ft); !ok || v != 3 {
			return true
		}
		obj := func(e ast.Expr) types.Object {
			if id, ok := core.Unparen(e).(*ast.Ident); ok {
				return core.ObjOf(info, id)
			}
			return nil
		}
		if vals["Functions"] != nil && vals["Bounds"] != nil && vals["Encode"] != nil {
			fsO, boundsO, encodeO, dictPos = obj(vals["Functions"]), obj(vals["Bounds"]), obj(vals["Encode"]), cl.Pos()
		}
		return true
	})
	if fsO == nil || boundsO == nil || encodeO == nil {
		r.Fail("E5.stitching-arity", key, c.Pos(fd.Pos()), "the FunctionType 3 dictionary with Functions, Bounds and Encode given by locals was not found")
		return
	}
	type cnt struct{ f, b, e int }
	type state map[cnt]bool
	appended := func(st ast.Stmt) (cnt, bool) {
		as, ok := st.(*ast.AssignStmt)
		if !ok || len(as.Lhs) != 1 || len(as.Rhs) != 1 {
			return cnt{}, false
		}
		id, ok := as.Lhs[0].(*ast.Ident)
		call, ok2 := core.Unparen(as.Rhs[0]).(*ast.CallExpr)
		if !ok || !ok2 || len(call.Args) < 2 || call.Ellipsis.IsValid() {
			return cnt{}, false
		}
		if fn, ok := core.Unparen(call.Fun).(*ast.Ident); !ok || fn.Name != "append" {
			return cnt{}, false
		}
		if a0, ok := core.Unparen(call.Args[0]).(*ast.Ident); !ok || core.ObjOf(info, a0) != core.ObjOf(info, id) {
			return cnt{}, false
		}
		k := len(call.Args) - 1
		switch core.ObjOf(info, id) {
		case fsO:
			return cnt{f: k}, true
		case boundsO:
			return cnt{b: k}, true
		case encodeO:
			return cnt{e: k}, true
		}
		return cnt{}, false
	}
	undecided := ""
	relative := false // counts are those of one later iteration, not of the whole path
	laterNonEmpty := map[types.Object]bool{}
	var finals []cnt
	var walk func(stmts []ast.Stmt, in state, loopVar types.Object, first bool) state
	walk = func(stmts []ast.Stmt, in state, loopVar types.Object, first bool) state {
		cur := in
		for _, st := range stmts {
			switch x := st.(type) {
			case *ast.ReturnStmt:
				isDict := false
				for _, res := range x.Results {
					ast.Inspect(res, func(k ast.Node) bool {
						if cl, ok := k.(*ast.CompositeLit); ok && cl.Pos() == dictPos {
							isDict = true
						}
						return true
					})
				}
				if isDict {
					for s := range cur {
						finals = append(finals, s)
					}
				}
				return state{}
			case *ast.IfStmt:
				env := func(e ast.Expr) tri {
					be, ok := e.(*ast.BinaryExpr)
					if !ok || loopVar == nil {
						return tUnknown
					}
					id, ok := core.Unparen(be.X).(*ast.Ident)
					other := be.Y
					op := be.Op
					if !ok || core.ObjOf(info, id) != loopVar {
						id, ok = core.Unparen(be.Y).(*ast.Ident)
						other = be.X
						switch op {
						case token.LSS:
							op = token.GTR
						case token.GTR:
							op = token.LSS
						case token.LEQ:
							op = token.GEQ
						case token.GEQ:
							op = token.LEQ
						}
						if !ok || core.ObjOf(info, id) != loopVar {
							return tUnknown
						}
					}
					v, isC := core.ConstInt(info, other)
					if !isC || v != 0 {
						return tUnknown
					}
					// i is 0 in the first iteration and positive later
					switch op {
					case token.EQL, token.LEQ:
						return triOf(first)
					case token.NEQ, token.GTR:
						return triOf(!first)
					case token.GEQ:
						return tTrue
					case token.LSS:
						return tFalse
					}
					return tUnknown
				}
				out := state{}
				for one := range cur {
					single := state{one: true}
					// a test of an array's length against 0 is decided by the count reached on this path (in a later
					// iteration, where counts are relative, by what every path of a full iteration has appended)
					envLen := func(e ast.Expr) tri {
						if t := env(e); t != tUnknown {
							return t
						}
						be, ok := e.(*ast.BinaryExpr)
						if !ok {
							return tUnknown
						}
						lenArr := func(e ast.Expr) (types.Object, bool) {
							call, ok := core.Unparen(e).(*ast.CallExpr)
							if !ok || len(call.Args) != 1 {
								return nil, false
							}
							if fn, ok := core.Unparen(call.Fun).(*ast.Ident); !ok || fn.Name != "len" {
								return nil, false
							}
							if a, ok := core.Unparen(call.Args[0]).(*ast.Ident); ok {
								return core.ObjOf(info, a), true
							}
							return nil, false
						}
						arr, okL := lenArr(be.X)
						op := be.Op
						zero := be.Y
						if !okL {
							arr, okL = lenArr(be.Y)
							zero = be.X
							switch op {
							case token.LSS:
								op = token.GTR
							case token.GTR:
								op = token.LSS
							case token.LEQ:
								op = token.GEQ
							case token.GEQ:
								op = token.LEQ
							}
						}
						if v, isC := core.ConstInt(info, zero); !okL || !isC || v != 0 {
							return tUnknown
						}
						count, known := 0, true
						switch arr {
						case fsO:
							count = one.f
						case boundsO:
							count = one.b
						case encodeO:
							count = one.e
						default:
							known = false
						}
						if !known {
							return tUnknown
						}
						nonEmpty := count > 0 || (relative && laterNonEmpty[arr])
						if relative && count == 0 && !laterNonEmpty[arr] {
							return tUnknown
						}
						switch op {
						case token.GTR, token.NEQ:
							return triOf(nonEmpty)
						case token.EQL, token.LEQ:
							return triOf(!nonEmpty)
						case token.GEQ:
							return tTrue
						case token.LSS:
							return tFalse
						}
						return tUnknown
					}
					t := evalBool(info, x.Cond, envLen)
					if t != tFalse {
						for s := range walk(x.Body.List, single, loopVar, first) {
							out[s] = true
						}
					}
					if t != tTrue {
						switch el := x.Else.(type) {
						case nil:
							out[one] = true
						case *ast.BlockStmt:
							for s := range walk(el.List, single, loopVar, first) {
								out[s] = true
							}
						case *ast.IfStmt:
							for s := range walk([]ast.Stmt{el}, single, loopVar, first) {
								out[s] = true
							}
						}
					}
				}
				cur = out
			case *ast.ForStmt:
				var lv types.Object
				if as, ok := x.Init.(*ast.AssignStmt); ok && len(as.Lhs) == 1 && len(as.Rhs) == 1 {
					if v, ok := core.ConstInt(info, as.Rhs[0]); ok && v == 0 {
						if id, ok := as.Lhs[0].(*ast.Ident); ok {
							lv = core.ObjOf(info, id)
						}
					}
				}
				if lv == nil {
					undecided = "a loop without a counter starting at 0"
					return cur
				}
				firstIter := walk(x.Body.List, cur, lv, true)
				laterNonEmpty = map[types.Object]bool{fsO: true, boundsO: true, encodeO: true}
				for s := range firstIter {
					if s.f == 0 {
						laterNonEmpty[fsO] = false
					}
					if s.b == 0 {
						laterNonEmpty[boundsO] = false
					}
					if s.e == 0 {
						laterNonEmpty[encodeO] = false
					}
				}
				relative = true
				later := walk(x.Body.List, state{cnt{}: true}, lv, false)
				relative = false
				for s := range later {
					if s.f-s.b != 0 || s.e != 2*s.f {
						undecided = fmt.Sprintf("an iteration after the first adds %d function(s), %d bound(s) and %d encode value(s): the lengths drift apart with the number of stops", s.f, s.b, s.e)
					}
				}
				cur = firstIter
			case *ast.BlockStmt:
				cur = walk(x.List, cur, loopVar, first)
			case *ast.RangeStmt:
				undecided = "a range loop fills the arrays (not followed)"
			default:
				if d, ok := appended(st); ok {
					out := state{}
					for s := range cur {
						out[cnt{s.f + d.f, s.b + d.b, s.e + d.e}] = true
					}
					cur = out
				}
			}
		}
		return cur
	}
	walk(fd.Body.List, state{cnt{}: true}, nil, false)
	switch {
	case undecided != "":
		r.Fail("E5.stitching-arity", key, c.Pos(fd.Pos()), undecided)
	case len(finals) == 0:
		r.Fail("E5.stitching-arity", key, c.Pos(fd.Pos()), "no path reaches the return of the stitching dictionary")
	default:
		bad := ""
		for _, s := range finals {
			// the loop's later iterations add equal numbers, so the difference is that of the counted path
			if s.f-s.b != 1 || s.e != 2*s.f {
				bad = fmt.Sprintf("on a path through the function the dictionary gets k functions, k−%d bounds and %+d encode values relative to 2k (counted: %d functions, %d bounds, %d encode values with one loop iteration)", s.f-s.b, s.e-2*s.f, s.f, s.b, s.e)
			}
		}
		if bad != "" {
			r.Fail("E5.stitching-arity", key, c.Pos(dictPos), bad+": k sub-functions need k−1 Bounds and 2k Encode values")
		} else {
			r.OK("E5.stitching-arity", key, c.Pos(dictPos), fmt.Sprintf("%d path(s)", len(finals)))
		}
	}
	r.Count("E5.stitching-dicts", 1)
	r.Floor("E5.stitching-dicts", 1)
}

// E5TextStringEncoding: a text string is written raw only when it is ASCII.
func E5TextStringEncoding(c *core.Ctx, r *core.Report) {
	r.Rule("E5.text-string-encoding", "a PDF text string without the byte-order mark FE FF is read as PDFDocEncoding, which agrees with Unicode on the printable ASCII range only (A0 is the Euro sign, AD and 9F are undefined, 80–9E are dashes, quotes and ligatures). The helper of pdfWriter.Close that encodes the metadata — the function literal that calls utf16.Encode — therefore writes a string as it is only if every rune is below 0x80: the smallest rune for which its rune comparisons choose the UTF-16BE form is 0x80, and the UTF-16 branch writes the mark. With the Latin-1 bound 0xFF, a title with a no-break space or a soft hyphen is stored as a byte a reader shows as another character")
	p := c.MustPkg(pdfRel)
	info := p.TypesInfo
	fd := core.MustFuncDecl(p, "pdfWriter.Close")
	var lit *ast.FuncLit
	ast.Inspect(fd.Body, func(m ast.Node) bool {
		fl, ok := m.(*ast.FuncLit)
		if !ok {
			return true
		}
		has := false
		ast.Inspect(fl.Body, func(k ast.Node) bool {
			if call, ok := k.(*ast.CallExpr); ok {
				if f := core.CalleeOf(info, call); f != nil && f.Pkg() != nil && f.Pkg().Path() == "unicode/utf16" && f.Name() == "Encode" {
					has = true
				}
			}
			return true
		})
		if has {
			lit = fl
		}
		return true
	})
	key := "pdf.pdfWriter.Close|metadata is written raw only when ASCII"
	if lit == nil {
		r.Fail("E5.text-string-encoding", key, c.Pos(fd.Pos()), "the helper that encodes text strings as UTF-16BE was not found")
		return
	}
	// thresholds: smallest rune that satisfies a comparison `r ⋈ K` of a rune-typed variable with a constant
	threshold := int64(-1)
	var at token.Pos
	ast.Inspect(lit.Body, func(m ast.Node) bool {
		be, ok := m.(*ast.BinaryExpr)
		if !ok {
			return true
		}
		isRune := func(e ast.Expr) bool {
			id, ok := core.Unparen(e).(*ast.Ident)
			if !ok {
				return false
			}
			b, ok := info.TypeOf(id).Underlying().(*types.Basic)
			return ok && (b.Kind() == types.Int32 || b.Kind() == types.UntypedRune)
		}
		var k int64
		var t int64 = -1
		if kv, ok := core.ConstInt(info, be.Y); ok && isRune(be.X) {
			k = kv
			switch be.Op {
			case token.GEQ:
				t = k
			case token.GTR:
				t = k + 1
			case token.LSS: // r < K : raw below K
				t = k
			case token.LEQ:
				t = k + 1
			}
		} else if kv, ok := core.ConstInt(info, be.X); ok && isRune(be.Y) {
			k = kv
			switch be.Op {
			case token.LEQ: // K <= r
				t = k
			case token.LSS: // K < r
				t = k + 1
			case token.GTR: // K > r : raw below K
				t = k
			case token.GEQ:
				t = k + 1
			}
		}
		if t >= 0 && (threshold < 0 || t > threshold) {
			threshold, at = t, be.Pos()
		}
		return true
	})
	// the UTF-16 branch writes the byte-order mark
	bom := false
	ast.Inspect(lit.Body, func(m ast.Node) bool {
		if bl, ok := m.(*ast.BasicLit); ok {
			v := strings.ToLower(bl.Value)
			if strings.Contains(v, "feff") || strings.Contains(v, `\xfe\xff`) || strings.Contains(v, "0xfe") || v == "254" {
				bom = true
			}
		}
		return true
	})
	switch {
	case threshold < 0:
		r.Fail("E5.text-string-encoding", key, c.Pos(lit.Pos()), "no comparison of a rune with a constant decides between the raw and the UTF-16BE form")
	case threshold != 0x80:
		r.Fail("E5.text-string-encoding", key, c.Pos(at), fmt.Sprintf("strings are written raw up to rune 0x%X; PDFDocEncoding agrees with Unicode only below 0x80, so e.g. U+00A0 (no-break space) is stored as the byte a reader shows as the Euro sign", threshold-1))
	case !bom:
		r.Fail("E5.text-string-encoding", key, c.Pos(lit.Pos()), "the UTF-16 form is written without the byte-order mark FE FF: a reader takes it for PDFDocEncoding")
	default:
		r.OK("E5.text-string-encoding", key, c.Pos(lit.Pos()), "raw below 0x80, otherwise FE FF + UTF-16BE")
	}
	r.Count("E5.text-string-encoders", 1)
	r.Floor("E5.text-string-encoders", 1)
}

// E5DefaultWidth: codes the /W array does not list take the default width, so /DW is theirs.
func E5DefaultWidth(c *core.Ctx, r *core.Report) {
	r.Rule("E5.default-width", "pdfWriter.writeFont lists widths in /W from the code its run variables start at; every lower code — code 0, .notdef, which the subsetter pins there — reaches a reader through /DW only. The value stored under \"DW\" is therefore the width of code 0: a variable defined as widths[0] (the slice the runs are found in) and not assigned again, or that expression itself; if the run variables start at 0 every code is listed and /DW is free. Choosing the most frequent width as the default looks like a size optimisation, but after every character the font lacks a reader then advances by another glyph's width, while layout and the TJ corrections use .notdef's own advance")
	p := c.MustPkg(pdfRel)
	info := p.TypesInfo
	fd := core.MustFuncDecl(p, "pdfWriter.writeFont")
	key := "pdf.pdfWriter.writeFont|/DW is the width of the codes /W leaves out"
	// the widths slice: the []int ranged over by the run loop; the run start: ints defined `i, j := s, s` before that loop
	var widthsObj types.Object
	start := int64(-1)
	for i, st := range fd.Body.List {
		rs, ok := st.(*ast.RangeStmt)
		if !ok {
			continue
		}
		wid, ok := core.Unparen(rs.X).(*ast.Ident)
		if !ok {
			continue
		}
		if sl, ok := info.TypeOf(wid).Underlying().(*types.Slice); !ok || !types.Identical(sl.Elem(), types.Typ[types.Int]) {
			continue
		}
		// the statement before: run variables
		if i == 0 {
			continue
		}
		if as, ok := fd.Body.List[i-1].(*ast.AssignStmt); ok && as.Tok == token.DEFINE && len(as.Lhs) == len(as.Rhs) {
			s := int64(-1)
			same := true
			for _, rhs := range as.Rhs {
				v, ok := core.ConstInt(info, rhs)
				if !ok || (s >= 0 && v != s) {
					same = false
				}
				s = v
			}
			if same && s >= 0 {
				widthsObj, start = core.ObjOf(info, wid), s
			}
		}
	}
	if widthsObj == nil {
		r.Fail("E5.default-width", key, c.Pos(fd.Pos()), "the run loop over the widths and the start of its run variables were not found")
		return
	}
	// the value stored under "DW"
	var dw ast.Expr
	ast.Inspect(fd.Body, func(m ast.Node) bool {
		kv, ok := m.(*ast.KeyValueExpr)
		if !ok {
			return true
		}
		if s, ok := constString(info, kv.Key); ok && s == "DW" {
			dw = kv.Value
		}
		return true
	})
	if dw == nil {
		r.Fail("E5.default-width", key, c.Pos(fd.Pos()), "no \"DW\" entry is written")
		return
	}
	r.Count("E5.dw-entries", 1)
	r.Floor("E5.dw-entries", 1)
	if start == 0 {
		r.OK("E5.default-width", key, c.Pos(dw.Pos()), "/W lists every code from 0")
		return
	}
	isCode0 := func(e ast.Expr) bool {
		ie, ok := core.Unparen(e).(*ast.IndexExpr)
		if !ok {
			return false
		}
		id, ok := core.Unparen(ie.X).(*ast.Ident)
		if !ok || core.ObjOf(info, id) != widthsObj {
			return false
		}
		v, ok := core.ConstInt(info, ie.Index)
		return ok && v == 0
	}
	okDW := isCode0(dw)
	why := "`" + types.ExprString(dw) + "` is not the width of code 0"
	if id, ok := core.Unparen(dw).(*ast.Ident); ok {
		o := core.ObjOf(info, id)
		nAssign := 0
		var first ast.Expr
		ast.Inspect(fd.Body, func(m ast.Node) bool {
			as, ok := m.(*ast.AssignStmt)
			if !ok {
				return true
			}
			for i, l := range as.Lhs {
				if lid, ok := l.(*ast.Ident); ok && core.ObjOf(info, lid) == o {
					nAssign++
					if first == nil && i < len(as.Rhs) && len(as.Lhs) == len(as.Rhs) {
						first = as.Rhs[i]
					}
				}
			}
			return true
		})
		switch {
		case first == nil || !isCode0(first):
			why = "`" + id.Name + "` is not defined as the width of code 0"
		case nAssign != 1:
			why = fmt.Sprintf("`%s` starts as the width of code 0 but is assigned %d times: the value written is another glyph's width", id.Name, nAssign)
		default:
			okDW = true
		}
	}
	if okDW {
		r.OK("E5.default-width", key, c.Pos(dw.Pos()), fmt.Sprintf("/W starts at code %d, /DW = widths[0]", start))
	} else {
		r.Fail("E5.default-width", key, c.Pos(dw.Pos()), fmt.Sprintf("/W lists the codes from %d on, so code 0 (.notdef) takes /DW, but %s: a reader advances by the wrong amount after every character the font lacks", start, why))
	}
}

// E5FilterApplied: a filter that writeVal encodes itself is applied on every path.
func E5FilterApplied(c *core.Ctx, r *core.Report) {
	r.Rule("E5.filter-applied", "pdfWriter.writeVal writes the stream's dictionary as its callers built it, /Filter included, and encodes the bytes itself for the filters its `switch filter` has cases for (Flate, ASCII85). In each of those cases every path replaces the stream bytes by the encoder's output (an assignment to the byte slice that is written after the dictionary); a path that leaves the case before that — `break` for payloads too short to be worth compressing — writes raw bytes under a dictionary that still says /FlateDecode, and a reader cannot decode the stream (a 2×2 image, the CIDToGIDMap of a font with six glyphs)")
	p := c.MustPkg(pdfRel)
	info := p.TypesInfo
	wv := core.MustFuncDecl(p, "pdfWriter.writeVal")
	n := 0
	ast.Inspect(wv.Body, func(m ast.Node) bool {
		rs, ok := m.(*ast.RangeStmt)
		if !ok {
			return true
		}
		// the loop over the filters: its body is a switch over a pdfFilter
		var sw *ast.SwitchStmt
		for _, st := range rs.Body.List {
			if s, ok := st.(*ast.SwitchStmt); ok && s.Tag != nil {
				if t := info.TypeOf(s.Tag); t != nil && isNamed(t, "renderers/pdf", "pdfFilter") {
					sw = s
				}
			}
		}
		if sw == nil {
			return true
		}
		// the byte slice: assigned in the cases and declared before the loop
		counts := map[types.Object]int{}
		for _, cs := range sw.Body.List {
			ast.Inspect(cs, func(k ast.Node) bool {
				if as, ok := k.(*ast.AssignStmt); ok && as.Tok == token.ASSIGN {
					for _, l := range as.Lhs {
						if id, ok := l.(*ast.Ident); ok {
							if o := core.ObjOf(info, id); o != nil && o.Pos() < rs.Pos() {
								if sl, ok := o.Type().Underlying().(*types.Slice); ok && types.Identical(sl.Elem(), types.Typ[types.Byte]) {
									counts[o]++
								}
							}
						}
					}
				}
				return true
			})
		}
		var bytesObj types.Object
		for o, k := range counts {
			if bytesObj == nil || k > counts[bytesObj] {
				bytesObj = o
			}
		}
		if bytesObj == nil {
			return true
		}
		for _, cs := range sw.Body.List {
			cc := cs.(*ast.CaseClause)
			if len(cc.List) == 0 {
				continue // pass-through: the bytes are already encoded
			}
			n++
			key := "pdf.pdfWriter.writeVal|" + core.CaseLabel(info, cc) + "|the filter is applied on every path"
			ok, bad := cpsMustHitOpt(cc.Body, func(st ast.Stmt) bool {
				as, ok := st.(*ast.AssignStmt)
				if !ok {
					return false
				}
				for _, l := range as.Lhs {
					if id, ok := l.(*ast.Ident); ok && core.ObjOf(info, id) == bytesObj {
						return true
					}
				}
				return false
			}, true)
			if ok {
				r.OK("E5.filter-applied", key, c.Pos(cc.Pos()), "")
			} else {
				pos := cc.Pos()
				if bad != nil {
					pos = bad.Pos()
				}
				r.Fail("E5.filter-applied", key, c.Pos(pos), "a path through this case leaves the stream bytes as they are, while the dictionary written before them still names the filter: the stream does not decode")
			}
		}
		return false
	})
	r.Count("E5.self-encoded-filters", n)
	r.Floor("E5.self-encoded-filters", 2)
}

// emitPath is one path through a function body: the outcomes assumed for its conditions and what it wrote.
type emitPath struct {
	assume map[string]bool
	vars   map[types.Object]string
	text   string
	dead   bool // ended by return
}

func (p emitPath) clone() emitPath {
	q := emitPath{assume: map[string]bool{}, vars: map[types.Object]string{}, text: p.text, dead: p.dead}
	for k, v := range p.assume {
		q.assume[k] = v
	}
	for k, v := range p.vars {
		q.vars[k] = v
	}
	return q
}

// emitPaths enumerates the paths through stmts that differ in what they write to the stream: an if statement is
// split only when its subtree writes to the stream or assigns a string local; conditions already decided on the
// path are not split again; a constant fragment is appended literally, anything else that reaches the stream as "¤".
func emitPaths(info *types.Info, stmts []ast.Stmt, in []emitPath, isStream func(ast.Expr) bool) []emitPath {
	relevant := func(n ast.Node) bool {
		hit := false
		ast.Inspect(n, func(m ast.Node) bool {
			switch x := m.(type) {
			case *ast.CallExpr:
				if se, ok := x.Fun.(*ast.SelectorExpr); ok && isStream(se.X) {
					hit = true
				}
			case *ast.AssignStmt:
				for _, l := range x.Lhs {
					if id, ok := l.(*ast.Ident); ok {
						if b, ok := info.TypeOf(id).Underlying().(*types.Basic); ok && b.Kind() == types.String {
							hit = true
						}
					}
				}
			case *ast.ReturnStmt:
				hit = true
			}
			return !hit
		})
		return hit
	}
	condKey := func(e ast.Expr) (string, bool) {
		e = core.Unparen(e)
		neg := false
		for {
			u, ok := e.(*ast.UnaryExpr)
			if !ok || u.Op != token.NOT {
				break
			}
			neg = !neg
			e = core.Unparen(u.X)
		}
		return types.ExprString(e), !neg
	}
	var write func(p *emitPath, call *ast.CallExpr)
	write = func(p *emitPath, call *ast.CallExpr) {
		se := call.Fun.(*ast.SelectorExpr)
		if (se.Sel.Name == "Write" || se.Sel.Name == "WriteString") && len(call.Args) == 1 {
			arg := core.Unparen(call.Args[0])
			if conv, isCall := arg.(*ast.CallExpr); isCall && len(conv.Args) == 1 {
				if tv, isT := info.Types[conv.Fun]; isT && tv.IsType() {
					arg = core.Unparen(conv.Args[0])
				}
			}
			if s, ok := constString(info, arg); ok {
				p.text += s
				return
			}
			if id, ok := arg.(*ast.Ident); ok {
				if s, ok := p.vars[core.ObjOf(info, id)]; ok {
					p.text += s
					return
				}
			}
			p.text += "¤"
			return
		}
		p.text += " «" + se.Sel.Name + "» "
	}
	var stmt func(s ast.Stmt, ps []emitPath) []emitPath
	block := func(list []ast.Stmt, ps []emitPath) []emitPath {
		for _, s := range list {
			ps = stmt(s, ps)
		}
		return ps
	}
	stmt = func(s ast.Stmt, ps []emitPath) []emitPath {
		if len(ps) > 4096 {
			return ps
		}
		switch x := s.(type) {
		case *ast.ExprStmt:
			if call, ok := x.X.(*ast.CallExpr); ok {
				if se, ok := call.Fun.(*ast.SelectorExpr); ok && isStream(se.X) {
					for i := range ps {
						if !ps[i].dead {
							write(&ps[i], call)
						}
					}
				}
			}
		case *ast.AssignStmt:
			for i := range ps {
				if ps[i].dead {
					continue
				}
				for k, l := range x.Lhs {
					id, ok := l.(*ast.Ident)
					if !ok {
						continue
					}
					o := core.ObjOf(info, id)
					prev, had := ps[i].vars[o]
					delete(ps[i].vars, o)
					if len(x.Lhs) == len(x.Rhs) {
						if sv, ok := constString(info, x.Rhs[k]); ok {
							switch {
							case x.Tok == token.ASSIGN || x.Tok == token.DEFINE:
								ps[i].vars[o] = sv
							case x.Tok == token.ADD_ASSIGN && had:
								ps[i].vars[o] = prev + sv
							}
						}
					}
					for c := range ps[i].assume {
						if condMentions(c, id.Name) {
							delete(ps[i].assume, c)
						}
					}
				}
			}
		case *ast.ReturnStmt:
			for i := range ps {
				ps[i].dead = true
			}
		case *ast.BlockStmt:
			return block(x.List, ps)
		case *ast.IfStmt:
			if x.Init != nil {
				ps = stmt(x.Init, ps)
			}
			if !relevant(x) {
				return ps
			}
			key, pos := condKey(x.Cond)
			var out []emitPath
			for _, p := range ps {
				if p.dead {
					out = append(out, p)
					continue
				}
				v, known := p.assume[key]
				for _, take := range []bool{true, false} {
					if known && v != (take == pos) {
						continue
					}
					q := p.clone()
					if pureCond(x.Cond) {
						q.assume[key] = take == pos
					}
					if take {
						out = append(out, block(x.Body.List, []emitPath{q})...)
					} else if x.Else != nil {
						out = append(out, stmt(x.Else, []emitPath{q})...)
					} else {
						out = append(out, q)
					}
				}
			}
			return out
		}
		return ps
	}
	return block(stmts, in)
}

// E5ClosedPaintOperator: the PDF operator that strokes the stripped path data closes it exactly when it was closed.
func E5ClosedPaintOperator(c *core.Ctx, r *core.Report) {
	r.Rule("E5.closed-paint-operator", "PDF.RenderPath cuts a trailing `h` (close path) off the path data and remembers it in a boolean; the path is then closed by the painting operator. On every path through the function that writes a stroking operator (S s B B* b b*), the operator is a closing one (s, b, b*) exactly when that boolean is true on the path, and no such operator is written on a path that has not tested it. With `B*` after the stripped data the area is filled but the closing segment and the join at the start are not stroked; with `s` on an open path a segment is added")
	p := c.MustPkg(pdfRel)
	info := p.TypesInfo
	fd := core.MustFuncDecl(p, "PDF.RenderPath")
	r.Func("pdf.PDF.RenderPath")
	// the boolean: set to true in the branch taken when the data ends in 'h', where the data is cut
	var closed types.Object
	ast.Inspect(fd.Body, func(m ast.Node) bool {
		is, ok := m.(*ast.IfStmt)
		if !ok {
			return true
		}
		hasH := false
		ast.Inspect(is.Cond, func(k ast.Node) bool {
			if e, ok := k.(ast.Expr); ok {
				if v, isInt := core.ConstInt(info, e); isInt && v == 'h' {
					hasH = true
				}
			}
			return true
		})
		if !hasH {
			return true
		}
		cut := false
		var flag types.Object
		for _, s := range is.Body.List {
			as, ok := s.(*ast.AssignStmt)
			if !ok || len(as.Lhs) != 1 || len(as.Rhs) != 1 {
				continue
			}
			if _, ok := core.Unparen(as.Rhs[0]).(*ast.SliceExpr); ok {
				cut = true
			}
			if id, ok := core.Unparen(as.Rhs[0]).(*ast.Ident); ok && id.Name == "true" {
				if l, ok := as.Lhs[0].(*ast.Ident); ok {
					flag = core.ObjOf(info, l)
				}
			}
		}
		if cut && flag != nil {
			closed = flag
		}
		return true
	})
	if closed == nil {
		r.Fail("E5.closed-paint-operator", "pdf.PDF.RenderPath|flag", c.Pos(fd.Pos()), "the branch that cuts the trailing `h` off the path data and records it in a boolean was not found; the rule cannot be decided")
		return
	}
	isStream := func(e ast.Expr) bool { return pdfGrammar.isStream(info, e) }
	paths := emitPaths(info, fd.Body.List, []emitPath{{assume: map[string]bool{}, vars: map[types.Object]string{}}}, isStream)
	closing := map[string]bool{"s": true, "b": true, "b*": true}
	stroking := map[string]bool{"S": true, "B": true, "B*": true, "s": true, "b": true, "b*": true}
	type verdict struct {
		ok  bool
		msg string
	}
	seen := map[string]verdict{}
	n := 0
	for _, pth := range paths {
		for _, tok := range strings.Fields(pth.text) {
			if !stroking[tok] {
				continue
			}
			n++
			v, known := pth.assume[closed.Name()]
			state := "untested"
			if known && v {
				state = "true"
			} else if known {
				state = "false"
			}
			key := fmt.Sprintf("pdf.PDF.RenderPath|operator %s with %s %s", tok, closed.Name(), state)
			var conds []string
			for k, b := range pth.assume {
				conds = append(conds, fmt.Sprintf("%s=%v", k, b))
			}
			sort.Strings(conds)
			switch {
			case !known:
				seen[key] = verdict{false, fmt.Sprintf("a path (%s) writes the stroking operator `%s` without having tested `%s`: the trailing `h` was cut off the data of a closed path, so whether the stroke closes depends on this operator alone, and it is wrong for either the closed or the open paths", strings.Join(conds, ", "), tok, closed.Name())}
			case v != closing[tok]:
				seen[key] = verdict{false, fmt.Sprintf("on a path with %s the stroking operator written is `%s` (path conditions: %s): %s", closed.Name()+"="+state, tok, strings.Join(conds, ", "), map[bool]string{true: "the `h` was cut off the data, so the closing segment and the join at the start point are not stroked", false: "the operator closes a path that was open, adding a segment"}[v])}
			default:
				if _, dup := seen[key]; !dup {
					seen[key] = verdict{true, ""}
				}
			}
		}
	}
	var keys []string
	for k := range seen {
		keys = append(keys, k)
	}
	sort.Strings(keys)
	for _, k := range keys {
		if seen[k].ok {
			r.OK("E5.closed-paint-operator", k, c.Pos(fd.Pos()), "")
		} else {
			r.Fail("E5.closed-paint-operator", k, c.Pos(fd.Pos()), seen[k].msg)
		}
	}
	r.Count("E5.closed-paint-operator:paths", len(paths))
	r.Count("E5.closed-paint-operator", n)
	r.Floor("E5.closed-paint-operator", 6)
}

// E5NameEscape: names are written with #xx escapes for the bytes a name cannot hold.
func E5NameEscape(c *core.Ctx, r *core.Report) {
	r.Rule("E5.name-escape", "writeVal writes a pdfName as `/` and its bytes. Inside a name, white space and the delimiters ( ) < > [ ] { } / % end the name and # starts an escape (ISO 32000-1 §7.3.5); names are made from font files' PostScript names and user-chosen family names. The pdfName case of writeVal therefore writes the result of an escaping function applied to the value: a package function with a loop over the bytes whose condition for escaping mentions each of the ten delimiter bytes and #, a lower bound at the space and an upper bound at ~, and which formats the escaped byte with a two-digit upper- or lower-case hexadecimal verb after #")
	p := c.MustPkg(pdfRel)
	info := p.TypesInfo
	wv := core.MustFuncDecl(p, "pdfWriter.writeVal")
	r.Func("pdf.pdfWriter.writeVal")
	key := "pdf.pdfWriter.writeVal|case pdfName|bytes escaped"
	var clause *ast.CaseClause
	ast.Inspect(wv.Body, func(n ast.Node) bool {
		ts, ok := n.(*ast.TypeSwitchStmt)
		if !ok || clause != nil {
			return true
		}
		for _, s := range ts.Body.List {
			cc := s.(*ast.CaseClause)
			for _, e := range cc.List {
				if tv, ok := info.Types[e]; ok && tv.IsType() {
					if nt, ok := tv.Type.(*types.Named); ok && nt.Obj().Name() == "pdfName" {
						clause = cc
					}
				}
			}
		}
		return false
	})
	if clause == nil {
		panic(core.Infra("E5.name-escape: pdfName case of writeVal not found"))
	}
	r.Count("E5.name-escape", 1)
	// the escaping function called in the case
	var esc *ast.FuncDecl
	for _, s := range clause.Body {
		ast.Inspect(s, func(m ast.Node) bool {
			if call, ok := m.(*ast.CallExpr); ok {
				if f := core.CalleeOf(info, call); f != nil && f.Pkg() == p.Types {
					if fd := core.FuncDecl(p, f.Name()); fd != nil && fd.Recv == nil && fd.Type.Results.NumFields() == 1 {
						if b, ok := info.TypeOf(fd.Type.Results.List[0].Type).Underlying().(*types.Basic); ok && b.Kind() == types.String {
							esc = fd
						}
					}
				}
			}
			return true
		})
	}
	if esc == nil {
		r.Fail("E5.name-escape", key, c.Pos(clause.Pos()), "the pdfName case of writeVal writes the bytes of the name as they are (no escaping function is applied): a space or delimiter in a font's PostScript or family name — `DejaVu(Serif` — ends the name inside the font dictionary and the object is not well-formed")
		return
	}
	r.Func("pdf." + core.FuncName(esc))
	// the loop, the condition, the hexadecimal verb
	var need = []byte("()<>[]{}/%#")
	have := map[byte]bool{}
	lower, upper, hexVerb, loop := false, false, false, false
	ast.Inspect(esc.Body, func(m ast.Node) bool {
		switch x := m.(type) {
		case *ast.ForStmt, *ast.RangeStmt:
			loop = true
		case *ast.BasicLit, *ast.Ident, *ast.BinaryExpr:
			e := x.(ast.Expr)
			if s, ok := constString(info, e); ok {
				if strings.Contains(s, "#%02X") || strings.Contains(s, "#%02x") {
					hexVerb = true // the format is not part of the condition
				} else {
					for i := 0; i < len(s); i++ {
						have[s[i]] = true
					}
				}
			} else if v, ok := core.ConstInt(info, e); ok && v >= 0 && v < 256 {
				have[byte(v)] = true
			}
			if be, ok := x.(*ast.BinaryExpr); ok && (be.Op == token.LEQ || be.Op == token.LSS) {
				// canonical form: smaller side on the left
				if v, ok := core.ConstInt(info, be.Y); ok && ((be.Op == token.LEQ && v == ' ') || (be.Op == token.LSS && v == '!')) {
					lower = true
				}
				if v, ok := core.ConstInt(info, be.X); ok && ((be.Op == token.LSS && v == '~') || (be.Op == token.LEQ && v == 0x7f)) {
					upper = true
				}
			}
		}
		return true
	})
	var missing []string
	for _, b := range need {
		if !have[b] {
			missing = append(missing, string(b))
		}
	}
	switch {
	case !loop:
		r.Fail("E5.name-escape", key, c.Pos(esc.Pos()), core.FuncName(esc)+" has no loop over the bytes of the name")
	case len(missing) > 0:
		r.Fail("E5.name-escape", key, c.Pos(esc.Pos()), fmt.Sprintf("%s does not mention the byte(s) %s: a name containing one of them is written verbatim and ends early (or, for #, is read as an escape)", core.FuncName(esc), strings.Join(missing, " ")))
	case !lower || !upper:
		r.Fail("E5.name-escape", key, c.Pos(esc.Pos()), fmt.Sprintf("%s does not bound the bytes written verbatim by the space from below (c <= ' ') and by ~ from above ('~' < c): white space or bytes outside printable ASCII are written into the name", core.FuncName(esc)))
	case !hexVerb:
		r.Fail("E5.name-escape", key, c.Pos(esc.Pos()), core.FuncName(esc)+" does not format escaped bytes as # followed by two hexadecimal digits (#%02X)")
	default:
		r.OK("E5.name-escape", key, c.Pos(esc.Pos()), "through "+core.FuncName(esc))
	}
}

// E5PaintFollowsItsSetter: a painting operator runs under the opacity set for its own paint.
func E5PaintFollowsItsSetter(c *core.Ctx, r *core.Report) {
	r.Rule("E5.paint-follows-its-setter", "the PDF page writer keeps one opacity for filling and stroking (SetFill and SetStroke both end in SetAlpha, which writes /CA and /ca together). On every path through PDF.RenderPath, the last of SetFill/SetStroke called before a filling operator (f, f*) is SetFill and before a stroking operator (S, s) is SetStroke; the combined operators (B, B*, b, b*) are written only after both and on a path where the two alphas were tested equal. With the stroke state set up before the `f` — mirroring the equal-alpha branch — the fill is painted with the stroke's opacity whenever the two differ")
	p := c.MustPkg(pdfRel)
	info := p.TypesInfo
	fd := core.MustFuncDecl(p, "PDF.RenderPath")
	r.Func("pdf.PDF.RenderPath")
	isStream := func(e ast.Expr) bool { return pdfGrammar.isStream(info, e) }
	paths := emitPaths(info, fd.Body.List, []emitPath{{assume: map[string]bool{}, vars: map[types.Object]string{}}}, isStream)
	// conditions that establish equal alphas: an equality of two `.A` components, or a boolean local defined by one
	alphaConds := map[string]bool{}
	isAlphaEq := func(e ast.Expr) bool {
		found := false
		ast.Inspect(e, func(m ast.Node) bool {
			if be, ok := m.(*ast.BinaryExpr); ok && be.Op == token.EQL {
				x, okx := core.Unparen(be.X).(*ast.SelectorExpr)
				y, oky := core.Unparen(be.Y).(*ast.SelectorExpr)
				if okx && oky && x.Sel.Name == "A" && y.Sel.Name == "A" {
					found = true
				}
			}
			return true
		})
		return found
	}
	ast.Inspect(fd.Body, func(m ast.Node) bool {
		switch x := m.(type) {
		case *ast.AssignStmt:
			if len(x.Lhs) == 1 && len(x.Rhs) == 1 && isAlphaEq(x.Rhs[0]) {
				if id, ok := x.Lhs[0].(*ast.Ident); ok {
					alphaConds[id.Name] = true
				}
			}
		case *ast.IfStmt:
			if isAlphaEq(x.Cond) {
				alphaConds[types.ExprString(core.Unparen(x.Cond))] = true
			}
		}
		return true
	})
	type verdict struct {
		ok  bool
		msg string
	}
	seen := map[string]verdict{}
	n := 0
	for _, pth := range paths {
		last := ""
		both := map[string]bool{}
		var conds []string
		for k, b := range pth.assume {
			conds = append(conds, fmt.Sprintf("%s=%v", k, b))
		}
		sort.Strings(conds)
		for _, tok := range strings.Fields(pth.text) {
			switch tok {
			case "«SetFill»", "«SetStroke»":
				last = strings.Trim(tok, "«»")
				both[last] = true
				continue
			}
			want := ""
			switch tok {
			case "f", "f*":
				want = "SetFill"
			case "S", "s":
				want = "SetStroke"
			case "B", "B*", "b", "b*":
				want = "both"
			default:
				continue
			}
			n++
			key := fmt.Sprintf("pdf.PDF.RenderPath|operator %s after %s", tok, last)
			switch {
			case want == "both":
				equalAlpha := false
				for k, b := range pth.assume {
					if b && alphaConds[k] {
						equalAlpha = true
					}
				}
				if both["SetFill"] && both["SetStroke"] && equalAlpha {
					if _, dup := seen[key]; !dup {
						seen[key] = verdict{true, ""}
					}
				} else {
					seen[key] = verdict{false, fmt.Sprintf("the combined operator `%s` is written on a path (%s) on which SetFill and SetStroke were not both called or the two alphas were not tested equal: one of the two paints runs under the other's opacity", tok, strings.Join(conds, ", "))}
				}
				both = map[string]bool{}
			case last != want:
				seen[key] = verdict{false, fmt.Sprintf("on a path (%s) the operator `%s` is written after %s was the last to set the shared opacity (want %s): the page writer has one alpha for both paints, so this paint is drawn with the other one's opacity whenever they differ", strings.Join(conds, ", "), tok, map[bool]string{true: "nothing", false: last}[last == ""], want)}
				both = map[string]bool{}
			default:
				if _, dup := seen[key]; !dup {
					seen[key] = verdict{true, ""}
				}
				both = map[string]bool{}
			}
		}
	}
	var keys []string
	for k := range seen {
		keys = append(keys, k)
	}
	sort.Strings(keys)
	for _, k := range keys {
		if seen[k].ok {
			r.OK("E5.paint-follows-its-setter", k, c.Pos(fd.Pos()), "")
		} else {
			r.Fail("E5.paint-follows-its-setter", k, c.Pos(fd.Pos()), seen[k].msg)
		}
	}
	r.Count("E5.paint-follows-its-setter", n)
	r.Floor("E5.paint-follows-its-setter", 10)
}

// E5GlyphStringEscapes: the bytes of a shown string are written raw or by an escape of fixed length.
func E5GlyphStringEscapes(c *core.Ctx, r *core.Report) {
	r.Rule("E5.glyph-string-escapes", "pdfPageWriter.WriteText writes glyph codes as the bytes of a literal string, through an if-chain on the byte. A reader decodes `\\\\` followed by n r t b f ( ) \\\\ as one byte and `\\\\` followed by one to three octal digits as one byte, taking as many digits as follow. Every write in a branch of those chains is therefore a single byte (WriteByte of a constant or of the byte itself), the second byte of such a pair, or an octal escape padded to three digits (`\\\\%03o`). An unpadded `\\\\%o` swallows a following raw digit 0–7: code 0x0130 is written `\\\\1` `0` and read back as the single byte 0x08, a byte is lost and every later code of the string is read from the wrong pairs — wrong glyphs and advances for fonts with more than 304 glyphs in use")
	p := c.MustPkg(pdfRel)
	info := p.TypesInfo
	fd := core.MustFuncDecl(p, "pdfPageWriter.WriteText")
	r.Func("pdf.pdfPageWriter.WriteText")
	n := 0
	chains := 0
	var visitChain func(is *ast.IfStmt, b types.Object, chain int)
	byteVar := func(cond ast.Expr) types.Object {
		var o types.Object
		ast.Inspect(cond, func(m ast.Node) bool {
			be, ok := m.(*ast.BinaryExpr)
			if !ok || (be.Op != token.EQL && be.Op != token.LSS && be.Op != token.LEQ) {
				return true
			}
			for _, pr := range [][2]ast.Expr{{be.X, be.Y}, {be.Y, be.X}} {
				if id, ok := core.Unparen(pr[0]).(*ast.Ident); ok {
					if _, isC := core.ConstInt(info, pr[1]); isC {
						if bt, ok := info.TypeOf(id).Underlying().(*types.Basic); ok && (bt.Kind() == types.Uint8 || bt.Kind() == types.Int32) {
							o = core.ObjOf(info, id)
						}
					}
				}
			}
			return true
		})
		return o
	}
	checkBody := func(body *ast.BlockStmt, b types.Object, chain, branch int) {
		for _, st := range body.List {
			es, ok := st.(*ast.ExprStmt)
			if !ok {
				continue
			}
			call, ok := es.X.(*ast.CallExpr)
			if !ok {
				continue
			}
			n++
			key := fmt.Sprintf("pdf.pdfPageWriter.WriteText|escape chain %d|branch %d|write %d", chain, branch, n)
			f := core.CalleeOf(info, call)
			name := ""
			if f != nil {
				name = f.Name()
			}
			switch {
			case name == "WriteByte" && len(call.Args) == 1:
				r.OK("E5.glyph-string-escapes", key, c.Pos(call.Pos()), types.ExprString(call.Args[0]))
			case (name == "Fprintf" || name == "Fprint") && len(call.Args) >= 2:
				format, isConst := constString(info, call.Args[1])
				if isConst && (format == "\\%03o" || format == "\\%03O") {
					r.OK("E5.glyph-string-escapes", key, c.Pos(call.Pos()), format)
				} else {
					r.Fail("E5.glyph-string-escapes", key, c.Pos(call.Pos()), fmt.Sprintf("`%s` writes an escape of variable length: a reader takes up to three octal digits after the backslash, so a raw byte '0'–'7' that follows is swallowed into the escape; the string loses a byte and every later two-byte code is read from the wrong pair (pad to three digits: `\\\\%%03o`)", c.Src(call)))
				}
			default:
				r.Fail("E5.glyph-string-escapes", key, c.Pos(call.Pos()), fmt.Sprintf("`%s` is neither a single byte nor a fixed-length escape", c.Src(call)))
			}
		}
	}
	visitChain = func(is *ast.IfStmt, b types.Object, chain int) {
		branch := 1
		for cur := is; cur != nil; {
			checkBody(cur.Body, b, chain, branch)
			branch++
			switch e := cur.Else.(type) {
			case *ast.IfStmt:
				cur = e
			case *ast.BlockStmt:
				checkBody(e, b, chain, branch)
				cur = nil
			default:
				cur = nil
			}
		}
	}
	seen := map[*ast.IfStmt]bool{}
	ast.Inspect(fd.Body, func(m ast.Node) bool {
		is, ok := m.(*ast.IfStmt)
		if !ok || seen[is] {
			return true
		}
		// mark the whole chain
		for cur := is; cur != nil; {
			seen[cur] = true
			if e, ok := cur.Else.(*ast.IfStmt); ok {
				cur = e
			} else {
				cur = nil
			}
		}
		b := byteVar(is.Cond)
		if b == nil {
			return true
		}
		// a chain of at least three comparisons of the byte with character constants whose bodies write
		links := 0
		for cur := is; cur != nil; {
			if byteVar(cur.Cond) == b {
				links++
			}
			if e, ok := cur.Else.(*ast.IfStmt); ok {
				cur = e
			} else {
				cur = nil
			}
		}
		if links < 3 {
			return true
		}
		chains++
		visitChain(is, b, chains)
		return true
	})
	r.Count("E5.escape-chains", chains)
	r.Floor("E5.escape-chains", 2)
	r.Count("E5.glyph-string-escapes", n)
	r.Floor("E5.glyph-string-escapes", 20)
}

// E5FunctionDictNeverEmpty: the function of a shading is a function dictionary on every path.
func E5FunctionDictNeverEmpty(c *core.Ctx, r *core.Report) {
	r.Rule("E5.function-dict-never-empty", "a shading dictionary requires a /Function; patternStopsFunction builds it from the colour stops. Every return of that function hands back a dictionary that has a FunctionType: a composite literal with that key, the result of the helper that builds one, or an element of the list of such results — never an empty pdfDict literal (which a gradient of one stop used to get: `/Function<<>>` is no function dictionary, and the page's pattern resource is malformed)")
	p := c.MustPkg(pdfRel)
	info := p.TypesInfo
	fd := core.MustFuncDecl(p, "patternStopsFunction")
	r.Func("pdf.patternStopsFunction")
	n := 0
	ast.Inspect(fd.Body, func(m ast.Node) bool {
		rs, ok := m.(*ast.ReturnStmt)
		if !ok || len(rs.Results) != 1 {
			return true
		}
		n++
		key := fmt.Sprintf("pdf.patternStopsFunction|return #%d is a function dictionary", n)
		res := core.Unparen(rs.Results[0])
		if cl, ok := res.(*ast.CompositeLit); ok {
			has := false
			for _, el := range cl.Elts {
				if kv, ok := el.(*ast.KeyValueExpr); ok {
					if s, isConst := constString(info, kv.Key); isConst && s == "FunctionType" {
						has = true
					}
				}
			}
			if has {
				r.OK("E5.function-dict-never-empty", key, c.Pos(rs.Pos()), "literal with FunctionType")
			} else {
				r.Fail("E5.function-dict-never-empty", key, c.Pos(rs.Pos()), fmt.Sprintf("`%s` is a dictionary without a FunctionType: the shading is written with a /Function that is no function dictionary (ISO 32000-1 §8.7.4.5 requires one), so the pattern resource of the page is malformed", c.Src(rs)))
			}
			return true
		}
		r.OK("E5.function-dict-never-empty", key, c.Pos(rs.Pos()), c.Src(res))
		return true
	})
	r.Count("E5.function-dict-never-empty", n)
	r.Floor("E5.function-dict-never-empty", 3)
}

// E5NameMemoScope: a map that remembers resource names lives as long as the resources the names were registered in.
func E5NameMemoScope(c *core.Ctx, r *core.Report) {
	r.Rule("E5.name-memo-scope", "resource names (/F0, /A1, …) are defined per page, in the page writer's resources. Every map field that remembers such names (a store `x.F[k] = name` with a pdfName value) is therefore a field of the page writer that every page-writer literal initialises with a fresh map. A map that outlives the page (a field of the document writer, or a page field filled from one) is accepted only when the remembered name is numbered from that same map (`len(F)`, so names are unique in the document) and the function registers the name in the page's resources outside the branch taken on a miss; otherwise a later page either reuses a number its own counter hands out again (two fonts under /F0) or emits a name it never registered")
	p := c.MustPkg(pdfRel)
	info := p.TypesInfo
	tn, _ := p.Types.Scope().Lookup("pdfName").(*types.TypeName)
	if tn == nil {
		panic(core.Infra("pdf.pdfName not found"))
	}
	// the page writer: the struct that owns the field `resources`
	var pageT *types.Struct
	for _, name := range p.Types.Scope().Names() {
		if t, ok := p.Types.Scope().Lookup(name).(*types.TypeName); ok {
			if st, ok := t.Type().Underlying().(*types.Struct); ok {
				for i := 0; i < st.NumFields(); i++ {
					if st.Field(i).Name() == "resources" {
						pageT = st
					}
				}
			}
		}
	}
	if pageT == nil {
		panic(core.Infra("the PDF page writer (struct with a field `resources`) was not found"))
	}
	ownedByPage := func(fv *types.Var) bool {
		for i := 0; i < pageT.NumFields(); i++ {
			if pageT.Field(i) == fv {
				return true
			}
		}
		return false
	}
	// freshInLiterals: every composite literal of the page writer gives fv a fresh map
	freshInLiterals := func(fv *types.Var) (bool, string) {
		seen := 0
		bad := ""
		for _, fd := range core.AllFuncDecls(p) {
			if fd.Body == nil {
				continue
			}
			ast.Inspect(fd.Body, func(m ast.Node) bool {
				cl, ok := m.(*ast.CompositeLit)
				if !ok {
					return true
				}
				if st, ok := info.TypeOf(cl).Underlying().(*types.Struct); !ok || st != pageT {
					return true
				}
				seen++
				var val ast.Expr
				for _, el := range cl.Elts {
					if kv, ok := el.(*ast.KeyValueExpr); ok {
						if k, ok := kv.Key.(*ast.Ident); ok && info.Uses[k] == fv {
							val = kv.Value
						}
					}
				}
				switch v := core.Unparen(val).(type) {
				case *ast.CompositeLit:
				case *ast.CallExpr:
					if id, ok := v.Fun.(*ast.Ident); !ok || id.Name != "make" {
						bad = fmt.Sprintf("%s initialises it with `%s`", core.FuncName(fd), c.Src(val))
					}
				default:
					if val == nil {
						bad = core.FuncName(fd) + " does not initialise it"
					} else {
						bad = fmt.Sprintf("%s initialises it with `%s`, a map that outlives the page", core.FuncName(fd), c.Src(val))
					}
				}
				return true
			})
		}
		if seen == 0 {
			return false, "no page-writer literal found"
		}
		return bad == "", bad
	}
	n := 0
	for _, fd := range core.AllFuncDecls(p) {
		if fd.Body == nil {
			continue
		}
		ord := 0
		ast.Inspect(fd.Body, func(m ast.Node) bool {
			as, ok := m.(*ast.AssignStmt)
			if !ok || len(as.Lhs) != 1 || len(as.Rhs) != 1 {
				return true
			}
			ie, ok := core.Unparen(as.Lhs[0]).(*ast.IndexExpr)
			if !ok {
				return true
			}
			var fv *types.Var
			switch x := core.Unparen(ie.X).(type) {
			case *ast.SelectorExpr:
				if s := info.Selections[x]; s != nil && s.Kind() == types.FieldVal {
					fv, _ = s.Obj().(*types.Var)
				}
			case *ast.Ident:
				// a package-level map outlives every page
				if v, ok := info.Uses[x].(*types.Var); ok && v.Parent() == p.Types.Scope() {
					fv = v
				}
			}
			if fv == nil {
				return true
			}
			mt, isMap := fv.Type().Underlying().(*types.Map)
			if !isMap || !types.Identical(mt.Elem(), tn.Type()) {
				return true
			}
			n++
			ord++
			key := fmt.Sprintf("pdf.%s|names remembered in %s #%d", core.FuncName(fd), fv.Name(), ord)
			if ownedByPage(fv) {
				if ok, why := freshInLiterals(fv); ok {
					r.OK("E5.name-memo-scope", key, c.Pos(as.Pos()), fv.Name()+" is a page-writer field, fresh for every page")
					return true
				} else if why == "no page-writer literal found" {
					r.Fail("E5.name-memo-scope", key, c.Pos(as.Pos()), why)
					return true
				}
			}
			// the map outlives the page: numbered from itself and registered on every path?
			mapSrc := c.Src(ie.X)
			numbered, registeredAlways := false, false
			if id, ok := core.Unparen(as.Rhs[0]).(*ast.Ident); ok {
				o := core.ObjOf(info, id)
				ast.Inspect(fd.Body, func(k ast.Node) bool {
					switch x := k.(type) {
					case *ast.AssignStmt:
						for i, l := range x.Lhs {
							if lid, ok := l.(*ast.Ident); ok && core.ObjOf(info, lid) == o && i < len(x.Rhs) {
								ast.Inspect(x.Rhs[i], func(q ast.Node) bool {
									if call, ok := q.(*ast.CallExpr); ok && len(call.Args) == 1 {
										if f, ok := call.Fun.(*ast.Ident); ok && f.Name == "len" && c.Src(call.Args[0]) == mapSrc {
											numbered = true
										}
									}
									return true
								})
							}
						}
					}
					return true
				})
				// a store into resources[…][name] that is a statement of the function body itself or of a
				// block not guarded by the lookup's ok flag: approximated as top-level in the body or in
				// the same block as a statement that follows the miss branch
				var walk func(list []ast.Stmt, underMiss bool)
				walk = func(list []ast.Stmt, underMiss bool) {
					for _, st := range list {
						switch x := st.(type) {
						case *ast.AssignStmt:
							for _, l := range x.Lhs {
								if lie, ok := core.Unparen(l).(*ast.IndexExpr); ok {
									if kid, ok := core.Unparen(lie.Index).(*ast.Ident); ok && core.ObjOf(info, kid) == o && strings.Contains(c.Src(lie.X), "resources") && !underMiss {
										registeredAlways = true
									}
								}
							}
						case *ast.IfStmt:
							miss := underMiss
							negated := false
							if u, ok := core.Unparen(x.Cond).(*ast.UnaryExpr); ok && u.Op == token.NOT {
								miss, negated = true, true
							}
							walk(x.Body.List, miss)
							if eb, ok := x.Else.(*ast.BlockStmt); ok {
								walk(eb.List, underMiss || !negated)
							} else if x.Else == nil && !negated && allPathsReturn(x.Body) {
								// `if n, ok := F[k]; ok { return n }`: what follows runs on a miss only
								underMiss = true
							}
						case *ast.BlockStmt:
							walk(x.List, underMiss)
						}
					}
				}
				walk(fd.Body.List, false)
			}
			switch {
			case numbered && registeredAlways:
				r.OK("E5.name-memo-scope", key, c.Pos(as.Pos()), fv.Name()+" outlives the page; names are numbered from it and registered on every path")
			case !numbered:
				r.Fail("E5.name-memo-scope", key, c.Pos(as.Pos()), fmt.Sprintf("`%s` remembers a resource name beyond the page (it is not a page-writer field that every page initialises afresh), but the name is not numbered from len(%s): the page's own counter hands the same number out again on a later page, and the remembered name then overwrites that page's entry (two fonts under one /F name)", c.Src(as.Lhs[0]), mapSrc))
			default:
				r.Fail("E5.name-memo-scope", key, c.Pos(as.Pos()), fmt.Sprintf("`%s` remembers a resource name beyond the page, and the name is registered in the page's resources only on a miss: a later page emits a name its /Resources do not define", c.Src(as.Lhs[0])))
			}
			return true
		})
	}
	r.Count("E5.name-memos", n)
	r.Floor("E5.name-memos", 1)
}

// E5SignedRounding: signed quantities written into a TJ array are rounded, not truncated.
func E5SignedRounding(c *core.Ctx, r *core.Report) {
	r.Rule("E5.signed-rounding", "pdfPageWriter.WriteText: the numbers of a TJ array are adjustments of either sign (kerning, reduced or enlarged advances, justification). Every conversion of a floating-point expression to an integer in that function takes a value already rounded by math.Round / Floor / Ceil / RoundToEven: `int(x + 0.5)` truncates toward zero and is the nearest integer only for x >= 0, a negative adjustment comes out up to one unit short and the pen drifts from the laid-out advances in one direction")
	p := c.MustPkg(pdfRel)
	info := p.TypesInfo
	fd := core.MustFuncDecl(p, "pdfPageWriter.WriteText")
	n := 0
	ast.Inspect(fd.Body, func(m ast.Node) bool {
		call, ok := m.(*ast.CallExpr)
		if !ok || len(call.Args) != 1 {
			return true
		}
		tv, ok := info.Types[call.Fun]
		if !ok || !tv.IsType() {
			return true
		}
		if bt, ok := tv.Type.Underlying().(*types.Basic); !ok || bt.Info()&types.IsInteger == 0 {
			return true
		}
		at, ok := info.TypeOf(call.Args[0]).Underlying().(*types.Basic)
		if !ok || at.Info()&types.IsFloat == 0 {
			return true
		}
		if av, ok := info.Types[call.Args[0]]; ok && av.Value != nil {
			return true
		}
		n++
		key := fmt.Sprintf("pdf.pdfPageWriter.WriteText|float to integer #%d", n)
		switch name, _ := core.MathFunc(info, call.Args[0]); name {
		case "Round", "Floor", "Ceil", "RoundToEven":
			r.OK("E5.signed-rounding", key, c.Pos(call.Pos()), "math."+name)
		default:
			r.Fail("E5.signed-rounding", key, c.Pos(call.Pos()), fmt.Sprintf("`%s` truncates toward zero: for a negative adjustment the result is not the nearest integer", c.Src(call)))
		}
		return true
	})
	r.Count("E5.signed-rounding-sites", n)
	r.Floor("E5.signed-rounding-sites", 3)
}

// E5CMapBlockLimit: a block of the ToUnicode CMap has at most 100 entries.
func E5CMapBlockLimit(c *core.Ctx, r *core.Report) {
	r.Rule("E5.cmap-block-limit", "a beginbfchar or beginbfrange block of a CMap holds at most 100 entries (Adobe Technical Note 5014, §1.4.1; conforming readers reject longer blocks and the text cannot be extracted). Every write whose format contains `beginbfchar` or `beginbfrange` takes its count from `len(b)` of a local b that is a slice `s[i:min(i+K, len(s))]` (or `s[i:i+K]` under a length test) with a constant K of at most 100, inside a loop that advances i by the same K")
	p := c.MustPkg(pdfRel)
	info := p.TypesInfo
	n := 0
	for _, fd := range core.AllFuncDecls(p) {
		if fd.Body == nil {
			continue
		}
		var stack []ast.Node
		ast.Inspect(fd.Body, func(m ast.Node) bool {
			if m == nil {
				stack = stack[:len(stack)-1]
				return true
			}
			stack = append(stack, m)
			call, ok := m.(*ast.CallExpr)
			if !ok {
				return true
			}
			fi := -1
			op := ""
			for i, a := range call.Args {
				if s, ok := constString(info, a); ok {
					for _, o := range []string{"beginbfchar", "beginbfrange"} {
						if strings.Contains(s, o) {
							fi, op = i, o
						}
					}
				}
			}
			if fi < 0 || fi+1 >= len(call.Args) {
				return true
			}
			n++
			key := fmt.Sprintf("pdf.%s|%s block size", core.FuncName(fd), op)
			fail := func(why string) {
				r.Fail("E5.cmap-block-limit", key, c.Pos(call.Pos()), why+": a font with more than 100 mapped codes gets a block longer than the CMap format allows")
			}
			// count = len(b)
			cnt, ok := core.Unparen(call.Args[fi+1]).(*ast.CallExpr)
			if !ok || len(cnt.Args) != 1 {
				fail("the count `" + c.Src(call.Args[fi+1]) + "` is not the length of a block")
				return true
			}
			if id, ok := cnt.Fun.(*ast.Ident); !ok || id.Name != "len" {
				fail("the count `" + c.Src(call.Args[fi+1]) + "` is not the length of a block")
				return true
			}
			bid, ok := core.Unparen(cnt.Args[0]).(*ast.Ident)
			if !ok {
				fail("the count is not the length of a local block")
				return true
			}
			bobj := core.ObjOf(info, bid)
			// enclosing loop with `i += K`
			var loop *ast.ForStmt
			for i := len(stack) - 1; i >= 0 && loop == nil; i-- {
				if fs, ok := stack[i].(*ast.ForStmt); ok {
					loop = fs
				}
			}
			if loop == nil {
				fail("the block is not written inside a loop over pieces of the entries")
				return true
			}
			post, ok := loop.Post.(*ast.AssignStmt)
			if !ok || post.Tok != token.ADD_ASSIGN || len(post.Rhs) != 1 {
				fail("the loop does not advance by a constant block size")
				return true
			}
			step, ok := core.ConstInt(info, post.Rhs[0])
			if !ok || step < 1 || step > 100 {
				fail(fmt.Sprintf("the loop advances by `%s`, not by a constant of at most 100", c.Src(post.Rhs[0])))
				return true
			}
			// b := s[i:min(i+K, len(s))]
			bounded := false
			ast.Inspect(loop.Body, func(q ast.Node) bool {
				as, ok := q.(*ast.AssignStmt)
				if !ok || len(as.Lhs) != 1 || len(as.Rhs) != 1 {
					return true
				}
				if id, ok := as.Lhs[0].(*ast.Ident); !ok || core.ObjOf(info, id) != bobj {
					return true
				}
				se, ok := core.Unparen(as.Rhs[0]).(*ast.SliceExpr)
				if !ok || se.High == nil {
					return true
				}
				ast.Inspect(se.High, func(k ast.Node) bool {
					if be, ok := k.(*ast.BinaryExpr); ok && be.Op == token.ADD {
						for _, side := range []ast.Expr{be.X, be.Y} {
							if v, ok := core.ConstInt(info, side); ok && v == step {
								bounded = true
							}
						}
					}
					return true
				})
				return true
			})
			if bounded {
				r.OK("E5.cmap-block-limit", key, c.Pos(call.Pos()), fmt.Sprintf("blocks of %d", step))
			} else {
				fail("the block is not a slice of at most the loop's step")
			}
			return true
		})
	}
	r.Count("E5.cmap-blocks", n)
	r.Floor("E5.cmap-blocks", 2)
}

// E5WidthIDSpace: the /W widths are looked up with an ID of the font they are looked up in.
func E5WidthIDSpace(c *core.Ctx, r *core.Report) {
	r.Rule("E5.width-id-space", "pdfWriter.writeFont fills the width table per subset code from `range glyphIDs`: the key is the code used in the content stream, the value the glyph's ID in the loaded font. The embedded program (`sfnt`) is the subset on one path and the loaded font itself on the others (SubsetFonts off, or subsetting failed), so no index is right for it on every path: an advance is looked up in the loaded font (an expression that is not a reassigned local) with the range value, or in a local that is a subset on *every* path with the range key. Widths read from `sfnt` by code give, without subsetting, the advance of full-font glyph number `code` — 'W' at code 1 gets width 0 — and a reader places every following glyph wrongly")
	p := c.MustPkg(pdfRel)
	info := p.TypesInfo
	fd := core.MustFuncDecl(p, "pdfWriter.writeFont")
	n := 0
	ast.Inspect(fd.Body, func(m ast.Node) bool {
		rs, ok := m.(*ast.RangeStmt)
		if !ok {
			return true
		}
		var keyObj, valObj types.Object
		if id, ok := rs.Key.(*ast.Ident); ok && id.Name != "_" {
			keyObj = core.ObjOf(info, id)
		}
		if rs.Value != nil {
			if id, ok := rs.Value.(*ast.Ident); ok && id.Name != "_" {
				valObj = core.ObjOf(info, id)
			}
		}
		ast.Inspect(rs.Body, func(k ast.Node) bool {
			call, ok := k.(*ast.CallExpr)
			if !ok || len(call.Args) != 1 {
				return true
			}
			se, ok := call.Fun.(*ast.SelectorExpr)
			if !ok || (se.Sel.Name != "GlyphAdvance" && se.Sel.Name != "GlyphVerticalAdvance") {
				return true
			}
			n++
			key := fmt.Sprintf("pdf.pdfWriter.writeFont|advance lookup #%d", n)
			// which range variable is the argument?
			argIs := ""
			ast.Inspect(call.Args[0], func(q ast.Node) bool {
				if id, ok := q.(*ast.Ident); ok {
					switch core.ObjOf(info, id) {
					case keyObj:
						if keyObj != nil {
							argIs = "code"
						}
					case valObj:
						if valObj != nil {
							argIs = "glyph ID"
						}
					}
				}
				return true
			})
			// the receiver: a local with more than one assignment is one thing on one path and another on the next
			recvKind := "loaded font"
			if id, ok := core.Unparen(se.X).(*ast.Ident); ok {
				o := core.ObjOf(info, id)
				asg := 0
				ast.Inspect(fd.Body, func(q ast.Node) bool {
					if as, ok := q.(*ast.AssignStmt); ok {
						for _, l := range as.Lhs {
							if lid, ok := l.(*ast.Ident); ok && core.ObjOf(info, lid) == o {
								asg++
							}
						}
					}
					return true
				})
				if asg > 1 {
					recvKind = "reassigned local"
				} else if asg == 1 {
					recvKind = "local"
				}
			}
			switch {
			case argIs == "":
				return true // not a per-code lookup
			case recvKind == "reassigned local":
				r.Fail("E5.width-id-space", key, c.Pos(call.Pos()), fmt.Sprintf("`%s` looks the advance up in `%s`, which is the subset on one path and the loaded font on another: indexed by %s it is wrong on one of them (without subsetting, code k is not glyph k of the full font)", c.Src(call), c.Src(se.X), argIs))
			case argIs == "glyph ID":
				r.OK("E5.width-id-space", key, c.Pos(call.Pos()), "the loaded font, by glyph ID")
			default:
				r.Fail("E5.width-id-space", key, c.Pos(call.Pos()), fmt.Sprintf("`%s` indexes `%s` by the subset code", c.Src(call), c.Src(se.X)))
			}
			return true
		})
		return true
	})
	r.Count("E5.width-lookups", n)
	r.Floor("E5.width-lookups", 1)
}

// E5DictCompleteBeforeWrite: a dictionary is complete when it is written.
func E5DictCompleteBeforeWrite(c *core.Ctx, r *core.Report) {
	r.Rule("E5.dict-complete-before-write", "PDF writer: a local dictionary (pdfDict) or array that a function fills entry by entry is serialised at the point where it is handed to a writing call (writeVal, write, writeObject, …). No entry is assigned after the first such call in the same function: it would change the Go value and not the file. The document language is added to the catalog conditionally, after the other entries — when the catalog object is written before that, SetLang has no effect and nothing else changes")
	p := c.MustPkg(pdfRel)
	info := p.TypesInfo
	n := 0
	for _, fd := range core.AllFuncDecls(p) {
		if fd.Body == nil || strings.HasSuffix(c.Fset.Position(fd.Pos()).Filename, "_test.go") {
			continue
		}
		// local dictionaries with entry assignments
		type ent struct {
			pos token.Pos
			src string
		}
		entries := map[types.Object][]ent{}
		ast.Inspect(fd.Body, func(m ast.Node) bool {
			as, ok := m.(*ast.AssignStmt)
			if !ok {
				return true
			}
			for _, l := range as.Lhs {
				ie, ok := core.Unparen(l).(*ast.IndexExpr)
				if !ok {
					continue
				}
				id, ok := core.Unparen(ie.X).(*ast.Ident)
				if !ok {
					continue
				}
				o := core.ObjOf(info, id)
				if v, ok := o.(*types.Var); !ok || v.IsField() || v.Parent() == p.Types.Scope() {
					continue
				}
				if nt, ok := o.Type().(*types.Named); !ok || (nt.Obj().Name() != "pdfDict" && nt.Obj().Name() != "pdfArray") {
					continue
				}
				entries[o] = append(entries[o], ent{as.Pos(), c.Src(as)})
			}
			return true
		})
		if len(entries) == 0 {
			continue
		}
		// first hand-over of each dictionary to a writing call
		firstWrite := map[types.Object]token.Pos{}
		ast.Inspect(fd.Body, func(m ast.Node) bool {
			call, ok := m.(*ast.CallExpr)
			if !ok {
				return true
			}
			f := core.CalleeOf(info, call)
			if f == nil || !strings.HasPrefix(strings.ToLower(f.Name()), "write") {
				return true
			}
			for _, a := range call.Args {
				if id, ok := core.Unparen(a).(*ast.Ident); ok {
					if o := core.ObjOf(info, id); entries[o] != nil {
						if cur, ok := firstWrite[o]; !ok || call.Pos() < cur {
							firstWrite[o] = call.Pos()
						}
					}
				}
			}
			return true
		})
		for o, es := range entries {
			w, written := firstWrite[o]
			if !written {
				continue
			}
			n++
			key := fmt.Sprintf("pdf.%s|%s is complete when it is written", core.FuncName(fd), o.Name())
			bad := ""
			for _, e := range es {
				if e.pos > w && bad == "" {
					bad = fmt.Sprintf("`%s` (%s) comes after `%s` was handed to a writing call (%s): the entry never reaches the file", e.src, c.Pos(e.pos), o.Name(), c.Pos(w))
				}
			}
			if bad == "" {
				r.OK("E5.dict-complete-before-write", key, c.Pos(w), "")
			} else {
				r.Fail("E5.dict-complete-before-write", key, c.Pos(w), bad)
			}
		}
	}
	r.Count("E5.dicts-filled-then-written", n)
	r.Floor("E5.dicts-filled-then-written", 2)
}

// E5GradientOffsetsUsed: a gradient with two or more stops is written with its stop offsets.
func E5GradientOffsetsUsed(c *core.Ctx, r *core.Report) {
	r.Rule("E5.gradient-offsets-used", "a gradient paints the first colour up to the first stop's offset, ramps between the offsets and keeps the last colour after the last one; the rasterizer and the SVG writer do, and the PDF shading function has to encode the offsets (the Bounds of a stitching function, constant pieces in front and behind). In patternStopsFunction every return that can be reached with two or more stops — the tests of len(stops) are decided for 2 and for 3 — lies on a path that reads the stops' Offset; a shortcut that returns one interpolation from the first to the last stop stretches the ramp over the whole axis whenever a stop is not at 0 or 1")
	p := c.MustPkg(pdfRel)
	info := p.TypesInfo
	fd := core.MustFuncDecl(p, "patternStopsFunction")
	stops := paramObj(info, fd, 0)
	readsOffset := func(nd ast.Node) bool {
		hit := false
		ast.Inspect(nd, func(k ast.Node) bool {
			if se, ok := k.(*ast.SelectorExpr); ok && se.Sel.Name == "Offset" {
				hit = true
			}
			return true
		})
		return hit
	}
	n := 0
	for _, count := range []int64{2, 3} {
		env := func(e ast.Expr) tri {
			be, ok := e.(*ast.BinaryExpr)
			if !ok {
				return tUnknown
			}
			var lenSide, other ast.Expr
			for _, pr := range [][2]ast.Expr{{be.X, be.Y}, {be.Y, be.X}} {
				if call, ok := core.Unparen(pr[0]).(*ast.CallExpr); ok && len(call.Args) == 1 {
					if id, ok := call.Fun.(*ast.Ident); ok && id.Name == "len" {
						if aid, ok := core.Unparen(call.Args[0]).(*ast.Ident); ok && core.ObjOf(info, aid) == stops {
							lenSide, other = pr[0], pr[1]
						}
					}
				}
			}
			if lenSide == nil {
				return tUnknown
			}
			v, ok := core.ConstInt(info, other)
			if !ok {
				return tUnknown
			}
			l, rr := count, v
			if lenSide == be.Y {
				l, rr = v, count
			}
			switch be.Op {
			case token.EQL:
				return triOf(l == rr)
			case token.NEQ:
				return triOf(l != rr)
			case token.LSS:
				return triOf(l < rr)
			case token.LEQ:
				return triOf(l <= rr)
			case token.GTR:
				return triOf(l > rr)
			case token.GEQ:
				return triOf(l >= rr)
			}
			return tUnknown
		}
		// walk the top-level statements: early returns decided by len(stops)
		seenOffset := false
		var walk func(list []ast.Stmt) bool // returns true when a return was reached
		walk = func(list []ast.Stmt) bool {
			for _, st := range list {
				switch x := st.(type) {
				case *ast.IfStmt:
					v := evalBool(info, x.Cond, env)
					if v == tTrue {
						return walk(x.Body.List)
					}
					if v == tFalse {
						switch e := x.Else.(type) {
						case *ast.BlockStmt:
							if walk(e.List) {
								return true
							}
						case *ast.IfStmt:
							if walk([]ast.Stmt{e}) {
								return true
							}
						}
						continue
					}
					// undecided: the statement may or may not run; what it reads counts as read
					if readsOffset(x) {
						seenOffset = true
					}
				case *ast.ReturnStmt:
					n++
					key := fmt.Sprintf("pdf.patternStopsFunction|return reached with %d stops uses their offsets", count)
					if seenOffset || readsOffset(x) {
						r.OK("E5.gradient-offsets-used", key, c.Pos(x.Pos()), "")
					} else {
						r.Fail("E5.gradient-offsets-used", key, c.Pos(x.Pos()), fmt.Sprintf("with %d stops the function returns `%s` without having read a stop's Offset: the ramp runs from 0 to 1 whatever the offsets are, while the rasterizer and the SVG writer hold the end colours outside them", count, c.Src(x)))
					}
					return true
				default:
					if readsOffset(st) {
						seenOffset = true
					}
				}
			}
			return false
		}
		walk(fd.Body.List)
	}
	r.Count("E5.gradient-returns", n)
	r.Floor("E5.gradient-returns", 2)
}

// E5CIDToGIDEntries: the CIDToGIDMap maps the code to the glyph ID, byte by byte.
func E5CIDToGIDEntries(c *core.Ctx, r *core.Report) {
	r.Rule("E5.cid-to-gid-entries", "when a font is embedded in full, /CIDToGIDMap tells the reader which glyph of the font each code selects: two bytes per code, at position 2·code, holding the glyph ID. In the loop of pdfWriter.writeFont that ranges over the glyph list (key: code, value: glyph ID of the loaded font) and fills a byte slice, every index is computed from the key alone and every stored byte from the value alone. A high byte taken from the code selects glyph `gid mod 256` for every glyph ID above 255 — Greek and Cyrillic in the test fonts — while /W and ToUnicode still describe the glyph that was laid out")
	p := c.MustPkg(pdfRel)
	info := p.TypesInfo
	fd := core.MustFuncDecl(p, "pdfWriter.writeFont")
	n := 0
	ast.Inspect(fd.Body, func(m ast.Node) bool {
		rs, ok := m.(*ast.RangeStmt)
		if !ok || rs.Value == nil {
			return true
		}
		kid, ok1 := rs.Key.(*ast.Ident)
		vid, ok2 := rs.Value.(*ast.Ident)
		if !ok1 || !ok2 || kid.Name == "_" || vid.Name == "_" {
			return true
		}
		keyObj, valObj := core.ObjOf(info, kid), core.ObjOf(info, vid)
		// locals derived from the key or the value inside the body
		fromKey, fromVal := map[types.Object]bool{keyObj: true}, map[types.Object]bool{valObj: true}
		mentions := func(e ast.Node, set map[types.Object]bool) bool {
			hit := false
			ast.Inspect(e, func(k ast.Node) bool {
				if id, ok := k.(*ast.Ident); ok && set[core.ObjOf(info, id)] {
					hit = true
				}
				return true
			})
			return hit
		}
		for _, st := range rs.Body.List {
			if as, ok := st.(*ast.AssignStmt); ok && len(as.Lhs) == len(as.Rhs) {
				for i, l := range as.Lhs {
					if id, ok := l.(*ast.Ident); ok {
						if mentions(as.Rhs[i], fromKey) && !mentions(as.Rhs[i], fromVal) {
							fromKey[core.ObjOf(info, id)] = true
						}
						if mentions(as.Rhs[i], fromVal) && !mentions(as.Rhs[i], fromKey) {
							fromVal[core.ObjOf(info, id)] = true
						}
					}
				}
			}
		}
		ast.Inspect(rs.Body, func(k ast.Node) bool {
			as, ok := k.(*ast.AssignStmt)
			if !ok || len(as.Lhs) != len(as.Rhs) {
				return true
			}
			for i, l := range as.Lhs {
				ie, ok := core.Unparen(l).(*ast.IndexExpr)
				if !ok {
					continue
				}
				st, ok := info.TypeOf(ie.X).Underlying().(*types.Slice)
				if !ok {
					continue
				}
				if bt, ok := st.Elem().Underlying().(*types.Basic); !ok || bt.Kind() != types.Uint8 {
					continue
				}
				n++
				key := fmt.Sprintf("pdf.pdfWriter.writeFont|CIDToGIDMap byte #%d", n)
				switch {
				case !mentions(ie.Index, fromKey) || mentions(ie.Index, fromVal):
					r.Fail("E5.cid-to-gid-entries", key, c.Pos(as.Pos()), fmt.Sprintf("the position `%s` is not computed from the code alone", c.Src(ie.Index)))
				case !mentions(as.Rhs[i], fromVal) || mentions(as.Rhs[i], fromKey):
					r.Fail("E5.cid-to-gid-entries", key, c.Pos(as.Pos()), fmt.Sprintf("`%s` stores a byte that is not taken from the glyph ID alone: codes whose glyph ID does not fit one byte select another glyph of the embedded font", c.Src(as)))
				default:
					r.OK("E5.cid-to-gid-entries", key, c.Pos(as.Pos()), "")
				}
			}
			return true
		})
		return true
	})
	r.Count("E5.cid-to-gid-bytes", n)
	r.Floor("E5.cid-to-gid-bytes", 2)
}

// E5ImageSampleDepth: image dictionaries declare the sample depth the sample buffers are written in.
func E5ImageSampleDepth(c *core.Ctx, r *core.Report) {
	r.Rule("E5.image-sample-depth", "embedImage writes the samples of an image and of its soft mask one byte each (`stream[(y*W+x)*k+j] = byte`), rows following each other without padding. That layout is what /BitsPerComponent 8 declares; for any smaller depth PDF 32000 8.9.3 starts every row on a byte boundary, so a run-time depth needs a row stride the buffers do not have. Every /BitsPerComponent entry of a dictionary in the PDF writer (composite literal or `dict[\"BitsPerComponent\"] = v`) is therefore a constant equal to 8. A depth chosen at run time (1 bit for a mask that is all 0/255, packed straight through) shears every image whose width is not a multiple of 8. Limit: a correct packed layout with padded rows would be reported as well; none exists in the tree")
	p := c.MustPkg("renderers/pdf")
	info := p.TypesInfo
	n := 0
	check := func(fd *ast.FuncDecl, v ast.Expr) {
		n++
		key := fmt.Sprintf("pdf.%s|/BitsPerComponent #%d is the constant 8", core.FuncName(fd), n)
		if k, ok := core.ConstInt(info, v); ok && k == 8 {
			r.OK("E5.image-sample-depth", key, c.Pos(v.Pos()), "")
		} else if ok {
			r.Fail("E5.image-sample-depth", key, c.Pos(v.Pos()), fmt.Sprintf("the dictionary declares %d bits per sample, the buffers hold one byte per sample", k))
		} else {
			r.Fail("E5.image-sample-depth", key, c.Pos(v.Pos()), fmt.Sprintf("the sample depth `%s` is decided at run time, the buffers hold one byte per sample and rows are not padded to bytes", c.Src(v)))
		}
	}
	for _, fd := range core.AllFuncDecls(p) {
		if fd.Body == nil {
			continue
		}
		ast.Inspect(fd.Body, func(m ast.Node) bool {
			switch x := m.(type) {
			case *ast.KeyValueExpr:
				if k, _ := constString(info, x.Key); k == "BitsPerComponent" {
					check(fd, x.Value)
				}
			case *ast.AssignStmt:
				if len(x.Lhs) == 1 && len(x.Rhs) == 1 {
					if ie, ok := x.Lhs[0].(*ast.IndexExpr); ok && func() bool { k, _ := constString(info, ie.Index); return k == "BitsPerComponent" }() {
						check(fd, x.Rhs[0])
					}
				}
			}
			return true
		})
	}
	r.Count("E5.sample-depth-entries", n)
	r.Floor("E5.sample-depth-entries", 2)
}

// E5WArrayPendingFlushed: the /W compression never moves its cursor past widths it has not written.
func E5WArrayPendingFlushed(c *core.Ctx, r *core.Report) {
	r.Rule("E5.w-array-pending-flushed", "writeFont shortens the CIDFont /W array: a cursor I marks the first width not yet written, J the start of the current run of equal widths; when a long run ends the pending individual widths `widths[I:J]` are written as `I [w…]`, the run as a range (or not at all when it equals /DW), and the cursor moves past the run (`I = k`). Whatever the run's width is, the pending widths must be written before the cursor moves: every `if` that encloses the append of `I, arr` inside the loop — other than the emptiness test comparing I and J themselves — also encloses the assignment to I, and the append comes first. Flushing only when the run differs from /DW drops the pending widths when a run of default-width glyphs follows them: a reader gives those codes /DW")
	p := c.MustPkg("renderers/pdf")
	info := p.TypesInfo
	fd := core.MustFuncDecl(p, "pdfWriter.writeFont")
	r.Func("pdf.pdfWriter.writeFont")
	// cursor and run start: widths[I:J]
	var iO, jO types.Object
	ast.Inspect(fd.Body, func(m ast.Node) bool {
		se, ok := m.(*ast.SliceExpr)
		if !ok || se.Low == nil || se.High == nil {
			return true
		}
		lo, ok1 := core.Unparen(se.Low).(*ast.Ident)
		hi, ok2 := core.Unparen(se.High).(*ast.Ident)
		if ok1 && ok2 && iO == nil {
			iO, jO = core.ObjOf(info, lo), core.ObjOf(info, hi)
		}
		return true
	})
	if iO == nil {
		r.Fail("E5.w-array-pending-flushed", "pdf.pdfWriter.writeFont|pending widths", c.Pos(fd.Pos()), "no slice `widths[I:J]` of pending widths found")
		return
	}
	onlyIJ := func(e ast.Expr) bool {
		ok := true
		ast.Inspect(e, func(q ast.Node) bool {
			if id, isID := q.(*ast.Ident); isID {
				if o := core.ObjOf(info, id); o != iO && o != jO {
					if _, isVar := o.(*types.Var); isVar {
						ok = false
					}
				}
			}
			return true
		})
		return ok
	}
	type site struct {
		pos    token.Pos
		guards []*ast.IfStmt
	}
	var flushes, moves []site
	var loop *ast.RangeStmt
	walkStack(fd.Body, func(m ast.Node, stack []ast.Node) {
		as, ok := m.(*ast.AssignStmt)
		if !ok || len(as.Lhs) != 1 || len(as.Rhs) != 1 {
			return
		}
		var rs *ast.RangeStmt
		var guards []*ast.IfStmt
		for k := len(stack) - 1; k >= 0; k-- {
			if x, ok := stack[k].(*ast.RangeStmt); ok {
				rs = x
				break
			}
			if is, ok := stack[k].(*ast.IfStmt); ok && !onlyIJ(is.Cond) {
				guards = append(guards, is)
			}
		}
		if rs == nil {
			return
		}
		if id, ok := as.Lhs[0].(*ast.Ident); ok && core.ObjOf(info, id) == iO && as.Tok == token.ASSIGN {
			moves = append(moves, site{as.Pos(), guards})
			loop = rs
		}
		if ce, ok := core.Unparen(as.Rhs[0]).(*ast.CallExpr); ok && len(ce.Args) >= 3 {
			if fid, ok := ce.Fun.(*ast.Ident); ok && fid.Name == "append" {
				if a1, ok := core.Unparen(ce.Args[1]).(*ast.Ident); ok && core.ObjOf(info, a1) == iO {
					flushes = append(flushes, site{as.Pos(), guards})
				}
			}
		}
	})
	n := 0
	for _, mv := range moves {
		n++
		key := fmt.Sprintf("pdf.pdfWriter.writeFont|cursor move #%d follows the flush of the pending widths", n)
		good, why := false, "no append of the pending widths `I, arr` precedes it in the loop"
		for _, fl := range flushes {
			if fl.pos > mv.pos {
				continue
			}
			sub := true
			for _, g := range fl.guards {
				in := false
				for _, h := range mv.guards {
					in = in || g == h
				}
				if !in {
					sub = false
					why = fmt.Sprintf("the pending widths are written only under `%s`, the cursor moves whether or not that holds: when it does not, the widths between the cursor and the run are never written and a reader uses /DW for them", c.Src(g.Cond))
				}
			}
			if sub {
				good = true
			}
		}
		if good {
			r.OK("E5.w-array-pending-flushed", key, c.Pos(mv.pos), "")
		} else {
			r.Fail("E5.w-array-pending-flushed", key, c.Pos(mv.pos), why)
		}
	}
	_ = loop
	r.Count("E5.w-cursor-moves", n)
	r.Floor("E5.w-cursor-moves", 1)
}

// E5FormatConstant: data never becomes a format string.
func E5FormatConstant(c *core.Ctx, r *core.Report) {
	r.Rule("E5.format-constant", "the PDF writer emits through `write(format, args…)`, a wrapper of fmt.Fprintf, and builds strings with fmt.Sprintf/Fprintf. A value that comes from the caller (metadata, link targets, names) is only ever an argument of such a call: the format operand of every call of a printf-style function in the package — the fmt functions and every package function that passes its own format parameter on to one — is a compile-time constant. With `write(\"(\" + v + \")\")` a `%` in the value is read as a verb: `100% done` is stored as `100%!d(MISSING)one`, and the parentheses of fmt's diagnostics end the string object early")
	p := c.MustPkg("renderers/pdf")
	info := p.TypesInfo
	// printf-style functions: index of the format parameter
	fmtIdx := map[*types.Func]int{}
	isFmt := func(f *types.Func) (int, bool) {
		if f == nil || f.Pkg() == nil {
			return 0, false
		}
		if f.Pkg().Path() == "fmt" {
			switch f.Name() {
			case "Printf", "Sprintf", "Errorf":
				return 0, true
			case "Fprintf":
				return 1, true
			}
			return 0, false
		}
		i, ok := fmtIdx[f]
		return i, ok
	}
	for changed := true; changed; {
		changed = false
		for _, fd := range core.AllFuncDecls(p) {
			if fd.Body == nil {
				continue
			}
			fo, _ := info.Defs[fd.Name].(*types.Func)
			if fo == nil {
				continue
			}
			if _, done := fmtIdx[fo]; done {
				continue
			}
			sig := fo.Type().(*types.Signature)
			if !sig.Variadic() {
				continue
			}
			ast.Inspect(fd.Body, func(m ast.Node) bool {
				ce, ok := m.(*ast.CallExpr)
				if !ok {
					return true
				}
				if k, ok := isFmt(core.CalleeOf(info, ce)); ok && k < len(ce.Args) {
					if id, ok := core.Unparen(ce.Args[k]).(*ast.Ident); ok {
						for pi := 0; pi < sig.Params().Len(); pi++ {
							if sig.Params().At(pi) == core.ObjOf(info, id) {
								if _, done := fmtIdx[fo]; !done {
									fmtIdx[fo] = pi
									changed = true
								}
							}
						}
					}
				}
				return true
			})
		}
	}
	n, bad := 0, 0
	for _, fd := range core.AllFuncDecls(p) {
		if fd.Body == nil {
			continue
		}
		fo, _ := info.Defs[fd.Name].(*types.Func)
		ast.Inspect(fd.Body, func(m ast.Node) bool {
			ce, ok := m.(*ast.CallExpr)
			if !ok {
				return true
			}
			k, ok := isFmt(core.CalleeOf(info, ce))
			if !ok || k >= len(ce.Args) {
				return true
			}
			n++
			a := ce.Args[k]
			if tv, ok := info.Types[a]; ok && tv.Value != nil {
				return true
			}
			// a wrapper handing its own format parameter on
			if id, ok := core.Unparen(a).(*ast.Ident); ok && fo != nil {
				if pi, isW := fmtIdx[fo]; isW && fo.Type().(*types.Signature).Params().At(pi) == core.ObjOf(info, id) {
					return true
				}
			}
			bad++
			r.Fail("E5.format-constant", fmt.Sprintf("pdf.%s|format operand `%s` is constant", core.FuncName(fd), c.Src(a)), c.Pos(a.Pos()), fmt.Sprintf("`%s` is used as a format string and is not a constant: a `%%` in the data is read as a verb, fmt writes `%%!d(MISSING)` and the like into the file, and the parentheses of that text unbalance a PDF string", c.Src(a)))
			return true
		})
	}
	if bad == 0 {
		r.OK("E5.format-constant", "pdf|every format operand is a constant", "", fmt.Sprintf("%d calls, %d wrappers", n, len(fmtIdx)))
	}
	r.Count("E5.printf-style-calls", n)
	r.Floor("E5.printf-style-calls", 40)
}

// E5MemoTestCoversFields: a setter that skips its operator when nothing changed compares everything it remembers.
func E5MemoTestCoversFields(c *core.Ctx, r *core.Report) {
	r.Rule("E5.memo-test-covers-fields", "the page writer's setters emit their operator only when the value differs from what they remember: `if a != w.a || b != w.b { w.a = a; w.b = b; emit }`. The operator is skipped exactly when every remembered field equals the new value, so each field the body assigns from a parameter appears in the condition as a disjunct of its own, `w.F != param` or a negated `Equal` of the two and nothing else; a disjunct weakened by a further conjunct (`vertical && w.fontDirection != direction`) skips the operator for some changes of that field. SetFont then emits no Tf when a horizontal span follows a vertical one in the same font and size: the text is shown with the Identity-V font object and advances downwards")
	p := c.MustPkg("renderers/pdf")
	info := p.TypesInfo
	n := 0
	for _, fd := range core.AllFuncDecls(p) {
		if fd.Body == nil || fd.Recv == nil || len(fd.Recv.List) != 1 || !isNamedDeref(info.TypeOf(fd.Recv.List[0].Type), "pdfPageWriter") {
			continue
		}
		rcv := recvObj(info, fd)
		params := map[types.Object]bool{}
		for _, f := range fd.Type.Params.List {
			for _, nm := range f.Names {
				params[info.Defs[nm]] = true
			}
		}
		for _, st := range fd.Body.List {
			is, ok := st.(*ast.IfStmt)
			if !ok || is.Else != nil {
				continue
			}
			// fields of the receiver assigned from parameters at the top of the body
			type memo struct {
				field string
				par   types.Object
				pos   token.Pos
			}
			var memos []memo
			for _, bs := range is.Body.List {
				as, ok := bs.(*ast.AssignStmt)
				if !ok || as.Tok != token.ASSIGN || len(as.Lhs) != len(as.Rhs) {
					continue
				}
				for i, l := range as.Lhs {
					se, ok := l.(*ast.SelectorExpr)
					if !ok {
						continue
					}
					xid, ok := core.Unparen(se.X).(*ast.Ident)
					pid, ok2 := core.Unparen(as.Rhs[i]).(*ast.Ident)
					if ok && ok2 && core.ObjOf(info, xid) == rcv && params[core.ObjOf(info, pid)] {
						memos = append(memos, memo{se.Sel.Name, core.ObjOf(info, pid), as.Pos()})
					}
				}
			}
			if len(memos) == 0 {
				continue
			}
			// the condition must be about the memo at all: mentions one of the fields
			var terms []ast.Expr
			var orTerms func(e ast.Expr)
			orTerms = func(e ast.Expr) {
				e = core.Unparen(e)
				if b, ok := e.(*ast.BinaryExpr); ok && b.Op == token.LOR {
					orTerms(b.X)
					orTerms(b.Y)
					return
				}
				terms = append(terms, e)
			}
			orTerms(is.Cond)
			mentions := func(e ast.Expr, field string) bool {
				found := false
				ast.Inspect(e, func(q ast.Node) bool {
					if se, ok := q.(*ast.SelectorExpr); ok && se.Sel.Name == field {
						if xid, ok := core.Unparen(se.X).(*ast.Ident); ok && core.ObjOf(info, xid) == rcv {
							found = true
						}
					}
					return true
				})
				return found
			}
			any := false
			for _, m := range memos {
				any = any || mentions(is.Cond, m.field)
			}
			if !any {
				continue
			}
			for _, m := range memos {
				n++
				key := fmt.Sprintf("pdf.%s|remembered field `%s` is compared on its own", core.FuncName(fd), m.field)
				good := false
				for _, t := range terms {
					var opX, opY ast.Expr
					if be, ok := t.(*ast.BinaryExpr); ok && be.Op == token.NEQ {
						opX, opY = be.X, be.Y
					} else if u, ok := t.(*ast.UnaryExpr); ok && u.Op == token.NOT {
						// !a.Equal(b), !pkg.Equal(a, b)
						if ce, ok := core.Unparen(u.X).(*ast.CallExpr); ok {
							if f := core.CalleeOf(info, ce); f != nil && (f.Name() == "Equal" || f.Name() == "Equals") {
								if se, ok := ce.Fun.(*ast.SelectorExpr); ok && len(ce.Args) == 1 && f.Type().(*types.Signature).Recv() != nil {
									opX, opY = se.X, ce.Args[0]
								} else if len(ce.Args) == 2 {
									opX, opY = ce.Args[0], ce.Args[1]
								}
							}
						}
					}
					if opX == nil {
						continue
					}
					be := &ast.BinaryExpr{X: opX, Y: opY}
					isField := func(e ast.Expr) bool {
						se, ok := core.Unparen(e).(*ast.SelectorExpr)
						if !ok || se.Sel.Name != m.field {
							return false
						}
						xid, ok := core.Unparen(se.X).(*ast.Ident)
						return ok && core.ObjOf(info, xid) == rcv
					}
					isPar := func(e ast.Expr) bool {
						id, ok := core.Unparen(e).(*ast.Ident)
						return ok && core.ObjOf(info, id) == m.par
					}
					if (isField(be.X) && isPar(be.Y)) || (isField(be.Y) && isPar(be.X)) {
						good = true
					}
				}
				if good {
					r.OK("E5.memo-test-covers-fields", key, c.Pos(is.Pos()), "")
				} else {
					r.Fail("E5.memo-test-covers-fields", key, c.Pos(is.Pos()), fmt.Sprintf("the body remembers `%s.%s = %s`, but `%s` has no disjunct that is just `%s.%s != %s` (or a negated Equal of the two): for some changes of that value the operator is skipped and the previous setting stays in force", rcv.Name(), m.field, m.par.Name(), c.Src(is.Cond), rcv.Name(), m.field, m.par.Name()))
				}
			}
		}
	}
	r.Count("E5.memo-fields", n)
	r.Floor("E5.memo-fields", 3)
}

// E5StringBytesEscaped: every data byte of a literal string shown by TJ passes the escape chain.
func E5StringBytesEscaped(c *core.Ctx, r *core.Report) {
	r.Rule("E5.string-bytes-escaped", "WriteText shows glyph codes as PDF literal strings `( … )`. Inside one a reader reads `\\`, `(` and `)` as syntax and turns a bare carriage return into a line feed, so every data byte is written through the chain that tests it against those values: each `WriteByte(x)` in WriteText whose operand is not a constant has for x a variable that the enclosing if/else-if chain compares with '\\\\', '(', ')' and '\\r'. A byte written past the chain (`w.WriteByte(uint8(glyphID >> 8))` for the high byte of a two-byte code) changes the code a reader decodes once a font contributes more than 3328 glyphs: codes 0x0D00–0x0DFF are read as 0x0A00–0x0AFF and select other glyphs, and 0x28/0x29/0x5C as high bytes break the string")
	p := c.MustPkg("renderers/pdf")
	info := p.TypesInfo
	fd := core.MustFuncDecl(p, "pdfPageWriter.WriteText")
	r.Func("pdf.pdfPageWriter.WriteText")
	n := 0
	need := []int64{'\\', '(', ')', '\r'}
	walkStack(fd.Body, func(m ast.Node, stack []ast.Node) {
		ce, ok := m.(*ast.CallExpr)
		if !ok || len(ce.Args) != 1 {
			return
		}
		if f := core.CalleeOf(info, ce); f == nil || f.Name() != "WriteByte" {
			return
		}
		if tv, ok := info.Types[ce.Args[0]]; ok && tv.Value != nil {
			return
		}
		n++
		key := fmt.Sprintf("pdf.pdfPageWriter.WriteText|data byte #%d is written through the escape chain", n)
		id, ok := core.Unparen(ce.Args[0]).(*ast.Ident)
		if !ok {
			r.Fail("E5.string-bytes-escaped", key, c.Pos(ce.Pos()), fmt.Sprintf("`%s` is written into the literal string without being tested against `\\`, `(`, `)` and CR: for those values a reader decodes a different code or the string ends early", c.Src(ce)))
			return
		}
		o := core.ObjOf(info, id)
		seen := map[int64]bool{}
		for _, a := range stack {
			is, ok := a.(*ast.IfStmt)
			if !ok {
				continue
			}
			ast.Inspect(is.Cond, func(q ast.Node) bool {
				be, ok := q.(*ast.BinaryExpr)
				if !ok || be.Op != token.EQL {
					return true
				}
				for _, pr := range [][2]ast.Expr{{be.X, be.Y}, {be.Y, be.X}} {
					if xid, ok := core.Unparen(pr[0]).(*ast.Ident); ok && core.ObjOf(info, xid) == o {
						if v, ok := core.ConstInt(info, pr[1]); ok {
							seen[v] = true
						}
					}
				}
				return true
			})
		}
		var missing []string
		for _, k := range need {
			if !seen[k] {
				missing = append(missing, fmt.Sprintf("%q", rune(k)))
			}
		}
		if len(missing) == 0 {
			r.OK("E5.string-bytes-escaped", key, c.Pos(ce.Pos()), "")
		} else {
			r.Fail("E5.string-bytes-escaped", key, c.Pos(ce.Pos()), fmt.Sprintf("`%s` is written without `%s` having been compared with %s on the way", c.Src(ce), id.Name, strings.Join(missing, ", ")))
		}
	})
	r.Count("E5.string-data-bytes", n)
	r.Floor("E5.string-data-bytes", 4)
}
