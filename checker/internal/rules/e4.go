package rules

import (
	"fmt"
	"go/ast"
	"go/constant"
	"go/parser"
	"go/token"
	"go/types"
	"sort"
	"strings"

	"canvascheck/internal/core"

	"golang.org/x/tools/go/callgraph"
	"golang.org/x/tools/go/packages"
	"golang.org/x/tools/go/ssa"
)

// E4 — index guards (path-sensitive facts over the AST) and explicit-panic reachability.

type gfacts struct {
	upper  map[string]int // "I|A" -> k : I+k < len(A)
	lower  map[string]int // "I" -> m : I >= m
	lenMin map[string]int // "A" -> n : len(A) >= n
}

func newFacts() *gfacts {
	return &gfacts{map[string]int{}, map[string]int{}, map[string]int{}}
}

func (f *gfacts) clone() *gfacts {
	g := newFacts()
	for k, v := range f.upper {
		g.upper[k] = v
	}
	for k, v := range f.lower {
		g.lower[k] = v
	}
	for k, v := range f.lenMin {
		g.lenMin[k] = v
	}
	return g
}

func (f *gfacts) add(o *gfacts) {
	for k, v := range o.upper {
		if cur, ok := f.upper[k]; !ok || v > cur {
			f.upper[k] = v
		}
	}
	for k, v := range o.lower {
		if cur, ok := f.lower[k]; !ok || v > cur {
			f.lower[k] = v
		}
	}
	for k, v := range o.lenMin {
		if cur, ok := f.lenMin[k]; !ok || v > cur {
			f.lenMin[k] = v
		}
	}
}

// meet keeps only facts present in both (the weaker bound).
func (f *gfacts) meet(o *gfacts) *gfacts {
	g := newFacts()
	for k, v := range f.upper {
		if w, ok := o.upper[k]; ok {
			g.upper[k] = min(v, w)
		}
	}
	for k, v := range f.lower {
		if w, ok := o.lower[k]; ok {
			g.lower[k] = min(v, w)
		}
	}
	for k, v := range f.lenMin {
		if w, ok := o.lenMin[k]; ok {
			g.lenMin[k] = min(v, w)
		}
	}
	return g
}

func (f *gfacts) killVar(name string) {
	for k := range f.upper {
		parts := strings.SplitN(k, "|", 2)
		if parts[0] == name || parts[1] == name || strings.HasPrefix(parts[1], name+".") {
			delete(f.upper, k)
		}
	}
	delete(f.lower, name)
	for k := range f.lenMin {
		if k == name || strings.HasPrefix(k, name+".") {
			delete(f.lenMin, k)
		}
	}
}

type guardWalker struct {
	c       *core.Ctx
	r       *core.Report
	info    *types.Info
	fn      string
	rule    string
	target  func(x ast.Expr) bool // is this indexed operand in scope?
	alias   map[string]string     // len-equivalent names: alias[s] = path
	ordinal map[string]int
	sites   int
	unclass []string
	// params whose bound is a precondition of the function (index parameter never reassigned)
	params map[string]bool
	pre    map[string]string // param -> slice it must index
	onCall func(call *ast.CallExpr, facts *gfacts)
}

func (w *guardWalker) canon(s string) string {
	if a, ok := w.alias[s]; ok {
		return a
	}
	return s
}

// lin decomposes an int expression: ident + k, len(A) + k, or const.
type linExpr struct {
	id    string
	lenOf string
	k     int
	ok    bool
}

func (w *guardWalker) lin(e ast.Expr) linExpr {
	e = core.Unparen(e)
	if v, ok := core.ConstInt(w.info, e); ok {
		return linExpr{k: int(v), ok: true}
	}
	switch x := e.(type) {
	case *ast.Ident:
		return linExpr{id: x.Name, ok: true}
	case *ast.CallExpr:
		if id, ok := x.Fun.(*ast.Ident); ok && id.Name == "len" && len(x.Args) == 1 {
			if _, isB := w.info.Uses[id].(*types.Builtin); isB {
				return linExpr{lenOf: w.canon(types.ExprString(x.Args[0])), ok: true}
			}
		}
	case *ast.BinaryExpr:
		if x.Op == token.ADD || x.Op == token.SUB {
			a, b := w.lin(x.X), w.lin(x.Y)
			if !a.ok || !b.ok {
				return linExpr{}
			}
			if x.Op == token.SUB {
				if b.id != "" || b.lenOf != "" {
					return linExpr{}
				}
				a.k -= b.k
				return a
			}
			if (a.id != "" || a.lenOf != "") && (b.id != "" || b.lenOf != "") {
				return linExpr{}
			}
			if b.id != "" || b.lenOf != "" {
				b.k += a.k
				return b
			}
			a.k += b.k
			return a
		}
	}
	return linExpr{}
}

// condFacts derives the facts implied by cond being true / false.
func (w *guardWalker) condFacts(cond ast.Expr) (t, f *gfacts) {
	t, f = newFacts(), newFacts()
	cond = core.Unparen(cond)
	switch x := cond.(type) {
	case *ast.UnaryExpr:
		if x.Op == token.NOT {
			a, b := w.condFacts(x.X)
			return b, a
		}
	case *ast.BinaryExpr:
		switch x.Op {
		case token.LAND:
			t1, f1 := w.condFacts(x.X)
			t2, f2 := w.condFacts(x.Y)
			t1.add(t2)
			return t1, f1.meet(f2)
		case token.LOR:
			t1, f1 := w.condFacts(x.X)
			t2, f2 := w.condFacts(x.Y)
			f1.add(f2)
			return t1.meet(t2), f1
		case token.LSS, token.LEQ, token.GTR, token.GEQ, token.EQL, token.NEQ:
			l, r := w.lin(x.X), w.lin(x.Y)
			if !l.ok || !r.ok {
				return
			}
			op := x.Op
			// normalise to l (op) r with op in {<, <=, ==, !=}
			switch op {
			case token.GTR:
				l, r, op = r, l, token.LSS
			case token.GEQ:
				l, r, op = r, l, token.LEQ
			}
			// less(l, r, strict) records facts for l < r (strict) or l <= r
			less := func(dst *gfacts, l, r linExpr, strict bool) {
				s := 0
				if !strict {
					s = -1
				}
				switch {
				case l.id != "" && r.lenOf != "" && r.id == "":
					// I + lk < len(A) + rk  =>  I + (lk - rk + s') < len(A)
					dst.add(&gfacts{upper: map[string]int{l.id + "|" + r.lenOf: l.k - r.k + s}})
				case l.id == "" && l.lenOf == "" && r.id != "" && r.lenOf == "":
					// c < I + rk  =>  I >= c - rk + 1
					m := l.k - r.k
					if strict {
						m++
					}
					dst.add(&gfacts{lower: map[string]int{r.id: m}})
				case l.id == "" && l.lenOf == "" && r.lenOf != "" && r.id == "":
					// c < len(A) + rk  =>  len(A) >= c - rk + 1
					m := l.k - r.k
					if strict {
						m++
					}
					dst.add(&gfacts{lenMin: map[string]int{r.lenOf: m}})
				}
			}
			switch op {
			case token.LSS:
				less(t, l, r, true)
				less(f, r, l, false) // !(l < r)  =>  r <= l
			case token.LEQ:
				less(t, l, r, false)
				less(f, r, l, true)
			case token.EQL:
				// len(A) == c  => false: nothing precise except c == 0 -> len >= 1
				if l.lenOf != "" && l.id == "" && r.id == "" && r.lenOf == "" && r.k-l.k == 0 {
					f.add(&gfacts{lenMin: map[string]int{l.lenOf: 1}})
				}
				if r.lenOf != "" && r.id == "" && l.id == "" && l.lenOf == "" && l.k-r.k == 0 {
					f.add(&gfacts{lenMin: map[string]int{r.lenOf: 1}})
				}
			case token.NEQ:
				if l.lenOf != "" && l.id == "" && r.id == "" && r.lenOf == "" && r.k-l.k == 0 {
					t.add(&gfacts{lenMin: map[string]int{l.lenOf: 1}})
				}
			}
		}
	}
	return
}

// checkExpr checks index sites inside an expression under facts, honouring short-circuit order.
func (w *guardWalker) checkExpr(e ast.Expr, facts *gfacts) {
	if e == nil {
		return
	}
	e = core.Unparen(e)
	switch x := e.(type) {
	case *ast.BinaryExpr:
		if x.Op == token.LAND {
			w.checkExpr(x.X, facts)
			t, _ := w.condFacts(x.X)
			g := facts.clone()
			g.add(t)
			w.checkExpr(x.Y, g)
			return
		}
		if x.Op == token.LOR {
			w.checkExpr(x.X, facts)
			_, f := w.condFacts(x.X)
			g := facts.clone()
			g.add(f)
			w.checkExpr(x.Y, g)
			return
		}
		w.checkExpr(x.X, facts)
		w.checkExpr(x.Y, facts)
	case *ast.UnaryExpr:
		w.checkExpr(x.X, facts)
	case *ast.IndexExpr:
		w.checkExpr(x.X, facts)
		w.checkExpr(x.Index, facts)
		if w.target(x.X) {
			w.site(x, facts)
		}
	case *ast.CallExpr:
		w.checkExpr(x.Fun, facts)
		for _, a := range x.Args {
			w.checkExpr(a, facts)
		}
		if w.onCall != nil {
			w.onCall(x, facts)
		}
	case *ast.SelectorExpr:
		w.checkExpr(x.X, facts)
	case *ast.SliceExpr:
		w.checkExpr(x.X, facts)
		w.checkExpr(x.Low, facts)
		w.checkExpr(x.High, facts)
	case *ast.StarExpr:
		w.checkExpr(x.X, facts)
	case *ast.CompositeLit:
		for _, el := range x.Elts {
			w.checkExpr(el, facts)
		}
	case *ast.KeyValueExpr:
		w.checkExpr(x.Value, facts)
	case *ast.FuncLit:
		// closures: analysed with no facts
		w.block(x.Body.List, newFacts())
	}
}

func (w *guardWalker) site(ie *ast.IndexExpr, facts *gfacts) {
	A := w.canon(types.ExprString(ie.X))
	l := w.lin(ie.Index)
	w.sites++
	desc := fmt.Sprintf("%s[%s]", types.ExprString(ie.X), types.ExprString(ie.Index))
	w.ordinal[desc]++
	key := fmt.Sprintf("%s|%s #%d", w.fn, desc, w.ordinal[desc])
	pos := w.c.Pos(ie.Pos())
	if !l.ok {
		w.unclass = append(w.unclass, pos+": "+desc)
		return
	}
	var missing []string
	switch {
	case l.id == "" && l.lenOf == "":
		if facts.lenMin[A] < l.k+1 {
			missing = append(missing, fmt.Sprintf("len(%s) > %d", A, l.k))
		}
	case l.lenOf != "":
		// A[len(A)-k]
		if l.lenOf != A || l.k >= 0 {
			missing = append(missing, "index relative to another length")
		} else if facts.lenMin[A] < -l.k {
			missing = append(missing, fmt.Sprintf("len(%s) >= %d", A, -l.k))
		}
	default:
		if up, ok := facts.upper[l.id+"|"+A]; !ok || up < l.k {
			if w.params[l.id] && l.k == 0 {
				// becomes a precondition on the callers (checked at every call site)
				w.pre[l.id] = A
				w.r.OK(w.rule, key, pos, "precondition on parameter "+l.id+", checked at the call sites")
				return
			}
			missing = append(missing, fmt.Sprintf("%s+%d < len(%s)", l.id, l.k, A))
		}
		if l.k < 0 {
			if lo, ok := facts.lower[l.id]; !ok || lo < -l.k {
				missing = append(missing, fmt.Sprintf("%s >= %d", l.id, -l.k))
			}
		}
	}
	if len(missing) == 0 {
		w.r.OK(w.rule, key, pos, "")
		return
	}
	w.r.Fail(w.rule, key, pos, fmt.Sprintf("index %s is not dominated by a check that %s; an input that ends here panics with index out of range", desc, strings.Join(missing, " and ")))
}

func terminates(stmts []ast.Stmt) bool {
	if len(stmts) == 0 {
		return false
	}
	switch x := stmts[len(stmts)-1].(type) {
	case *ast.ReturnStmt:
		return true
	case *ast.BranchStmt:
		return x.Tok == token.BREAK || x.Tok == token.CONTINUE || x.Tok == token.GOTO
	case *ast.ExprStmt:
		if call, ok := x.X.(*ast.CallExpr); ok {
			if id, ok := call.Fun.(*ast.Ident); ok && id.Name == "panic" {
				return true
			}
		}
	case *ast.BlockStmt:
		return terminates(x.List)
	case *ast.IfStmt:
		if x.Else == nil {
			return false
		}
		if eb, ok := x.Else.(*ast.BlockStmt); ok {
			return terminates(x.Body.List) && terminates(eb.List)
		}
		return terminates(x.Body.List) && terminates([]ast.Stmt{x.Else})
	}
	return false
}

// assignedVars lists identifiers (and selector chains) assigned anywhere under n.
func assignedVars(n ast.Node) []string {
	seen := map[string]bool{}
	ast.Inspect(n, func(m ast.Node) bool {
		switch x := m.(type) {
		case *ast.AssignStmt:
			for _, l := range x.Lhs {
				seen[types.ExprString(l)] = true
				if id := core.RootIdent(l); id != nil && x.Tok == token.DEFINE {
					seen[id.Name] = true
				}
			}
		case *ast.IncDecStmt:
			seen[types.ExprString(x.X)] = true
		case *ast.RangeStmt:
			if x.Key != nil {
				seen[types.ExprString(x.Key)] = true
			}
			if x.Value != nil {
				seen[types.ExprString(x.Value)] = true
			}
		}
		return true
	})
	var out []string
	for k := range seen {
		out = append(out, k)
	}
	return out
}

func (w *guardWalker) block(stmts []ast.Stmt, facts *gfacts) *gfacts {
	for _, s := range stmts {
		facts = w.stmt(s, facts)
	}
	return facts
}

func (w *guardWalker) stmt(s ast.Stmt, facts *gfacts) *gfacts {
	switch x := s.(type) {
	case nil:
		return facts
	case *ast.LabeledStmt:
		// a label can be reached by goto from anywhere: forget everything
		return w.stmt(x.Stmt, newFacts())
	case *ast.BlockStmt:
		return w.block(x.List, facts)
	case *ast.ExprStmt:
		w.checkExpr(x.X, facts)
	case *ast.ReturnStmt:
		for _, e := range x.Results {
			w.checkExpr(e, facts)
		}
	case *ast.DeclStmt:
		if gd, ok := x.Decl.(*ast.GenDecl); ok {
			for _, sp := range gd.Specs {
				if vs, ok := sp.(*ast.ValueSpec); ok {
					for _, v := range vs.Values {
						w.checkExpr(v, facts)
					}
					for _, n := range vs.Names {
						facts.killVar(n.Name)
					}
				}
			}
		}
	case *ast.IncDecStmt:
		w.checkExpr(x.X, facts)
		facts = facts.clone()
		facts.killVar(types.ExprString(x.X))
	case *ast.AssignStmt:
		for _, e := range x.Rhs {
			w.checkExpr(e, facts)
		}
		for _, l := range x.Lhs {
			if ie, ok := core.Unparen(l).(*ast.IndexExpr); ok {
				w.checkExpr(ie, facts)
			}
		}
		facts = facts.clone()
		for _, l := range x.Lhs {
			facts.killVar(types.ExprString(l))
		}
		// alias: path := []byte(s)  (same length)
		if len(x.Lhs) == 1 && len(x.Rhs) == 1 {
			if call, ok := core.Unparen(x.Rhs[0]).(*ast.CallExpr); ok && len(call.Args) == 1 {
				if tv, ok := w.info.Types[call.Fun]; ok && tv.IsType() {
					if _, isSlice := tv.Type.Underlying().(*types.Slice); isSlice {
						src, dst := types.ExprString(call.Args[0]), types.ExprString(x.Lhs[0])
						if n, ok := facts.lenMin[w.canon(src)]; ok {
							facts.lenMin[dst] = n
						}
						w.alias[src] = dst
					}
				}
			}
		}
	case *ast.IfStmt:
		facts = w.stmt(x.Init, facts)
		w.checkExpr(x.Cond, facts)
		t, f := w.condFacts(x.Cond)
		tf := facts.clone()
		tf.add(t)
		thenOut := w.block(x.Body.List, tf)
		ef := facts.clone()
		ef.add(f)
		var elseOut *gfacts = ef
		elseTerm := false
		if x.Else != nil {
			elseOut = w.stmt(x.Else, ef)
			if eb, ok := x.Else.(*ast.BlockStmt); ok {
				elseTerm = terminates(eb.List)
			} else {
				elseTerm = terminates([]ast.Stmt{x.Else})
			}
		}
		thenTerm := terminates(x.Body.List)
		switch {
		case thenTerm && elseTerm:
			return newFacts()
		case thenTerm:
			return elseOut
		case elseTerm:
			return thenOut
		default:
			return thenOut.meet(elseOut)
		}
	case *ast.ForStmt:
		facts = w.stmt(x.Init, facts)
		inner := facts.clone()
		for _, v := range assignedVars(x.Body) {
			inner.killVar(v)
		}
		if x.Post != nil {
			for _, v := range assignedVars(x.Post) {
				inner.killVar(v)
			}
		}
		body := inner.clone()
		if x.Cond != nil {
			w.checkExpr(x.Cond, inner)
			t, _ := w.condFacts(x.Cond)
			body.add(t)
		}
		out := w.block(x.Body.List, body)
		if x.Post != nil {
			w.stmt(x.Post, out)
		}
		return inner
	case *ast.RangeStmt:
		w.checkExpr(x.X, facts)
		inner := facts.clone()
		for _, v := range assignedVars(x.Body) {
			inner.killVar(v)
		}
		body := inner.clone()
		A := w.canon(types.ExprString(x.X))
		rangedAssigned := false
		for _, v := range assignedVars(x.Body) {
			if v == A || strings.HasPrefix(A, v+".") {
				rangedAssigned = true
			}
		}
		if k, ok := x.Key.(*ast.Ident); ok && k.Name != "_" {
			body.killVar(k.Name)
			if _, isSlice := w.info.TypeOf(x.X).Underlying().(*types.Slice); isSlice && !rangedAssigned {
				body.upper[k.Name+"|"+A] = 0
				body.lower[k.Name] = 0
			}
		}
		w.block(x.Body.List, body)
		return inner
	case *ast.SwitchStmt:
		facts = w.stmt(x.Init, facts)
		w.checkExpr(x.Tag, facts)
		out := facts.clone()
		for _, v := range assignedVars(x.Body) {
			out.killVar(v)
		}
		for _, cs := range x.Body.List {
			cc := cs.(*ast.CaseClause)
			for _, e := range cc.List {
				w.checkExpr(e, facts)
			}
			w.block(cc.Body, facts.clone())
		}
		return out
	case *ast.TypeSwitchStmt:
		out := facts.clone()
		for _, v := range assignedVars(x.Body) {
			out.killVar(v)
		}
		for _, cs := range x.Body.List {
			w.block(cs.(*ast.CaseClause).Body, facts.clone())
		}
		return out
	case *ast.DeferStmt:
		w.checkExpr(x.Call, newFacts())
	case *ast.GoStmt:
		w.checkExpr(x.Call, newFacts())
	}
	return facts
}

// runGuards walks a function and reports unguarded index sites on the targeted operands.
func runGuards(c *core.Ctx, r *core.Report, p *packages.Package, fd *ast.FuncDecl, rule, fn string, target func(info *types.Info, x ast.Expr) bool) (sites int, unclassified []string) {
	w := &guardWalker{c: c, r: r, info: p.TypesInfo, fn: fn, rule: rule, alias: map[string]string{}, ordinal: map[string]int{}, params: map[string]bool{}, pre: map[string]string{}}
	w.target = func(x ast.Expr) bool { return target(p.TypesInfo, x) }
	w.block(fd.Body.List, newFacts())
	return w.sites, w.unclass
}

// svgNumberTable finds the per-command number table of a parser: a keyed composite literal with
// at least five constant byte keys and int values, typed map[byte]int, [N]int or []int.
// arrLen is -1 for a map.
func svgNumberTable(info *types.Info, fd *ast.FuncDecl) (entries map[int64]int64, table types.Object, arrLen int64, lit *ast.CompositeLit) {
	arrLen = -1
	ast.Inspect(fd.Body, func(n ast.Node) bool {
		if lit != nil {
			return false
		}
		as, ok := n.(*ast.AssignStmt)
		if !ok || len(as.Lhs) != 1 || len(as.Rhs) != 1 {
			return true
		}
		cl, ok := as.Rhs[0].(*ast.CompositeLit)
		if !ok {
			return true
		}
		var elem types.Type
		l := int64(-1)
		switch t := info.TypeOf(cl).Underlying().(type) {
		case *types.Map:
			if kb, ok := t.Key().Underlying().(*types.Basic); !ok || kb.Kind() != types.Uint8 {
				return true
			}
			elem = t.Elem()
		case *types.Array:
			elem, l = t.Elem(), t.Len()
		case *types.Slice:
			elem = t.Elem()
		default:
			return true
		}
		if b, ok := elem.Underlying().(*types.Basic); !ok || b.Kind() != types.Int {
			return true
		}
		m := map[int64]int64{}
		maxKey := int64(-1)
		for _, el := range cl.Elts {
			kv, ok := el.(*ast.KeyValueExpr)
			if !ok {
				continue
			}
			k, ok1 := core.ConstInt(info, kv.Key)
			v, ok2 := core.ConstInt(info, kv.Value)
			if ok1 && ok2 {
				m[k] = v
				if k > maxKey {
					maxKey = k
				}
			}
		}
		if len(m) < 5 {
			return true
		}
		if _, isSlice := info.TypeOf(cl).Underlying().(*types.Slice); isSlice {
			l = maxKey + 1
		}
		if id, ok := as.Lhs[0].(*ast.Ident); ok {
			table = core.ObjOf(info, id)
		}
		entries, arrLen, lit = m, l, cl
		return false
	})
	return
}

// E4ParserGuards: ParseSVGPath and skipCommaWhitespace never index the input beyond its length.
func E4ParserGuards(c *core.Ctx, r *core.Report) {
	r.Rule("E4.index-guard", "every index (not slice) of the input byte slice in ParseSVGPath/skipCommaWhitespace is dominated, on every path through the function, by a comparison implying index < len(input) with no intervening assignment to the index variable (path := []byte(s) carries len(s) facts)")
	r.Rule("E4.table-bound", "ParseSVGPath: the largest per-command number count in its cmdLens map does not exceed the length of the number buffer f")
	p := c.MustPkg("")
	for _, name := range []string{"ParseSVGPath", "skipCommaWhitespace"} {
		fd := core.MustFuncDecl(p, name)
		r.Func("canvas." + name)
		n, un := runGuards(c, r, p, fd, "E4.index-guard", "canvas."+name, func(info *types.Info, x ast.Expr) bool {
			t := info.TypeOf(x)
			if t == nil {
				return false
			}
			switch u := t.Underlying().(type) {
			case *types.Slice:
				b, ok := u.Elem().Underlying().(*types.Basic)
				return ok && b.Kind() == types.Uint8
			case *types.Basic:
				return u.Info()&types.IsString != 0
			}
			return false
		})
		r.Count("E4.parser-index-sites", n)
		for _, u := range un {
			r.Note("E4.index-guard unclassified index form (not decided): %s", u)
		}
	}
	r.Floor("E4.parser-index-sites", 12)
	// table bound
	fd := core.MustFuncDecl(p, "ParseSVGPath")
	info := p.TypesInfo
	maxN, bufLen := int64(-1), int64(-1)
	tabEntries, tabObj, tabLen, _ := svgNumberTable(info, fd)
	for _, v := range tabEntries {
		if v > maxN {
			maxN = v
		}
	}
	ast.Inspect(fd.Body, func(n ast.Node) bool {
		as, ok := n.(*ast.AssignStmt)
		if !ok || len(as.Lhs) != 1 || len(as.Rhs) != 1 {
			return true
		}
		cl, ok := as.Rhs[0].(*ast.CompositeLit)
		if !ok {
			return true
		}
		if t, ok := info.TypeOf(cl).Underlying().(*types.Array); ok {
			if b, ok := t.Elem().Underlying().(*types.Basic); ok && b.Kind() == types.Float64 {
				bufLen = t.Len()
			}
		}
		return true
	})
	// every index into the table is in range for every value of its index expression
	r.Rule("E4.table-index", "ParseSVGPath: the per-command number table is indexed with a byte taken from the input. If the table is a map every byte is a valid key; if it is an array or slice of length N, N exceeds the largest value of the index expression's type (255 for a byte) — otherwise a byte of 0x80 or more in command position indexes out of range and the parser panics instead of reporting an unknown command")
	if tabObj != nil {
		nidx := 0
		ast.Inspect(fd.Body, func(n ast.Node) bool {
			ie, ok := n.(*ast.IndexExpr)
			if !ok {
				return true
			}
			id, ok := core.Unparen(ie.X).(*ast.Ident)
			if !ok || core.ObjOf(info, id) != tabObj {
				return true
			}
			nidx++
			key := fmt.Sprintf("canvas.ParseSVGPath|number table index #%d is in range for every input byte", nidx)
			if tabLen < 0 {
				r.OK("E4.table-index", key, c.Pos(ie.Pos()), "map")
				return true
			}
			maxIdx := int64(-1)
			if v, ok := core.ConstInt(info, ie.Index); ok {
				maxIdx = v
			} else if b, ok := info.TypeOf(ie.Index).Underlying().(*types.Basic); ok {
				switch b.Kind() {
				case types.Uint8:
					maxIdx = 255
				}
			}
			if maxIdx >= 0 && maxIdx < tabLen {
				r.OK("E4.table-index", key, c.Pos(ie.Pos()), fmt.Sprintf("max index %d < %d", maxIdx, tabLen))
			} else {
				r.Fail("E4.table-index", key, c.Pos(ie.Pos()), fmt.Sprintf("the table has %d entries but is indexed with `%s` (%s), which can be as large as %d (unbounded if negative): an input byte outside the table panics", tabLen, c.Src(ie.Index), info.TypeOf(ie.Index), maxIdx))
			}
			return true
		})
		r.Count("E4.table-index-sites", nidx)
		r.Floor("E4.table-index-sites", 1)
	}
	if maxN < 0 || bufLen < 0 {
		r.Fail("E4.table-bound", "canvas.ParseSVGPath|cmdLens<=len(f)", c.Pos(fd.Pos()), "number-count table or number buffer not found")
	} else if maxN > bufLen {
		r.Fail("E4.table-bound", "canvas.ParseSVGPath|cmdLens<=len(f)", c.Pos(fd.Pos()), fmt.Sprintf("a command takes %d numbers but the buffer holds %d", maxN, bufLen))
	} else {
		r.OK("E4.table-bound", "canvas.ParseSVGPath|cmdLens<=len(f)", c.Pos(fd.Pos()), fmt.Sprintf("max %d <= %d", maxN, bufLen))
	}
}

// E4LinebreakGuards: Linebreak and the linebreaker methods never index the caller's items out of range.
func E4LinebreakGuards(c *core.Ctx, r *core.Report) {
	r.Rule("E4.neighbour-guard", "text.Linebreak and the linebreaker methods: every index of the item slice (items[b], items[b±k]) is dominated by a check of that element's bounds, or b is an index parameter whose bound is a precondition")
	r.Rule("E4.index-contract", "every call of a linebreaker method with an index-parameter precondition passes an argument for which `arg < len(receiver.items)` is established at the call site (range index or guard) or is itself such a parameter")
	p := c.MustPkg("text")
	info := p.TypesInfo
	isItems := func(info *types.Info, x ast.Expr) bool {
		t := info.TypeOf(x)
		if t == nil {
			return false
		}
		if s, ok := t.Underlying().(*types.Slice); ok {
			if nt, ok := s.Elem().(*types.Named); ok && nt.Obj().Name() == "Item" {
				return true
			}
		}
		return false
	}
	type fnInfo struct {
		fd   *ast.FuncDecl
		pre  map[string]string // param name -> "recv.items"
		recv string
	}
	fns := map[string]*fnInfo{}
	var order []string
	for _, fd := range core.AllFuncDecls(p) {
		name := core.FuncName(fd)
		if name != "Linebreak" && core.RecvName(fd) != "linebreaker" {
			continue
		}
		fi := &fnInfo{fd: fd}
		if fd.Recv != nil && len(fd.Recv.List[0].Names) == 1 {
			fi.recv = fd.Recv.List[0].Names[0].Name
		}
		fns[name] = fi
		order = append(order, name)
	}
	sort.Strings(order)
	type callRec struct {
		caller string
		call   *ast.CallExpr
		facts  *gfacts
	}
	var calls []callRec
	total := 0
	for _, name := range order {
		fi := fns[name]
		r.Func("text." + name)
		w := &guardWalker{c: c, r: r, info: info, fn: "text." + name, rule: "E4.neighbour-guard", alias: map[string]string{}, ordinal: map[string]int{}, params: map[string]bool{}, pre: map[string]string{}}
		w.target = func(x ast.Expr) bool { return isItems(info, x) }
		// int parameters never assigned in the body are candidate index parameters
		assigned := map[string]bool{}
		for _, v := range assignedVars(fi.fd.Body) {
			assigned[v] = true
		}
		for _, f := range fi.fd.Type.Params.List {
			if b, ok := info.TypeOf(f.Type).Underlying().(*types.Basic); ok && b.Kind() == types.Int {
				for _, n := range f.Names {
					if !assigned[n.Name] {
						w.params[n.Name] = true
					}
				}
			}
		}
		caller := name
		w.onCall = func(call *ast.CallExpr, facts *gfacts) {
			calls = append(calls, callRec{caller, call, facts.clone()})
		}
		w.block(fi.fd.Body.List, newFacts())
		fi.pre = w.pre
		total += w.sites
		for _, u := range w.unclass {
			r.Note("E4.neighbour-guard unclassified index form (not decided): %s", u)
		}
	}
	r.Count("E4.linebreak-index-sites", total)
	r.Floor("E4.linebreak-index-sites", 3)
	// check the contracts at call sites
	for _, cr := range calls {
		f := core.CalleeOf(info, cr.call)
		if f == nil || f.Pkg() == nil || f.Pkg().Path() != p.PkgPath {
			continue
		}
		se, ok := cr.call.Fun.(*ast.SelectorExpr)
		if !ok {
			continue
		}
		callee := fns["linebreaker."+f.Name()]
		if callee == nil || len(callee.pre) == 0 {
			continue
		}
		idx := 0
		for _, fl := range callee.fd.Type.Params.List {
			for _, n := range fl.Names {
				want, has := callee.pre[n.Name]
				if has && idx < len(cr.call.Args) {
					r.Count("E4.index-contracts", 1)
					arg := cr.call.Args[idx]
					key := fmt.Sprintf("text.%s -> linebreaker.%s|param %s", cr.caller, f.Name(), n.Name)
					// slice expression with the callee's receiver replaced by the call's receiver
					A := strings.Replace(want, callee.recv+".", types.ExprString(se.X)+".", 1)
					id, isId := core.Unparen(arg).(*ast.Ident)
					switch {
					case isId && cr.facts.upper[id.Name+"|"+A] >= 0 && hasKey(cr.facts.upper, id.Name+"|"+A):
						r.OK("E4.index-contract", key, c.Pos(cr.call.Pos()), id.Name+" < len("+A+") established at the call")
					case isId && fns[cr.caller] != nil && fns[cr.caller].pre[id.Name] == A:
						r.OK("E4.index-contract", key, c.Pos(cr.call.Pos()), "forwarded precondition of the caller")
					default:
						r.Fail("E4.index-contract", key, c.Pos(cr.call.Pos()), fmt.Sprintf("argument `%s` is not known to be < len(%s) at this call, but linebreaker.%s indexes %s with it", types.ExprString(arg), A, f.Name(), want))
					}
				}
				idx++
			}
		}
	}
	r.Floor("E4.index-contracts", 1)
}

func hasKey(m map[string]int, k string) bool { _, ok := m[k]; return ok }

// panicSite describes an explicit panic call.
type panicSite struct {
	fn   *ssa.Function
	pos  token.Pos
	text string
}

// reachableFrom computes the functions reachable in the call graph from roots, remembering one parent edge.
func reachableFrom(cg *callgraph.Graph, roots []*ssa.Function, stop func(*ssa.Function) bool) map[*ssa.Function]*ssa.Function {
	parent := map[*ssa.Function]*ssa.Function{}
	var queue []*ssa.Function
	for _, f := range roots {
		parent[f] = nil
		queue = append(queue, f)
	}
	for len(queue) > 0 {
		f := queue[0]
		queue = queue[1:]
		// closures and function values created here may be invoked by code outside the scope
		// (sort.Slice, sync.OnceFunc, callbacks): treat them as reachable
		var extra []*ssa.Function
		extra = append(extra, f.AnonFuncs...)
		for _, b := range f.Blocks {
			for _, ins := range b.Instrs {
				for _, op := range ins.Operands(nil) {
					if op == nil || *op == nil {
						continue
					}
					if fv, ok := (*op).(*ssa.Function); ok {
						if call, isCall := ins.(ssa.CallInstruction); isCall && call.Common().Value == fv {
							continue // plain static call: handled by the call graph
						}
						extra = append(extra, fv)
					}
				}
			}
		}
		for _, g := range extra {
			if _, seen := parent[g]; seen || (stop != nil && stop(g)) {
				continue
			}
			parent[g] = f
			queue = append(queue, g)
		}
		n := cg.Nodes[f]
		if n == nil {
			continue
		}
		// deterministic order
		outs := append([]*callgraph.Edge{}, n.Out...)
		sort.SliceStable(outs, func(i, j int) bool { return outs[i].Callee.Func.String() < outs[j].Callee.Func.String() })
		for _, e := range outs {
			g := e.Callee.Func
			if _, seen := parent[g]; seen {
				continue
			}
			if stop != nil && stop(g) {
				continue
			}
			parent[g] = f
			queue = append(queue, g)
		}
	}
	return parent
}

func chainTo(parent map[*ssa.Function]*ssa.Function, f *ssa.Function) []string {
	var out []string
	for g := f; g != nil; g = parent[g] {
		out = append([]string{core.ShortFunc(g)}, out...)
		if len(out) > 12 {
			break
		}
	}
	return out
}

// panicText renders the panic argument (string constants verbatim, otherwise the SSA value's type).
func panicText(p *ssa.Panic) string {
	v := p.X
	if mi, ok := v.(*ssa.MakeInterface); ok {
		v = mi.X
	}
	if cst, ok := v.(*ssa.Const); ok && cst.Value != nil {
		return cst.Value.ExactString()
	}
	return "<" + v.Type().String() + ">"
}

// E4PanicReachability: no explicit panic is reachable from the roots except reviewed sites.
func E4PanicReachability(c *core.Ctx, r *core.Report, rule string, roots []*ssa.Function, reviewed map[string]string, scopeModuleOnly bool) {
	cg := c.CallGraph()
	closure := map[string]bool{}
	var addImports func(p *types.Package)
	addImports = func(p *types.Package) {
		if closure[p.Path()] {
			return
		}
		closure[p.Path()] = true
		for _, q := range p.Imports() {
			addImports(q)
		}
	}
	for _, f := range roots {
		if f.Pkg != nil {
			addImports(f.Pkg.Pkg)
		}
	}
	parent := reachableFrom(cg, roots, func(f *ssa.Function) bool {
		// the standard library is outside the reviewed scope
		pp := core.FuncPkgPath(f)
		first := pp
		if i := strings.Index(pp, "/"); i >= 0 {
			first = pp[:i]
		}
		if !strings.Contains(first, ".") {
			return true
		}
		if scopeModuleOnly && !core.InModule(f) {
			return true
		}
		// code reachable from the roots can only belong to packages the roots' packages import
		// (a value of any other package's type cannot exist in that call tree: the roots take
		// no arguments of module types); VTA is context-insensitive and would otherwise merge
		// the renderers passed to Canvas.RenderViewTo elsewhere in the program.
		if !closure[pp] {
			return true
		}
		return false
	})
	r.Count(rule+":import-closure", len(closure))
	r.Count(rule+":reachable-functions", len(parent))
	var fns []*ssa.Function
	for f := range parent {
		fns = append(fns, f)
	}
	sort.Slice(fns, func(i, j int) bool { return fns[i].String() < fns[j].String() })
	usedReview := map[string]bool{}
	for _, f := range fns {
		r.Func(core.ShortFunc(f))
		ord := map[string]int{}
		for _, b := range f.Blocks {
			for _, ins := range b.Instrs {
				pn, ok := ins.(*ssa.Panic)
				if !ok {
					continue
				}
				// go/ssa also emits Panic for a missing return after exhaustive code; those have no position
				if !pn.Pos().IsValid() {
					continue
				}
				text := panicText(pn)
				ord[text]++
				id := core.ShortFunc(f) + "|panic " + text
				if ord[text] > 1 {
					id += fmt.Sprintf(" #%d", ord[text])
				}
				r.Count(rule+":panic-sites", 1)
				if why, ok := reviewed[core.ShortFunc(f)+"|"+text]; ok {
					usedReview[core.ShortFunc(f)+"|"+text] = true
					r.OK(rule, id, c.Pos(pn.Pos()), "reviewed: "+why)
					continue
				}
				r.Fail(rule, id, c.Pos(pn.Pos()), "explicit panic reachable from the parser entry point; the property requires a result or an error for every input", "call chain: "+strings.Join(chainTo(parent, f), " -> "))
			}
		}
	}
	for k := range reviewed {
		if !usedReview[k] {
			r.Note("%s: reviewed entry %q no longer matches a reachable panic (stale entry, harmless)", rule, k)
		}
	}
}

// E4ParserProgress: every iteration of ParseSVGPath's command loop consumes input or returns.
func E4ParserProgress(c *core.Ctx, r *core.Report) {
	r.Rule("E4.parser-progress", "ParseSVGPath terminates because every iteration of its command loop consumes at least one byte or returns: an iteration that reads a new command letter advances the cursor itself; an iteration that repeats the previous command consumes only the numbers of that command (a failed number parse returns an error), so a command may be repeated only if its entry in the per-command number table is at least 1. Every letter whose table entry is 0 (closepath), in both cases, must therefore be a disjunct `cmd == letter` of the condition that forces reading a new command letter")
	p := c.MustPkg("")
	info := p.TypesInfo
	fd := core.MustFuncDecl(p, "ParseSVGPath")
	r.Func("canvas.ParseSVGPath")
	// 1. the number table (map[byte]int, or an array/slice keyed by the letter); letters with 0 numbers
	var zero []byte
	tab, _, _, _ := svgNumberTable(info, fd)
	entries := len(tab)
	var tabKeys []int64
	for k := range tab {
		tabKeys = append(tabKeys, k)
	}
	sort.Slice(tabKeys, func(i, j int) bool { return tabKeys[i] < tabKeys[j] })
	for _, k := range tabKeys {
		if tab[k] == 0 {
			zero = append(zero, byte(k))
		}
	}
	if entries < 5 {
		panic(core.Infra("E4.parser-progress: the per-command number table of ParseSVGPath was not found"))
	}
	// 2. the guard that forces a new command letter: the if whose body sets the bool `repeat`-like local to false and increments the cursor
	var guard *ast.IfStmt
	ast.Inspect(fd.Body, func(n ast.Node) bool {
		is, ok := n.(*ast.IfStmt)
		if !ok || guard != nil {
			return true
		}
		setsFalse, incs := false, false
		for _, s := range is.Body.List {
			switch x := s.(type) {
			case *ast.AssignStmt:
				if len(x.Rhs) == 1 {
					if id, ok := x.Rhs[0].(*ast.Ident); ok && id.Name == "false" && x.Tok == token.ASSIGN {
						setsFalse = true
					}
				}
			case *ast.IncDecStmt:
				if x.Tok == token.INC {
					incs = true
				}
			}
		}
		if setsFalse && incs {
			guard = is
		}
		return true
	})
	if guard == nil {
		r.Fail("E4.parser-progress", "canvas.ParseSVGPath|new-letter guard", c.Pos(fd.Pos()), "no branch reads a new command letter and advances the cursor: the progress argument cannot be made")
		return
	}
	r.OK("E4.parser-progress", "canvas.ParseSVGPath|new-letter branch advances", c.Pos(guard.Pos()), "the branch that reads a command letter increments the cursor")
	forced := map[byte]bool{}
	var flat func(e ast.Expr)
	flat = func(e ast.Expr) {
		e = core.Unparen(e)
		if be, ok := e.(*ast.BinaryExpr); ok {
			if be.Op == token.LOR {
				flat(be.X)
				flat(be.Y)
				return
			}
			if be.Op == token.EQL {
				if _, isId := core.Unparen(be.X).(*ast.Ident); isId {
					if v, ok := core.ConstInt(info, be.Y); ok {
						forced[byte(v)] = true
					}
				}
			}
		}
	}
	flat(guard.Cond)
	for _, z := range zero {
		for _, letter := range []byte{z, z | 0x20} {
			key := fmt.Sprintf("canvas.ParseSVGPath|command '%c' takes no numbers and is never repeated", letter)
			if forced[letter] {
				r.OK("E4.parser-progress", key, c.Pos(guard.Pos()), "")
			} else {
				r.Fail("E4.parser-progress", key, c.Pos(guard.Pos()), fmt.Sprintf("after a '%c' the next number-like byte repeats the command, which consumes nothing: the loop never advances (ParseSVGPath(\"M0 0%c1\") does not return)", letter, letter))
			}
		}
	}
	// 3. a failed number parse returns
	numOK := false
	ast.Inspect(fd.Body, func(n ast.Node) bool {
		is, ok := n.(*ast.IfStmt)
		if !ok {
			return true
		}
		be, ok := core.Unparen(is.Cond).(*ast.BinaryExpr)
		if !ok || be.Op != token.EQL {
			return true
		}
		if v, ok := core.ConstInt(info, be.Y); !ok || v != 0 {
			return true
		}
		if allPathsReturn(is.Body) {
			numOK = true
		}
		return true
	})
	if numOK {
		r.OK("E4.parser-progress", "canvas.ParseSVGPath|failed number parse returns", c.Pos(fd.Pos()), "")
	} else {
		r.Fail("E4.parser-progress", "canvas.ParseSVGPath|failed number parse returns", c.Pos(fd.Pos()), "no `if n == 0 { … return … }` on every path after parsing a number: a repeated command may consume nothing")
	}
	r.Count("E4.zero-number-commands", len(zero))
	r.Floor("E4.zero-number-commands", 1)
}

// allPathsReturn: every path through the block ends in a return (if/else chains followed).
func allPathsReturn(b *ast.BlockStmt) bool {
	if b == nil || len(b.List) == 0 {
		return false
	}
	switch last := b.List[len(b.List)-1].(type) {
	case *ast.ReturnStmt:
		return true
	case *ast.IfStmt:
		if last.Else == nil || !allPathsReturn(last.Body) {
			return false
		}
		switch e := last.Else.(type) {
		case *ast.BlockStmt:
			return allPathsReturn(e)
		case *ast.IfStmt:
			return allPathsReturn(&ast.BlockStmt{List: []ast.Stmt{e}})
		}
	}
	return false
}

// E4ValueOnError: a pointer result is not used on the path where its call reported an error.
func E4ValueOnError(c *core.Ctx, r *core.Report) {
	r.Rule("E4.value-on-error", "in the SVG importer (svg.go): after `v, err := f(…)` with v of pointer type, the statement that tests `err != nil` leaves the enclosing statement list (return, break, continue) before v is used, or v is not used afterwards. ParseSVGPath returns a nil path together with its error; drawing it dereferences nil, so a document with bad path data made ParseSVG panic instead of returning the error")
	p := c.MustPkg("")
	info := p.TypesInfo
	n := 0
	for _, fd := range core.AllFuncDecls(p) {
		if fd.Body == nil || !strings.HasSuffix(c.Fset.Position(fd.Pos()).Filename, "/svg.go") {
			continue
		}
		fname := "canvas." + core.FuncName(fd)
		ord := 0
		var lists [][]ast.Stmt
		ast.Inspect(fd.Body, func(m ast.Node) bool {
			switch x := m.(type) {
			case *ast.BlockStmt:
				lists = append(lists, x.List)
			case *ast.CaseClause:
				lists = append(lists, x.Body)
			}
			return true
		})
		for _, list := range lists {
			for i, st := range list {
				as, ok := st.(*ast.AssignStmt)
				if !ok || len(as.Lhs) != 2 || len(as.Rhs) != 1 {
					continue
				}
				if _, isCall := core.Unparen(as.Rhs[0]).(*ast.CallExpr); !isCall {
					continue
				}
				vid, ok1 := as.Lhs[0].(*ast.Ident)
				eid, ok2 := as.Lhs[1].(*ast.Ident)
				if !ok1 || !ok2 || vid.Name == "_" || eid.Name == "_" {
					continue
				}
				v, e := core.ObjOf(info, vid), core.ObjOf(info, eid)
				if v == nil || e == nil {
					continue
				}
				if _, isPtr := v.Type().Underlying().(*types.Pointer); !isPtr {
					continue
				}
				if nt, ok := e.Type().(*types.Named); !ok || nt.Obj().Name() != "error" {
					continue
				}
				n++
				ord++
				key := fmt.Sprintf("%s|pointer result #%d not used on the error path", fname, ord)
				// the error test among the following statements
				leaves := false
				tested := false
				usedAfter := false
				for _, later := range list[i+1:] {
					if is, ok := later.(*ast.IfStmt); ok && !tested {
						mentionsErr := false
						ast.Inspect(is.Cond, func(k ast.Node) bool {
							if id, ok := k.(*ast.Ident); ok && core.ObjOf(info, id) == e {
								mentionsErr = true
							}
							return true
						})
						if mentionsErr {
							tested = true
							// the condition must be exactly err != nil for the leave to cover every error
							exact := false
							if be, ok := core.Unparen(is.Cond).(*ast.BinaryExpr); ok && be.Op == token.NEQ {
								if id, ok := core.Unparen(be.X).(*ast.Ident); ok && core.ObjOf(info, id) == e {
									exact = true
								}
							}
							if exact && len(is.Body.List) > 0 {
								switch last := is.Body.List[len(is.Body.List)-1].(type) {
								case *ast.ReturnStmt:
									leaves = true
								case *ast.BranchStmt:
									if last.Tok == token.BREAK || last.Tok == token.CONTINUE {
										leaves = true
									}
								}
							}
							continue
						}
					}
					ast.Inspect(later, func(k ast.Node) bool {
						if id, ok := k.(*ast.Ident); ok && core.ObjOf(info, id) == v {
							usedAfter = true
						}
						return true
					})
				}
				if !usedAfter || leaves {
					r.OK("E4.value-on-error", key, c.Pos(as.Pos()), "")
				} else {
					r.Fail("E4.value-on-error", key, c.Pos(as.Pos()), fmt.Sprintf("`%s` may be nil when `%s` is not: the error is recorded but the statement list goes on to use `%s`", vid.Name, eid.Name, vid.Name))
				}
			}
		}
	}
	r.Count("E4.pointer-results-with-error", n)
	r.Floor("E4.pointer-results-with-error", 1)
}

// E4AllocCoversIndex: a slice allocated to be filled by key is sized from the key it is filled with.
func E4AllocCoversIndex(c *core.Ctx, r *core.Report) {
	r.Rule("E4.alloc-covers-index", "package text: where a slice made with `make([]T, L)` is afterwards stored into at an index that is not bounded by the loop it sits in (`s[K] = v` with K a field of the node being walked, e.g. breaks[b.Line] along the parent chain), the length L is `K+1` for that same key expression, evaluated on the same variable: after resolving single-assignment locals, L is textually K+1 and the variable K is read from is not reassigned between the point where L is evaluated and the loop that fills the slice. A length taken from an earlier value of the variable (the optimum's line count, before looseness picks another node) makes the first store index out of range, or leaves trailing nil entries that are dereferenced")
	p := c.MustPkg("text")
	info := p.TypesInfo
	n := 0
	for _, fd := range core.AllFuncDecls(p) {
		if fd.Body == nil || strings.HasSuffix(c.Fset.Position(fd.Pos()).Filename, "_test.go") {
			continue
		}
		fname := "text." + core.FuncName(fd)
		// all assignments per object, in source order
		defs := map[types.Object][]*ast.AssignStmt{}
		ast.Inspect(fd.Body, func(m ast.Node) bool {
			if as, ok := m.(*ast.AssignStmt); ok {
				for _, l := range as.Lhs {
					if id, ok := l.(*ast.Ident); ok {
						if o := core.ObjOf(info, id); o != nil {
							defs[o] = append(defs[o], as)
						}
					}
				}
			}
			return true
		})
		// parent stack walk
		var stack []ast.Node
		ast.Inspect(fd.Body, func(m ast.Node) bool {
			if m == nil {
				stack = stack[:len(stack)-1]
				return true
			}
			stack = append(stack, m)
			as, ok := m.(*ast.AssignStmt)
			if !ok || as.Tok != token.ASSIGN {
				return true
			}
			for _, l := range as.Lhs {
				ie, ok := core.Unparen(l).(*ast.IndexExpr)
				if !ok {
					continue
				}
				sid, ok := core.Unparen(ie.X).(*ast.Ident)
				if !ok {
					continue
				}
				so := core.ObjOf(info, sid)
				// the slice must be a local made once with make([]T, L)
				if so == nil || len(defs[so]) == 0 {
					continue
				}
				var mk *ast.CallExpr
				var mkStmt *ast.AssignStmt
				nmake := 0
				for _, d := range defs[so] {
					for i, dl := range d.Lhs {
						if id, ok := dl.(*ast.Ident); ok && core.ObjOf(info, id) == so && i < len(d.Rhs) && len(d.Lhs) == len(d.Rhs) {
							if call, ok := core.Unparen(d.Rhs[i]).(*ast.CallExpr); ok {
								if f, ok := call.Fun.(*ast.Ident); ok && f.Name == "make" && len(call.Args) == 2 {
									mk, mkStmt = call, d
									nmake++
								}
							}
						}
					}
				}
				if mk == nil || nmake != 1 || mkStmt.Pos() > as.Pos() {
					continue
				}
				// index bounded by its loop? (induction variable / guard mentioning len(s) or the make length)
				key := core.Unparen(ie.Index)
				if _, isSel := key.(*ast.SelectorExpr); !isSel {
					continue // plain induction variables and constants are E4.neighbour-guard's business
				}
				keyStr := types.ExprString(key)
				root := core.RootIdent(key)
				if root == nil {
					continue
				}
				ro := core.ObjOf(info, root)
				guarded := false
				var loop ast.Node
				for i := len(stack) - 2; i >= 0; i-- {
					switch x := stack[i].(type) {
					case *ast.IfStmt:
						if stack[i+1] == ast.Node(x.Body) && strings.Contains(squash(c.Src(x.Cond)), squash(keyStr)+"<len("+sid.Name+")") {
							guarded = true
						}
					case *ast.ForStmt, *ast.RangeStmt:
						loop = x
					}
				}
				if guarded {
					continue
				}
				n++
				okey := fmt.Sprintf("%s|slice filled at key %s is made with that key's value plus one", fname, strings.TrimPrefix(keyStr, root.Name))
				// resolve L
				L := core.Unparen(mk.Args[1])
				evalPos := mkStmt.Pos()
				resolve := func(e ast.Expr) ast.Expr {
					if id, ok := core.Unparen(e).(*ast.Ident); ok {
						if o := core.ObjOf(info, id); o != nil && len(defs[o]) == 1 && len(defs[o][0].Lhs) == 1 && len(defs[o][0].Rhs) == 1 {
							if defs[o][0].Pos() < evalPos {
								evalPos = defs[o][0].Pos()
							}
							return core.Unparen(defs[o][0].Rhs[0])
						}
					}
					return e
				}
				L = resolve(L)
				lstr := ""
				if be, ok := L.(*ast.BinaryExpr); ok && be.Op == token.ADD {
					x, y := resolve(be.X), resolve(be.Y)
					if v, ok := core.ConstInt(info, y); ok && v == 1 {
						lstr = types.ExprString(x)
					} else if v, ok := core.ConstInt(info, x); ok && v == 1 {
						lstr = types.ExprString(y)
					}
				}
				if squash(lstr) != squash(keyStr) {
					r.Fail("E4.alloc-covers-index", okey, c.Pos(mkStmt.Pos()), fmt.Sprintf("`%s` is made with length `%s`, but it is filled at `%s`: the length is not that key plus one", sid.Name, c.Src(mk.Args[1]), keyStr))
					continue
				}
				// the root variable must not be reassigned between evalPos and the filling loop (or the store)
				until := as.Pos()
				if loop != nil {
					until = loop.Pos()
				}
				stale := token.NoPos
				for _, d := range defs[ro] {
					if d.Pos() > evalPos && d.Pos() < until {
						stale = d.Pos()
					}
				}
				if stale != token.NoPos {
					r.Fail("E4.alloc-covers-index", okey, c.Pos(mkStmt.Pos()), fmt.Sprintf("the length of `%s` is `%s+1` as evaluated at %s, but `%s` is reassigned at %s before the slice is filled at `%s`: the chosen node can have a different %s than the one the slice was sized for", sid.Name, keyStr, c.Pos(evalPos), root.Name, c.Pos(stale), keyStr, strings.TrimPrefix(keyStr, root.Name+".")))
					continue
				}
				r.OK("E4.alloc-covers-index", okey, c.Pos(mkStmt.Pos()), "")
			}
			return true
		})
	}
	r.Count("E4.keyed-fill-sites", n)
	r.Floor("E4.keyed-fill-sites", 1)
}

// E4LogDomain: the argument of a logarithm that is a quotient has its denominator tested.
func E4LogDomain(c *core.Ctx, r *core.Report) {
	r.Rule("E4.log-domain", "module-wide: where math.Log is applied to a quotient (directly, or to a local defined once as a quotient), the function compares the denominator — the expression itself or the local it was bound to — with zero (`<= 0`, `== 0`, `< 0`, Equal(…, 0)) before the call. quadraticBezierLength's closed form divides by B/√A + 2√C, which is exactly zero when the control point lies on the chord's line beyond an end point; the logarithm's coefficient is zero there too and the sum became 0·Inf = NaN, so Path.Length was NaN")
	n := 0
	for _, p := range c.Pkgs {
		info := p.TypesInfo
		for _, fd := range core.AllFuncDecls(p) {
			if fd.Body == nil || strings.HasSuffix(c.Fset.Position(fd.Pos()).Filename, "_test.go") {
				continue
			}
			fname := p.Types.Name() + "." + core.FuncName(fd)
			ord := 0
			ast.Inspect(fd.Body, func(m ast.Node) bool {
				call, ok := m.(*ast.CallExpr)
				if !ok || !core.IsPkgFunc(info, call, "math", "Log") || len(call.Args) != 1 {
					return true
				}
				// resolve the argument to a quotient
				arg := core.Unparen(call.Args[0])
				resolve := func(e ast.Expr) ast.Expr {
					id, ok := core.Unparen(e).(*ast.Ident)
					if !ok {
						return e
					}
					o := core.ObjOf(info, id)
					var def ast.Expr
					cnt := 0
					ast.Inspect(fd.Body, func(k ast.Node) bool {
						if as, ok := k.(*ast.AssignStmt); ok && len(as.Lhs) == len(as.Rhs) {
							for i, l := range as.Lhs {
								if lid, ok := l.(*ast.Ident); ok && core.ObjOf(info, lid) == o {
									cnt++
									def = as.Rhs[i]
								}
							}
						}
						return true
					})
					if cnt == 1 {
						return core.Unparen(def)
					}
					return e
				}
				arg = resolve(arg)
				be, ok := arg.(*ast.BinaryExpr)
				if !ok || be.Op != token.QUO {
					return true
				}
				n++
				ord++
				key := fmt.Sprintf("%s|logarithm of a quotient #%d: the denominator is tested against zero", fname, ord)
				den := core.Unparen(be.Y)
				denStr := squash(types.ExprString(den))
				var denObj types.Object
				if id, ok := den.(*ast.Ident); ok {
					denObj = core.ObjOf(info, id)
				}
				tested := false
				ast.Inspect(fd.Body, func(k ast.Node) bool {
					is, ok := k.(*ast.IfStmt)
					if !ok || is.Pos() > call.Pos() {
						return true
					}
					ast.Inspect(is.Cond, func(q ast.Node) bool {
						var x, y ast.Expr
						switch e := q.(type) {
						case *ast.BinaryExpr:
							switch e.Op {
							case token.LSS, token.LEQ, token.GTR, token.GEQ, token.EQL, token.NEQ:
								x, y = e.X, e.Y
							}
						case *ast.CallExpr:
							if f := core.CalleeOf(info, e); f != nil && f.Name() == "Equal" && len(e.Args) == 2 {
								x, y = e.Args[0], e.Args[1]
							}
						}
						if x == nil {
							return true
						}
						for i, s := range []ast.Expr{x, y} {
							o := []ast.Expr{y, x}[i]
							f, isConst := constantFloat(core.ConstVal(info, o))
							if !isConst || f != 0 {
								continue
							}
							s = core.Unparen(s)
							if id, ok := s.(*ast.Ident); ok && denObj != nil && core.ObjOf(info, id) == denObj {
								tested = true
							} else if squash(types.ExprString(s)) == denStr {
								tested = true
							}
						}
						return true
					})
					return true
				})
				if tested {
					r.OK("E4.log-domain", key, c.Pos(call.Pos()), "")
				} else {
					r.Fail("E4.log-domain", key, c.Pos(call.Pos()), fmt.Sprintf("math.Log is applied to a quotient whose denominator `%s` is never compared with zero in %s: where it vanishes the result is ±Inf or NaN", c.Src(be.Y), fname))
				}
				return true
			})
		}
	}
	r.Count("E4.log-of-quotient-sites", n)
	r.Floor("E4.log-of-quotient-sites", 1)
}

// E4StepProgress: a curve-walking loop whose step is proportional to a tolerance parameter makes progress.
func E4StepProgress(c *core.Ctx, r *core.Report) {
	r.Rule("E4.step-progress", "package canvas: a loop `for t < 1.0` that advances t by a step computed from a float parameter of the function (the flattening tolerance, under a square or cube root) does not terminate when that parameter is zero. The parameter therefore has a positive lower bound when the loop is reached: the function assigns `param = math.Max(param, K)` before the loop, or every call site in the package passes a variable that the caller clamped that way (followed two levels up). The cubic flattener had the clamp, the quadratic one did not: Flatten(0) hung on any path with a QuadTo")
	p := c.MustPkg("")
	info := p.TypesInfo
	decls := map[types.Object]*ast.FuncDecl{}
	for _, fd := range core.AllFuncDecls(p) {
		if o := info.Defs[fd.Name]; o != nil {
			decls[o] = fd
		}
	}
	// clamped(fd, obj): obj = math.Max(obj, K) assigned at top level of fd
	clampedIn := func(fd *ast.FuncDecl, o types.Object, before token.Pos) bool {
		found := false
		ast.Inspect(fd.Body, func(m ast.Node) bool {
			as, ok := m.(*ast.AssignStmt)
			if !ok || len(as.Lhs) != 1 || len(as.Rhs) != 1 || as.Pos() > before {
				return true
			}
			id, ok := as.Lhs[0].(*ast.Ident)
			if !ok || core.ObjOf(info, id) != o {
				return true
			}
			if call, ok := core.Unparen(as.Rhs[0]).(*ast.CallExpr); ok && core.IsPkgFunc(info, call, "math", "Max") && len(call.Args) == 2 {
				for i, a := range call.Args {
					if aid, ok := core.Unparen(a).(*ast.Ident); ok && core.ObjOf(info, aid) == o {
						other := core.Unparen(call.Args[1-i])
						if f, ok := constantFloat(core.ConstVal(info, other)); ok && f > 0 {
							found = true
						} else if oid, ok := other.(*ast.Ident); ok {
							// a package-level tuning variable such as Epsilon
							if v, ok := core.ObjOf(info, oid).(*types.Var); ok && v.Parent() == p.Types.Scope() {
								found = true
							}
						}
					}
				}
			}
			return true
		})
		return found
	}
	paramIndex := func(fd *ast.FuncDecl, o types.Object) int {
		k := 0
		for _, f := range fd.Type.Params.List {
			for _, nm := range f.Names {
				if info.Defs[nm] == o {
					return k
				}
				k++
			}
		}
		return -1
	}
	var established func(fd *ast.FuncDecl, o types.Object, before token.Pos, depth int) (bool, string)
	established = func(fd *ast.FuncDecl, o types.Object, before token.Pos, depth int) (bool, string) {
		if clampedIn(fd, o, before) {
			return true, ""
		}
		idx := paramIndex(fd, o)
		if idx < 0 || depth == 0 {
			return false, "canvas." + core.FuncName(fd)
		}
		fobj := info.Defs[fd.Name]
		ncalls := 0
		why := ""
		for cobj, cfd := range decls {
			_ = cobj
			if cfd.Body == nil {
				continue
			}
			ast.Inspect(cfd.Body, func(m ast.Node) bool {
				call, ok := m.(*ast.CallExpr)
				if !ok {
					return true
				}
				if f := core.CalleeOf(info, call); f == nil || types.Object(f) != fobj || len(call.Args) <= idx {
					return true
				}
				ncalls++
				aid, ok := core.Unparen(call.Args[idx]).(*ast.Ident)
				if !ok {
					if f, isConst := constantFloat(core.ConstVal(info, call.Args[idx])); isConst && f > 0 {
						return true
					}
					why = "canvas." + core.FuncName(cfd) + " passes `" + c.Src(call.Args[idx]) + "`"
					return true
				}
				if ok2, w := established(cfd, core.ObjOf(info, aid), call.Pos(), depth-1); !ok2 {
					why = w + " (reached through canvas." + core.FuncName(cfd) + ")"
				}
				return true
			})
		}
		if ncalls == 0 {
			return false, "canvas." + core.FuncName(fd) + " has no caller that clamps it"
		}
		return why == "", why
	}
	n := 0
	for _, fd := range core.AllFuncDecls(p) {
		if fd.Body == nil || strings.HasSuffix(c.Fset.Position(fd.Pos()).Filename, "_test.go") {
			continue
		}
		fname := "canvas." + core.FuncName(fd)
		ord := 0
		// (b) counted loops `for i := 0; i < int(N); i++` whose bound N is a float local that derives, through
		// locals, from a float parameter under Sqrt/Cbrt/Acos: a zero parameter makes N infinite
		ast.Inspect(fd.Body, func(m ast.Node) bool {
			loop, ok := m.(*ast.ForStmt)
			if !ok || loop.Cond == nil || loop.Init == nil || loop.Post == nil {
				return true
			}
			be, ok := core.Unparen(loop.Cond).(*ast.BinaryExpr)
			if !ok || be.Op != token.LSS {
				return true
			}
			var bound types.Object
			ast.Inspect(be.Y, func(k ast.Node) bool {
				if id, ok := k.(*ast.Ident); ok {
					if o := core.ObjOf(info, id); o != nil {
						if b, ok := o.Type().Underlying().(*types.Basic); ok && b.Kind() == types.Float64 && paramIndex(fd, o) < 0 {
							bound = o
						}
					}
				}
				return true
			})
			if bound == nil {
				return true
			}
			// transitive definitions of bound
			deps := map[types.Object]bool{}
			seen := map[types.Object]bool{}
			var follow func(o types.Object)
			follow = func(o types.Object) {
				if seen[o] {
					return
				}
				seen[o] = true
				ast.Inspect(fd.Body, func(k ast.Node) bool {
					as, ok := k.(*ast.AssignStmt)
					if !ok || len(as.Lhs) != len(as.Rhs) || as.Pos() > loop.Pos() {
						return true
					}
					for i, l := range as.Lhs {
						if lid, ok := l.(*ast.Ident); ok && core.ObjOf(info, lid) == o {
							ast.Inspect(as.Rhs[i], func(q ast.Node) bool {
								call, isCall := q.(*ast.CallExpr)
								if isCall && (core.IsPkgFunc(info, call, "math", "Sqrt") || core.IsPkgFunc(info, call, "math", "Cbrt") || core.IsPkgFunc(info, call, "math", "Acos")) {
									ast.Inspect(call, func(z ast.Node) bool {
										if zid, ok := z.(*ast.Ident); ok {
											if zo := core.ObjOf(info, zid); zo != nil && paramIndex(fd, zo) >= 0 {
												if b, ok := zo.Type().Underlying().(*types.Basic); ok && b.Kind() == types.Float64 {
													deps[zo] = true
												}
											}
										}
										return true
									})
								}
								if qid, ok := q.(*ast.Ident); ok {
									if qo := core.ObjOf(info, qid); qo != nil && qo != o {
										if _, isVar := qo.(*types.Var); isVar && paramIndex(fd, qo) < 0 && qo.Pos() > fd.Pos() && qo.Pos() < fd.End() {
											follow(qo)
										}
									}
								}
								return true
							})
						}
					}
					return true
				})
			}
			follow(bound)
			for o := range deps {
				// only parameters that can make the bound infinite: those that appear as a difference/ratio with a radius are
				// not told apart here; the tolerance is the one that is clamped by its siblings
				if !strings.Contains(strings.ToLower(o.Name()), "toler") && !strings.Contains(strings.ToLower(o.Name()), "flat") {
					continue
				}
				n++
				ord++
				key := fmt.Sprintf("%s|counted loop #%d bounded through parameter %d, which has a positive lower bound", fname, ord, paramIndex(fd, o))
				if ok, why := established(fd, o, loop.Pos(), 2); ok {
					r.OK("E4.step-progress", key, c.Pos(loop.Pos()), "")
				} else {
					r.Fail("E4.step-progress", key, c.Pos(loop.Pos()), fmt.Sprintf("the number of iterations of this loop is computed from the parameter `%s` under a root or arc cosine and that parameter is not clamped to a positive value before: %s; a zero value makes the count infinite (converted to int: nothing, or everything)", o.Name(), why))
				}
			}
			return true
		})
		ast.Inspect(fd.Body, func(m ast.Node) bool {
			loop, ok := m.(*ast.ForStmt)
			if !ok || loop.Cond == nil || loop.Init != nil || loop.Post != nil {
				return true
			}
			be, ok := core.Unparen(loop.Cond).(*ast.BinaryExpr)
			if !ok || be.Op != token.LSS {
				return true
			}
			tid, ok := core.Unparen(be.X).(*ast.Ident)
			if !ok {
				return true
			}
			if f, ok := constantFloat(core.ConstVal(info, be.Y)); !ok || f != 1 {
				return true
			}
			tobj := core.ObjOf(info, tid)
			// parameters the step depends on: float params mentioned in an assignment to t (or to a
			// local that flows into t) under Sqrt/Cbrt
			deps := map[types.Object]bool{}
			ast.Inspect(loop.Body, func(k ast.Node) bool {
				call, ok := k.(*ast.CallExpr)
				if !ok || !(core.IsPkgFunc(info, call, "math", "Sqrt") || core.IsPkgFunc(info, call, "math", "Cbrt")) {
					return true
				}
				ast.Inspect(call, func(q ast.Node) bool {
					if id, ok := q.(*ast.Ident); ok {
						if o := core.ObjOf(info, id); o != nil && paramIndex(fd, o) >= 0 {
							if b, ok := o.Type().Underlying().(*types.Basic); ok && b.Kind() == types.Float64 {
								deps[o] = true
							}
						}
					}
					return true
				})
				return true
			})
			assignsT := false
			ast.Inspect(loop.Body, func(k ast.Node) bool {
				if as, ok := k.(*ast.AssignStmt); ok {
					for _, l := range as.Lhs {
						if id, ok := l.(*ast.Ident); ok && core.ObjOf(info, id) == tobj {
							assignsT = true
						}
					}
				}
				return true
			})
			if !assignsT || len(deps) == 0 {
				return true
			}
			for o := range deps {
				n++
				ord++
				key := fmt.Sprintf("%s|step loop #%d: parameter %d has a positive lower bound", fname, ord, paramIndex(fd, o))
				if ok, why := established(fd, o, loop.Pos(), 2); ok {
					r.OK("E4.step-progress", key, c.Pos(loop.Pos()), "")
				} else {
					r.Fail("E4.step-progress", key, c.Pos(loop.Pos()), fmt.Sprintf("the step of this loop is computed from the parameter `%s`, which is not clamped to a positive value before the loop: %s; with a zero value the loop never advances", o.Name(), why))
				}
			}
			return true
		})
	}
	r.Count("E4.step-loops", n)
	r.Floor("E4.step-loops", 2)
}

// E4AlphaDivision: un-premultiplying a colour tests its alpha first.
func E4AlphaDivision(c *core.Ctx, r *core.Report) {
	r.Rule("E4.alpha-division", "package canvas and the PDF, PostScript and SVG writers: colours are stored premultiplied, and every writer that needs plain components divides by the alpha. A division whose divisor is a colour's alpha — a local defined from a field `A` of a colour (`float64(c.A)/255.0`) or the fourth result of `RGBA()` — is preceded in its function by a test of that alpha against zero (`c.A == 0`, `a == 0`, `a != 0`, `0 < a`). CSSColor and the PostScript writer have the test; the PDF writer had not, and a fully transparent gradient stop or text colour put `NaN` tokens into the file")
	n := 0
	for _, rel := range []string{"", "renderers/pdf", "renderers/ps", "renderers/svg"} {
		p := c.MustPkg(rel)
		info := p.TypesInfo
		for _, fd := range core.AllFuncDecls(p) {
			if fd.Body == nil || strings.HasSuffix(c.Fset.Position(fd.Pos()).Filename, "_test.go") {
				continue
			}
			fname := p.Types.Name() + "." + core.FuncName(fd)
			// alpha locals: defined from an expression that selects field A, or 4th result of a call to RGBA
			alpha := map[types.Object]string{} // object -> source colour expression (for the zero test)
			ast.Inspect(fd.Body, func(m ast.Node) bool {
				as, ok := m.(*ast.AssignStmt)
				if !ok {
					return true
				}
				if len(as.Lhs) == 4 && len(as.Rhs) == 1 {
					if call, ok := as.Rhs[0].(*ast.CallExpr); ok {
						if se, ok := call.Fun.(*ast.SelectorExpr); ok && se.Sel.Name == "RGBA" {
							if id, ok := as.Lhs[3].(*ast.Ident); ok && id.Name != "_" {
								alpha[core.ObjOf(info, id)] = ""
							}
						}
					}
					return true
				}
				if len(as.Lhs) != len(as.Rhs) {
					return true
				}
				for i, l := range as.Lhs {
					id, ok := l.(*ast.Ident)
					if !ok {
						continue
					}
					ast.Inspect(as.Rhs[i], func(k ast.Node) bool {
						if se, ok := k.(*ast.SelectorExpr); ok && se.Sel.Name == "A" {
							if t := info.TypeOf(se.X); t != nil && (strings.HasSuffix(t.String(), "color.RGBA") || strings.HasSuffix(t.String(), "color.NRGBA")) {
								alpha[core.ObjOf(info, id)] = types.ExprString(se)
							}
						}
						return true
					})
				}
				return true
			})
			if len(alpha) == 0 {
				continue
			}
			done := map[types.Object]bool{}
			ast.Inspect(fd.Body, func(m ast.Node) bool {
				be, ok := m.(*ast.BinaryExpr)
				if !ok || be.Op != token.QUO {
					return true
				}
				id, ok := core.Unparen(be.Y).(*ast.Ident)
				if !ok {
					return true
				}
				o := core.ObjOf(info, id)
				src, isAlpha := alpha[o]
				if !isAlpha || done[o] {
					return true
				}
				done[o] = true
				n++
				key := fmt.Sprintf("%s|division by the alpha `%s` is preceded by a zero test", fname, id.Name)
				tested := false
				ast.Inspect(fd.Body, func(k ast.Node) bool {
					is, ok := k.(*ast.IfStmt)
					if !ok || is.Pos() > be.Pos() {
						return true
					}
					ast.Inspect(is.Cond, func(q ast.Node) bool {
						cmp, ok := q.(*ast.BinaryExpr)
						if !ok {
							return true
						}
						switch cmp.Op {
						case token.EQL, token.NEQ, token.LSS, token.GTR, token.LEQ, token.GEQ:
						default:
							return true
						}
						for i, s := range []ast.Expr{cmp.X, cmp.Y} {
							other := []ast.Expr{cmp.Y, cmp.X}[i]
							if f, ok := constantFloat(core.ConstVal(info, other)); !ok || f != 0 {
								continue
							}
							s = core.Unparen(s)
							if sid, ok := s.(*ast.Ident); ok && core.ObjOf(info, sid) == o {
								tested = true
							}
							if src != "" && types.ExprString(s) == src {
								tested = true
							}
						}
						return true
					})
					return true
				})
				if tested {
					r.OK("E4.alpha-division", key, c.Pos(be.Pos()), "")
				} else {
					r.Fail("E4.alpha-division", key, c.Pos(be.Pos()), fmt.Sprintf("`%s` divides by the colour's alpha without a preceding test against zero: a fully transparent colour gives 0/0 = NaN (or an integer division by zero)", c.Src(be)))
				}
				return true
			})
		}
	}
	r.Count("E4.alpha-divisions", n)
	r.Floor("E4.alpha-divisions", 3)
}

// E4WorklistBound: a work-list loop that feeds its own queue has an explicit bound.
func E4WorklistBound(c *core.Ctx, r *core.Report) {
	r.Rule("E4.worklist-bound", "bentleyOttmann: the sweep runs `for 0 < len(*queue)` and pushes new events onto that same queue from inside the loop (split segments after snapping, intersections found in the current column, re-entering the column with `goto`). Whether the queue ever drains is then a numerical question — every split must move work strictly to the right — that no syntactic argument settles; the loop is accepted only if it also carries an explicit bound (a counter, declared outside, that is incremented in the body and tested to leave the loop). Without one, inputs whose intersections keep snapping into new columns make Or/And/Settle spin and allocate without end")
	p := c.MustPkg("")
	info := p.TypesInfo
	fd := core.MustFuncDecl(p, "bentleyOttmann")
	r.Func("canvas.bentleyOttmann")
	n := 0
	var outer []*ast.ForStmt
	ast.Inspect(fd.Body, func(m ast.Node) bool {
		loop, ok := m.(*ast.ForStmt)
		if !ok || loop.Cond == nil || loop.Init != nil {
			return true
		}
		for _, o := range outer {
			if o.Pos() < loop.Pos() && loop.End() <= o.End() {
				return true // rounds of an inner loop are rounds of the work-list loop around it
			}
		}
		// condition mentions len(*Q) or len(Q)
		var q types.Object
		ast.Inspect(loop.Cond, func(k ast.Node) bool {
			call, ok := k.(*ast.CallExpr)
			if !ok || len(call.Args) != 1 {
				return true
			}
			if f, ok := call.Fun.(*ast.Ident); !ok || f.Name != "len" {
				return true
			}
			if id := core.RootIdent(call.Args[0]); id != nil {
				if st, ok := call.Args[0].(*ast.StarExpr); ok {
					if xid, ok := st.X.(*ast.Ident); ok {
						q = core.ObjOf(info, xid)
					}
				} else if xid, ok := call.Args[0].(*ast.Ident); ok {
					q = core.ObjOf(info, xid)
				}
			}
			return true
		})
		if q == nil {
			return true
		}
		// the body feeds q: q.Push(...) or q passed as an argument to a call
		feeds := 0
		ast.Inspect(loop.Body, func(k ast.Node) bool {
			call, ok := k.(*ast.CallExpr)
			if !ok {
				return true
			}
			if se, ok := call.Fun.(*ast.SelectorExpr); ok && se.Sel.Name == "Push" {
				if id, ok := core.Unparen(se.X).(*ast.Ident); ok && core.ObjOf(info, id) == q {
					feeds++
				}
			}
			for _, a := range call.Args {
				if id, ok := core.Unparen(a).(*ast.Ident); ok && core.ObjOf(info, id) == q {
					if f := core.CalleeOf(info, call); f != nil && f.Pkg() == p.Types {
						feeds++
					}
				}
			}
			return true
		})
		if feeds == 0 {
			return true
		}
		n++
		outer = append(outer, loop)
		key := fmt.Sprintf("canvas.bentleyOttmann|work-list loop #%d over `%s` that feeds its own queue has an explicit bound", n, q.Name())
		// explicit bound: counter declared outside the loop, incremented in the body, compared in a
		// condition whose branch leaves the loop
		bounded := false
		ast.Inspect(loop.Body, func(k ast.Node) bool {
			inc, ok := k.(*ast.IncDecStmt)
			if !ok || inc.Tok != token.INC {
				return true
			}
			id, ok := inc.X.(*ast.Ident)
			if !ok {
				return true
			}
			o := core.ObjOf(info, id)
			if o == nil || (o.Pos() > loop.Pos() && o.Pos() < loop.End()) {
				return true
			}
			ast.Inspect(loop, func(z ast.Node) bool {
				is, ok := z.(*ast.IfStmt)
				if !ok {
					return true
				}
				mentions := false
				ast.Inspect(is.Cond, func(y ast.Node) bool {
					if yid, ok := y.(*ast.Ident); ok && core.ObjOf(info, yid) == o {
						mentions = true
					}
					return true
				})
				if !mentions {
					return true
				}
				for _, st := range is.Body.List {
					switch x := st.(type) {
					case *ast.BranchStmt:
						if x.Tok == token.BREAK {
							bounded = true
						}
					case *ast.ReturnStmt:
						bounded = true
					case *ast.ExprStmt:
						if call, ok := x.X.(*ast.CallExpr); ok {
							if f, ok := call.Fun.(*ast.Ident); ok && f.Name == "panic" {
								bounded = true
							}
						}
					}
				}
				return true
			})
			return true
		})
		if bounded {
			r.OK("E4.worklist-bound", key, c.Pos(loop.Pos()), fmt.Sprintf("%d feeding sites", feeds))
		} else {
			r.Fail("E4.worklist-bound", key, c.Pos(loop.Pos()), fmt.Sprintf("the loop runs until `%s` is empty and pushes onto it at %d sites in its body, with no counter that bounds the number of rounds: termination rests on every new event lying strictly further along the sweep, which snapping does not guarantee", q.Name(), feeds))
		}
		return true
	})
	r.Count("E4.worklist-loops", n)
	r.Floor("E4.worklist-loops", 1)
}

// E4ForcedBreakDeactivates: at a forced break every active node is deactivated.
func E4ForcedBreakDeactivates(c *core.Ctx, r *core.Report) {
	r.Rule("E4.forced-break-deactivates", "linebreaker.mainLoop: no line may span a forced break, so when the item at the candidate position is a penalty of −Infinity every active node is taken off the active list, whatever the adjustment ratio of the line that would end there. Decided over the paths of one iteration of the inner loop with `item.Type == PenaltyType` and `item.Penalty <= -Infinity` taken as true and every test of the ratio left open: each path calls Remove on the active list. A deactivation nested under a feasibility test leaves a node with a too loose line active; it then becomes the parent of a later break and the returned breaking skips the forced one")
	p := c.MustPkg("text")
	info := p.TypesInfo
	fd := core.MustFuncDecl(p, "linebreaker.mainLoop")
	r.Func("text.linebreaker.mainLoop")
	// innermost for loop that contains a call to computeAdjustmentRatio
	var loop *ast.ForStmt
	ast.Inspect(fd.Body, func(m ast.Node) bool {
		f, ok := m.(*ast.ForStmt)
		if !ok {
			return true
		}
		has := false
		for _, st := range f.Body.List {
			ast.Inspect(st, func(k ast.Node) bool {
				if _, isFor := k.(*ast.ForStmt); isFor {
					return false
				}
				if call, ok := k.(*ast.CallExpr); ok {
					if cf := core.CalleeOf(info, call); cf != nil && cf.Name() == "computeAdjustmentRatio" {
						has = true
					}
				}
				return true
			})
		}
		if has {
			loop = f
		}
		return true
	})
	key := "text.linebreaker.mainLoop|every active node is removed at a forced break"
	if loop == nil {
		r.Fail("E4.forced-break-deactivates", key, c.Pos(fd.Pos()), "the loop over the active nodes was not found")
		return
	}
	env := forcedBreakEnv(info)
	removes := func(st ast.Stmt) bool {
		found := false
		ast.Inspect(st, func(k ast.Node) bool {
			if call, ok := k.(*ast.CallExpr); ok {
				if se, ok := call.Fun.(*ast.SelectorExpr); ok && se.Sel.Name == "Remove" && strings.HasSuffix(types.ExprString(se.X), "activeNodes") {
					found = true
				}
			}
			return true
		})
		return found
	}
	bad := ""
	var walk func(stmts []ast.Stmt, done bool, conds []string, k func(bool, []string))
	walk = func(stmts []ast.Stmt, done bool, conds []string, k func(bool, []string)) {
		if bad != "" {
			return
		}
		if len(stmts) == 0 {
			k(done, conds)
			return
		}
		st, rest := stmts[0], stmts[1:]
		next := func(d bool, cs []string) { walk(rest, d, cs, k) }
		switch x := st.(type) {
		case *ast.BranchStmt, *ast.ReturnStmt:
			if !done {
				bad = strings.Join(conds, " && ")
			}
			return
		case *ast.BlockStmt:
			walk(x.List, done, conds, next)
			return
		case *ast.IfStmt:
			v := evalBool(info, x.Cond, env)
			if v != tFalse {
				walk(x.Body.List, done, append(append([]string{}, conds...), c.Src(x.Cond)), next)
			}
			if v != tTrue {
				cs := append(append([]string{}, conds...), "!("+c.Src(x.Cond)+")")
				switch e := x.Else.(type) {
				case nil:
					next(done, cs)
				case *ast.BlockStmt:
					walk(e.List, done, cs, next)
				case *ast.IfStmt:
					walk([]ast.Stmt{e}, done, cs, next)
				}
			}
			return
		}
		if _, isIf := st.(*ast.IfStmt); !isIf && removes(st) {
			done = true
		}
		walk(rest, done, conds, k)
	}
	walk(loop.Body.List, false, nil, func(done bool, cs []string) {
		if !done && bad == "" {
			bad = strings.Join(cs, " && ")
		}
	})
	if bad == "" {
		r.OK("E4.forced-break-deactivates", key, c.Pos(loop.Pos()), "")
	} else {
		r.Fail("E4.forced-break-deactivates", key, c.Pos(loop.Pos()), "at a forced break an active node can take the path `"+bad+"` on which it is not removed from the active list: it stays a candidate parent for breaks beyond the forced one")
	}
	r.Count("E4.forced-break-loops", 1)
	r.Floor("E4.forced-break-loops", 1)
}

// E4NilBranchDeref: a pointer is not dereferenced in the branch taken when it is nil.
func E4NilBranchDeref(c *core.Ctx, r *core.Report) {
	r.Rule("E4.nil-branch-deref", "package canvas (contradiction rule): where an `if` condition has `X == nil` as the whole condition or as a disjunct (`X == nil || …`), the branch can be entered with X nil, so its body does not read a field of X or dereference it before X is assigned. The check `q == nil || len(q.d) < n` followed by `q.d = …` states a belief (q may be nil) that the next line contradicts: Path.CopyTo(nil) panicked")
	p := c.MustPkg("")
	info := p.TypesInfo
	n := 0
	for _, fd := range core.AllFuncDecls(p) {
		if fd.Body == nil || strings.HasSuffix(c.Fset.Position(fd.Pos()).Filename, "_test.go") {
			continue
		}
		fname := "canvas." + core.FuncName(fd)
		ord := 0
		ast.Inspect(fd.Body, func(m ast.Node) bool {
			is, ok := m.(*ast.IfStmt)
			if !ok {
				return true
			}
			// disjuncts
			var disj []ast.Expr
			var split func(e ast.Expr)
			split = func(e ast.Expr) {
				e = core.Unparen(e)
				if be, ok := e.(*ast.BinaryExpr); ok && be.Op == token.LOR {
					split(be.X)
					split(be.Y)
					return
				}
				disj = append(disj, e)
			}
			split(is.Cond)
			for _, d := range disj {
				be, ok := d.(*ast.BinaryExpr)
				if !ok || be.Op != token.EQL {
					continue
				}
				var x ast.Expr
				if id, ok := core.Unparen(be.Y).(*ast.Ident); ok && id.Name == "nil" {
					x = be.X
				} else if id, ok := core.Unparen(be.X).(*ast.Ident); ok && id.Name == "nil" {
					x = be.Y
				}
				xid, ok := core.Unparen(x).(*ast.Ident)
				if !ok || x == nil {
					continue
				}
				o := core.ObjOf(info, xid)
				if o == nil {
					continue
				}
				if _, isPtr := o.Type().Underlying().(*types.Pointer); !isPtr {
					continue
				}
				n++
				ord++
				key := fmt.Sprintf("%s|nil test #%d of `%s`: not dereferenced in the nil branch", fname, ord, xid.Name)
				// walk the body statements in order until X is assigned
				bad := token.NoPos
				assigned := false
				for _, st := range is.Body.List {
					if assigned || bad != token.NoPos {
						break
					}
					ast.Inspect(st, func(k ast.Node) bool {
						if assigned || bad != token.NoPos {
							return false
						}
						switch y := k.(type) {
						case *ast.FuncLit:
							return false
						case *ast.AssignStmt:
							// RHS first
							for _, rh := range y.Rhs {
								ast.Inspect(rh, func(q ast.Node) bool {
									if se, ok := q.(*ast.SelectorExpr); ok {
										if id, ok := core.Unparen(se.X).(*ast.Ident); ok && core.ObjOf(info, id) == o {
											if s := info.Selections[se]; s != nil && s.Kind() == types.FieldVal {
												bad = se.Pos()
											}
										}
									}
									return true
								})
							}
							for _, l := range y.Lhs {
								if id, ok := l.(*ast.Ident); ok && core.ObjOf(info, id) == o {
									assigned = true
									return false
								}
								if se, ok := core.Unparen(l).(*ast.SelectorExpr); ok {
									if id, ok := core.Unparen(se.X).(*ast.Ident); ok && core.ObjOf(info, id) == o && bad == token.NoPos {
										bad = se.Pos()
									}
								}
							}
							return false
						case *ast.SelectorExpr:
							if id, ok := core.Unparen(y.X).(*ast.Ident); ok && core.ObjOf(info, id) == o {
								if s := info.Selections[y]; s != nil && s.Kind() == types.FieldVal {
									bad = y.Pos()
								}
							}
						case *ast.StarExpr:
							if id, ok := core.Unparen(y.X).(*ast.Ident); ok && core.ObjOf(info, id) == o {
								bad = y.Pos()
							}
						}
						return true
					})
				}
				if bad != token.NoPos {
					r.Fail("E4.nil-branch-deref", key, c.Pos(bad), fmt.Sprintf("`%s` is dereferenced in the branch guarded by `%s`, which is entered when it is nil", xid.Name, c.Src(is.Cond)))
				} else {
					r.OK("E4.nil-branch-deref", key, c.Pos(is.Pos()), "")
				}
			}
			return true
		})
	}
	r.Count("E4.nil-tests", n)
	r.Floor("E4.nil-tests", 12)
}

// E4RadiiNonzero: the radii handed to ellipseRadiiCorrection are tested against zero first.
func E4RadiiNonzero(c *core.Ctx, r *core.Report) {
	r.Rule("E4.radii-nonzero", "ellipseRadiiCorrection divides by both radii. Every call therefore passes radii for which the function has tested `Equal(R, 0.0)` (or compared R with zero) on the very expression it passes: either the call sits under the negated test, or an earlier statement leaves the function when the test holds. ArcTo does; Path.offset passed `rx ∓ w/2` untested, which is zero when the arc's radius equals half the stroke width: the factor came back +Inf, defeated the 'radii are large enough' test and the outer offset arc was shrunk")
	p := c.MustPkg("")
	info := p.TypesInfo
	n := 0
	for _, fd := range core.AllFuncDecls(p) {
		if fd.Body == nil || strings.HasSuffix(c.Fset.Position(fd.Pos()).Filename, "_test.go") {
			continue
		}
		fname := "canvas." + core.FuncName(fd)
		ord := 0
		var stack []ast.Node
		ast.Inspect(fd.Body, func(m ast.Node) bool {
			if m == nil {
				stack = stack[:len(stack)-1]
				return true
			}
			stack = append(stack, m)
			call, ok := m.(*ast.CallExpr)
			if !ok {
				return true
			}
			f := core.CalleeOf(info, call)
			if f == nil || f.Name() != "ellipseRadiiCorrection" || f.Pkg() != p.Types || len(call.Args) < 3 {
				return true
			}
			ord++
			for k := 1; k <= 2; k++ {
				n++
				arg := squash(types.ExprString(core.Unparen(call.Args[k])))
				key := fmt.Sprintf("%s|radii correction #%d: radius argument %d is tested against zero", fname, ord, k)
				zeroTest := func(cond ast.Expr) (mentions bool, negated bool) {
					ast.Inspect(cond, func(q ast.Node) bool {
						switch x := q.(type) {
						case *ast.UnaryExpr:
							if x.Op == token.NOT {
								if ce, ok := core.Unparen(x.X).(*ast.CallExpr); ok && len(ce.Args) == 2 {
									if cf := core.CalleeOf(info, ce); cf != nil && cf.Name() == "Equal" && squash(types.ExprString(core.Unparen(ce.Args[0]))) == arg {
										if v, ok := constantFloat(core.ConstVal(info, ce.Args[1])); ok && v == 0 {
											mentions, negated = true, true
										}
									}
								}
							}
						case *ast.CallExpr:
							if len(x.Args) == 2 {
								if cf := core.CalleeOf(info, x); cf != nil && cf.Name() == "Equal" && squash(types.ExprString(core.Unparen(x.Args[0]))) == arg {
									if v, ok := constantFloat(core.ConstVal(info, x.Args[1])); ok && v == 0 {
										mentions = true
									}
								}
							}
						}
						return true
					})
					return
				}
				ok := false
				// (a) enclosing if with a negated zero test
				for i := len(stack) - 2; i >= 0; i-- {
					if is, isIf := stack[i].(*ast.IfStmt); isIf && is.Body.Pos() <= call.Pos() && call.End() <= is.Body.End() {
						if m2, neg := zeroTest(is.Cond); m2 && neg {
							ok = true
						}
					}
				}
				// (b) an earlier early exit on the positive zero test (top-level statements of the function)
				for _, st := range fd.Body.List {
					if st.Pos() > call.Pos() {
						break
					}
					if is, isIf := st.(*ast.IfStmt); isIf {
						if m2, _ := zeroTest(is.Cond); m2 && len(is.Body.List) > 0 {
							if _, isRet := is.Body.List[len(is.Body.List)-1].(*ast.ReturnStmt); isRet {
								ok = true
							}
						}
					}
				}
				if ok {
					r.OK("E4.radii-nonzero", key, c.Pos(call.Pos()), "")
				} else {
					r.Fail("E4.radii-nonzero", key, c.Pos(call.Pos()), fmt.Sprintf("the radius `%s` is passed to ellipseRadiiCorrection, which divides by it, without a test against zero of that expression: for a zero radius the factor is +Inf or NaN", c.Src(call.Args[k])))
				}
			}
			return true
		})
	}
	r.Count("E4.radii-arguments", n)
	r.Floor("E4.radii-arguments", 6)
}

// E4AdditiveLoop: a loop that walks a value towards a bound by adding a variable has a positive step.
func E4AdditiveLoop(c *core.Ctx, r *core.Report) {
	r.Rule("E4.additive-loop", "package canvas and the PDF, PostScript and SVG writers: a loop of the form `for x < K { x += s }` (or `for K < x { x -= s }`) whose body does nothing else to x terminates only if the step s is positive. Where s is a variable, the loop sits under a condition that establishes `0 < s` (or `s > 0`, `s != 0` for an accumulated sum of non-negative terms is not enough), or s is a positive constant. The PDF writer made a negative dash phase positive by adding the pattern length, which is zero for a solid stroke: drawing with SetDashes(-1) never returned")
	n := 0
	for _, rel := range []string{"", "renderers/pdf", "renderers/ps", "renderers/svg"} {
		p := c.MustPkg(rel)
		info := p.TypesInfo
		for _, fd := range core.AllFuncDecls(p) {
			if fd.Body == nil || strings.HasSuffix(c.Fset.Position(fd.Pos()).Filename, "_test.go") {
				continue
			}
			fname := p.Types.Name() + "." + core.FuncName(fd)
			ord := 0
			var stack []ast.Node
			ast.Inspect(fd.Body, func(m ast.Node) bool {
				if m == nil {
					stack = stack[:len(stack)-1]
					return true
				}
				stack = append(stack, m)
				loop, ok := m.(*ast.ForStmt)
				if !ok || loop.Init != nil || loop.Post != nil || loop.Cond == nil || len(loop.Body.List) != 1 {
					return true
				}
				be, ok := core.Unparen(loop.Cond).(*ast.BinaryExpr)
				if !ok || (be.Op != token.LSS && be.Op != token.GTR && be.Op != token.LEQ && be.Op != token.GEQ) {
					return true
				}
				as, ok := loop.Body.List[0].(*ast.AssignStmt)
				if !ok || (as.Tok != token.ADD_ASSIGN && as.Tok != token.SUB_ASSIGN) || len(as.Lhs) != 1 {
					return true
				}
				xid, ok := as.Lhs[0].(*ast.Ident)
				if !ok {
					return true
				}
				x := core.ObjOf(info, xid)
				mentionsX := false
				ast.Inspect(loop.Cond, func(k ast.Node) bool {
					if id, ok := k.(*ast.Ident); ok && core.ObjOf(info, id) == x {
						mentionsX = true
					}
					return true
				})
				if !mentionsX {
					return true
				}
				n++
				ord++
				key := fmt.Sprintf("%s|additive loop #%d has a positive step", fname, ord)
				step := core.Unparen(as.Rhs[0])
				if f, isConst := constantFloat(core.ConstVal(info, step)); isConst {
					if f > 0 {
						r.OK("E4.additive-loop", key, c.Pos(loop.Pos()), "constant step")
					} else {
						r.Fail("E4.additive-loop", key, c.Pos(loop.Pos()), "the constant step is not positive")
					}
					return true
				}
				stepStr := squash(types.ExprString(step))
				established := false
				for i := len(stack) - 2; i >= 0; i-- {
					is, ok := stack[i].(*ast.IfStmt)
					if !ok || !(is.Body.Pos() <= loop.Pos() && loop.End() <= is.Body.End()) {
						continue
					}
					ast.Inspect(is.Cond, func(k ast.Node) bool {
						cb, ok := k.(*ast.BinaryExpr)
						if !ok {
							return true
						}
						l, rr := squash(types.ExprString(cb.X)), squash(types.ExprString(cb.Y))
						lz, lok := constantFloat(core.ConstVal(info, cb.X))
						rz, rok := constantFloat(core.ConstVal(info, cb.Y))
						if cb.Op == token.LSS && lok && lz >= 0 && rr == stepStr {
							established = true
						}
						if cb.Op == token.GTR && rok && rz >= 0 && l == stepStr {
							established = true
						}
						return true
					})
				}
				if established {
					r.OK("E4.additive-loop", key, c.Pos(loop.Pos()), "")
				} else {
					r.Fail("E4.additive-loop", key, c.Pos(loop.Pos()), fmt.Sprintf("`%s` is repeated until `%s`, but nothing establishes that the step `%s` is positive: with a zero step the loop never ends", c.Src(as), c.Src(loop.Cond), c.Src(step)))
				}
				return true
			})
		}
	}
	r.Count("E4.additive-loops", n)
	r.Floor("E4.additive-loops", 1)
}

// insertAliasSites finds, below n, the expressions `append(append(S[:i], A…), S[j:]...)` whose inner
// append can write over the part of S's backing array that the outer append still has to read.
// S[:i] keeps the capacity of S, so the inner append stores A at S[i], S[i+1], … in place; the tail
// S[j:] is only intact when A has at most j-i elements. The sound forms are a full slice expression
// S[:i:i] (forces a copy), a separately copied tail, or slices.Insert.
func insertAliasSites(info *types.Info, n ast.Node, visit func(outer *ast.CallExpr, ok bool, why string)) {
	isAppend := func(e ast.Expr) *ast.CallExpr {
		call, ok := core.Unparen(e).(*ast.CallExpr)
		if !ok || len(call.Args) < 2 {
			return nil
		}
		id, ok := core.Unparen(call.Fun).(*ast.Ident)
		if !ok {
			return nil
		}
		if b, ok := info.Uses[id].(*types.Builtin); !ok || b.Name() != "append" {
			return nil
		}
		return call
	}
	ast.Inspect(n, func(m ast.Node) bool {
		e, ok := m.(ast.Expr)
		if !ok {
			return true
		}
		outer := isAppend(e)
		if outer == nil || !outer.Ellipsis.IsValid() || len(outer.Args) != 2 {
			return true
		}
		inner := isAppend(outer.Args[0])
		tail, ok := core.Unparen(outer.Args[1]).(*ast.SliceExpr)
		if inner == nil || !ok {
			return true
		}
		base, ok := core.Unparen(inner.Args[0]).(*ast.SliceExpr)
		if !ok || types.ExprString(base.X) != types.ExprString(tail.X) {
			return true
		}
		if _, isSlice := info.TypeOf(base.X).Underlying().(*types.Slice); !isSlice {
			return true
		}
		switch {
		case base.Slice3:
			visit(outer, true, "full slice expression limits the capacity: the inner append copies")
		case base.High == nil:
			visit(outer, true, "the base is the whole slice: the inner append writes past its end")
		case inner.Ellipsis.IsValid():
			visit(outer, false, fmt.Sprintf("the inner append stores the elements of %s in place from %s[%s] on, before the tail %s is read: with more than one element it overwrites the tail", types.ExprString(inner.Args[len(inner.Args)-1]), types.ExprString(base.X), types.ExprString(base.High), types.ExprString(tail)))
		default:
			cnt := len(inner.Args) - 1
			gap, ok := 0, tail.Low != nil
			if ok {
				gap, ok = indexDistance(info, tail.Low, base.High)
			}
			if ok && cnt <= gap {
				visit(outer, true, "")
			} else {
				visit(outer, false, fmt.Sprintf("the inner append stores %d element(s) in place from %s[%s] on, before the tail %s is read", cnt, types.ExprString(base.X), types.ExprString(base.High), types.ExprString(tail)))
			}
		}
		return true
	})
}

// E4InsertAlias: no in-place insertion that overwrites the tail it is about to append.
func E4InsertAlias(c *core.Ctx, r *core.Report, pkgs []string) {
	r.Rule("E4.insert-alias", "no expression `append(append(S[:i], A…), S[j:]...)` may store more than j−i elements through the inner append: S[:i] shares S's backing array and capacity, so the elements of A are written over S[i], S[i+1], … before the outer append reads S[j:]. The result then repeats elements of A and loses elements of S (in the boolean operations: an operand contour is duplicated and another disappears, and nothing panics). Accepted: S[:i:i], a base that is the whole slice, and a fixed number of elements that fits the gap. The recogniser is exercised on a built-in positive example on every run")
	// self-test: the rule's expected count on the tree is zero, so the matcher proves itself first
	{
		src := "package x\nfunc f(s, a []int, i int) []int { return append(append(s[:i], a...), s[i+1:]...) }\nfunc g(s []int, i, v int) []int { return append(append(s[:i], v), s[i+1:]...) }\nfunc h(s, a []int, i int) []int { return append(append(s[:i:i], a...), s[i+1:]...) }\nfunc k(s []int, i, v int) []int { return append(append(s[:i], v, v), s[i+1:]...) }\n"
		fset := token.NewFileSet()
		f, err := parser.ParseFile(fset, "selftest.go", src, 0)
		if err != nil {
			panic(core.Infra("insert-alias self-test does not parse: " + err.Error()))
		}
		info := &types.Info{Types: map[ast.Expr]types.TypeAndValue{}, Uses: map[*ast.Ident]types.Object{}, Defs: map[*ast.Ident]types.Object{}}
		if _, err := (&types.Config{}).Check("x", fset, []*ast.File{f}, info); err != nil {
			panic(core.Infra("insert-alias self-test does not type-check: " + err.Error()))
		}
		got := ""
		for _, d := range f.Decls {
			fd := d.(*ast.FuncDecl)
			insertAliasSites(info, fd, func(_ *ast.CallExpr, ok bool, _ string) {
				got += fd.Name.Name + map[bool]string{true: "+", false: "-"}[ok]
			})
		}
		if got != "f-g+h+k-" {
			panic(core.Infra("insert-alias self-test: recogniser answers " + got + ", want f-g+h+k-"))
		}
		r.Count("E4.insert-alias-selftest", 4)
	}
	funcs := 0
	for _, rel := range pkgs {
		p := c.MustPkg(rel)
		pk := "canvas"
		if rel != "" {
			pk = rel
		}
		for _, fd := range core.AllFuncDecls(p) {
			if strings.HasSuffix(c.Fset.Position(fd.Pos()).Filename, "_test.go") {
				continue
			}
			funcs++
			ord := 0
			insertAliasSites(p.TypesInfo, fd.Body, func(outer *ast.CallExpr, ok bool, why string) {
				ord++
				key := fmt.Sprintf("%s.%s|nested append over one slice #%d", pk, core.FuncName(fd), ord)
				if ok {
					r.OK("E4.insert-alias", key, c.Pos(outer.Pos()), why)
				} else {
					r.Fail("E4.insert-alias", key, c.Pos(outer.Pos()), why)
				}
			})
		}
	}
	r.Count("E4.insert-alias-functions", funcs)
	r.Floor("E4.insert-alias-functions", 500)
	r.Floor("E4.insert-alias-selftest", 4)
}

// E4ZeroGuardIsDivisor: a zero test that guards a division tests the divisor.
func E4ZeroGuardIsDivisor(c *core.Ctx, r *core.Report, rel string) {
	r.Rule("E4.zero-guard-is-divisor", "package text: when a statement list tests `E == 0` and leaves (return) before a later statement of the same list divides by D, and E and D are built from a common variable, the test is the guard of that division and E is D — compared as polynomials over the variables and field selections they mention. In computeAdjustmentRatio the guard `lb.Y-active.Y == 0` marks the line that cannot stretch, the divisor of the ratio; testing `lb.Y == 0` (no stretch since the beginning of the paragraph) lets a glue-less line after any earlier glue divide by zero: its ratio is +Inf clipped to the same value whatever its slack, all such lines rate equal and the breaker returns a non-optimal division")
	p := c.MustPkg(rel)
	info := p.TypesInfo
	n := 0
	sym := func(e ast.Expr) string {
		switch x := e.(type) {
		case *ast.Ident:
			if _, ok := core.ObjOf(info, x).(*types.Var); ok {
				return x.Name
			}
		case *ast.SelectorExpr:
			if _, ok := info.Selections[x]; ok {
				return types.ExprString(x)
			}
		}
		return ""
	}
	vars := func(e ast.Expr) map[string]bool {
		out := map[string]bool{}
		ast.Inspect(e, func(m ast.Node) bool {
			switch x := m.(type) {
			case *ast.SelectorExpr:
				if s := sym(x); s != "" {
					out[s] = true
					return false
				}
			case *ast.Ident:
				if s := sym(x); s != "" {
					out[s] = true
				}
			}
			return true
		})
		return out
	}
	for _, fd := range core.AllFuncDecls(p) {
		if strings.HasSuffix(c.Fset.Position(fd.Pos()).Filename, "_test.go") {
			continue
		}
		fname := rel + "." + core.FuncName(fd)
		ord := 0
		ast.Inspect(fd.Body, func(m ast.Node) bool {
			b, ok := m.(*ast.BlockStmt)
			if !ok {
				return true
			}
			for i, st := range b.List {
				is, ok := st.(*ast.IfStmt)
				if !ok || len(is.Body.List) == 0 {
					continue
				}
				if _, ok := is.Body.List[len(is.Body.List)-1].(*ast.ReturnStmt); !ok {
					continue
				}
				be, ok := core.Unparen(is.Cond).(*ast.BinaryExpr)
				if !ok || be.Op != token.EQL {
					continue
				}
				var E ast.Expr
				isZero := func(e ast.Expr) bool {
					tv, ok := info.Types[e]
					if !ok || tv.Value == nil {
						return false
					}
					switch tv.Value.Kind() {
					case constant.Int, constant.Float:
						return numSign(tv.Value) == 0
					}
					return false
				}
				if isZero(be.Y) {
					E = be.X
				} else if isZero(be.X) {
					E = be.Y
				}
				if E == nil {
					continue
				}
				if bt, ok := info.TypeOf(E).Underlying().(*types.Basic); !ok || bt.Info()&types.IsFloat == 0 {
					continue
				}
				ev := vars(E)
				// the first later division of the list whose divisor shares a variable with E
				for _, later := range b.List[i+1:] {
					var div *ast.BinaryExpr
					ast.Inspect(later, func(k ast.Node) bool {
						q, ok := k.(*ast.BinaryExpr)
						if !ok || q.Op != token.QUO || div != nil {
							return true
						}
						if tv, ok := info.Types[q.Y]; ok && tv.Value != nil {
							return true
						}
						for v := range vars(q.Y) {
							if ev[v] {
								div = q
							}
						}
						return true
					})
					if div == nil {
						continue
					}
					ord++
					n++
					key := fmt.Sprintf("%s|zero test guarding a division #%d", fname, ord)
					pe, ok1 := polyOf(info, E, sym, nil)
					pd, ok2 := polyOf(info, div.Y, sym, nil)
					same := types.ExprString(E) == types.ExprString(div.Y)
					if ok1 && ok2 {
						same = polyEqual(pe, pd)
					}
					if same {
						r.OK("E4.zero-guard-is-divisor", key, c.Pos(is.Pos()), types.ExprString(E))
					} else {
						r.Fail("E4.zero-guard-is-divisor", key, c.Pos(is.Pos()), fmt.Sprintf("the test `%s == 0` leaves before the division by `%s`, but it is not the divisor that is tested: the division can still be by zero (an infinite or NaN result the caller clips to a constant), and the special case is taken for the wrong inputs", types.ExprString(E), types.ExprString(div.Y)))
					}
					break
				}
			}
			return true
		})
	}
	r.Count("E4.zero-guards", n)
	r.Floor("E4.zero-guards", 1)
}

// forcedBreakEnv decides the atoms of a condition for an item that is a forced break (a penalty of
// −Infinity): `X.Type == PenaltyType`, comparisons of `X.Penalty` with −Infinity and with constants.
func forcedBreakEnv(info *types.Info) func(ast.Expr) tri {
	return func(e ast.Expr) tri {
		be, ok := e.(*ast.BinaryExpr)
		if !ok {
			return tUnknown
		}
		x, y := squash(types.ExprString(be.X)), squash(types.ExprString(be.Y))
		isPen := func(s string) bool { return strings.HasSuffix(s, ".Penalty") }
		isNegInf := func(s string) bool { return s == "-Infinity" }
		switch be.Op {
		case token.EQL, token.NEQ:
			if (strings.HasSuffix(x, ".Type") && y == "PenaltyType") || (strings.HasSuffix(y, ".Type") && x == "PenaltyType") {
				return triOf(be.Op == token.EQL)
			}
			if (strings.HasSuffix(x, ".Type") && (y == "BoxType" || y == "GlueType")) || (strings.HasSuffix(y, ".Type") && (x == "BoxType" || x == "GlueType")) {
				return triOf(be.Op == token.NEQ)
			}
		case token.LEQ:
			if isPen(x) && isNegInf(y) {
				return tTrue
			}
			if isPen(y) { // K <= item.Penalty with K >= 0 or K == -Infinity
				if isNegInf(x) {
					return tTrue
				}
				if f, ok := constantFloat(core.ConstVal(info, be.X)); ok && f >= 0 {
					return tFalse
				}
			}
		case token.LSS:
			if isNegInf(x) && isPen(y) {
				return tFalse
			}
			if isPen(x) && isNegInf(y) {
				return tFalse
			}
		case token.GEQ:
			if isNegInf(x) && isPen(y) {
				return tTrue
			}
		}
		return tUnknown
	}
}

// E4ForcedBreakForgets: after a forced break no earlier node can be re-activated.
func E4ForcedBreakForgets(c *core.Ctx, r *core.Report) {
	r.Rule("E4.forced-break-forgets", "Linebreak keeps the nodes that left the active list so that, when a line cannot fit at all, the least overfull of them can be re-activated as the parent of an emergency break. No line may span a forced break, so once the item loop has passed a penalty of −Infinity none of the nodes deactivated so far may ever be chosen again: every path through one iteration of the item loop, taken with the item a forced break, resets the list of inactive nodes before the iteration ends. Otherwise an empty line before the forced break leaves two candidates with equal overflow, the earlier one has fewer demerits and wins, and the returned breaking skips the forced break")
	p := c.MustPkg("text")
	info := p.TypesInfo
	fd := core.MustFuncDecl(p, "Linebreak")
	r.Func("text.Linebreak")
	key := "text.Linebreak|inactive nodes are dropped when the item loop passes a forced break"
	var loop *ast.RangeStmt
	ast.Inspect(fd.Body, func(m ast.Node) bool {
		rs, ok := m.(*ast.RangeStmt)
		if !ok || loop != nil {
			return true
		}
		has := false
		ast.Inspect(rs.Body, func(k ast.Node) bool {
			if call, ok := k.(*ast.CallExpr); ok {
				if cf := core.CalleeOf(info, call); cf != nil && cf.Name() == "mainLoop" {
					has = true
				}
			}
			return true
		})
		if has {
			loop = rs
		}
		return true
	})
	if loop == nil {
		r.Fail("E4.forced-break-forgets", key, c.Pos(fd.Pos()), "the item loop that calls mainLoop was not found")
		return
	}
	env := forcedBreakEnv(info)
	resets := func(st ast.Stmt) bool {
		found := false
		ast.Inspect(st, func(k ast.Node) bool {
			switch x := k.(type) {
			case *ast.AssignStmt:
				for _, l := range x.Lhs {
					if se, ok := l.(*ast.SelectorExpr); ok && se.Sel.Name == "inactiveNodes" {
						found = true
					}
				}
			case *ast.CallExpr:
				if se, ok := x.Fun.(*ast.SelectorExpr); ok && (se.Sel.Name == "Clear" || se.Sel.Name == "Reset") && strings.HasSuffix(types.ExprString(se.X), "inactiveNodes") {
					found = true
				}
			}
			return true
		})
		return found
	}
	bad := ""
	var walk func(stmts []ast.Stmt, done bool, conds []string, k func(bool, []string))
	walk = func(stmts []ast.Stmt, done bool, conds []string, k func(bool, []string)) {
		if bad != "" {
			return
		}
		if len(stmts) == 0 {
			k(done, conds)
			return
		}
		st, rest := stmts[0], stmts[1:]
		next := func(d bool, cs []string) { walk(rest, d, cs, k) }
		switch x := st.(type) {
		case *ast.ReturnStmt:
			return
		case *ast.BranchStmt:
			if x.Tok == token.GOTO || x.Tok == token.BREAK {
				return // the search starts over or ends: the list is rebuilt or not used again
			}
			if !done {
				bad = strings.Join(conds, " && ")
			}
			return
		case *ast.BlockStmt:
			walk(x.List, done, conds, next)
			return
		case *ast.ForStmt, *ast.RangeStmt:
			// inner loops do not end the iteration; a reset inside one is not relied upon
			walk(rest, done, conds, k)
			return
		case *ast.IfStmt:
			v := evalBool(info, x.Cond, env)
			if v != tFalse {
				walk(x.Body.List, done, append(append([]string{}, conds...), c.Src(x.Cond)), next)
			}
			if v != tTrue {
				cs := append(append([]string{}, conds...), "!("+c.Src(x.Cond)+")")
				switch e := x.Else.(type) {
				case nil:
					next(done, cs)
				case *ast.BlockStmt:
					walk(e.List, done, cs, next)
				case *ast.IfStmt:
					walk([]ast.Stmt{e}, done, cs, next)
				}
			}
			return
		}
		if resets(st) {
			done = true
		}
		walk(rest, done, conds, k)
	}
	walk(loop.Body.List, false, nil, func(done bool, cs []string) {
		if !done && bad == "" {
			bad = strings.Join(cs, " && ")
		}
	})
	if bad == "" {
		r.OK("E4.forced-break-forgets", key, c.Pos(loop.Pos()), "")
	} else {
		r.Fail("E4.forced-break-forgets", key, c.Pos(loop.Pos()), "with a forced break as the item, the iteration can end on the path `"+bad+"` without resetting the inactive nodes: a node from before the forced break can later be re-activated and the breaking then skips the forced break")
	}
	r.Count("E4.forced-break-item-loops", 1)
	r.Floor("E4.forced-break-item-loops", 1)
}

// E4RunningTotalsFixed: the running totals of the line breaker do not change while a breakpoint is examined.
func E4RunningTotalsFixed(c *core.Ctx, r *core.Report) {
	r.Rule("E4.running-totals-fixed", "Knuth–Plass keeps running totals of width, stretch and shrink (the numeric fields of the line breaker that the item loop advances with `+=`); a node stores the totals as they stand after the break and a line's measure is the difference of two such snapshots. The totals are therefore advanced by the item loop only: no function reachable from the per-breakpoint examination (mainLoop and what it calls) assigns one of them. A width added 'temporarily' there — the width of the penalty the line ends at — is also seen by the snapshot for the new node, and every line that starts after a break at a hyphen is measured too short by the hyphen's width")
	p := c.MustPkg("text")
	info := p.TypesInfo
	decls := map[*types.Func]*ast.FuncDecl{}
	for _, fd := range core.AllFuncDecls(p) {
		if f, ok := info.Defs[fd.Name].(*types.Func); ok {
			decls[f] = fd
		}
	}
	// the driver: the function whose range loop calls mainLoop; the totals: fields it advances with += in that loop
	var mainLoop *types.Func
	totals := map[*types.Var]bool{}
	for _, fd := range decls {
		ast.Inspect(fd.Body, func(m ast.Node) bool {
			rs, ok := m.(*ast.RangeStmt)
			if !ok {
				return true
			}
			var callee *types.Func
			ast.Inspect(rs.Body, func(k ast.Node) bool {
				if call, ok := k.(*ast.CallExpr); ok {
					if cf := core.CalleeOf(info, call); cf != nil && cf.Name() == "mainLoop" {
						callee = cf
					}
				}
				return true
			})
			if callee == nil {
				return true
			}
			mainLoop = callee
			ast.Inspect(rs.Body, func(k ast.Node) bool {
				if as, ok := k.(*ast.AssignStmt); ok && as.Tok == token.ADD_ASSIGN && len(as.Lhs) == 1 {
					if se, ok := as.Lhs[0].(*ast.SelectorExpr); ok {
						if s := info.Selections[se]; s != nil && s.Kind() == types.FieldVal {
							if rn := core.RootIdent(se.X); rn != nil && s.Recv() != nil && strings.HasSuffix(s.Recv().String(), "linebreaker") {
								totals[s.Obj().(*types.Var)] = true
							}
						}
					}
				}
				return true
			})
			return true
		})
	}
	if mainLoop == nil || len(totals) == 0 {
		r.Fail("E4.running-totals-fixed", "text.Linebreak|driver", "", "the item loop that calls mainLoop and advances the running totals with += was not found")
		return
	}
	// functions reachable from mainLoop through static calls inside the package
	reach := map[*types.Func]bool{}
	var visit func(f *types.Func)
	visit = func(f *types.Func) {
		if reach[f] || decls[f] == nil {
			return
		}
		reach[f] = true
		ast.Inspect(decls[f].Body, func(m ast.Node) bool {
			if call, ok := m.(*ast.CallExpr); ok {
				if cf := core.CalleeOf(info, call); cf != nil {
					visit(cf)
				}
			}
			return true
		})
	}
	visit(mainLoop)
	var fns []*types.Func
	for f := range reach {
		fns = append(fns, f)
	}
	sort.Slice(fns, func(i, j int) bool { return core.FuncName(decls[fns[i]]) < core.FuncName(decls[fns[j]]) })
	n := 0
	for _, f := range fns {
		fd := decls[f]
		r.Func("text." + core.FuncName(fd))
		n++
		key := "text." + core.FuncName(fd) + "|writes no running total"
		bad := ""
		var badPos token.Pos
		ast.Inspect(fd.Body, func(m ast.Node) bool {
			var lhs []ast.Expr
			switch x := m.(type) {
			case *ast.AssignStmt:
				lhs = x.Lhs
			case *ast.IncDecStmt:
				lhs = []ast.Expr{x.X}
			}
			for _, l := range lhs {
				if se, ok := core.Unparen(l).(*ast.SelectorExpr); ok {
					if s := info.Selections[se]; s != nil && s.Kind() == types.FieldVal {
						if v, ok := s.Obj().(*types.Var); ok && totals[v] && bad == "" {
							bad = types.ExprString(l)
							badPos = m.Pos()
						}
					}
				}
			}
			return true
		})
		if bad == "" {
			r.OK("E4.running-totals-fixed", key, c.Pos(fd.Pos()), "")
		} else {
			r.Fail("E4.running-totals-fixed", key, c.Pos(badPos), fmt.Sprintf("%s assigns the running total `%s` while a breakpoint is examined: the snapshot taken for a new node (and every ratio computed in this call) sees the changed total, so lines that start after this break are measured by the wrong amount — restoring the value afterwards does not undo what was stored in the node", core.FuncName(fd), bad))
		}
	}
	r.Count("E4.running-totals", len(totals))
	r.Floor("E4.running-totals", 3)
	r.Count("E4.running-totals-fixed", n)
	r.Floor("E4.running-totals-fixed", 3)
}

// E4NextToleranceRecorded: a too-loose line is recorded as the next stretch limit whatever kind of break ends it.
func E4NextToleranceRecorded(c *core.Ctx, r *core.Report) {
	r.Rule("E4.next-tolerance-recorded", "when no breaking fits, Linebreak restarts with the smallest adjustment ratio that was refused for being above the limit — mainLoop records it with `next = math.Min(next, ratio)`. 'Relaxed only as far as needed' requires that every refused ratio is a candidate: the conditions under which the recording statement is reached (if conditions, else branches negated) mention nothing but the ratio, the limit and constants — not the kind or penalty of the item. Placed in the else of the deactivation test (`ratio < -1 || forced break`), the ratio of a too-loose line that ends at a forced break is never recorded, the restart jumps to a larger candidate and a breaking with a more stretched line wins")
	p := c.MustPkg("text")
	info := p.TypesInfo
	fd := core.MustFuncDecl(p, "linebreaker.mainLoop")
	r.Func("text.linebreaker.mainLoop")
	type atom struct {
		e   ast.Expr
		pos bool
	}
	var split func(e ast.Expr, pos bool, out *[]atom)
	split = func(e ast.Expr, pos bool, out *[]atom) {
		e = core.Unparen(e)
		if u, ok := e.(*ast.UnaryExpr); ok && u.Op == token.NOT {
			split(u.X, !pos, out)
			return
		}
		if b, ok := e.(*ast.BinaryExpr); ok && ((b.Op == token.LAND && pos) || (b.Op == token.LOR && !pos)) {
			split(b.X, pos, out)
			split(b.Y, pos, out)
			return
		}
		*out = append(*out, atom{e, pos})
	}
	// the ratio local and the limit parameter
	var ratio types.Object
	ast.Inspect(fd.Body, func(m ast.Node) bool {
		if as, ok := m.(*ast.AssignStmt); ok && len(as.Lhs) == 1 && len(as.Rhs) == 1 && ratio == nil {
			if call, ok := core.Unparen(as.Rhs[0]).(*ast.CallExpr); ok {
				if f := core.CalleeOf(info, call); f != nil && f.Name() == "computeAdjustmentRatio" {
					if id, ok := as.Lhs[0].(*ast.Ident); ok {
						ratio = core.ObjOf(info, id)
					}
				}
			}
		}
		return true
	})
	var limit types.Object
	for _, f := range fd.Type.Params.List {
		for _, nm := range f.Names {
			if b, ok := info.TypeOf(f.Type).Underlying().(*types.Basic); ok && b.Kind() == types.Float64 {
				limit = info.Defs[nm]
			}
		}
	}
	if ratio == nil || limit == nil {
		r.Fail("E4.next-tolerance-recorded", "text.linebreaker.mainLoop|ratio and limit", c.Pos(fd.Pos()), "the adjustment ratio local or the float64 limit parameter was not found")
		return
	}
	n := 0
	var walk func(nd ast.Node, conds []atom)
	walk = func(nd ast.Node, conds []atom) {
		switch x := nd.(type) {
		case *ast.BlockStmt:
			for _, s := range x.List {
				walk(s, conds)
			}
		case *ast.IfStmt:
			var t, f []atom
			t = append(t, conds...)
			f = append(f, conds...)
			split(x.Cond, true, &t)
			split(x.Cond, false, &f)
			walk(x.Body, t)
			if x.Else != nil {
				walk(x.Else, f)
			}
		case *ast.ForStmt:
			walk(x.Body, nil) // conditions are per iteration
		case *ast.RangeStmt:
			walk(x.Body, nil)
		case *ast.AssignStmt:
			if len(x.Lhs) != 1 || len(x.Rhs) != 1 {
				return
			}
			name, call := core.MathFunc(info, x.Rhs[0])
			if name != "Min" || len(call.Args) != 2 {
				return
			}
			hasRatio, hasSelf := false, false
			for _, a := range call.Args {
				if id, ok := core.Unparen(a).(*ast.Ident); ok && core.ObjOf(info, id) == ratio {
					hasRatio = true
				}
				if types.ExprString(a) == types.ExprString(x.Lhs[0]) {
					hasSelf = true
				}
			}
			if !hasRatio || !hasSelf {
				return
			}
			n++
			key := fmt.Sprintf("text.linebreaker.mainLoop|recording of the next limit #%d depends on the ratio only", n)
			bad := ""
			tests := false
			for _, a := range conds {
				onlyRatio := true
				ast.Inspect(a.e, func(k ast.Node) bool {
					switch y := k.(type) {
					case *ast.Ident:
						o := core.ObjOf(info, y)
						if _, isConst := o.(*types.Const); o != nil && o != ratio && o != limit && !isConst {
							if _, isPkg := o.(*types.PkgName); !isPkg {
								if _, isFn := o.(*types.Func); !isFn {
									onlyRatio = false
								}
							}
						}
					case *ast.SelectorExpr:
						if _, isConst := info.Uses[y.Sel].(*types.Const); !isConst {
							if v, isVar := info.Uses[y.Sel].(*types.Var); isVar && !(v.Pkg() == p.Types && v.Parent() == p.Types.Scope()) {
								onlyRatio = false
							}
						}
					}
					return true
				})
				if !onlyRatio {
					neg := ""
					if !a.pos {
						neg = "not "
					}
					bad = neg + "`" + types.ExprString(a.e) + "`"
				} else {
					tests = true
				}
			}
			switch {
			case bad != "":
				r.Fail("E4.next-tolerance-recorded", key, c.Pos(x.Pos()), fmt.Sprintf("`%s` is reached only when %s: whether a refused ratio becomes a candidate for the next stretch limit then depends on the kind of the item the line ends at — at a forced break the ratio of a too-loose line is not recorded, the restart takes a larger limit than needed and a breaking with a more stretched line can win", c.Src(x), bad))
			case !tests:
				r.Fail("E4.next-tolerance-recorded", key, c.Pos(x.Pos()), "the recording is not under a test of the ratio against the limit")
			default:
				r.OK("E4.next-tolerance-recorded", key, c.Pos(x.Pos()), "")
			}
		}
	}
	walk(fd.Body, nil)
	r.Count("E4.next-tolerance-recorded", n)
	r.Floor("E4.next-tolerance-recorded", 1)
}

// E4UnboundedQuotientNotMultiplied: a quotient by (count − 1) is not used as a factor.
func E4UnboundedQuotientNotMultiplied(c *core.Ctx, r *core.Report) {
	r.Rule("E4.unbounded-quotient-not-multiplied", "RichText.ToText spreads extra height over the gaps between lines: `step := extra / float64(len(lines)-1)`. With a single line the divisor is zero and the quotient is ±Inf or NaN; that is harmless as long as the quotient is only ever added to a running offset that the single line does not receive. Every local defined by a division whose divisor is `len(X) − k` (k ≥ 1), and not computed under a test that len(X) exceeds k, is therefore never an operand of a multiplication: `float64(j) * step` is 0·Inf = NaN for the only line, whose position, bounds and heights all become NaN")
	p := c.MustPkg("")
	info := p.TypesInfo
	n := 0
	for _, fd := range core.AllFuncDecls(p) {
		if fd.Body == nil || strings.HasSuffix(c.Fset.Position(fd.Pos()).Filename, "_test.go") {
			continue
		}
		// quotients by len(X)-k
		type quot struct {
			v    types.Object
			arr  string
			k    int64
			pos  token.Pos
			safe bool
		}
		var qs []quot
		var stack []ast.Node
		ast.Inspect(fd.Body, func(m ast.Node) bool {
			if m == nil {
				stack = stack[:len(stack)-1]
				return true
			}
			stack = append(stack, m)
			as, ok := m.(*ast.AssignStmt)
			if !ok || len(as.Lhs) != 1 || len(as.Rhs) != 1 {
				return true
			}
			lid, ok := as.Lhs[0].(*ast.Ident)
			be, ok2 := core.Unparen(as.Rhs[0]).(*ast.BinaryExpr)
			if !ok || !ok2 || be.Op != token.QUO {
				return true
			}
			// divisor: float64(len(X)-k) or len(X)-k
			div := core.Unparen(be.Y)
			if call, ok := div.(*ast.CallExpr); ok && len(call.Args) == 1 {
				if tv, isT := info.Types[call.Fun]; isT && tv.IsType() {
					div = core.Unparen(call.Args[0])
				}
			}
			sub, ok := div.(*ast.BinaryExpr)
			if !ok || sub.Op != token.SUB {
				return true
			}
			lc, ok := core.Unparen(sub.X).(*ast.CallExpr)
			if !ok || len(lc.Args) != 1 {
				return true
			}
			if fn, ok := core.Unparen(lc.Fun).(*ast.Ident); !ok || fn.Name != "len" {
				return true
			}
			k, ok := core.ConstInt(info, sub.Y)
			if !ok || k < 1 {
				return true
			}
			arr := types.ExprString(lc.Args[0])
			// guarded by len(arr) > k (canonical: k < len(arr)) on the way here?
			safe := false
			for i := len(stack) - 2; i >= 0; i-- {
				is, ok := stack[i].(*ast.IfStmt)
				if !ok || !(is.Body.Pos() <= as.Pos() && as.Pos() < is.Body.End()) {
					continue
				}
				ast.Inspect(is.Cond, func(q ast.Node) bool {
					cb, ok := q.(*ast.BinaryExpr)
					if !ok {
						return true
					}
					lenSide := func(e ast.Expr) bool {
						call, ok := core.Unparen(e).(*ast.CallExpr)
						return ok && len(call.Args) == 1 && types.ExprString(call.Fun) == "len" && types.ExprString(call.Args[0]) == arr
					}
					if cb.Op == token.LSS && lenSide(cb.Y) {
						if v, ok := core.ConstInt(info, cb.X); ok && v >= k {
							safe = true
						}
					}
					if cb.Op == token.LEQ && lenSide(cb.Y) {
						if v, ok := core.ConstInt(info, cb.X); ok && v > k {
							safe = true
						}
					}
					return true
				})
			}
			qs = append(qs, quot{core.ObjOf(info, lid), arr, k, as.Pos(), safe})
			return true
		})
		for i, q := range qs {
			n++
			key := fmt.Sprintf("canvas.%s|quotient by len(%s)-%d #%d", core.FuncName(fd), q.arr, q.k, i+1)
			if q.safe {
				r.OK("E4.unbounded-quotient-not-multiplied", key, c.Pos(q.pos), "computed under a test of the length")
				continue
			}
			var bad ast.Node
			ast.Inspect(fd.Body, func(m ast.Node) bool {
				switch x := m.(type) {
				case *ast.BinaryExpr:
					if x.Op == token.MUL {
						for _, side := range []ast.Expr{x.X, x.Y} {
							if id, ok := core.Unparen(side).(*ast.Ident); ok && core.ObjOf(info, id) == q.v && bad == nil {
								bad = x
							}
						}
					}
				case *ast.AssignStmt:
					if x.Tok == token.MUL_ASSIGN && len(x.Rhs) == 1 {
						if id, ok := core.Unparen(x.Rhs[0]).(*ast.Ident); ok && core.ObjOf(info, id) == q.v && bad == nil {
							bad = x
						}
					}
				}
				return true
			})
			if bad == nil {
				r.OK("E4.unbounded-quotient-not-multiplied", key, c.Pos(q.pos), "only added")
			} else {
				r.Fail("E4.unbounded-quotient-not-multiplied", key, c.Pos(bad.Pos()), fmt.Sprintf("`%s` multiplies `%s`, which was computed by dividing by len(%s)-%d without a test that the length exceeds %d: for exactly %d element(s) it is ±Inf or NaN and the product with a zero factor is NaN — the only line of a vertically justified text gets y = NaN, and with it Bounds, Heights and every renderer", c.Src(bad), q.v.Name(), q.arr, q.k, q.k, q.k))
			}
		}
	}
	r.Count("E4.unbounded-quotient-not-multiplied", n)
	r.Floor("E4.unbounded-quotient-not-multiplied", 1)
}

// E4ClassRecordsTogether: the per-class records of the best candidate are replaced together.
func E4ClassRecordsTogether(c *core.Ctx, r *core.Report) {
	r.Rule("E4.class-records-together", "mainLoop keeps, per fitness class, the best candidate for a new node in parallel arrays (its demerits, the node it comes from, the adjustment ratio of the line): the arrays of mainLoop that are written at a variable index. They describe one candidate, so a statement list that assigns one of them at an index assigns all of them at that index in the same list — not some of them under a further condition. If the ratio is recorded only when the candidate is also the cheapest of all classes, a node created for another class reports ratio 0: the widths and ratios returned are not those of the lines, and ToText justifies that line with the wrong stretch")
	p := c.MustPkg("text")
	info := p.TypesInfo
	fd := core.MustFuncDecl(p, "linebreaker.mainLoop")
	r.Func("text.linebreaker.mainLoop")
	// arrays written at a non-constant index
	arrays := map[types.Object]bool{}
	ast.Inspect(fd.Body, func(m ast.Node) bool {
		as, ok := m.(*ast.AssignStmt)
		if !ok {
			return true
		}
		for _, l := range as.Lhs {
			ie, ok := core.Unparen(l).(*ast.IndexExpr)
			if !ok {
				continue
			}
			id, ok := core.Unparen(ie.X).(*ast.Ident)
			if !ok {
				continue
			}
			if _, isArr := info.TypeOf(id).Underlying().(*types.Array); !isArr {
				continue
			}
			if _, isConst := core.ConstInt(info, ie.Index); isConst {
				continue
			}
			arrays[core.ObjOf(info, id)] = true
		}
		return true
	})
	if len(arrays) < 2 {
		r.Fail("E4.class-records-together", "text.linebreaker.mainLoop|per-class arrays", c.Pos(fd.Pos()), "fewer than two arrays written at a variable index were found; the per-class records were not recognised")
		return
	}
	var names []string
	for o := range arrays {
		names = append(names, o.Name())
	}
	sort.Strings(names)
	n := 0
	var visitList func(list []ast.Stmt)
	var visitStmt func(s ast.Stmt)
	visitList = func(list []ast.Stmt) {
		// which arrays does this list assign directly, per index text
		direct := map[string]map[types.Object]token.Pos{}
		for _, s := range list {
			as, ok := s.(*ast.AssignStmt)
			if !ok {
				continue
			}
			for _, l := range as.Lhs {
				if ie, ok := core.Unparen(l).(*ast.IndexExpr); ok {
					if id, ok := core.Unparen(ie.X).(*ast.Ident); ok && arrays[core.ObjOf(info, id)] {
						k := types.ExprString(ie.Index)
						if direct[k] == nil {
							direct[k] = map[types.Object]token.Pos{}
						}
						direct[k][core.ObjOf(info, id)] = as.Pos()
					}
				}
			}
		}
		var idxs []string
		for k := range direct {
			idxs = append(idxs, k)
		}
		sort.Strings(idxs)
		for _, k := range idxs {
			n++
			key := fmt.Sprintf("text.linebreaker.mainLoop|records at index %s replaced together #%d", k, n)
			var missing []string
			var pos token.Pos
			for o := range arrays {
				if p0, ok := direct[k][o]; ok {
					pos = p0
				} else {
					missing = append(missing, o.Name())
				}
			}
			sort.Strings(missing)
			if len(missing) == 0 {
				r.OK("E4.class-records-together", key, c.Pos(pos), strings.Join(names, ", "))
			} else {
				r.Fail("E4.class-records-together", key, c.Pos(pos), fmt.Sprintf("this statement list replaces the candidate of class %s in some of the parallel arrays (%s) but not in %s: the record then mixes two candidates — the node created from it carries the demerits and parent of one line and the ratio of another (or 0), so the ratio reported for that line is not the line's", k, strings.Join(names, ", "), strings.Join(missing, ", ")))
			}
		}
		for _, s := range list {
			visitStmt(s)
		}
	}
	visitStmt = func(s ast.Stmt) {
		switch x := s.(type) {
		case *ast.BlockStmt:
			visitList(x.List)
		case *ast.IfStmt:
			visitList(x.Body.List)
			if x.Else != nil {
				visitStmt(x.Else)
			}
		case *ast.ForStmt:
			visitList(x.Body.List)
		case *ast.RangeStmt:
			visitList(x.Body.List)
		case *ast.SwitchStmt:
			for _, cs := range x.Body.List {
				visitList(cs.(*ast.CaseClause).Body)
			}
		}
	}
	visitList(fd.Body.List)
	r.Count("E4.class-records-together", n)
	r.Floor("E4.class-records-together", 1)
}

// E4SliceLengthGuarded: a slice that trims both ends of a string is taken only when the string is long enough.
func E4SliceLengthGuarded(c *core.Ctx, r *core.Report) {
	r.Rule("E4.slice-length-guarded", "ParseSVG never panics. In the SVG importer (svg.go) every slice of a string value that cuts a constant number of bytes from both ends, `v[a : len(v)-b]`, is reached under conditions (the true branches of enclosing if statements) that establish len(v) ≥ a+b: comparisons of len(v) with constants and strings.HasPrefix/HasSuffix with a literal. `url(x#)` — seven characters with the hash in sixth place — reached `val[6:len(val)-2]` under `6 < len(val)` only, and ParseSVG panicked with slice bounds out of range")
	p := c.MustPkg("")
	info := p.TypesInfo
	n := 0
	for _, fd := range core.AllFuncDecls(p) {
		if fd.Body == nil || !strings.HasSuffix(c.Fset.Position(fd.Pos()).Filename, "/svg.go") && c.Fset.Position(fd.Pos()).Filename != "svg.go" {
			continue
		}
		k := 0
		var stack []ast.Node
		ast.Inspect(fd.Body, func(m ast.Node) bool {
			if m == nil {
				stack = stack[:len(stack)-1]
				return true
			}
			stack = append(stack, m)
			se, ok := m.(*ast.SliceExpr)
			if !ok || se.Low == nil || se.High == nil {
				return true
			}
			xid, ok := core.Unparen(se.X).(*ast.Ident)
			if !ok {
				return true
			}
			if b, ok := info.TypeOf(xid).Underlying().(*types.Basic); !ok || b.Info()&types.IsString == 0 {
				if _, isSlice := info.TypeOf(xid).Underlying().(*types.Slice); !isSlice {
					return true
				}
			}
			a, okA := core.ConstInt(info, se.Low)
			hb, okB := core.Unparen(se.High).(*ast.BinaryExpr)
			if !okA || !okB || hb.Op != token.SUB || types.ExprString(core.Unparen(hb.X)) != "len("+xid.Name+")" {
				return true
			}
			b, okC := core.ConstInt(info, hb.Y)
			if !okC {
				return true
			}
			need := a + b
			k++
			n++
			key := fmt.Sprintf("canvas.%s|slice #%d of `%s` needs %d bytes", core.FuncName(fd), k, xid.Name, need)
			known := int64(0)
			// early exits before the slice: `if len(v) < K { break / return / continue }` as an earlier statement of an
			// enclosing statement list establishes len(v) ≥ K
			for i := len(stack) - 2; i >= 0; i-- {
				var list []ast.Stmt
				switch b := stack[i].(type) {
				case *ast.BlockStmt:
					list = b.List
				case *ast.CaseClause:
					list = b.Body
				}
				for _, st := range list {
					if st.End() > se.Pos() {
						break
					}
					is, ok := st.(*ast.IfStmt)
					if !ok || is.Else != nil || len(is.Body.List) == 0 {
						continue
					}
					switch is.Body.List[len(is.Body.List)-1].(type) {
					case *ast.ReturnStmt, *ast.BranchStmt:
					default:
						continue
					}
					if be, ok := core.Unparen(is.Cond).(*ast.BinaryExpr); ok && types.ExprString(core.Unparen(be.X)) == "len("+xid.Name+")" {
						if v, ok := core.ConstInt(info, be.Y); ok {
							if be.Op == token.LSS && v > known {
								known = v
							}
							if be.Op == token.LEQ && v+1 > known {
								known = v + 1
							}
						}
					}
				}
			}
			for i := len(stack) - 2; i >= 0; i-- {
				is, ok := stack[i].(*ast.IfStmt)
				if !ok || !(is.Body.Pos() <= se.Pos() && se.Pos() < is.Body.End()) {
					continue
				}
				prefix, suffix := "", ""
				defer0 := func() {
					if prefix != "" && suffix != "" {
						// both a prefix and a suffix: the shortest string that has them
						ov := 0
						for k := 1; k <= len(prefix) && k <= len(suffix); k++ {
							if prefix[len(prefix)-k:] == suffix[:k] {
								ov = k
							}
						}
						if l := int64(len(prefix) + len(suffix) - ov); l > known {
							known = l
						}
					}
				}
				var conj func(e ast.Expr)
				conj = func(e ast.Expr) {
					e = core.Unparen(e)
					if be, ok := e.(*ast.BinaryExpr); ok && be.Op == token.LAND {
						conj(be.X)
						conj(be.Y)
						return
					}
					switch x := e.(type) {
					case *ast.BinaryExpr:
						isLen := func(e ast.Expr) bool { return types.ExprString(core.Unparen(e)) == "len("+xid.Name+")" }
						if v, ok := core.ConstInt(info, x.X); ok && isLen(x.Y) {
							if x.Op == token.LSS && v+1 > known {
								known = v + 1
							}
							if x.Op == token.LEQ && v > known {
								known = v
							}
						}
					case *ast.CallExpr:
						if f := core.CalleeOf(info, x); f != nil && f.Pkg() != nil && f.Pkg().Path() == "strings" && (f.Name() == "HasPrefix" || f.Name() == "HasSuffix") && len(x.Args) == 2 {
							if id, ok := core.Unparen(x.Args[0]).(*ast.Ident); ok && id.Name == xid.Name {
								if lit, ok := constString(info, x.Args[1]); ok {
									if int64(len(lit)) > known {
										known = int64(len(lit))
									}
									if f.Name() == "HasPrefix" {
										prefix = lit
									} else {
										suffix = lit
									}
								}
							}
						}
					}
				}
				conj(is.Cond)
				defer0()
			}
			if known >= need {
				r.OK("E4.slice-length-guarded", key, c.Pos(se.Pos()), fmt.Sprintf("len ≥ %d established", known))
			} else {
				r.Fail("E4.slice-length-guarded", key, c.Pos(se.Pos()), fmt.Sprintf("`%s` cuts %d bytes from the front and %d from the back, but the conditions on the way establish only len(%s) ≥ %d: a shorter value makes the slice bounds cross and ParseSVG panics instead of returning an error or a result", types.ExprString(se), a, b, xid.Name, known))
			}
			return true
		})
	}
	r.Count("E4.slice-length-guarded", n)
	r.Floor("E4.slice-length-guarded", 2)
}

// E4ListLinks: the doubly linked list of break points stays consistent through its three mutators.
func E4ListLinks(c *core.Ctx, r *core.Report) {
	r.Rule("E4.list-links", "text.Breakpoints (the active and inactive node lists of Linebreak) is a doubly linked list. Its mutators are interpreted abstractly, path by path over their if/else structure (pointer fields as a store from (abstract object, field) to abstract object, no solver; a test `x == nil` binds x on its branches; the early return of the membership guard ends a path) and on every path that reaches the end the links are mutually consistent: InsertBefore(b, at): b.next = at, at.prev = b, and the old predecessor p of at has p.next = b with b.prev = p, or the head is b when there was none; Push(b): the old tail t has t.next = b, b.prev = t, tail = b, or head = tail = b for an empty list; Remove(b): predecessor and successor (or head/tail) are joined and b's own links are cleared. A one-sided link makes Has/Remove disagree with the traversal: a node deactivated at a forced break stays active, or the newly inserted node is lost")
	p := c.MustPkg("text")
	info := p.TypesInfo
	type store map[[2]string]string
	type pathRes struct {
		st    store
		binds map[string]string
		cond  []string
	}
	run := func(fd *ast.FuncDecl) []pathRes {
		var out []pathRes
		resolve := func(b map[string]string, s string) string {
			for {
				n, ok := b[s]
				if !ok {
					return s
				}
				s = n
			}
		}
		var eval func(e ast.Expr, st store, b map[string]string) string
		eval = func(e ast.Expr, st store, b map[string]string) string {
			switch v := core.Unparen(e).(type) {
			case *ast.Ident:
				return resolve(b, v.Name)
			case *ast.SelectorExpr:
				s := eval(v.X, st, b)
				if s == "" {
					return ""
				}
				if val, ok := st[[2]string{s, v.Sel.Name}]; ok {
					return resolve(b, val)
				}
				return resolve(b, s+"."+v.Sel.Name+"₀")
			}
			return ""
		}
		copySt := func(st store) store {
			o := store{}
			for k, v := range st {
				o[k] = v
			}
			return o
		}
		copyB := func(b map[string]string) map[string]string {
			o := map[string]string{}
			for k, v := range b {
				o[k] = v
			}
			return o
		}
		var exec func(list []ast.Stmt, st store, b map[string]string, cond []string, k func(store, map[string]string, []string))
		exec = func(list []ast.Stmt, st store, b map[string]string, cond []string, k func(store, map[string]string, []string)) {
			if len(list) == 0 {
				k(st, b, cond)
				return
			}
			rest := list[1:]
			switch x := list[0].(type) {
			case *ast.ReturnStmt:
				return // early return: the list is untouched on this path (or the path ended)
			case *ast.AssignStmt:
				st = copySt(st)
				vals := make([]string, len(x.Rhs))
				for i, rhs := range x.Rhs {
					vals[i] = eval(rhs, st, b)
				}
				for i, l := range x.Lhs {
					if se, ok := core.Unparen(l).(*ast.SelectorExpr); ok && i < len(vals) {
						if o := eval(se.X, st, b); o != "" {
							st[[2]string{o, se.Sel.Name}] = vals[i]
						}
					}
				}
				exec(rest, st, b, cond, k)
			case *ast.IfStmt:
				thenB, elseB := copyB(b), copyB(b)
				thenC, elseC := append(append([]string{}, cond...), c.Src(x.Cond)), append(append([]string{}, cond...), "!("+c.Src(x.Cond)+")")
				if be, ok := core.Unparen(x.Cond).(*ast.BinaryExpr); ok && (be.Op == token.EQL || be.Op == token.NEQ) {
					l, rr := eval(be.X, st, b), eval(be.Y, st, b)
					if rr == "nil" && l != "" && l != "nil" {
						if be.Op == token.EQL {
							thenB[l] = "nil"
						} else {
							elseB[l] = "nil"
						}
					}
				}
				exec(append(append([]ast.Stmt{}, x.Body.List...), rest...), st, thenB, thenC, k)
				switch e := x.Else.(type) {
				case *ast.BlockStmt:
					exec(append(append([]ast.Stmt{}, e.List...), rest...), st, elseB, elseC, k)
				case *ast.IfStmt:
					exec(append([]ast.Stmt{e}, rest...), st, elseB, elseC, k)
				default:
					exec(rest, st, elseB, elseC, k)
				}
			default:
				exec(rest, st, b, cond, k)
			}
		}
		exec(fd.Body.List, store{}, map[string]string{}, nil, func(st store, b map[string]string, cond []string) {
			// resolve the final store under the path's bindings
			fin := store{}
			for k, v := range st {
				fin[[2]string{resolve(b, k[0]), k[1]}] = resolve(b, v)
			}
			out = append(out, pathRes{fin, b, cond})
		})
		return out
	}
	get := func(pr pathRes, obj, field string) string {
		o := obj
		for {
			n, ok := pr.binds[o]
			if !ok {
				break
			}
			o = n
		}
		if v, ok := pr.st[[2]string{o, field}]; ok {
			return v
		}
		v := o + "." + field + "₀"
		for {
			n, ok := pr.binds[v]
			if !ok {
				return v
			}
			v = n
		}
	}
	paramNames := func(fd *ast.FuncDecl) []string {
		var ns []string
		for _, f := range fd.Type.Params.List {
			for _, n := range f.Names {
				ns = append(ns, n.Name)
			}
		}
		return ns
	}
	n := 0
	check := func(name string, post func(pr pathRes, recv string, ps []string) string) {
		fd := core.FuncDecl(p, "Breakpoints."+name)
		if fd == nil || fd.Recv == nil || len(fd.Recv.List[0].Names) == 0 {
			r.Fail("E4.list-links", "text.Breakpoints."+name, c.Pos(p.Syntax[0].Pos()), "method not found")
			return
		}
		_ = info
		recv := fd.Recv.List[0].Names[0].Name
		ps := paramNames(fd)
		paths := run(fd)
		if len(paths) == 0 {
			r.Fail("E4.list-links", "text.Breakpoints."+name, c.Pos(fd.Pos()), "no path reaches the end of the method")
			return
		}
		for i, pr := range paths {
			n++
			key := fmt.Sprintf("text.Breakpoints.%s|path %d of %d", name, i+1, len(paths))
			if len(pr.st) == 0 {
				r.OK("E4.list-links", key, c.Pos(fd.Pos()), strings.Join(pr.cond, "; ")+": nothing is written, the list is unchanged")
			} else if bad := post(pr, recv, ps); bad != "" {
				r.Fail("E4.list-links", key, c.Pos(fd.Pos()), fmt.Sprintf("on the path [%s] %s", strings.Join(pr.cond, "; "), bad))
			} else {
				r.OK("E4.list-links", key, c.Pos(fd.Pos()), strings.Join(pr.cond, "; "))
			}
		}
	}
	check("InsertBefore", func(pr pathRes, recv string, ps []string) string {
		if len(ps) != 2 {
			return "expected (b, at)"
		}
		b, at := ps[0], ps[1]
		p0 := at + ".prev₀"
		if v, ok := pr.binds[p0]; ok {
			p0 = v
		}
		if got := get(pr, b, "next"); got != at {
			return fmt.Sprintf("%s.next is %s, not %s", b, got, at)
		}
		if got := get(pr, at, "prev"); got != b {
			return fmt.Sprintf("%s.prev is %s, not %s: the list is linked forward only, Has(%s) and Remove(%s) no longer see its predecessor", at, got, b, at, at)
		}
		if p0 == "nil" {
			if got := get(pr, recv, "head"); got != b {
				return fmt.Sprintf("%s had no predecessor but the head is %s, not %s", at, got, b)
			}
			return ""
		}
		if got := get(pr, p0, "next"); got != b {
			return fmt.Sprintf("the old predecessor's next is %s, not %s", got, b)
		}
		if got := get(pr, b, "prev"); got != p0 {
			return fmt.Sprintf("%s.prev is %s, not the old predecessor of %s", b, got, at)
		}
		return ""
	})
	check("Push", func(pr pathRes, recv string, ps []string) string {
		if len(ps) != 1 {
			return "expected (b)"
		}
		b := ps[0]
		h0 := recv + ".head₀"
		if v, ok := pr.binds[h0]; ok {
			h0 = v
		}
		if h0 == "nil" {
			if get(pr, recv, "head") != b || get(pr, recv, "tail") != b {
				return "an empty list does not get head = tail = " + b
			}
			return ""
		}
		t0 := recv + ".tail₀"
		if got := get(pr, t0, "next"); got != b {
			return fmt.Sprintf("the old tail's next is %s, not %s", got, b)
		}
		if got := get(pr, b, "prev"); got != t0 {
			return fmt.Sprintf("%s.prev is %s, not the old tail", b, got)
		}
		if got := get(pr, recv, "tail"); got != b {
			return fmt.Sprintf("the tail is %s, not %s", got, b)
		}
		return ""
	})
	check("Remove", func(pr pathRes, recv string, ps []string) string {
		if len(ps) != 1 {
			return "expected (b)"
		}
		b := ps[0]
		p0, n0 := b+".prev₀", b+".next₀"
		if v, ok := pr.binds[p0]; ok {
			p0 = v
		}
		if v, ok := pr.binds[n0]; ok {
			n0 = v
		}
		if p0 == "nil" {
			if got := get(pr, recv, "head"); got != n0 {
				return fmt.Sprintf("the first node is removed but the head is %s, not its successor", got)
			}
		} else if got := get(pr, p0, "next"); got != n0 {
			return fmt.Sprintf("the predecessor's next is %s, not the successor of %s", got, b)
		}
		if n0 == "nil" {
			if got := get(pr, recv, "tail"); got != p0 {
				return fmt.Sprintf("the last node is removed but the tail is %s, not its predecessor", got)
			}
		} else if got := get(pr, n0, "prev"); got != p0 {
			return fmt.Sprintf("the successor's prev is %s, not the predecessor of %s", got, b)
		}
		if get(pr, b, "prev") != "nil" || get(pr, b, "next") != "nil" {
			return "the removed node keeps a link: Has() still reports it as a member"
		}
		return ""
	})
	r.Count("E4.list-paths", n)
	r.Floor("E4.list-paths", 6)
}

// E4FlaggedPairRealBreak: the demerits for two consecutive flagged breaks need two breaks.
func E4FlaggedPairRealBreak(c *core.Ctx, r *core.Report) {
	r.Rule("E4.flagged-pair-real-break", "Linebreak charges DemeritsFlagged when a line starts and ends at a flagged break. The node a line starts from is looked up through `items[a.Position].Flagged`; the start node of the paragraph has Position 0 without being a break, so the condition under which DemeritsFlagged is added also tests another field of that node (its line number or its parent) — otherwise a paragraph whose first item is a flagged penalty pays the charge for every flagged break of its first line and a dearer breaking wins")
	p := c.MustPkg("text")
	info := p.TypesInfo
	n := 0
	for _, fd := range core.AllFuncDecls(p) {
		if fd.Body == nil {
			continue
		}
		ast.Inspect(fd.Body, func(m ast.Node) bool {
			is, ok := m.(*ast.IfStmt)
			if !ok {
				return true
			}
			adds := false
			for _, st := range is.Body.List {
				if as, ok := st.(*ast.AssignStmt); ok && as.Tok == token.ADD_ASSIGN && len(as.Rhs) == 1 {
					if id, ok := core.Unparen(as.Rhs[0]).(*ast.Ident); ok {
						if v, ok := info.Uses[id].(*types.Var); ok && v.Parent() == p.Types.Scope() && v.Name() == "DemeritsFlagged" {
							adds = true
						}
					}
				}
			}
			if !adds {
				return true
			}
			n++
			key := fmt.Sprintf("text.%s|DemeritsFlagged #%d needs a real previous break", core.FuncName(fd), n)
			// the node whose position indexes the items
			var node types.Object
			ast.Inspect(is.Cond, func(q ast.Node) bool {
				if ie, ok := q.(*ast.IndexExpr); ok {
					if se, ok := core.Unparen(ie.Index).(*ast.SelectorExpr); ok {
						if id, ok := core.Unparen(se.X).(*ast.Ident); ok {
							node = core.ObjOf(info, id)
						}
					}
				}
				return true
			})
			if node == nil {
				r.Fail("E4.flagged-pair-real-break", key, c.Pos(is.Pos()), "the condition does not look the previous break up through a node's position")
				return true
			}
			tested := ""
			ast.Inspect(is.Cond, func(q ast.Node) bool {
				be, ok := q.(*ast.BinaryExpr)
				if !ok {
					return true
				}
				switch be.Op {
				case token.LSS, token.LEQ, token.GTR, token.GEQ, token.EQL, token.NEQ:
					for _, side := range []ast.Expr{be.X, be.Y} {
						if se, ok := core.Unparen(side).(*ast.SelectorExpr); ok {
							if id, ok := core.Unparen(se.X).(*ast.Ident); ok && core.ObjOf(info, id) == node {
								tested = c.Src(be)
							}
						}
					}
				}
				return true
			})
			if tested != "" {
				r.OK("E4.flagged-pair-real-break", key, c.Pos(is.Pos()), tested)
			} else {
				r.Fail("E4.flagged-pair-real-break", key, c.Pos(is.Pos()), fmt.Sprintf("`%s` takes the start node (Position 0, not a break) for a flagged break when the first item is flagged", c.Src(is.Cond)))
			}
			return true
		})
	}
	r.Count("E4.flagged-pair-sites", n)
	r.Floor("E4.flagged-pair-sites", 1)
}

// E4DeactivationWithoutPenaltyWidth: a node is given up only when later breaks cannot fit either.
func E4DeactivationWithoutPenaltyWidth(c *core.Ctx, r *core.Report) {
	r.Rule("E4.deactivation-without-penalty-width", "Linebreak drops an active node when the line from it to the current item cannot be shrunk to fit, because lines only get longer — except for the width of a penalty (the hyphen), which belongs to a break at that penalty alone. The condition under which mainLoop removes a node for being too long therefore consults the width of the current item (through the boolean locals it is made of) and compares the line width with the sums W and Z of the linebreaker and the node without it; a test of the adjustment ratio alone gives up `Box(100) Penalty(width 5)` in a width of 100 at the penalty and reports an overflow for a paragraph that fits")
	p := c.MustPkg("text")
	info := p.TypesInfo
	fd := core.MustFuncDecl(p, "linebreaker.mainLoop")
	n := 0
	ast.Inspect(fd.Body, func(m ast.Node) bool {
		is, ok := m.(*ast.IfStmt)
		if !ok {
			return true
		}
		removes := false
		for _, st := range is.Body.List {
			if es, ok := st.(*ast.ExprStmt); ok {
				if call, ok := es.X.(*ast.CallExpr); ok {
					if f := core.CalleeOf(info, call); f != nil && f.Name() == "Remove" {
						removes = true
					}
				}
			}
		}
		if !removes {
			return true
		}
		n++
		key := fmt.Sprintf("text.linebreaker.mainLoop|node removal #%d", n)
		// the expressions the condition is made of, through boolean locals
		var exprs []ast.Expr
		seen := map[types.Object]bool{}
		var collect func(e ast.Expr)
		collect = func(e ast.Expr) {
			exprs = append(exprs, e)
			ast.Inspect(e, func(q ast.Node) bool {
				id, ok := q.(*ast.Ident)
				if !ok {
					return true
				}
				o := core.ObjOf(info, id)
				if o == nil || seen[o] {
					return true
				}
				if bt, ok := o.Type().Underlying().(*types.Basic); !ok || bt.Info()&types.IsBoolean == 0 {
					return true
				}
				seen[o] = true
				ast.Inspect(fd.Body, func(k ast.Node) bool {
					switch x := k.(type) {
					case *ast.AssignStmt:
						for i, l := range x.Lhs {
							if lid, ok := l.(*ast.Ident); ok && core.ObjOf(info, lid) == o && i < len(x.Rhs) {
								collect(x.Rhs[i])
							}
						}
					case *ast.IfStmt:
						// the condition under which the local is reassigned
						for _, st := range x.Body.List {
							if as, ok := st.(*ast.AssignStmt); ok {
								for _, l := range as.Lhs {
									if lid, ok := l.(*ast.Ident); ok && core.ObjOf(info, lid) == o {
										exprs = append(exprs, x.Cond)
									}
								}
							}
						}
					}
					return true
				})
				return true
			})
		}
		collect(is.Cond)
		mentionsField := func(e ast.Node, field string) bool {
			hit := false
			ast.Inspect(e, func(q ast.Node) bool {
				if se, ok := q.(*ast.SelectorExpr); ok && se.Sel.Name == field {
					hit = true
				}
				return true
			})
			return hit
		}
		usesRatioOnly, consultsWidth, comparesSums := true, false, false
		for _, e := range exprs {
			if mentionsField(e, "Width") {
				consultsWidth = true
			}
			ast.Inspect(e, func(q ast.Node) bool {
				be, ok := q.(*ast.BinaryExpr)
				if !ok || (be.Op != token.LSS && be.Op != token.GTR && be.Op != token.LEQ && be.Op != token.GEQ) {
					return true
				}
				if mentionsField(be, "width") && mentionsField(be, "W") && mentionsField(be, "Z") && !mentionsField(be, "Width") {
					comparesSums = true
					usesRatioOnly = false
				}
				return true
			})
		}
		_ = usesRatioOnly
		if consultsWidth && comparesSums {
			r.OK("E4.deactivation-without-penalty-width", key, c.Pos(is.Pos()), "")
		} else {
			r.Fail("E4.deactivation-without-penalty-width", key, c.Pos(is.Pos()), fmt.Sprintf("the node is removed under `%s`, which does not set the width of a penalty aside (no test of the item's Width together with a comparison of the line width against W and Z without it): the node is lost at a penalty with a width although the line up to a later break fits", c.Src(is.Cond)))
		}
		return true
	})
	r.Count("E4.node-removals", n)
	r.Floor("E4.node-removals", 1)
}

// E4GlueAfterBox: glue is a legal breakpoint only directly after a box.
func E4GlueAfterBox(c *core.Ctx, r *core.Report) {
	r.Rule("E4.glue-after-box", "Linebreak tries a break at a glue only when the item in front of it is a box (Knuth–Plass: `Box Penalty(+∞) Glue` is a tie, the glue after the forbidden penalty is no breakpoint). In the item loop the call of mainLoop under the glue case is guarded by a test of the previous item's type (`items[b-1].Type == BoxType`), or by a boolean that every path through the loop body assigns — a running flag that some item leaves untouched (a penalty of +∞ enters no branch of the if/else chain) still says \"after a box\" two items later, and the tie is broken")
	p := c.MustPkg("text")
	info := p.TypesInfo
	fd := core.MustFuncDecl(p, "Linebreak")
	n := 0
	ast.Inspect(fd.Body, func(m ast.Node) bool {
		rs, ok := m.(*ast.RangeStmt)
		if !ok {
			return true
		}
		// the glue branch with a mainLoop call
		var guard ast.Expr
		var found bool
		ast.Inspect(rs.Body, func(k ast.Node) bool {
			is, ok := k.(*ast.IfStmt)
			if !ok {
				return true
			}
			isGlue := false
			ast.Inspect(is.Cond, func(q ast.Node) bool {
				if e, ok := q.(ast.Expr); ok && core.ConstName(info, e) == "GlueType" {
					isGlue = true
				}
				return true
			})
			if !isGlue {
				return true
			}
			for _, st := range is.Body.List {
				if inner, ok := st.(*ast.IfStmt); ok {
					calls := false
					ast.Inspect(inner.Body, func(q ast.Node) bool {
						if call, ok := q.(*ast.CallExpr); ok {
							if f := core.CalleeOf(info, call); f != nil && f.Name() == "mainLoop" {
								calls = true
							}
						}
						return true
					})
					if calls {
						guard, found = inner.Cond, true
					}
				}
			}
			return false
		})
		if !found {
			return true
		}
		n++
		key := "text.Linebreak|a glue is tried only directly after a box"
		// index form
		byIndex := false
		ast.Inspect(guard, func(q ast.Node) bool {
			be, ok := q.(*ast.BinaryExpr)
			if !ok || be.Op != token.EQL {
				return true
			}
			for _, pr := range [][2]ast.Expr{{be.X, be.Y}, {be.Y, be.X}} {
				if core.ConstName(info, pr[1]) != "BoxType" {
					continue
				}
				if se, ok := core.Unparen(pr[0]).(*ast.SelectorExpr); ok {
					if ie, ok := core.Unparen(se.X).(*ast.IndexExpr); ok {
						if sub, ok := core.Unparen(ie.Index).(*ast.BinaryExpr); ok && sub.Op == token.SUB {
							if v, ok := core.ConstInt(info, sub.Y); ok && v == 1 {
								byIndex = true
							}
						}
					}
				}
			}
			return true
		})
		if byIndex {
			r.OK("E4.glue-after-box", key, c.Pos(guard.Pos()), "the type of the item in front")
			return true
		}
		// flag form
		var flag types.Object
		ast.Inspect(guard, func(q ast.Node) bool {
			if id, ok := q.(*ast.Ident); ok && flag == nil {
				if o := core.ObjOf(info, id); o != nil {
					if bt, ok := o.Type().Underlying().(*types.Basic); ok && bt.Info()&types.IsBoolean != 0 {
						if _, isVar := o.(*types.Var); isVar {
							flag = o
						}
					}
				}
			}
			return true
		})
		if flag == nil {
			r.Fail("E4.glue-after-box", key, c.Pos(guard.Pos()), fmt.Sprintf("the guard `%s` tests neither the type of the previous item nor a flag", c.Src(guard)))
			return true
		}
		var assignsAll func(list []ast.Stmt) bool
		assignsAll = func(list []ast.Stmt) bool {
			for _, st := range list {
				switch x := st.(type) {
				case *ast.AssignStmt:
					for _, l := range x.Lhs {
						if id, ok := l.(*ast.Ident); ok && core.ObjOf(info, id) == flag {
							return true
						}
					}
				case *ast.IfStmt:
					if x.Else == nil {
						continue
					}
					all := assignsAll(x.Body.List)
					switch e := x.Else.(type) {
					case *ast.BlockStmt:
						all = all && assignsAll(e.List)
					case *ast.IfStmt:
						all = all && assignsAll([]ast.Stmt{e})
					}
					if all {
						return true
					}
				}
			}
			return false
		}
		if assignsAll(rs.Body.List) {
			r.OK("E4.glue-after-box", key, c.Pos(guard.Pos()), "a flag assigned on every path through the loop body")
		} else {
			r.Fail("E4.glue-after-box", key, c.Pos(guard.Pos()), fmt.Sprintf("the flag `%s` is not assigned on every path through the loop body: an item that enters no branch (a penalty of +∞) leaves it set, and the glue after `Box Penalty(+∞)` is tried as a breakpoint although that sequence is a tie", flag.Name()))
		}
		return true
	})
	r.Count("E4.glue-guards", n)
	r.Floor("E4.glue-guards", 1)
}

// E4FitnessChargeOnClassesOnly: the fitness charge depends on the two fitness classes and on nothing else.
func E4FitnessChargeOnClassesOnly(c *core.Ctx, r *core.Report) {
	r.Rule("E4.fitness-charge-on-classes-only", "Linebreak charges DemeritsFitness when the fitness classes of two consecutive lines differ by more than one; the start node of the paragraph carries a class like every other node, so the first line is charged against it too. The condition under which DemeritsFitness is added therefore reads, of the node the line starts from, the Fitness field only (and the class of the line being formed): a test of the node's line number, position or parent exempts some lines from the charge, and a paragraph whose first line is very loose is broken differently from what the demerit formula gives")
	p := c.MustPkg("text")
	info := p.TypesInfo
	n := 0
	for _, fd := range core.AllFuncDecls(p) {
		if fd.Body == nil {
			continue
		}
		ast.Inspect(fd.Body, func(m ast.Node) bool {
			is, ok := m.(*ast.IfStmt)
			if !ok {
				return true
			}
			adds := false
			for _, st := range is.Body.List {
				if as, ok := st.(*ast.AssignStmt); ok && as.Tok == token.ADD_ASSIGN && len(as.Rhs) == 1 {
					if id, ok := core.Unparen(as.Rhs[0]).(*ast.Ident); ok {
						if v, ok := info.Uses[id].(*types.Var); ok && v.Parent() == p.Types.Scope() && v.Name() == "DemeritsFitness" {
							adds = true
						}
					}
				}
			}
			if !adds {
				return true
			}
			n++
			key := fmt.Sprintf("text.%s|DemeritsFitness #%d depends on the fitness classes only", core.FuncName(fd), n)
			fitness, other := 0, ""
			ast.Inspect(is.Cond, func(q ast.Node) bool {
				se, ok := q.(*ast.SelectorExpr)
				if !ok {
					return true
				}
				if sel := info.Selections[se]; sel != nil && sel.Kind() == types.FieldVal {
					if isNamedDeref(sel.Recv(), "Breakpoint") {
						if se.Sel.Name == "Fitness" {
							fitness++
						} else if other == "" {
							other = c.Src(se)
						}
					}
				}
				return true
			})
			switch {
			case other != "":
				r.Fail("E4.fitness-charge-on-classes-only", key, c.Pos(is.Pos()), fmt.Sprintf("the condition `%s` also reads `%s`: lines for which that test fails are never charged for a jump in fitness class", c.Src(is.Cond), other))
			case fitness == 0:
				r.Fail("E4.fitness-charge-on-classes-only", key, c.Pos(is.Pos()), fmt.Sprintf("the condition `%s` does not read the Fitness of the node the line starts from", c.Src(is.Cond)))
			default:
				r.OK("E4.fitness-charge-on-classes-only", key, c.Pos(is.Pos()), c.Src(is.Cond))
			}
			return true
		})
	}
	r.Count("E4.fitness-charge-sites", n)
	r.Floor("E4.fitness-charge-sites", 1)
}

// E4SwallowedGlueStops: the sums after a break run up to the next box or forced break, past every other penalty.
func E4SwallowedGlueStops(c *core.Ctx, r *core.Report) {
	r.Rule("E4.swallowed-glue-stops", "a line starts at the first box after its break: the glue and the penalties in between are discarded (a forced break among them ends the empty line). computeSum adds the glue a break swallows to the running sums so that the next line's length is measured from that box. The condition under which its loop stops, evaluated per item class (box; glue; penalty that is ordinary, prohibited +Infinity or forced −Infinity, at a position after the break), holds for a box and for a forced break and for nothing else. Stopping at every legal penalty leaves out the glue behind it — with `Glue Penalty(0) Glue(space)` for one space in ragged text, the space after a newline or the second of two spaces — and the next line is taken to be one space longer than it is: right-aligned lines end short of the width and a box that fits the word gets an empty line")
	p := c.MustPkg("text")
	info := p.TypesInfo
	fd := core.MustFuncDecl(p, "linebreaker.computeSum")
	r.Func("text.linebreaker.computeSum")
	n := 0
	ast.Inspect(fd.Body, func(m ast.Node) bool {
		rs, ok := m.(*ast.RangeStmt)
		if !ok {
			return true
		}
		for _, st := range rs.Body.List {
			is, ok := st.(*ast.IfStmt)
			if !ok || len(is.Body.List) != 1 {
				continue
			}
			if bs, ok := is.Body.List[0].(*ast.BranchStmt); !ok || bs.Tok != token.BREAK {
				continue
			}
			n++
			key := fmt.Sprintf("text.linebreaker.computeSum|stop condition #%d holds for a box and a forced break only", n)
			type world struct {
				name, typ string
				pen       int // -1 forced, 0 ordinary, +1 prohibited
				want      bool
			}
			worlds := []world{{"a box", "BoxType", 0, true}, {"glue", "GlueType", 0, false}, {"an ordinary penalty", "PenaltyType", 0, false}, {"a prohibited break (+Infinity)", "PenaltyType", 1, false}, {"a forced break (-Infinity)", "PenaltyType", -1, true}}
			var wrong []string
			for _, w := range worlds {
				val := func(e ast.Expr) (int, bool) {
					e = core.Unparen(e)
					neg := 1
					if u, ok := e.(*ast.UnaryExpr); ok && u.Op == token.SUB {
						neg, e = -1, core.Unparen(u.X)
					}
					if id, ok := e.(*ast.Ident); ok && id.Name == "Infinity" {
						if v, ok := info.Uses[id].(*types.Var); ok && v.Parent() == p.Types.Scope() {
							return neg, true
						}
					}
					if se, ok := e.(*ast.SelectorExpr); ok && se.Sel.Name == "Penalty" && neg == 1 {
						return w.pen, true
					}
					return 0, false
				}
				got := evalBool(info, is.Cond, func(a ast.Expr) tri {
					be, ok := a.(*ast.BinaryExpr)
					if !ok {
						return tUnknown
					}
					// item.Type == K
					if be.Op == token.EQL || be.Op == token.NEQ {
						for _, pr := range [][2]ast.Expr{{be.X, be.Y}, {be.Y, be.X}} {
							if se, ok := core.Unparen(pr[0]).(*ast.SelectorExpr); ok && se.Sel.Name == "Type" {
								if k := core.ConstName(info, pr[1]); k != "" {
									return triOf((k == w.typ) == (be.Op == token.EQL))
								}
							}
						}
					}
					// position after the break: 0 < i
					if v, ok := core.ConstInt(info, be.X); ok && v == 0 && be.Op == token.LSS {
						if _, isID := core.Unparen(be.Y).(*ast.Ident); isID {
							return tTrue
						}
					}
					if v, ok := core.ConstInt(info, be.Y); ok && v == 0 && (be.Op == token.GTR || be.Op == token.NEQ) {
						if _, isID := core.Unparen(be.X).(*ast.Ident); isID {
							return tTrue
						}
					}
					l, ok1 := val(be.X)
					rr, ok2 := val(be.Y)
					if ok1 && ok2 {
						switch be.Op {
						case token.LSS:
							return triOf(l < rr)
						case token.LEQ:
							return triOf(l <= rr)
						case token.GTR:
							return triOf(l > rr)
						case token.GEQ:
							return triOf(l >= rr)
						case token.EQL:
							return triOf(l == rr)
						case token.NEQ:
							return triOf(l != rr)
						}
					}
					return tUnknown
				})
				switch {
				case got == tUnknown:
					wrong = append(wrong, "cannot be evaluated for "+w.name)
				case (got == tTrue) != w.want:
					if w.want {
						wrong = append(wrong, "does not stop at "+w.name)
					} else {
						wrong = append(wrong, "stops at "+w.name)
					}
				}
			}
			if len(wrong) == 0 {
				r.OK("E4.swallowed-glue-stops", key, c.Pos(is.Pos()), c.Src(is.Cond))
			} else {
				r.Fail("E4.swallowed-glue-stops", key, c.Pos(is.Pos()), fmt.Sprintf("`%s` %s: the glue behind it is swallowed by the break as well (the line starts at the next box) but is left out of the sums, so the next line is measured too long", c.Src(is.Cond), strings.Join(wrong, "; ")))
			}
		}
		return true
	})
	r.Count("E4.swallowed-glue-loops", n)
	r.Floor("E4.swallowed-glue-loops", 1)
}

// E4FeasibleWindow: a break is a candidate exactly when its line's ratio lies in [-1, tolerance].
func E4FeasibleWindow(c *core.Ctx, r *core.Report) {
	r.Rule("E4.feasible-window", "a break is feasible when the line it ends can be set within its glue: −1 ≤ ratio ≤ tolerance, the ratio being the one computed for that break (hyphen width included). In mainLoop the condition under which demerits are computed (the `if` whose body reads DemeritsLine) has two conjuncts on the variable assigned from computeAdjustmentRatio: a lower bound against the constant −1 and an upper bound. A flag in their place is not the same thing: `tooLong` is re-decided for a penalty with a width (whether the node may stay active for later breaks, which do not include that width), so `!tooLong` admits a hyphen break whose own line has ratio −1.25")
	p := c.MustPkg("text")
	info := p.TypesInfo
	fd := core.MustFuncDecl(p, "linebreaker.mainLoop")
	r.Func("text.linebreaker.mainLoop")
	var ratio types.Object
	ast.Inspect(fd.Body, func(m ast.Node) bool {
		as, ok := m.(*ast.AssignStmt)
		if !ok || len(as.Lhs) != 1 || len(as.Rhs) != 1 {
			return true
		}
		if ce, ok := core.Unparen(as.Rhs[0]).(*ast.CallExpr); ok {
			if f := core.CalleeOf(info, ce); f != nil && f.Name() == "computeAdjustmentRatio" {
				if id, ok := as.Lhs[0].(*ast.Ident); ok {
					ratio = core.ObjOf(info, id)
				}
			}
		}
		return true
	})
	n := 0
	isRatio := func(e ast.Expr) bool {
		id, ok := core.Unparen(e).(*ast.Ident)
		return ok && ratio != nil && core.ObjOf(info, id) == ratio
	}
	ast.Inspect(fd.Body, func(m ast.Node) bool {
		is, ok := m.(*ast.IfStmt)
		if !ok {
			return true
		}
		reads := false
		for _, st := range is.Body.List {
			ast.Inspect(st, func(q ast.Node) bool {
				if id, ok := q.(*ast.Ident); ok {
					if v, ok := info.Uses[id].(*types.Var); ok && v.Parent() == p.Types.Scope() && v.Name() == "DemeritsLine" {
						reads = true
					}
				}
				return true
			})
		}
		if !reads {
			return true
		}
		n++
		key := fmt.Sprintf("text.linebreaker.mainLoop|feasibility test #%d bounds the break's own ratio on both sides", n)
		lower, upper := false, false
		for _, t := range andTerms(is.Cond) {
			be, ok := t.(*ast.BinaryExpr)
			if !ok {
				continue
			}
			minus1 := func(e ast.Expr) bool {
				v := core.ConstVal(info, e)
				if v == nil {
					return false
				}
				f, _ := constant.Float64Val(constant.ToFloat(v))
				return f == -1
			}
			switch {
			case (be.Op == token.LEQ && minus1(be.X) && isRatio(be.Y)) || (be.Op == token.GEQ && isRatio(be.X) && minus1(be.Y)):
				lower = true
			case (be.Op == token.LEQ || be.Op == token.LSS) && isRatio(be.X) && !minus1(be.Y):
				upper = true
			case (be.Op == token.GEQ || be.Op == token.GTR) && isRatio(be.Y) && !minus1(be.X):
				upper = true
			}
		}
		if lower && upper {
			r.OK("E4.feasible-window", key, c.Pos(is.Pos()), c.Src(is.Cond))
		} else {
			what := "a lower bound `-1 <= ratio`"
			if lower {
				what = "an upper bound on the ratio"
			}
			r.Fail("E4.feasible-window", key, c.Pos(is.Pos()), fmt.Sprintf("`%s` has no conjunct that is %s of this break's own ratio: a break whose line cannot be shrunk to fit is given finite demerits and can win", c.Src(is.Cond), what))
		}
		return false
	})
	r.Count("E4.feasibility-tests", n)
	r.Floor("E4.feasibility-tests", 1)
}
