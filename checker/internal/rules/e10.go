package rules

import (
	"fmt"
	"go/ast"
	"go/constant"
	"go/token"
	"go/types"
	"sort"
	"strings"

	"canvascheck/internal/core"

	"golang.org/x/tools/go/packages"
)

// E10 — flatness typing: which commands a path value may contain (DESIGN.md §2 E10).
// A command set is a bit mask over M L Q C A Z plus, per parameter (receiver = -1), the mask
// of command kinds inherited from whatever that parameter contained.

const (
	kM = 1 << iota
	kL
	kQ
	kC
	kA
	kZ
	kAll = kM | kL | kQ | kC | kA | kZ
)

var cmdBit = map[string]uint8{"MoveToCmd": kM, "LineToCmd": kL, "QuadToCmd": kQ, "CubeToCmd": kC, "ArcToCmd": kA, "CloseCmd": kZ}

func maskStr(m uint8) string {
	var s []string
	for _, n := range []struct {
		b uint8
		s string
	}{{kM, "M"}, {kL, "L"}, {kQ, "Q"}, {kC, "C"}, {kA, "A"}, {kZ, "Z"}} {
		if m&n.b != 0 {
			s = append(s, n.s)
		}
	}
	return "{" + strings.Join(s, ",") + "}"
}

type cset struct {
	cmds uint8
	base map[int]uint8 // param index (-1 receiver) -> kinds inherited from it
}

func (a cset) union(b cset) cset {
	out := cset{cmds: a.cmds | b.cmds, base: map[int]uint8{}}
	for k, v := range a.base {
		out.base[k] |= v
	}
	for k, v := range b.base {
		out.base[k] |= v
	}
	return out
}

func (a cset) equal(b cset) bool {
	if a.cmds != b.cmds || len(a.base) != len(b.base) {
		return false
	}
	for k, v := range a.base {
		if b.base[k] != v {
			return false
		}
	}
	return true
}

func (a cset) String() string {
	s := maskStr(a.cmds)
	var ks []int
	for k := range a.base {
		ks = append(ks, k)
	}
	sort.Ints(ks)
	for _, k := range ks {
		s += fmt.Sprintf("+param%d%s", k, maskStr(a.base[k]))
	}
	return s
}

// instantiate maps the parameter bases of a callee-side set to the caller's argument sets.
func (a cset) instantiate(arg func(int) cset) cset {
	out := cset{cmds: a.cmds, base: map[int]uint8{}}
	for k, mask := range a.base {
		as := arg(k)
		out.cmds |= as.cmds & mask
		for bk, bm := range as.base {
			out.base[bk] |= bm & mask
		}
	}
	return out
}

type e10Sum struct {
	adds   map[int]cset // what the function may add to the path passed as parameter i (-1 receiver)
	result cset         // commands of the returned path (first *Path result)
	hasRes bool
}

type e10 struct {
	c     *core.Ctx
	p     *packages.Package
	info  *types.Info
	sums  map[*types.Func]*e10Sum
	decls map[*types.Func]*ast.FuncDecl
	dirty bool
}

func isPathPtr(t types.Type) bool {
	if t == nil {
		return false
	}
	pt, ok := t.(*types.Pointer)
	if !ok {
		return false
	}
	n, ok := pt.Elem().(*types.Named)
	return ok && n.Obj().Name() == "Path" && n.Obj().Pkg() != nil && n.Obj().Pkg().Path() == core.Module
}

// funcCtx analyses one function body (declaration or literal).
type e10Func struct {
	e      *e10
	params map[types.Object]int // path-typed parameters -> index (-1 receiver)
	vars   map[types.Object]cset
	lits   map[types.Object]*ast.FuncLit
	result cset
	hasRes bool
	adds   map[int]cset
}

func (e *e10) newFunc() *e10Func {
	return &e10Func{e: e, params: map[types.Object]int{}, vars: map[types.Object]cset{}, lits: map[types.Object]*ast.FuncLit{}, adds: map[int]cset{}}
}

func (f *e10Func) varSet(o types.Object) cset {
	s := f.vars[o]
	if idx, ok := f.params[o]; ok {
		s = s.union(cset{base: map[int]uint8{idx: kAll}})
		s = s.union(f.adds[idx])
	}
	return s
}

func (f *e10Func) addTo(o types.Object, s cset) {
	if o == nil {
		return
	}
	if idx, ok := f.params[o]; ok {
		n := f.adds[idx].union(s)
		if !n.equal(f.adds[idx]) {
			f.adds[idx] = n
			f.e.dirty = true
		}
		return
	}
	f.vars[o] = f.vars[o].union(s)
}

// replacerResult resolves a replace() argument: nil, a function, or a closure bound to a local.
func (f *e10Func) replacerResult(arg ast.Expr) (cset, bool) {
	info := f.e.info
	switch x := core.Unparen(arg).(type) {
	case *ast.Ident:
		if x.Name == "nil" {
			return cset{}, false
		}
		o := core.ObjOf(info, x)
		if fl, ok := f.lits[o]; ok {
			return f.litResult(fl), true
		}
		if fn, ok := o.(*types.Func); ok {
			if s := f.e.sums[fn]; s != nil {
				return cset{cmds: s.result.cmds}, true // replacers take points, not paths: no bases
			}
		}
	case *ast.FuncLit:
		return f.litResult(x), true
	}
	return cset{cmds: kAll}, true
}

func (f *e10Func) litResult(fl *ast.FuncLit) cset {
	sub := f.e.newFunc()
	for k, v := range f.lits {
		sub.lits[k] = v
	}
	// captured path variables keep the enclosing function's sets
	for k, v := range f.vars {
		sub.vars[k] = v
	}
	for k, v := range f.params {
		sub.params[k] = v
	}
	sub.walk(fl.Body)
	sub.walk(fl.Body)
	return sub.result
}

// exprSet computes the command set of a path-valued expression.
func (f *e10Func) exprSet(e ast.Expr) cset {
	info := f.e.info
	e = core.Unparen(e)
	switch x := e.(type) {
	case *ast.Ident:
		if x.Name == "nil" {
			return cset{}
		}
		return f.varSet(core.ObjOf(info, x))
	case *ast.UnaryExpr:
		if x.Op == token.AND {
			if cl, ok := x.X.(*ast.CompositeLit); ok {
				if len(cl.Elts) == 0 {
					return cset{}
				}
				return f.dataSet(cl.Elts[len(cl.Elts)-1])
			}
		}
	case *ast.CallExpr:
		fn := core.CalleeOf(info, x)
		if fn == nil {
			return cset{cmds: kAll}
		}
		se, isMethod := x.Fun.(*ast.SelectorExpr)
		if isMethod && isPathPtr(info.TypeOf(se.X)) && fn.Pkg() != nil && fn.Pkg().Path() == core.Module {
			recv := f.exprSet(se.X)
			switch fn.Name() {
			case "replace":
				if len(x.Args) == 4 {
					out := recv
					removed := uint8(0)
					kinds := []uint8{kL | kZ, kQ, kC, kA}
					for i, a := range x.Args {
						rs, nonNil := f.replacerResult(a)
						if nonNil {
							removed |= kinds[i]
							out = out.union(rs)
							if i == 0 {
								out.cmds |= kZ
							}
							out.cmds |= kM | kL // replace re-attaches with MoveTo/LineTo
						}
					}
					// drop the replaced kinds from what is inherited from the receiver
					fin := cset{cmds: out.cmds, base: map[int]uint8{}}
					// commands contributed by the receiver itself (not by replacers) lose the replaced kinds
					fin.cmds = (recv.cmds &^ removed) | (out.cmds &^ recv.cmds) | (out.cmds & recv.cmds &^ removed)
					for _, a := range x.Args {
						if rs, nonNil := f.replacerResult(a); nonNil {
							fin.cmds |= rs.cmds
						}
					}
					if removed != 0 {
						fin.cmds |= kM | kL
					}
					for k, m := range recv.base {
						fin.base[k] = m &^ removed
					}
					return fin
				}
			case "Join", "Append":
				out := recv
				for _, a := range x.Args {
					out = out.union(f.exprSet(a))
				}
				if fn.Name() == "Join" {
					// Join replays q's first command through the builders (same kinds) — no new kinds
				}
				return out
			case "Copy":
				return recv
			}
			if s := f.e.sums[fn]; s != nil {
				// least fixpoint: a summary not computed yet contributes nothing in this round
				return s.result.instantiate(func(i int) cset {
					if i == -1 {
						return recv
					}
					if i < len(x.Args) {
						return f.exprSet(x.Args[i])
					}
					return cset{cmds: kAll}
				})
			}
			return cset{cmds: kAll}
		}
		if s := f.e.sums[fn]; s != nil {
			return s.result.instantiate(func(i int) cset {
				if i >= 0 && i < len(x.Args) {
					return f.exprSet(x.Args[i])
				}
				return cset{cmds: kAll}
			})
		}
		return cset{cmds: kAll}
	case *ast.IndexExpr:
		// element of a []*Path: unknown unless tracked
		return cset{cmds: kAll}
	}
	return cset{cmds: kAll}
}

// dataSet: command set of a []float64 expression used as path data.
func (f *e10Func) dataSet(e ast.Expr) cset {
	info := f.e.info
	e = core.Unparen(e)
	switch x := e.(type) {
	case *ast.CompositeLit:
		out := cset{}
		for _, el := range x.Elts {
			if b, ok := cmdBit[core.ConstName(info, el)]; ok {
				out.cmds |= b
			}
		}
		return out
	case *ast.CallExpr:
		if id, ok := x.Fun.(*ast.Ident); ok && id.Name == "append" && len(x.Args) >= 1 {
			out := f.dataSet(x.Args[0])
			for _, a := range x.Args[1:] {
				if b, ok := cmdBit[core.ConstName(info, a)]; ok {
					out.cmds |= b
				} else if x.Ellipsis.IsValid() {
					out = out.union(f.dataSet(a))
				}
			}
			return out
		}
	case *ast.SliceExpr:
		return f.dataSet(x.X)
	case *ast.SelectorExpr:
		if core.IsPathDataSel(info, x) {
			return f.exprSet(x.X)
		}
	}
	return cset{cmds: kAll}
}

func (f *e10Func) walk(body *ast.BlockStmt) {
	info := f.e.info
	ast.Inspect(body, func(n ast.Node) bool {
		switch x := n.(type) {
		case *ast.FuncLit:
			return false
		case *ast.AssignStmt:
			for i, l := range x.Lhs {
				if len(x.Lhs) != len(x.Rhs) {
					break
				}
				rhs := x.Rhs[i]
				if id, ok := l.(*ast.Ident); ok {
					if fl, ok := core.Unparen(rhs).(*ast.FuncLit); ok {
						f.lits[core.ObjOf(info, id)] = fl
						continue
					}
					if isPathPtr(info.TypeOf(id)) {
						o := core.ObjOf(info, id)
						s := f.exprSet(rhs)
						if _, isParam := f.params[o]; isParam {
							// re-assigning a parameter variable: from now on it is a local alias; keep both
							f.vars[o] = f.vars[o].union(s)
						} else {
							f.vars[o] = f.vars[o].union(s)
						}
					}
				}
				// direct data manipulation: X.d = …, X.d[k] = Cmd
				if core.IsPathDataSel(info, l) {
					se := core.Unparen(l).(*ast.SelectorExpr)
					if root, ok := core.Unparen(se.X).(*ast.Ident); ok {
						f.addTo(core.ObjOf(info, root), f.dataSet(rhs))
					}
				}
				if ie, ok := core.Unparen(l).(*ast.IndexExpr); ok && core.IsPathDataSel(info, ie.X) {
					if b, ok := cmdBit[core.ConstName(info, rhs)]; ok {
						se := core.Unparen(ie.X).(*ast.SelectorExpr)
						if root, ok := core.Unparen(se.X).(*ast.Ident); ok {
							f.addTo(core.ObjOf(info, root), cset{cmds: b})
						}
					}
				}
			}
		case *ast.CallExpr:
			fn := core.CalleeOf(info, x)
			if fn == nil || fn.Pkg() == nil || fn.Pkg().Path() != core.Module {
				return true
			}
			s := f.e.sums[fn]
			if s == nil {
				return true
			}
			argSet := func(i int) cset {
				if i == -1 {
					if se, ok := x.Fun.(*ast.SelectorExpr); ok {
						return f.exprSet(se.X)
					}
				}
				if i >= 0 && i < len(x.Args) {
					return f.exprSet(x.Args[i])
				}
				return cset{cmds: kAll}
			}
			for idx, add := range s.adds {
				var target ast.Expr
				if idx == -1 {
					if se, ok := x.Fun.(*ast.SelectorExpr); ok {
						target = se.X
					}
				} else if idx < len(x.Args) {
					target = x.Args[idx]
				}
				if id, ok := core.Unparen(target).(*ast.Ident); ok && target != nil {
					f.addTo(core.ObjOf(info, id), add.instantiate(argSet))
				}
			}
		case *ast.ReturnStmt:
			for _, res := range x.Results {
				if isPathPtr(info.TypeOf(res)) {
					n := f.result.union(f.exprSet(res))
					f.result = n
					f.hasRes = true
					break
				}
			}
		}
		return true
	})
}

func (e *e10) analyze(fn *types.Func, fd *ast.FuncDecl) {
	f := e.newFunc()
	if fd.Recv != nil && len(fd.Recv.List) == 1 && len(fd.Recv.List[0].Names) == 1 && isPathPtr(e.info.TypeOf(fd.Recv.List[0].Type)) {
		f.params[e.info.Defs[fd.Recv.List[0].Names[0]]] = -1
	}
	idx := 0
	for _, fl := range fd.Type.Params.List {
		for _, n := range fl.Names {
			if isPathPtr(e.info.TypeOf(fl.Type)) {
				f.params[e.info.Defs[n]] = idx
			}
			idx++
		}
		if len(fl.Names) == 0 {
			idx++
		}
	}
	s := e.sums[fn]
	for k, v := range s.adds {
		f.adds[k] = v
	}
	f.walk(fd.Body)
	f.walk(fd.Body) // second pass: sets of variables assigned later in the body are visible to earlier uses (loops)
	for k, v := range f.adds {
		if !v.equal(s.adds[k]) {
			s.adds[k] = v
			e.dirty = true
		}
	}
	if f.hasRes {
		n := s.result.union(f.result)
		if !n.equal(s.result) || !s.hasRes {
			s.result, s.hasRes = n, true
			e.dirty = true
		}
	}
}

// E10Flatness decides the flatness typing obligations.
func E10Flatness(c *core.Ctx, r *core.Report) {
	r.Rule("E10.command-set", "command-set typing of *Path values over package canvas (builders add their commands, Join/Append union, helpers get 'adds to parameter' summaries, results get command-set summaries, replace removes kind K iff the K replacer is non-nil and the replacer's result lacks K; least fixpoint over mutually recursive flatteners): Flatten's result contains only MoveTo/LineTo/Close plus such commands of the receiver; ReplaceArcs's result contains no ArcTo")
	r.Rule("E10.replace-shape", "(*Path).replace is validated structurally: each case K calls its replacer iff it is non-nil and assigns the result to q; when q != nil the original record is cut off before Join(q) and the remainder is re-attached afterwards; the cursor is set to the start of the re-attached remainder")
	r.Rule("E10.consumer", "consumers that assume flat or arc-free paths only see such paths: ToPDF and Tile replace arcs before the loop whose ArcTo case panics; the stride-4 loops of ToScanxScanner/ToVectorRasterizer walk results of the flatteners; bentleyOttmann flattens every element of ps and qs before AddPathEndpoints")
	p := c.MustPkg("")
	e := &e10{c: c, p: p, info: p.TypesInfo, sums: map[*types.Func]*e10Sum{}, decls: map[*types.Func]*ast.FuncDecl{}}
	for _, fd := range core.AllFuncDecls(p) {
		if fn, ok := p.TypesInfo.Defs[fd.Name].(*types.Func); ok {
			e.decls[fn] = fd
			e.sums[fn] = &e10Sum{adds: map[int]cset{}}
		}
	}
	var fns []*types.Func
	for fn := range e.decls {
		fns = append(fns, fn)
	}
	sort.Slice(fns, func(i, j int) bool { return fns[i].FullName() < fns[j].FullName() })
	rounds := 0
	for ; rounds < 20; rounds++ {
		e.dirty = false
		for _, fn := range fns {
			e.analyze(fn, e.decls[fn])
		}
		if !e.dirty {
			break
		}
	}
	r.Count("E10.functions", len(fns))
	r.Note("E10 fixpoint after %d rounds over %d functions", rounds+1, len(fns))
	look := func(name string) (*types.Func, *e10Sum) {
		fd := core.MustFuncDecl(p, name)
		fn := p.TypesInfo.Defs[fd.Name].(*types.Func)
		return fn, e.sums[fn]
	}
	// builders: sanity anchors
	for name, want := range map[string]uint8{"Path.MoveTo": kM, "Path.LineTo": kL, "Path.Close": kZ} {
		_, s := look(name)
		got := s.adds[-1].cmds
		key := "canvas." + name + "|adds"
		if got&want != 0 && got&(kQ|kC|kA) == 0 {
			r.OK("E10.command-set", key, "", maskStr(got))
		} else {
			r.Fail("E10.command-set", key, "", fmt.Sprintf("builder summary %s is not the expected flat command %s", maskStr(got), maskStr(want)))
		}
	}
	check := func(name string, forbidden uint8, what string) {
		fd := core.MustFuncDecl(p, name)
		_, s := look(name)
		r.Func("canvas." + name)
		key := "canvas." + name + "|result"
		bad := s.result.cmds & forbidden
		for _, m := range s.result.base {
			bad |= m & forbidden
		}
		if !s.hasRes {
			r.Fail("E10.command-set", key, c.Pos(fd.Pos()), "no result summary computed")
		} else if bad != 0 {
			r.Fail("E10.command-set", key, c.Pos(fd.Pos()), fmt.Sprintf("the result may contain %s (%s): %s", maskStr(bad), s.result, what))
		} else {
			r.OK("E10.command-set", key, c.Pos(fd.Pos()), s.result.String())
		}
	}
	check("Path.Flatten", kQ|kC|kA, "Flatten must return a path made only of straight segments")
	check("Path.ReplaceArcs", kA, "ReplaceArcs must return a path without elliptical arcs")
	for _, fl := range []string{"flattenQuadraticBezier", "flattenCubicBezier", "flattenEllipticArc", "strokeCubicBezier"} {
		check(fl, kQ|kC|kA, "the flattener feeds stride-4 consumers and Flatten")
	}
	check("arcToCube", kA, "arcToCube is ReplaceArcs' replacer")
	e10ReplaceShape(c, r, p)
	e10Consumers(c, r, p, e)
	r.Floor("E10.functions", 300)
}

func e10ReplaceShape(c *core.Ctx, r *core.Report, p *packages.Package) {
	info := p.TypesInfo
	fd := core.MustFuncDecl(p, "Path.replace")
	r.Func("canvas.Path.replace")
	params := map[string]types.Object{}
	for _, f := range fd.Type.Params.List {
		for _, n := range f.Names {
			params[n.Name] = info.Defs[n]
		}
	}
	want := map[string]string{"QuadToCmd": "quad", "CubeToCmd": "cube", "ArcToCmd": "arc", "LineToCmd": "line"}
	clauses := cmdSwitchClauses(p, fd)
	seen := 0
	for _, cc := range clauses {
		consts := core.CaseConsts(info, cc)
		rep := want[consts[0]]
		if rep == "" {
			continue
		}
		seen++
		key := "canvas.Path.replace|case " + strings.Join(consts, ",")
		ok := false
		if len(cc.Body) == 1 {
			if is, isIf := cc.Body[0].(*ast.IfStmt); isIf && is.Else == nil {
				if be, isBin := core.Unparen(is.Cond).(*ast.BinaryExpr); isBin && be.Op == token.NEQ {
					id, _ := core.Unparen(be.X).(*ast.Ident)
					nl, _ := core.Unparen(be.Y).(*ast.Ident)
					if id != nil && nl != nil && nl.Name == "nil" && core.ObjOf(info, id) == params[rep] {
						// q = rep(…)
						for _, s := range is.Body.List {
							if as, isAs := s.(*ast.AssignStmt); isAs && len(as.Lhs) == 1 && len(as.Rhs) == 1 {
								if l, isId := as.Lhs[0].(*ast.Ident); isId && isPathPtr(info.TypeOf(l)) {
									if call, isCall := core.Unparen(as.Rhs[0]).(*ast.CallExpr); isCall {
										if fid, isFid := call.Fun.(*ast.Ident); isFid && core.ObjOf(info, fid) == params[rep] {
											ok = true
										}
									}
								}
							}
						}
					}
				}
			}
		}
		if ok {
			r.OK("E10.replace-shape", key, c.Pos(cc.Pos()), "if "+rep+" != nil { … q = "+rep+"(…) }")
		} else {
			r.Fail("E10.replace-shape", key, c.Pos(cc.Pos()), "the case does not call exactly its own replacer `"+rep+"` when it is non-nil and assign the result to q: a segment kind would survive Flatten/ReplaceArcs")
		}
	}
	if seen != 4 {
		r.Fail("E10.replace-shape", "canvas.Path.replace|cases", c.Pos(fd.Pos()), fmt.Sprintf("expected cases for line/close, quad, cube and arc; found %d", seen))
	}
	// the `if q != nil { … }` block: cut, join q, i = len(p.d), join remainder
	var blk *ast.IfStmt
	ast.Inspect(fd.Body, func(n ast.Node) bool {
		if is, ok := n.(*ast.IfStmt); ok && core.AlphaMatch("$q!=nil", c.Norm(p, is.Cond)) {
			if id, isId := core.Unparen(is.Cond.(*ast.BinaryExpr).X).(*ast.Ident); isId {
				if _, isPath := info.TypeOf(id).(*types.Pointer); isPath {
					blk = is
				}
			}
		}
		return true
	})
	key := "canvas.Path.replace|splice"
	if blk == nil {
		r.Fail("E10.replace-shape", key, c.Pos(fd.Pos()), "no `if q != nil` splice block")
		return
	}
	n, seq := 0, false
	// the sum in the remainder's lower bound may be written in either operand order
	for _, first := range []string{
		"$r:=&Path{append([]float64{MoveToCmd,$end.X,$end.Y,MoveToCmd},$p.d[$i+cmdLen($cmd):]...)}",
		"$r:=&Path{append([]float64{MoveToCmd,$end.X,$end.Y,MoveToCmd},$p.d[cmdLen($cmd)+$i:]...)}",
	} {
		k, ok := core.AlphaSeq(c.Norm(p, fd), first,
			"$p.d=$p.d[:$i:",
			"$p=$p.Join($q)",
			"$i=len($p.d)",
			"$p=$p.Join($r)")
		if k > n {
			n = k
		}
		seq = seq || ok
	}
	if seq {
		r.OK("E10.replace-shape", key, c.Pos(blk.Pos()), "save remainder; cut record; Join(q); i = len(p.d); Join(remainder)")
	} else {
		r.Fail("E10.replace-shape", key, c.Pos(blk.Pos()), fmt.Sprintf("the splice sequence (save remainder r, cut p.d[:i:…], p = p.Join(q), i = len(p.d), p = p.Join(r)) was only matched up to step %d: the replaced record could survive or the cursor could skip commands of the remainder", n))
	}
}

func e10Consumers(c *core.Ctx, r *core.Report, p *packages.Package, e *e10) {
	info := p.TypesInfo
	// (1) ReplaceArcs precedes loops whose ArcTo case panics
	for _, name := range []string{"Path.ToPDF", "Path.Tile"} {
		fd := core.FuncDecl(p, name)
		if fd == nil {
			continue
		}
		recv := recvObj(info, fd)
		var replacedAt token.Pos
		for _, s := range fd.Body.List {
			if as, ok := s.(*ast.AssignStmt); ok && len(as.Lhs) == 1 && len(as.Rhs) == 1 {
				if id, ok := as.Lhs[0].(*ast.Ident); ok && core.ObjOf(info, id) == recv {
					rootID := func() *ast.Ident {
						if call, ok := core.Unparen(as.Rhs[0]).(*ast.CallExpr); ok {
							if se, ok := call.Fun.(*ast.SelectorExpr); ok {
								rid, _ := core.Unparen(se.X).(*ast.Ident)
								return rid
							}
						}
						return nil
					}()
					if core.AlphaMatch("$p.ReplaceArcs()", c.Norm(p, as.Rhs[0])) && rootID != nil && core.ObjOf(info, rootID) == recv {
						replacedAt = as.Pos()
					} else {
						replacedAt = token.NoPos
					}
				}
			}
		}
		var panicPos token.Pos
		ast.Inspect(fd.Body, func(n ast.Node) bool {
			if cc, ok := n.(*ast.CaseClause); ok {
				for _, k := range core.CaseConsts(info, cc) {
					if k == "ArcToCmd" {
						for _, s := range cc.Body {
							if es, ok := s.(*ast.ExprStmt); ok {
								if call, ok := es.X.(*ast.CallExpr); ok {
									if id, ok := call.Fun.(*ast.Ident); ok && id.Name == "panic" {
										panicPos = call.Pos()
									}
								}
							}
						}
					}
				}
			}
			return true
		})
		key := "canvas." + name + "|arcs replaced before the loop"
		if !panicPos.IsValid() {
			continue
		}
		if replacedAt.IsValid() && replacedAt < panicPos {
			r.OK("E10.consumer", key, c.Pos(replacedAt), "p = p.ReplaceArcs() precedes the loop")
		} else {
			r.Fail("E10.consumer", key, c.Pos(panicPos), "the loop panics on ArcTo but the path is not replaced by p.ReplaceArcs() beforehand: any path with an arc panics")
		}
	}
	// (2) stride-4 loops walk flattener results
	for _, name := range []string{"Path.ToScanxScanner", "Path.ToVectorRasterizer"} {
		fd := core.MustFuncDecl(p, name)
		n := 0
		ast.Inspect(fd.Body, func(nd ast.Node) bool {
			fs, ok := nd.(*ast.ForStmt)
			if !ok || fs.Post == nil {
				return true
			}
			post, ok := fs.Post.(*ast.AssignStmt)
			if !ok || post.Tok != token.ADD_ASSIGN {
				return true
			}
			if v, ok := core.ConstInt(info, post.Rhs[0]); !ok || v != 4 {
				return true
			}
			// which path is walked: the one in the condition len(X.d)
			var walked *ast.Ident
			ast.Inspect(fs.Cond, func(m ast.Node) bool {
				if se, ok := m.(*ast.SelectorExpr); ok && core.IsPathDataSel(info, se) {
					walked, _ = core.Unparen(se.X).(*ast.Ident)
				}
				return true
			})
			if walked == nil {
				return true
			}
			n++
			key := fmt.Sprintf("canvas.%s|stride-4 loop over %s", name, walked.Name)
			// all assignments to that variable in the function come from flat-result functions
			wo := core.ObjOf(info, walked)
			allFlat, cnt := true, 0
			ast.Inspect(fd.Body, func(m ast.Node) bool {
				as, ok := m.(*ast.AssignStmt)
				if !ok || len(as.Lhs) != len(as.Rhs) {
					return true
				}
				for i, l := range as.Lhs {
					if id, ok := l.(*ast.Ident); ok && core.ObjOf(info, id) == wo {
						cnt++
						call, ok := core.Unparen(as.Rhs[i]).(*ast.CallExpr)
						if !ok {
							allFlat = false
							continue
						}
						fn := core.CalleeOf(info, call)
						s := e.sums[fn]
						if fn == nil || s == nil || !s.hasRes || s.result.cmds&(kQ|kC|kA) != 0 || len(s.result.base) != 0 {
							allFlat = false
						}
					}
				}
				return true
			})
			if allFlat && cnt > 0 {
				r.OK("E10.consumer", key, c.Pos(fs.Pos()), fmt.Sprintf("%d assignments, all from flatteners with result ⊆ {M,L,Z}", cnt))
			} else {
				r.Fail("E10.consumer", key, c.Pos(fs.Pos()), "the loop steps through the data four values at a time but the path may contain longer records (a curve), so it would read coordinates out of frame")
			}
			return true
		})
		r.Count("E10.stride-loops", n)
	}
	r.Floor("E10.stride-loops", 2)
	// (3) bentleyOttmann flattens every operand element before AddPathEndpoints
	fd := core.MustFuncDecl(p, "bentleyOttmann")
	firstAdd := token.NoPos
	ast.Inspect(fd.Body, func(n ast.Node) bool {
		if call, ok := n.(*ast.CallExpr); ok {
			if f := core.CalleeOf(info, call); f != nil && f.Name() == "AddPathEndpoints" && !firstAdd.IsValid() {
				firstAdd = call.Pos()
			}
		}
		return true
	})
	for _, v := range []string{"ps", "qs"} {
		var loopPos token.Pos
		ast.Inspect(fd.Body, func(n ast.Node) bool {
			rs, ok := n.(*ast.RangeStmt)
			if !ok || types.ExprString(rs.X) != v || len(rs.Body.List) != 1 {
				return true
			}
			if core.AlphaMatch("$v[$i]=$v[$i].Flatten(Tolerance)", c.Norm(p, rs.Body.List[0])) {
				loopPos = rs.Pos()
			}
			return true
		})
		// no growth of the slice after the flatten loop
		grown := false
		ast.Inspect(fd.Body, func(n ast.Node) bool {
			if as, ok := n.(*ast.AssignStmt); ok && loopPos.IsValid() && as.Pos() > loopPos && len(as.Lhs) == 1 && types.ExprString(as.Lhs[0]) == v {
				grown = true
			}
			return true
		})
		key := "canvas.bentleyOttmann|" + v + " flattened before the sweep"
		if loopPos.IsValid() && firstAdd.IsValid() && loopPos < firstAdd && !grown {
			r.OK("E10.consumer", key, c.Pos(loopPos), "for i := range "+v+" { "+v+"[i] = "+v+"[i].Flatten(Tolerance) }")
		} else {
			r.Fail("E10.consumer", key, c.Pos(fd.Pos()), "not every element of "+v+" is replaced by its flattening before AddPathEndpoints (which panics on curves)")
		}
	}
}

// E10FlatRestTurningPoint: the flat rest of a quadratic Bézier may still overshoot along its chord.
func E10FlatRestTurningPoint(c *core.Ctx, r *core.Report) {
	r.Rule("E10.flat-rest-turning-point", "flattenQuadraticBezier steps by the perpendicular deviation of the control point and leaves its loop when one step covers the rest of the curve. With the control point (nearly) on the line through the end points and beyond one of them, that happens at once although the curve runs past the end point and turns around (`M0 0Q10 0 5 0` reaches x = 6.67). On the path that leaves the loop because the step reaches 1 the function therefore looks at the curve along its chord (a Dot product with p2 − p0) and can emit a vertex; a bare `break` emits only the chord, at any tolerance")
	p := c.MustPkg("")
	info := p.TypesInfo
	fd := core.MustFuncDecl(p, "flattenQuadraticBezier")
	n := 0
	ast.Inspect(fd.Body, func(m ast.Node) bool {
		is, ok := m.(*ast.IfStmt)
		if !ok || len(is.Body.List) == 0 {
			return true
		}
		if br, ok := is.Body.List[len(is.Body.List)-1].(*ast.BranchStmt); !ok || br.Tok != token.BREAK {
			return true
		}
		be, ok := core.Unparen(is.Cond).(*ast.BinaryExpr)
		if !ok {
			return true
		}
		one := false
		for _, side := range []ast.Expr{be.X, be.Y} {
			if v := core.ConstVal(info, side); v != nil {
				if f, _ := constant.Float64Val(constant.ToFloat(v)); f == 1.0 {
					one = true
				}
			}
		}
		if !one || (be.Op != token.LEQ && be.Op != token.GEQ && be.Op != token.LSS && be.Op != token.GTR) {
			return true
		}
		n++
		key := fmt.Sprintf("canvas.flattenQuadraticBezier|exit #%d when one step covers the rest", n)
		dots, emits := false, false
		ast.Inspect(is.Body, func(k ast.Node) bool {
			if call, ok := k.(*ast.CallExpr); ok {
				if f := core.CalleeOf(info, call); f != nil {
					switch f.Name() {
					case "Dot":
						dots = true
					case "LineTo":
						emits = true
					}
				}
			}
			return true
		})
		// a curve that returns to its start has no chord to look along: that case is tested and emits too
		loopCase := false
		ast.Inspect(is.Body, func(k ast.Node) bool {
			inner, ok := k.(*ast.IfStmt)
			if !ok {
				return true
			}
			zeroTest := false
			ast.Inspect(inner.Cond, func(q ast.Node) bool {
				switch x := q.(type) {
				case *ast.BinaryExpr:
					if x.Op == token.EQL {
						for _, side := range []ast.Expr{x.X, x.Y} {
							if v := core.ConstVal(info, side); v != nil && numSign(v) == 0 {
								zeroTest = true
							}
						}
					}
				case *ast.CallExpr:
					if f := core.CalleeOf(info, x); f != nil && f.Name() == "Equals" {
						zeroTest = true
					}
				}
				return true
			})
			if !zeroTest {
				return true
			}
			ast.Inspect(inner.Body, func(q ast.Node) bool {
				if call, ok := q.(*ast.CallExpr); ok {
					if f := core.CalleeOf(info, call); f != nil && f.Name() == "LineTo" {
						loopCase = true
					}
				}
				return true
			})
			return true
		})
		key2 := fmt.Sprintf("canvas.flattenQuadraticBezier|exit #%d|curve that returns to its start", n)
		if loopCase {
			r.OK("E10.flat-rest-turning-point", key2, c.Pos(is.Pos()), "")
		} else {
			r.Fail("E10.flat-rest-turning-point", key2, c.Pos(is.Pos()), "no case for a chord of length zero: a quadratic that ends where it starts (`M0 0Q50 50 0 0`, length 70.7) is flattened to its start point alone")
		}
		if dots && emits {
			r.OK("E10.flat-rest-turning-point", key, c.Pos(is.Pos()), "")
		} else {
			r.Fail("E10.flat-rest-turning-point", key, c.Pos(is.Pos()), "the loop is left with the chord alone: a control point on the line through the end points and beyond one of them makes the curve overshoot and turn around, and the stretch beyond the end point is lost at any tolerance (`M0 0Q10 0 5 0` → `M0 0L5 0`)")
		}
		return true
	})
	r.Count("E10.flat-rest-exits", n)
	r.Floor("E10.flat-rest-exits", 1)
}
