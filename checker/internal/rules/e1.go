package rules

import (
	"fmt"
	"go/token"
	"go/types"
	"os"
	"sort"
	"strings"

	"canvascheck/internal/core"

	"golang.org/x/tools/go/callgraph"
	"golang.org/x/tools/go/ssa"
)

// E1 — borrow/mutation effect analysis on SSA (DESIGN.md §2 E1). Abstract objects: per
// parameter three load-depth levels, allocation sites with contents, package-level variables.
// Function summaries: W (parameter levels written), Gw (globals written), R (result shapes).

const maxLevel = 2

type objKind int

const (
	kParam objKind = iota
	kAlloc
	kGlobal
)

type obj struct {
	kind  objKind
	param int
	level int
	site  ssa.Value
	sub   int // for call-result fresh nodes: 0 or 1
	glob  *ssa.Global
	// field sub-objects of allocation sites (field-sensitive contents, one level)
	base   *obj
	field  int
	fields map[int]*obj
}

type objset map[*obj]bool

func (s objset) addAll(o objset) bool {
	ch := false
	for k := range o {
		if !s[k] {
			s[k] = true
			ch = true
		}
	}
	return ch
}

// result shape reference
type ref struct {
	kind  int // 0 param, 1 fresh0, 2 fresh1, 3 global
	param int
	level int
	glob  *ssa.Global
}

type shape struct {
	top map[ref]bool
	f0  map[ref]bool
	f1  map[ref]bool
}

func newShape() *shape { return &shape{top: map[ref]bool{}, f0: map[ref]bool{}, f1: map[ref]bool{}} }

type wkey struct{ param, level int }

type summary struct {
	fn *ssa.Function
	W  map[wkey]string
	Gw map[*ssa.Global]string
	R  []*shape
	CB map[string]cbRec // invocations of function-typed parameters
	// WS: every distinct first hop ("store" or the callee called from this function) through which a
	// parameter's memory is written; not propagated to callers, used for per-call-site obligations
	WS map[wkey]map[string]string
}

type analyzer struct {
	c       *core.Ctx
	prog    *ssa.Program
	cg      *callgraph.Graph
	sums    map[*ssa.Function]*summary
	fset    *token.FileSet
	extPure map[string]bool
	dirty   bool
	// unresolved call sites per function (no callee known to VTA and not in the leaf table)
	unresolved map[*ssa.Function]map[string]bool
	// direct callees per function (for transitive queries)
	calls map[*ssa.Function]map[*ssa.Function]bool
	// functions whose copy-on-write latch was verified: their own body's writes through the
	// receiver are writes to the fresh copy
	latchOK map[*ssa.Function]bool
	// reviewed call edges: "caller -> callee|param level" => reason
	edgeExceptions map[string]string
	usedExceptions map[string]bool
}

func hasPtr(t types.Type) bool { return hasPtr0(t, map[types.Type]bool{}) }
func hasPtr0(t types.Type, seen map[types.Type]bool) bool {
	if seen[t] {
		return false
	}
	seen[t] = true
	switch u := t.Underlying().(type) {
	case *types.Basic:
		return u.Kind() == types.UnsafePointer
	case *types.Pointer, *types.Slice, *types.Map, *types.Chan, *types.Signature, *types.Interface:
		return true
	case *types.Struct:
		for i := 0; i < u.NumFields(); i++ {
			if hasPtr0(u.Field(i).Type(), seen) {
				return true
			}
		}
	case *types.Array:
		return hasPtr0(u.Elem(), seen)
	case *types.Tuple:
		for i := 0; i < u.Len(); i++ {
			if hasPtr0(u.At(i).Type(), seen) {
				return true
			}
		}
	}
	return false
}

func elemHasPtr(t types.Type) bool {
	switch u := t.Underlying().(type) {
	case *types.Slice:
		return hasPtr(u.Elem())
	case *types.Basic:
		return false
	}
	return true
}

func (a *analyzer) pos(p token.Pos) string { return a.c.Pos(p) }

func inScope(fn *ssa.Function) bool {
	p := fn.Pkg
	if p == nil && fn.Origin() != nil {
		p = fn.Origin().Pkg
	}
	if p == nil {
		if fn.Parent() != nil {
			return inScope(fn.Parent())
		}
		return false
	}
	path := p.Pkg.Path()
	first := path
	if i := strings.Index(path, "/"); i >= 0 {
		first = path[:i]
	}
	return strings.Contains(first, ".")
}

// mutators: the standard-library leaf functions that write memory reachable from an argument.
// Every other function outside the analysed scope is assumed pure and listed in the evidence.
var mutators = map[string][]wkey{
	"sort.Float64s": {{0, 0}}, "sort.Ints": {{0, 0}}, "sort.Strings": {{0, 0}}, "sort.Sort": {{0, 0}, {0, 1}}, "sort.Stable": {{0, 0}, {0, 1}},
	"sort.Slice": {{0, 0}}, "sort.SliceStable": {{0, 0}},
	"slices.Sort": {{0, 0}}, "slices.SortFunc": {{0, 0}}, "slices.SortStableFunc": {{0, 0}}, "slices.Reverse": {{0, 0}},
	"(*encoding/gob.Decoder).Decode": {{1, 0}, {1, 1}},
	"(*image.RGBA).SetRGBA":          {{0, 0}, {0, 1}}, "(*image.RGBA).Set": {{0, 0}, {0, 1}},
	"(*image.NRGBA).Set": {{0, 0}, {0, 1}}, "(*image.Gray).SetGray": {{0, 0}, {0, 1}},
	"(*bytes.Buffer).Write": {{0, 0}, {0, 1}}, "(*bytes.Buffer).WriteString": {{0, 0}, {0, 1}}, "(*bytes.Buffer).WriteByte": {{0, 0}, {0, 1}}, "(*bytes.Buffer).WriteRune": {{0, 0}, {0, 1}},
	"(*bytes.Buffer).Reset": {{0, 0}, {0, 1}}, "(*bytes.Buffer).ReadFrom": {{0, 0}, {0, 1}},
	"(*strings.Builder).WriteString": {{0, 0}, {0, 1}}, "(*strings.Builder).WriteByte": {{0, 0}, {0, 1}}, "(*strings.Builder).WriteRune": {{0, 0}, {0, 1}}, "(*strings.Builder).Write": {{0, 0}, {0, 1}},
	"fmt.Fprintf": {{0, 0}, {0, 1}}, "fmt.Fprint": {{0, 0}, {0, 1}}, "fmt.Fprintln": {{0, 0}, {0, 1}},
	"image/draw.Draw": {{0, 0}, {0, 1}}, "image/draw.DrawMask": {{0, 0}, {0, 1}},
	"(*sync.Pool).Put": {}, "(*sync.Pool).Get": {},
	"io.ReadFull": {{1, 0}}, "io.Copy": {{0, 0}, {0, 1}},
}

// invokeLeaves: interface methods of the standard library that are called on values whose
// implementation is outside the program (writers, readers, images supplied by the caller).
// They are output/input sinks or pure queries, not writes to the memory this analysis tracks.
var invokeLeaves = map[string]bool{
	"Write": true, "WriteString": true, "WriteByte": true, "Read": true, "Close": true, "Flush": true,
	"At": true, "Bounds": true, "ColorModel": true, "RGBA": true, "Convert": true, "Error": true, "String": true,
	"Set": false,
}

func (a *analyzer) summarize(fn *ssa.Function) *summary {
	if s, ok := a.sums[fn]; ok {
		return s
	}
	s := &summary{fn: fn, W: map[wkey]string{}, Gw: map[*ssa.Global]string{}}
	nres := fn.Signature.Results().Len()
	s.R = make([]*shape, nres)
	for i := range s.R {
		s.R[i] = newShape()
	}
	a.sums[fn] = s
	a.dirty = true
	if fn.Blocks == nil || !inScope(fn) {
		name := fn.String()
		if o := fn.Origin(); o != nil {
			name = o.String()
		}
		if m, ok := mutators[name]; ok {
			for _, k := range m {
				s.W[k] = "external " + name
			}
		} else {
			a.extPure[name] = true
		}
		return s
	}
	a.analyze(fn, s)
	return s
}

type fstate struct {
	a        *analyzer
	fn       *ssa.Function
	s        *summary
	pts      map[ssa.Value]objset
	tup      map[ssa.Value][]objset
	contents map[*obj]objset
	params   map[wkey]*obj
	allocs   map[[2]interface{}]*obj
	globs    map[[2]interface{}]*obj
	changed  bool
}

func (st *fstate) paramObj(i, lvl int) *obj {
	if lvl > maxLevel {
		lvl = maxLevel
	}
	k := wkey{i, lvl}
	o := st.params[k]
	if o == nil {
		o = &obj{kind: kParam, param: i, level: lvl}
		st.params[k] = o
	}
	return o
}
func (st *fstate) globObj(g *ssa.Global, lvl int) *obj {
	if lvl > maxLevel {
		lvl = maxLevel
	}
	k := [2]interface{}{g, lvl}
	o := st.globs[k]
	if o == nil {
		o = &obj{kind: kGlobal, glob: g, level: lvl}
		st.globs[k] = o
	}
	return o
}

// fieldObj returns the sub-object for field f of an allocation object (params/globals stay field-insensitive).
func (st *fstate) fieldObj(o *obj, f int) *obj {
	if o.kind != kAlloc || o.base != nil {
		return o
	}
	if o.fields == nil {
		o.fields = map[int]*obj{}
	}
	fo := o.fields[f]
	if fo == nil {
		fo = &obj{kind: kAlloc, site: o.site, sub: o.sub, base: o, field: f}
		o.fields[f] = fo
	}
	return fo
}

func (st *fstate) allocObj(v ssa.Value, sub int) *obj {
	k := [2]interface{}{v, sub}
	o := st.allocs[k]
	if o == nil {
		o = &obj{kind: kAlloc, site: v, sub: sub}
		st.allocs[k] = o
	}
	return o
}

func (st *fstate) get(v ssa.Value) objset {
	switch v := v.(type) {
	case *ssa.Global:
		return objset{st.globObj(v, 0): true}
	case *ssa.Const, *ssa.Function, *ssa.Builtin:
		return nil
	}
	return st.pts[v]
}
func (st *fstate) add(v ssa.Value, o objset) {
	if len(o) == 0 {
		return
	}
	if st.pts[v] == nil {
		st.pts[v] = objset{}
	}
	if st.pts[v].addAll(o) {
		st.changed = true
	}
}

// load one level
func (st *fstate) load(in objset) objset {
	out := objset{}
	for o := range in {
		switch o.kind {
		case kParam:
			out[st.paramObj(o.param, o.level+1)] = true
		case kGlobal:
			out[st.globObj(o.glob, o.level+1)] = true
		case kAlloc:
			out.addAll(st.contents[o])
			if o.base != nil {
				// whole-struct stores into the allocation reach every field
				out.addAll(st.contents[o.base])
			} else {
				for _, fo := range o.fields {
					out.addAll(st.contents[fo])
				}
			}
		}
	}
	return out
}

// descend n levels (n==maxLevel means n or more)
func (st *fstate) descend(in objset, n int) objset {
	cur := in
	for i := 0; i < n; i++ {
		cur = st.load(cur)
	}
	if n >= maxLevel {
		out := objset{}
		out.addAll(cur)
		for {
			nx := st.load(out)
			if !out.addAll(nx) {
				break
			}
		}
		return out
	}
	return cur
}

func (st *fstate) storeInto(addr objset, val objset) {
	for o := range addr {
		if o.kind == kAlloc {
			if st.contents[o] == nil {
				st.contents[o] = objset{}
			}
			if st.contents[o].addAll(val) {
				st.changed = true
			}
		}
	}
}

func (st *fstate) write(target objset, where string) {
	for o := range target {
		switch o.kind {
		case kParam:
			if o.param == 0 && st.a.latchOK[st.fn] {
				continue // verified copy-on-write latch: the receiver object is the fresh copy here
			}
			k := wkey{o.param, o.level}
			if st.s.WS == nil {
				st.s.WS = map[wkey]map[string]string{}
			}
			if st.s.WS[k] == nil {
				st.s.WS[k] = map[string]string{}
			}
			if h := firstHop(where); st.s.WS[k][h] == "" {
				st.s.WS[k][h] = where
			}
			if _, ok := st.s.W[k]; !ok {
				st.s.W[k] = where
				st.changed = true
				st.a.dirty = true
			}
		case kGlobal:
			if _, ok := st.s.Gw[o.glob]; !ok {
				st.s.Gw[o.glob] = where
				st.changed = true
				st.a.dirty = true
			}
		}
	}
}

func (a *analyzer) analyze(fn *ssa.Function, s *summary) {
	st := &fstate{a: a, fn: fn, s: s, pts: map[ssa.Value]objset{}, tup: map[ssa.Value][]objset{}, contents: map[*obj]objset{},
		params: map[wkey]*obj{}, allocs: map[[2]interface{}]*obj{}, globs: map[[2]interface{}]*obj{}}
	for i, p := range fn.Params {
		if hasPtr(p.Type()) {
			st.pts[p] = objset{st.paramObj(i, 0): true}
		}
	}
	for i, fv := range fn.FreeVars {
		// free var is a pointer to the captured variable: the captured cell is level 0
		st.pts[fv] = objset{st.paramObj(len(fn.Params)+i, 0): true}
	}
	for iter := 0; iter < 60; iter++ {
		st.changed = false
		for _, b := range fn.Blocks {
			for _, ins := range b.Instrs {
				st.step(ins)
			}
		}
		if !st.changed {
			break
		}
	}
	if os.Getenv("DUMP") != "" && strings.Contains(fn.String(), os.Getenv("DUMP")) {
		st.dump()
	}
}

func (st *fstate) name(o *obj) string {
	switch o.kind {
	case kParam:
		return fmt.Sprintf("P%d^%d", o.param, o.level)
	case kAlloc:
		return fmt.Sprintf("A@%s:%s/%d", st.a.pos(o.site.Pos()), o.site.Name(), o.sub)
	case kGlobal:
		return fmt.Sprintf("G:%s^%d", o.glob.Name(), o.level)
	}
	return "?"
}

func (st *fstate) dump() {
	fmt.Println("=== DUMP", st.fn.String())
	for _, b := range st.fn.Blocks {
		for _, ins := range b.Instrs {
			if v, ok := ins.(ssa.Value); ok {
				var ns []string
				for o := range st.pts[v] {
					ns = append(ns, st.name(o))
				}
				sort.Strings(ns)
				fmt.Printf("  %s = %s   :: %v\n", v.Name(), ins.String(), ns)
			} else {
				fmt.Printf("  %s\n", ins.String())
			}
		}
	}
	for o, c := range st.contents {
		var ns []string
		for x := range c {
			ns = append(ns, st.name(x))
		}
		sort.Strings(ns)
		fmt.Printf("  contents(%s) = %v\n", st.name(o), ns)
	}
}

func (st *fstate) step(ins ssa.Instruction) {
	a := st.a
	switch v := ins.(type) {
	case *ssa.Alloc:
		st.add(v, objset{st.allocObj(v, 0): true})
	case *ssa.MakeSlice:
		st.add(v, objset{st.allocObj(v, 0): true})
	case *ssa.MakeMap:
		st.add(v, objset{st.allocObj(v, 0): true})
	case *ssa.MakeChan:
		st.add(v, objset{st.allocObj(v, 0): true})
	case *ssa.FieldAddr:
		fs := objset{}
		for o := range st.get(v.X) {
			fs[st.fieldObj(o, v.Field)] = true
		}
		st.add(v, fs)
	case *ssa.IndexAddr:
		st.add(v, st.get(v.X))
	case *ssa.Field:
		if hasPtr(v.Type()) {
			st.add(v, st.get(v.X))
		}
	case *ssa.Index:
		if hasPtr(v.Type()) {
			st.add(v, st.get(v.X))
		}
	case *ssa.Slice:
		st.add(v, st.get(v.X))
	case *ssa.Lookup:
		if hasPtr(v.Type()) {
			st.add(v, st.load(st.get(v.X)))
		}
	case *ssa.UnOp:
		if v.Op == token.MUL {
			if hasPtr(v.Type()) {
				st.add(v, st.load(st.get(v.X)))
			}
		} else if v.Op == token.ARROW {
			if hasPtr(v.Type()) {
				st.add(v, st.load(st.get(v.X)))
			}
		}
	case *ssa.Store:
		av := st.get(v.Addr)
		if hasPtr(v.Val.Type()) {
			st.storeInto(av, st.get(v.Val))
		}
		st.write(av, a.pos(v.Pos())+" store")
	case *ssa.MapUpdate:
		mv := st.get(v.Map)
		if hasPtr(v.Value.Type()) {
			st.storeInto(mv, st.get(v.Value))
		}
		if hasPtr(v.Key.Type()) {
			st.storeInto(mv, st.get(v.Key))
		}
		st.write(mv, a.pos(v.Pos())+" map update")
	case *ssa.Phi:
		for _, e := range v.Edges {
			st.add(v, st.get(e))
		}
	case *ssa.ChangeType:
		st.add(v, st.get(v.X))
	case *ssa.Convert:
		if hasPtr(v.Type()) && hasPtr(v.X.Type()) {
			st.add(v, st.get(v.X))
		}
	case *ssa.ChangeInterface:
		st.add(v, st.get(v.X))
	case *ssa.MakeInterface:
		if hasPtr(v.X.Type()) {
			st.add(v, st.get(v.X))
		}
	case *ssa.TypeAssert:
		st.add(v, st.get(v.X))
	case *ssa.Extract:
		if hasPtr(v.Type()) {
			if ts, ok := st.tup[v.Tuple]; ok && v.Index < len(ts) {
				st.add(v, ts[v.Index])
			} else if t, ok := st.pts[v.Tuple]; ok {
				st.add(v, t)
			}
		}
	case *ssa.SliceToArrayPointer:
		st.add(v, st.get(v.X))
	case *ssa.Range:
		st.add(v, st.get(v.X))
	case *ssa.Next:
		// tuple (ok, k, v): elements are one load below the container
		if hasPtr(v.Type()) {
			st.add(v, st.load(st.get(v.Iter)))
		}
	case *ssa.MakeClosure:
		o := st.allocObj(v, 0)
		st.add(v, objset{o: true})
		for i, bnd := range v.Bindings {
			st.storeInto(objset{st.fieldObj(o, i): true}, st.get(bnd))
		}
	case *ssa.Call:
		st.call(v, v.Common())
	case *ssa.Defer:
		st.call(nil, v.Common())
	case *ssa.Go:
		st.call(nil, v.Common())
	case *ssa.Return:
		for i, r := range v.Results {
			if !hasPtr(r.Type()) {
				continue
			}
			st.retShape(i, st.get(r))
		}
	}
}

func (st *fstate) toRef(o *obj) (ref, bool) {
	switch o.kind {
	case kParam:
		return ref{kind: 0, param: o.param, level: o.level}, true
	case kGlobal:
		return ref{kind: 3, glob: o.glob, level: o.level}, true
	}
	return ref{}, false
}

func (st *fstate) retShape(i int, top objset) {
	sh := st.s.R[i]
	addRef := func(m map[ref]bool, r ref) {
		if !m[r] {
			m[r] = true
			st.changed = true
			st.a.dirty = true
		}
	}
	for o := range top {
		if r, ok := st.toRef(o); ok {
			addRef(sh.top, r)
			continue
		}
		addRef(sh.top, ref{kind: 1})
		for c := range st.load(objset{o: true}) {
			if r, ok := st.toRef(c); ok {
				addRef(sh.f0, r)
				continue
			}
			addRef(sh.f0, ref{kind: 2})
			// everything reachable from c collapses into f1
			seen := objset{}
			var rec func(x *obj)
			rec = func(x *obj) {
				if seen[x] {
					return
				}
				seen[x] = true
				for y := range st.load(objset{x: true}) {
					if r, ok := st.toRef(y); ok {
						addRef(sh.f1, r)
					} else {
						rec(y)
					}
				}
			}
			rec(c)
		}
	}
}

func (st *fstate) callees(site ssa.CallInstruction, c *ssa.CallCommon) []*ssa.Function {
	if f := c.StaticCallee(); f != nil {
		return []*ssa.Function{f}
	}
	var out []*ssa.Function
	if n := st.a.cg.Nodes[st.fn]; n != nil && site != nil {
		for _, e := range n.Out {
			if e.Site == site {
				out = append(out, e.Callee.Func)
			}
		}
	}
	return out
}

func (st *fstate) call(val *ssa.Call, c *ssa.CallCommon) {
	a := st.a
	where := a.pos(c.Pos())
	if b, ok := c.Value.(*ssa.Builtin); ok {
		switch b.Name() {
		case "append":
			if val != nil {
				fresh := st.allocObj(val, 0)
				st.add(val, objset{fresh: true})
				st.add(val, st.get(c.Args[0]))
				if elemHasPtr(c.Args[0].Type()) {
					if len(c.Args) > 1 {
						el := st.load(st.get(c.Args[1]))
						st.storeInto(objset{fresh: true}, el)
						st.storeInto(st.get(c.Args[0]), el)
					}
					st.storeInto(objset{fresh: true}, st.load(st.get(c.Args[0])))
				}
				if sl, ok := c.Args[0].(*ssa.Slice); ok && sl.High != nil && sl.Max == nil {
					st.write(st.get(c.Args[0]), where+" append-into-subslice")
				}
			}
		case "copy":
			st.write(st.get(c.Args[0]), where+" copy")
			if elemHasPtr(c.Args[0].Type()) {
				st.storeInto(st.get(c.Args[0]), st.load(st.get(c.Args[1])))
			}
		case "delete", "clear":
			st.write(st.get(c.Args[0]), where+" "+b.Name())
		}
		return
	}
	var site ssa.CallInstruction
	if val != nil {
		site = val
	}
	args := c.Args
	if c.IsInvoke() {
		args = append([]ssa.Value{c.Value}, c.Args...)
	}
	if a.calls[st.fn] == nil {
		a.calls[st.fn] = map[*ssa.Function]bool{}
	}
	// a call through a function-typed parameter: the callee is the caller's code. Record a
	// callback-invocation summary (which parameter is called, with arguments derived from
	// which parameters); every caller applies it to the function values it passes.
	if p, ok := c.Value.(*ssa.Parameter); ok && !c.IsInvoke() {
		idx := -1
		for i, q := range st.fn.Params {
			if q == p {
				idx = i
			}
		}
		if idx >= 0 {
			rec := cbRec{fparam: idx, args: make([][]ref, len(c.Args))}
			for i, av := range c.Args {
				seen := map[ref]bool{}
				for o := range st.get(av) {
					if r, ok := st.toRef(o); ok && !seen[r] {
						seen[r] = true
						rec.args[i] = append(rec.args[i], r)
					}
				}
				sort.Slice(rec.args[i], func(x, y int) bool { return refLess(rec.args[i][x], rec.args[i][y]) })
			}
			if st.s.addCB(rec) {
				st.changed = true
				a.dirty = true
			}
			if val != nil && hasPtr(val.Type()) {
				// the callback's result is treated as a fresh object (assumption, listed in the evidence)
				st.add(val, objset{st.allocObj(val, 0): true})
			}
			a.extPure["results of calls through function-typed parameters are treated as fresh objects"] = true
			return
		}
	}
	cs := st.callees(site, c)
	if len(cs) == 0 && c.IsInvoke() {
		cs = a.chaCallees(c)
	}
	if len(cs) == 0 {
		if mc, ok := c.Value.(*ssa.MakeClosure); ok {
			cs = []*ssa.Function{mc.Fn.(*ssa.Function)}
		} else {
			if val != nil && hasPtr(val.Type()) {
				st.add(val, objset{st.allocObj(val, 0): true})
			}
			switch {
			case c.IsInvoke() && invokeLeaves[c.Method.Name()]:
				a.extPure["interface method "+c.Method.FullName()+" (no implementation in the program: I/O sink or pure query)"] = true
			case st.calleeIsParam(c.Value):
				a.extPure["call through a function value derived from a parameter in "+core.ShortFunc(st.fn)+" with no callee in the program (caller's code)"] = true
			default:
				if a.unresolved[st.fn] == nil {
					a.unresolved[st.fn] = map[string]bool{}
				}
				a.unresolved[st.fn][where+": "+c.String()] = true
			}
		}
	}
	for _, callee := range cs {
		np := len(callee.Params)
		argv := func(i int) objset {
			if i < np {
				if i < len(args) {
					return st.get(args[i])
				}
				return nil
			}
			// free variable i-np: the binding stored in the closure object(s)
			out := objset{}
			for o := range st.get(c.Value) {
				if o.kind == kAlloc && o.base == nil {
					out.addAll(st.load(objset{st.fieldObj(o, i-np): true}))
				} else {
					out.addAll(st.load(objset{o: true}))
				}
			}
			return out
		}
		funcArg := func(i int) *ssa.Function {
			if i < len(args) {
				if f, ok := args[i].(*ssa.Function); ok {
					return f
				}
			}
			return nil
		}
		st.applySummary(callee, argv, funcArg, where, val, 0)
	}
}

type cbRec struct {
	fparam int
	args   [][]ref
}

func refLess(a, b ref) bool {
	if a.kind != b.kind {
		return a.kind < b.kind
	}
	if a.param != b.param {
		return a.param < b.param
	}
	return a.level < b.level
}

func (r cbRec) key() string {
	var sb strings.Builder
	fmt.Fprintf(&sb, "f%d(", r.fparam)
	for i, as := range r.args {
		if i > 0 {
			sb.WriteString(";")
		}
		for _, x := range as {
			g := ""
			if x.glob != nil {
				g = x.glob.Name()
			}
			fmt.Fprintf(&sb, "%d.%d.%d.%s,", x.kind, x.param, x.level, g)
		}
	}
	sb.WriteString(")")
	return sb.String()
}

func (s *summary) addCB(r cbRec) bool {
	if s.CB == nil {
		s.CB = map[string]cbRec{}
	}
	k := r.key()
	if _, ok := s.CB[k]; ok {
		return false
	}
	s.CB[k] = r
	return true
}

// applySummary applies a callee's effects at a call site. argv gives the objects passed for
// parameter/free-variable i, funcArg the function constant passed for parameter i (if any).
func (st *fstate) applySummary(callee *ssa.Function, argv func(int) objset, funcArg func(int) *ssa.Function, where string, val *ssa.Call, depth int) {
	a := st.a
	a.calls[st.fn][callee] = true
	csum := a.summarize(callee)
	mapRef := func(r ref) objset {
		switch r.kind {
		case 0:
			return st.descend(argv(r.param), r.level)
		case 3:
			return objset{st.globObj(r.glob, r.level): true}
		}
		return nil
	}
	for k, w := range csum.W {
		ek := core.ShortFunc(st.fn) + " -> " + core.ShortFunc(callee) + fmt.Sprintf("|param %d level %d", k.param, k.level)
		if _, ok := a.edgeExceptions[ek]; ok {
			a.usedExceptions[ek] = true
			continue
		}
		st.write(st.descend(argv(k.param), k.level), chain(where+" calls "+core.ShortFunc(callee), w))
	}
	for g, w := range csum.Gw {
		if _, ok := st.s.Gw[g]; !ok {
			st.s.Gw[g] = chain(where+" calls "+core.ShortFunc(callee), w)
			st.changed = true
			a.dirty = true
		}
	}
	// callback invocations of the callee: apply the function values we pass
	if depth < 4 {
		keys := make([]string, 0, len(csum.CB))
		for k := range csum.CB {
			keys = append(keys, k)
		}
		sort.Strings(keys)
		for _, k := range keys {
			cb := csum.CB[k]
			cbArg := func(i int) objset {
				out := objset{}
				if i < len(cb.args) {
					for _, r := range cb.args[i] {
						out.addAll(mapRef(r))
					}
				}
				return out
			}
			// plain function passed
			if f := funcArg(cb.fparam); f != nil {
				nf := len(f.Params)
				st.applySummary(f, func(i int) objset {
					if i < nf {
						return cbArg(i)
					}
					return nil
				}, func(int) *ssa.Function { return nil }, where+" (callback of "+core.ShortFunc(callee)+")", nil, depth+1)
				continue
			}
			for fo := range argv(cb.fparam) {
				switch {
				case fo.kind == kAlloc && fo.base == nil:
					mc, ok := fo.site.(*ssa.MakeClosure)
					if !ok {
						continue
					}
					f := mc.Fn.(*ssa.Function)
					nf := len(f.Params)
					clo := fo
					st.applySummary(f, func(i int) objset {
						if i < nf {
							return cbArg(i)
						}
						return st.load(objset{st.fieldObj(clo, i-nf): true})
					}, func(int) *ssa.Function { return nil }, where+" (callback of "+core.ShortFunc(callee)+")", nil, depth+1)
				case fo.kind == kParam && fo.level == 0:
					// our own function-typed parameter is passed on: compose the record
					rec := cbRec{fparam: fo.param, args: make([][]ref, len(cb.args))}
					for i := range cb.args {
						seen := map[ref]bool{}
						for o := range cbArg(i) {
							if r, ok := st.toRef(o); ok && !seen[r] {
								seen[r] = true
								rec.args[i] = append(rec.args[i], r)
							}
						}
						sort.Slice(rec.args[i], func(x, y int) bool { return refLess(rec.args[i][x], rec.args[i][y]) })
					}
					if st.s.addCB(rec) {
						st.changed = true
						a.dirty = true
					}
				}
			}
		}
	}
	if val != nil && hasPtr(val.Type()) {
		nres := len(csum.R)
		inst := func(sh *shape) objset {
			top := objset{}
			f0 := st.allocObj(val, 0)
			f1 := st.allocObj(val, 1)
			for r := range sh.top {
				switch r.kind {
				case 1:
					top[f0] = true
				case 2:
					top[f1] = true
				default:
					top.addAll(mapRef(r))
				}
			}
			for r := range sh.f0 {
				switch r.kind {
				case 1:
					st.storeInto(objset{f0: true}, objset{f0: true})
				case 2:
					st.storeInto(objset{f0: true}, objset{f1: true})
				default:
					st.storeInto(objset{f0: true}, mapRef(r))
				}
			}
			for r := range sh.f1 {
				switch r.kind {
				case 1, 2:
					st.storeInto(objset{f1: true}, objset{f1: true})
				default:
					st.storeInto(objset{f1: true}, mapRef(r))
				}
			}
			return top
		}
		if nres == 1 {
			st.add(val, inst(csum.R[0]))
		} else if nres > 1 {
			ts := st.tup[val]
			if ts == nil {
				ts = make([]objset, nres)
				for i := range ts {
					ts[i] = objset{}
				}
				st.tup[val] = ts
			}
			for i := 0; i < nres; i++ {
				if ts[i].addAll(inst(csum.R[i])) {
					st.changed = true
				}
			}
		}
	}
}

// chain prepends a call step to a witness, bounded in length.
// firstHop names the first step of a witness: the callee of "<pos> calls <callee> => …", or "store".
func firstHop(where string) string {
	step := where
	if i := strings.Index(step, " => "); i >= 0 {
		step = step[:i]
	}
	if i := strings.Index(step, " calls "); i >= 0 {
		return step[i+len(" calls "):]
	}
	return "store"
}

func chain(step, inner string) string {
	parts := strings.Split(inner, " => ")
	if len(parts) > 6 {
		parts = append(parts[:3], append([]string{"…"}, parts[len(parts)-2:]...)...)
	}
	return step + " => " + strings.Join(parts, " => ")
}

// calleeIsParam reports whether the called value is (a load of) a function-typed parameter or free variable.
func (st *fstate) calleeIsParam(v ssa.Value) bool {
	switch x := v.(type) {
	case *ssa.Parameter:
		return true
	case *ssa.FreeVar:
		return true
	case *ssa.UnOp:
		if x.Op == token.MUL {
			return st.calleeIsParam(x.X)
		}
	case *ssa.Phi:
		for _, e := range x.Edges {
			if st.calleeIsParam(e) {
				return true
			}
		}
	case *ssa.Field:
		return st.calleeIsParam(x.X)
	case *ssa.FieldAddr:
		return st.calleeIsParam(x.X)
	}
	return false
}

var _ = os.Getenv
var _ = sort.Strings

// chaCallees: when VTA sees no value flowing into an interface call, fall back to every
// module type that implements the interface (class-hierarchy resolution), so that dead-looking
// dispatch (a Pattern nobody constructs in the loaded program) is still analysed.
func (a *analyzer) chaCallees(c *ssa.CallCommon) []*ssa.Function {
	iface, ok := c.Value.Type().Underlying().(*types.Interface)
	if !ok {
		return nil
	}
	var out []*ssa.Function
	for _, pkg := range a.prog.AllPackages() {
		if !strings.HasPrefix(pkg.Pkg.Path(), core.Module) {
			continue
		}
		for _, m := range pkg.Members {
			tn, ok := m.(*ssa.Type)
			if !ok {
				continue
			}
			for _, t := range []types.Type{tn.Type(), types.NewPointer(tn.Type())} {
				if _, isI := t.Underlying().(*types.Interface); isI || !types.Implements(t, iface) {
					continue
				}
				if sel := a.prog.MethodSets.MethodSet(t).Lookup(c.Method.Pkg(), c.Method.Name()); sel != nil {
					if f := a.prog.MethodValue(sel); f != nil {
						out = append(out, f)
					}
				}
				break
			}
		}
	}
	sort.Slice(out, func(i, j int) bool { return out[i].String() < out[j].String() })
	return out
}

// debugSummary prints a summary (E1_DEBUG=substring of the function name).
func (a *analyzer) debugSummary() {
	pat := os.Getenv("E1_DEBUG")
	if pat == "" {
		return
	}
	var fs []*ssa.Function
	for f := range a.sums {
		if strings.Contains(f.String(), pat) {
			fs = append(fs, f)
		}
	}
	sort.Slice(fs, func(i, j int) bool { return fs[i].String() < fs[j].String() })
	for _, f := range fs {
		s := a.sums[f]
		fmt.Fprintf(os.Stderr, "SUMMARY %s params=%d free=%d\n", f, len(f.Params), len(f.FreeVars))
		for k, w := range s.W {
			fmt.Fprintf(os.Stderr, "   W{%d,%d}: %s\n", k.param, k.level, w)
		}
	}
}
