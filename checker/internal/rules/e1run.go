package rules

import (
	"fmt"
	"go/ast"
	"go/token"
	"go/types"
	"sort"
	"strings"

	"canvascheck/internal/core"

	"golang.org/x/tools/go/ssa"
)

// e1EdgeExceptions: reviewed call edges whose reported write cannot happen, one reason each.
var e1EdgeExceptions = map[string]string{
	"(*canvas/renderers/pdf.PDF).RenderPath -> (*canvas/renderers/pdf.pdfPageWriter).SetDashes|param 2 level 0": "SetDashes appends to the array it is given; RenderPath reaches it only on the native-stroke branches, which require !strokeUnsupported, and on that path style.Dashes was just replaced by the fresh array returned by canvas.ScaleDash (rule E6.dash-scale requires that call)",
	"(*canvas.Path).Dash -> (*canvas.Path).Join|param 0 level 1":                                                "Dash calls pd[len(pd)-1].Join(qd); SplitAt returns its receiver (memory shared with p) only when the cut list is empty, and then pd has one element, the qd loop body never ran, qd is empty and Join returns p before any write; for a non-empty cut list every element of pd is freshly built",
}

func newEffects(c *core.Ctx, r *core.Report) *analyzer {
	prog := c.SSA()
	a := &analyzer{c: c, prog: prog, cg: c.CallGraph(), sums: map[*ssa.Function]*summary{}, fset: prog.Fset, extPure: map[string]bool{},
		unresolved: map[*ssa.Function]map[string]bool{}, calls: map[*ssa.Function]map[*ssa.Function]bool{}, latchOK: map[*ssa.Function]bool{},
		edgeExceptions: e1EdgeExceptions, usedExceptions: map[string]bool{}}
	// the copy-on-write latch of (*Path).replace is verified structurally, not assumed
	if ok, why := verifyCOWLatch(c); ok {
		a.latchOK[c.SSAFunc("", "Path.replace")] = true
		r.OK("E1.cow-latch", "canvas.Path.replace", c.Pos(core.MustFuncDecl(c.MustPkg(""), "Path.replace").Pos()), why)
	} else {
		r.Note("E1.cow-latch NOT verified for Path.replace (%s): its writes count against the receiver", why)
	}
	return a
}

// solve computes summaries for everything reachable from the roots to a fixpoint.
func (a *analyzer) solve(roots []*ssa.Function) int {
	for _, f := range roots {
		a.summarize(f)
	}
	rounds := 0
	for ; rounds < 30; rounds++ {
		a.dirty = false
		fns := make([]*ssa.Function, 0, len(a.sums))
		for f := range a.sums {
			fns = append(fns, f)
		}
		sort.Slice(fns, func(i, j int) bool { return fns[i].String() < fns[j].String() })
		for _, f := range fns {
			if f.Blocks != nil && inScope(f) {
				a.analyze(f, a.sums[f])
			}
		}
		if !a.dirty {
			break
		}
	}
	return rounds + 1
}

// unresolvedFrom lists unresolved call sites in functions transitively called from root.
func (a *analyzer) unresolvedFrom(root *ssa.Function) []string {
	seen := map[*ssa.Function]bool{}
	var out []string
	var walk func(f *ssa.Function)
	walk = func(f *ssa.Function) {
		if seen[f] {
			return
		}
		seen[f] = true
		for u := range a.unresolved[f] {
			out = append(out, core.ShortFunc(f)+" @ "+u)
		}
		for g := range a.calls[f] {
			walk(g)
		}
	}
	walk(root)
	sort.Strings(out)
	return out
}

// verifyCOWLatch checks the shape `copied := false … if !copied { p = p.Copy(); copied = true }`
// in (*Path).replace: every write through the receiver variable is dominated by the latch.
func verifyCOWLatch(c *core.Ctx) (bool, string) {
	p := c.MustPkg("")
	info := p.TypesInfo
	fd := core.MustFuncDecl(p, "Path.replace")
	recv := recvObj(info, fd)
	var flag types.Object
	for _, s := range fd.Body.List {
		if as, ok := s.(*ast.AssignStmt); ok && as.Tok == token.DEFINE && len(as.Lhs) == 1 && len(as.Rhs) == 1 {
			if id, ok := core.Unparen(as.Rhs[0]).(*ast.Ident); ok && id.Name == "false" {
				flag = info.Defs[as.Lhs[0].(*ast.Ident)]
			}
		}
	}
	if flag == nil || recv == nil {
		return false, "no `flag := false` local"
	}
	var latch *ast.IfStmt
	var latchBlock *ast.BlockStmt
	latchIdx := -1
	ast.Inspect(fd.Body, func(n ast.Node) bool {
		bl, ok := n.(*ast.BlockStmt)
		if !ok {
			return true
		}
		for i, s := range bl.List {
			is, ok := s.(*ast.IfStmt)
			if !ok || is.Else != nil || is.Init != nil {
				continue
			}
			un, ok := core.Unparen(is.Cond).(*ast.UnaryExpr)
			if !ok || un.Op != token.NOT {
				continue
			}
			if id, ok := core.Unparen(un.X).(*ast.Ident); !ok || core.ObjOf(info, id) != flag {
				continue
			}
			copyOK, flagOK := false, false
			for _, bs := range is.Body.List {
				as, ok := bs.(*ast.AssignStmt)
				if !ok || len(as.Lhs) != 1 || len(as.Rhs) != 1 {
					return true
				}
				lid, _ := as.Lhs[0].(*ast.Ident)
				if lid == nil {
					return true
				}
				switch core.ObjOf(info, lid) {
				case recv:
					if call, ok := core.Unparen(as.Rhs[0]).(*ast.CallExpr); ok {
						if f := core.CalleeOf(info, call); f != nil && core.QualifiedCallee(f) == core.Module+".Path.Copy" {
							if rid, ok := core.Unparen(call.Fun.(*ast.SelectorExpr).X).(*ast.Ident); ok && core.ObjOf(info, rid) == recv {
								copyOK = true
							}
						}
					}
				case flag:
					if id, ok := core.Unparen(as.Rhs[0]).(*ast.Ident); ok && id.Name == "true" {
						flagOK = true
					}
				}
			}
			if copyOK && flagOK && len(is.Body.List) == 2 {
				latch, latchBlock, latchIdx = is, bl, i
			}
		}
		return true
	})
	if latch == nil {
		return false, "no `if !flag { p = p.Copy(); flag = true }` latch"
	}
	// flag is assigned nowhere else
	bad := ""
	ast.Inspect(fd.Body, func(n ast.Node) bool {
		if n == ast.Node(latch) {
			return false
		}
		switch x := n.(type) {
		case *ast.AssignStmt:
			for _, l := range x.Lhs {
				root := core.RootIdent(l)
				if root == nil {
					continue
				}
				switch core.ObjOf(info, root) {
				case flag:
					if x.Tok != token.DEFINE {
						bad = "flag assigned outside the latch at " + c.Pos(x.Pos())
					}
				case recv:
					if !inLatchTail(latchBlock, latchIdx, x.Pos()) {
						bad = "write through the receiver outside the latched block at " + c.Pos(x.Pos())
					}
					if _, isIdent := l.(*ast.Ident); isIdent {
						// p = p.M(…) only
						ok := false
						if call, isCall := core.Unparen(x.Rhs[0]).(*ast.CallExpr); isCall {
							if se, isSel := call.Fun.(*ast.SelectorExpr); isSel {
								if rid, isId := core.Unparen(se.X).(*ast.Ident); isId && core.ObjOf(info, rid) == recv {
									ok = true
								}
							}
						}
						if !ok {
							bad = "receiver variable re-assigned from something else than a method of itself at " + c.Pos(x.Pos())
						}
					}
				}
			}
		case *ast.CallExpr:
			if se, ok := x.Fun.(*ast.SelectorExpr); ok {
				if rid, ok := core.Unparen(se.X).(*ast.Ident); ok && core.ObjOf(info, rid) == recv {
					if s := info.Selections[se]; s != nil && s.Kind() == types.MethodVal {
						if !inLatchTail(latchBlock, latchIdx, x.Pos()) {
							bad = "method call on the receiver outside the latched block at " + c.Pos(x.Pos())
						}
					}
				}
			}
		}
		return true
	})
	if bad != "" {
		return false, bad
	}
	return true, "all writes through p follow `if !copied { p = p.Copy(); copied = true }` in the same block"
}

func inLatchTail(bl *ast.BlockStmt, idx int, pos token.Pos) bool {
	if bl == nil || idx < 0 || idx+1 >= len(bl.List) {
		return false
	}
	return pos >= bl.List[idx+1].Pos() && pos <= bl.List[len(bl.List)-1].End()
}

// c10Exempt: documented mutators/sinks: method -> parameters that may be written, and the doc phrase relied on.
var c10Exempt = map[string]struct {
	params []string
	phrase string
}{
	"Path.MoveTo": {[]string{"p"}, "moves the path"}, "Path.LineTo": {[]string{"p"}, "adds a linear path"}, "Path.QuadTo": {[]string{"p"}, "adds a quadratic"},
	"Path.CubeTo": {[]string{"p"}, "adds a cubic"}, "Path.ArcTo": {[]string{"p"}, "adds an arc"}, "Path.Arc": {[]string{"p"}, "adds an elliptical arc"},
	"Path.Close": {[]string{"p"}, "closes a (sub)path"}, "Path.Append": {[]string{"p"}, "returns the extended path"}, "Path.Join": {[]string{"p"}, "returns the extended path"},
	"Path.Reset": {[]string{"p"}, "retains the same memory"}, "Path.CopyTo": {[]string{"q"}, "using the memory of path q"}, "Path.GobDecode": {[]string{"p"}, "implements the gob interface"},
	"Path.Transform": {[]string{"p"}, "in-place"}, "Path.Gridsnap": {[]string{"p"}, "in-place"},
	"Path.ToScanxScanner": {[]string{"ras"}, "rasterizes the path to"}, "Path.ToVectorRasterizer": {[]string{"ras"}, "rasterizes the path to"},
}

// exportedMethods lists the declared exported methods of a named type of package canvas.
func exportedMethods(c *core.Ctx, typ string) []*ssa.Function {
	p := c.MustPkg("")
	var out []*ssa.Function
	for _, fd := range core.AllFuncDecls(p) {
		if core.RecvName(fd) == typ && fd.Name.IsExported() {
			out = append(out, c.SSAFunc("", typ+"."+fd.Name.Name))
		}
	}
	sort.Slice(out, func(i, j int) bool { return out[i].String() < out[j].String() })
	return out
}

// reportEffects turns a summary into obligations: one per (function, pointer-carrying parameter).
func (a *analyzer) reportEffects(r *core.Report, rule string, f *ssa.Function, allowed map[string]bool, what string, only ...string) {
	s := a.sums[f]
	if s == nil {
		r.Fail(rule, core.ShortFunc(f)+"|summary", a.pos(f.Pos()), "no summary computed")
		return
	}
	r.Func(core.ShortFunc(f))
	if us := a.unresolvedFrom(f); len(us) > 0 {
		if len(us) > 5 {
			us = append(us[:5], fmt.Sprintf("… %d more", len(us)-5))
		}
		r.Fail(rule, core.ShortFunc(f)+"|undecided calls", a.pos(f.Pos()), "the effect of calls with no resolved callee is unknown; the obligation cannot be decided", us...)
	}
	for i, p := range f.Params {
		if !hasPtr(p.Type()) {
			continue
		}
		if len(only) > 0 {
			in := false
			for _, o := range only {
				if o == p.Name() {
					in = true
				}
			}
			if !in {
				continue
			}
		}
		// keyed by position: renaming a parameter must not change the key
		role := fmt.Sprintf("argument %d", i)
		if i == 0 && f.Signature.Recv() != nil {
			role = "receiver"
		} else if f.Signature.Recv() == nil {
			role = fmt.Sprintf("argument %d", i+1)
		}
		key := fmt.Sprintf("%s|%s", core.ShortFunc(f), role)
		if allowed[p.Name()] {
			r.OK(rule, key, a.pos(f.Pos()), "documented mutator/sink for this parameter")
			continue
		}
		var ws []string
		for lvl := 0; lvl <= maxLevel; lvl++ {
			if w, ok := s.W[wkey{i, lvl}]; ok {
				ws = append(ws, fmt.Sprintf("level %d: %s", lvl, w))
			}
		}
		if len(ws) == 0 {
			r.OK(rule, key, a.pos(f.Pos()), "no write to memory reachable from it")
		} else {
			r.Fail(rule, key, a.pos(f.Pos()), fmt.Sprintf("%s may write memory reachable from its %s `%s`", core.ShortFunc(f), what, p.Name()), ws...)
		}
	}
}

// E1PathMethods: C10's "methods leave the receiver and the arguments unchanged".
func E1PathMethods(c *core.Ctx, r *core.Report) {
	r.Rule("E1.no-mutation", "every exported method of *Path and Paths, except the documented in-place mutators and sinks (each re-justified by the doc phrase it relies on), writes no memory reachable from its receiver or its arguments (interprocedural effect summaries over SSA: parameter load-depth levels, allocation sites with contents, result shapes; VTA call graph; standard library as a table-driven leaf)")
	r.Rule("E1.cow-latch", "(*Path).replace: every write through the receiver variable is dominated by `if !copied { p = p.Copy(); copied = true }`")
	r.Rule("E1.doc", "each exemption is backed by the phrase in the method's doc comment that documents the mutation")
	a := newEffects(c, r)
	var roots []*ssa.Function
	roots = append(roots, exportedMethods(c, "Path")...)
	roots = append(roots, exportedMethods(c, "Paths")...)
	rounds := a.solve(roots)
	r.Count("E1.roots", len(roots))
	r.Count("E1.summaries", len(a.sums))
	r.Note("E1 fixpoint after %d rounds; %d function summaries; %d leaf functions assumed pure", rounds, len(a.sums), len(a.extPure))
	p := c.MustPkg("")
	for _, f := range roots {
		name := strings.TrimPrefix(strings.TrimPrefix(core.ShortFunc(f), "(*canvas."), "(canvas.")
		name = strings.Replace(name, ").", ".", 1)
		allowed := map[string]bool{}
		if ex, ok := c10Exempt[name]; ok {
			fd := core.MustFuncDecl(p, name)
			doc := strings.ToLower(strings.Join(strings.Fields(core.DocText(fd)), " "))
			if strings.Contains(doc, strings.ToLower(ex.phrase)) {
				for _, pn := range ex.params {
					allowed[pn] = true
				}
				r.OK("E1.doc", "canvas."+name+"|doc phrase", c.Pos(fd.Pos()), ex.phrase)
			} else {
				r.Fail("E1.doc", "canvas."+name+"|doc phrase", c.Pos(fd.Pos()), fmt.Sprintf("the doc comment no longer contains %q; the method is no longer exempt from the no-mutation rule", ex.phrase))
			}
		}
		a.reportEffects(r, "E1.no-mutation", f, allowed, "receiver/argument")
	}
	for k := range a.extPure {
		r.Assumed[k] = true
	}
	r.Floor("E1.roots", 80)
	r.Floor("E1.summaries", 300)
}

// E1Renderers: C14's "rendering leaves the canvas, its paths and its gradients unchanged".
func E1Renderers(c *core.Ctx, r *core.Report) {
	r.Rule("E1.render-pure", "RenderPath/RenderText/RenderImage of every back-end, Canvas.RenderTo/RenderViewTo and rasterizer.Draw write no memory reachable from the path, style (dash array, gradient stops, patterns), text, image or canvas they are given (the renderer itself is the only object they may modify)")
	a := newEffects(c, r)
	type root struct {
		f    *ssa.Function
		only []string // the drawing-side parameters the property is about
	}
	var roots []root
	for _, b := range backends {
		roots = append(roots, root{c.SSAFunc(b.rel, b.recv+".RenderPath"), []string{"path", "style"}})
		roots = append(roots, root{c.SSAFunc(b.rel, b.recv+".RenderText"), []string{"text"}})
		roots = append(roots, root{c.SSAFunc(b.rel, b.recv+".RenderImage"), []string{"img"}})
	}
	roots = append(roots, root{c.SSAFunc("", "Canvas.RenderTo"), []string{"c"}})
	roots = append(roots, root{c.SSAFunc("", "Canvas.RenderViewTo"), []string{"c"}})
	roots = append(roots, root{c.SSAFunc("renderers/rasterizer", "Draw"), []string{"c"}})
	var fs []*ssa.Function
	for _, rt := range roots {
		fs = append(fs, rt.f)
	}
	rounds := a.solve(fs)
	r.Count("E1.render-roots", len(roots))
	r.Count("E1.summaries", len(a.sums))
	r.Note("E1 fixpoint after %d rounds; %d function summaries", rounds, len(a.sums))
	a.debugSummary()
	for _, rt := range roots {
		a.reportEffects(r, "E1.render-pure", rt.f, nil, "argument", rt.only...)
	}
	for k := range a.extPure {
		r.Assumed[k] = true
	}
	r.Floor("E1.render-roots", 15)
}

// E1ContextDraws: drawing through a Context does not rewrite the dash array shared with pushed states.
func E1ContextDraws(c *core.Ctx, r *core.Report) {
	r.Rule("E1.ctx-dash", "(*Path).checkDash, dashCanonical and ScaleDash, through which Context.DrawPath passes Style.Dashes (an array shared with every state saved by Push), write no memory reachable from that array")
	a := newEffects(c, r)
	roots := []*ssa.Function{c.SSAFunc("", "Path.checkDash"), c.SSAFunc("", "dashCanonical"), c.SSAFunc("", "ScaleDash")}
	a.solve(roots)
	a.reportEffects(r, "E1.ctx-dash", roots[0], nil, "argument", "d")
	a.reportEffects(r, "E1.ctx-dash", roots[1], nil, "argument", "d")
	a.reportEffects(r, "E1.ctx-dash", roots[2], nil, "argument", "d")
	// DrawPath hands the shared array (the Dashes field of the style) only to the functions analysed above
	// and to len()
	p := c.MustPkg("")
	info := p.TypesInfo
	fd := core.MustFuncDecl(p, "Context.DrawPath")
	analysed := map[string]bool{"checkDash": true, "dashCanonical": true, "ScaleDash": true}
	bad := ""
	ast.Inspect(fd.Body, func(n ast.Node) bool {
		call, ok := n.(*ast.CallExpr)
		if !ok {
			return true
		}
		for _, arg := range call.Args {
			se, ok := core.Unparen(arg).(*ast.SelectorExpr)
			if !ok || se.Sel.Name != "Dashes" {
				continue
			}
			if s := info.Selections[se]; s == nil || s.Kind() != types.FieldVal {
				continue
			}
			if id, ok := call.Fun.(*ast.Ident); ok && (id.Name == "len" || id.Name == "cap") {
				continue
			}
			if f := core.CalleeOf(info, call); f == nil || !analysed[f.Name()] {
				bad = c.Src(call)
			}
		}
		return true
	})
	if bad == "" {
		r.OK("E1.ctx-dash", "canvas.Context.DrawPath|dash array uses", c.Pos(fd.Pos()), "handed to checkDash, dashCanonical, ScaleDash (analysed above) and len only")
	} else {
		r.Fail("E1.ctx-dash", "canvas.Context.DrawPath|dash array uses", c.Pos(fd.Pos()), fmt.Sprintf("the shared dash array is handed to `%s`, whose effects on it are not analysed", bad))
	}
}

// E1ContextSetters: style setters replace values in the context; they never write through the
// slices/pointers already in it, which every state saved by Push shares.
func E1ContextSetters(c *core.Ctx, r *core.Report) {
	r.Rule("E1.ctx-setter-alias", "no Set*/Reset* method of Context that stores into ContextState writes memory reachable *through* the context (level >= 1: the dash array, gradients, the stack's backing array); it may only replace the fields themselves, because Push saves ContextState by value and the saved copies share everything behind slices and pointers")
	a := newEffects(c, r)
	p := c.MustPkg("")
	var roots []*ssa.Function
	for _, fd := range core.AllFuncDecls(p) {
		if core.RecvName(fd) != "Context" || !fd.Name.IsExported() {
			continue
		}
		name := fd.Name.Name
		if !(strings.HasPrefix(name, "Set") || strings.HasPrefix(name, "Reset")) {
			continue
		}
		// forwarders that keep no state in the context (SetZIndex) are not state setters
		stores := false
		recv := recvObj(p.TypesInfo, fd)
		ast.Inspect(fd.Body, func(n ast.Node) bool {
			if as, ok := n.(*ast.AssignStmt); ok {
				for _, l := range as.Lhs {
					if root := core.RootIdent(l); root != nil && core.ObjOf(p.TypesInfo, root) == recv {
						if _, isIdent := l.(*ast.Ident); !isIdent {
							stores = true
						}
					}
				}
			}
			return true
		})
		if stores {
			roots = append(roots, c.SSAFunc("", "Context."+name))
		}
	}
	a.solve(roots)
	r.Count("E1.ctx-setters", len(roots))
	for _, f := range roots {
		s := a.sums[f]
		key := core.ShortFunc(f) + "|receiver beyond its own fields"
		r.Func(core.ShortFunc(f))
		var ws []string
		for lvl := 1; lvl <= maxLevel; lvl++ {
			if w, ok := s.W[wkey{0, lvl}]; ok {
				ws = append(ws, fmt.Sprintf("level %d: %s", lvl, w))
			}
		}
		if len(ws) == 0 {
			r.OK("E1.ctx-setter-alias", key, a.pos(f.Pos()), "replaces fields only")
		} else {
			r.Fail("E1.ctx-setter-alias", key, a.pos(f.Pos()), fmt.Sprintf("%s writes through memory the context already references (e.g. re-using the backing array of Style.Dashes): a state saved by Push shares that memory, so Pop restores a different style than was pushed", core.ShortFunc(f)), ws...)
		}
	}
	r.Floor("E1.ctx-setters", 18)
}

// E1SharedFont: layout and text rendering do not write the loaded font they share.
func E1SharedFont(c *core.Ctx, r *core.Report) {
	r.Rule("E1.shared-font", "the PDF font writer (writeFont, getFont) and the FontFace queries that do not go through the shaper (Metrics, LineHeight, toPath, textWidth, heights, Decorate) write no memory reachable from the font (face) they are given: a loaded font is shared between goroutines and canvases. Shaping (FontFace.Glyphs, NewTextLine, RichText.ToText) runs through go-text/harfbuzz with unresolved interface calls and is not decided")
	a := newEffects(c, r)
	type root struct {
		f    *ssa.Function
		only []string
	}
	roots := []root{
		{c.SSAFunc("renderers/pdf", "pdfWriter.writeFont"), []string{"font"}},
		{c.SSAFunc("renderers/pdf", "pdfWriter.getFont"), []string{"font"}},
		{c.SSAFunc("", "FontFace.Metrics"), []string{"face"}},
		{c.SSAFunc("", "FontFace.toPath"), []string{"face"}},
		{c.SSAFunc("", "FontFace.textWidth"), []string{"face"}},
		{c.SSAFunc("", "FontFace.heights"), []string{"face"}},
		{c.SSAFunc("", "FontFace.LineHeight"), []string{"face"}},
		{c.SSAFunc("", "FontFace.Decorate"), []string{"face"}},
	}
	var fs []*ssa.Function
	for _, rt := range roots {
		fs = append(fs, rt.f)
	}
	a.solve(fs)
	a.debugSummary()
	for _, rt := range roots {
		s := a.sums[rt.f]
		if s == nil {
			r.Fail("E1.shared-font", core.ShortFunc(rt.f)+"|summary", a.pos(rt.f.Pos()), "no summary computed")
			continue
		}
		r.Func(core.ShortFunc(rt.f))
		for i, prm := range rt.f.Params {
			if prm.Name() != rt.only[0] {
				continue
			}
			role := fmt.Sprintf("argument %d", i)
			if i == 0 && rt.f.Signature.Recv() != nil {
				role = "receiver"
			}
			key := core.ShortFunc(rt.f) + "|" + role
			var ws []string
			for lvl := 0; lvl <= maxLevel; lvl++ {
				hops := s.WS[wkey{i, lvl}]
				var hs []string
				for h := range hops {
					hs = append(hs, h)
				}
				sort.Strings(hs)
				for _, h := range hs {
					if strings.Contains(h, "github.com/tdewolff/font.") {
						continue // decided per call site by E1.font-lib
					}
					ws = append(ws, fmt.Sprintf("level %d: %s", lvl, hops[h]))
				}
			}
			if len(ws) == 0 {
				r.OK("E1.shared-font", key, a.pos(rt.f.Pos()), "no write of its own to memory reachable from the font (calls into the font library are decided by E1.font-lib)")
			} else {
				r.Fail("E1.shared-font", key, a.pos(rt.f.Pos()), fmt.Sprintf("%s may write memory reachable from its shared font `%s`", core.ShortFunc(rt.f), prm.Name()), ws...)
			}
		}
	}
	r.Count("E1.shared-font-roots", len(roots))
	r.Floor("E1.shared-font-roots", 8)
	for k := range a.extPure {
		r.Assumed[k] = true
	}
}

// E1FontLibraryCalls: canvas calls into the font library only in ways that leave the loaded font
// untouched. A loaded *font.SFNT is reachable only through the caller's parameters (a FontFace, a
// Font, a renderer's font map), so the obligation is per (caller, font-library callee): the call
// writes no memory reachable from any of the caller's parameters.
func E1FontLibraryCalls(c *core.Ctx, r *core.Report) {
	const fontPkg = "github.com/tdewolff/font"
	r.Rule("E1.font-lib", "for every function of the module that calls a function of "+fontPkg+", the call writes no memory reachable from the caller's receiver or arguments: loaded fonts are shared between canvases and goroutines, only fresh copies (Subset results, local copies) may be written")
	a := newEffects(c, r)
	type pair struct {
		f      *ssa.Function
		callee string
	}
	var roots []*ssa.Function
	pairs := map[pair]bool{}
	for _, f := range moduleFunctions(c) {
		if f.Blocks == nil || strings.HasSuffix(c.SSA().Fset.Position(f.Pos()).Filename, "_test.go") {
			continue
		}
		has := false
		for _, b := range f.Blocks {
			for _, ins := range b.Instrs {
				ci, ok := ins.(ssa.CallInstruction)
				if !ok {
					continue
				}
				cal := ci.Common().StaticCallee()
				if cal == nil || cal.Pkg == nil || cal.Pkg.Pkg.Path() != fontPkg {
					continue
				}
				pairs[pair{f, core.ShortFunc(cal)}] = true
				has = true
			}
		}
		if has {
			roots = append(roots, f)
		}
	}
	a.solve(roots)
	a.debugSummary()
	var ps []pair
	for p := range pairs {
		ps = append(ps, p)
	}
	sort.Slice(ps, func(i, j int) bool {
		if ps[i].f.String() != ps[j].f.String() {
			return ps[i].f.String() < ps[j].f.String()
		}
		return ps[i].callee < ps[j].callee
	})
	for _, p := range ps {
		s := a.sums[p.f]
		key := core.ShortFunc(p.f) + "|" + p.callee
		if s == nil {
			r.Fail("E1.font-lib", key+"|summary", a.pos(p.f.Pos()), "no summary computed")
			continue
		}
		var ws []string
		for i, prm := range p.f.Params {
			if !reachesNamed(prm.Type(), fontPkg, "SFNT") {
				continue // the parameter cannot hold a loaded font (an output path, a byte slice, …)
			}
			for lvl := 0; lvl <= maxLevel; lvl++ {
				if w := s.WS[wkey{i, lvl}][p.callee]; w != "" {
					ws = append(ws, fmt.Sprintf("parameter %d level %d: %s", i, lvl, w))
				}
			}
		}
		if len(ws) == 0 {
			r.OK("E1.font-lib", key, a.pos(p.f.Pos()), "the call writes nothing reachable from the caller's parameters")
		} else {
			r.Fail("E1.font-lib", key, a.pos(p.f.Pos()), fmt.Sprintf("%s calls %s, which may write memory reachable from the caller's parameters (a shared loaded font)", core.ShortFunc(p.f), p.callee), ws...)
		}
	}
	r.Count("E1.font-lib-call-pairs", len(ps))
	r.Floor("E1.font-lib-call-pairs", 20)
	for k := range a.extPure {
		r.Assumed[k] = true
	}
}

// reachesNamed reports whether values of type t can hold (directly or through pointers, slices,
// maps, struct fields) a value of the named type pkg.name. Interfaces are opaque: they reach nothing.
func reachesNamed(t types.Type, pkg, name string) bool {
	seen := map[types.Type]bool{}
	var walk func(t types.Type) bool
	walk = func(t types.Type) bool {
		if seen[t] {
			return false
		}
		seen[t] = true
		if n, ok := t.(*types.Named); ok && n.Obj().Pkg() != nil && n.Obj().Pkg().Path() == pkg && n.Obj().Name() == name {
			return true
		}
		switch u := t.Underlying().(type) {
		case *types.Pointer:
			return walk(u.Elem())
		case *types.Slice:
			return walk(u.Elem())
		case *types.Array:
			return walk(u.Elem())
		case *types.Map:
			return walk(u.Key()) || walk(u.Elem())
		case *types.Struct:
			for i := 0; i < u.NumFields(); i++ {
				if walk(u.Field(i).Type()) {
					return true
				}
			}
		}
		return false
	}
	return walk(t)
}

// E1SharedArgs: C20's "goroutines sharing read-only inputs": path operations do not write their
// non-receiver arguments (another path, a dash pattern, a matrix slice), which callers may share
// between goroutines working on distinct receivers.
func E1SharedArgs(c *core.Ctx, r *core.Report) {
	r.Rule("E1.shared-args", "no exported method of *Path or Paths, nor dashCanonical/checkDash, writes memory reachable from a non-receiver argument (other paths, dash patterns): these are the inputs goroutines working on distinct paths may share; documented sinks are exempt as under C10")
	a := newEffects(c, r)
	var roots []*ssa.Function
	roots = append(roots, exportedMethods(c, "Path")...)
	roots = append(roots, exportedMethods(c, "Paths")...)
	roots = append(roots, c.SSAFunc("", "Path.checkDash"), c.SSAFunc("", "dashCanonical"))
	a.solve(roots)
	n := 0
	for _, f := range roots {
		name := strings.TrimPrefix(strings.TrimPrefix(core.ShortFunc(f), "(*canvas."), "(canvas.")
		name = strings.Replace(name, ").", ".", 1)
		allowed := map[string]bool{}
		if ex, ok := c10Exempt[name]; ok {
			for _, pn := range ex.params {
				allowed[pn] = true
			}
		}
		var only []string
		for i, prm := range f.Params {
			if i == 0 && f.Signature.Recv() != nil {
				continue
			}
			if hasPtr(prm.Type()) {
				only = append(only, prm.Name())
			}
		}
		if len(only) == 0 {
			continue
		}
		n += len(only)
		a.reportEffects(r, "E1.shared-args", f, allowed, "argument", only...)
	}
	r.Count("E1.shared-args", n)
	r.Floor("E1.shared-args", 25)
	for k := range a.extPure {
		r.Assumed[k] = true
	}
}

// E1VectorRenderPath: the vector writers do not modify the path and style they are given (C12).
func E1VectorRenderPath(c *core.Ctx, r *core.Report) {
	r.Rule("E1.render-path-pure", "RenderPath of the SVG, PDF and PostScript writers writes no memory reachable from its path or style argument (interprocedural effect analysis, the same summaries as E1.render-pure). A writer uses the path twice — once for the native operators under the view, once for the explicit outline of a stroke it cannot express — and the canvas replays the same path object to every renderer: a view applied in place (`path.Transform(m)` without the copy) makes the fall-back outline m(stroke(m(path))) and leaves every later rendering of the canvas displaced")
	a := newEffects(c, r)
	var fs []*ssa.Function
	for _, b := range backends {
		if b.rel == "renderers/rasterizer" {
			continue
		}
		fs = append(fs, c.SSAFunc(b.rel, b.recv+".RenderPath"))
	}
	a.solve(fs)
	for _, f := range fs {
		a.reportEffects(r, "E1.render-path-pure", f, nil, "argument", "path", "style")
	}
	r.Count("E1.vector-render-roots", len(fs))
	r.Floor("E1.vector-render-roots", 3)
	for k := range a.extPure {
		r.Assumed[k] = true
	}
}

// E1DashInputs: dashing does not modify the pattern it is given (C05).
func E1DashInputs(c *core.Ctx, r *core.Report) {
	r.Rule("E1.dash-input-pure", "the dash pattern travels as a slice — from Context.SetDashes through the recorded styles to every renderer — and is shared by everything that was drawn with it. canvas.ScaleDash (which every back-end applies per path: pattern × stroke width × view scale), Path.Dash, dashCanonical and checkDash write no memory reachable from the pattern they are given (interprocedural effect analysis). A ScaleDash that multiplies in place compounds the factor with every path drawn: the second path is dashed with the pattern scaled twice, the third three times")
	a := newEffects(c, r)
	roots := []struct {
		f    *ssa.Function
		only []string
	}{
		{c.SSAFunc("", "ScaleDash"), []string{"d"}},
		{c.SSAFunc("", "Path.Dash"), []string{"d"}},
		{c.SSAFunc("", "dashCanonical"), []string{"d"}},
		{c.SSAFunc("", "Path.checkDash"), []string{"d"}},
	}
	var fs []*ssa.Function
	for _, rt := range roots {
		fs = append(fs, rt.f)
	}
	a.solve(fs)
	for _, rt := range roots {
		a.reportEffects(r, "E1.dash-input-pure", rt.f, nil, "argument", rt.only...)
	}
	r.Count("E1.dash-roots", len(roots))
	r.Floor("E1.dash-roots", 4)
	for k := range a.extPure {
		r.Assumed[k] = true
	}
}
