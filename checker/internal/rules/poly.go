package rules

import (
	"go/ast"
	"go/constant"
	"go/token"
	"go/types"
	"sort"
	"strings"

	"canvascheck/internal/core"
)

// poly is a multivariate polynomial with integer coefficients in normal form: the key of a monomial
// is the sorted list of its factor symbols joined by '*' ("" for the constant term).
type poly map[string]int

func polyMul(a, b poly) poly {
	out := poly{}
	for ka, ca := range a {
		for kb, cb := range b {
			var fs []string
			if ka != "" {
				fs = append(fs, strings.Split(ka, "*")...)
			}
			if kb != "" {
				fs = append(fs, strings.Split(kb, "*")...)
			}
			sort.Strings(fs)
			out[strings.Join(fs, "*")] += ca * cb
		}
	}
	return polyTrim(out)
}

func polyAdd(a, b poly, sign int) poly {
	out := poly{}
	for k, v := range a {
		out[k] += v
	}
	for k, v := range b {
		out[k] += sign * v
	}
	return polyTrim(out)
}

func polyTrim(a poly) poly {
	for k, v := range a {
		if v == 0 {
			delete(a, k)
		}
	}
	return a
}

func polyEqual(a, b poly) bool {
	if len(a) != len(b) {
		return false
	}
	for k, v := range a {
		if b[k] != v {
			return false
		}
	}
	return true
}

func (a poly) String() string {
	var ks []string
	for k := range a {
		ks = append(ks, k)
	}
	sort.Strings(ks)
	var sb strings.Builder
	for i, k := range ks {
		if i > 0 {
			sb.WriteString(" + ")
		}
		if a[k] != 1 || k == "" {
			sb.WriteString(constant.MakeInt64(int64(a[k])).String())
			if k != "" {
				sb.WriteString("*")
			}
		}
		sb.WriteString(k)
	}
	return sb.String()
}

// polyOf expands e over + - * (and integer constants, math.Pow(x, 2)) into normal form. sym names
// the leaves: it returns the symbol of an expression that is to be treated as atomic, or "" when the
// expression should be expanded further; locals with exactly one definition in scope are replaced by
// their definition (defs). ok is false when e contains anything else.
func polyOf(info *types.Info, e ast.Expr, sym func(ast.Expr) string, defs map[types.Object]ast.Expr) (poly, bool) {
	e = core.Unparen(e)
	if s := sym(e); s != "" {
		return poly{s: 1}, true
	}
	if tv, ok := info.Types[e]; ok && tv.Value != nil {
		if v, exact := constant.Int64Val(constant.ToInt(tv.Value)); exact && constant.ToInt(tv.Value).Kind() == constant.Int {
			return polyTrim(poly{"": int(v)}), true
		}
		return nil, false
	}
	switch x := e.(type) {
	case *ast.Ident:
		if d, ok := defs[core.ObjOf(info, x)]; ok {
			return polyOf(info, d, sym, defs)
		}
		return nil, false
	case *ast.UnaryExpr:
		if x.Op == token.SUB || x.Op == token.ADD {
			p, ok := polyOf(info, x.X, sym, defs)
			if !ok {
				return nil, false
			}
			if x.Op == token.SUB {
				return polyAdd(poly{}, p, -1), true
			}
			return p, true
		}
	case *ast.BinaryExpr:
		a, ok1 := polyOf(info, x.X, sym, defs)
		b, ok2 := polyOf(info, x.Y, sym, defs)
		if !ok1 || !ok2 {
			return nil, false
		}
		switch x.Op {
		case token.ADD:
			return polyAdd(a, b, 1), true
		case token.SUB:
			return polyAdd(a, b, -1), true
		case token.MUL:
			return polyMul(a, b), true
		}
	case *ast.CallExpr:
		if name, call := core.MathFunc(info, x); name == "Pow" && len(call.Args) == 2 {
			if n, ok := core.ConstInt(info, call.Args[1]); ok && n >= 0 && n <= 8 {
				b, ok := polyOf(info, call.Args[0], sym, defs)
				if !ok {
					return nil, false
				}
				out := poly{"": 1}
				for i := 0; i < int(n); i++ {
					out = polyMul(out, b)
				}
				return out, true
			}
		}
	}
	return nil, false
}

// singleDefs collects the locals that are defined exactly once (`v := e` / `var v = e`, one value per
// name) inside n and never assigned again.
func singleDefs(info *types.Info, n ast.Node) map[types.Object]ast.Expr {
	defs := map[types.Object]ast.Expr{}
	count := map[types.Object]int{}
	ast.Inspect(n, func(m ast.Node) bool {
		switch x := m.(type) {
		case *ast.AssignStmt:
			for i, l := range x.Lhs {
				id, ok := l.(*ast.Ident)
				if !ok {
					continue
				}
				o := core.ObjOf(info, id)
				if o == nil {
					continue
				}
				count[o]++
				if len(x.Lhs) == len(x.Rhs) && (x.Tok == token.DEFINE || x.Tok == token.ASSIGN) {
					defs[o] = x.Rhs[i]
				} else {
					count[o] += 2
				}
			}
		case *ast.IncDecStmt:
			if id, ok := x.X.(*ast.Ident); ok {
				count[core.ObjOf(info, id)] += 2
			}
		case *ast.ValueSpec:
			for i, id := range x.Names {
				o := core.ObjOf(info, id)
				count[o]++
				if i < len(x.Values) {
					defs[o] = x.Values[i]
				}
			}
		case *ast.UnaryExpr:
			if x.Op == token.AND {
				if id, ok := core.Unparen(x.X).(*ast.Ident); ok {
					count[core.ObjOf(info, id)] += 2
				}
			}
		}
		return true
	})
	for o, n := range count {
		if n != 1 {
			delete(defs, o)
		}
	}
	return defs
}

// numSign is constant.Sign for numeric constants and 2 for anything else (constant.Sign panics on strings and booleans).
func numSign(v constant.Value) int {
	if v == nil {
		return 2
	}
	switch v.Kind() {
	case constant.Int, constant.Float:
		return constant.Sign(v)
	}
	return 2
}
