package rules

import "canvascheck/internal/core"

func init() {
	register("C08", &Property{
		Title: "Bounds is the tight bounding box and FastBounds contains it",
		Explanation: "Decides, for every path, the structural clauses of Bounds/FastBounds/Rect hulls: each accumulator returned as a low (high) side is only ever updated by math.Min (math.Max) folds that include itself; no fold nests the opposite operator; Bounds folds every segment end point into all four sides unconditionally; FastBounds folds every decoded control/end point into all four sides with min/max and X/Y candidate sets mirrored (arc: centre∓max(rx,ry)); Rect.Transform/Add/AddPoint hulls are pure and complete. A violated clause makes the box exclude a point of the path for some input. NOT decided: which Bézier/arc extrema are computed (root finding, angle tests), tightness, equivariance.",
		Run: func(c *core.Ctx, r *core.Report) { E3BoundingBoxes(c, r) },
	})
}

func init() {
	register("C01", &Property{
		Title: "Boolean path operations compute the set algebra of the filled regions",
		Explanation: "Decides the finite tables of the boolean operations for every input that reaches them: each public wrapper passes the op constant of its name, its own operands and NonZero; SweepPoint.InResult's per-op membership expressions equal the property's truth table over (subject fills, clipping fills) on each side of an edge and an edge is kept iff filling changes; the pathOp switch is exhaustive; bentleyOttmann's four early-outs (Q empty, P empty, disjoint sub-path of P, of Q) keep an operand exactly for the ops whose truth table keeps it. NOT decided: the sweep itself, snap rounding, overlap merging, contour tracing, termination, area laws.",
		Run: func(c *core.Ctx, r *core.Report) {
			E9Wrappers(c, r, map[string]bool{"And": true, "Or": true, "Xor": true, "Not": true, "DivideBy": true})
			E9InResult(c, r, []string{"opAND", "opOR", "opNOT", "opXOR", "opDIV"})
			E9Shortcuts(c, r)
		},
	})
	register("C02", &Property{
		Title: "Settle preserves the filled region and returns a canonical simple path",
		Explanation: "Decides: FillRule.Fills is definite on the sign×parity classes of the winding number and equals each rule's definition, with a case for all four rules; the Settle entry points pass nil, opSettle and their own fill rule to the sweep; opSettle membership is the subject's own fill on each side; settling an empty path yields the empty path. NOT decided: canonical form, hole orientation, idempotence, the sweep.",
		Run: func(c *core.Ctx, r *core.Report) {
			E9Fills(c, r)
			E9Wrappers(c, r, map[string]bool{"Settle": true})
			E9InResult(c, r, []string{"opSettle"})
		},
	})
	register("C06", &Property{
		Title: "Containment and winding queries agree with the path's winding number",
		Explanation: "Decides: in RayIntersections the per-segment pre-filter hull is a pure Min/Max tree over start, end and every decoded control point (arc: centre∓max(rx,ry)), so no segment the ray can cross is skipped; Contains returns fillRule.Fills(n) for n from Windings(x, y); Windings/Crossings visit every element of Split(); Fills agrees with the rule definitions. NOT decided: the ray/segment case analysis at end points, horizontals and tangents, CCW, Filling's nesting logic.",
		Run: func(c *core.Ctx, r *core.Report) {
			E3RayHull(c, r)
			E9ContainsFlow(c, r)
			E9Fills(c, r)
		},
	})
}

func init() {
	register("C09", &Property{
		Title: "Length, SplitAt and Reverse are consistent views of the same curve",
		Explanation: "Decides the encoding clauses Length/SplitAt/Reverse/Split depend on, for every path: in every decoder loop of the package (incl. SplitAt, Reverse, Split, Length) a command cursor of one path only indexes that path's data; payload offsets stay inside the record of the command being decoded; every record built (incl. the ones Reverse emits) has the command at both ends and the format's length; cmdLen agrees with the format. NOT decided: quadrature, arc-length inversion, involution, winding negation.",
		Run: func(c *core.Ctx, r *core.Report) {
			E2CmdLenTable(c, r)
			E2CursorDomain(c, r, nil)
			E2RecordLayout(c, r)
			E2RecordConstruction(c, r)
		},
	})
}

// RunMutant is the entry point of the self-validation sub-process (thorough tier).
func RunMutant(args []string) int { return runMutant(args) }
