package rules

import "canvascheck/internal/core"

func init() {
	register("C08", &Property{
		Title: "Bounds is the tight bounding box and FastBounds contains it",
		Explanation: "Decides, for every path, the structural clauses of Bounds/FastBounds/Rect hulls: each accumulator returned as a low (high) side is only ever updated by math.Min (math.Max) folds that include itself; no fold nests the opposite operator; Bounds folds every segment end point into all four sides unconditionally; FastBounds folds every decoded control/end point into all four sides with min/max and X/Y candidate sets mirrored (arc: centre∓max(rx,ry)); Rect.Transform/Add/AddPoint hulls are pure and complete. A violated clause makes the box exclude a point of the path for some input. NOT decided: which Bézier/arc extrema are computed (root finding, angle tests), tightness, equivariance.",
		Run: func(c *core.Ctx, r *core.Report) { E3BoundingBoxes(c, r) },
	})
}

// RunMutant is the entry point of the self-validation sub-process (thorough tier).
func RunMutant(args []string) int { return runMutant(args) }
