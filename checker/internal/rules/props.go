package rules

import (
	"canvascheck/internal/core"

	"golang.org/x/tools/go/ssa"
)

func init() {
	register("C08", &Property{
		Title:       "Bounds is the tight bounding box and FastBounds contains it",
		Explanation: "Decides, for every path, the structural clauses of Bounds/FastBounds/Rect hulls: each accumulator returned as a low (high) side is only ever updated by math.Min (math.Max) folds that include itself; no fold nests the opposite operator; Bounds folds every segment end point into all four sides unconditionally; FastBounds folds every decoded control/end point into all four sides with min/max and X/Y candidate sets mirrored (arc: centre∓max(rx,ry)); Rect.Transform/Add/AddPoint hulls are pure and complete. A violated clause makes the box exclude a point of the path for some input. NOT decided: which Bézier/arc extrema are computed (root finding, angle tests), tightness, equivariance.",
		Run: func(c *core.Ctx, r *core.Report) {
			E3EllipseFrameRotation(c, r) // the radii correction every stored arc goes through
			E11AboutIsConjugation(c, r)  // the Matrix helpers every view and transformation is composed with
			E11MatrixComposers(c, r)     // the Matrix helpers every view and transformation is composed with
			E8Units(c, r)                // degrees and radians: every property that handles arcs or rotations
			E11ArcRotationRewritten(c, r)
			E11ArcShortcutOrientation(c, r)
			E11AngleRangeNormalised(c, r)
			E2CarriedShadow(c, r)
			E3ArcShortcut(c, r)
			E3BoundingBoxes(c, r)
			E3BoundsExtrema(c, r)
			E3BoundsGuardAgreement(c, r)
			E3ArcExtent(c, r)
		},
	})
}

func init() {
	register("C01", &Property{
		Title:       "Boolean path operations compute the set algebra of the filled regions",
		Explanation: "Decides the finite tables of the boolean operations for every input that reaches them: each public wrapper passes the op constant of its name, its own operands and NonZero; SweepPoint.InResult's per-op membership expressions equal the property's truth table over (subject fills, clipping fills) on each side of an edge and an edge is kept iff filling changes; the pathOp switch is exhaustive; bentleyOttmann's four early-outs (Q empty, P empty, disjoint sub-path of P, of Q) keep an operand exactly for the ops whose truth table keeps it. NOT decided: the sweep itself, snap rounding, overlap merging, contour tracing, termination, area laws.",
		Run: func(c *core.Ctx, r *core.Report) {
			E9SquareRangeBothEnds(c, r)
			E9MovedNodeHeight(c, r)
			E9Fills(c, r)
			E4InsertAlias(c, r, []string{""})
			E9EndpointPair(c, r)
			E9OperandListsSeparate(c, r)
			E9WindingInherited(c, r)
			E9AdjacentAlwaysTested(c, r)
			E11StickyFlag(c, r)
			E9CopyDropsStatusNode(c, r)
			E9ClipClosed(c, r)
			E9AbsorbedLink(c, r)
			E9AbsorbConserves(c, r)
			E9DepthFromResultEdge(c, r)
			E9StitchSelectsUnconsumed(c, r)
			E9DepthDerivedAfterRead(c, r)
			E9SquareRange(c, r)
			E9HoleParity(c, r)
			E9WindingsSync(c, r)
			E9Wrappers(c, r, map[string]bool{"And": true, "Or": true, "Xor": true, "Not": true, "DivideBy": true})
			E9InResult(c, r, []string{"opAND", "opOR", "opNOT", "opXOR", "opDIV"})
			E9Shortcuts(c, r)
		},
	})
	register("C02", &Property{
		Title:       "Settle preserves the filled region and returns a canonical simple path",
		Explanation: "Decides: FillRule.Fills is definite on the sign×parity classes of the winding number and equals each rule's definition, with a case for all four rules; the Settle entry points pass nil, opSettle and their own fill rule to the sweep; opSettle membership is the subject's own fill on each side; settling an empty path yields the empty path. NOT decided: canonical form, hole orientation, idempotence, the sweep.",
		Run: func(c *core.Ctx, r *core.Report) {
			E9SquareRangeBothEnds(c, r)
			E9MovedNodeHeight(c, r)
			E11StickyFlag(c, r)
			E9CopyDropsStatusNode(c, r)
			E9EndpointPair(c, r)
			E9WindingInherited(c, r)
			E9AdjacentAlwaysTested(c, r)
			E4InsertAlias(c, r, []string{""})
			E9AbsorbedLink(c, r)
			E9AbsorbConserves(c, r)
			E9DepthFromResultEdge(c, r)
			E9StitchSelectsUnconsumed(c, r)
			E9DepthDerivedAfterRead(c, r)
			E9SquareRange(c, r)
			E9HoleParity(c, r)
			E9WindingsSync(c, r)
			E9Fills(c, r)
			E9Wrappers(c, r, map[string]bool{"Settle": true})
			E9InResult(c, r, []string{"opSettle"})
		},
	})
	register("C06", &Property{
		Title:       "Containment and winding queries agree with the path's winding number",
		Explanation: "Decides: in RayIntersections the per-segment pre-filter hull is a pure Min/Max tree over start, end and every decoded control point (arc: centre∓max(rx,ry)), so no segment the ray can cross is skipped; Contains returns fillRule.Fills(n) for n from Windings(x, y); Windings/Crossings visit every element of Split(); Fills agrees with the rule definitions. Since batch 11 also: over all paths of the hit loops of windings and Crossings, a counted hit is non-tangent or a vertex whose sides agree, an end-point hit is always remembered or compared, overlapping hits have no effect; no direction is taken from a cubic derivative that can be zero. NOT decided: the intersection arithmetic of the primitives, CCW's index logic, Filling's nesting logic.",
		Run: func(c *core.Ctx, r *core.Report) {
			E9EllipseQuadraticMirror(c, r)
			E3EllipseFrameRotation(c, r) // the radii correction every stored arc goes through
			E9DirectionFallbackSymmetric(c, r)
			E8Units(c, r) // degrees and radians: every property that handles arcs or rotations
			E9PendingNotOverwritten(c, r)
			E11ReversedFrame(c, r)
			E9TangentBothWays(c, r)
			E3RayImplicitClose(c, r)
			E3RayHull(c, r)
			E3EllipseParamAngle(c, r)
			E9ContainsFlow(c, r)
			E9Fills(c, r)
			E9HitCounting(c, r)
			E9PendingPerSubpath(c, r)
			E9InflectionAcrossLine(c, r)
			E9CurveParameterDomain(c, r)
			E9NudgeSideFromTangent(c, r)
			E11PieceFlagNotWholeArcs(c, r)
			E11RemapIffSplit(c, r)
			E9CubicDirection(c, r)
			E3ContainmentFilter(c, r)
			E9TangentFromRoots(c, r)
			E9EndpointSnap(c, r)
		},
	})
}

func init() {
	register("C09", &Property{
		Title:       "Length, SplitAt and Reverse are consistent views of the same curve",
		Explanation: "Decides the encoding clauses Length/SplitAt/Reverse/Split depend on, for every path: in every decoder loop of the package (incl. SplitAt, Reverse, Split, Length) a command cursor of one path only indexes that path's data; payload offsets stay inside the record of the command being decoded; every record built (incl. the ones Reverse emits) has the command at both ends and the format's length; cmdLen agrees with the format. NOT decided: quadrature, arc-length inversion, involution, winding negation.",
		Run: func(c *core.Ctx, r *core.Report) {
			E3EllipseFrameRotation(c, r) // the radii correction every stored arc goes through
			E11SplitPartition(c, r)
			E8Units(c, r) // degrees and radians: every property that handles arcs or rotations
			E11CutsSortedBeforeUse(c, r)
			E11CutInterval(c, r)
			E11CloseUsesOwnStart(c, r)
			E9ChordShortcut(c, r)
			E11QuadratureCoversArc(c, r)
			E3ArcShortcut(c, r)
			E2CmdLenTable(c, r)
			E2CursorDomain(c, r, nil)
			E2RecordLayout(c, r)
			E2RecordConstruction(c, r)
			E11CutCarried(c, r)
			E11SubpathFlag(c, r)
			E2MoveReplayed(c, r)
			E2AccumulatorAdvance(c, r)
			E2RecordPreserved(c, r)
			E4LogDomain(c, r)
			E11NormaliseFirst(c, r)
		},
	})
}

var c11ReviewedPanics = map[string]string{
	`(*canvas.FontFamily).Face|"font family is empty"`: "svgParser.getFontFace calls Face only after FontFamily.LoadSystemFont returned nil, which stores the font in family.fonts (font.go LoadFontFile: family.fonts[style] = font); families cached in svg.fonts were stored after the same success",
}

var c17ReviewedPanics = map[string]string{}

var c10ReviewedPanics = map[string]string{
	`(*canvas.SweepEvents).AddPathEndpoints|"non-flat paths not supported"`:                       "bentleyOttmann replaces every operand sub-path by its Flatten(Tolerance) before it calls AddPathEndpoints (both operand loops), and Flatten replaces every quadratic, cubic and arc command",
	`(*canvas.SweepEvents).AddPathEndpoints|"path has NaN or Inf"`:                                "C10 quantifies over finite arguments; a path built from finite numbers has finite coordinates",
	`(*canvas.SweepStatus).rebalance|"Tree too far out of shape!"`:                                "AVL invariant: every insertion and removal rebalances bottom-up, so a balance factor beyond ±2 cannot arise from a single update",
	`canvas.addCubicBezierLine|"not implemented"`:                                                 "every call site passes the constant 0.0 or 1.0 for t",
	`canvas.cubicBezierNormal|"not implemented"`:                                                  "called with the constants 0.0/1.0 or from addCubicBezierLine's t == 0.0 / t == 1.0 branches only",
	`canvas.findInflectionPointRangeCubicBezier|"t outside 0.0--1.0 range"`:                       "t comes from findInflectionPointsCubicBezier, which returns NaN (handled first) or a value inside (Epsilon/2, 1-Epsilon/2)",
	`canvas.bentleyOttmann|"other endpoint already removed, probably buggy intersection code"`:    "guards the same status invariant as its two siblings, which are listed as known findings with failing inputs; no failing input was found for this one in 80 000 random near-degenerate operand pairs — NOT proven unreachable",
	`canvas.bentleyOttmann|"right-endpoint not part of status, probably buggy intersection code"`: "guards the same status invariant as its two siblings, which are listed as known findings with failing inputs; no failing input was found for this one in 80 000 random near-degenerate operand pairs — NOT proven unreachable",
}

func init() {
	register("C11", &Property{
		Title:       "Textual path formats round-trip and parsers never panic",
		Explanation: "Decides, for every input string: (1) each index of the input bytes in ParseSVGPath/skipCommaWhitespace is dominated by a bound check on every path through the function (path-sensitive guard facts over the AST, short-circuit aware); the per-command number-count table fits the number buffer; (2) no explicit panic(...) in the canvas module is reachable in the VTA call graph from ParseSVGPath or ParseSVG (restricted to the import closure of package canvas, since no value of another package's type can exist in that call tree) except the reviewed sites listed in the evidence. NOT decided: round-trip equality and number minification, implicit run-time panics other than the named index guards, termination, panics inside third-party Go dependencies (font parsing, shaping).",
		Assumptions: []string{"cursor variables are non-negative (initialised to 0 and only incremented)", "strconv.ParseFloat (tdewolff/parse) returns 0 <= n <= len(b)", "third-party dependencies are trusted not to panic"},
		Run: func(c *core.Ctx, r *core.Report) {
			E11ImplicitLineToRelativity(c, r)
			E11SVGTransformTable(c, r)   // ParseSVG never panics: the arity table of the transform functions
			E3EllipseFrameRotation(c, r) // the radii correction every stored arc goes through
			E11MagnitudeTestOnAbs(c, r)
			E4SliceLengthGuarded(c, r)
			E11EmptyCloseKeepsPosition(c, r)
			E8Units(c, r)
			E11RelativeBeforeUse(c, r)
			E11ImplicitCommand(c, r)
			E2SerialiseEveryCommand(c, r)
			E4ParserGuards(c, r)
			E4ParserProgress(c, r)
			E11SVGSmooth(c, r)
			E4ValueOnError(c, r)
			E11PrecisionUnit(c, r)
			E2PenTracking(c, r, []string{"Path.ToSVG", "Path.ToPS", "Path.ToPDF"})
			r.Rule("E4.panic-reach", "no explicit panic(...) call in the module or its Go dependencies is reachable in the VTA call graph from ParseSVGPath or ParseSVG, except sites in the reviewed table (function + message -> why no parser input reaches it)")
			roots := []*ssa.Function{c.SSAFunc("", "ParseSVGPath"), c.SSAFunc("", "ParseSVG")}
			E4PanicReachability(c, r, "E4.panic-reach", roots, c11ReviewedPanics, true)
		},
	})
	register("C17", &Property{
		Title:       "Line breaking returns a feasible, optimal Knuth-Plass solution",
		Explanation: "Decides one clause only, 'terminates with a result for any sequence of items' in its no-panic part: every index of the caller-supplied item slice in Linebreak and the linebreaker methods is dominated by a bound check or is an index parameter whose bound is established at every call site (interprocedural index contract), and no explicit panic is reachable from Linebreak. NOT decided: legality of breakpoints, feasibility, optimality, relaxation of the tolerance, termination.",
		Assumptions: []string{"lb.items[active.Position] (a position stored earlier from a checked index) is listed as unclassified, not decided"},
		Run: func(c *core.Ctx, r *core.Report) {
			E4FeasibleWindow(c, r)
			E4SwallowedGlueStops(c, r)
			E4GlueAfterBox(c, r)
			E4DeactivationWithoutPenaltyWidth(c, r)
			E11BreakWidth(c, r)
			E4FlaggedPairRealBreak(c, r)
			E4FitnessChargeOnClassesOnly(c, r)
			E4ListLinks(c, r)
			E4RunningTotalsFixed(c, r)
			E4NextToleranceRecorded(c, r)
			E4ClassRecordsTogether(c, r)
			E4ZeroGuardIsDivisor(c, r, "text")
			E4ForcedBreakForgets(c, r)
			E11SumNotOverwritten(c, r)
			E4LinebreakGuards(c, r)
			E4AllocCoversIndex(c, r)
			E4ForcedBreakDeactivates(c, r)
			E11BreakSums(c, r)
			r.Rule("E4.panic-reach-linebreak", "no explicit panic(...) is reachable from text.Linebreak")
			E4PanicReachability(c, r, "E4.panic-reach-linebreak", []*ssa.Function{c.SSAFunc("text", "Linebreak")}, c17ReviewedPanics, true)
		},
	})
}

func init() {
	register("C13", &Property{
		Title:       "Every PDF produced is a structurally valid PDF file",
		Explanation: "Decides, for every sequence of writer calls, the structural clauses of the PDF writer: bytes reach the io.Writer only through write/writeBytes which add the returned count to pos; every 'n 0 obj' emission is immediately preceded by recording pos at index n-1; the reserved catalog/info/page-tree numbers agree with trailer Root/Info, catalog Pages and every page's Parent, and xref count == trailer Size; a stream's Length is len() of exactly the slice written between stream/endstream; the six metadata fields are stored under the key of the same name from the field of the same name; every font map in which getFont reserves a reference is written in Close with the matching vertical flag; no module type implementing an interface map key is non-comparable (or it is unwrapped before every use); the content-stream fragments form only PDF operators with balanced q/Q, BT/ET and terminated strings (abstract interpretation with inlining); every resource name given to gs/scn/SCN/Tf/Do is registered in the page's resources under the category the operator uses. NOT decided: byte-exact offsets of concrete documents, filter decodability, font program validity, the page count arithmetic.",
		Assumptions: []string{"fmt.Fprintf writes exactly the formatted bytes and returns their count", "path data produced by Path.ToPDF is treated as an opaque, well-delimited operand sequence (its own operator arities are checked under C11/C12)"},
		Run: func(c *core.Ctx, r *core.Report) {
			E5StringBytesEscaped(c, r)
			E5FormatConstant(c, r)
			E5GradientOffsetsUsed(c, r)
			E5DictCompleteBeforeWrite(c, r)
			E5ImageSampleDepth(c, r)
			E5CMapBlockLimit(c, r)
			E5NameMemoScope(c, r)
			E5StitchingArity(c, r)
			E5NameEscape(c, r)
			E5FunctionDictNeverEmpty(c, r)
			E4AlphaDivision(c, r)
			E5JPEGColorSpace(c, r)
			E5TextStringEncoding(c, r)
			E4AdditiveLoop(c, r)
			E5Position(c, r)
			E5ObjOffsets(c, r)
			E5Reserved(c, r)
			E5FreshRef(c, r)
			E5ValueTypes(c, r)
			E5StreamFilters(c, r)
			E5FilterApplied(c, r)
			E5StringEscape(c, r)
			E5PageMemoFresh(c, r)
			E5StreamLength(c, r)
			E5Metadata(c, r)
			E5FontMaps(c, r)
			E5MapKeys(c, r, pdfRel)
			E5Grammar(c, r)
			E5Resources(c, r)
		},
	})
}

func init() {
	register("C12", &Property{
		Title:       "SVG, PDF and PostScript output encode the drawing the rasterizer renders",
		Explanation: "Decides structural agreement among the four back-ends for every drawing: each RenderPath reads every Style field (a back-end that never reads a field cannot honour it); every explicit Dash call receives canvas.ScaleDash(style.StrokeWidth, …) like the reference rasterizer; every path serialised by ToSVG/ToPDF/ToPS/ToScanxScanner derives on every path from Transform(M) with M built from the view parameter (SVG: with the y-flip), incl. the explicit-outline fall-backs; cap/join codes per concrete Capper/Joiner type agree with the formats' tables and the even-odd marker is emitted only under FillRule == EvenOdd; the emitted PDF and PostScript fragments form only operators of the respective vocabulary with balanced save/restore (abstract interpretation with path-sensitive repeated conditions), and procedure names emitted by Path.ToPS are defined in the PS prolog. NOT decided: that an interpreter of the output paints the same pixels, gradients/patterns, text, opacity, unit factors, Positive/Negative fill rules (no back-end format has them).",
		Assumptions: []string{"the rasterizer is the reference for dash scaling", "PS.RenderImage (binary image data) is outside the grammar rule"},
		Run: func(c *core.Ctx, r *core.Report) {
			E5MemoTestCoversFields(c, r)
			E5ImageSampleDepth(c, r)
			E11ClusterOffsetBytes(c, r) // the text every back-end writes is cut out of the whole text at cluster offsets
			E5GradientOffsetsUsed(c, r)
			E11ImageExtentFromSize(c, r)
			E11AboutIsConjugation(c, r) // the Matrix helpers every view and transformation is composed with
			E11MatrixComposers(c, r)    // the Matrix helpers every view and transformation is composed with
			E8Units(c, r)               // degrees and radians: every property that handles arcs or rotations
			E2PenTracking(c, r, []string{"Path.ToSVG", "Path.ToPS", "Path.ToPDF"})
			E5NameMemoScope(c, r)
			E5PageMemoFresh(c, r)
			E5Resources(c, r)
			E6MemoStoresCompared(c, r)
			E5ClosedPaintOperator(c, r)
			E5PaintFollowsItsSetter(c, r)
			E11ViewScaleInvariant(c, r)
			E11ConstIndexInLoop(c, r)
			E6DashPeriod(c, r)
			E6JoinerSupport(c, r)
			E1VectorRenderPath(c, r)
			E6ColorModelCompare(c, r)
			E11GradientPad(c, r)
			E6OutlineNonzero(c, r)
			E5StitchingArity(c, r)
			E6MemoIndependent(c, r)
			E6MemoSharedState(c, r)
			E6OperatorThroughSetter(c, r)
			E11GramConsistency(c, r)
			E6StyleCoverage(c, r, nil)
			E6DashScaling(c, r)
			E6WidthFrame(c, r)
			E6TransformBeforeSerialise(c, r)
			E6EnumTables(c, r)
			E5Grammar(c, r)
			E6PSGrammar(c, r)
		},
	})
}

func init() {
	register("C10", &Property{
		Title:       "Built paths are well-formed; operations on them are total and side-effect free",
		Explanation: "Decides, for every path and argument: (1) every exported method of *Path/Paths other than the documented in-place mutators/sinks (each re-justified by its doc phrase) writes no memory reachable from its receiver or arguments — interprocedural effect analysis on SSA; the copy-on-write latch of replace is verified structurally; (2) the command encoding discipline: cmdLen vs the format, payload offsets inside the decoded record, every record built/retagged with the command at both ends; Split hands out capacity-limited sub-slices; (3) no in-place transform accumulates over loop iterations, no loop state variable is stuck at its initial constant. (4) since batch 12: every explicit panic reachable from Settle/And/Or/Xor/Not/DivideBy is a reviewed precondition or data-structure guard, or a known finding with a failing input; the sweep's work-list loop is reported for having no explicit bound (known finding: an operand pair on which Or does not return). NOT decided: 'no zero-length segments', the geometry the builders trace, implicit run-time panics other than those named, termination of anything but that loop.",
		Assumptions: []string{"standard-library functions not in the mutator table are pure (listed in coverage.external_assumed)", "results of calls through function-typed parameters are fresh objects", "one reviewed call edge: Dash -> Join (reason in the checker's exception table)"},
		Run: func(c *core.Ctx, r *core.Report) {
			E11CloseReturnsToStart(c, r)
			E11PointCompareTolerant(c, r)
			E11RecordedPathCopied(c, r)
			E9SquareRangeBothEnds(c, r)
			E11QuadLineTestMirror(c, r)
			E11StaleAfterBuilder(c, r)
			E11JoinCoincidence(c, r)
			E8Units(c, r)
			E9MovedNodeHeight(c, r)
			E2BackwardStepKnownKind(c, r)
			E11SVGSmooth(c, r)
			E11ArcSpanMagnitude(c, r)
			E11ClampAfterSign(c, r)
			E11ControlPointClausesSymmetric(c, r)
			E11CursorRevalidatedAfterJoin(c, r)
			E1PathMethods(c, r)
			E2CmdLenTable(c, r)
			E2RecordLayout(c, r)
			E2RecordConstruction(c, r)
			E2CloseRewrite(c, r)
			E2CarriedShadow(c, r)
			E3DominantAxis(c, r)
			E3EllipseFrameRotation(c, r)
			E4NilBranchDeref(c, r)
			E11SplitCap(c, r)
			E11StuckVariables(c, r)
			E11InPlaceInLoop(c, r)
			r.Rule("E4.panic-reach-boolean", "no explicit panic(...) is reachable from Path.Settle, And, Or, Xor, Not and DivideBy on a well-formed finite path, other than the reviewed precondition and data-structure guards; the sites whose message says 'probably buggy intersection code' / 'impossible' are reachable and two of them have failing inputs (known findings)")
			var broots []*ssa.Function
			for _, nm := range []string{"Path.Settle", "Path.And", "Path.Or", "Path.Xor", "Path.Not", "Path.DivideBy"} {
				broots = append(broots, c.SSAFunc("", nm))
			}
			E4PanicReachability(c, r, "E4.panic-reach-boolean", broots, c10ReviewedPanics, true)
			E4WorklistBound(c, r)
		},
	})
}

func init() {
	register("C14", &Property{
		Title:       "Rasterization paints exactly the pixels inside the filled region",
		Explanation: "Decides, for every canvas: (1) 'rendering leaves the canvas, its paths and its gradients unchanged': RenderPath/RenderText/RenderImage of all four back-ends, Canvas.RenderTo/RenderViewTo and rasterizer.Draw write no memory reachable from the path, style (dash array, gradient stops, patterns), text, image or canvas arguments (interprocedural effect analysis on SSA with callback-invocation summaries); (2) the rasterizer reads every Style field including the fill rule; (3) every scanner emission maps coordinates as (x*dpmm, height-y*dpmm) and the image size is width x height x resolution in both constructors. NOT decided: pixel coverage, anti-aliasing, later-draws-cover-earlier, determinism of the scanner library.",
		Assumptions: []string{"standard-library functions not in the mutator table are pure (listed in coverage.external_assumed)", "results of calls through function-typed parameters are fresh objects", "third-party Go dependencies are analysed from source, cgo is not"},
		Run: func(c *core.Ctx, r *core.Report) {
			E6ScannerColorMemo(c, r)
			E11ImageExtentFromSize(c, r)
			E11ImageReplacedExtent(c, r)
			E11AboutIsConjugation(c, r) // the Matrix helpers every view and transformation is composed with
			E11MatrixComposers(c, r)    // the Matrix helpers every view and transformation is composed with
			E11SinkForwardsEverySegment(c, r)
			E11ViewScaleInvariant(c, r)
			E6SkipBoundsCover(c, r)
			E11PixelLoopBounds(c, r)
			E1Renderers(c, r)
			E12Units(c, r)
			E12ColorSpaceOnce(c, r)
			E6ImplicitClose(c, r)
			E11StrokeToleranceView(c, r)
			E11StrokeBeforeView(c, r)
			E6StyleCoverage(c, r, map[string]bool{"Rasterizer": true})
			E6ScannerSites(c, r)
			E6WindingMode(c, r)
			E6FillRuleMap(c, r)
		},
	})
}

func init() {
	register("C15", &Property{
		Title:       "Context and Canvas apply views, coordinate systems and state as documented",
		Explanation: "Decides, for every call sequence: view helpers are exactly `view = view.Mul(Identity.<same-named op>(own parameters))` (post-multiplication) and ComposeView post-multiplies its argument; the four draw entry points assemble the same matrix CoordSystemView().Mul(view).Translate(coordView.Dot(x,y)) and compensate text/images exactly in the coordinate systems whose CoordSystemView reflects that axis; every Set*/Reset* method stores only into ContextState; Push saves and Pop restores the whole ContextState (Pop guarded, shrinking by one); Fill/Stroke clear and restore exactly the other paint; drawing does not rewrite the dash array shared with pushed states; RenderViewTo replays in sorted z-index then slice order with no renderer call inside a map range, and recording appends to the current z-index slice. NOT decided: the matrix algebra itself, Fit/Clip/Transform arithmetic, that DrawPath with several paths keeps per-path stroke state.",
		Run: func(c *core.Ctx, r *core.Report) {
			E11RecordedPathCopied(c, r)
			E11DashCheckUnits(c, r)
			E11AccumulatorRestart(c, r)
			E3BoundingBoxes(c, r) // Rect.Transform and the hull methods: Fit, Clip and the views map boxes with them
			E8Units(c, r)         // degrees and radians: every property that handles arcs or rotations
			E11AboutIsConjugation(c, r)
			E11MatrixComposers(c, r)
			E11LayerMatrixLeft(c, r)
			E11ImageExtentFromSize(c, r)
			E11DashPairTogether(c, r)
			E11SetterCopiesSlice(c, r)
			E11DashCover(c, r)
			E11DrawLoopState(c, r)
			E11ReflectCurrentImage(c, r)
			E11DashParity(c, r)
			E11FitStroke(c, r)
			E11ViewComposition(c, r)
			E11ContextState(c, r)
			E11Replay(c, r)
			E1ContextDraws(c, r)
			E1ContextSetters(c, r)
		},
	})
}

func init() {
	register("C03", &Property{
		Title:       "Flattening approximates every curve within the requested tolerance",
		Explanation: "Decides the 'made only of straight segments' clause for every input and tolerance: by command-set typing over the whole package, Flatten's result can contain only MoveTo/LineTo/Close (plus such commands inherited from the receiver) and ReplaceArcs' result no ArcTo; the replace driver has the validated splice shape (each kind calls its own non-nil replacer, the record is cut before the replacement is joined, the cursor restarts at the re-attached remainder, so every remaining command passes through the switch); the consumers that rely on it (ToPDF/Tile arc panics, stride-4 scanner loops, the sweep's non-flat panic) only see such paths. Of XMonotone one clause: the second root of a cubic is re-mapped onto the remainder exactly when the curve was cut at the first (E11.remap-iff-split). NOT decided: the error bound, vertex order, same end points, termination as the tolerance goes to 0, X-monotonicity in general.",
		Run: func(c *core.Ctx, r *core.Report) {
			E3EllipseFrameRotation(c, r) // the radii correction every stored arc goes through
			E11StaleAfterBuilder(c, r)
			E10FlatRestTurningPoint(c, r)
			E8Units(c, r) // degrees and radians: every property that handles arcs or rotations
			E11ToleranceThreaded(c, r)
			E11ArcFlagConsulted(c, r)
			E11CursorRevalidatedAfterJoin(c, r)
			E11PieceFlagNotWholeArcs(c, r)
			E10Flatness(c, r)
			E11RemapIffSplit(c, r)
			E11FactorFromStep(c, r)
			E2PenReread(c, r)
			E4StepProgress(c, r)
			E3ArcAngleFrame(c, r)
		},
	})
}

func init() {
	register("C04", &Property{
		Title:       "Stroke and Offset realise exact distance offsets of the path",
		Explanation: "Decides one clause only, 'closed subpaths are joined, not capped' (and its dual: open sub-paths are capped iff stroking): in (*Path).offset the closed flag is set exactly by a Close command, every Capper call is control-dependent on !closed && strokeOpen and placed at the two ends, the Joiner wraps around from the last to the first segment when closed, the closed branch closes both offset curves, and Stroke/Offset pass strokeOpen true/false; plus the angle-unit consistency of the arc rotation passed to ArcTo (E8, whole package). NOT decided: every distance clause (w/2 neighbourhood, miter limit, inner-bend repair, offset direction). Also runs the structural rules on Settle (registered for C02): closed sub-paths are stroked by settling their offset curves.",
		Run: func(c *core.Ctx, r *core.Report) {
			E11JoinerSidesConsistent(c, r)
			E11OffsetVerticesUseOffset(c, r)
			E2BackwardStepKnownKind(c, r)
			E11SignFlipPerIteration(c, r)
			E11ArcJoinDirectionFlags(c, r)
			E11BezierNormalHelper(c, r)
			E11SplitKeepsEndpoint(c, r)
			E11ToleranceThreaded(c, r)
			E11SignedMagnitude(c, r)
			E11StrokeSettleRule(c, r)
			E11JunctionPairing(c, r)
			E4RadiiNonzero(c, r)
			E11SubpathLoops(c, r)
			E11CapJoin(c, r)
			E8Units(c, r)
			// the outline of a closed sub-path is settled (Settle(Positive/Negative)): the rules on the sweep decide that step
			E11StickyFlag(c, r)
			E9CopyDropsStatusNode(c, r)
			E9EndpointPair(c, r)
			E9WindingInherited(c, r)
			E9AdjacentAlwaysTested(c, r)
			E4InsertAlias(c, r, []string{""})
			E9AbsorbedLink(c, r)
			E9AbsorbConserves(c, r)
			E9DepthFromResultEdge(c, r)
			E9StitchSelectsUnconsumed(c, r)
			E9DepthDerivedAfterRead(c, r)
			E9SquareRange(c, r)
			E9HoleParity(c, r)
			E9WindingsSync(c, r)
			E9Fills(c, r)
			E9Wrappers(c, r, map[string]bool{"Settle": true})
			E9InResult(c, r, []string{"opSettle"})
		},
	})
	register("C05", &Property{
		Title:       "Dashing cuts the path by arc length according to the pattern",
		Explanation: "Decides two structural clauses: (1) 'independently for every subpath': in Dash the only variable carried across iterations of the sub-path loop is the output accumulator and every iteration restarts from (i0, pos0); (2) pieces cut by SplitAt are made relative to the previous cut in every curve case (E11.cut-carried), read the sub-path's own data (E2 cursor domain) and keep the arc rotation in consistent units (E8). NOT decided: every arithmetic clause (phase, period, offsets, arc-length inversion, piece order, joining of closed sub-paths, degenerate patterns). Argument mutation by Dash is decided under C10/C15. Also runs the structural rules on SplitAt and Length (registered for C09): Dash cuts with SplitAt at positions measured with Length.",
		Run: func(c *core.Ctx, r *core.Report) {
			E11DashCheckUnits(c, r)
			E11SplitPartition(c, r)
			E11JoinCoincidence(c, r)
			E11LeadingCutExact(c, r)
			E11CutInterval(c, r)
			E1DashInputs(c, r)
			E11DashPairTogether(c, r)
			E11DashPeriod(c, r)
			E11DashReductionDivides(c, r)
			E11DashOffsetRange(c, r)
			E11DashCover(c, r)
			E11DashParity(c, r)
			E11DashIndependence(c, r)
			E11CutCarried(c, r)
			E2AccumulatorAdvance(c, r)
			E2CursorDomain(c, r, map[string]bool{"Path.SplitAt": true, "Path.Dash": true, "Path.Length": true, "Path.Split": true})
			E8Units(c, r)
			// dashes are cut with SplitAt at positions measured with Length: the rules on both decide that step
			E11CutsSortedBeforeUse(c, r)
			E11CloseUsesOwnStart(c, r)
			E9ChordShortcut(c, r)
			E11QuadratureCoversArc(c, r)
			E3ArcShortcut(c, r)
			E2CmdLenTable(c, r)
			E2RecordLayout(c, r)
			E2RecordConstruction(c, r)
			E11SubpathFlag(c, r)
			E2MoveReplayed(c, r)
			E2RecordPreserved(c, r)
			E4LogDomain(c, r)
			E11NormaliseFirst(c, r)
		},
	})
}

func init() {
	register("C18", &Property{
		Title:       "Embedded fonts and glyph paths reproduce the laid-out text",
		Explanation: "Decides three structural clauses: (1) 'the glyph subsetter assigns each used glyph one stable code with .notdef at zero' — the constructor and Get/List have exactly the hit/miss/append shape, and the PDF writer creates a font's subsetter only when the font has none (a second writing direction must not reset the codes already written); (2) fonts used for vertical text are kept in their own map and written with the matching vertical flag (Identity-V vs Identity-H), every font map that reserves an object is written in Close, and every Tf operand names a font registered in the page's resources (E5 font-map and resource rules). (3) the ToUnicode grouping loop keeps `start+length` equal to the visited code (E11.run-covers-codes). NOT decided: outlines, advances, the W array contents, the characters the ToUnicode map names, glyph placement in toPath.",
		Run: func(c *core.Ctx, r *core.Report) {
			E5StringBytesEscaped(c, r)
			E5MemoTestCoversFields(c, r)
			E5WArrayPendingFlushed(c, r)
			E5CIDToGIDEntries(c, r)
			E5WidthIDSpace(c, r)
			E11SpanOffsetAxes(c, r)
			E5CMapBlockLimit(c, r)
			E5SignedRounding(c, r)
			E5NameMemoScope(c, r)
			E5PageMemoFresh(c, r)
			E11PenAdvancesOnly(c, r)
			E5GlyphStringEscapes(c, r)
			E6MemoStoresCompared(c, r)
			E11AdvanceAxis(c, r)
			E11Subsetter(c, r)
			E5SubsetOnce(c, r)
			E5WidthRuns(c, r)
			E5DefaultWidth(c, r)
			E11RunCoversCodes(c, r)
			E11DerivedScale(c, r)
			E5TextMatrixComplete(c, r)
			E5FontMaps(c, r)
			E5Resources(c, r)
		},
	})
	register("C19", &Property{
		Title:       "Imported SVG documents draw the geometry the SVG specifies",
		Explanation: "Decides the unit and coverage tables of the importer for every document: parseDimension's factors equal the CSS absolute-unit and angle tables (constant folding); the canvas size is in millimetres on every branch (explicit width/height and viewBox fallback use the same px→mm factor) and init uses the inverse factor, the y-down coordinate system and the size/viewBox user-unit scale (px→mm without a viewBox); drawShape has a case for each basic shape; the path data parser's index guards and explicit-panic freedom are decided under C11. NOT decided: styling precedence, CSS selectors, transform order, per-element geometry, the write/read round trip.",
		Run: func(c *core.Ctx, r *core.Report) {
			E11ImplicitLineToRelativity(c, r)
			E11NumberListSeparators(c, r)
			E11SVGStyleElement(c, r)
			E11SVGDashUnits(c, r)
			E11SVGAttributeIndependence(c, r)
			E8Units(c, r) // degrees and radians: every property that handles arcs or rotations
			E11AboutIsConjugation(c, r)
			E11MatrixComposers(c, r)
			E11ZeroFactor(c, r)
			E11SVGKeywordInitial(c, r)
			E11EmptyValueAccepted(c, r)
			E11ViewBoxSeparators(c, r)
			E11ViewBoxInOneMatrix(c, r)
			E11EmptyCloseKeepsPosition(c, r)
			E11HexDigitPairs(c, r)
			E11SVGVocabulary(c, r)
			E11WordListMatch(c, r)
			E11SelectorHash(c, r)
			E11PercentReference(c, r)
			E11SelectorSubject(c, r)
			E11SelectorBacktracks(c, r)
			E11SVGMiterLimitCarried(c, r)
			E11SVGCascade(c, r)
			E11SVGTransformSeparator(c, r)
			E11SVGColorGrammar(c, r)
			E11SVGTransformTable(c, r)
			E11CopyStore(c, r)
			E11ViewBoxMirror(c, r)
			E11StateSliceReuse(c, r)
			E11SVGUnits(c, r)
			E11ReuseAfterEscape(c, r, "/svg.go")
			E11ReturnedScratch(c, r, "/svg.go")
		},
	})
}

func init() {
	register("C16", &Property{
		Title:       "Text layout places every character once, inside the box, on ordered lines",
		Explanation: "Decides two structural clauses. (1) the structural part of 'lines are stacked monotonically by their line heights … Text.Bounds/Heights enclose all spans': a line's top/ascent/descent/bottom are pure component-wise math.Max folds over its spans (each accumulator folded with the same-named component of FontFace.heights(), inline objects' ascent/descent feeding the right pair), and Text.Heights combines the first line's ascent with the last line's descent. (2) a necessary condition of 'right-aligned lines end at the width, centred lines are centred, no line extends beyond the box unless Overflows is reported': the width the line breaker records for a feasible break includes the width of the penalty (the hyphen shown at the break), by the same guarded addition the fitting computation uses. NOT decided: everything else — that every character appears exactly once and in order, glyph/byte index bookkeeping, glue stretching, alignment, bidi reordering, Overflows, which are arithmetic over runtime arrays with no structural clause. Also runs the structural rules on Linebreak (registered for C17): the lines of a text box are those Linebreak chooses.",
		Run: func(c *core.Ctx, r *core.Report) {
			E11BidiRunOrigin(c, r)
			E4SwallowedGlueStops(c, r)
			E11ClusterOffsetBytes(c, r)
			E4GlueAfterBox(c, r)
			E4DeactivationWithoutPenaltyWidth(c, r)
			E4ListLinks(c, r)
			E11IndentOnEveryPath(c, r)
			E11ObjectOwnItem(c, r)
			E4UnboundedQuotientNotMultiplied(c, r)
			E11NoWrapWidthSkipsLeadingGlue(c, r)
			E3TextBoundsFold(c, r)
			E11AlignedWidthExcludesEOL(c, r)
			E3LineHeightsEverySpan(c, r)
			E3LineHeights(c, r)
			E11BreakWidth(c, r)
			E11SpanShift(c, r)
			E11GlyphCursor(c, r)
			E11ItemsCoverGlyphs(c, r)
			E11HyphenGuard(c, r)
			E11GlyphIndexDomain(c, r)
			E11DerivedBeforeUpdate(c, r)
			E11ResetComplete(c, r)
			E11StaleAfterBreak(c, r)
			// lines are chosen by Linebreak: the rules on it decide that step
			E4RunningTotalsFixed(c, r)
			E4NextToleranceRecorded(c, r)
			E4ClassRecordsTogether(c, r)
			E4ZeroGuardIsDivisor(c, r, "text")
			E4ForcedBreakForgets(c, r)
			E11SumNotOverwritten(c, r)
			E4LinebreakGuards(c, r)
			E4AllocCoversIndex(c, r)
			E4ForcedBreakDeactivates(c, r)
			E11BreakSums(c, r)
		},
	})
}

// c20APIRoots is the concurrent/deterministic API set derived from the text of C20.
func c20APIRoots(c *core.Ctx) []*ssa.Function {
	var out []*ssa.Function
	for _, m := range []string{"And", "Or", "Xor", "Not", "DivideBy", "Settle"} {
		out = append(out, c.SSAFunc("", "Path."+m), c.SSAFunc("", "Paths."+m))
	}
	for _, m := range []string{"Stroke", "Offset", "Flatten", "Dash"} {
		out = append(out, c.SSAFunc("", "Path."+m))
	}
	for _, f := range []string{"NewTextLine", "NewTextBox", "RichText.ToText", "FontFace.Glyphs", "FontFace.TextWidth", "FontFace.ToPath", "Font.Face", "FontFamily.Face",
		"LoadFont", "LoadFontFile", "LoadFontCollection", "LoadSystemFont", "FontFamily.LoadFont", "FontFamily.LoadFontFile", "FontFamily.LoadFontCollection", "FontFamily.LoadSystemFont",
		"Canvas.RenderTo", "Canvas.RenderViewTo"} {
		out = append(out, c.SSAFunc("", f))
	}
	out = append(out, c.SSAFunc("renderers/rasterizer", "Draw"))
	for _, b := range backends {
		for _, m := range []string{"RenderPath", "RenderText", "RenderImage"} {
			out = append(out, c.SSAFunc(b.rel, b.recv+"."+m))
		}
	}
	return out
}

func init() {
	register("C20", &Property{
		Title:       "Concurrent use on independent objects is race-free and deterministic",
		Explanation: "Decides, for every schedule and history: (1) no package-level variable of the module is stored outside package initialisation except inside a sync.Once/OnceFunc body, with the mutex of the same variable held (dominating Lock, no intervening Unlock), or through sync/atomic, and mutex-protected variables are also read under the mutex; (2) every function that reads the once-initialised pool variables is reachable from the concurrent API set only through a function whose once-call dominates all its other calls; (3) every object taken from a sync.Pool is completely overwritten or has every field stored before its first other use (no state carried between calls); (4) every range over a map in the module is order-independent by construction (collect-then-sort, commutative reductions, per-entry updates, total-order arg-best) or is a reviewed/known entry. NOT decided: races inside third-party packages, use-after-Put of pooled objects, writes through shared *Font objects (see E1 when wired), the naming of unnamed fonts by a global counter (inherent to the API).",
		Assumptions: []string{"sync, sync/atomic behave as documented", "the API set is the one listed in DESIGN.md §3 C20"},
		Run: func(c *core.Ctx, r *core.Report) {
			E7OptionsCopied(c, r)
			E7GlobalMapEscapes(c, r)
			E7CachedObjectWritten(c, r)
			E7FaceWithoutCache(c, r)
			E7PoolPutEscapes(c, r)
			E7MemoKey(c, r)
			E7Globals(c, r)
			E7GlobalEscape(c, r)
			E7OnceBeforeUse(c, r, c20APIRoots(c))
			E7PoolReinit(c, r)
			E7MapOrder(c, r)
			E7Clock(c, r)
			E7PointRelease(c, r)
			E11ReturnedScratch(c, r, ".go")
			E1SharedFont(c, r)
			E1FontLibraryCalls(c, r)
			E1SharedArgs(c, r)
		},
	})
}

func init() {
	register("C07", &Property{
		Title:       "Affine transformation of a path transforms every point of it",
		Explanation: "Decides one clause for every path and matrix: the rotation of elliptical arcs is handled in consistent angle units through Transform, Matrix.Rotate, Join, Reverse, the scanners and the arc helpers — a whole-package unit inference (radians/degrees) over SSA finds no value used in both units, the rotation slot of arc records is radians everywhere it is read or written, and the documented units of ArcTo/Arc/Matrix.Rotate (degrees) are reproduced. A missing or doubled conversion is invisible to tests whose arcs have rotation 0. NOT decided: the matrix algebra (Mul/Dot/Inv/T/Decompose), the eigen-decomposition in Transform, the sweep flip under reflection, which points a transformed segment contains.",
		Assumptions: []string{"unit seeds: math trigonometric functions take/return radians; x*180/π and x*π/180 are the only conversions", "values multiplied by non-constant factors get a fresh unit variable (no false conflicts from scalars)"},
		Run: func(c *core.Ctx, r *core.Report) {
			E3BoundingBoxes(c, r) // Rect.Transform and the hull methods: Fit, Clip and the views map boxes with them
			E11ArcRotationRewritten(c, r)
			E11ArcShortcutOrientation(c, r)
			E11SVGMatrixOrder(c, r)
			E8Units(c, r)
			E11SweepFlip(c, r)
			E11ConicFrame(c, r)
			E11RotationMerge(c, r)
			E11MatrixInverse(c, r)
			E11MatrixComposers(c, r)
			E11AboutIsConjugation(c, r)
			E11OmittedTerm(c, r)
			E11GramConsistency(c, r)
		},
	})
}

// RunMutant is the entry point of the self-validation sub-process (thorough tier).
func RunMutant(args []string) int { return runMutant(args) }

// SelfValidate runs the mutants and the negative control of a property (thorough tier).
func SelfValidate(id string, r *core.Report, extra map[string]any) { selfValidate(id, r, extra) }
