package core

import (
	"go/ast"
	"go/token"
)

// Flow is a small forward abstract interpreter over Go's structured statements. It is used for
// typestate rules (BT/ET, q/Q, save/restore) and for the pending-token grammar of emitted
// content streams. S must be comparable through Equal and joined through Join; loops are
// iterated to a fixpoint (bounded).
type Flow[S any] struct {
	Join  func(a, b S) S
	Equal func(a, b S) bool
	// Expr processes the effects (calls, in evaluation order) of an expression.
	Expr func(e ast.Expr, in S) S
	// Stmt may take over a whole statement (return handled=true); otherwise the walker
	// decomposes it and calls Expr on its expressions.
	Stmt func(s ast.Stmt, in S) (S, bool)
	// Exit is called with the state at every return statement and at the end of the body.
	Exit func(at ast.Node, s S)
	// Dead is the state after a statement that does not fall through (bottom).
	Dead func() S
	// IsDead reports bottom.
	IsDead func(s S) bool
	// Split (optional) refines the state by the outcome of an if-condition: it returns the
	// states under which the then- and else-branch are entered.
	Split func(cond ast.Expr, in S) (S, S, bool)

	loops []*loopCtx[S]
}

type loopCtx[S any] struct {
	label    string
	brk      []S
	cont     []S
	isSwitch bool
}

// Run interprets a function body from the initial state.
func (f *Flow[S]) Run(body *ast.BlockStmt, init S) {
	out := f.block(body.List, init)
	if !f.IsDead(out) {
		f.Exit(body, out)
	}
}

func (f *Flow[S]) joinAll(base S, xs []S) S {
	out := base
	for _, x := range xs {
		if f.IsDead(out) {
			out = x
		} else if !f.IsDead(x) {
			out = f.Join(out, x)
		}
	}
	return out
}

func (f *Flow[S]) block(stmts []ast.Stmt, in S) S {
	s := in
	for _, st := range stmts {
		if f.IsDead(s) {
			return s
		}
		s = f.stmt(st, s, "")
	}
	return s
}

func (f *Flow[S]) exprs(es []ast.Expr, in S) S {
	s := in
	for _, e := range es {
		if e != nil {
			s = f.Expr(e, s)
		}
	}
	return s
}

func (f *Flow[S]) stmt(st ast.Stmt, in S, label string) S {
	if st == nil {
		return in
	}
	if f.Stmt != nil {
		if out, ok := f.Stmt(st, in); ok {
			return out
		}
	}
	switch x := st.(type) {
	case *ast.BlockStmt:
		return f.block(x.List, in)
	case *ast.LabeledStmt:
		return f.stmt(x.Stmt, in, x.Label.Name)
	case *ast.ExprStmt:
		s := f.Expr(x.X, in)
		if call, ok := x.X.(*ast.CallExpr); ok {
			if id, ok := call.Fun.(*ast.Ident); ok && id.Name == "panic" {
				return f.Dead()
			}
		}
		return s
	case *ast.AssignStmt:
		s := f.exprs(x.Rhs, in)
		return f.exprs(x.Lhs, s)
	case *ast.IncDecStmt:
		return f.Expr(x.X, in)
	case *ast.DeclStmt:
		s := in
		if gd, ok := x.Decl.(*ast.GenDecl); ok {
			for _, sp := range gd.Specs {
				if vs, ok := sp.(*ast.ValueSpec); ok {
					s = f.exprs(vs.Values, s)
				}
			}
		}
		return s
	case *ast.SendStmt:
		return f.exprs([]ast.Expr{x.Chan, x.Value}, in)
	case *ast.GoStmt:
		return in
	case *ast.DeferStmt:
		return in
	case *ast.ReturnStmt:
		s := f.exprs(x.Results, in)
		f.Exit(x, s)
		return f.Dead()
	case *ast.BranchStmt:
		switch x.Tok {
		case token.BREAK, token.CONTINUE:
			name := ""
			if x.Label != nil {
				name = x.Label.Name
			}
			for i := len(f.loops) - 1; i >= 0; i-- {
				l := f.loops[i]
				if name != "" && l.label != name {
					continue
				}
				if x.Tok == token.CONTINUE && l.isSwitch {
					continue
				}
				if x.Tok == token.BREAK {
					l.brk = append(l.brk, in)
				} else {
					l.cont = append(l.cont, in)
				}
				break
			}
			return f.Dead()
		case token.GOTO:
			// not modelled: treated as an exit with the current state
			f.Exit(x, in)
			return f.Dead()
		}
		return in
	case *ast.IfStmt:
		s := f.stmt(x.Init, in, "")
		s = f.Expr(x.Cond, s)
		thenIn, elseIn := s, s
		if f.Split != nil {
			if a, b, ok := f.Split(x.Cond, s); ok {
				thenIn, elseIn = a, b
			}
		}
		thenOut := f.Dead()
		if !f.IsDead(thenIn) {
			thenOut = f.block(x.Body.List, thenIn)
		}
		elseOut := elseIn
		if x.Else != nil && !f.IsDead(elseIn) {
			elseOut = f.stmt(x.Else, elseIn, "")
		}
		return f.joinAll(f.Dead(), []S{thenOut, elseOut})
	case *ast.ForStmt:
		s := f.stmt(x.Init, in, "")
		return f.loop(label, s, func(head S) (S, S) {
			h := head
			if x.Cond != nil {
				h = f.Expr(x.Cond, h)
			}
			body := f.block(x.Body.List, h)
			exit := f.Dead()
			if x.Cond != nil {
				exit = h
			}
			return body, exit
		}, func(afterBody S) S {
			return f.stmt(x.Post, afterBody, "")
		})
	case *ast.RangeStmt:
		s := f.Expr(x.X, in)
		return f.loop(label, s, func(head S) (S, S) {
			return f.block(x.Body.List, head), head
		}, func(afterBody S) S { return afterBody })
	case *ast.SwitchStmt:
		s := f.stmt(x.Init, in, "")
		if x.Tag != nil {
			s = f.Expr(x.Tag, s)
		}
		return f.cases(label, x.Body, s)
	case *ast.TypeSwitchStmt:
		s := f.stmt(x.Init, in, "")
		s = f.stmt(x.Assign, s, "")
		return f.cases(label, x.Body, s)
	case *ast.SelectStmt:
		return f.cases(label, x.Body, in)
	}
	return in
}

func (f *Flow[S]) cases(label string, body *ast.BlockStmt, in S) S {
	lc := &loopCtx[S]{label: label, isSwitch: true}
	f.loops = append(f.loops, lc)
	outs := []S{}
	hasDefault := false
	var fall S = f.Dead()
	for _, cs := range body.List {
		var list []ast.Expr
		var stmts []ast.Stmt
		switch cc := cs.(type) {
		case *ast.CaseClause:
			list, stmts = cc.List, cc.Body
			if cc.List == nil {
				hasDefault = true
			}
		case *ast.CommClause:
			stmts = cc.Body
			if cc.Comm == nil {
				hasDefault = true
			}
		}
		s := f.exprs(list, in)
		if !f.IsDead(fall) {
			s = f.Join(s, fall)
		}
		out := f.block(stmts, s)
		fall = f.Dead()
		if n := len(stmts); n > 0 {
			if br, ok := stmts[n-1].(*ast.BranchStmt); ok && br.Tok == token.FALLTHROUGH {
				fall = out
				continue
			}
		}
		outs = append(outs, out)
	}
	f.loops = f.loops[:len(f.loops)-1]
	if !hasDefault {
		outs = append(outs, in)
	}
	outs = append(outs, lc.brk...)
	return f.joinAll(f.Dead(), outs)
}

// loop iterates a loop body to a fixpoint. body returns (state after body, state when the
// condition fails at the head); post is applied to the after-body state (and to continues).
func (f *Flow[S]) loop(label string, in S, body func(head S) (S, S), post func(S) S) S {
	head := in
	var exit S = f.Dead()
	var breaks []S
	for iter := 0; iter < 12; iter++ {
		lc := &loopCtx[S]{label: label}
		f.loops = append(f.loops, lc)
		after, ex := body(head)
		f.loops = f.loops[:len(f.loops)-1]
		exit = ex
		breaks = lc.brk
		back := f.joinAll(after, lc.cont)
		if !f.IsDead(back) {
			back = post(back)
		}
		next := f.joinAll(in, []S{back})
		if f.Equal(next, head) {
			break
		}
		head = next
	}
	return f.joinAll(exit, breaks)
}
