package core

import (
	"go/ast"
	"go/constant"
	"go/token"
	"go/types"
	"strings"

	"golang.org/x/tools/go/packages"
	"golang.org/x/tools/go/types/typeutil"
)

// Unparen strips parentheses.
func Unparen(e ast.Expr) ast.Expr {
	for {
		p, ok := e.(*ast.ParenExpr)
		if !ok {
			return e
		}
		e = p.X
	}
}

// CalleeOf resolves the called function or method through type information (nil for
// conversions, builtins and calls of function values).
func CalleeOf(info *types.Info, call *ast.CallExpr) *types.Func {
	if f, ok := typeutil.Callee(info, call).(*types.Func); ok {
		return f
	}
	return nil
}

// IsPkgFunc reports whether call resolves to pkgpath.name.
func IsPkgFunc(info *types.Info, call *ast.CallExpr, pkgpath, name string) bool {
	f := CalleeOf(info, call)
	return f != nil && f.Pkg() != nil && f.Pkg().Path() == pkgpath && f.Name() == name && f.Type().(*types.Signature).Recv() == nil
}

// MathFunc returns the name of the math function a call resolves to ("" if none).
func MathFunc(info *types.Info, e ast.Expr) (string, *ast.CallExpr) {
	call, ok := Unparen(e).(*ast.CallExpr)
	if !ok {
		return "", nil
	}
	f := CalleeOf(info, call)
	if f == nil || f.Pkg() == nil || f.Pkg().Path() != "math" {
		return "", nil
	}
	return f.Name(), call
}

// MethodName returns "pkgpath.Recv.Name" of a resolved method callee, or "pkgpath.Name" for a function.
func QualifiedCallee(f *types.Func) string {
	if f == nil {
		return ""
	}
	sig := f.Type().(*types.Signature)
	pk := ""
	if f.Pkg() != nil {
		pk = f.Pkg().Path()
	}
	if r := sig.Recv(); r != nil {
		t := r.Type()
		if p, ok := t.(*types.Pointer); ok {
			t = p.Elem()
		}
		if n, ok := t.(*types.Named); ok {
			return pk + "." + n.Obj().Name() + "." + f.Name()
		}
		if _, ok := t.Underlying().(*types.Interface); ok {
			return pk + ".(interface)." + f.Name()
		}
	}
	return pk + "." + f.Name()
}

// ConstName returns the name of the package-level constant an expression denotes ("" if none).
func ConstName(info *types.Info, e ast.Expr) string {
	switch x := Unparen(e).(type) {
	case *ast.Ident:
		if c, ok := info.Uses[x].(*types.Const); ok {
			return c.Name()
		}
	case *ast.SelectorExpr:
		if c, ok := info.Uses[x.Sel].(*types.Const); ok {
			return c.Name()
		}
	}
	return ""
}

// ConstVal returns the constant value of an expression, if the type checker folded it.
func ConstVal(info *types.Info, e ast.Expr) constant.Value {
	if tv, ok := info.Types[e]; ok && tv.Value != nil {
		return tv.Value
	}
	return nil
}

// ConstInt returns the folded integer value of an expression.
func ConstInt(info *types.Info, e ast.Expr) (int64, bool) {
	v := ConstVal(info, e)
	if v == nil {
		return 0, false
	}
	v = constant.ToInt(v)
	if v.Kind() != constant.Int {
		return 0, false
	}
	return constant.Int64Val(v)
}

// ObjOf returns the object an identifier denotes (use or def).
func ObjOf(info *types.Info, id *ast.Ident) types.Object {
	if o := info.Uses[id]; o != nil {
		return o
	}
	return info.Defs[id]
}

// RootIdent walks selector/index/star/paren chains down to the root identifier.
func RootIdent(e ast.Expr) *ast.Ident {
	for {
		switch x := e.(type) {
		case *ast.Ident:
			return x
		case *ast.SelectorExpr:
			e = x.X
		case *ast.IndexExpr:
			e = x.X
		case *ast.SliceExpr:
			e = x.X
		case *ast.StarExpr:
			e = x.X
		case *ast.ParenExpr:
			e = x.X
		case *ast.CallExpr:
			return nil
		default:
			return nil
		}
	}
}

// ExprKey renders an expression for structural comparison, identifiers resolved to objects
// where that matters is left to callers; this is the printed form without positions.
func ExprKey(e ast.Expr) string {
	return types.ExprString(e)
}

// IsPathDataSel reports whether e is a selection of field `d` of canvas.Path (through any pointer/struct chain).
func IsPathDataSel(info *types.Info, e ast.Expr) bool {
	sel, ok := Unparen(e).(*ast.SelectorExpr)
	if !ok {
		return false
	}
	s := info.Selections[sel]
	if s == nil || s.Kind() != types.FieldVal {
		return false
	}
	v, ok := s.Obj().(*types.Var)
	if !ok || !v.IsField() || v.Name() != "d" || v.Pkg() == nil || v.Pkg().Path() != Module {
		return false
	}
	// the field must belong to canvas.Path
	t := s.Recv()
	if p, ok := t.(*types.Pointer); ok {
		t = p.Elem()
	}
	n, ok := t.(*types.Named)
	return ok && n.Obj().Name() == "Path" && n.Obj().Pkg().Path() == Module
}

// EnclosingFunc finds the FuncDecl containing pos in a package.
func EnclosingFunc(p *packages.Package, pos token.Pos) *ast.FuncDecl {
	for _, f := range p.Syntax {
		if pos < f.Pos() || pos > f.End() {
			continue
		}
		for _, d := range f.Decls {
			if fd, ok := d.(*ast.FuncDecl); ok && fd.Pos() <= pos && pos <= fd.End() {
				return fd
			}
		}
	}
	return nil
}

// CaseConsts lists the constant names of a case clause (nil for default).
func CaseConsts(info *types.Info, cc *ast.CaseClause) []string {
	var out []string
	for _, e := range cc.List {
		if n := ConstName(info, e); n != "" {
			out = append(out, n)
		} else {
			out = append(out, "?"+ExprKey(e))
		}
	}
	return out
}

// CaseLabel is a stable descriptor of a case clause.
func CaseLabel(info *types.Info, cc *ast.CaseClause) string {
	if cc.List == nil {
		return "default"
	}
	return "case " + strings.Join(CaseConsts(info, cc), ",")
}

// DocText returns the doc comment of a declaration.
func DocText(fd *ast.FuncDecl) string {
	if fd.Doc == nil {
		return ""
	}
	return fd.Doc.Text()
}

// Norm prints a node with every identifier that denotes a function-local object (receiver,
// parameter, local variable) replaced by L<k>, numbered in order of first occurrence inside the
// node, and with all whitespace removed. Two snippets that differ only in the names of locals
// print identically, so shape rules written against Norm do not fire on renamings.
func (c *Ctx) Norm(p *packages.Package, n ast.Node) string {
	if n == nil {
		return ""
	}
	info := p.TypesInfo
	type saved struct {
		id   *ast.Ident
		name string
	}
	var restore []saved
	num := map[types.Object]int{}
	ast.Inspect(n, func(m ast.Node) bool {
		id, ok := m.(*ast.Ident)
		if !ok {
			return true
		}
		o := ObjOf(info, id)
		v, isVar := o.(*types.Var)
		if !isVar || v.IsField() || v.Parent() == nil || v.Parent() == p.Types.Scope() || v.Parent() == types.Universe {
			return true
		}
		k, seen := num[o]
		if !seen {
			k = len(num)
			num[o] = k
		}
		restore = append(restore, saved{id, id.Name})
		id.Name = "L" + itoa(k)
		return true
	})
	out := c.Src(n)
	for _, s := range restore {
		s.id.Name = s.name
	}
	return squashStmts(out)
}

// squashStmts removes comments and whitespace; statement boundaries (newlines) become ';'.
func squashStmts(src string) string {
	var parts []string
	for _, line := range strings.Split(src, "\n") {
		if i := strings.Index(line, "//"); i >= 0 && !strings.Contains(line[:i], "\"") {
			line = line[:i]
		}
		line = strings.Join(strings.Fields(line), " ")
		if line == "" {
			continue
		}
		parts = append(parts, line)
	}
	out := strings.Join(parts, ";")
	// keep a space only between two identifier characters (func f, return x, x := range y)
	var b strings.Builder
	isId := func(ch byte) bool {
		return ch == '_' || ch >= '0' && ch <= '9' || ch >= 'a' && ch <= 'z' || ch >= 'A' && ch <= 'Z'
	}
	for i := 0; i < len(out); i++ {
		if out[i] == ' ' {
			if i > 0 && i+1 < len(out) && isId(out[i-1]) && isId(out[i+1]) {
				b.WriteByte(' ')
			}
			continue
		}
		b.WriteByte(out[i])
	}
	res := b.String()
	for _, r := range [][2]string{{"{;", "{"}, {";}", "}"}, {";;", ";"}, {"(;", "("}, {";)", ")"}, {",;", ","}} {
		for strings.Contains(res, r[0]) {
			res = strings.ReplaceAll(res, r[0], r[1])
		}
	}
	return res
}

func itoa(i int) string {
	if i == 0 {
		return "0"
	}
	s := ""
	for i > 0 {
		s = string(rune('0'+i%10)) + s
		i /= 10
	}
	return s
}

// alphaTokens splits into identifier-like tokens and single other characters.
func alphaTokens(s string) []string {
	var out []string
	i := 0
	for i < len(s) {
		ch := s[i]
		isId := func(b byte) bool {
			return b == '_' || b == '$' || b >= '0' && b <= '9' || b >= 'a' && b <= 'z' || b >= 'A' && b <= 'Z'
		}
		if ch == ' ' {
			i++
			continue
		}
		if isId(ch) {
			j := i
			for j < len(s) && isId(s[j]) {
				j++
			}
			out = append(out, s[i:j])
			i = j
			continue
		}
		out = append(out, string(ch))
		i++
	}
	return out
}

func isLTok(t string) bool {
	if len(t) < 2 || t[0] != 'L' {
		return false
	}
	for _, ch := range t[1:] {
		if ch < '0' || ch > '9' {
			return false
		}
	}
	return true
}

func alphaMatchAt(pt, tt []string, at int) bool {
	if at+len(pt) > len(tt) {
		return false
	}
	bind := map[string]string{}
	used := map[string]string{}
	for i, p := range pt {
		t := tt[at+i]
		if strings.HasPrefix(p, "$") {
			if !isLTok(t) {
				return false
			}
			if b, ok := bind[p]; ok {
				if b != t {
					return false
				}
			} else {
				if u, taken := used[t]; taken && u != p {
					return false
				}
				bind[p] = t
				used[t] = p
			}
			continue
		}
		if p != t {
			return false
		}
	}
	return true
}

// AlphaMatch: the pattern (locals written as $name, no whitespace) equals the normalised text up to a
// consistent injective renaming of locals.
func AlphaMatch(pattern, text string) bool {
	pt, tt := alphaTokens(pattern), alphaTokens(text)
	return len(pt) == len(tt) && alphaMatchAt(pt, tt, 0)
}

// AlphaContains: the pattern occurs in the text as a contiguous token sequence up to renaming of locals.
func AlphaContains(pattern, text string) bool {
	pt, tt := alphaTokens(pattern), alphaTokens(text)
	for at := 0; at+len(pt) <= len(tt); at++ {
		if alphaMatchAt(pt, tt, at) {
			return true
		}
	}
	return false
}

// AlphaIndex is AlphaContains returning the token index of the first match (-1 if none).
func AlphaIndex(pattern, text string) int {
	pt, tt := alphaTokens(pattern), alphaTokens(text)
	for at := 0; at+len(pt) <= len(tt); at++ {
		if alphaMatchAt(pt, tt, at) {
			return at
		}
	}
	return -1
}

// AlphaSeq reports whether the patterns occur in this order (each after the previous one).
func AlphaSeq(text string, patterns ...string) (int, bool) {
	tt := alphaTokens(text)
	at := 0
	for i, p := range patterns {
		pt := alphaTokens(p)
		found := -1
		for j := at; j+len(pt) <= len(tt); j++ {
			if alphaMatchAt(pt, tt, j) {
				found = j
				break
			}
		}
		if found < 0 {
			return i, false
		}
		at = found + len(pt)
	}
	return len(patterns), true
}
