package core

import (
	"go/ast"
	"go/constant"
	"go/token"
	"go/types"
	"strings"

	"golang.org/x/tools/go/packages"
	"golang.org/x/tools/go/types/typeutil"
)

// Unparen strips parentheses.
func Unparen(e ast.Expr) ast.Expr {
	for {
		p, ok := e.(*ast.ParenExpr)
		if !ok {
			return e
		}
		e = p.X
	}
}

// CalleeOf resolves the called function or method through type information (nil for
// conversions, builtins and calls of function values).
func CalleeOf(info *types.Info, call *ast.CallExpr) *types.Func {
	if f, ok := typeutil.Callee(info, call).(*types.Func); ok {
		return f
	}
	return nil
}

// IsPkgFunc reports whether call resolves to pkgpath.name.
func IsPkgFunc(info *types.Info, call *ast.CallExpr, pkgpath, name string) bool {
	f := CalleeOf(info, call)
	return f != nil && f.Pkg() != nil && f.Pkg().Path() == pkgpath && f.Name() == name && f.Type().(*types.Signature).Recv() == nil
}

// MathFunc returns the name of the math function a call resolves to ("" if none).
func MathFunc(info *types.Info, e ast.Expr) (string, *ast.CallExpr) {
	call, ok := Unparen(e).(*ast.CallExpr)
	if !ok {
		return "", nil
	}
	f := CalleeOf(info, call)
	if f == nil || f.Pkg() == nil || f.Pkg().Path() != "math" {
		return "", nil
	}
	return f.Name(), call
}

// MethodName returns "pkgpath.Recv.Name" of a resolved method callee, or "pkgpath.Name" for a function.
func QualifiedCallee(f *types.Func) string {
	if f == nil {
		return ""
	}
	sig := f.Type().(*types.Signature)
	pk := ""
	if f.Pkg() != nil {
		pk = f.Pkg().Path()
	}
	if r := sig.Recv(); r != nil {
		t := r.Type()
		if p, ok := t.(*types.Pointer); ok {
			t = p.Elem()
		}
		if n, ok := t.(*types.Named); ok {
			return pk + "." + n.Obj().Name() + "." + f.Name()
		}
		if _, ok := t.Underlying().(*types.Interface); ok {
			return pk + ".(interface)." + f.Name()
		}
	}
	return pk + "." + f.Name()
}

// ConstName returns the name of the package-level constant an expression denotes ("" if none).
func ConstName(info *types.Info, e ast.Expr) string {
	switch x := Unparen(e).(type) {
	case *ast.Ident:
		if c, ok := info.Uses[x].(*types.Const); ok {
			return c.Name()
		}
	case *ast.SelectorExpr:
		if c, ok := info.Uses[x.Sel].(*types.Const); ok {
			return c.Name()
		}
	}
	return ""
}

// ConstVal returns the constant value of an expression, if the type checker folded it.
func ConstVal(info *types.Info, e ast.Expr) constant.Value {
	if tv, ok := info.Types[e]; ok && tv.Value != nil {
		return tv.Value
	}
	return nil
}

// ConstInt returns the folded integer value of an expression.
func ConstInt(info *types.Info, e ast.Expr) (int64, bool) {
	v := ConstVal(info, e)
	if v == nil {
		return 0, false
	}
	v = constant.ToInt(v)
	if v.Kind() != constant.Int {
		return 0, false
	}
	return constant.Int64Val(v)
}

// ObjOf returns the object an identifier denotes (use or def).
func ObjOf(info *types.Info, id *ast.Ident) types.Object {
	if o := info.Uses[id]; o != nil {
		return o
	}
	return info.Defs[id]
}

// RootIdent walks selector/index/star/paren chains down to the root identifier.
func RootIdent(e ast.Expr) *ast.Ident {
	for {
		switch x := e.(type) {
		case *ast.Ident:
			return x
		case *ast.SelectorExpr:
			e = x.X
		case *ast.IndexExpr:
			e = x.X
		case *ast.SliceExpr:
			e = x.X
		case *ast.StarExpr:
			e = x.X
		case *ast.ParenExpr:
			e = x.X
		case *ast.CallExpr:
			return nil
		default:
			return nil
		}
	}
}

// ExprKey renders an expression for structural comparison, identifiers resolved to objects
// where that matters is left to callers; this is the printed form without positions.
func ExprKey(e ast.Expr) string {
	return types.ExprString(e)
}

// IsPathDataSel reports whether e is a selection of field `d` of canvas.Path (through any pointer/struct chain).
func IsPathDataSel(info *types.Info, e ast.Expr) bool {
	sel, ok := Unparen(e).(*ast.SelectorExpr)
	if !ok {
		return false
	}
	s := info.Selections[sel]
	if s == nil || s.Kind() != types.FieldVal {
		return false
	}
	v, ok := s.Obj().(*types.Var)
	if !ok || !v.IsField() || v.Name() != "d" || v.Pkg() == nil || v.Pkg().Path() != Module {
		return false
	}
	// the field must belong to canvas.Path
	t := s.Recv()
	if p, ok := t.(*types.Pointer); ok {
		t = p.Elem()
	}
	n, ok := t.(*types.Named)
	return ok && n.Obj().Name() == "Path" && n.Obj().Pkg().Path() == Module
}

// EnclosingFunc finds the FuncDecl containing pos in a package.
func EnclosingFunc(p *packages.Package, pos token.Pos) *ast.FuncDecl {
	for _, f := range p.Syntax {
		if pos < f.Pos() || pos > f.End() {
			continue
		}
		for _, d := range f.Decls {
			if fd, ok := d.(*ast.FuncDecl); ok && fd.Pos() <= pos && pos <= fd.End() {
				return fd
			}
		}
	}
	return nil
}

// CaseConsts lists the constant names of a case clause (nil for default).
func CaseConsts(info *types.Info, cc *ast.CaseClause) []string {
	var out []string
	for _, e := range cc.List {
		if n := ConstName(info, e); n != "" {
			out = append(out, n)
		} else {
			out = append(out, "?"+ExprKey(e))
		}
	}
	return out
}

// CaseLabel is a stable descriptor of a case clause.
func CaseLabel(info *types.Info, cc *ast.CaseClause) string {
	if cc.List == nil {
		return "default"
	}
	return "case " + strings.Join(CaseConsts(info, cc), ",")
}

// DocText returns the doc comment of a declaration.
func DocText(fd *ast.FuncDecl) string {
	if fd.Doc == nil {
		return ""
	}
	return fd.Doc.Text()
}
