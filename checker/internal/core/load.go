// Package core holds what every engine shares: loading /repo's current working tree,
// obligations and findings, the known-findings ledger and the evidence writer.
package core

import (
	"bytes"
	"fmt"
	"go/ast"
	"go/printer"
	"go/token"
	"go/types"
	"os"
	"path/filepath"
	"sort"
	"strings"

	"golang.org/x/tools/go/callgraph"
	"golang.org/x/tools/go/callgraph/cha"
	"golang.org/x/tools/go/callgraph/vta"
	"golang.org/x/tools/go/packages"
	"golang.org/x/tools/go/ssa"
	"golang.org/x/tools/go/ssa/ssautil"
)

const Module = "github.com/tdewolff/canvas"

// QuickPatterns is the package set every check loads.
var QuickPatterns = []string{".", "./text", "./renderers/pdf", "./renderers/ps", "./renderers/svg", "./renderers/rasterizer"}

// ThoroughExtra is added in the thorough tier (dispatch targets and callers of the library).
var ThoroughExtra = []string{"./renderers", "./renderers/tex", "./layout"}

// Ctx is one loaded view of the repository.
type Ctx struct {
	RepoDir  string
	Tier     string
	Seed     int64
	Overlay  map[string][]byte
	Patterns []string

	Fset *token.FileSet
	Pkgs []*packages.Package          // root packages (those matched by Patterns)
	All  map[string]*packages.Package // every package by path

	prog *ssa.Program
	cg   *callgraph.Graph
	ssaP map[string]*ssa.Package
}

// RepoDir returns the repository under analysis (CANVAS_REPO overrides /repo; used for self-tests on scratch copies).
func RepoDirFromEnv() string {
	if d := os.Getenv("CANVAS_REPO"); d != "" {
		return d
	}
	return "/repo"
}

// Load type-checks the package set from source. Any load or type error inside the
// module's non-example packages is an infrastructure failure.
func Load(repo, tier string, overlay map[string][]byte) (*Ctx, error) {
	pats := append([]string{}, QuickPatterns...)
	if tier == "thorough" {
		pats = append(pats, ThoroughExtra...)
	}
	// go/packages resolves the go command through this process's PATH; /repo needs go >= 1.24.1
	// and the newer toolchain is pre-installed beside the default one
	if p := os.Getenv("PATH"); !strings.HasPrefix(p, "/opt/veriftools/go1.26.8/bin") {
		os.Setenv("PATH", "/opt/veriftools/go1.26.8/bin:"+p)
	}
	env := []string{}
	for _, e := range os.Environ() {
		if strings.HasPrefix(e, "GOWORK=") || strings.HasPrefix(e, "GOFLAGS=") {
			continue
		}
		if strings.HasPrefix(e, "PATH=") {
			// /repo needs go >= 1.24.1; the newer toolchain is pre-installed beside the default one
			e = "PATH=/opt/veriftools/go1.26.8/bin:" + strings.TrimPrefix(e, "PATH=")
		}
		env = append(env, e)
	}
	env = append(env, "GOFLAGS=-mod=mod", "GOPROXY=off", "GOSUMDB=off", "GOTOOLCHAIN=local", "CGO_ENABLED=0", "GOWORK=off")
	cfg := &packages.Config{
		Mode:    packages.LoadAllSyntax,
		Dir:     repo,
		Env:     env,
		Tests:   false,
		Overlay: overlay,
	}
	pkgs, err := packages.Load(cfg, pats...)
	if err != nil {
		return nil, fmt.Errorf("packages.Load: %v", err)
	}
	if len(pkgs) < len(pats) {
		return nil, fmt.Errorf("loaded %d root packages for %d patterns", len(pkgs), len(pats))
	}
	c := &Ctx{RepoDir: repo, Tier: tier, Overlay: overlay, Patterns: pats, Pkgs: pkgs, All: map[string]*packages.Package{}}
	var errs []string
	packages.Visit(pkgs, nil, func(p *packages.Package) {
		c.All[p.PkgPath] = p
		if c.Fset == nil && p.Fset != nil {
			c.Fset = p.Fset
		}
		for _, e := range p.Errors {
			errs = append(errs, p.PkgPath+": "+e.Error())
		}
		if p.PkgPath != "unsafe" && (p.Types == nil || (len(p.Syntax) == 0 && len(p.GoFiles) > 0)) {
			errs = append(errs, p.PkgPath+": not type-checked from source")
		}
	})
	if len(errs) > 0 {
		sort.Strings(errs)
		if len(errs) > 8 {
			errs = errs[:8]
		}
		return nil, fmt.Errorf("load/type errors: %s", strings.Join(errs, "; "))
	}
	if len(c.All) < 50 {
		return nil, fmt.Errorf("only %d packages loaded", len(c.All))
	}
	for _, p := range pkgs {
		if p.PkgPath != Module && !strings.HasPrefix(p.PkgPath, Module+"/") {
			return nil, fmt.Errorf("root package %s is not in %s", p.PkgPath, Module)
		}
	}
	if os.Getenv("CANVASCHECK_NO_CANON") == "" {
		for path, p := range c.All {
			if path == Module || strings.HasPrefix(path, Module+"/") {
				canonComparisons(p)
			}
		}
	}
	return c, nil
}

// canonComparisons puts every comparison of the module's syntax trees into one orientation, so
// that no rule depends on which operand the author wrote first: `a > b` becomes `b < a`, `a >= b`
// becomes `b <= a`; in `==`/`!=` a constant (or nil) operand goes to the right, and two
// non-constant operands are ordered by their printed form. The operands are swapped in place:
// the nodes keep their identity, so the type information (and the SSA built afterwards) stays
// valid; the swap is behaviour-preserving except for the evaluation order of the two operands.
func canonComparisons(p *packages.Package) {
	info := p.TypesInfo
	isConst := func(e ast.Expr) bool {
		if tv, ok := info.Types[e]; ok && (tv.Value != nil || tv.IsNil()) {
			return true
		}
		return false
	}
	var pending []func()
	for _, f := range p.Syntax {
		ast.Inspect(f, func(n ast.Node) bool {
			be, ok := n.(*ast.BinaryExpr)
			if !ok {
				return true
			}
			order := func() {
				cx, cy := isConst(be.X), isConst(be.Y)
				switch {
				case cx && !cy:
					be.X, be.Y = be.Y, be.X
				case cx == cy:
					if types.ExprString(be.X) > types.ExprString(be.Y) {
						be.X, be.Y = be.Y, be.X
					}
				}
			}
			switch be.Op {
			case token.GTR:
				be.X, be.Y, be.Op = be.Y, be.X, token.LSS
			case token.GEQ:
				be.X, be.Y, be.Op = be.Y, be.X, token.LEQ
			case token.EQL, token.NEQ:
				pending = append(pending, order)
			case token.MUL, token.ADD:
				// commutative on numbers (not on strings); the two operands of one node are
				// ordered, the association of a chain is left as written (it decides the rounding)
				if os.Getenv("CANVASCHECK_NO_CANON_ARITH") == "" {
					if t := info.TypeOf(be); t != nil {
						if b, ok := t.Underlying().(*types.Basic); ok && b.Info()&types.IsNumeric != 0 {
							pending = append(pending, order)
						}
					}
				}
			}
			return true
		})
		// operands are ordered bottom-up, so that the printed form of an operand is already canonical
		for i := len(pending) - 1; i >= 0; i-- {
			pending[i]()
		}
		pending = pending[:0]
	}
}

// Pkg returns a loaded package by import path suffix relative to the module ("" = root package).
func (c *Ctx) Pkg(rel string) *packages.Package {
	path := Module
	if rel != "" {
		path += "/" + rel
	}
	return c.All[path]
}

// MustPkg is Pkg that reports an unresolved anchor as an infrastructure error.
func (c *Ctx) MustPkg(rel string) *packages.Package {
	p := c.Pkg(rel)
	if p == nil {
		panic(Infra("package " + rel + " not loaded"))
	}
	return p
}

// Infra is panicked by engines for an unresolved anchor or an analysis they cannot complete.
type Infra string

func (i Infra) Error() string { return string(i) }

// Pos renders a position relative to the repository.
func (c *Ctx) Pos(p token.Pos) string {
	if !p.IsValid() {
		return "?"
	}
	ps := c.Fset.Position(p)
	f := ps.Filename
	if r, err := filepath.Rel(c.RepoDir, f); err == nil && !strings.HasPrefix(r, "..") {
		f = r
	} else if i := strings.Index(f, "/pkg/mod/"); i >= 0 {
		f = f[i+len("/pkg/mod/"):]
	}
	return fmt.Sprintf("%s:%d", f, ps.Line)
}

// Src returns the source text of a node (from the overlay if present).
func (c *Ctx) Src(n ast.Node) string {
	if n == nil {
		return ""
	}
	var b bytes.Buffer
	if err := printer.Fprint(&b, c.Fset, n); err != nil {
		return "?"
	}
	return b.String()
}

// FuncDecl finds a function or method declaration in a package: name is "Func" or "Recv.Method"
// (receiver named without '*').
func FuncDecl(p *packages.Package, name string) *ast.FuncDecl {
	recv, fn := "", name
	if i := strings.Index(name, "."); i >= 0 {
		recv, fn = name[:i], name[i+1:]
	}
	for _, f := range p.Syntax {
		for _, d := range f.Decls {
			fd, ok := d.(*ast.FuncDecl)
			if !ok || fd.Name.Name != fn {
				continue
			}
			if recv == "" && fd.Recv == nil {
				return fd
			}
			if recv != "" && fd.Recv != nil && len(fd.Recv.List) == 1 && RecvName(fd) == recv {
				return fd
			}
		}
	}
	return nil
}

// MustFuncDecl resolves an anchor or fails the check.
func MustFuncDecl(p *packages.Package, name string) *ast.FuncDecl {
	fd := FuncDecl(p, name)
	if fd == nil || fd.Body == nil {
		panic(Infra("anchor function " + p.PkgPath + "." + name + " not found"))
	}
	return fd
}

// RecvName is the receiver's named type without pointer or type parameters.
func RecvName(fd *ast.FuncDecl) string {
	if fd.Recv == nil || len(fd.Recv.List) == 0 {
		return ""
	}
	t := fd.Recv.List[0].Type
	for {
		switch x := t.(type) {
		case *ast.StarExpr:
			t = x.X
			continue
		case *ast.IndexExpr:
			t = x.X
			continue
		case *ast.ParenExpr:
			t = x.X
			continue
		case *ast.Ident:
			return x.Name
		}
		return ""
	}
}

// FuncName is "Recv.Method" or "Func".
func FuncName(fd *ast.FuncDecl) string {
	if r := RecvName(fd); r != "" {
		return r + "." + fd.Name.Name
	}
	return fd.Name.Name
}

// AllFuncDecls lists the declarations with bodies of a package, in source order.
func AllFuncDecls(p *packages.Package) []*ast.FuncDecl {
	var out []*ast.FuncDecl
	for _, f := range p.Syntax {
		for _, d := range f.Decls {
			if fd, ok := d.(*ast.FuncDecl); ok && fd.Body != nil {
				out = append(out, fd)
			}
		}
	}
	return out
}

// SSA builds (once) the SSA program of everything loaded.
func (c *Ctx) SSA() *ssa.Program {
	if c.prog != nil {
		return c.prog
	}
	prog, _ := ssautil.AllPackages(c.Pkgs, ssa.InstantiateGenerics)
	prog.Build()
	c.prog = prog
	c.ssaP = map[string]*ssa.Package{}
	for _, p := range prog.AllPackages() {
		c.ssaP[p.Pkg.Path()] = p
	}
	return prog
}

// SSAPkg returns the SSA package for a module-relative path.
func (c *Ctx) SSAPkg(rel string) *ssa.Package {
	c.SSA()
	path := Module
	if rel != "" {
		path += "/" + rel
	}
	p := c.ssaP[path]
	if p == nil {
		panic(Infra("ssa package " + rel + " not built"))
	}
	return p
}

// SSAPkgByPath returns any SSA package by import path.
func (c *Ctx) SSAPkgByPath(path string) *ssa.Package {
	c.SSA()
	return c.ssaP[path]
}

// CallGraph builds (once) the VTA call graph refined from CHA.
func (c *Ctx) CallGraph() *callgraph.Graph {
	if c.cg != nil {
		return c.cg
	}
	prog := c.SSA()
	c.cg = vta.CallGraph(ssautil.AllFunctions(prog), cha.CallGraph(prog))
	return c.cg
}

// SSAFunc resolves "Func" or "Recv.Method" / "*Recv.Method" in a module-relative package.
func (c *Ctx) SSAFunc(rel, name string) *ssa.Function {
	p := c.SSAPkg(rel)
	if i := strings.Index(name, "."); i >= 0 {
		recv, m := name[:i], name[i+1:]
		ptr := strings.HasPrefix(recv, "*")
		recv = strings.TrimPrefix(recv, "*")
		tm := p.Type(recv)
		if tm == nil {
			panic(Infra("type " + rel + "." + recv + " not found"))
		}
		var t types.Type = tm.Type()
		_ = ptr
		var synthetic *ssa.Function
		for _, tt := range []types.Type{t, types.NewPointer(t)} {
			sel := c.prog.MethodSets.MethodSet(tt).Lookup(p.Pkg, m)
			if sel != nil {
				if f := c.prog.MethodValue(sel); f != nil {
					if f.Synthetic == "" {
						return f
					}
					synthetic = f
				}
			}
		}
		if synthetic != nil {
			return synthetic
		}
		panic(Infra("method " + rel + "." + name + " not found"))
	}
	f := p.Func(name)
	if f == nil {
		panic(Infra("function " + rel + "." + name + " not found"))
	}
	return f
}

// InModule reports whether an SSA function belongs to the canvas module.
func InModule(fn *ssa.Function) bool {
	p := FuncPkgPath(fn)
	return p == Module || strings.HasPrefix(p, Module+"/")
}

// FuncPkgPath is the import path a function (incl. closures and instantiations) belongs to.
func FuncPkgPath(fn *ssa.Function) string {
	for fn != nil {
		if fn.Pkg != nil {
			return fn.Pkg.Pkg.Path()
		}
		if o := fn.Origin(); o != nil && o != fn {
			fn = o
			continue
		}
		if fn.Parent() != nil {
			fn = fn.Parent()
			continue
		}
		if fn.Object() != nil && fn.Object().Pkg() != nil {
			return fn.Object().Pkg().Path()
		}
		return ""
	}
	return ""
}

// ShortFunc renders an SSA function name with the module prefix shortened.
func ShortFunc(fn *ssa.Function) string {
	return strings.ReplaceAll(fn.String(), Module, "canvas")
}
