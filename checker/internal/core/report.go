package core

import (
	"encoding/json"
	"fmt"
	"os"
	"path/filepath"
	"sort"
	"strings"
	"time"
)

// Obligation is one rule instance the engine decided (or failed to decide).
type Obligation struct {
	Rule      string `json:"rule"`
	Construct string `json:"construct"`
	Pos       string `json:"pos,omitempty"`
	OK        bool   `json:"ok"`
	Note      string `json:"note,omitempty"`
}

// Finding is a violated obligation.
type Finding struct {
	Property  string   `json:"property"`
	Rule      string   `json:"rule"`
	Construct string   `json:"construct"`
	Pos       string   `json:"position"`
	Msg       string   `json:"message"`
	Witness   []string `json:"witness,omitempty"`
	Kind      string   `json:"kind,omitempty"` // "" | "infrastructure"
}

func (f Finding) Key() string { return f.Rule + "|" + f.Construct }

// Report accumulates what one property check covered.
type Report struct {
	Property    string
	Obligations []Obligation
	Findings    []Finding
	Instances   map[string]int // rule instance counts (what the recogniser classified)
	Floors      map[string]int // hand-confirmed minimum per instance counter
	Functions   map[string]bool
	CallSites   int
	Assumed     map[string]bool // external functions assumed pure etc.
	Notes       []string
	Rules       map[string]string // rule id -> one-line statement of the rule
	seen        map[string]bool
}

func NewReport(prop string) *Report {
	return &Report{Property: prop, Instances: map[string]int{}, Floors: map[string]int{}, Functions: map[string]bool{},
		Assumed: map[string]bool{}, Rules: map[string]string{}, seen: map[string]bool{}}
}

// Rule records the statement of a rule (printed in the evidence).
func (r *Report) Rule(id, text string) { r.Rules[id] = text }

// OK records a discharged obligation.
func (r *Report) OK(rule, construct, pos, note string) {
	k := rule + "|" + construct
	if r.seen[k] {
		return
	}
	r.seen[k] = true
	r.Obligations = append(r.Obligations, Obligation{rule, construct, pos, true, note})
}

// Fail records a violated obligation. Duplicate rule+construct keys are merged.
func (r *Report) Fail(rule, construct, pos, msg string, witness ...string) {
	k := rule + "|" + construct
	if r.seen[k+"#F"] {
		return
	}
	r.seen[k+"#F"] = true
	if !r.seen[k] {
		r.seen[k] = true
		r.Obligations = append(r.Obligations, Obligation{rule, construct, pos, false, msg})
	} else {
		for i := range r.Obligations {
			if r.Obligations[i].Rule == rule && r.Obligations[i].Construct == construct {
				r.Obligations[i].OK = false
				r.Obligations[i].Note = msg
			}
		}
	}
	r.Findings = append(r.Findings, Finding{Property: r.Property, Rule: rule, Construct: construct, Pos: pos, Msg: msg, Witness: witness})
}

// Infra records a failure of the machinery itself; it always fails the check.
func (r *Report) Infra(rule, msg string) {
	r.Findings = append(r.Findings, Finding{Property: r.Property, Rule: rule, Construct: "infrastructure", Msg: msg, Kind: "infrastructure"})
}

// Count adds to an instance counter; Floor sets its hand-confirmed minimum.
func (r *Report) Count(name string, n int) { r.Instances[name] += n }
func (r *Report) Floor(name string, n int) { r.Floors[name] = n }
func (r *Report) Func(name string)         { r.Functions[name] = true }
func (r *Report) Note(format string, a ...any) {
	r.Notes = append(r.Notes, fmt.Sprintf(format, a...))
}

// CheckFloors turns vacuous passes into failures.
func (r *Report) CheckFloors() {
	names := make([]string, 0, len(r.Floors))
	for n := range r.Floors {
		names = append(names, n)
	}
	sort.Strings(names)
	for _, n := range names {
		if r.Instances[n] < r.Floors[n] {
			r.Fail("floor", n, "", fmt.Sprintf("rule instance count %s = %d fell below the confirmed floor %d (recogniser no longer matches the code; the rule would pass vacuously)", n, r.Instances[n], r.Floors[n]))
		}
	}
}

// LedgerEntry is one line of known_findings.json.
type LedgerEntry struct {
	Property  string `json:"property"`
	Rule      string `json:"rule"`
	Construct string `json:"construct"`
	What      string `json:"what"`
	Status    string `json:"status"` // known | fixed
	Commit    string `json:"commit,omitempty"`
	Input     string `json:"failing_input,omitempty"`
}

func LoadLedger(path string) ([]LedgerEntry, error) {
	b, err := os.ReadFile(path)
	if err != nil {
		if os.IsNotExist(err) {
			return nil, nil
		}
		return nil, err
	}
	var doc struct {
		Entries []LedgerEntry `json:"entries"`
	}
	if err := json.Unmarshal(b, &doc); err != nil {
		return nil, err
	}
	return doc.Entries, nil
}

// Finish prints the verdict lines, writes replay files and the evidence file, and returns the exit code.
func (r *Report) Finish(verifDir, tier string, seed int64, start time.Time, explanation string, assumptions []string, extra map[string]any) int {
	r.CheckFloors()
	ledger, err := LoadLedger(filepath.Join(verifDir, "known_findings.json"))
	if err != nil {
		r.Infra("ledger", "cannot read known_findings.json: "+err.Error())
	}
	known := map[string]LedgerEntry{}
	for _, e := range ledger {
		if e.Status == "known" && e.Property == r.Property {
			known[e.Rule+"|"+e.Construct] = e
		}
	}
	sort.SliceStable(r.Findings, func(i, j int) bool { return r.Findings[i].Key() < r.Findings[j].Key() })
	sort.SliceStable(r.Obligations, func(i, j int) bool {
		a, b := r.Obligations[i], r.Obligations[j]
		if a.Rule != b.Rule {
			return a.Rule < b.Rule
		}
		return a.Construct < b.Construct
	})
	replayDir := filepath.Join(verifDir, "replay")
	os.MkdirAll(replayDir, 0o755)
	violations, knownN := 0, 0
	for i, f := range r.Findings {
		if e, ok := known[f.Key()]; ok && f.Kind == "" {
			fmt.Printf("KNOWN-FINDING: property=%s %s [%s at %s]\n", r.Property, e.What, f.Key(), f.Pos)
			knownN++
			continue
		}
		violations++
		name := fmt.Sprintf("%s-%02d-%s.json", r.Property, i, sanitize(f.Key()))
		path := filepath.Join(replayDir, name)
		b, _ := json.MarshalIndent(f, "", " ")
		os.WriteFile(path, b, 0o644)
		fmt.Printf("%s: [%s] %s: %s\n", f.Pos, f.Rule, f.Construct, f.Msg)
		for _, w := range f.Witness {
			fmt.Printf("    %s\n", w)
		}
		fmt.Printf("VIOLATION property=%s replay=%s\n", r.Property, path)
	}
	discharged := 0
	for _, o := range r.Obligations {
		if o.OK {
			discharged++
		}
	}
	// samples: a spread of obligations written out
	var samples []any
	step := 1
	if len(r.Obligations) > 12 {
		step = len(r.Obligations) / 12
	}
	for i := 0; i < len(r.Obligations) && len(samples) < 14; i += step {
		samples = append(samples, r.Obligations[i])
	}
	for _, o := range r.Obligations {
		if !o.OK && len(samples) < 40 {
			samples = append(samples, o)
		}
	}
	distinct := map[string]bool{}
	for _, o := range r.Obligations {
		distinct[o.Rule+"|"+o.Construct] = true
	}
	fns := make([]string, 0, len(r.Functions))
	for f := range r.Functions {
		fns = append(fns, f)
	}
	sort.Strings(fns)
	assumedL := make([]string, 0, len(r.Assumed))
	for f := range r.Assumed {
		assumedL = append(assumedL, f)
	}
	sort.Strings(assumedL)
	cov := map[string]any{
		"explanation":          explanation,
		"obligations":          len(r.Obligations),
		"discharged":           discharged,
		"evaluations":          len(r.Obligations),
		"distinct_nontrivial":  len(distinct),
		"rule":                 "one obligation per rule instance, keyed rule|construct (package-qualified function plus a stable descriptor, never a line number); distinct = distinct keys; every obligation is non-trivial in the sense that the recogniser matched a construct in the current source and the rule was evaluated on it",
		"samples":              samples,
		"rules":                r.Rules,
		"rule_instances":       r.Instances,
		"rule_instance_floors": r.Floors,
		"functions_analysed":   fns,
		"call_sites":           r.CallSites,
		"notes":                r.Notes,
		"known_findings":       knownN,
		"exhaustive":           false,
	}
	if len(assumedL) > 0 {
		cov["external_assumed"] = assumedL
	}
	for k, v := range extra {
		cov[k] = v
	}
	ev := map[string]any{
		"property_id": r.Property,
		"tier":        tier,
		"seed":        seed,
		"level":       "other",
		"coverage":    cov,
		"assumptions": assumptions,
		"wall_s":      time.Since(start).Seconds(),
		"violations":  violations,
	}
	os.MkdirAll(filepath.Join(verifDir, "evidence"), 0o755)
	b, _ := json.MarshalIndent(ev, "", " ")
	if err := os.WriteFile(filepath.Join(verifDir, "evidence", r.Property+".json"), append(b, '\n'), 0o644); err != nil {
		fmt.Printf("cannot write evidence: %v\n", err)
		return 1
	}
	fmt.Printf("%s tier=%s obligations=%d discharged=%d known=%d violations=%d wall=%.1fs\n", r.Property, tier, len(r.Obligations), discharged, knownN, violations, time.Since(start).Seconds())
	if violations > 0 {
		return 1
	}
	return 0
}

func sanitize(s string) string {
	var b strings.Builder
	for _, c := range s {
		switch {
		case c >= 'a' && c <= 'z', c >= 'A' && c <= 'Z', c >= '0' && c <= '9', c == '.', c == '-':
			b.WriteRune(c)
		default:
			b.WriteByte('_')
		}
	}
	out := b.String()
	if len(out) > 90 {
		out = out[:90]
	}
	return out
}
